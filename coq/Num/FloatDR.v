(** C02 — floating point: the facts about binary32 inside binary64 that the float32 rows rest on,
    proved from Flocq's specification theorems of the Binary layer ([binary_normalize_correct],
    [Bplus_correct], ...) and Flocq's theory of innocuous double rounding (Prop/Double_rounding.v:
    a sum / difference / product / quotient of two precision-p numbers rounded to precision
    p' >= 2p+2 and then to precision p is the directly rounded result).
    [up] is exact; [down] is one rounding to nearest even with overflow to infinity. *)
From Coq Require Import ZArith Reals Bool Lia Lra.
From Flocq Require Import Core BinarySingleNaN Double_rounding.
From Verif Require Import Num.FloatBase.
Open Scope R_scope.

Notation fexp32 := (SpecFloat.fexp 24 128).
Notation fexp64 := (SpecFloat.fexp 53 1024).
Notation rnd32 := (round radix2 fexp32 ZnearestE).
Notation rnd64 := (round radix2 fexp64 ZnearestE).

Lemma fexp32_FLT : fexp32 = FLT_exp (-149) 24. Proof. reflexivity. Qed.
Lemma fexp64_FLT : fexp64 = FLT_exp (-1074) 53. Proof. reflexivity. Qed.

Local Instance valid32 : Valid_exp fexp32 := FLT_exp_valid (-149) 24.
Local Instance valid64 : Valid_exp fexp64 := FLT_exp_valid (-1074) 53.

Lemma format32_64 r : generic_format radix2 fexp32 r -> generic_format radix2 fexp64 r.
Proof.
  apply generic_inclusion_mag. intros _. unfold SpecFloat.fexp, SpecFloat.emin. lia.
Qed.

(* ------------------------------------------------------------------ signs of finite numbers *)

Lemma sign_F2R (s : bool) (m : positive) (e : Z) :
  let x := F2R (Float radix2 (cond_Zopp s (Zpos m)) e) in
  Rcompare x 0 = (if s then Lt else Gt) /\ Rlt_bool x 0 = s.
Proof.
  intros x. destruct s; cbn [cond_Zopp] in x.
  - assert (x < 0) by (apply F2R_lt_0; cbn; lia). split; [now apply Rcompare_Lt | now apply Rlt_bool_true].
  - assert (0 < x) by (apply F2R_gt_0; cbn; lia). split; [now apply Rcompare_Gt | apply Rlt_bool_false; lra].
Qed.

Lemma B2R_sign {p e} (x : binary_float p e) :
  is_finite x = true -> if Bsign x then B2R x <= 0 else 0 <= B2R x.
Proof.
  destruct x as [s|s| |s m ex H]; try discriminate; intros _; cbn [Bsign B2R].
  - destruct s; lra.
  - destruct s; [apply F2R_le_0 | apply F2R_ge_0]; cbn; lia.
Qed.

Lemma finite_not_nan {p e} (x : binary_float p e) : is_finite x = true -> is_nan x = false.
Proof. destruct x; try discriminate; reflexivity. Qed.

(* ------------------------------------------------------------------ up is exact *)

Lemma bpow_128_1024 : bpow radix2 128 < bpow radix2 1024.
Proof. apply bpow_lt. lia. Qed.

Theorem up_finite_correct (x : f32) :
  is_finite x = true -> B2R (up x) = B2R x /\ is_finite (up x) = true /\ Bsign (up x) = Bsign x.
Proof.
  destruct x as [s|s| |s m e H]; try discriminate; intros _.
  - repeat split.
  - unfold up, fconv.
    pose proof (binary_normalize_correct 53 1024 _ _ mode_NE (cond_Zopp s (Zpos m)) e s) as C.
    cbv zeta in C. cbn [round_mode] in C.
    set (X := B754_finite s m e H : f32) in *.
    assert (HX : F2R (Float radix2 (cond_Zopp s (Zpos m)) e) = B2R X) by reflexivity.
    rewrite HX in C.
    rewrite round_generic in C; [| auto with typeclass_instances | apply format32_64; apply generic_format_B2R].
    rewrite Rlt_bool_true in C.
    2:{ eapply Rlt_trans; [apply abs_B2R_lt_emax | apply bpow_128_1024]. }
    destruct C as (C1 & C2 & C3). repeat split; auto.
    rewrite C3. rewrite <- HX. destruct (sign_F2R s m e) as [-> _]. destruct s; reflexivity.
Qed.

(* ------------------------------------------------------------------ down is one rounding *)

Theorem down_correct (z : f64) :
  is_finite z = true ->
  if Rlt_bool (Rabs (rnd32 (B2R z))) (bpow radix2 128) then
    B2R (down z) = rnd32 (B2R z) /\ is_finite (down z) = true /\ Bsign (down z) = Bsign z
  else B2SF (down z) = binary_overflow 24 128 mode_NE (Bsign z).
Proof.
  destruct z as [s|s| |s m e H]; try discriminate; intros _.
  - cbn [B2R]. rewrite round_0; [|auto with typeclass_instances]. rewrite Rabs_R0.
    rewrite Rlt_bool_true by apply bpow_gt_0. repeat split.
  - unfold down, fconv.
    pose proof (binary_normalize_correct 24 128 _ _ mode_NE (cond_Zopp s (Zpos m)) e s) as C.
    cbv zeta in C. cbn [round_mode] in C.
    set (X := B754_finite s m e H : f64) in *.
    assert (HX : F2R (Float radix2 (cond_Zopp s (Zpos m)) e) = B2R X) by reflexivity.
    destruct (sign_F2R s m e) as [S1 S2]. cbv zeta in S1, S2.
    rewrite HX in C, S1, S2.
    destruct (Rlt_bool (Rabs (rnd32 (B2R X))) (bpow radix2 128)).
    + destruct C as (C1 & C2 & C3). repeat split; auto. rewrite C3, S1. destruct s; reflexivity.
    + rewrite C, S2. reflexivity.
Qed.

Theorem down_up (x : f32) : down (up x) = x.
Proof.
  destruct x as [s|s| |s m e H]; try reflexivity.
  set (X := B754_finite s m e H : f32).
  destruct (up_finite_correct X eq_refl) as (U1 & U2 & U3).
  pose proof (down_correct (up X) U2) as D. rewrite U1 in D.
  rewrite round_generic in D; [| auto with typeclass_instances | apply generic_format_B2R].
  rewrite Rlt_bool_true in D by apply abs_B2R_lt_emax.
  destruct D as (D1 & D2 & D3). apply B2R_Bsign_inj; auto. congruence.
Qed.

(* ------------------------------------------------------------------ comparisons, negation *)

Theorem cmp_up (x y : f32) : Bcompare (up x) (up y) = Bcompare x y.
Proof.
  destruct (is_finite x) eqn:Fx; destruct (is_finite y) eqn:Fy.
  - destruct (up_finite_correct x Fx) as (X1 & X2 & _). destruct (up_finite_correct y Fy) as (Y1 & Y2 & _).
    rewrite !Bcompare_correct by assumption. rewrite X1, Y1. reflexivity.
  - destruct (up_finite_correct x Fx) as (_ & X2 & _).
    destruct y as [s|s| |s m e H]; try discriminate; cbn [up fconv];
      destruct (up x) as [s'|s'| |s' m' e' H']; try discriminate;
      destruct x as [s''|s''| |s'' m'' e'' H'']; try discriminate; reflexivity.
  - destruct (up_finite_correct y Fy) as (_ & Y2 & _).
    destruct x as [s|s| |s m e H]; try discriminate; cbn [up fconv];
      destruct (up y) as [s'|s'| |s' m' e' H']; try discriminate;
      destruct y as [s''|s''| |s'' m'' e'' H'']; try discriminate; reflexivity.
  - destruct x as [s|s| |s m e H]; try discriminate; destruct y as [s'|s'| |s' m' e' H']; try discriminate; reflexivity.
Qed.

Lemma up_opp (x : f32) : up (Bopp x) = Bopp (up x).
Proof.
  destruct x as [s|s| |s m e H]; try reflexivity.
  set (X := B754_finite s m e H : f32).
  destruct (up_finite_correct X eq_refl) as (U1 & U2 & U3).
  assert (FO : is_finite (Bopp X) = true) by reflexivity.
  destruct (up_finite_correct (Bopp X) FO) as (V1 & V2 & V3).
  apply B2R_Bsign_inj; auto.
  - rewrite is_finite_Bopp. exact U2.
  - rewrite V1, !B2R_Bopp, U1. reflexivity.
  - rewrite V3, Bsign_Bopp by reflexivity. rewrite Bsign_Bopp by (apply finite_not_nan; exact U2). rewrite U3. reflexivity.
Qed.

Theorem opp_up (x : f32) : down (Bopp (up x)) = Bopp x.
Proof. rewrite <- up_opp. apply down_up. Qed.
