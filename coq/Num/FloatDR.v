(** C02 — floating point: the facts about binary32 inside binary64 that the float32 rows rest on,
    proved from Flocq's specification theorems of the Binary layer ([binary_normalize_correct],
    [Bplus_correct], ...) and Flocq's theory of innocuous double rounding (Prop/Double_rounding.v:
    a sum / difference / product / quotient of two precision-p numbers rounded to precision
    p' >= 2p+2 and then to precision p is the directly rounded result).
    [up] is exact; [down] is one rounding to nearest even with overflow to infinity. *)
From Coq Require Import ZArith Reals Bool Lia Lra.
From Flocq Require Import Core BinarySingleNaN Double_rounding.
From Verif Require Import Num.FloatBase.
Open Scope R_scope.

Notation fexp32 := (SpecFloat.fexp 24 128).
Notation fexp64 := (SpecFloat.fexp 53 1024).
Notation rnd32 := (round radix2 fexp32 ZnearestE).
Notation rnd64 := (round radix2 fexp64 ZnearestE).

Lemma fexp32_FLT : fexp32 = FLT_exp (-149) 24. Proof. reflexivity. Qed.
Lemma fexp64_FLT : fexp64 = FLT_exp (-1074) 53. Proof. reflexivity. Qed.

Local Instance valid32 : Valid_exp fexp32 := FLT_exp_valid (-149) 24.
Local Instance valid64 : Valid_exp fexp64 := FLT_exp_valid (-1074) 53.

Lemma format32_64 r : generic_format radix2 fexp32 r -> generic_format radix2 fexp64 r.
Proof.
  apply generic_inclusion_mag. intros _. unfold SpecFloat.fexp, SpecFloat.emin. lia.
Qed.

(* ------------------------------------------------------------------ signs of finite numbers *)

Lemma sign_F2R (s : bool) (m : positive) (e : Z) :
  let x := F2R (Float radix2 (cond_Zopp s (Zpos m)) e) in
  Rcompare x 0 = (if s then Lt else Gt) /\ Rlt_bool x 0 = s.
Proof.
  intros x. destruct s; cbn [cond_Zopp] in x.
  - assert (x < 0) by (apply F2R_lt_0; cbn; lia). split; [now apply Rcompare_Lt | now apply Rlt_bool_true].
  - assert (0 < x) by (apply F2R_gt_0; cbn; lia). split; [now apply Rcompare_Gt | apply Rlt_bool_false; lra].
Qed.

Lemma B2R_sign {p e} (x : binary_float p e) :
  is_finite x = true -> if Bsign x then B2R x <= 0 else 0 <= B2R x.
Proof.
  destruct x as [s|s| |s m ex H]; try discriminate; intros _; cbn [Bsign B2R].
  - destruct s; lra.
  - destruct s; [apply F2R_le_0 | apply F2R_ge_0]; cbn; lia.
Qed.

Lemma finite_not_nan {p e} (x : binary_float p e) : is_finite x = true -> is_nan x = false.
Proof. destruct x; try discriminate; reflexivity. Qed.

(* ------------------------------------------------------------------ up is exact *)

Lemma bpow_128_1024 : bpow radix2 128 < bpow radix2 1024.
Proof. apply bpow_lt. lia. Qed.

Theorem up_finite_correct (x : f32) :
  is_finite x = true -> B2R (up x) = B2R x /\ is_finite (up x) = true /\ Bsign (up x) = Bsign x.
Proof.
  destruct x as [s|s| |s m e H]; try discriminate; intros _.
  - repeat split.
  - unfold up, fconv.
    pose proof (binary_normalize_correct 53 1024 _ _ mode_NE (cond_Zopp s (Zpos m)) e s) as C.
    cbv zeta in C. cbn [round_mode] in C.
    set (X := B754_finite s m e H : f32) in *.
    assert (HX : F2R (Float radix2 (cond_Zopp s (Zpos m)) e) = B2R X) by reflexivity.
    rewrite HX in C.
    rewrite round_generic in C; [| auto with typeclass_instances | apply format32_64; apply generic_format_B2R].
    rewrite Rlt_bool_true in C.
    2:{ eapply Rlt_trans; [apply abs_B2R_lt_emax | apply bpow_128_1024]. }
    destruct C as (C1 & C2 & C3). repeat split; auto.
    rewrite C3. rewrite <- HX. destruct (sign_F2R s m e) as [-> _]. destruct s; reflexivity.
Qed.

(* ------------------------------------------------------------------ down is one rounding *)

Theorem down_correct (z : f64) :
  is_finite z = true ->
  if Rlt_bool (Rabs (rnd32 (B2R z))) (bpow radix2 128) then
    B2R (down z) = rnd32 (B2R z) /\ is_finite (down z) = true /\ Bsign (down z) = Bsign z
  else B2SF (down z) = binary_overflow 24 128 mode_NE (Bsign z).
Proof.
  destruct z as [s|s| |s m e H]; try discriminate; intros _.
  - cbn [B2R]. rewrite round_0; [|auto with typeclass_instances]. rewrite Rabs_R0.
    rewrite Rlt_bool_true by apply bpow_gt_0. repeat split.
  - unfold down, fconv.
    pose proof (binary_normalize_correct 24 128 _ _ mode_NE (cond_Zopp s (Zpos m)) e s) as C.
    cbv zeta in C. cbn [round_mode] in C.
    set (X := B754_finite s m e H : f64) in *.
    assert (HX : F2R (Float radix2 (cond_Zopp s (Zpos m)) e) = B2R X) by reflexivity.
    destruct (sign_F2R s m e) as [S1 S2]. cbv zeta in S1, S2.
    rewrite HX in C, S1, S2.
    destruct (Rlt_bool (Rabs (rnd32 (B2R X))) (bpow radix2 128)).
    + destruct C as (C1 & C2 & C3). repeat split; auto. rewrite C3, S1. destruct s; reflexivity.
    + rewrite C, S2. reflexivity.
Qed.

Theorem down_up (x : f32) : down (up x) = x.
Proof.
  destruct x as [s|s| |s m e H]; try reflexivity.
  set (X := B754_finite s m e H : f32).
  destruct (up_finite_correct X eq_refl) as (U1 & U2 & U3).
  pose proof (down_correct (up X) U2) as D. rewrite U1 in D.
  rewrite round_generic in D; [| auto with typeclass_instances | apply generic_format_B2R].
  rewrite Rlt_bool_true in D by apply abs_B2R_lt_emax.
  destruct D as (D1 & D2 & D3). apply B2R_Bsign_inj; auto. congruence.
Qed.

(* ------------------------------------------------------------------ comparisons, negation *)

Theorem cmp_up (x y : f32) : Bcompare (up x) (up y) = Bcompare x y.
Proof.
  destruct (is_finite x) eqn:Fx; destruct (is_finite y) eqn:Fy.
  - destruct (up_finite_correct x Fx) as (X1 & X2 & _). destruct (up_finite_correct y Fy) as (Y1 & Y2 & _).
    rewrite !Bcompare_correct by assumption. rewrite X1, Y1. reflexivity.
  - destruct (up_finite_correct x Fx) as (_ & X2 & _).
    destruct y as [s|s| |s m e H]; try discriminate; cbn [up fconv];
      destruct (up x) as [s'|s'| |s' m' e' H']; try discriminate;
      destruct x as [s''|s''| |s'' m'' e'' H'']; try discriminate; reflexivity.
  - destruct (up_finite_correct y Fy) as (_ & Y2 & _).
    destruct x as [s|s| |s m e H]; try discriminate; cbn [up fconv];
      destruct (up y) as [s'|s'| |s' m' e' H']; try discriminate;
      destruct y as [s''|s''| |s'' m'' e'' H'']; try discriminate; reflexivity.
  - destruct x as [s|s| |s m e H]; try discriminate; destruct y as [s'|s'| |s' m' e' H']; try discriminate; reflexivity.
Qed.

Lemma up_opp (x : f32) : up (Bopp x) = Bopp (up x).
Proof.
  destruct x as [s|s| |s m e H]; try reflexivity.
  set (X := B754_finite s m e H : f32).
  destruct (up_finite_correct X eq_refl) as (U1 & U2 & U3).
  assert (FO : is_finite (Bopp X) = true) by reflexivity.
  destruct (up_finite_correct (Bopp X) FO) as (V1 & V2 & V3).
  apply B2R_Bsign_inj; auto.
  - rewrite is_finite_Bopp. exact U2.
  - rewrite V1, !B2R_Bopp, U1. reflexivity.
  - rewrite V3, Bsign_Bopp by reflexivity. rewrite Bsign_Bopp by (apply finite_not_nan; exact U2). rewrite U3. reflexivity.
Qed.

Theorem opp_up (x : f32) : down (Bopp (up x)) = Bopp x.
Proof. rewrite <- up_opp. apply down_up. Qed.

(* ------------------------------------------------------------------ shapes, bounds *)

Lemma up_finite_shape s m e H :
  exists m' e' H', up (B754_finite s m e H : f32) = B754_finite s m' e' H'.
Proof.
  set (X := B754_finite s m e H : f32).
  destruct (up_finite_correct X eq_refl) as (U1 & U2 & U3).
  destruct (sign_F2R s m e) as [S1 _]. cbv zeta in S1.
  change (F2R (Float radix2 (cond_Zopp s (Zpos m)) e)) with (B2R X) in S1.
  destruct (up X) as [s'|s'| |s' m' e' H'] eqn:E; try discriminate.
  - cbn [B2R] in U1. rewrite <- U1 in S1. rewrite Rcompare_Eq in S1 by reflexivity. destruct s; discriminate.
  - cbn [Bsign] in U3. subst s'. eauto.
Qed.

Lemma no_overflow64 (s : R) (e : Z) :
  (e < 1024)%Z -> (fexp64 (e + 1) <= e)%Z -> Rabs s <= bpow radix2 e ->
  Rlt_bool (Rabs (rnd64 s)) (bpow radix2 1024) = true.
Proof.
  intros He Hf Hs. apply Rlt_bool_true. eapply Rle_lt_trans.
  - apply abs_round_le_generic; [auto with typeclass_instances | auto with typeclass_instances | apply generic_format_bpow; exact Hf | exact Hs].
  - apply bpow_lt. exact He.
Qed.

Lemma bpow_129 : bpow radix2 129 = bpow radix2 128 + bpow radix2 128.
Proof. change 129%Z with (128 + 1)%Z. rewrite bpow_plus_1. cbn [radix_val radix2]. lra. Qed.

Lemma format32_FLT (x : f32) : FLT_format radix2 (-149) 24 (B2R x).
Proof. exact (FLT_format_B2R 24 128 _ x). Qed.

Local Ltac bools := repeat match goal with s : bool |- _ => destruct s end.

(* ------------------------------------------------------------------ double rounding: + and - *)

Lemma dr_plus_finite (x y : f32) :
  is_finite x = true -> is_finite y = true -> down (plus64 (up x) (up y)) = plus32 x y.
Proof.
  intros Fx Fy.
  destruct (up_finite_correct x Fx) as (X1 & X2 & X3). destruct (up_finite_correct y Fy) as (Y1 & Y2 & Y3).
  unfold plus64, plus32.
  pose proof (Bplus_correct 53 1024 prec64 pmax64 mode_NE (up x) (up y) X2 Y2) as P64.
  pose proof (Bplus_correct 24 128 prec32 pmax32 mode_NE x y Fx Fy) as P32.
  cbn [round_mode] in P64, P32. rewrite X1, Y1, X3, Y3 in P64.
  assert (Hs : Rabs (B2R x + B2R y) <= bpow radix2 129).
  { rewrite bpow_129. eapply Rle_trans; [apply Rabs_triang|].
    pose proof (abs_B2R_lt_emax 24 128 x). pose proof (abs_B2R_lt_emax 24 128 y). lra. }
  rewrite (no_overflow64 _ 129) in P64; [| lia | cbv; discriminate | exact Hs].
  destruct P64 as (Z1 & Z2 & Z3).
  pose proof (down_correct _ Z2) as D. rewrite Z1 in D.
  assert (DR : rnd32 (rnd64 (B2R x + B2R y)) = rnd32 (B2R x + B2R y)).
  { change (round radix2 (FLT_exp (-149) 24) ZnearestE (round radix2 (FLT_exp (-1074) 53) ZnearestE (B2R x + B2R y))
            = round radix2 (FLT_exp (-149) 24) ZnearestE (B2R x + B2R y)).
    apply round_round_plus_FLT; try lia; try reflexivity; apply format32_FLT. }
  rewrite DR in D.
  destruct (Rlt_bool (Rabs (rnd32 (B2R x + B2R y))) (bpow radix2 128)).
  - destruct D as (D1 & D2 & D3). destruct P32 as (Q1 & Q2 & Q3).
    apply B2R_Bsign_inj; auto; [congruence | rewrite D3, Z3, Q3; reflexivity].
  - destruct P32 as (Q1 & Q2). apply B2SF_inj. rewrite D, Q1. f_equal.
    rewrite Z3. pose proof (B2R_sign x Fx) as SX. pose proof (B2R_sign y Fy) as SY.
    destruct (Bsign x), (Bsign y); try discriminate Q2; cbn [andb];
      destruct (Rcompare_spec (B2R x + B2R y) 0); try reflexivity; lra.
Qed.

Theorem dr_plus (x y : f32) : down (plus64 (up x) (up y)) = plus32 x y.
Proof.
  destruct (is_finite x) eqn:Fx; destruct (is_finite y) eqn:Fy.
  - apply dr_plus_finite; assumption.
  - destruct y as [s|s| |s m e H]; try discriminate;
      (destruct x as [s'|s'| |s' m' e' H']; try discriminate;
       [| destruct (up_finite_shape s' m' e' H') as (m2 & e2 & H2 & E); unfold plus64; rewrite E]); reflexivity.
  - destruct x as [s|s| |s m e H]; try discriminate;
      (destruct y as [s'|s'| |s' m' e' H']; try discriminate;
       [| destruct (up_finite_shape s' m' e' H') as (m2 & e2 & H2 & E); unfold plus64; rewrite E]); reflexivity.
  - destruct x as [s|s| |s m e H]; try discriminate; destruct y as [s'|s'| |s' m' e' H']; try discriminate;
      bools; reflexivity.
Qed.

Lemma dr_minus_finite (x y : f32) :
  is_finite x = true -> is_finite y = true -> down (minus64 (up x) (up y)) = minus32 x y.
Proof.
  intros Fx Fy.
  destruct (up_finite_correct x Fx) as (X1 & X2 & X3). destruct (up_finite_correct y Fy) as (Y1 & Y2 & Y3).
  unfold minus64, minus32.
  pose proof (Bminus_correct 53 1024 prec64 pmax64 mode_NE (up x) (up y) X2 Y2) as P64.
  pose proof (Bminus_correct 24 128 prec32 pmax32 mode_NE x y Fx Fy) as P32.
  cbn [round_mode] in P64, P32. rewrite X1, Y1, X3, Y3 in P64.
  assert (Hs : Rabs (B2R x - B2R y) <= bpow radix2 129).
  { rewrite bpow_129. unfold Rminus. eapply Rle_trans; [apply Rabs_triang|]. rewrite Rabs_Ropp.
    pose proof (abs_B2R_lt_emax 24 128 x). pose proof (abs_B2R_lt_emax 24 128 y). lra. }
  rewrite (no_overflow64 _ 129) in P64; [| lia | cbv; discriminate | exact Hs].
  destruct P64 as (Z1 & Z2 & Z3).
  pose proof (down_correct _ Z2) as D. rewrite Z1 in D.
  assert (DR : rnd32 (rnd64 (B2R x - B2R y)) = rnd32 (B2R x - B2R y)).
  { change (round radix2 (FLT_exp (-149) 24) ZnearestE (round radix2 (FLT_exp (-1074) 53) ZnearestE (B2R x - B2R y))
            = round radix2 (FLT_exp (-149) 24) ZnearestE (B2R x - B2R y)).
    apply round_round_minus_FLT; try lia; try reflexivity; apply format32_FLT. }
  rewrite DR in D.
  destruct (Rlt_bool (Rabs (rnd32 (B2R x - B2R y))) (bpow radix2 128)).
  - destruct D as (D1 & D2 & D3). destruct P32 as (Q1 & Q2 & Q3).
    apply B2R_Bsign_inj; auto; [congruence | rewrite D3, Z3, Q3; reflexivity].
  - destruct P32 as (Q1 & Q2). apply B2SF_inj. rewrite D, Q1. f_equal.
    rewrite Z3. pose proof (B2R_sign x Fx) as SX. pose proof (B2R_sign y Fy) as SY.
    destruct (Bsign x), (Bsign y); try discriminate Q2; cbn [andb negb];
      destruct (Rcompare_spec (B2R x - B2R y) 0); try reflexivity; lra.
Qed.

Theorem dr_minus (x y : f32) : down (minus64 (up x) (up y)) = minus32 x y.
Proof.
  destruct (is_finite x) eqn:Fx; destruct (is_finite y) eqn:Fy.
  - apply dr_minus_finite; assumption.
  - destruct y as [s|s| |s m e H]; try discriminate;
      (destruct x as [s'|s'| |s' m' e' H']; try discriminate;
       [| destruct (up_finite_shape s' m' e' H') as (m2 & e2 & H2 & E); unfold minus64; rewrite E]); reflexivity.
  - destruct x as [s|s| |s m e H]; try discriminate;
      (destruct y as [s'|s'| |s' m' e' H']; try discriminate;
       [| destruct (up_finite_shape s' m' e' H') as (m2 & e2 & H2 & E); unfold minus64; rewrite E]); reflexivity.
  - destruct x as [s|s| |s m e H]; try discriminate; destruct y as [s'|s'| |s' m' e' H']; try discriminate;
      bools; reflexivity.
Qed.

(* ------------------------------------------------------------------ double rounding: * *)

Lemma dr_mult_finite (x y : f32) :
  is_finite x = true -> is_finite y = true -> down (mult64 (up x) (up y)) = mult32 x y.
Proof.
  intros Fx Fy.
  destruct (up_finite_correct x Fx) as (X1 & X2 & X3). destruct (up_finite_correct y Fy) as (Y1 & Y2 & Y3).
  unfold mult64, mult32.
  pose proof (Bmult_correct 53 1024 prec64 pmax64 mode_NE (up x) (up y)) as P64.
  pose proof (Bmult_correct 24 128 prec32 pmax32 mode_NE x y) as P32.
  cbn [round_mode] in P64, P32. rewrite X1, Y1, X2, Y2, X3, Y3 in P64. rewrite Fx, Fy in P32. cbn [andb] in P64, P32.
  assert (Hs : Rabs (B2R x * B2R y) <= bpow radix2 256).
  { change 256%Z with (128 + 128)%Z. rewrite bpow_plus, Rabs_mult.
    pose proof (abs_B2R_lt_emax 24 128 x). pose proof (abs_B2R_lt_emax 24 128 y).
    apply Rmult_le_compat; try apply Rabs_pos; lra. }
  rewrite (no_overflow64 _ 256) in P64; [| lia | cbv; discriminate | exact Hs].
  destruct P64 as (Z1 & Z2 & Z3). specialize (Z3 (finite_not_nan _ Z2)).
  pose proof (down_correct _ Z2) as D. rewrite Z1 in D.
  assert (DR : rnd32 (rnd64 (B2R x * B2R y)) = rnd32 (B2R x * B2R y)).
  { change (round radix2 (FLT_exp (-149) 24) ZnearestE (round radix2 (FLT_exp (-1074) 53) ZnearestE (B2R x * B2R y))
            = round radix2 (FLT_exp (-149) 24) ZnearestE (B2R x * B2R y)).
    apply round_round_mult_FLT; try lia; try reflexivity; try apply format32_FLT; auto with typeclass_instances. }
  rewrite DR in D.
  destruct (Rlt_bool (Rabs (rnd32 (B2R x * B2R y))) (bpow radix2 128)).
  - destruct D as (D1 & D2 & D3). destruct P32 as (Q1 & Q2 & Q3). specialize (Q3 (finite_not_nan _ Q2)).
    apply B2R_Bsign_inj; auto; [congruence | rewrite D3, Z3, Q3; reflexivity].
  - apply B2SF_inj. rewrite D, P32, Z3. reflexivity.
Qed.

Theorem dr_mult (x y : f32) : down (mult64 (up x) (up y)) = mult32 x y.
Proof.
  destruct (is_finite x) eqn:Fx; destruct (is_finite y) eqn:Fy.
  - apply dr_mult_finite; assumption.
  - destruct y as [s|s| |s m e H]; try discriminate;
      (destruct x as [s'|s'| |s' m' e' H']; try discriminate;
       [| destruct (up_finite_shape s' m' e' H') as (m2 & e2 & H2 & E); unfold mult64; rewrite E]); reflexivity.
  - destruct x as [s|s| |s m e H]; try discriminate;
      (destruct y as [s'|s'| |s' m' e' H']; try discriminate;
       [| destruct (up_finite_shape s' m' e' H') as (m2 & e2 & H2 & E); unfold mult64; rewrite E]); reflexivity.
  - destruct x as [s|s| |s m e H]; try discriminate; destruct y as [s'|s'| |s' m' e' H']; try discriminate;
      bools; reflexivity.
Qed.

(* ------------------------------------------------------------------ double rounding: / *)

Lemma B2R_finite_nonzero s m e H : B2R (B754_finite s m e H : f32) <> 0.
Proof.
  destruct (sign_F2R s m e) as [S1 _]. cbv zeta in S1. intros E.
  change (F2R (Float radix2 (cond_Zopp s (Zpos m)) e)) with (B2R (B754_finite s m e H : f32)) in S1.
  rewrite E, Rcompare_Eq in S1 by reflexivity. destruct s; discriminate.
Qed.

Lemma dr_div_finite (x : f32) sy my ey Hy :
  is_finite x = true ->
  let y := (B754_finite sy my ey Hy : f32) in down (div64 (up x) (up y)) = div32 x y.
Proof.
  intros Fx y.
  assert (Fy : is_finite y = true) by reflexivity.
  assert (Sy : is_finite_strict y = true) by reflexivity.
  assert (Ny : B2R y <> 0) by apply B2R_finite_nonzero.
  destruct (up_finite_correct x Fx) as (X1 & X2 & X3). destruct (up_finite_correct y Fy) as (Y1 & Y2 & Y3).
  unfold div64, div32.
  assert (Ny' : B2R (up y) <> 0) by (rewrite Y1; exact Ny).
  pose proof (Bdiv_correct 53 1024 prec64 pmax64 mode_NE (up x) (up y) Ny') as P64.
  pose proof (Bdiv_correct 24 128 prec32 pmax32 mode_NE x y Ny) as P32.
  cbn [round_mode] in P64, P32. rewrite X1, Y1, X2, X3, Y3 in P64. rewrite Fx in P32.
  assert (Hs : Rabs (B2R x / B2R y) <= bpow radix2 277).
  { unfold Rdiv. rewrite Rabs_mult, Rabs_inv.
    change 277%Z with (128 + 149)%Z. rewrite bpow_plus.
    pose proof (abs_B2R_lt_emax 24 128 x) as Bx.
    pose proof (abs_B2R_ge_emin 24 128 y Sy) as By.
    change (SpecFloat.emin 24 128) with (- (149))%Z in By. rewrite bpow_opp in By.
    assert (P149 : 0 < bpow radix2 149) by apply bpow_gt_0.
    assert (Pinv : 0 < / bpow radix2 149) by (apply Rinv_0_lt_compat; exact P149).
    apply Rmult_le_compat; try apply Rabs_pos; [left; apply Rinv_0_lt_compat; lra | lra |].
    rewrite <- (Rinv_inv (bpow radix2 149)). apply Rinv_le_contravar; lra. }
  rewrite (no_overflow64 _ 277) in P64; [| lia | cbv; discriminate | exact Hs].
  destruct P64 as (Z1 & Z2 & Z3). specialize (Z3 (finite_not_nan _ Z2)).
  pose proof (down_correct _ Z2) as D. rewrite Z1 in D.
  assert (DR : rnd32 (rnd64 (B2R x / B2R y)) = rnd32 (B2R x / B2R y)).
  { change (round radix2 (FLT_exp (-149) 24) ZnearestE (round radix2 (FLT_exp (-1074) 53) ZnearestE (B2R x / B2R y))
            = round radix2 (FLT_exp (-149) 24) ZnearestE (B2R x / B2R y)).
    apply round_round_div_FLT; try lia; try reflexivity; try apply format32_FLT; try exact Ny.
    exists 1%Z. reflexivity. }
  rewrite DR in D.
  destruct (Rlt_bool (Rabs (rnd32 (B2R x / B2R y))) (bpow radix2 128)).
  - destruct D as (D1 & D2 & D3). destruct P32 as (Q1 & Q2 & Q3). specialize (Q3 (finite_not_nan _ Q2)).
    apply B2R_Bsign_inj; auto; [congruence | rewrite D3, Z3, Q3; reflexivity].
  - apply B2SF_inj. rewrite D, P32, Z3. reflexivity.
Qed.

Theorem dr_div (x y : f32) : down (div64 (up x) (up y)) = div32 x y.
Proof.
  destruct y as [sy|sy| |sy my ey Hy].
  - destruct x as [s'|s'| |s' m' e' H']; try reflexivity.
    destruct (up_finite_shape s' m' e' H') as (m2 & e2 & H2 & E); unfold div64; rewrite E; reflexivity.
  - destruct x as [s'|s'| |s' m' e' H']; try reflexivity.
    destruct (up_finite_shape s' m' e' H') as (m2 & e2 & H2 & E); unfold div64; rewrite E; reflexivity.
  - destruct x as [s'|s'| |s' m' e' H']; try reflexivity.
    destruct (up_finite_shape s' m' e' H') as (m2 & e2 & H2 & E); unfold div64; rewrite E; reflexivity.
  - destruct (is_finite x) eqn:Fx.
    + apply dr_div_finite. exact Fx.
    + destruct (up_finite_shape sy my ey Hy) as (m2 & e2 & H2 & E); unfold div64; rewrite E.
      destruct x as [s'|s'| |s' m' e' H']; try discriminate; reflexivity.
Qed.

(* ------------------------------------------------------------------ truncation to an integer *)

Theorem trunc_up (x : f32) : is_finite (up x) = is_finite x /\ (is_finite x = true -> Btrunc (up x) = Btrunc x).
Proof.
  split.
  - destruct x as [s|s| |s m e H]; try reflexivity.
    destruct (up_finite_correct (B754_finite s m e H) eq_refl) as (_ & U2 & _). exact U2.
  - intros F. destruct (up_finite_correct x F) as (U1 & U2 & _).
    apply eq_IZR. rewrite !Btrunc_correct, U1; auto with typeclass_instances.
Qed.
