(** C02 — Y: the tiny language of the operator closures of interp/op.go (and neg/pos/bitNot/not of
    run.go) and its machine semantics.  A closure extracts its operands as 64-bit machine values
    (int64 / uint64) with one of the extractors of interp/value.go, evaluates one Go expression on
    them with Go's semantics at int64 / uint64, and stores the result into a typed reflect slot with
    SetInt / SetUint / Set(ValueOf(e).Convert(typ)) / SetBool ...  Definitions only.

    Modelling assumptions (validated by the complete enumeration of harness/c02.go on every run):
    - reflect.Value.SetInt / SetUint / Convert on a slot of integer kind k store [wrap k z];
      SetInt on an unsigned slot (and conversely) panics inside reflect;
    - Value.Int() on an unsigned kind (Uint() on a signed one) panics inside reflect;
    - int, uint and uintptr are 64 bits wide (linux/amd64, the platform of the check);
    - floating point, complex and the go/constant folding branches are carried in the table as
      data (so that an edit is noticed) but have no denotation here ([Bad]). *)
From Coq Require Import ZArith List String Bool.
Import ListNotations.
Open Scope Z_scope.

(* ------------------------------------------------------------------ syntax of a table row *)

Inductive rkind := KInt | KInt8 | KInt16 | KInt32 | KInt64
                 | KUint | KUint8 | KUint16 | KUint32 | KUint64 | KUintptr
                 | KFloat32 | KFloat64 | KComplex64 | KComplex128 | KString | KBool.

Inductive bop := Add | Sub | Mul | Quo | Rem | And | Or | Xor | AndNot | Shl | Shr
               | Eq | Ne | Lt | Le | Gt | Ge | LAnd | LOr.
Inductive uop := Neg | BitNot | Not | Pos.

(** How an operand reaches the expression:
    XGen*  second result of genValueInt/Uint/Float/String(c)(f), or genComplex(c)(f) (run time);
    XV*    vInt/vUint/vFloat/vComplex/vString(c.rval) (closure-generation time: constant operand);
    XVal*  genValue(c)(f).Int() / .Uint() / ... (reflect accessor, run time); XVal = the Value itself;
    XRv*   c.rval.Int() / ... (reflect accessor on the constant operand). *)
Inductive extr := XGenInt | XGenUint | XGenFloat | XGenCplx | XGenStr
                | XVInt | XVUint | XVFloat | XVCplx | XVStr
                | XVal | XValInt | XValUint | XValFloat | XValCplx | XValStr | XValBool | XValIface
                | XRvInt | XRvUint | XRvFloat | XRvCplx | XRvStr | XRvBool | XRvIface.

Inductive ex := L (x : extr) (child : nat) | K (z : Z) | KB (b : bool) | Src (s : string)
              | B (o : bop) (a b : ex) | U (o : uop) (a : ex).

(** guard of the enclosing case: comparison class (isString(t0)||isString(t1) ...), fold class
    (isInt(t) ...), the linkedT / interface-operand / default blocks of equal, go/constant branch *)
Inductive guard := GNone | GStr | GFloat | GUint | GInt | GCplx | GLinked | GIfaceOpd | GDefault | GConst.
(** operand form: interface destination, constant left, constant right, two variables, constant fold *)
Inductive form := FNone | FIface | FC0 | FC1 | FVar | FFold.
Inductive dest := DOut | DOutBool | DNode | DOpd (c : nat) | DRval.
Inductive nextk := NT | NF.
Inductive setter := SInt | SUint | SFloat | SString | SBool | SComplex
                  | SConv                       (* dest.Set(reflect.ValueOf(e).Convert(typ)) *)
                  | SSet                        (* dest.Set(value)                            *)
                  | SSrc                        (* go/constant branch, kept as source text    *)
                  | SBranch (b1 : bool) (n1 : nextk) (b2 : bool) (n2 : nextk).
                    (* if e { dest.SetBool(b1); return n1 }; dest.SetBool(b2); return n2 *)

Record row := mk_row {
  r_fn : string;          (* generator function in op.go / run.go                                    *)
  r_kinds : list rkind;   (* labels of the enclosing `case reflect.X, ...` ([] when there is none)    *)
  r_ktag : string;        (* what that switch inspects: typ:concrete, typ:plain, ntyp, none           *)
  r_guard : guard;
  r_form : form;
  r_br : bool;            (* installed under `if n.fnext != nil`                                      *)
  r_dest : dest;
  r_set : setter;
  r_map : bool;           (* followed by `if setMap { mapValue(f).SetMapIndex(indexValue(f), v) }`    *)
  r_next : nextk;
  r_body : ex }.

(* ------------------------------------------------------------------ integer kinds *)

Definition signed (k : rkind) : bool :=
  match k with KInt | KInt8 | KInt16 | KInt32 | KInt64 => true | _ => false end.
Definition unsigned (k : rkind) : bool :=
  match k with KUint | KUint8 | KUint16 | KUint32 | KUint64 | KUintptr => true | _ => false end.
Definition is_int (k : rkind) : bool := signed k || unsigned k.

Definition width (k : rkind) : Z :=
  match k with
  | KInt8 | KUint8 => 8 | KInt16 | KUint16 => 16 | KInt32 | KUint32 => 32
  | KInt | KInt64 | KUint | KUint64 | KUintptr => 64
  | _ => 0
  end.

(** 2^width and 2^(width-1), as literals *)
Definition modulus (k : rkind) : Z :=
  match k with
  | KInt8 | KUint8 => 256 | KInt16 | KUint16 => 65536 | KInt32 | KUint32 => 4294967296
  | KInt | KInt64 | KUint | KUint64 | KUintptr => 18446744073709551616
  | _ => 1
  end.
Definition half (k : rkind) : Z :=
  match k with
  | KInt8 | KUint8 => 128 | KInt16 | KUint16 => 32768 | KInt32 | KUint32 => 2147483648
  | KInt | KInt64 | KUint | KUint64 | KUintptr => 9223372036854775808
  | _ => 0
  end.

(** two's complement reduction into the range of kind k *)
Definition wrap (k : rkind) (z : Z) : Z :=
  if signed k then (z + half k) mod modulus k - half k else z mod modulus k.

Definition in_range (k : rkind) (z : Z) : bool :=
  if signed k then (- half k <=? z) && (z <? half k) else (0 <=? z) && (z <? modulus k).

Definition w64s (z : Z) : Z := wrap KInt64 z.     (* int64  arithmetic *)
Definition w64u (z : Z) : Z := wrap KUint64 z.    (* uint64 arithmetic *)

(* ------------------------------------------------------------------ values *)

(** what a reflect.Value of a basic kind holds *)
Inductive value := VInt (k : rkind) (z : Z) | VBool (b : bool) | VStr (s : string).

(** machine values inside a closure: int64, uint64, bool, string, an untyped constant of the
    closure text (the 1 of inc/dec), the result of Value.Interface() *)
Inductive mval := MI (z : Z) | MU (z : Z) | MB (b : bool) | MS (s : string) | MK (z : Z) | MV (v : value).

Inductive pclass := PDivZero | PNegShift | PReflect.
Inductive res (A : Type) := Ok (a : A) | Pan (p : pclass) | Bad.
Arguments Ok {A} a. Arguments Pan {A} p. Arguments Bad {A}.

Definition bind {A B} (r : res A) (f : A -> res B) : res B :=
  match r with Ok a => f a | Pan p => Pan p | Bad => Bad end.

(** extractors (interp/value.go): genValueInt and vInt read a signed kind with Value.Int() and an
    unsigned kind with int64(Value.Uint()); genValueUint and vUint read uint64(Value.Int()) and
    Value.Uint().  The table [extr_table] regenerated from value.go is compared with
    [model_extr_table] (Num/Model.v). *)
Definition extract (x : extr) (v : value) : res mval :=
  match x, v with
  | (XGenInt | XVInt), VInt k z =>
      if signed k then Ok (MI z) else if unsigned k then Ok (MI (w64s z)) else Bad
  | (XGenUint | XVUint), VInt k z =>
      if signed k then Ok (MU (w64u z)) else if unsigned k then Ok (MU z) else Bad
  | (XValInt | XRvInt), VInt k z =>
      if signed k then Ok (MI z) else if unsigned k then Pan PReflect else Bad
  | (XValUint | XRvUint), VInt k z =>
      if unsigned k then Ok (MU z) else if signed k then Pan PReflect else Bad
  | (XValBool | XRvBool), VBool b => Ok (MB b)
  | (XGenStr | XVStr | XValStr | XRvStr), VStr s => Ok (MS s)
  | (XVal | XValIface | XRvIface), _ => Ok (MV v)
  | _, _ => Bad
  end.

Definition value_eqb (a b : value) : bool :=
  match a, b with
  | VInt k x, VInt k' y => (if signed k then signed k' else unsigned k') && (width k =? width k') && (x =? y)
  | VBool x, VBool y => Bool.eqb x y
  | VStr x, VStr y => String.eqb x y
  | _, _ => false
  end.

(** the mathematical operation behind an arithmetic / bitwise operator *)
Definition zop (o : bop) (a b : Z) : option Z :=
  match o with
  | Add => Some (a + b) | Sub => Some (a - b) | Mul => Some (a * b)
  | Quo => Some (Z.quot a b) | Rem => Some (Z.rem a b)
  | And => Some (Z.land a b) | Or => Some (Z.lor a b) | Xor => Some (Z.lxor a b) | AndNot => Some (Z.ldiff a b)
  | _ => None
  end.

Definition is_div (o : bop) : bool := match o with Quo | Rem => true | _ => false end.

Definition zcmp (o : bop) (a b : Z) : option bool :=
  match o with
  | Eq => Some (a =? b) | Ne => Some (negb (a =? b))
  | Lt => Some (a <? b) | Le => Some (a <=? b) | Gt => Some (b <? a) | Ge => Some (b <=? a)
  | _ => None
  end.

Definition scmp (o : bop) (a b : string) : option bool :=
  match o with
  | Eq => Some (String.eqb a b) | Ne => Some (negb (String.eqb a b))
  | Lt => Some (String.ltb a b) | Le => Some (String.leb a b)
  | Gt => Some (String.ltb b a) | Ge => Some (String.leb b a)
  | _ => None
  end.

(** Go's shifts at a 64-bit machine type, count s >= 0 *)
Definition shl64 (w : Z -> Z) (a s : Z) : Z := if 64 <=? s then 0 else w (Z.shiftl a s).
Definition shr64 (a s : Z) : Z := if 64 <=? s then (if a <? 0 then -1 else 0) else Z.shiftr a s.

Definition arith64 (w : Z -> Z) (mk : Z -> mval) (o : bop) (a b : Z) : res mval :=
  match zop o a b with
  | Some z => if is_div o && (b =? 0) then Pan PDivZero else Ok (mk (w z))
  | None =>
      match zcmp o a b with
      | Some c => Ok (MB c)
      | None => Bad
      end
  end.

Definition shift64 (w : Z -> Z) (mk : Z -> mval) (o : bop) (a s : Z) : res mval :=
  match o with
  | Shl => Ok (mk (shl64 w a s))
  | Shr => Ok (mk (shr64 a s))
  | _ => Bad
  end.

Definition is_shift (o : bop) : bool := match o with Shl | Shr => true | _ => false end.

(** one binary Go operator on machine values (the operands of a Go binary expression have the same
    type, except shifts whose count is any integer type; a signed negative count panics) *)
Definition mbin (o : bop) (x y : mval) : res mval :=
  if is_shift o then
    match x, y with
    | MI a, MU s => shift64 w64s MI o a s
    | MU a, MU s => shift64 w64u MU o a s
    | MI a, (MI s | MK s) => if s <? 0 then Pan PNegShift else shift64 w64s MI o a s
    | MU a, (MI s | MK s) => if s <? 0 then Pan PNegShift else shift64 w64u MU o a s
    | _, _ => Bad
    end
  else
    match x, y with
    | MI a, (MI b | MK b) | MK a, MI b => arith64 w64s MI o a b
    | MU a, (MU b | MK b) | MK a, MU b => arith64 w64u MU o a b
    | MB a, MB b =>
        match o with
        | Eq => Ok (MB (Bool.eqb a b)) | Ne => Ok (MB (negb (Bool.eqb a b)))
        | LAnd => Ok (MB (a && b)) | LOr => Ok (MB (a || b))
        | _ => Bad
        end
    | MS a, MS b =>
        match o with
        | Add => Ok (MS (a ++ b))
        | _ => match scmp o a b with Some c => Ok (MB c) | None => Bad end
        end
    | MV a, MV b =>
        match o with
        | Eq => Ok (MB (value_eqb a b)) | Ne => Ok (MB (negb (value_eqb a b)))
        | _ => Bad
        end
    | _, _ => Bad
    end.

Definition mun (o : uop) (x : mval) : res mval :=
  match o, x with
  | Neg, MI a => Ok (MI (w64s (- a)))
  | Neg, MU a => Ok (MU (w64u (- a)))
  | BitNot, MI a => Ok (MI (w64s (Z.lnot a)))
  | BitNot, MU a => Ok (MU (w64u (Z.lnot a)))
  | Pos, (MI _ | MU _) => Ok x
  | Not, MB b => Ok (MB (negb b))
  | _, _ => Bad
  end.

(** value of a closure expression, operands [a] (child 0) and [b] (child 1) *)
Fixpoint eval (e : ex) (a b : value) : res mval :=
  match e with
  | L x c => match c with O => extract x a | S O => extract x b | _ => Bad end
  | K z => Ok (MK z)
  | KB c => Ok (MB c)
  | Src _ => Bad
  | B o e1 e2 => bind (eval e1 a b) (fun x => bind (eval e2 a b) (fun y => mbin o x y))
  | U o e1 => bind (eval e1 a b) (fun x => mun o x)
  end.

(** storing a machine value into a typed slot of kind [kd] *)
Definition store (s : setter) (kd : rkind) (m : mval) : res value :=
  match s, m with
  | SInt, MI z => if signed kd then Ok (VInt kd (wrap kd z)) else Pan PReflect
  | SUint, MU z => if unsigned kd then Ok (VInt kd (wrap kd z)) else Pan PReflect
  | SConv, (MI z | MU z) => if is_int kd then Ok (VInt kd (wrap kd z)) else Bad
  | SConv, MB c => match kd with KBool => Ok (VBool c) | _ => Bad end
  | SConv, MS c => match kd with KString => Ok (VStr c) | _ => Bad end
  | SBool, MB c => match kd with KBool => Ok (VBool c) | _ => Pan PReflect end
  | SString, MS c => match kd with KString => Ok (VStr c) | _ => Pan PReflect end
  | SSet, MV v => Ok v
  | _, _ => Bad
  end.

(** what one execution of the closure of row [r] does: the value stored in the destination slot
    (of kind [kd]) and the successor taken *)
Definition denote (r : row) (kd : rkind) (a b : value) : res (value * nextk) :=
  match r_set r with
  | SBranch b1 n1 b2 n2 =>
      bind (eval (r_body r) a b) (fun m =>
        match m with
        | MB c => if c then Ok (VBool b1, n1) else Ok (VBool b2, n2)
        | _ => Bad
        end)
  | s => bind (eval (r_body r) a b) (fun m => bind (store s kd m) (fun v => Ok (v, r_next r)))
  end.
