(** Evaluation of the C02 models on the cases written by the harness (correspondence check).
    A case names the source form (operator, operand form, context class), the operand kinds and
    values, what the implementation printed and what the reference (compiled Go) printed.
    [*_mis_y]: ids where the implementation differs from Y (row selected by the form, run by
    [OpDsl.denote]); [*_mis_g]: ids where the reference differs from G. *)
From Coq Require Import ZArith List String Bool.
From Verif Require Import Num.OpDsl Num.GoInt Num.Model.
Import ListNotations.
Open Scope Z_scope.

Inductive ckind :=
| CBin (o : bop) (f : form)                 (* r = x op y, return x op y, var r interface{} = x op y (f = FIface) *)
| CAsg (o : bop) (f : form)                 (* r op= y *)
| CCmp (o : bop) (f : form) (brn : bool)    (* comparison; brn: used as a branch condition *)
| CUn (o : uop) (f : form)                  (* -x ^x +x *)
| CIncDec (inc : bool)                      (* x++ x-- *)
| CConv                                     (* K2(x): k = source kind, kc = target kind *)
| CBinIfa (o : bop)                         (* q = x op y, q an existing interface variable *)
| CUnIfa (o : uop).                         (* q = op x *)

Inductive obs := OVal (z : Z) | OBool (b : bool) | OStr (s : string) | OPanic (p : pclass) | OStop | OOther.

Definition obs_eqb (a b : obs) : bool :=
  match a, b with
  | OVal x, OVal y => x =? y
  | OBool x, OBool y => Bool.eqb x y
  | OStr x, OStr y => String.eqb x y
  | OPanic PDivZero, OPanic PDivZero | OPanic PNegShift, OPanic PNegShift | OPanic PReflect, OPanic PReflect => true
  | OStop, OStop => true
  | _, _ => false
  end.

Definition of_y (y : youtcome) : obs :=
  match y with
  | YVal (VInt _ z) => OVal z | YVal (VBool b) => OBool b | YVal (VStr s) => OStr s
  | YPanic p => OPanic p | YStop => OStop | YBad => OOther
  end.

Definition of_res (r : res Z) : obs := match r with Ok z => OVal z | Pan p => OPanic p | Bad => OOther end.
Definition of_resb (r : res bool) : obs := match r with Ok z => OBool z | Pan p => OPanic p | Bad => OOther end.

(** Y: the row installed for the source form, run on the operands *)
Definition y_pred (c : ckind) (k kc : rkind) (x y : Z) : obs :=
  match c with
  | CBin o f => of_y (run_row (select_bin o k f) k (VInt k x) (VInt kc y))
  | CAsg o f => of_y (run_row (select_asg o k f) k (VInt k x) (VInt kc y))
  | CCmp o f brn => of_y (run_row (select_cmp o k f brn) KBool (VInt k x) (VInt kc y))
  | CUn o f => of_y (run_row (select_un o k f) k (VInt k x) (VInt kc y))
  | CIncDec inc => of_y (run_row (select_incdec inc k) k (VInt k x) (VInt k x))
  | CConv => match y_convert kc (VInt k x) with Ok (VInt _ z) => OVal z | _ => OOther end
  | CBinIfa o => of_y (run_row (select_bin_ifa o k) k (VInt k x) (VInt kc y))
  | CUnIfa o => of_y (run_row (select_un_ifa o k) k (VInt k x) (VInt kc y))
  end.

(** G: Go's operator at the kind *)
Definition g_pred (c : ckind) (k kc : rkind) (x y : Z) : obs :=
  match c with
  | CBin o _ | CAsg o _ | CBinIfa o => if is_shift o then of_res (go_shift o k x y) else of_res (go_arith o k x y)
  | CCmp o _ _ => of_resb (go_cmp o x y)
  | CUn o _ | CUnIfa o => of_res (go_unary o k x)
  | CIncDec inc => OVal (if inc then go_inc k x else go_dec k x)
  | CConv => OVal (go_conv kc x)
  end.

Definition int_case := (N * ckind * rkind * rkind * Z * Z * obs * obs)%type.

(** operands outside the range of their kind are a defect of the harness: reported on both sides *)
Definition operands_ok (c : ckind) (k kc : rkind) (x y : Z) : bool :=
  is_int k && is_int kc && in_range k x && in_range kc y.

Definition int_mis_y (cs : list int_case) : list N :=
  flat_map (fun '(id, c, k, kc, x, y, impl, _) =>
    if operands_ok c k kc x y && obs_eqb (y_pred c k kc x y) impl then [] else [id]) cs.
Definition int_mis_g (cs : list int_case) : list N :=
  flat_map (fun '(id, c, k, kc, x, y, _, ref) =>
    if operands_ok c k kc x y && obs_eqb (g_pred c k kc x y) ref then [] else [id]) cs.

(** strings: concatenation (CBin Add / CAsg Add) and comparisons *)
Definition str_case := (N * ckind * string * string * obs * obs)%type.

Definition ys_pred (c : ckind) (a b : string) : obs :=
  match c with
  | CBin Add f => of_y (run_row (select_bin Add KString f) KString (VStr a) (VStr b))
  | CBinIfa Add => of_y (run_row (select_bin_ifa Add KString) KString (VStr a) (VStr b))
  | CAsg Add f => of_y (run_row (select_asg Add KString f) KString (VStr a) (VStr b))
  | CCmp o f brn => of_y (run_row (select_cmp o KString f brn) KBool (VStr a) (VStr b))
  | _ => OOther
  end.
Definition gs_pred (c : ckind) (a b : string) : obs :=
  match c with
  | CBin Add _ | CAsg Add _ | CBinIfa Add => OStr (go_concat a b)
  | CCmp o _ _ => of_resb (go_scmp o a b)
  | _ => OOther
  end.

Definition str_mis_y (cs : list str_case) : list N :=
  flat_map (fun '(id, c, a, b, impl, _) => if obs_eqb (ys_pred c a b) impl then [] else [id]) cs.
Definition str_mis_g (cs : list str_case) : list N :=
  flat_map (fun '(id, c, a, b, _, ref) => if obs_eqb (gs_pred c a b) ref then [] else [id]) cs.
