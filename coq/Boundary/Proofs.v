(** C07 — lemmas and proofs about Boundary/Marshal.v. *)
From Verif Require Import Lib.Str Boundary.Types Boundary.Marshal.
From Coq Require Import Lia Nnat.

(* ------------------------------------------------------------------ *)
(** * Induction over the rose trees *)

Section ty_induction.
  Variable P : ty -> Prop.
  Hypothesis HBool : P TBool.
  Hypothesis HInt : forall b, P (TInt b).
  Hypothesis HUint : forall b, P (TUint b).
  Hypothesis HFloat : forall b, P (TFloat b).
  Hypothesis HComplex : forall b, P (TComplex b).
  Hypothesis HString : P TString.
  Hypothesis HStruct : forall n fs, Forall P fs -> P (TStruct n fs).
  Hypothesis HPtr : forall t, P t -> P (TPtr t).
  Hypothesis HArr : forall n t, P t -> P (TArr n t).
  Hypothesis HSlice : forall t, P t -> P (TSlice t).
  Hypothesis HMap : forall k v, P k -> P v -> P (TMap k v).
  Hypothesis HFunc : forall i v o, Forall P i -> Forall P o -> P (TFunc i v o).
  Hypothesis HErr : P TErr.
  Hypothesis HAny : P TAny.
  Hypothesis HSI : forall n, P (TScriptIface n).
  Hypothesis HOp : forall n, P (TOpaque n).

  Fixpoint ty_ind' (t : ty) : P t :=
    let fix go (l : list ty) : Forall P l :=
      match l with
      | [] => Forall_nil P
      | x :: l' => Forall_cons x (ty_ind' x) (go l')
      end in
    match t with
    | TBool => HBool | TInt b => HInt b | TUint b => HUint b | TFloat b => HFloat b
    | TComplex b => HComplex b | TString => HString
    | TStruct n fs => HStruct n fs (go fs)
    | TPtr t => HPtr t (ty_ind' t) | TArr n t => HArr n t (ty_ind' t) | TSlice t => HSlice t (ty_ind' t)
    | TMap k v => HMap k v (ty_ind' k) (ty_ind' v)
    | TFunc i v o => HFunc i v o (go i) (go o)
    | TErr => HErr | TAny => HAny | TScriptIface n => HSI n | TOpaque n => HOp n
    end.
End ty_induction.

Section val_induction.
  Variable P : val -> Prop.
  Hypothesis HBool : forall b, P (VBool b).
  Hypothesis HInt : forall z, P (VInt z).
  Hypothesis HUint : forall n, P (VUint n).
  Hypothesis HFloat : forall b, P (VFloat b).
  Hypothesis HComplex : forall r i, P (VComplex r i).
  Hypothesis HStr : forall x, P (VStr x).
  Hypothesis HOpaque : forall n, P (VOpaque n).
  Hypothesis HNil : P VNil.
  Hypothesis HStruct : forall l, Forall P l -> P (VStruct l).
  Hypothesis HArr : forall l, Forall P l -> P (VArr l).
  Hypothesis HSlice : forall l, Forall P l -> P (VSlice l).
  Hypothesis HPtr : forall v, P v -> P (VPtr v).
  Hypothesis HMap : forall k v, Forall P k -> Forall P v -> P (VMap k v).
  Hypothesis HIface : forall t v, P v -> P (VIface t v).
  Hypothesis HBox : forall v, P v -> P (VBox v).
  Hypothesis HFunc : forall r p, Forall P p -> P (VFunc r p).
  Hypothesis HPoint : forall a r, Forall P a -> Forall P r -> P (VPoint a r).
  Hypothesis HBad : forall c, P (VBad c).

  Fixpoint val_ind' (v : val) : P v :=
    let fix go (l : list val) : Forall P l :=
      match l with
      | [] => Forall_nil P
      | x :: l' => Forall_cons x (val_ind' x) (go l')
      end in
    match v with
    | VBool b => HBool b | VInt z => HInt z | VUint n => HUint n | VFloat b => HFloat b
    | VComplex r i => HComplex r i | VStr x => HStr x | VOpaque n => HOpaque n | VNil => HNil
    | VStruct l => HStruct l (go l) | VArr l => HArr l (go l) | VSlice l => HSlice l (go l)
    | VPtr x => HPtr x (val_ind' x)
    | VMap k w => HMap k w (go k) (go w)
    | VIface t x => HIface t x (val_ind' x)
    | VBox x => HBox x (val_ind' x)
    | VFunc r p => HFunc r p (go p)
    | VPoint a r => HPoint a r (go a) (go r)
    | VBad c => HBad c
    end.
End val_induction.

(* ------------------------------------------------------------------ *)
(** * Equality up to the representation of functions *)

Lemma ty_eqb_tys l m :
  (fix tys (l m : list ty) : bool :=
     match l, m with
     | [], [] => true
     | x :: l', y :: m' => ty_eqb x y && tys l' m'
     | _, _ => false
     end) l m = list_eqb ty_eqb l m.
Proof. revert m; induction l; destruct m; simpl; congruence. Qed.

Lemma val_eqb_vals l m :
  (fix vals (l m : list val) : bool :=
     match l, m with
     | [], [] => true
     | x :: l', y :: m' => val_eqb x y && vals l' m'
     | _, _ => false
     end) l m = vals_eqb l m.
Proof. unfold vals_eqb; revert m; induction l; destruct m; simpl; congruence. Qed.

Lemma list_eqb_refl {A} (e : A -> A -> bool) l : Forall (fun x => e x x = true) l -> list_eqb e l l = true.
Proof. induction 1; simpl; [reflexivity|]. rewrite H, IHForall; reflexivity. Qed.

Lemma ty_eqb_refl t : ty_eqb t t = true.
Proof.
  induction t using ty_ind'; simpl; try reflexivity; try apply N.eqb_refl; try apply str_eqb_refl;
    rewrite ?ty_eqb_tys, ?N.eqb_refl, ?str_eqb_refl, ?IHt, ?IHt1, ?IHt2; simpl; try reflexivity.
  - apply list_eqb_refl; assumption.
  - rewrite !list_eqb_refl by assumption. destruct v; reflexivity.
Qed.

Lemma val_eqb_refl v : val_eqb v v = true.
Proof.
  induction v using val_ind'; simpl; rewrite ?val_eqb_vals; unfold vals_eqb;
    rewrite ?N.eqb_refl, ?Z.eqb_refl, ?str_eqb_refl, ?ty_eqb_refl, ?IHv; simpl;
    try reflexivity; try (apply list_eqb_refl; assumption);
    try (rewrite !list_eqb_refl by assumption; reflexivity).
  destruct b; reflexivity.
Qed.

Lemma vals_eqb_refl l : vals_eqb l l = true.
Proof. unfold vals_eqb; apply list_eqb_refl, Forall_forall; intros; apply val_eqb_refl. Qed.

Lemma vals_eqb_cons x y l m : vals_eqb (x :: l) (y :: m) = val_eqb x y && vals_eqb l m.
Proof. reflexivity. Qed.

Lemma vals_eqb_app a b c d :
  vals_eqb a b = true -> vals_eqb c d = true -> vals_eqb (a ++ c) (b ++ d) = true.
Proof.
  unfold vals_eqb; revert b; induction a as [|x a IH]; intros [|y b]; simpl; try discriminate; auto.
  rewrite andb_true_iff; intros [H1 H2] H3. rewrite H1; simpl; auto.
Qed.

Lemma vals_eqb_length a b : vals_eqb a b = true -> length a = length b.
Proof.
  unfold vals_eqb; revert b; induction a as [|x a IH]; intros [|y b]; simpl; try discriminate; auto.
  rewrite andb_true_iff; intros [_ H]; f_equal; auto.
Qed.

Lemma vals_eqb_firstn n a b : vals_eqb a b = true -> vals_eqb (firstn n a) (firstn n b) = true.
Proof.
  unfold vals_eqb; revert a b; induction n; intros [|x a] [|y b]; simpl; try discriminate; auto.
  rewrite !andb_true_iff; intros [H1 H2]; split; auto.
Qed.

Lemma vals_eqb_skipn n a b : vals_eqb a b = true -> vals_eqb (skipn n a) (skipn n b) = true.
Proof.
  unfold vals_eqb; revert a b; induction n; intros [|x a] [|y b]; simpl; try discriminate; auto.
  rewrite !andb_true_iff; intros [H1 H2]; auto.
Qed.

Lemma vals_eqb_Forall2 a b : Forall2 (fun x y => val_eqb x y = true) a b -> vals_eqb a b = true.
Proof. unfold vals_eqb; induction 1; simpl; [reflexivity|]. rewrite H, IHForall2; reflexivity. Qed.

(* ------------------------------------------------------------------ *)
(** * Sizes *)

Fixpoint vsum (l : list val) : nat := match l with [] => 0 | x :: l' => vsize x + vsum l' end.

Lemma vsize_sum l :
  (fix sum (l : list val) : nat := match l with [] => 0 | x :: l' => vsize x + sum l' end) l = vsum l.
Proof. induction l; simpl; congruence. Qed.

Lemma vsum_In x l : In x l -> vsize x <= vsum l.
Proof. induction l; simpl; [tauto|]. intros [->|H]; [lia|]. specialize (IHl H); lia. Qed.

Lemma vsize_func r pts : vsize (VFunc r pts) = S (vsum pts).
Proof. simpl. rewrite vsize_sum. reflexivity. Qed.

Lemma vsize_point a r : vsize (VPoint a r) = S (vsum a + vsum r).
Proof. simpl. rewrite !vsize_sum. reflexivity. Qed.

(* ------------------------------------------------------------------ *)
(** * Well-formed values: no stray box, functional graphs *)

Definition nobox (v : val) : Prop := forall x, v <> VBox x.

Inductive okv : ty -> val -> Prop :=
| ok_plain : forall t v, nobox v -> (forall r p, v <> VFunc r p) -> okv t v
| ok_func : forall ins va outs r pts,
    Forall (fun p => exists a res, p = VPoint a res /\ length a = length ins /\ Forall nobox a
                                   /\ lookup pts a = res /\ Forall2 okv outs res) pts ->
    okv (TFunc ins va outs) (VFunc r pts)
| ok_func_other : forall t r pts, (forall i v o, t <> TFunc i v o) -> okv t (VFunc r pts).

Lemma okv_nobox t v : okv t v -> nobox v.
Proof. destruct 1; auto; intros x; discriminate. Qed.

Lemma script_view_to_script t v : nobox v -> script_view (to_script t v) = v.
Proof.
  intros H. destruct t; simpl; try reflexivity; destruct v; try reflexivity; exfalso; eapply H; reflexivity.
Qed.

Lemma map_view_to_script ins a :
  Forall nobox a -> length a = length ins -> map script_view (map2 to_script ins a) = a.
Proof.
  revert a; induction ins as [|t ins IH]; intros [|x a] Hn Hl; simpl in *; try discriminate; auto.
  inversion Hn; subst. rewrite script_view_to_script by assumption. f_equal. apply IH; auto.
Qed.

Lemma to_host_plain fuel t v : nobox v -> (forall r p, v <> VFunc r p) -> to_host fuel t v = v.
Proof.
  intros Hb Hf. destruct fuel; [reflexivity|]. destruct v; simpl; try reflexivity.
  - exfalso; eapply Hb; reflexivity.
  - exfalso; eapply Hf; reflexivity.
Qed.

Lemma map2_to_host_eqb f outs res :
  (forall t v, In v res -> okv t v -> val_eqb (to_host f t v) v = true) ->
  Forall2 okv outs res -> vals_eqb (map2 (to_host f) outs res) res = true.
Proof.
  intros IH H. induction H; simpl; [reflexivity|].
  rewrite vals_eqb_cons, IH by (simpl; auto). simpl. apply IHForall2. intros; apply IH; simpl; auto.
Qed.

Definition wrap_point (f : nat) (ins outs : list ty) (full : list val) (p : val) : val :=
  match p with
  | VPoint a _ => VPoint a (map2 (to_host f) outs (lookup full (map script_view (map2 to_script ins a))))
  | x => x
  end.

Definition point_ok (ins outs : list ty) (full : list val) (p : val) : Prop :=
  exists a res, p = VPoint a res /\ length a = length ins /\ Forall nobox a
                /\ lookup full a = res /\ Forall2 okv outs res.

Lemma wrap_points_eqb f ins outs full l :
  (forall t v, vsize v <= f -> okv t v -> val_eqb (to_host f t v) v = true) ->
  Forall (point_ok ins outs full) l ->
  (forall p, In p l -> vsize p <= f) ->
  vals_eqb (map (wrap_point f ins outs full) l) l = true.
Proof.
  intros IH Hall Hsub. induction Hall as [|p l Hp Hall IHl]; [reflexivity|].
  destruct Hp as (a & res & -> & Hlen & Hnb & Hlk & Hres).
  cbn [map wrap_point]. rewrite vals_eqb_cons. cbn [val_eqb]. rewrite !val_eqb_vals.
  rewrite map_view_to_script by assumption. rewrite Hlk.
  rewrite vals_eqb_refl. cbn [andb].
  assert (Hp : vsize (VPoint a res) <= f) by (apply Hsub; simpl; auto).
  rewrite vsize_point in Hp.
  rewrite map2_to_host_eqb; [cbn [andb]| |assumption].
  - apply IHl. intros; apply Hsub; simpl; auto.
  - intros t' v' Hin Hok'. apply IH; [apply vsum_In in Hin; lia|assumption].
Qed.

Lemma to_host_func f ins va outs pts :
  to_host (S f) (TFunc ins va outs) (VFunc RNode pts) = VFunc RWrapped (map (wrap_point f ins outs pts) pts).
Proof. reflexivity. Qed.

Lemma to_host_eqb : forall fuel t v, vsize v <= fuel -> okv t v -> val_eqb (to_host fuel t v) v = true.
Proof.
  induction fuel as [|f IH]; intros t v Hs Hok.
  - apply val_eqb_refl.
  - inversion Hok; subst.
    + rewrite to_host_plain by assumption. apply val_eqb_refl.
    + destruct r; try apply val_eqb_refl.
      rewrite to_host_func. cbn [val_eqb]. rewrite val_eqb_vals.
      rewrite vsize_func in Hs.
      apply wrap_points_eqb; auto.
      intros p Hp; apply vsum_In in Hp; lia.
    + destruct r; try apply val_eqb_refl.
      destruct t; try apply val_eqb_refl. exfalso; eapply H; reflexivity.
Qed.

Lemma host_view_to_host fuel t v : okv t v -> host_view (to_host fuel t v) = to_host fuel t v.
Proof.
  intros Hok. destruct fuel; simpl.
  - destruct v; try reflexivity. exfalso; eapply okv_nobox; eauto.
  - destruct v; try reflexivity.
    + exfalso; eapply okv_nobox; eauto.
    + destruct r; try reflexivity. destruct t; reflexivity.
Qed.

(** The round trip of one value, in both directions. *)
Lemma roundtrip t v :
  okv t v ->
  script_view (to_script t v) = v /\ val_eqb (host_view (to_host (vsize v) t v)) v = true.
Proof.
  intros Hok; split.
  - apply script_view_to_script. eapply okv_nobox; eauto.
  - rewrite host_view_to_host by assumption. apply to_host_eqb; auto.
Qed.

(** A function that crosses to the host a second time is not wrapped again. *)
Lemma wrap_once f1 f2 t v : okv t v -> to_host f2 t (to_host (S f1) t v) = to_host (S f1) t v.
Proof.
  intros Hok. destruct v; try (destruct f2; reflexivity).
  - exfalso; eapply okv_nobox; eauto.
  - cbn [to_host]. destruct r; try (destruct f2; reflexivity).
    destruct t; destruct f2; reflexivity.
Qed.


(** Calling a function through the wrapper(s): at every point of its graph the wrapper returns the
    function's own results. *)
Lemma lookup_wrap_points f ins outs full l a :
  (forall t v, vsize v <= f -> okv t v -> val_eqb (to_host f t v) v = true) ->
  Forall (point_ok ins outs full) l ->
  (forall p, In p l -> vsize p <= f) ->
  vals_eqb (lookup (map (wrap_point f ins outs full) l) a) (lookup l a) = true.
Proof.
  intros IH Hall Hsub. induction Hall as [|p l Hp Hall IHl]; [reflexivity|].
  destruct Hp as (x & res & -> & Hlen & Hnb & Hlk & Hres).
  cbn [map wrap_point lookup]. destruct (vals_eqb x a).
  - rewrite map_view_to_script by assumption. rewrite Hlk.
    assert (Hp : vsize (VPoint x res) <= f) by (apply Hsub; simpl; auto).
    rewrite vsize_point in Hp.
    apply map2_to_host_eqb; [|assumption].
    intros t' v' Hin Hok'. apply IH; [apply vsum_In in Hin; lia|assumption].
  - apply IHl. intros; apply Hsub; simpl; auto.
Qed.

Lemma call_through_wrappers f1 f2 ins va outs r pts a :
  okv (TFunc ins va outs) (VFunc r pts) -> vsize (VFunc r pts) <= S f1 ->
  vals_eqb (call (to_host f2 (TFunc ins va outs) (to_host (S f1) (TFunc ins va outs) (VFunc r pts))) a)
           (call (VFunc r pts) a) = true.
Proof.
  intros Hok Hs. rewrite wrap_once by assumption.
  inversion Hok; subst.
  - exfalso; eapply H0; reflexivity.
  - destruct r; try apply vals_eqb_refl.
    rewrite to_host_func. cbn [call]. rewrite vsize_func in Hs.
    apply lookup_wrap_points; auto.
    + intros; apply to_host_eqb; assumption.
    + intros p Hp; apply vsum_In in Hp; lia.
  - exfalso; eapply H1; reflexivity.
Qed.

(* ------------------------------------------------------------------ *)
(** * Variadic packing *)

Lemma firstn_app_exact {A} n (l m : list A) : length l = n -> firstn n (l ++ m) = l.
Proof. intros <-. rewrite firstn_app, Nat.sub_diag, firstn_all. simpl. apply app_nil_r. Qed.

Lemma skipn_app_exact {A} n (l m : list A) : length l = n -> skipn n (l ++ m) = m.
Proof. intros <-. rewrite skipn_app, Nat.sub_diag, skipn_all. reflexivity. Qed.

Lemma spread_reflect_pack n args : n <= length args -> spread n (reflect_pack n args) = args.
Proof.
  intros H. unfold spread, reflect_pack.
  rewrite firstn_app_exact, skipn_app_exact by (rewrite firstn_length; lia).
  apply firstn_skipn.
Qed.

Lemma spread_go_pack n args : n <= length args -> spread n (go_pack n args) = args.
Proof.
  intros H. unfold spread, go_pack.
  rewrite firstn_app_exact, skipn_app_exact by (rewrite firstn_length; lia).
  destruct (skipn n args) eqn:E.
  - rewrite <- (firstn_skipn n args) at 2. rewrite E. reflexivity.
  - rewrite <- E. apply firstn_skipn.
Qed.

Lemma pack_agree n args : n < length args -> reflect_pack n args = go_pack n args.
Proof.
  intros H. unfold reflect_pack, go_pack. destruct (skipn n args) eqn:E; [|reflexivity].
  exfalso. assert (length (skipn n args) = 0) by (rewrite E; reflexivity).
  rewrite skipn_length in H0. lia.
Qed.

Definition not_any_slice (v : val) : bool :=
  match v with VIface (TSlice TAny) _ => false | _ => true end.

Lemma script_accumulate_plain elem acc v :
  not_any_slice v = true ->
  script_accumulate elem acc v = match acc with VSlice l => VSlice (l ++ [v]) | _ => VSlice [v] end.
Proof.
  intros H. unfold script_accumulate. destruct elem; try reflexivity.
  destruct v; try reflexivity. destruct t; try reflexivity. destruct t; try reflexivity. discriminate.
Qed.

Lemma fold_accumulate elem l l0 :
  forallb not_any_slice l = true ->
  fold_left (script_accumulate elem) l (VSlice l0) = VSlice (l0 ++ l).
Proof.
  revert l0; induction l as [|v l IH]; intros l0 H; simpl in *; [rewrite app_nil_r; reflexivity|].
  rewrite andb_true_iff in H. destruct H as [Hv Hl].
  rewrite script_accumulate_plain by assumption. rewrite IH by assumption.
  rewrite <- app_assoc. reflexivity.
Qed.

Lemma script_pack_go elem n args :
  forallb not_any_slice (skipn n args) = true -> script_pack elem n args = go_pack n args.
Proof.
  intros H. unfold script_pack, go_pack. f_equal. f_equal.
  destruct (skipn n args) as [|v l]; [reflexivity|].
  simpl in *. rewrite andb_true_iff in H. destruct H as [Hv Hl].
  rewrite script_accumulate_plain by assumption. rewrite fold_accumulate by assumption. reflexivity.
Qed.

(* ------------------------------------------------------------------ *)
(** * Zero values are skipped soundly — when IsZero means "is the zero value" *)

Lemma copy_arg_sound t v : (is_zero v = true -> v = zero t) -> copy_arg t (zero t) v = v.
Proof.
  intros H. unfold copy_arg. destruct (is_zero v); simpl; [|reflexivity].
  destruct (is_iface_ty t); simpl; [reflexivity|]. symmetry; auto.
Qed.

Lemma float_zero_bits b : float_is_zero b = true -> neg_zero_bits b = false -> b = 0%N.
Proof.
  unfold float_is_zero. intros H Hn. rewrite Hn, orb_false_r in H. apply N.eqb_eq; assumption.
Qed.

Lemma forallb_all2_zero f ts vs :
  (forall t v, In v vs -> has_type f t v = true -> no_negzero v = true -> is_zero v = true -> v = zero t) ->
  (fix all2 (ts : list ty) (vs : list val) : bool :=
     match ts, vs with
     | [], [] => true
     | t' :: ts', v' :: vs' => has_type f t' v' && all2 ts' vs'
     | _, _ => false
     end) ts vs = true ->
  forallb no_negzero vs = true -> forallb is_zero vs = true -> vs = map zero ts.
Proof.
  revert vs; induction ts as [|t ts IH]; intros [|v vs] Hx H Hn Hz; simpl in *; try discriminate; auto.
  rewrite andb_true_iff in *. destruct H, Hn, Hz. f_equal; [apply Hx; auto|].
  apply IH; auto.
Qed.

Lemma zero_is_the_zero_value : forall fuel t v,
  has_type fuel t v = true -> no_negzero v = true -> is_zero v = true -> v = zero t.
Proof.
  induction fuel as [|f IH]; intros t v Ht Hn Hz; [discriminate|].
  destruct t, v; simpl in Ht, Hz |- *; try discriminate; try reflexivity.
  - destruct b; [discriminate|reflexivity].
  - apply Z.eqb_eq in Hz; subst; reflexivity.
  - apply N.eqb_eq in Hz; subst; reflexivity.
  - simpl in Hn. rewrite negb_true_iff in Hn. f_equal. apply float_zero_bits; assumption.
  - simpl in Hn. rewrite andb_true_iff, !negb_true_iff in Hn. rewrite andb_true_iff in Hz.
    destruct Hn, Hz. f_equal; apply float_zero_bits; assumption.
  - destruct s; [reflexivity|discriminate].
  - f_equal. simpl in Hn. eapply forallb_all2_zero; eauto.
  - simpl in Hn. rewrite andb_true_iff in Ht. destruct Ht as [Hl Hall]. apply N.eqb_eq in Hl. subst n.
    rewrite Nat2N.id. f_equal.
    induction l as [|x l IHl]; [reflexivity|].
    simpl in *. rewrite andb_true_iff in *. destruct Hall, Hn, Hz. f_equal; [apply IH; auto|apply IHl; auto].
Qed.

Lemma zero_skip_sound fuel t v :
  has_type fuel t v = true -> no_negzero v = true -> copy_arg t (zero t) v = v.
Proof. intros Ht Hn. apply copy_arg_sound. intros Hz. eapply zero_is_the_zero_value; eauto. Qed.

(* ------------------------------------------------------------------ *)
(** * Result placement *)

Lemma store_length j v fr : length (store j v fr) = length fr.
Proof. revert j; induction fr; intros [|j]; simpl; auto. Qed.

Lemma nth_store_eq j v fr : j < length fr -> nth j (store j v fr) VNil = v.
Proof. revert j; induction fr; intros [|j] H; simpl in *; try lia; auto. apply IHfr; lia. Qed.

Lemma nth_store_neq i j v fr : i <> j -> nth i (store j v fr) VNil = nth i fr VNil.
Proof.
  revert i j; induction fr; intros [|i] [|j] H; simpl; auto; try congruence.
Qed.

Fixpoint somes (ds : list (option nat)) : list nat :=
  match ds with [] => [] | Some j :: ds' => j :: somes ds' | None :: ds' => somes ds' end.

Fixpoint select (ds : list (option nat)) (out : list val) : list val :=
  match ds, out with
  | Some _ :: ds', v :: out' => v :: select ds' out'
  | None :: ds', _ :: out' => select ds' out'
  | _, _ => []
  end.

Lemma place_length ds out fr : length (place ds out fr) = length fr.
Proof.
  revert out fr; induction ds as [|[j|] ds IH]; intros [|v out] fr; simpl; auto.
  rewrite IH. apply store_length.
Qed.

Lemma place_untouched ds out fr i : ~ In i (somes ds) -> nth i (place ds out fr) VNil = nth i fr VNil.
Proof.
  revert out fr; induction ds as [|[j|] ds IH]; intros [|v out] fr H; simpl in *; auto.
  rewrite IH by tauto. apply nth_store_neq. intros ->; tauto.
Qed.

Lemma read_back_place ds out fr :
  NoDup (somes ds) -> (forall j, In j (somes ds) -> j < length fr) -> length ds = length out ->
  read_back ds (place ds out fr) = select ds out.
Proof.
  revert out fr; induction ds as [|[j|] ds IH]; intros [|v out] fr Hnd Hb Hl; simpl in *; try discriminate; auto.
  inversion Hnd; subst. f_equal.
  - rewrite place_untouched by assumption. apply nth_store_eq. apply Hb; auto.
  - apply IH; auto. intros k Hk. rewrite store_length. apply Hb; auto.
Qed.

Lemma somes_map_Some l : somes (map Some l) = l.
Proof. induction l; simpl; congruence. Qed.

Lemma select_map_Some l out : length l = length out -> select (map Some l) out = out.
Proof. revert out; induction l; intros [|v out] H; simpl in *; try discriminate; auto. f_equal; auto. Qed.

Lemma multi_result p base res fr :
  base + length res < length fr ->
  read_back (dests_of p base (length res)) (place (dests_of p base (length res)) res fr) = g_results p res.
Proof.
  intros Hb. destruct p; simpl;
    try (rewrite read_back_place;
         [apply select_map_Some; rewrite seq_length; reflexivity
         |rewrite somes_map_Some; apply seq_NoDup
         |rewrite somes_map_Some; intros j Hj; apply in_seq in Hj; lia
         |rewrite map_length, seq_length; reflexivity]).
  destruct res as [|v res]; simpl; [reflexivity|].
  rewrite read_back_place.
  - apply select_map_Some. rewrite seq_length; reflexivity.
  - rewrite somes_map_Some; apply seq_NoDup.
  - rewrite somes_map_Some; intros j Hj; apply in_seq in Hj; simpl in Hb; lia.
  - rewrite map_length, seq_length; reflexivity.
Qed.

(* ------------------------------------------------------------------ *)
(** * Whole argument lists and result lists *)

Definition wt (t : ty) (v : val) : Prop := okv t v /\ exists fuel, has_type fuel t v = true.

Lemma prepared_ok ats args :
  Forall2 okv ats args ->
  let prepared := map2 (fun t v => to_host (vsize v) t v) ats args in
  map host_view prepared = prepared /\ vals_eqb prepared args = true /\ length prepared = length args.
Proof.
  induction 1 as [|t v ats args Hok H IH]; simpl; [auto|].
  destruct IH as (I1 & I2 & I3). repeat split.
  - rewrite host_view_to_host by assumption. f_equal. assumption.
  - rewrite vals_eqb_cons, to_host_eqb by auto. assumption.
  - f_equal; assumption.
Qed.

Lemma map_firstn {A B} (f : A -> B) n l : map f (firstn n l) = firstn n (map f l).
Proof. revert l; induction n; intros [|x l]; simpl; f_equal; auto. Qed.

Lemma map2_length_le {A B C} (f : A -> B -> C) l m : length l = length m -> length (map2 f l m) = length m.
Proof. revert m; induction l; intros [|y m] H; simpl in *; try discriminate; auto. Qed.

Lemma map2_id (f : ty -> val -> val) ts vs :
  length ts = length vs -> Forall2 (fun t v => f t v = v) ts vs -> map2 f ts vs = vs.
Proof. intros _ H. induction H; simpl; congruence. Qed.

Lemma Forall2_firstn {A B} (R : A -> B -> Prop) n l m : Forall2 R l m -> Forall2 R (firstn n l) (firstn n m).
Proof. intros H; revert n; induction H; intros [|n]; simpl; constructor; auto. Qed.

Lemma Forall2_length' {A B} (R : A -> B -> Prop) l m : Forall2 R l m -> length l = length m.
Proof. induction 1; simpl; congruence. Qed.

Lemma Forall2_impl' {A B} (R S : A -> B -> Prop) l m : (forall a b, R a b -> S a b) -> Forall2 R l m -> Forall2 S l m.
Proof. intros H; induction 1; constructor; auto. Qed.

Definition is_ind (m : cmode) : bool := match m with MInd => true | _ => false end.
Definition is_spread (m : cmode) : bool := match m with MSpread => true | _ => false end.

(** The decidable side condition: the negation of the known-defect regions of argument binding. *)
Definition bind_side (d : dir) (cx : cctx) (ins : list ty) (va : bool) (m : cmode) (args : list val) : bool :=
  let n := nfixed ins va in
  match d with
  | S2H => negb (cx_defer cx && is_spread m) && (negb (is_ind m) || Nat.ltb n (length args))
  | H2S => negb (is_ind m) || Nat.ltb n (length args)
  | S2S => if cx_value cx then negb (is_ind m) || Nat.ltb n (length args)
           else forallb no_negzero (firstn n args) && (negb (is_ind m) || forallb not_any_slice (skipn n args))
  end.

(** A well-formed call: the arguments have the types the call site gives them; the individual
    variadic arguments are only listed for a variadic function. *)
Definition call_wf (ins : list ty) (va : bool) (m : cmode) (args : list val) : Prop :=
  Forall2 wt (arg_types ins va m (length args)) args /\
  (m = MInd -> va = true /\ ins <> [] /\ nfixed ins va <= length args).

Lemma nfixed_variadic ins : ins <> [] -> S (nfixed ins true) = length ins.
Proof. destruct ins; [congruence|]. intros _. reflexivity. Qed.

Lemma firstn_arg_types ins va m k : nfixed ins va <= length ins ->
  firstn (nfixed ins va) (arg_types ins va m k) = firstn (nfixed ins va) ins.
Proof.
  intros H. unfold arg_types. destruct m; try reflexivity.
  rewrite firstn_app_exact; [reflexivity|]. rewrite firstn_length. lia.
Qed.

Lemma nfixed_le ins va : nfixed ins va <= length ins.
Proof. unfold nfixed. destruct va; lia. Qed.

Lemma bind_s2h cx ins va m args :
  bind_side S2H cx ins va m args = true -> call_wf ins va m args ->
  vals_eqb (y_bind S2H cx ins va m args) (g_bind ins va m args) = true.
Proof.
  unfold bind_side, call_wf. rewrite !andb_true_iff, !negb_true_iff. intros [Hds Hn] [Hwt Hind].
  assert (Hok : Forall2 okv (arg_types ins va m (length args)) args)
    by (eapply Forall2_impl'; [|eassumption]; intros a b [H _]; exact H).
  destruct (prepared_ok _ _ Hok) as (P1 & P2 & P3).
  unfold y_bind.
  set (prepared := map2 (fun t v => to_host (vsize v) t v) (arg_types ins va m (length args)) args) in *.
  destruct m; unfold g_bind.
  - rewrite P1. assumption.
  - simpl in Hn. apply Nat.ltb_lt in Hn.
    rewrite <- pack_agree by assumption.
    unfold reflect_pack. rewrite map_app, map_firstn, P1. simpl.
    apply vals_eqb_app; [apply vals_eqb_firstn; assumption|].
    rewrite vals_eqb_cons. cbn [val_eqb]. rewrite val_eqb_vals, vals_eqb_skipn by assumption. reflexivity.
  - simpl in Hds. rewrite andb_false_iff in Hds. destruct Hds as [->|]; [|discriminate].
    rewrite P1. assumption.
Qed.

Lemma bind_wrapper ins va m args :
  negb (is_ind m) || Nat.ltb (nfixed ins va) (length args) = true -> call_wf ins va m args ->
  bind_through_wrapper ins (nfixed ins va) m args = g_bind ins va m args.
Proof.
  unfold call_wf. intros Hn [Hwt Hind].
  assert (Hnb : Forall nobox args).
  { clear -Hwt. induction Hwt; constructor; auto. destruct H as [H _]. eapply okv_nobox; eauto. }
  unfold bind_through_wrapper, g_bind. destruct m.
  - apply map_view_to_script; [assumption|]. apply Forall2_length' in Hwt. unfold arg_types in Hwt. congruence.
  - destruct (Hind eq_refl) as (-> & Hne & Hle). simpl in Hn. apply Nat.ltb_lt in Hn.
    rewrite <- pack_agree by assumption.
    apply map_view_to_script.
    + unfold reflect_pack. apply Forall_app; split.
      * clear -Hnb. revert args Hnb. induction (nfixed ins true); intros [|x l] H; simpl; constructor; inversion H; auto.
      * constructor; [|constructor]. intros x; discriminate.
    + unfold reflect_pack. rewrite app_length, firstn_length. simpl.
      rewrite <- (nfixed_variadic ins) by assumption. lia.
  - apply map_view_to_script; [assumption|]. apply Forall2_length' in Hwt. unfold arg_types in Hwt. congruence.
Qed.

Lemma bind_h2s cx ins va m args :
  bind_side H2S cx ins va m args = true -> call_wf ins va m args ->
  y_bind H2S cx ins va m args = g_bind ins va m args.
Proof. intros; apply bind_wrapper; assumption. Qed.

Lemma bind_s2s cx ins va m args :
  bind_side S2S cx ins va m args = true -> call_wf ins va m args ->
  y_bind S2S cx ins va m args = g_bind ins va m args.
Proof.
  unfold bind_side, y_bind. destruct (cx_value cx); [intros; apply bind_wrapper; assumption|].
  unfold call_wf. rewrite andb_true_iff. intros [Hnz Hsl] [Hwt Hind].
  set (n := nfixed ins va) in *.
  assert (Hfix : Forall2 (fun t v => copy_arg t (zero t) v = v) (firstn n ins) (firstn n args)).
  { pose proof (Forall2_firstn _ n _ _ Hwt) as H.
    unfold n in H at 1. rewrite firstn_arg_types in H by apply nfixed_le. fold n in H.
    clear -H Hnz. revert Hnz. induction H as [|t v ts vs [Hok [fuel Ht]] H IH]; simpl; [constructor|].
    rewrite andb_true_iff. intros [Hv Hvs]. constructor; [eapply zero_skip_sound; eauto|auto]. }
  assert (Hlen : length (firstn n ins) = length (firstn n args)) by (eapply Forall2_length'; eassumption).
  unfold g_bind. fold n. destruct m.
  - rewrite map2_id by assumption. apply firstn_skipn.
  - destruct (Hind eq_refl) as (-> & Hne & Hle). simpl in Hsl.
    rewrite script_pack_go by assumption.
    unfold go_pack at 1 2.
    rewrite firstn_app_exact, skipn_app_exact by (rewrite firstn_length; fold n; lia).
    rewrite map2_id by assumption. reflexivity.
  - rewrite map2_id by assumption. apply firstn_skipn.
Qed.

(** Binding agrees with Go's outside the regions, in every direction. *)
Lemma bind_agree d cx ins va m args :
  bind_side d cx ins va m args = true -> call_wf ins va m args ->
  vals_eqb (y_bind d cx ins va m args) (g_bind ins va m args) = true.
Proof.
  destruct d; intros Hs Hw.
  - apply bind_s2h; assumption.
  - rewrite bind_h2s by assumption. apply vals_eqb_refl.
  - rewrite bind_s2s by assumption. apply vals_eqb_refl.
Qed.

(** Results: every placement shape hands every result to the right reader. *)
Lemma g_results_eqb p a b : vals_eqb a b = true -> vals_eqb (g_results p a) (g_results p b) = true.
Proof. intros H. destruct p; simpl; auto. destruct a, b; try discriminate; auto.
  rewrite vals_eqb_cons, andb_true_iff in H. tauto. Qed.

Lemma g_results_map (f : val -> val) p l : map f (g_results p l) = g_results p (map f l).
Proof. destruct p; simpl; auto. destruct l; reflexivity. Qed.

Lemma results_agree d p outs res :
  Forall2 okv outs res ->
  vals_eqb (y_results d p outs res) (g_results p res) = true.
Proof.
  intros Hok. pose proof (Forall2_length' _ _ _ Hok) as Hlen.
  assert (Hnb : Forall nobox res) by (clear -Hok; induction Hok; constructor; eauto using okv_nobox).
  unfold y_results.
  destruct d.
  - destruct (prepared_ok _ _ Hok) as (P1 & P2 & P3). rewrite P1.
    set (crossed := map2 (fun t v => to_host (vsize v) t v) outs res) in *.
    replace (length res) with (length crossed) by assumption.
    rewrite multi_result by (rewrite repeat_length; lia).
    apply g_results_eqb; assumption.
  - replace (length res) with (length (map2 to_script outs res)) by (apply map2_length_le; assumption).
    rewrite multi_result by (rewrite repeat_length, map2_length_le by assumption; lia).
    rewrite g_results_map, map_view_to_script by auto. apply vals_eqb_refl.
  - rewrite multi_result by (rewrite repeat_length; lia).
    rewrite g_results_map.
    replace (map script_view res) with res; [apply vals_eqb_refl|].
    clear -Hnb. induction Hnb as [|v l H]; simpl; [reflexivity|]. f_equal; [|assumption].
    destruct v; try reflexivity. exfalso; eapply H; reflexivity.
Qed.

(* ------------------------------------------------------------------ *)
(** * Variables, methods, wrappers *)

Lemma hostvar_read_agree c t atc cur :
  taken_for_type t atc = false -> (c = RLive \/ iface_like t = true \/ atc = cur) ->
  y_hostvar_read c t atc cur = g_var_read cur.
Proof.
  intros Ht H. unfold y_hostvar_read, g_var_read. rewrite Ht.
  destruct c; [|reflexivity]. destruct (iface_like t); [reflexivity|].
  destruct H as [H|[H|H]]; congruence.
Qed.

Lemma hostvar_write_agree w t atc old new :
  taken_for_type t atc = false -> w <> WDirectLit -> okv t new ->
  val_eqb (y_hostvar_write w t atc old new) (g_var_write new) = true.
Proof.
  intros Ht Hw Hok. unfold y_hostvar_write, g_var_write. rewrite Ht.
  destruct w; try congruence; rewrite host_view_to_host by assumption; apply to_host_eqb; auto.
Qed.

Lemma shared_agree d t v : okv t v -> val_eqb (y_shared d t v) v = true.
Proof.
  intros Hok. unfold y_shared. destruct d;
    try (rewrite script_view_to_script by (eapply okv_nobox; eauto); apply val_eqb_refl).
  rewrite host_view_to_host by assumption. apply to_host_eqb; auto.
Qed.

Lemma to_host_okv fuel t v : okv t v -> nobox (to_host fuel t v).
Proof.
  intros Hok x. destruct fuel; simpl; [eapply okv_nobox; eauto|].
  destruct v; try discriminate.
  - exfalso; eapply okv_nobox; eauto.
  - destruct r; try discriminate. destruct t; discriminate.
Qed.

Lemma round_s_agree t v : okv t v -> val_eqb (y_round_s t v) v = true.
Proof.
  intros Hok. unfold y_round_s. rewrite script_view_to_script by (apply to_host_okv; assumption).
  apply to_host_eqb; auto.
Qed.

Lemma round_h_agree t v : okv t v -> val_eqb (y_round_h t v) v = true.
Proof.
  intros Hok. unfold y_round_h. rewrite script_view_to_script by (eapply okv_nobox; eauto).
  rewrite host_view_to_host by assumption. apply to_host_eqb; auto.
Qed.

Lemma method_agree f vp np na :
  f <> FMethodExpr -> (f = FMethodValue -> vp = None /\ np <= na) -> (vp = None -> na <= np) ->
  y_method_outcome f vp np na = None.
Proof.
  intros Hf Hv Hn. destruct f; try congruence; try reflexivity; unfold y_method_outcome, rcvr_offset_y, rcvr_offset_g; simpl.
  - destruct vp as [v|]; simpl; [reflexivity|].
    specialize (Hn eq_refl). replace (Nat.ltb na (S np)) with true; [reflexivity|].
    symmetry; apply Nat.ltb_lt; lia.
  - destruct vp as [v|]; simpl; [reflexivity|].
    specialize (Hn eq_refl). replace (Nat.ltb na (S np)) with true; [reflexivity|].
    symmetry; apply Nat.ltb_lt; lia.
  - destruct (Hv eq_refl) as [-> Hle]. simpl.
    replace (Nat.ltb na np) with false; [reflexivity|]. symmetry; apply Nat.ltb_ge; lia.
Qed.

Lemma wrapper_agree p sm m :
  p <> PAnyParam -> (mem m (iface_methods p) = true \/ mem m sm = false) ->
  y_host_sees p sm (WMethod m) = g_host_sees sm (WMethod m).
Proof.
  intros Hp H. unfold y_host_sees, g_host_sees. destruct p; try congruence;
    destruct H as [H|H]; rewrite H; simpl; auto; apply andb_false_r.
Qed.

Lemma wrapper_any_agree sm m : mem m sm = false -> y_host_sees PAnyParam sm (WMethod m) = g_host_sees sm (WMethod m).
Proof. intros H; simpl; congruence. Qed.

(* ------------------------------------------------------------------ *)
(** * Witnesses: the side conditions are inhabited, and outside them the faithful model differs *)

Definition cx0 : cctx := {| cx_defer := false; cx_value := false |}.
Definition cx_deferred : cctx := {| cx_defer := true; cx_value := false |}.
Definition cx_funcvalue : cctx := {| cx_defer := false; cx_value := true |}.

Definition tP : ty := TStruct (s "P") [TInt 64; TString].
Definition vP (x : Z) (y : string) : val := VStruct [VInt x; VStr (s y)].
Definition t_cb : ty := TFunc [TInt 64] false [TString].
Definition v_cb : val := VFunc RNode [VPoint [VInt 1] [VStr (s "one")]; VPoint [VInt 2] [VStr (s "two")]].

(** func(string, ...int) called as f("a", 1, 2): the side condition holds, the call is well formed. *)
Definition ins_v : list ty := [TString; TSlice (TInt 64)].
Definition args_v : list val := [VStr (s "a"); VInt 1; VInt 2].

Lemma okv_plain t v : (match v with VBox _ | VFunc _ _ => False | _ => True end) -> okv t v.
Proof. intros H. apply ok_plain; [intros x E|intros r p E]; subst; exact H. Qed.

Lemma wt_str x : wt TString (VStr x).
Proof. split; [apply okv_plain; exact I|exists 1; reflexivity]. Qed.
Lemma wt_int b z : wt (TInt b) (VInt z).
Proof. split; [apply okv_plain; exact I|exists 1; reflexivity]. Qed.

Lemma bind_side_inhabited :
  bind_side S2H cx0 ins_v true MInd args_v = true /\ call_wf ins_v true MInd args_v
  /\ y_bind S2H cx0 ins_v true MInd args_v = [VStr (s "a"); VSlice [VInt 1; VInt 2]].
Proof.
  split; [reflexivity|]. split; [|reflexivity].
  split.
  - simpl. constructor; [apply wt_str|]. constructor; [apply wt_int|]. constructor; [apply wt_int|constructor].
  - intros _. repeat split; [discriminate|simpl; lia].
Qed.

Lemma okv_cb : okv t_cb v_cb.
Proof.
  apply ok_func. constructor; [|constructor; [|constructor]].
  - exists [VInt 1], [VStr (s "one")]. split; [reflexivity|]. split; [reflexivity|]. split; [|split; [reflexivity|]].
    + constructor; [intros x; discriminate|constructor].
    + constructor; [apply okv_plain; exact I|constructor].
  - exists [VInt 2], [VStr (s "two")]. split; [reflexivity|]. split; [reflexivity|]. split; [|split; [reflexivity|]].
    + constructor; [intros x; discriminate|constructor].
    + constructor; [apply okv_plain; exact I|constructor].
Qed.

Lemma roundtrip_inhabited :
  okv t_cb v_cb /\ to_host (vsize v_cb) t_cb v_cb <> v_cb
  /\ call (to_host 3 t_cb (to_host (vsize v_cb) t_cb v_cb)) [VInt 2] = [VStr (s "two")].
Proof. split; [apply okv_cb|]. split; [discriminate|reflexivity]. Qed.

(** script -> host variadic call with no variadic argument: the host gets an empty slice, not nil *)
Lemma variadic_empty_refuted :
  y_bind S2H cx0 ins_v true MInd [VStr (s "a")] = [VStr (s "a"); VSlice []]
  /\ g_bind ins_v true MInd [VStr (s "a")] = [VStr (s "a"); VNil].
Proof. split; reflexivity. Qed.

(** defer host.F("a", xs...) *)
Lemma defer_spread_refuted :
  y_bind S2H cx_deferred ins_v true MSpread [VStr (s "a"); VSlice [VInt 1]] = [VBad (s "panic"); VBad (s "panic")]
  /\ y_bind S2H cx_deferred [TString; TSlice TAny] true MSpread [VStr (s "a"); VSlice [VIface (TInt 64) (VInt 1)]]
     = [VStr (s "a"); VSlice [VIface (TSlice TAny) (VSlice [VIface (TInt 64) (VInt 1)])]]
  /\ g_bind ins_v true MSpread [VStr (s "a"); VSlice [VInt 1]] = [VStr (s "a"); VSlice [VInt 1]].
Proof. repeat split; reflexivity. Qed.

(** defer host.F(cb), cb a local func variable the host calls back: repaired by abe7a69 (the call
    used to hang on the frame mutex); now the host gets the callback like in any other call. *)
Lemma defer_callback_regression :
  bind_side S2H cx_deferred [t_cb] false MPlain [v_cb] = true
  /\ vals_eqb (y_bind S2H cx_deferred [t_cb] false MPlain [v_cb]) (g_bind [t_cb] false MPlain [v_cb]) = true
  /\ call (hd VNil (y_bind S2H cx_deferred [t_cb] false MPlain [v_cb])) [VInt 2] = [VStr (s "two")].
Proof. repeat split; reflexivity. Qed.

(** F(-0.0) inside the script: the parameter is +0 *)
Definition neg0 : val := VFloat 9223372036854775808.
Lemma negzero_refuted :
  y_bind S2S cx0 [TFloat 64; TInt 64] false MPlain [neg0; VInt 42] = [VFloat 0; VInt 42]
  /\ y_bind H2S cx0 [TFloat 64; TInt 64] false MPlain [neg0; VInt 42] = [neg0; VInt 42]
  /\ g_bind [TFloat 64; TInt 64] false MPlain [neg0; VInt 42] = [neg0; VInt 42]
  /\ bind_side S2S cx0 [TFloat 64; TInt 64] false MPlain [neg0; VInt 42] = false
  /\ y_bind S2S cx_funcvalue [TFloat 64; TInt 64] false MPlain [neg0; VInt 42] = [neg0; VInt 42].
Proof. repeat split; reflexivity. Qed.

(** F(s) with s []interface{} for F(xs ...interface{}) inside the script: taken as F(s...) *)
Definition any_slice : val := VIface (TSlice TAny) (VSlice [VIface (TInt 64) (VInt 1); VIface (TInt 64) (VInt 2)]).
Lemma variadic_slice_arg_refuted :
  y_bind S2S cx0 [TSlice TAny] true MInd [any_slice] = [VSlice [VIface (TInt 64) (VInt 1); VIface (TInt 64) (VInt 2)]]
  /\ g_bind [TSlice TAny] true MInd [any_slice] = [VSlice [any_slice]]
  /\ y_bind H2S cx0 [TSlice TAny] true MInd [any_slice] = [VSlice [any_slice]].
Proof. repeat split; reflexivity. Qed.

(** host variables *)
Lemma hostvar_stale_refuted :
  y_hostvar_read RDirect (TInt 64) (VInt 7) (VInt 100) = VInt 7 /\ g_var_read (VInt 100) = VInt 100
  /\ y_hostvar_read RLive (TInt 64) (VInt 7) (VInt 100) = VInt 100
  /\ y_hostvar_read RDirect TAny (VIface (TInt 64) (VInt 7)) (VIface (TInt 64) (VInt 100)) = VIface (TInt 64) (VInt 100).
Proof. repeat split; reflexivity. Qed.

Lemma hostvar_write_lit_refuted :
  y_hostvar_write WDirectLit tP (vP 1 "a") (vP 1 "a") (vP 5 "z") = vP 1 "a" /\ g_var_write (vP 5 "z") = vP 5 "z"
  /\ y_hostvar_write WDirect tP (vP 1 "a") (vP 1 "a") (vP 5 "z") = vP 5 "z".
Proof. repeat split; reflexivity. Qed.

Lemma hostvar_nilptr_refuted :
  y_hostvar_read RLive (TPtr (TInt 64)) VNil (VPtr (VInt 3)) = VBad (s "compile-error")
  /\ g_var_read (VPtr (VInt 3)) = VPtr (VInt 3).
Proof. split; reflexivity. Qed.

(** f := p.Cat; f("-", 1, 2)  and  host.P.Sum(p, 1) *)
Lemma method_value_variadic_refuted :
  y_method_outcome FMethodValue (Some 1) 2 3 = Some (s "panic")
  /\ y_method_outcome FValue (Some 1) 2 3 = None /\ y_method_outcome FMethodValue None 1 1 = None.
Proof. repeat split; reflexivity. Qed.

Lemma method_expr_refuted : y_method_outcome FMethodExpr None 1 1 = Some (s "compile-error").
Proof. reflexivity. Qed.

(** a script error type with Unwrap handed to a host function taking error *)
Lemma iface_method_hidden_refuted :
  y_host_sees PErrorParam [s "Error"; s "Unwrap"] (WMethod (s "Unwrap")) = false
  /\ g_host_sees [s "Error"; s "Unwrap"] (WMethod (s "Unwrap")) = true
  /\ y_host_sees PErrorParam [s "Error"; s "Unwrap"] (WMethod (s "Error")) = true
  /\ y_host_sees PAnyParam [s "String"] (WMethod (s "String")) = false.
Proof. repeat split; reflexivity. Qed.

Lemma iface_uncomparable_refuted :
  y_host_sees PErrorParam [s "Error"] WComparable = false /\ g_host_sees [s "Error"] WComparable = true.
Proof. split; reflexivity. Qed.

Lemma variadic_both n args :
  n <= length args -> spread n (reflect_pack n args) = args /\ spread n (go_pack n args) = args.
Proof. intros H; split; [apply spread_reflect_pack|apply spread_go_pack]; assumption. Qed.

Lemma shared_all t v :
  okv t v ->
  (forall d, val_eqb (y_shared d t v) v = true) /\ val_eqb (y_round_s t v) v = true /\ val_eqb (y_round_h t v) v = true.
Proof. intros H; split; [intros d; apply shared_agree|split; [apply round_s_agree|apply round_h_agree]]; assumption. Qed.

(* ------------------------------------------------------------------ *)
(** * Embedded host interfaces *)

Definition layout_first (f : efacts) : bool := match ef_layout f with LFirst => true | _ => false end.

(** The decidable side condition: no override is skipped by handing the value over unwrapped, and
    every promoted method can be found and called. *)
Definition embed_side (f : efacts) (over methods : list str) : bool :=
  if ef_ptr f && ef_implements f then ef_real f && forallb (fun m => negb (mem m over)) methods
  else forallb (fun m => mem m over || ef_ptr f || (if ef_nummeth f then ef_real f else negb (layout_first f))) methods.

Definition calm (w : who) : bool := match w with WFailBuild | WFailCall => false | _ => true end.

Lemma run_calls_calm l : forallb calm l = true -> run_calls l false = (l, false).
Proof.
  induction l as [|w l IH]; simpl; [reflexivity|]. rewrite andb_true_iff. intros [Hw Hl].
  rewrite (IH Hl). destruct w; try discriminate; reflexivity.
Qed.

Lemma calm_no_failbuild l : forallb calm l = true -> existsb is_failbuild l = false.
Proof.
  induction l as [|w l IH]; simpl; [reflexivity|]. rewrite andb_true_iff. intros [Hw Hl].
  rewrite (IH Hl). destruct w; try discriminate; reflexivity.
Qed.

Lemma y_one_agree f over del methods :
  embed_side f over methods = true ->
  map (y_one f over del) methods = map (g_one over del) methods.
Proof.
  unfold embed_side, y_one, g_one. destruct (ef_ptr f && ef_implements f) eqn:E.
  - rewrite andb_true_iff. intros [Hr H]. rewrite Hr.
    induction methods as [|m ms IH]; simpl in *; [reflexivity|].
    rewrite andb_true_iff, negb_true_iff in H. destruct H as [Hm Hms]. rewrite Hm. f_equal; auto.
  - intros H. induction methods as [|m ms IH]; simpl in *; [reflexivity|].
    rewrite andb_true_iff in H. destruct H as [Hm Hms]. f_equal; [|auto].
    destruct (mem m over); [reflexivity|]. simpl in Hm.
    destruct (ef_ptr f); [reflexivity|]. simpl in Hm.
    destruct (ef_nummeth f); [rewrite Hm; reflexivity|].
    unfold layout_first in Hm. destruct (ef_layout f); try reflexivity; discriminate.
Qed.

Lemma g_one_calm over del methods : forallb calm (map (g_one over del) methods) = true.
Proof.
  induction methods as [|m ms IH]; simpl; [reflexivity|]. rewrite IH, andb_true_r.
  unfold g_one. destruct (mem m over); [destruct del|]; reflexivity.
Qed.

Lemma embedded_agree f over del methods :
  embed_side f over methods = true -> y_dispatch f over del methods = g_dispatch over del methods.
Proof.
  intros H. unfold y_dispatch, g_dispatch. rewrite (y_one_agree _ _ del _ H).
  rewrite calm_no_failbuild, run_calls_calm by apply g_one_calm. reflexivity.
Qed.

Definition f_val_only_iface : efacts :=   (* T{io-like interface}, by value: StructOf's stubs *)
  {| ef_ptr := false; ef_layout := LOnly; ef_implements := true; ef_nummeth := true; ef_real := false |}.
Definition f_ptr_only_compiled : efacts := (* &T{io.Writer}: *struct{io.Writer} exists in the binary *)
  {| ef_ptr := true; ef_layout := LOnly; ef_implements := true; ef_nummeth := true; ef_real := true |}.
Definition f_val_first : efacts :=
  {| ef_ptr := false; ef_layout := LFirst; ef_implements := false; ef_nummeth := false; ef_real := true |}.
Definition f_ptr_last : efacts :=
  {| ef_ptr := true; ef_layout := LLast; ef_implements := false; ef_nummeth := false; ef_real := true |}.

Lemma embed_side_inhabited :
  embed_side f_val_only_iface [s "Len"; s "Less"; s "Swap"] [s "Len"; s "Less"; s "Swap"] = true
  /\ embed_side f_ptr_last [s "Less"] [s "Len"; s "Less"; s "Swap"] = true
  /\ y_dispatch f_ptr_last [s "Less"] true [s "Len"; s "Less"; s "Swap"] = ([WHost; WBoth; WHost], false).
Proof. repeat split; reflexivity. Qed.

(** &T{io.Writer} with T overriding Write, handed to a host function taking io.Writer *)
Lemma embedded_unwrapped_pointer_refuted :
  y_dispatch f_ptr_only_compiled [s "Write"] false [s "Write"] = ([WHost], false)
  /\ g_dispatch [s "Write"] false [s "Write"] = ([WScript], false).
Proof. split; reflexivity. Qed.

(** T{sort.Interface} overriding only Len, by value *)
Lemma embedded_promoted_stub_refuted :
  y_dispatch f_val_only_iface [s "Len"] false [s "Len"; s "Less"; s "Swap"] = ([WScript; WNone; WNone], true)
  /\ g_dispatch [s "Len"] false [s "Len"; s "Less"; s "Swap"] = ([WScript; WHost; WHost], false).
Proof. split; reflexivity. Qed.

(** T{io.Reader; K string} not overriding Read, by value *)
Lemma embedded_first_by_value_refuted :
  y_dispatch f_val_first [] false [s "Read"] = ([WNone], true)
  /\ g_dispatch [] false [s "Read"] = ([WHost], false).
Proof. split; reflexivity. Qed.

(* ------------------------------------------------------------------ *)
(** * Session histories *)

(** No native call between a cancellation and the next evaluation that reaches Execute. *)
Fixpoint guarded (live : bool) (h : list step) : bool :=
  match h with
  | [] => true
  | SEval :: h' => guarded true h'
  | SEvalFail :: h' => guarded live h'
  | SCancel :: h' => guarded false h'
  | SCallNative :: h' => live && guarded live h'
  end.

Lemma session_agree : forall h live, guarded live h = true -> y_session live h = g_session h.
Proof.
  induction h as [|st h IH]; intros live H; simpl in *; [reflexivity|].
  destruct st; simpl in *; auto.
  rewrite andb_true_iff in H. destruct H as [-> H]. f_equal. auto.
Qed.

Definition h_ok : list step := [SCallNative; SEval; SCancel; SEvalFail; SEval; SCallNative; SCallNative].
Definition h_dead : list step := [SCallNative; SCancel; SCallNative; SEvalFail; SCallNative; SEval; SCallNative].

Lemma guarded_inhabited : guarded true h_ok = true /\ y_session true h_ok = [OOk; OOk; OOk].
Proof. split; reflexivity. Qed.

Lemma after_cancel_before_eval_refuted :
  y_session true h_dead = [OOk; OZero; OZero; OOk] /\ g_session h_dead = [OOk; OOk; OOk; OOk].
Proof. split; reflexivity. Qed.

(* ------------------------------------------------------------------ *)
(** * Argument expression shapes *)

Lemma strip_all_inner k r : strip_all k r = r.
Proof. induction k; simpl; auto. Qed.

Lemma a_unbox_box k : a_unbox (ABox k) = ARaw.
Proof. unfold a_unbox. apply strip_all_inner. Qed.

Definition is_box (r : arep) : bool := match r with ABox _ => true | _ => false end.
Definition raw_or_box (r : arep) : bool := match r with ARaw | ABox _ => true | _ => false end.

(** forwarding through script functions, from the second function on *)
Lemma forward_iface hm d r c ic :
  raw_or_box r = true -> exists k c' ic', d <> 0 -> a_forward PIface hm d (r, c, ic) = (ABox k, c', ic') /\ c' = false /\ ic' = false.
Proof.
  revert r c ic. induction d as [|d IH]; intros r c ic Hr.
  - exists 0, c, ic. congruence.
  - cbn [a_forward].
    assert (Hb : exists k, a_argconv PIface hm r c ic = ABox k).
    { unfold a_argconv. destruct r; try discriminate; destruct ic; eauto. }
    destruct Hb as [k Hk]. rewrite Hk.
    destruct d as [|d'].
    + exists k, false, false. intros _. repeat split.
    + destruct (IH (ABox k) false false eq_refl) as (k' & c' & ic' & H). exists k', c', ic'. intros _. apply H. discriminate.
Qed.

Lemma nest_iface_box hm n r : raw_or_box r = true -> is_box (a_nest PIface hm n r) = true.
Proof.
  revert r; induction n as [|n IH]; intros r Hr; simpl.
  - destruct r; try discriminate; reflexivity.
  - specialize (IH r Hr). destruct (a_nest PIface hm n r); try discriminate; reflexivity.
Qed.

Lemma expr_iface hm sh : let '(r, c, ic) := a_expr PIface hm sh in raw_or_box r = true /\ (c = true -> r = ARaw /\ ic = false).
Proof.
  destruct sh; simpl; try (split; [reflexivity|intros; try discriminate; auto]).
  pose proof (nest_iface_box hm n (ABox 0) eq_refl) as H.
  destruct (a_nest PIface hm n (ABox 0)); try discriminate. split; [reflexivity|discriminate].
Qed.

(** A parameter of script interface type: whatever the shape of the argument, however many script
    functions it is forwarded through, however deep the boxes nest, the host receives the value. *)
Lemma echo_iface hm sh d : y_echo PIface hm sh d KEcho = ARaw.
Proof.
  unfold y_echo. pose proof (expr_iface hm sh) as He.
  destruct (a_expr PIface hm sh) as [[r c] ic]. destruct He as [Hr Hc].
  destruct d as [|d].
  - cbn [a_forward]. destruct r; try discriminate.
    + destruct ic; [reflexivity|]. destruct c; reflexivity.
    + destruct ic; [apply a_unbox_box|]. destruct c; [destruct (Hc eq_refl); discriminate|apply a_unbox_box].
  - destruct (forward_iface hm (S d) r c ic Hr) as (k & c' & ic' & H).
    destruct (H ltac:(discriminate)) as (-> & -> & ->). apply a_unbox_box.
Qed.

Lemma forward_id p hm d r :
  (forall x, a_argconv p hm x false false = x) -> a_forward p hm d (r, false, false) = (r, false, false).
Proof. intros H. induction d; simpl; [reflexivity|]. rewrite H. assumption. Qed.

Lemma argconv_concrete_id hm x : a_argconv PConcrete hm x false false = x.
Proof. destruct x; reflexivity. Qed.

Lemma argconv_any_id hm x : a_argconv PAny hm x false false = x.
Proof. destruct x; reflexivity. Qed.

Lemma nest_concrete hm n : a_nest PConcrete hm n ARaw = ARaw.
Proof. induction n; simpl; [reflexivity|]. rewrite IHn. reflexivity. Qed.

Lemma nest_any hm n : a_nest PAny hm n ARaw = ARaw.
Proof. induction n; simpl; [reflexivity|]. rewrite IHn. reflexivity. Qed.

(** A parameter of concrete type handed to an interface{} host parameter: always the value. *)
Lemma echo_concrete hm sh d : y_echo PConcrete hm sh d KEcho = ARaw.
Proof.
  unfold y_echo.
  assert (H : exists c ic, a_expr PConcrete hm sh = (ARaw, c, ic)).
  { destruct sh; simpl; eauto. rewrite nest_concrete; eauto. }
  destruct H as (c & ic & ->).
  destruct d as [|d].
  - cbn [a_forward]. destruct ic; [reflexivity|]. destruct c; reflexivity.
  - cbn [a_forward]. replace (a_argconv PConcrete hm ARaw c ic) with ARaw by (destruct c, ic; reflexivity).
    rewrite forward_id by apply argconv_concrete_id. reflexivity.
Qed.

(** A parameter of type interface{}: fine when the value's type has no methods, or when the argument
    already has static type interface{} and was not stored through a slot. *)
Definition any_side (hm : bool) (sh : ashape) (d : nat) : bool :=
  negb hm || match sh with
             | ACall | AHostCall | AConv | ANested _ => true
             | ALit => Nat.eqb d 0
             | ASlot => false
             end.

Lemma echo_any hm sh d : any_side hm sh d = true -> y_echo PAny hm sh d KEcho = ARaw.
Proof.
  unfold any_side, y_echo. intros H.
  destruct hm; simpl in H.
  - destruct sh; try discriminate; simpl.
    + apply Nat.eqb_eq in H; subst. reflexivity.
    + destruct d; [reflexivity|]. cbn [a_forward]. simpl. rewrite forward_id by apply argconv_any_id. reflexivity.
    + destruct d; [reflexivity|]. cbn [a_forward]. simpl. rewrite forward_id by apply argconv_any_id. reflexivity.
    + destruct d; [reflexivity|]. cbn [a_forward]. simpl. rewrite forward_id by apply argconv_any_id. reflexivity.
    + rewrite nest_any. destruct d; [reflexivity|]. cbn [a_forward]. simpl. rewrite forward_id by apply argconv_any_id. reflexivity.
  - assert (He : exists c ic, a_expr PAny false sh = (ARaw, c, ic)).
    { destruct sh; simpl; eauto. rewrite nest_any; eauto. }
    destruct He as (c & ic & ->).
    destruct d as [|d].
    + cbn [a_forward]. destruct ic; [reflexivity|]. destruct c; reflexivity.
    + cbn [a_forward]. replace (a_argconv PAny false ARaw c ic) with ARaw by (destruct c, ic; reflexivity).
      rewrite forward_id by apply argconv_any_id. reflexivity.
Qed.

Lemma echo_witnesses :
  (* Fwd(Wrap(Wrap(Make(n)))) with a script-interface parameter: three boxes deep at the forwarder *)
  a_forward PIface true 1 (a_expr PIface true (ANested 1)) = (ABox 3, false, false)
  /\ y_echo PIface true (ANested 1) 2 KEcho = ARaw
  (* var s interface{} = Sq{4}; host.Echo(s): the box leaks *)
  /\ y_echo PAny true ASlot 0 KEcho = ABox 0 /\ g_echo KEcho = ARaw
  (* var s fmt.Stringer = Sq{4}; host.Echo(s): the host sees the wrapper struct *)
  /\ y_echo PHostIface true ASlot 0 KEcho = AWrap
  (* host.EchoStr(Make(n)), Make returning the concrete script type: not wrapped, reflect panics *)
  /\ y_echo PConcrete true ACall 0 KEchoStr = AFail /\ g_echo KEchoStr = AWrap
  /\ y_echo PConcrete true ASlot 0 KEchoStr = AWrap.
Proof. repeat split; reflexivity. Qed.

(* ------------------------------------------------------------------ *)
(** * go and defer statements *)

Lemma stmt_agree c v1 v2 : aliases_slots c = false -> y_stmt FGo c v1 v2 = g_stmt v1 v2.
Proof. intros H. unfold y_stmt, y_stmt_late, g_stmt. rewrite H. reflexivity. Qed.

Lemma stmt_witnesses :
  y_stmt FGo CHostParam (VInt 1) (VInt 2) = VInt 1 /\ y_stmt FGo CScriptClosure (VInt 1) (VInt 2) = VInt 1
  /\ y_stmt FGo CHostDirect (VInt 1) (VInt 2) = VInt 2 /\ y_stmt FDefer CScriptFunc (VInt 1) (VInt 2) = VInt 2
  /\ g_stmt (VInt 1) (VInt 2) = VInt 1.
Proof. repeat split; reflexivity. Qed.

(* ------------------------------------------------------------------ *)
(** * Element indexes of composite literals *)

Lemma lit_unkeyed n p : lit_indexes p (repeat None n) = seq p n.
Proof. revert p; induction n; intros p; simpl; [reflexivity|]. f_equal. apply IHn. Qed.

Lemma lit_keyed ks p : lit_indexes p (map Some ks) = ks.
Proof. revert p; induction ks; intros p; simpl; [reflexivity|]. f_equal. apply IHks. Qed.

Lemma lit_after_key j n p : lit_indexes p (Some j :: repeat None n) = seq j (S n).
Proof. simpl. f_equal. apply lit_unkeyed. Qed.

Lemma lit_example : y_lit [Some 1; None; Some 0] = ([1; 2; 0], 3) /\ y_lit [Some 3; None] = ([3; 4], 5).
Proof. split; reflexivity. Qed.

Lemma lit_all :
  (forall n p, lit_indexes p (repeat None n) = seq p n)
  /\ (forall ks p, lit_indexes p (map Some ks) = ks)
  /\ (forall j n p, lit_indexes p (Some j :: repeat None n) = seq j (S n)).
Proof. exact (conj lit_unkeyed (conj lit_keyed lit_after_key)). Qed.

Lemma functype_named_refuted :
  y_functype_wraps FRet = true /\ y_functype_wraps FConv = true
  /\ y_functype_wraps FVar = false /\ y_functype_wraps FParam = false /\ g_functype_wraps FVar = true.
Proof. repeat split; reflexivity. Qed.
