(** C07 — values and calls across the host/script boundary.
    Y: transcription of yaegi's marshalling logic
         interp/run.go   genFunctionWrapper (argument copy per interface-ness), callBin (argument
                         preparation per shape, Call / CallSlice, deferred calls, rcvrOffset, result
                         stores), call (zero-value arguments skipped, variadic accumulation),
                         runCfg (deferred calls run under the frame mutex)
         interp/value.go genFuncValue / genValueAsFunctionWrapper / genValueInterfaceValue
         interp/run.go   convertLiteralValue + interp/cfg.go (binary-package symbols are compiled as
                         constants: host variables)
       on the values of Boundary/Types.v, *including its defects*.
    G: the contract — the callee observes exactly the caller's values, bound the way Go binds
       arguments to parameters; a variable access observes the variable's current value.
    [reflect] itself (Call, CallSlice, MakeFunc, Set, IsZero) is assumed: its behaviour is written
    down here as yaegi relies on it, not derived.
    Definitions only; proofs are in Boundary/Proofs.v. *)
From Verif Require Import Lib.Str Boundary.Types.

Inductive dir := S2H | H2S | S2S.
Inductive cmode := MPlain | MInd | MSpread.

(* ------------------------------------------------------------------ *)
(** * Views: what code on either side reads out of a handed-over value *)

(** Script code reads through a valueInterface box. *)
Definition script_view (v : val) : val := match v with VBox x => x | _ => v end.
(** Native code sees the box for what it is: a struct of an unexported interp type. *)
Definition host_view (v : val) : val := match v with VBox _ => VBad (s "valueInterface") | _ => v end.

(* ------------------------------------------------------------------ *)
(** * One value crossing *)

Fixpoint map2 {A B C} (f : A -> B -> C) (l : list A) (m : list B) : list C :=
  match l, m with
  | a :: l', b :: m' => f a b :: map2 f l' m'
  | _, _ => []
  end.

Definition point_args (p : val) : list val := match p with VPoint a _ => a | _ => [] end.

(** Calling a function known by its graph: the first point with these arguments. *)
Fixpoint lookup (pts : list val) (args : list val) : list val :=
  match pts with
  | [] => [VBad (s "no-point")]
  | VPoint a r :: pts' => if vals_eqb a args then r else lookup pts' args
  | _ :: pts' => lookup pts' args
  end.

(** host -> script, declared type [t]: genFunctionWrapper's argument copy and callBin's result
    stores. An interface type declared in the script is boxed ([valueInterface{value: arg.Elem()}]);
    everything else, functions included, is stored as the reflect.Value it is. *)
Definition to_script (t : ty) (v : val) : val :=
  match t with
  | TScriptIface _ => VBox v
  | _ => v
  end.

(** script -> host, declared type [t]: callBin's argument preparation, genFunctionWrapper's result
    slots, Execute's result. A [*node] is wrapped by reflect.MakeFunc(genFunctionWrapper); a value
    that already is a func crosses as it is ("if v.Kind() == reflect.Func return v"); a box is
    opened (genValueInterfaceValue); every other value is the shared reflect.Value.
    The wrapper, called with host values [a]: copies them into a fresh frame ([to_script] per
    declared parameter type), runs the body (which reads them through [script_view]) and returns the
    result slots ([to_host] per declared result type). [fuel] bounds the nesting of graphs. *)
Fixpoint to_host (fuel : nat) (t : ty) (v : val) : val :=
  match fuel with
  | O => v
  | S f =>
      match v with
      | VBox x => x
      | VFunc RNode pts =>
          match t with
          | TFunc ins _ outs =>
              VFunc RWrapped
                (map (fun p => match p with
                               | VPoint a _ =>
                                   VPoint a (map2 (to_host f) outs (lookup pts (map script_view (map2 to_script ins a))))
                               | x => x
                               end) pts)
          | _ => v
          end
      | _ => v
      end
  end.

(** Calling a function value on arguments (graph lookup). *)
Definition call (f : val) (args : list val) : list val :=
  match f with VFunc _ pts => lookup pts args | _ => [VBad (s "not-a-function")] end.

(* ------------------------------------------------------------------ *)
(** * Binding the actual arguments of a call to the callee's parameters *)

Record cctx := {
  cx_defer : bool;   (* the call is the operand of a defer statement *)
  cx_value : bool    (* script calls script: the callee is a function value (closure variable), called through reflect *)
}.

Definition nfixed (ins : list ty) (variadic : bool) : nat :=
  if variadic then pred (length ins) else length ins.

Definition elem_ty (ins : list ty) : ty :=
  match last ins TAny with TSlice e => e | t => t end.

(** Types of the actual arguments as written at the call site. *)
Definition arg_types (ins : list ty) (variadic : bool) (m : cmode) (nargs : nat) : list ty :=
  match m with
  | MInd => firstn (nfixed ins variadic) ins ++ repeat (elem_ty ins) (nargs - nfixed ins variadic)
  | _ => ins
  end.

(** reflect.Value.Call on a variadic function: the extra arguments are copied into a fresh slice
    made with exactly that length — never nil. *)
Definition reflect_pack (n : nat) (args : list val) : list val :=
  firstn n args ++ [VSlice (skipn n args)].

(** Go: "if f is invoked with no actual arguments for p, the value passed to p is nil". *)
Definition go_pack (n : nat) (args : list val) : list val :=
  firstn n args ++ [match skipn n args with [] => VNil | l => VSlice l end].

(** The inverse: the arguments a parameter list stands for. *)
Definition spread (n : nat) (params : list val) : list val :=
  firstn n params ++ match skipn n params with
                     | [VSlice l] => l
                     | _ => []
                     end.

(** yaegi's [call] (script calls script): the variadic slot starts nil; an extra argument whose
    reflect type is the slice type replaces the slot, any other is appended. The only listed argument
    that can have the slice type is a []interface{} given for ...interface{}. *)
Definition script_accumulate (elem : ty) (acc : val) (v : val) : val :=
  match elem, v with
  | TAny, VIface (TSlice TAny) x => x
  | _, _ => match acc with
            | VSlice l => VSlice (l ++ [v])
            | _ => VSlice [v]
            end
  end.

Definition script_pack (elem : ty) (n : nat) (args : list val) : list val :=
  firstn n args ++ [fold_left (script_accumulate elem) (skipn n args) VNil].

(** yaegi's [call] copies an argument only if it is not zero ([reflect.IsZero]) or the parameter is
    an interface: the destination slot was zeroed when the frame was made. *)
Definition copy_arg (t : ty) (slot v : val) : val :=
  if is_zero v && negb (is_iface_ty t) then slot else v.

Definition bad_all (ins : list ty) (cls : str) : list val := map (fun _ => VBad cls) ins.

(** A call of a reflect.MakeFunc wrapper (genFunctionWrapper, getFunc): reflect binds the arguments,
    the wrapper copies every parameter into the new frame. *)
Definition bind_through_wrapper (ins : list ty) (n : nat) (m : cmode) (args : list val) : list val :=
  let bound := match m with MInd => reflect_pack n args | _ => args end in
  map script_view (map2 to_script ins bound).

Definition y_bind (d : dir) (cx : cctx) (ins : list ty) (variadic : bool) (m : cmode) (args : list val) : list val :=
  let n := nfixed ins variadic in
  let ats := arg_types ins variadic m (length args) in
  match d with
  | S2H =>
      (* callBin prepares each argument; reflect binds *)
      let prepared := map2 (fun t v => to_host (vsize v) t v) ats args in
      (* since abe7a69 the wrapper of a function literal (getFunc) takes no lock when a call ends:
         a deferred host call may call back any closure it is given (runCfg runs the deferred calls
         holding the frame mutex; before, the closure's epilogue took it again and the call hung) *)
      map host_view
        match m with
        | MPlain => prepared
        | MInd => reflect_pack n prepared
        | MSpread =>
            if cx_defer cx then
              (* deferred: val[0].Call(val[1:]) — Call, not CallSlice: the slice is one extra argument *)
              match elem_ty ins with
              | TAny => firstn n prepared ++ [VSlice [VIface (TSlice TAny) (last prepared VNil)]]
              | _ => bad_all ins (s "panic")
              end
            else prepared
        end
  | H2S => bind_through_wrapper ins n m args
  | S2S =>
      if cx_value cx then
        (* the callee is a reflect.Func held in a variable (a closure): call goes through reflect too *)
        bind_through_wrapper ins n m args
      else
        let bound := match m with MInd => script_pack (elem_ty ins) n args | _ => args end in
        map2 (fun t v => copy_arg t (zero t) v) (firstn n ins) (firstn n bound) ++ skipn n bound
  end.

(** The contract: Go's binding of the same arguments. *)
Definition g_bind (ins : list ty) (variadic : bool) (m : cmode) (args : list val) : list val :=
  match m with
  | MInd => go_pack (nfixed ins variadic) args
  | _ => args
  end.

(* ------------------------------------------------------------------ *)
(** * Result placement *)

(** A frame is a list of slots; a call stores result [i] into destination [i] (none for [_]). *)
Fixpoint store (j : nat) (v : val) (fr : list val) : list val :=
  match fr, j with
  | [], _ => []
  | _ :: fr', O => v :: fr'
  | x :: fr', S j' => x :: store j' v fr'
  end.

Fixpoint place (dests : list (option nat)) (out : list val) (fr : list val) : list val :=
  match dests, out with
  | Some j :: ds, v :: out' => place ds out' (store j v fr)
  | None :: ds, _ :: out' => place ds out' fr
  | _, _ => fr
  end.

Fixpoint read_back (dests : list (option nat)) (fr : list val) : list val :=
  match dests with
  | [] => []
  | Some j :: ds => nth j fr VNil :: read_back ds fr
  | None :: ds => read_back ds fr
  end.

(** Call-site shapes of callBin / call and where they put the results. *)
Inductive placement :=
| PDefine     (* x, y := f()  : the assigned variables' slots (aAssignX, fresh slot per variable) *)
| PAssign     (* x, y = f()   : the assigned variables' slots *)
| PBlank      (* _, y := f()  : no store for the blank *)
| PReturn     (* return f()   : the caller's result slots, from childPos on *)
| PFrame.     (* f() used as operand or argument: the call node's slots findex .. findex+n-1 *)

Definition dests_of (p : placement) (base n : nat) : list (option nat) :=
  match p with
  | PBlank => match n with O => [] | S k => None :: map Some (seq (S base) k) end
  | _ => map Some (seq base n)
  end.

Definition y_results (d : dir) (p : placement) (outs : list ty) (res : list val) : list val :=
  let n := length res in
  let base := 2 in
  let crossed :=
    match d with
    | S2H => map host_view (map2 (fun t v => to_host (vsize v) t v) outs res)   (* genFunctionWrapper returns fr.data[:numRet] *)
    | H2S => map2 to_script outs res                                            (* callBin stores out[i] *)
    | S2S => res
    end in
  let ds := dests_of p base n in
  let fr := place ds crossed (repeat VNil (base + n + 1)) in
  match d with
  | S2H => read_back ds fr
  | _ => map script_view (read_back ds fr)
  end.

Definition g_results (p : placement) (res : list val) : list val :=
  match p with PBlank => tl res | _ => res end.

(* ------------------------------------------------------------------ *)
(** * Variables *)

(** How a script reads a host variable [host.V]. *)
Inductive rctx :=
| RDirect   (* operand of an expression, argument or right-hand side: the node carries the
               reflect.Value as a constant and convertLiteralValue copies it when the source is compiled *)
| RLive.    (* through &host.V, a selector or an index: the variable itself *)

(** convertLiteralValue leaves interface and slice-of-interface targets alone. *)
Definition iface_like (t : ty) : bool :=
  match t with
  | TErr | TAny => true
  | TSlice TErr | TSlice TAny => true
  | _ => false
  end.

(** A nil pointer in Exports is the convention for a *type*: a pointer-typed variable that is nil
    when the script is compiled is taken for one, and the script does not compile. *)
Definition taken_for_type (t : ty) (at_compile : val) : bool :=
  match t, at_compile with
  | TPtr _, VNil => true
  | _, _ => false
  end.

Definition y_hostvar_read (c : rctx) (t : ty) (at_compile cur : val) : val :=
  if taken_for_type t at_compile then VBad (s "compile-error")
  else match c with
       | RLive => cur
       | RDirect => if iface_like t then cur else at_compile
       end.

Definition g_var_read (cur : val) : val := cur.

(** How a script writes it. *)
Inductive wform :=
| WDirectLit   (* host.V = T{...}: the composite literal is built in a frame slot and never copied *)
| WDirect      (* host.V = x *)
| WDeref.      (* *p = ..., p := &host.V *)

Definition y_hostvar_write (w : wform) (t : ty) (at_compile old new : val) : val :=
  if taken_for_type t at_compile then VBad (s "compile-error")
  else match w with
       | WDirectLit => old
       | _ => host_view (to_host (vsize new) t new)
       end.

Definition g_var_write (new : val) : val := new.

(** Script variables handed out by Globals / Symbols / Eval, references passed as arguments, values
    that come back: the frame slot or the referenced storage itself is shared. *)
Definition y_shared (d : dir) (t : ty) (v : val) : val :=
  match d with
  | S2H => host_view (to_host (vsize v) t v)
  | _ => script_view (to_script t v)
  end.

(** script -> host -> script and host -> script -> host. *)
Definition y_round_s (t : ty) (v : val) : val :=
  script_view (to_script t (to_host (vsize v) t v)).
Definition y_round_h (t : ty) (v : val) : val :=
  host_view (to_host (vsize v) t (script_view (to_script t v))).

(* ------------------------------------------------------------------ *)
(** * Methods of host types: the receiver offset of callBin *)

(** [funcType] lists the receiver first when the method comes from the type (p.M(...)), not when it
    is a bound method value (f := p.M) or the receiver is an interface. callBin guesses. *)
Definition rcvr_offset_y (has_recv recv_is_iface : bool) (variadic_pos : option nat) (num_in nargs : nat) : nat :=
  if has_recv && negb recv_is_iface then
    if match variadic_pos with Some v => Nat.ltb 0 v | None => false end || Nat.ltb nargs num_in then 1 else 0
  else 0.

Definition rcvr_offset_g (type_lists_receiver : bool) : nat := if type_lists_receiver then 1 else 0.

Inductive mform := FValue | FPointer | FMethodValue | FMethodExpr | FViaInterface.

(** Outcome class of a host method call with constant arguments whose first one is not convertible
    to the type found one parameter too far: [None] = the call goes through. *)
Definition y_method_outcome (f : mform) (variadic_pos : option nat) (nparams nargs : nat) : option str :=
  match f with
  | FMethodExpr => Some (s "compile-error")       (* T.M is not resolved for host types *)
  | FMethodValue =>
      (* bound: funcType has no receiver, c0.recv is set *)
      if Nat.eqb (rcvr_offset_y true false variadic_pos nparams nargs) (rcvr_offset_g false) then None
      else match nargs with O => None | _ => Some (s "panic") end
  | FViaInterface => None
  | FValue | FPointer =>
      if Nat.eqb (rcvr_offset_y true false (option_map S variadic_pos) (S nparams) nargs) (rcvr_offset_g true) then None
      else Some (s "panic")
  end.

(* ------------------------------------------------------------------ *)
(** * Interpreted values handed to the host as interfaces (genInterfaceWrapper) *)

(** The parameter of the host function the script value is passed to. *)
Inductive pkind := PErrorParam | PStringerParam | PAnyParam.
Inductive wprobe := WMethod (m : str) | WComparable.

Definition iface_methods (p : pkind) : list str :=
  match p with
  | PErrorParam => [s "Error"]
  | PStringerParam => [s "String"]
  | PAnyParam => []
  end.

(** For an interface type with methods, genInterfaceWrapper builds the wrapper struct of that
    interface — {IValue; one func field per method of the *interface*} — whose method set is the
    interface's and which, holding func fields, is not comparable. For interface{} it hands over
    the bare value, whose reflect.StructOf type has no methods at all. *)
Definition y_host_sees (p : pkind) (script_methods : list str) (q : wprobe) : bool :=
  match q, p with
  | WMethod _, PAnyParam => false
  | WMethod m, _ => mem m (iface_methods p) && mem m script_methods
  | WComparable, PAnyParam => true
  | WComparable, _ => false
  end.

(** Go: the dynamic value keeps its whole method set; a pointer or a struct of strings is comparable. *)
Definition g_host_sees (script_methods : list str) (q : wprobe) : bool :=
  match q with
  | WMethod m => mem m script_methods
  | WComparable => true
  end.

(* ------------------------------------------------------------------ *)
(** * Script types that embed host interfaces / host types, handed to the host as a host interface *)

(** Who runs a method the host calls on the value it was handed. *)
Inductive who :=
| WScript      (* the script's override *)
| WHost        (* the embedded host value's method (promotion) *)
| WBoth        (* the script's override, which delegates to the embedded value *)
| WFailBuild   (* genInterfaceWrapper panics "method not found": nothing is called at all *)
| WFailCall    (* the call panics (reflect.StructOf's stub for a method of an embedded interface) *)
| WNone.       (* not reached *)

Inductive layout := LOnly | LFirst | LLast.   (* the embedded field is the only one / first / last *)

(** What genInterfaceWrapper's decisions depend on. The last three are facts about [reflect],
    measured natively by the harness on a reconstruction of the frame type (reflect is assumed: e.g.
    StructOf hands back a compiled type of the host binary, with real methods, when one exists). *)
Record efacts := {
  ef_ptr : bool;          (* the value handed over is a *T *)
  ef_layout : layout;
  ef_implements : bool;   (* reflect: the frame type (T or *T) implements the host interface *)
  ef_nummeth : bool;      (* reflect: the struct type has (promoted) methods: single embedded field *)
  ef_real : bool          (* reflect: those promoted methods can be called (not panicking stubs) *)
}.

(** genInterfaceWrapper (run.go): a non-struct value whose frame type implements the interface is
    handed over as it is — reflect then dispatches to the promoted methods and the script's overrides
    are skipped; a struct value always gets the wrapper: an overridden method is bound to the script's
    method; for any other, methodByName looks on the "concrete value" — the value itself if its reflect
    type has methods, else (getConcreteValue) its LAST field; through a pointer the embedded field
    is reached by its index. *)
Definition y_one (f : efacts) (over : list str) (delegate : bool) (m : str) : who :=
  if ef_ptr f && ef_implements f then (if ef_real f then WHost else WFailCall)
  else if mem m over then (if delegate then WBoth else WScript)
  else if ef_ptr f then WHost
  else if ef_nummeth f then (if ef_real f then WHost else WFailCall)
  else match ef_layout f with LFirst => WFailBuild | _ => WHost end.

Definition is_failbuild (w : who) : bool := match w with WFailBuild => true | _ => false end.

(** The host calls the methods in order; a panicking call ends the use. *)
Fixpoint run_calls (l : list who) (failed : bool) : list who * bool :=
  match l with
  | [] => ([], failed)
  | w :: l' =>
      if failed then let (r, b) := run_calls l' true in (WNone :: r, b)
      else match w with
           | WFailCall => let (r, b) := run_calls l' true in (WNone :: r, b)
           | _ => let (r, b) := run_calls l' false in (w :: r, b)
           end
  end.

Definition y_dispatch (f : efacts) (over : list str) (delegate : bool) (methods : list str) : list who * bool :=
  let ws := map (y_one f over delegate) methods in
  if existsb is_failbuild ws then (map (fun _ => WNone) methods, true) else run_calls ws false.

(** Go: the method set of T / *T — an override shadows the promoted method. *)
Definition g_one (over : list str) (delegate : bool) (m : str) : who :=
  if mem m over then (if delegate then WBoth else WScript) else WHost.

Definition g_dispatch (over : list str) (delegate : bool) (methods : list str) : list who * bool :=
  (map (g_one over delegate) methods, false).

(* ------------------------------------------------------------------ *)
(** * A function value kept by the host across the session *)

(** What happens on the interpreter between two uses of a function value obtained from it. *)
Inductive step :=
| SEval        (* an evaluation that reaches Execute (it may define or redefine symbols, panic, call
                  the function itself): Execute stamps the global frame with the interpreter's run id *)
| SEvalFail    (* an evaluation that fails to compile: Execute is not reached *)
| SCancel      (* an EvalWithContext that is cancelled: Execute stamps the frame, then stop() bumps the
                  interpreter's run id *)
| SCallNative. (* the host calls the function value *)

Inductive outcome := OOk | OZero.

(** genFunctionWrapper's native function starts its frame from the global frame and reads that
    frame's run id AT EACH CALL; runCfg executes nothing when the id is not the interpreter's: the
    wrapper then returns its zeroed result slots. [live] = "the global frame carries the current id". *)
Fixpoint y_session (live : bool) (h : list step) : list outcome :=
  match h with
  | [] => []
  | SEval :: h' => y_session true h'
  | SEvalFail :: h' => y_session live h'
  | SCancel :: h' => y_session false h'
  | SCallNative :: h' => (if live then OOk else OZero) :: y_session live h'
  end.

(** The contract: at any later point of the session the native call behaves like the call inside the script. *)
Fixpoint g_session (h : list step) : list outcome :=
  match h with
  | [] => []
  | SCallNative :: h' => OOk :: g_session h'
  | _ :: h' => g_session h'
  end.

(* ------------------------------------------------------------------ *)
(** * The shape of the argument expression *)

(** How a script value of a concrete script type is represented in a slot. *)
Inductive arep :=
| ARaw               (* the concrete value *)
| ABox (k : nat)     (* k+1 nested valueInterface boxes *)
| AWrap              (* the wrapper struct of a host interface (stdlib._fmt_Stringer) *)
| AFail.             (* the script panics before the host is reached *)

Inductive ptype := PConcrete | PIface | PAny | PHostIface.   (* static type of the parameter / slot *)
Inductive ashape :=
| ALit | ASlot         (* a literal; a variable, field, element or dereference of static type P *)
| ACall | AHostCall    (* the result of a script call / method call through an interface; of a host call *)
| AConv                (* a conversion P(literal) *)
| ANested (n : nat).   (* Wrap(...Wrap(Make(n))...) with n+1 Wraps *)
Inductive asink := KEcho | KEchoStr.   (* host parameter interface{} / ...interface{}; fmt.Stringer *)

(** A value of concrete static type written to a slot of static type P (assign, composite literals). *)
Definition a_store (p : ptype) (has_methods : bool) : arep :=
  match p with
  | PIface => ABox 0
  | PAny => if has_methods then ABox 0 else ARaw
  | PHostIface => AWrap
  | PConcrete => ARaw
  end.

(** "return literal" in a function whose result type is P. *)
Definition a_ret (p : ptype) : arep :=
  match p with PIface => ABox 0 | PHostIface => AWrap | _ => ARaw end.

(** call(): an argument for a parameter of static type P. [concrete]: the expression has the concrete
    static type (else it has type P); [is_call]: the argument is directly a call — then a script
    interface parameter is boxed AGAIN around the callee's already boxed result slot, and any other
    parameter takes the slot as it is. *)
Definition a_argconv (p : ptype) (has_methods : bool) (r : arep) (concrete is_call : bool) : arep :=
  match r with
  | AFail => AFail
  | _ =>
      if is_call then
        match p, r with
        | PIface, ABox k => ABox (S k)
        | PIface, _ => ABox 0
        | _, _ => r
        end
      else
        match p with
        | PIface => ABox 0                                              (* genValueInterface flattens *)
        | PAny => if concrete && has_methods then ABox 0 else r
        | PHostIface => if concrete then AWrap
                        else match r with ARaw => AFail | _ => r end   (* genInterfaceWrapper leaves a valueT operand alone *)
        | PConcrete => r
        end
  end.

Fixpoint a_nest (p : ptype) (hm : bool) (n : nat) (r : arep) : arep :=
  match n with O => a_argconv p hm r false true | S n' => a_argconv p hm (a_nest p hm n' r) false true end.

(** The argument expression: representation, has it the concrete static type, is it a call. *)
Definition a_expr (p : ptype) (hm : bool) (sh : ashape) : arep * bool * bool :=
  match sh with
  | ALit => (ARaw, true, false)
  | ASlot => (a_store p hm, false, false)
  | ACall => (a_ret p, false, true)
  | AHostCall => (ARaw, false, true)
  | AConv => match p with
             | PIface => (ABox 0, false, false)
             | PConcrete => (ARaw, true, false)
             | _ => (ARaw, false, false)     (* a conversion to interface{} or to a host interface leaves the value as it is *)
             end
  | ANested n => (a_nest p hm n (a_ret p), false, true)
  end.

(** valueInterfaceValue: every box is opened. *)
Fixpoint strip_all (k : nat) (inner : arep) : arep := match k with O => inner | S k' => strip_all k' inner end.
Definition a_unbox (r : arep) : arep := match r with ABox k => strip_all (S k) ARaw | _ => r end.

Fixpoint a_forward (p : ptype) (hm : bool) (depth : nat) (st : arep * bool * bool) : arep * bool * bool :=
  match depth with
  | O => st
  | S d => let '(r, c, ic) := st in a_forward p hm d (a_argconv p hm r c ic, false, false)
  end.

(** What the host function receives (callBin's argument preparation for the sink). *)
Definition y_echo (p : ptype) (hm : bool) (sh : ashape) (depth : nat) (k : asink) : arep :=
  let '(r, concrete, is_call) := a_forward p hm depth (a_expr p hm sh) in
  match r with
  | AFail => AFail
  | _ =>
      let str := match k with KEchoStr => true | _ => false end in
      let r' :=
        if is_call then a_unbox r                     (* nested call: valueInterfaceValue, nothing is wrapped *)
        else if concrete then (if str then AWrap else r)
        else match p with
             | PIface => a_unbox r                    (* genValueInterfaceValue *)
             | PConcrete => if str then AWrap else r
             | _ => r                                 (* interface{} operand: genValue, as it is; valueT operand: as it is *)
             end in
      if str then match r' with ARaw => AFail | _ => r' end   (* reflect: Call using struct {...} as type fmt.Stringer *)
      else r'
  end.

(** The contract: the host receives the concrete value (through fmt.Stringer: its wrapper). *)
Definition g_echo (k : asink) : arep := match k with KEchoStr => AWrap | KEcho => ARaw end.

(* ------------------------------------------------------------------ *)
(** * go and defer statements: when are the arguments read *)

Inductive sform := FGo | FDefer.
Inductive callee :=
| CHostDirect | CHostVar          (* host.F(x); f := host.F; f(x): callBin *)
| CHostVarTyped | CHostParam      (* var f func(T) = host.F; a host callback received as parameter: call(), native value *)
| CHostField                      (* a struct field of func type holding a host callback *)
| CScriptFunc | CScriptClosure
| CHostMethod | CHostMethodValue | CScriptMethod | CScriptMethodValue.

(** callBin hands the frame slots themselves to "go callFn(v, in)": reflect reads them when the
    goroutine starts. call() copies the arguments of a go statement at the statement. Every defer
    keeps the frame slots in f.deferred. *)
Definition aliases_slots (c : callee) : bool :=
  match c with
  | CHostDirect | CHostVar | CHostField | CHostMethod | CHostMethodValue => true
  | _ => false
  end.

(** [true] = the callee receives the value the variable holds when the call RUNS (after the
    re-assignment), [false] = the value at the statement. *)
Definition y_stmt_late (f : sform) (c : callee) : bool :=
  match f with FDefer => true | FGo => aliases_slots c end.

Definition y_stmt (f : sform) (c : callee) (at_stmt after : val) : val := if y_stmt_late f c then after else at_stmt.
Definition g_stmt (at_stmt after : val) : val := at_stmt.

(* ------------------------------------------------------------------ *)
(** * Composite literals of host-declared slice / array types (compositeBinSlice) *)

(** The index of every element and the length: "an element without a key uses the previous element's
    index plus one" — compositeBinSlice keeps [prev] and [max] exactly so. *)
Fixpoint lit_indexes (prev : nat) (keys : list (option nat)) : list nat :=
  match keys with
  | [] => []
  | k :: ks => let i := match k with Some j => j | None => prev end in i :: lit_indexes (S i) ks
  end.

Definition lit_length (keys : list (option nat)) : nat := fold_left Nat.max (map S (lit_indexes 0 keys)) 0.

Definition y_lit (keys : list (option nat)) : list nat * nat := (lit_indexes 0 keys, lit_length keys).
Definition g_lit := y_lit.   (* the Go specification's rule is the same function: the contract is met *)

(* ------------------------------------------------------------------ *)
(** * A declared script function's name where a host-declared func type is expected *)

Inductive fpos := FRet | FVar | FAssign | FParam | FHostArg | FField | FElem | FMapElem | FConv.

(** Is the *node wrapped (genFunctionWrapper) at this position? _return (valueT/Func), callBin
    (isFuncSrc), compositeBinStruct and convert wrap it; assign / call() / slice and map literals
    store the *node itself into the host-typed slot, and reflect.Set panics. *)
Definition y_functype_wraps (p : fpos) : bool :=
  match p with FRet | FHostArg | FField | FConv => true | _ => false end.
Definition g_functype_wraps (p : fpos) : bool := true.
