(** Evaluation of the C07 models on the cases written by the harness (correspondence check).
    [*_y]: ids of the cases where the implementation's observation differs from Y's prediction;
    [*_g]: ids of the cases where the reference observation (the same call or access without a
    boundary) differs from G. *)
From Verif Require Import Lib.Str Boundary.Types Boundary.Marshal.

(** id, direction, (deferred, callee is a function value), parameter types, variadic, mode, actual arguments,
    parameters observed by the implementation's callee, parameters observed by the reference *)
Definition arg_case := (N * dir * (bool * bool) * list ty * bool * cmode * list val * list val * list val)%type.

Definition arg_mis_y (cs : list arg_case) : list N :=
  flat_map (fun '(id, d, (df, fv), ins, va, m, sent, impl, _) =>
    if vals_eqb (y_bind d {| cx_defer := df; cx_value := fv |} ins va m sent) impl then [] else [id]) cs.
Definition arg_mis_g (cs : list arg_case) : list N :=
  flat_map (fun '(id, _, _, ins, va, m, sent, _, ref) =>
    if vals_eqb (g_bind ins va m sent) ref then [] else [id]) cs.

(** id, direction, placement, result types, results returned, observed (implementation), observed (reference) *)
Definition res_case := (N * dir * placement * list ty * list val * list val * list val)%type.

Definition res_mis_y (cs : list res_case) : list N :=
  flat_map (fun '(id, d, p, outs, sent, impl, _) =>
    if vals_eqb (y_results d p outs sent) impl then [] else [id]) cs.
Definition res_mis_g (cs : list res_case) : list N :=
  flat_map (fun '(id, _, p, _, sent, _, ref) =>
    if vals_eqb (g_results p sent) ref then [] else [id]) cs.

Inductive vkind :=
| KHostRead (c : rctx)      (* the script reads a host variable *)
| KHostWrite (w : wform)    (* the script writes it; the host looks *)
| KShared (d : dir)         (* script variable through Globals/Symbols/Eval, mutation through a reference *)
| KRoundS | KRoundH.        (* a value that crosses twice *)

(** id, kind, type, value at compile time, value before, value sent, observed (impl), observed (ref) *)
Definition var_case := (N * vkind * ty * val * val * val * val * val)%type.

Definition y_var (k : vkind) (t : ty) (atc old v : val) : val :=
  match k with
  | KHostRead c => y_hostvar_read c t atc v
  | KHostWrite w => y_hostvar_write w t atc old v
  | KShared d => y_shared d t v
  | KRoundS => y_round_s t v
  | KRoundH => y_round_h t v
  end.

Definition var_mis_y (cs : list var_case) : list N :=
  flat_map (fun '(id, k, t, atc, old, v, impl, _) =>
    if val_eqb (y_var k t atc old v) impl then [] else [id]) cs.
Definition var_mis_g (cs : list var_case) : list N :=
  flat_map (fun '(id, _, _, _, _, v, _, ref) =>
    if val_eqb v ref then [] else [id]) cs.

(** id, form, position of the variadic parameter, number of parameters, number of arguments,
    expected result, observed (impl), observed (ref) *)
Definition meth_case := (N * mform * option nat * nat * nat * val * val * val)%type.

Definition meth_mis_y (cs : list meth_case) : list N :=
  flat_map (fun '(id, f, vp, np, na, v, impl, _) =>
    let y := match y_method_outcome f vp np na with None => v | Some c => VBad c end in
    if val_eqb y impl then [] else [id]) cs.
Definition meth_mis_g (cs : list meth_case) : list N :=
  flat_map (fun '(id, _, _, _, _, v, _, ref) => if val_eqb v ref then [] else [id]) cs.

(** id, parameter kind, methods of the script type, probe, observed (impl), observed (Go's rule) *)
Definition wrap_case := (N * pkind * list str * wprobe * bool * bool)%type.

Definition wrap_mis_y (cs : list wrap_case) : list N :=
  flat_map (fun '(id, p, sm, q, impl, _) => if Bool.eqb (y_host_sees p sm q) impl then [] else [id]) cs.
Definition wrap_mis_g (cs : list wrap_case) : list N :=
  flat_map (fun '(id, _, sm, q, _, ref) => if Bool.eqb (g_host_sees sm q) ref then [] else [id]) cs.

Definition who_eqb (a b : who) : bool :=
  match a, b with
  | WScript, WScript | WHost, WHost | WBoth, WBoth | WFailBuild, WFailBuild | WFailCall, WFailCall | WNone, WNone => true
  | _, _ => false
  end.

Definition disp_eqb (a b : list who * bool) : bool := list_eqb who_eqb (fst a) (fst b) && Bool.eqb (snd a) (snd b).

(** id, facts, overridden methods, delegate, methods called, observed by the host (who ran each, did
    the use fail), observed when the same calls are made inside the script *)
Definition disp_case := (N * efacts * list str * bool * list str * (list who * bool) * (list who * bool))%type.

Definition disp_mis_y (cs : list disp_case) : list N :=
  flat_map (fun '(id, f, over, del, ms, impl, _) => if disp_eqb (y_dispatch f over del ms) impl then [] else [id]) cs.
Definition disp_mis_g (cs : list disp_case) : list N :=
  flat_map (fun '(id, _, over, del, ms, _, ref) => if disp_eqb (g_dispatch over del ms) ref then [] else [id]) cs.

Definition outcome_eqb (a b : outcome) : bool :=
  match a, b with OOk, OOk | OZero, OZero => true | _, _ => false end.

(** id, history, outcome of each native call (impl), outcome of each in-script call of the history *)
Definition sess_case := (N * list step * list outcome * list outcome)%type.

Definition sess_mis_y (cs : list sess_case) : list N :=
  flat_map (fun '(id, h, impl, _) => if list_eqb outcome_eqb (y_session true h) impl then [] else [id]) cs.
(** inside the script every call gives the function's results *)
Definition sess_mis_g (cs : list sess_case) : list N :=
  flat_map (fun '(id, _, _, ref) => if forallb (outcome_eqb OOk) ref then [] else [id]) cs.

Definition arep_eqb (a b : arep) : bool :=
  match a, b with
  | ARaw, ARaw | AWrap, AWrap | AFail, AFail => true
  | ABox _, ABox _ => true      (* the host sees an interp.valueInterface whatever the nesting *)
  | _, _ => false
  end.

(** id, parameter type, has the value's type methods, shape, forwarded through, sink, observed class, contract class *)
Definition echo_case := (N * ptype * bool * ashape * nat * asink * arep * arep)%type.
Definition echo_mis_y (cs : list echo_case) : list N :=
  flat_map (fun '(id, p, hm, sh, d, k, impl, _) => if arep_eqb (y_echo p hm sh d k) impl then [] else [id]) cs.
Definition echo_mis_g (cs : list echo_case) : list N :=
  flat_map (fun '(id, _, _, _, _, k, _, ref) => if arep_eqb (g_echo k) ref then [] else [id]) cs.

(** id, form, callee, received the later value? (impl), (compiled Go's rule) *)
Definition stmt_case := (N * sform * callee * bool * bool)%type.
Definition stmt_mis_y (cs : list stmt_case) : list N :=
  flat_map (fun '(id, f, c, impl, _) => if Bool.eqb (y_stmt_late f c) impl then [] else [id]) cs.
Definition stmt_mis_g (cs : list stmt_case) : list N :=
  flat_map (fun '(id, _, _, _, ref) => if Bool.eqb false ref then [] else [id]) cs.

(** id, keys of the literal's elements, index at which the host found each element's value and the
    length it received (impl), the same for the literal evaluated natively *)
Definition lit_case := (N * list (option nat) * (list nat * nat) * (list nat * nat))%type.
Definition lit_eqb (a b : list nat * nat) : bool := list_eqb Nat.eqb (fst a) (fst b) && Nat.eqb (snd a) (snd b).
Definition lit_mis_y (cs : list lit_case) : list N :=
  flat_map (fun '(id, ks, impl, _) => if lit_eqb (y_lit ks) impl then [] else [id]) cs.
Definition lit_mis_g (cs : list lit_case) : list N :=
  flat_map (fun '(id, ks, _, ref) => if lit_eqb (g_lit ks) ref then [] else [id]) cs.
