(** C07 — the type grammar of the property's quantifier and values by induction on it.
    Types: basic kinds, host-declared structs, pointers, arrays, slices, maps, functions, [error],
    [interface{}], plus script-declared interface types (the parameters that yaegi boxes).
    Values: one inductive [val] whose only nesting is [list val] (rose tree); a function is known by
    its graph on finitely many points; [VBad] stands for an observation that is not a value of the
    expected type (host panic, compile error, timeout, foreign dynamic type).
    Definitions only; proofs are in Boundary/Proofs.v. *)
From Verif Require Import Lib.Str.
From Coq Require Import NArith.

Inductive ty :=
| TBool | TInt (bits : N) | TUint (bits : N) | TFloat (bits : N) | TComplex (bits : N) | TString
| TStruct (name : str) (fields : list ty)
| TPtr (t : ty) | TArr (n : N) (t : ty) | TSlice (t : ty) | TMap (k v : ty)
| TFunc (ins : list ty) (variadic : bool) (outs : list ty)
| TErr                       (* error: a host interface type (reflect type error) *)
| TAny                       (* interface{}: never boxed *)
| TScriptIface (name : str)  (* an interface type declared in the script: frame slots hold valueInterface *)
| TOpaque (name : str).      (* a host type known by identity only (sentinel error values) *)

(** How a function value is physically represented when it is handed over. *)
Inductive frep :=
| RNode      (* *node: an interpreted function that has not been wrapped *)
| RNative    (* a reflect.Func: a Go function, or the closure built by getFunc for a function literal *)
| RWrapped.  (* reflect.MakeFunc(genFunctionWrapper) around a *node *)

Inductive val :=
| VBool (b : bool) | VInt (z : Z) | VUint (n : N)
| VFloat (bits : N) | VComplex (re im : N) | VStr (s : str)
| VOpaque (n : N)                 (* a host value known by identity only (sentinel errors) *)
| VNil                            (* nil pointer, slice, map, function, interface *)
| VStruct (fs : list val) | VArr (l : list val)
| VSlice (l : list val)           (* non-nil slice *)
| VPtr (v : val)                  (* non-nil pointer *)
| VMap (ks vs : list val)         (* non-nil map, keys in canonical order *)
| VIface (t : ty) (v : val)       (* non-nil interface: dynamic type and value *)
| VBox (v : val)                  (* valueInterface{value: v}: yaegi's boxing of a script-interface value *)
| VFunc (r : frep) (pts : list val) (* non-nil function: its graph, a list of [VPoint] *)
| VPoint (args res : list val)
| VBad (cls : str).

Definition bytes (l : list nat) : str := map ascii_of_nat l.

(* ------------------------------------------------------------------ *)
(** * Decidable equality (representation tags of functions are not observable) *)

Fixpoint list_eqb {A} (e : A -> A -> bool) (a b : list A) : bool :=
  match a, b with
  | [], [] => true
  | x :: a', y :: b' => e x y && list_eqb e a' b'
  | _, _ => false
  end.

Fixpoint ty_eqb (a b : ty) : bool :=
  let fix tys (l m : list ty) : bool :=
    match l, m with
    | [], [] => true
    | x :: l', y :: m' => ty_eqb x y && tys l' m'
    | _, _ => false
    end in
  match a, b with
  | TBool, TBool | TString, TString | TErr, TErr | TAny, TAny => true
  | TInt x, TInt y | TUint x, TUint y | TFloat x, TFloat y | TComplex x, TComplex y => N.eqb x y
  | TStruct n f, TStruct m g => str_eqb n m && tys f g
  | TPtr x, TPtr y | TSlice x, TSlice y => ty_eqb x y
  | TArr n x, TArr m y => N.eqb n m && ty_eqb x y
  | TMap k x, TMap l y => ty_eqb k l && ty_eqb x y
  | TFunc i v o, TFunc j w p => tys i j && Bool.eqb v w && tys o p
  | TScriptIface n, TScriptIface m | TOpaque n, TOpaque m => str_eqb n m
  | _, _ => false
  end.

Fixpoint val_eqb (a b : val) : bool :=
  let fix vals (l m : list val) : bool :=
    match l, m with
    | [], [] => true
    | x :: l', y :: m' => val_eqb x y && vals l' m'
    | _, _ => false
    end in
  match a, b with
  | VBool x, VBool y => Bool.eqb x y
  | VInt x, VInt y => Z.eqb x y
  | VUint x, VUint y | VFloat x, VFloat y | VOpaque x, VOpaque y => N.eqb x y
  | VComplex x1 x2, VComplex y1 y2 => N.eqb x1 y1 && N.eqb x2 y2
  | VStr x, VStr y | VBad x, VBad y => str_eqb x y
  | VNil, VNil => true
  | VStruct l, VStruct m | VArr l, VArr m | VSlice l, VSlice m => vals l m
  | VPtr x, VPtr y | VBox x, VBox y => val_eqb x y
  | VMap k v, VMap l w => vals k l && vals v w
  | VIface t x, VIface u y => ty_eqb t u && val_eqb x y
  | VFunc _ p, VFunc _ q => vals p q
  | VPoint a r, VPoint b s => vals a b && vals r s
  | _, _ => false
  end.

Definition vals_eqb := list_eqb val_eqb.

(* ------------------------------------------------------------------ *)
(** * Zero values, reflect.IsZero, typing *)

Fixpoint zero (t : ty) : val :=
  match t with
  | TBool => VBool false
  | TInt _ => VInt 0
  | TUint _ => VUint 0
  | TFloat _ => VFloat 0
  | TComplex _ => VComplex 0 0
  | TString => VStr []
  | TStruct _ fs => VStruct (map zero fs)
  | TArr n e => VArr (repeat (zero e) (N.to_nat n))
  | TOpaque _ => VOpaque 0
  | _ => VNil
  end.

(** Sign bit alone: negative zero at 32 or 64 bits. *)
Definition neg_zero_bits (b : N) : bool := N.eqb b 2147483648 || N.eqb b 9223372036854775808.
Definition float_is_zero (b : N) : bool := N.eqb b 0 || neg_zero_bits b.

(** reflect.Value.IsZero as of Go 1.22: negative zero counts as zero; a struct or an array is zero
    when all its components are. *)
Fixpoint is_zero (v : val) : bool :=
  match v with
  | VBool b => negb b
  | VInt z => Z.eqb z 0
  | VUint n => N.eqb n 0
  | VFloat b => float_is_zero b
  | VComplex r i => float_is_zero r && float_is_zero i
  | VStr s => match s with [] => true | _ => false end
  | VNil => true
  | VStruct l | VArr l => forallb is_zero l
  | _ => false
  end.

(** No negative zero at a position that [is_zero] inspects. *)
Fixpoint no_negzero (v : val) : bool :=
  match v with
  | VFloat b => negb (neg_zero_bits b)
  | VComplex r i => negb (neg_zero_bits r) && negb (neg_zero_bits i)
  | VStruct l | VArr l => forallb no_negzero l
  | _ => true
  end.

Definition is_iface_ty (t : ty) : bool :=
  match t with TErr | TAny | TScriptIface _ => true | _ => false end.

(** Typing of values (the values the harness generates; graphs are typed pointwise). *)
Fixpoint has_type (fuel : nat) (t : ty) (v : val) : bool :=
  match fuel with
  | O => false
  | S f =>
      let all2 := fix all2 (ts : list ty) (vs : list val) : bool :=
        match ts, vs with
        | [], [] => true
        | t' :: ts', v' :: vs' => has_type f t' v' && all2 ts' vs'
        | _, _ => false
        end in
      match t, v with
      | TBool, VBool _ | TInt _, VInt _ | TUint _, VUint _ | TFloat _, VFloat _
      | TComplex _, VComplex _ _ | TString, VStr _ | TOpaque _, VOpaque _ => true
      | TStruct _ fs, VStruct vs => all2 fs vs
      | TArr n e, VArr l => N.eqb (N.of_nat (length l)) n && forallb (has_type f e) l
      | TPtr _, VNil | TSlice _, VNil | TMap _ _, VNil | TFunc _ _ _, VNil
      | TErr, VNil | TAny, VNil | TScriptIface _, VNil => true
      | TPtr e, VPtr x => has_type f e x
      | TSlice e, VSlice l => forallb (has_type f e) l
      | TMap k e, VMap ks vs => Nat.eqb (length ks) (length vs) && forallb (has_type f k) ks && forallb (has_type f e) vs
      | TErr, VIface d x | TAny, VIface d x | TScriptIface _, VIface d x => negb (is_iface_ty d) && has_type f d x
      | TFunc ins _ outs, VFunc _ pts =>
          forallb (fun p => match p with VPoint a r => all2 ins a && all2 outs r | _ => false end) pts
      | _, _ => false
      end
  end.

(* ------------------------------------------------------------------ *)
(** * Size (fuel for structural recursion through graphs) *)

Fixpoint vsize (v : val) : nat :=
  let fix sum (l : list val) : nat := match l with [] => 0 | x :: l' => vsize x + sum l' end in
  S match v with
    | VStruct l | VArr l | VSlice l => sum l
    | VPtr x | VBox x | VIface _ x => vsize x
    | VMap k w => sum k + sum w
    | VFunc _ p => sum p
    | VPoint a r => sum a + sum r
    | _ => 0
    end.
