(** Strings as lists of ascii characters, with the handful of Go [strings] functions the
    mechanism models transcribe: Split / Join on a one-character separator, TrimSpace,
    HasPrefix / HasSuffix, Index, Atoi.  No proofs about the code here: only the library. *)
From Coq Require Export Ascii String.
From Coq Require Export Bool Arith ZArith Lia List.
Export ListNotations.
Notation length := List.length.
Open Scope list_scope.

Definition str := list ascii.

Definition s (x : string) : str := list_ascii_of_string x.

Definition ascii_eqb := Ascii.eqb.

Fixpoint str_eqb (a b : str) : bool :=
  match a, b with
  | [], [] => true
  | x :: a', y :: b' => Ascii.eqb x y && str_eqb a' b'
  | _, _ => false
  end.

Lemma str_eqb_spec a b : reflect (a = b) (str_eqb a b).
Proof.
  revert b; induction a as [|x a IH]; intros [|y b]; simpl; try (constructor; congruence).
  destruct (Ascii.eqb_spec x y) as [->|Hn]; simpl.
  - destruct (IH b) as [->|Hn]; constructor; congruence.
  - constructor; congruence.
Qed.

Lemma str_eqb_refl a : str_eqb a a = true.
Proof. destruct (str_eqb_spec a a); congruence. Qed.

Lemma str_eqb_eq a b : str_eqb a b = true <-> a = b.
Proof. destruct (str_eqb_spec a b); split; congruence. Qed.

Lemma str_eqb_neq a b : str_eqb a b = false <-> a <> b.
Proof. destruct (str_eqb_spec a b); split; congruence. Qed.

Fixpoint mem (x : str) (l : list str) : bool :=
  match l with [] => false | y :: l' => str_eqb y x || mem x l' end.

Lemma mem_In x l : mem x l = true <-> In x l.
Proof.
  induction l as [|y l IH]; simpl; [split; [discriminate|tauto]|].
  rewrite orb_true_iff, IH, str_eqb_eq. tauto.
Qed.

(** Go [strings.Split(s, sep)] for a one-byte separator: never returns the empty list. *)
Fixpoint split (c : ascii) (x : str) : list str :=
  match x with
  | [] => [[]]
  | a :: t =>
      if Ascii.eqb a c then [] :: split c t
      else match split c t with
           | h :: r => (a :: h) :: r
           | [] => [[a]]
           end
  end.

Fixpoint join (c : ascii) (l : list str) : str :=
  match l with
  | [] => []
  | [w] => w
  | w :: l' => w ++ c :: join c l'
  end.

Definition nosep (c : ascii) (w : str) : Prop := ~ In c w.

Fixpoint nosepb (c : ascii) (w : str) : bool :=
  match w with [] => true | a :: t => negb (Ascii.eqb a c) && nosepb c t end.

Lemma nosepb_spec c w : nosepb c w = true <-> nosep c w.
Proof.
  unfold nosep; induction w as [|a t IH]; simpl; [tauto|].
  rewrite andb_true_iff, negb_true_iff, IH.
  destruct (Ascii.eqb_spec a c); split; intuition congruence.
Qed.

Lemma split_nonempty c x : split c x <> [].
Proof.
  induction x as [|a t IH]; simpl; [discriminate|].
  destruct (Ascii.eqb a c); [discriminate|].
  destruct (split c t); discriminate.
Qed.

Lemma split_nosep c w : nosep c w -> split c w = [w].
Proof.
  unfold nosep; induction w as [|a t IH]; simpl; intros H; [reflexivity|].
  destruct (Ascii.eqb_spec a c) as [->|Hn]; [exfalso; apply H; now left|].
  rewrite IH; [reflexivity| intros Hin; apply H; now right].
Qed.

Lemma split_app_sep c w t : nosep c w -> split c (w ++ c :: t) = w :: split c t.
Proof.
  unfold nosep; induction w as [|a w IH]; simpl; intros H.
  - now rewrite Ascii.eqb_refl.
  - destruct (Ascii.eqb_spec a c) as [->|Hn]; [exfalso; apply H; now left|].
    rewrite IH; [reflexivity| intros Hin; apply H; now right].
Qed.

(** Split inverts Join on any non-empty list of separator-free words. *)
Theorem split_join c l : l <> [] -> Forall (nosep c) l -> split c (join c l) = l.
Proof.
  induction l as [|w l IH]; [congruence|]; intros _ Hall.
  inversion Hall as [|? ? Hw Hl]; subst.
  destruct l as [|w' l'].
  - simpl. now apply split_nosep.
  - change (join c (w :: w' :: l')) with (w ++ c :: join c (w' :: l')).
    rewrite split_app_sep by assumption. f_equal. apply IH; [discriminate|assumption].
Qed.

Fixpoint has_prefix (p x : str) : bool :=
  match p, x with
  | [], _ => true
  | a :: p', b :: x' => Ascii.eqb a b && has_prefix p' x'
  | _, [] => false
  end.

Lemma has_prefix_app p x : has_prefix p (p ++ x) = true.
Proof. induction p; simpl; [reflexivity|]. now rewrite Ascii.eqb_refl. Qed.

Definition has_suffix (p x : str) : bool := has_prefix (rev p) (rev x).

Definition trim_suffix (p x : str) : str :=
  if has_suffix p x then firstn (length x - length p) x else x.

Definition trim_prefix (p x : str) : str :=
  if has_prefix p x then skipn (length p) x else x.

(** ASCII white space as [unicode.IsSpace] restricted to bytes < 0x80 (plus 0x85, 0xA0 ignored). *)
Definition is_space (a : ascii) : bool :=
  let n := nat_of_ascii a in
  (n =? 32) || (n =? 9) || (n =? 10) || (n =? 11) || (n =? 12) || (n =? 13).

Fixpoint trim_left (x : str) : str :=
  match x with a :: t => if is_space a then trim_left t else x | [] => [] end.

Definition trim_right (x : str) : str := rev (trim_left (rev x)).
Definition trim_space (x : str) : str := trim_right (trim_left x).

(** Go [strings.Fields] for ASCII white space: maximal runs of non-space characters. *)
Fixpoint fields_aux (cur : str) (x : str) : list str :=
  match x with
  | [] => match cur with [] => [] | _ => [rev cur] end
  | a :: t =>
      if is_space a then
        match cur with [] => fields_aux [] t | _ => rev cur :: fields_aux [] t end
      else fields_aux (a :: cur) t
  end.
Definition fields (x : str) : list str := fields_aux [] x.

Fixpoint all_nospace (x : str) : bool :=
  match x with [] => true | a :: t => negb (is_space a) && all_nospace t end.

Lemma trim_left_nospace_hd a t : is_space a = false -> trim_left (a :: t) = a :: t.
Proof. simpl; now intros ->. Qed.

(** index of the first occurrence of a character, as [strings.Index] with a one-byte needle. *)
Fixpoint index (c : ascii) (x : str) : option nat :=
  match x with
  | [] => None
  | a :: t => if Ascii.eqb a c then Some 0 else option_map S (index c t)
  end.

Definition is_digit (a : ascii) : bool :=
  let n := nat_of_ascii a in (48 <=? n) && (n <=? 57).

Fixpoint digits_val (acc : Z) (x : str) : option Z :=
  match x with
  | [] => Some acc
  | a :: t => if is_digit a then digits_val (acc * 10 + Z.of_nat (nat_of_ascii a - 48)) t else None
  end.

(** Go [strconv.Atoi]: optional sign, at least one digit, base 10, int64 range. *)
Definition atoi_body (sign : Z) (t : str) : option Z :=
  match t with
  | [] => None
  | _ => match digits_val 0 t with
         | Some v => let r := (sign * v)%Z in
                     if ((- 2 ^ 63 <=? r) && (r <=? 2 ^ 63 - 1))%Z then Some r else None
         | None => None
         end
  end.

Definition atoi (x : str) : option Z :=
  match x with
  | [] => None
  | a :: t =>
      if Ascii.eqb a "+"%char then atoi_body 1%Z t
      else if Ascii.eqb a "-"%char then atoi_body (-1)%Z t
      else atoi_body 1%Z x
  end.

Lemma atoi_body_range sg t v : atoi_body sg t = Some v -> (- 2 ^ 63 <= v <= 2 ^ 63 - 1)%Z.
Proof.
  unfold atoi_body. destruct t; [discriminate|]. destruct (digits_val 0 (a :: t)); [|discriminate].
  cbv zeta. destruct ((- 2 ^ 63 <=? sg * z)%Z && (sg * z <=? 2 ^ 63 - 1)%Z) eqn:E; [|discriminate].
  intros H; inversion H; subst. apply andb_true_iff in E. lia.
Qed.

Lemma atoi_range x v : atoi x = Some v -> (- 2 ^ 63 <= v <= 2 ^ 63 - 1)%Z.
Proof.
  unfold atoi. destruct x as [|a t]; [discriminate|].
  destruct (Ascii.eqb a "+"%char); [apply atoi_body_range|].
  destruct (Ascii.eqb a "-"%char); apply atoi_body_range.
Qed.

Definition last_opt {A} (l : list A) : option A :=
  match rev l with [] => None | x :: _ => Some x end.

Fixpoint existsb_str (f : str -> bool) (l : list str) : bool :=
  match l with [] => false | x :: t => f x || existsb_str f t end.
