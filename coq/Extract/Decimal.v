(** C18 — how [extract.fixConst] prints an untyped constant (extract/extract.go).

    Integers: [val.ExactString()] — the decimal digits of the value ([print_Z]); the literal is
    read back by [constant.MakeFromLiteral(_, token.INT, 0)] ([parse_Z]).

    Floats: the exact value is a fraction a/b in lowest terms (go/constant keeps *big.Rat as long as
    both components have fewer than 4096 bits).  fixConst does
        f := new(big.Float).SetRat(a/b)      // precision max(bitlen a, bitlen b, 64), nearest-even
        str = f.Text('g', int(f.Prec()))     // at most that many *decimal* significant digits
    i.e. two correctly rounded conversions: to [prec] significant bits, then to [prec]
    significant decimal digits (math/big decimal.round: half to even).  [fix_float] computes the
    value denoted by the printed literal, as a fraction.

    Definitions only; the proofs are in Extract/Proofs.v. *)
From Coq Require Import ZArith Bool List DecimalString DecimalZ.
From Verif Require Import Lib.Str.
Open Scope Z_scope.

(* ------------------------------------------------------------------ *)
(** * Integers *)

Definition print_Z (z : Z) : str := s (NilZero.string_of_int (Z.to_int z)).

Definition parse_Z (x : str) : option Z :=
  option_map Z.of_int (NilZero.int_of_string (string_of_list_ascii x)).

Definition print_nat (n : nat) : str := print_Z (Z.of_nat n).

(* ------------------------------------------------------------------ *)
(** * Strings: a quoted literal and its reading

    fixConst prints a string constant with [val.ExactString()] (strconv.Quote) and the literal is
    read back by [constant.MakeFromLiteral(_, token.STRING, 0)] (strconv.Unquote). The model uses the
    ASCII-only quoting: printable ASCII other than the quote and the backslash stands for itself,
    every other byte is written \xHH. (strconv.Quote writes some of those bytes in shorter forms;
    what matters to the property is that reading inverts printing, for every byte string.)
    The same quoting is the transport format of string constants between the harness and Coq. *)

Definition dq : ascii := """"%char.
Definition bs : ascii := "\"%char.

Definition printable (c : ascii) : bool :=
  let n := nat_of_ascii c in
  (32 <=? n)%nat && (n <? 127)%nat && negb (n =? 34)%nat && negb (n =? 92)%nat.

Definition hexdigit (k : nat) : ascii :=
  nth k (s "0123456789abcdef") "0"%char.

Definition hexval (a : ascii) : option nat :=
  let n := nat_of_ascii a in
  if (48 <=? n)%nat && (n <=? 57)%nat then Some (n - 48)%nat
  else if (97 <=? n)%nat && (n <=? 102)%nat then Some (n - 87)%nat
  else None.

Fixpoint quote_body (x : str) : str :=
  match x with
  | [] => []
  | c :: r =>
      (if printable c then [c]
       else let n := nat_of_ascii c in [bs; "x"%char; hexdigit (n / 16); hexdigit (n mod 16)])
      ++ quote_body r
  end.

Definition print_str (x : str) : str := dq :: quote_body x ++ [dq].

(** reading up to the closing quote, which must be the last character *)
Fixpoint unquote_body (x : str) : option str :=
  match x with
  | [] => None
  | c :: r =>
      if Ascii.eqb c dq then match r with [] => Some [] | _ => None end
      else if Ascii.eqb c bs then
        match r with
        | e :: h :: l :: r' =>
            if Ascii.eqb e "x"%char then
              match hexval h, hexval l with
              | Some a, Some b => option_map (cons (ascii_of_nat (16 * a + b))) (unquote_body r')
              | _, _ => None
              end
            else None
        | _ => None
        end
      else option_map (cons c) (unquote_body r)
  end.

Definition parse_str (x : str) : option str :=
  match x with
  | c :: r => if Ascii.eqb c dq then unquote_body r else None
  | [] => None
  end.

(* ------------------------------------------------------------------ *)
(** * Fractions (numerator, denominator > 0) *)

Definition frac := (Z * Z)%type.

Definition req (x y : frac) : bool := (fst x * snd y =? fst y * snd x).

Definition norm (x : frac) : frac :=
  let g := Z.gcd (fst x) (snd x) in
  if g =? 0 then x else (fst x / g, snd x / g).

(** big.Int.BitLen *)
Definition bitlen (z : Z) : Z :=
  match z with Z0 => 0 | Zpos p | Zneg p => Z.log2 (Zpos p) + 1 end.

(* ------------------------------------------------------------------ *)
(** * Correct rounding to [n] significant digits in base [beta] (ties to even) *)

Definition rne_div (a b : Z) : Z :=
  let q := a / b in
  let r := a mod b in
  match 2 * r ?= b with
  | Lt => q
  | Gt => q + 1
  | Eq => if Z.even q then q else q + 1
  end.

(** (a/b) / beta^e as a fraction *)
Definition scale (beta a b e : Z) : frac :=
  (a * beta ^ Z.max 0 (- e), b * beta ^ Z.max 0 e).

(** beta^(n-1) <= (a/b) / beta^e < beta^n : [e] is the exponent of the last kept digit *)
Definition fits (beta n a b e : Z) : bool :=
  let '(a', b') := scale beta a b e in
  (beta ^ (n - 1) * b' <=? a') && (a' <? beta ^ n * b').

Fixpoint find_exp (fuel : nat) (beta n a b e : Z) : option Z :=
  match fuel with
  | O => None
  | S f => if fits beta n a b e then Some e else find_exp f beta n a b (e + 1)
  end.

(** m * beta^e as a fraction *)
Definition of_me (beta m e : Z) : frac := (m * beta ^ Z.max 0 e, beta ^ Z.max 0 (- e)).

(** [est] is an estimate of the exponent, searched in [est-3, est+3]; [None] if the estimate is
    off (never observed; the correspondence would report it). *)
Definition round_sig (beta n est a b : Z) : option (Z * Z) :=
  match find_exp 7 beta n a b (est - 3) with
  | None => None
  | Some e => let '(a', b') := scale beta a b e in Some (rne_div a' b', e)
  end.

Definition est2 (a b n : Z) : Z := Z.log2 a - Z.log2 b - (n - 1).
Definition est10 (a b n : Z) : Z := ((Z.log2 a - Z.log2 b) * 30103) / 100000 - (n - 1).

(** precision chosen by big.Float.SetRat / SetInt on a zero-precision receiver *)
Definition float_prec (a b : Z) : Z := Z.max (Z.max (bitlen a) (bitlen b)) 64.

Definition fix_float_pos (a b : Z) : option frac :=
  let prec := float_prec a b in
  match round_sig 2 prec (est2 a b prec) a b with
  | None => None
  | Some (m, e) =>
      let '(a1, b1) := of_me 2 m e in
      match round_sig 10 prec (est10 a1 b1 prec) a1 b1 with
      | None => None
      | Some (m', e') => Some (of_me 10 m' e')
      end
  end.

(** value of the literal printed by fixConst for the untyped float constant a/b (b > 0, lowest terms) *)
Definition fix_float (a b : Z) : option frac :=
  match a with
  | Z0 => Some (0, 1)
  | Zpos _ => fix_float_pos a b
  | Zneg p => option_map (fun x : frac => (- fst x, snd x)) (fix_float_pos (Zpos p) b)
  end.
