(** C18 — proofs about the models of Extract/Model.v and Extract/Decimal.v. *)
From Coq Require Import ZArith Lia Bool List Arith DecimalString DecimalZ DecimalPos Znumtheory.
From Verif Require Import Lib.Str Extract.Decimal Extract.Model gen.ExtractTables_gen.
Open Scope Z_scope.

(* ================================================================== *)
(** * Printing of constants *)

(* ---------- integers ---------- *)
Lemma parse_print_Z z : parse_Z (print_Z z) = Some z.
Proof.
  unfold parse_Z, print_Z, s.
  rewrite string_of_list_ascii_of_string.
  rewrite NilZero.isi.
  - simpl. now rewrite DecimalZ.of_to.
  - destruct z; simpl; try discriminate.
    intros [= H]. now apply (Unsigned.to_uint_nonnil p).
  - destruct z; simpl; try discriminate.
    intros [= H]. now apply (Unsigned.to_uint_nonnil p).
Qed.

(* ---------- strings ---------- *)
Section Strings.
Local Open Scope nat_scope.
Lemma hexval_hexdigit k : k < 16 -> hexval (hexdigit k) = Some k.
Proof.
  intros H. do 16 (destruct k as [|k]; [reflexivity|]). lia.
Qed.

Lemma printable_not_special c : printable c = true -> Ascii.eqb c dq = false /\ Ascii.eqb c bs = false.
Proof.
  unfold printable. intros H. repeat (apply andb_true_iff in H; destruct H as [H ?]).
  apply negb_true_iff, Nat.eqb_neq in H0. apply negb_true_iff, Nat.eqb_neq in H1.
  split; apply Ascii.eqb_neq; intros ->; [apply H1|apply H0]; reflexivity.
Qed.

Lemma unquote_quote x : unquote_body (quote_body x ++ [dq]) = Some x.
Proof.
  induction x as [|c r IH]; [reflexivity|].
  cbn [quote_body]. destruct (printable c) eqn:Hp.
  - destruct (printable_not_special c Hp) as [H1 H2].
    cbn [app unquote_body]. rewrite H1, H2, IH. reflexivity.
  - set (n := nat_of_ascii c).
    assert (Hn : n < 256) by apply nat_ascii_bounded.
    cbn [app unquote_body].
    change (Ascii.eqb bs dq) with false. change (Ascii.eqb bs bs) with true.
    change (Ascii.eqb "x"%char "x"%char) with true. cbn iota.
    rewrite !hexval_hexdigit.
    + rewrite IH. cbn [option_map].
      replace (16 * (n / 16) + n mod 16) with n by (rewrite <- Nat.div_mod_eq; reflexivity).
      unfold n. rewrite ascii_nat_embedding. reflexivity.
    + apply Nat.mod_upper_bound. lia.
    + apply Nat.div_lt_upper_bound; lia.
Qed.

Theorem parse_print_str x : parse_str (print_str x) = Some x.
Proof. unfold parse_str, print_str. change (Ascii.eqb dq dq) with true. cbn iota. apply unquote_quote. Qed.
End Strings.

(* ---------- fractions ---------- *)
Lemma req_iff x y : req x y = true <-> fst x * snd y = fst y * snd x.
Proof. unfold req. apply Z.eqb_eq. Qed.

Lemma norm_req r : req (norm r) r = true.
Proof.
  unfold norm. destruct (Z.eqb_spec (Z.gcd (fst r) (snd r)) 0) as [|Hg]; apply req_iff; [reflexivity|].
  set (g := Z.gcd (fst r) (snd r)) in *.
  assert (Hx : fst r = g * (fst r / g)).
  { apply Z_div_exact_full_2; [assumption|]. apply Zdivide_mod. apply Z.gcd_divide_l. }
  assert (Hy : snd r = g * (snd r / g)).
  { apply Z_div_exact_full_2; [assumption|]. apply Zdivide_mod. apply Z.gcd_divide_r. }
  cbn [fst snd].
  rewrite Hx at 2. rewrite Hy at 1. ring.
Qed.

Lemma req_trans x y z : snd y <> 0 -> req x y = true -> req y z = true -> req x z = true.
Proof.
  rewrite !req_iff. intros Hy H1 H2.
  apply (Z.mul_cancel_r _ _ (snd y) Hy).
  transitivity (fst x * snd y * snd z); [ring|]. rewrite H1.
  transitivity (fst y * snd z * snd x); [ring|]. rewrite H2. ring.
Qed.

(* ---------- rounding ---------- *)
Lemma rne_div_exact q b : 0 < b -> rne_div (q * b) b = q.
Proof.
  intros Hb. unfold rne_div.
  rewrite Z.div_mul by lia. rewrite Z.mod_mul by lia.
  assert (H : (2 * 0 ?= b) = Lt) by (apply Z.compare_lt_iff; lia).
  rewrite H. reflexivity.
Qed.

Lemma find_exp_fits f beta n a b e e' :
  find_exp f beta n a b e = Some e' -> fits beta n a b e' = true.
Proof.
  revert e. induction f as [|f IH]; intros e; cbn [find_exp]; [discriminate|].
  destruct (fits beta n a b e) eqn:Hf.
  - intros [= <-]. exact Hf.
  - apply IH.
Qed.

Lemma pow_pos_lt beta x : 1 < beta -> 0 <= x -> 0 < beta ^ x.
Proof. intros. apply Z.pow_pos_nonneg; lia. Qed.

(** a value with at most [n] significant base-[beta] digits is left unchanged *)
Lemma round_sig_exact beta n est a b M P Q m e :
  1 < beta -> 1 <= n -> 0 < a -> 0 < b -> 0 < M -> M < beta ^ n -> 0 <= P -> 0 <= Q ->
  a * beta ^ Q = M * beta ^ P * b ->
  round_sig beta n est a b = Some (m, e) ->
  fst (of_me beta m e) * b = a * snd (of_me beta m e).
Proof.
  intros Hbeta Hn Ha Hb HM HMn HP HQ Hrep. unfold round_sig.
  destruct (find_exp 7 beta n a b (est - 3)) as [e0|] eqn:Hfind; [|discriminate].
  apply find_exp_fits in Hfind. unfold fits, scale in *.
  set (q := Z.max 0 (- e0)) in *. set (p := Z.max 0 e0) in *.
  assert (Hq : 0 <= q) by (unfold q; lia). assert (Hp : 0 <= p) by (unfold p; lia).
  intros [= <- <-]. fold q p.
  apply andb_true_iff in Hfind. destruct Hfind as [Hlo _]. apply Z.leb_le in Hlo.
  set (a' := a * beta ^ q) in *. set (b' := b * beta ^ p) in *.
  assert (Hbq : 0 < beta ^ q) by (apply pow_pos_lt; lia).
  assert (Hbp : 0 < beta ^ p) by (apply pow_pos_lt; lia).
  assert (Hb' : 0 < b') by (unfold b'; nia).
  set (u := Q + p). set (v := P + q).
  assert (H1 : a' * beta ^ u = M * beta ^ v * b').
  { unfold a', b', u, v. rewrite !Z.pow_add_r by lia.
    transitivity ((a * beta ^ Q) * beta ^ q * beta ^ p); [ring|]. rewrite Hrep. ring. }
  assert (Huv : u <= v).
  { destruct (Z_le_gt_dec u v) as [|Hgt]; [assumption|exfalso].
    assert (Hbu : 0 < beta ^ u) by (apply pow_pos_lt; unfold u; lia).
    assert (H2 : beta ^ (n - 1) * b' * beta ^ u <= M * beta ^ v * b').
    { rewrite <- H1. apply Z.mul_le_mono_nonneg_r; lia. }
    assert (H3 : beta ^ (n - 1) * beta ^ u <= M * beta ^ v).
    { apply (Z.mul_le_mono_pos_r _ _ b' Hb'). lia. }
    assert (Hbv : 0 < beta ^ v) by (apply pow_pos_lt; unfold v; lia).
    assert (H4 : M * beta ^ v < beta ^ n * beta ^ v) by (apply Z.mul_lt_mono_pos_r; assumption).
    rewrite <- !Z.pow_add_r in * by (unfold u, v; lia).
    assert (H5 : beta ^ (n - 1 + u) < beta ^ (n + v)) by lia.
    apply Z.pow_lt_mono_r_iff in H5; [|lia|unfold v; lia]. lia. }
  assert (H6 : a' = M * beta ^ (v - u) * b').
  { assert (Hbu : 0 < beta ^ u) by (apply pow_pos_lt; unfold u; lia).
    apply (Z.mul_cancel_r _ _ (beta ^ u)); [lia|].
    rewrite H1. replace v with ((v - u) + u) at 1 by lia. rewrite Z.pow_add_r by (unfold u; lia). ring. }
  rewrite H6. rewrite rne_div_exact by assumption.
  unfold of_me. cbn [fst snd]. fold p q.
  transitivity (M * beta ^ (v - u) * b'); [unfold b'; ring|]. rewrite <- H6. reflexivity.
Qed.

Lemma bitlen_pos z : 0 < z -> bitlen z = Z.log2 z + 1.
Proof. destruct z; simpl; intros; try lia. Qed.

Lemma lt_pow_bitlen a : 0 < a -> a < 2 ^ bitlen a.
Proof.
  intros Ha. rewrite bitlen_pos by assumption.
  pose proof (Z.log2_spec a Ha) as [_ H]. unfold Z.succ in H. exact H.
Qed.

Lemma bitlen_pow2 k : 0 <= k -> bitlen (2 ^ k) = k + 1.
Proof.
  intros Hk. rewrite bitlen_pos by (apply Z.pow_pos_nonneg; lia).
  rewrite Z.log2_pow2 by assumption. reflexivity.
Qed.

Lemma float_prec_ge a k : 0 < a -> 0 <= k ->
  bitlen a <= float_prec a (2 ^ k) /\ k + 1 <= float_prec a (2 ^ k) /\ 64 <= float_prec a (2 ^ k).
Proof. intros Ha Hk. unfold float_prec. rewrite bitlen_pow2 by assumption. lia. Qed.

Lemma bitlen_pos_ge1 a : 0 < a -> 1 <= bitlen a.
Proof. intros Ha. rewrite bitlen_pos by assumption. pose proof (Z.log2_nonneg a). lia. Qed.

(** a / 2^k has at most [float_prec] significant decimal digits *)
Lemma dyadic_digits a k : 0 < a -> 0 <= k -> a * 5 ^ k < 10 ^ float_prec a (2 ^ k).
Proof.
  intros Ha Hk. destruct (float_prec_ge a k Ha Hk) as (H1 & H2 & H3).
  pose proof (lt_pow_bitlen a Ha) as Hlt. pose proof (bitlen_pos_ge1 a Ha) as HA.
  set (A := bitlen a) in *. set (pr := float_prec a (2 ^ k)) in *.
  set (t := Z.max A k).
  assert (H5 : 0 < 5 ^ k) by (apply Z.pow_pos_nonneg; lia).
  assert (Ha2 : a * 5 ^ k < 2 ^ A * 5 ^ k) by (apply Z.mul_lt_mono_pos_r; assumption).
  assert (H2t : 2 ^ A <= 2 ^ t) by (apply Z.pow_le_mono_r; unfold t; lia).
  assert (H5t : 5 ^ k <= 5 ^ t) by (apply Z.pow_le_mono_r; unfold t; lia).
  assert (H2A : 0 < 2 ^ A) by (apply Z.pow_pos_nonneg; lia).
  assert (Hm : 2 ^ A * 5 ^ k <= 2 ^ t * 5 ^ t) by (apply Z.mul_le_mono_nonneg; lia).
  assert (H10 : 2 ^ t * 5 ^ t = 10 ^ t) by (rewrite <- Z.pow_mul_l; reflexivity).
  assert (Hp : 10 ^ t <= 10 ^ pr) by (apply Z.pow_le_mono_r; unfold t; lia).
  lia.
Qed.

Lemma of_me_snd_pos beta m e : 1 < beta -> 0 < snd (of_me beta m e).
Proof. intros. unfold of_me. cbn [snd]. apply Z.pow_pos_nonneg; lia. Qed.

Theorem fix_float_pos_dyadic a k r :
  0 < a -> 0 <= k -> fix_float_pos a (2 ^ k) = Some r -> fst r * 2 ^ k = a * snd r.
Proof.
  intros Ha Hk. unfold fix_float_pos.
  destruct (float_prec_ge a k Ha Hk) as (H1 & H2 & H3).
  set (pr := float_prec a (2 ^ k)) in *.
  assert (H2k : 0 < 2 ^ k) by (apply Z.pow_pos_nonneg; lia).
  destruct (round_sig 2 pr (est2 a (2 ^ k) pr) a (2 ^ k)) as [[m e]|] eqn:R1; [|discriminate].
  assert (E1 : fst (of_me 2 m e) * 2 ^ k = a * snd (of_me 2 m e)).
  { apply (round_sig_exact 2 pr (est2 a (2 ^ k) pr) a (2 ^ k) a 0 k m e);
      [lia|lia|lia|lia|lia| |lia|lia| |exact R1].
    - pose proof (lt_pow_bitlen a Ha). assert (2 ^ bitlen a <= 2 ^ pr) by (apply Z.pow_le_mono_r; lia). lia.
    - ring. }
  destruct (of_me 2 m e) as [a1 b1] eqn:Eme. cbn [fst snd] in E1.
  assert (Hb1 : 0 < b1).
  { pose proof (of_me_snd_pos 2 m e ltac:(lia)) as H. rewrite Eme in H. exact H. }
  assert (Ha1 : 0 < a1) by nia.
  destruct (round_sig 10 pr (est10 a1 b1 pr) a1 b1) as [[m' e']|] eqn:R2; [|discriminate].
  intros [= <-].
  assert (E2 : fst (of_me 10 m' e') * b1 = a1 * snd (of_me 10 m' e')).
  { apply (round_sig_exact 10 pr (est10 a1 b1 pr) a1 b1 (a * 5 ^ k) 0 k m' e');
      [lia|lia|lia|lia| | |lia|lia| |exact R2].
    - assert (0 < 5 ^ k) by (apply Z.pow_pos_nonneg; lia). nia.
    - apply dyadic_digits; assumption.
    - change 10 with (2 * 5). rewrite Z.pow_mul_l.
      transitivity (a1 * 2 ^ k * 5 ^ k); [ring|]. rewrite E1. ring. }
  set (x := fst (of_me 10 m' e')) in *. set (y := snd (of_me 10 m' e')) in *.
  apply (Z.mul_cancel_r _ _ b1); [lia|].
  transitivity (x * b1 * 2 ^ k); [ring|]. rewrite E2.
  transitivity (a1 * 2 ^ k * y); [ring|]. rewrite E1. ring.
Qed.

Theorem fix_float_dyadic a k r :
  0 <= k -> fix_float a (2 ^ k) = Some r -> req r (a, 2 ^ k) = true.
Proof.
  intros Hk. rewrite req_iff. cbn [fst snd]. destruct a as [|p|p]; cbn [fix_float].
  - intros [= <-]. reflexivity.
  - intros H. apply fix_float_pos_dyadic in H; lia.
  - destruct (fix_float_pos (Z.pos p) (2 ^ k)) as [r0|] eqn:E; [|discriminate].
    cbn [option_map]. intros [= <-]. cbn [fst snd].
    apply fix_float_pos_dyadic in E; lia.
Qed.


Lemma fix_float_pos_den a b r : fix_float_pos a b = Some r -> 0 < snd r.
Proof.
  unfold fix_float_pos.
  destruct (round_sig 2 _ _ a b) as [[m e]|]; [|discriminate].
  destruct (of_me 2 m e) as [a1 b1].
  destruct (round_sig 10 _ _ a1 b1) as [[m' e']|]; [|discriminate].
  intros [= <-]. apply of_me_snd_pos. lia.
Qed.

Lemma fix_float_den a b r : fix_float a b = Some r -> 0 < snd r.
Proof.
  destruct a as [|p|p]; cbn [fix_float].
  - intros [= <-]. cbn. lia.
  - apply fix_float_pos_den.
  - destruct (fix_float_pos (Z.pos p) b) as [r0|] eqn:E; [|discriminate].
    cbn. intros [= <-]. cbn. eapply fix_float_pos_den; eassumption.
Qed.

(* ================================================================== *)
(** * Rows *)

Lemma pow2b_fuel_sound f : forall d, 0 < d -> pow2b_fuel f d = true -> exists k, 0 <= k /\ d = 2 ^ k.
Proof.
  induction f as [|f IH]; intros d Hd; cbn [pow2b_fuel]; [discriminate|].
  destruct (Z.eqb_spec d 1) as [->|Hn]; [intros _; exists 0; split; [lia|reflexivity]|].
  destruct (Z.even d) eqn:He; [|discriminate].
  intros H. apply Z.even_spec in He. destruct He as [h Hh].
  assert (Hdiv : d / 2 = h) by (subst d; rewrite Z.mul_comm; apply Z.div_mul; lia).
  rewrite Hdiv in H. destruct (IH h ltac:(lia) H) as (k & Hk & ->).
  exists (k + 1). split; [lia|]. rewrite Z.pow_add_r by lia. lia.
Qed.

Lemma dyadic_sound d : dyadic d = true -> exists k, 0 <= k /\ d = 2 ^ k.
Proof.
  unfold dyadic. intros H. apply andb_true_iff in H. destruct H as [H1 H2].
  apply Z.ltb_lt in H1. eapply pow2b_fuel_sound; eassumption.
Qed.

Lemma str_eqb_app_dot a n : str_eqb (a ++ n) (a ++ dot_s ++ n) = false.
Proof.
  apply str_eqb_neq. intros H. apply (f_equal (@List.length _)) in H.
  rewrite !app_length in H. cbn in H. lia.
Qed.

Lemma y_pname_cases p n :
  (y_is_restricted p n = true /\ y_pname p n = pk_name p ++ n)
  \/ (y_is_restricted p n = false /\ y_pname p n = pk_name p ++ dot_s ++ n).
Proof.
  unfold y_pname, y_is_restricted. destruct (mem (pk_name p ++ n) y_restricted); [left|right]; split; reflexivity.
Qed.

(** identifier rows: what they denote *)
Lemma denote_ident_own p d :
  denote_val p d (YIdent (pk_name p ++ dot_s ++ d_name d)) =
  match d_obj d with
  | OConst true v => if default_exact v then GConst v else GValue (d_name d)
  | _ => GValue (d_name d)
  end.
Proof. unfold denote_val. rewrite str_eqb_refl. reflexivity. Qed.

Lemma denote_ident_restricted p d :
  denote_val p d (YIdent (pk_name p ++ d_name d)) = GSandbox (d_name d).
Proof. unfold denote_val. rewrite str_eqb_app_dot, str_eqb_refl. reflexivity. Qed.

Lemma denote_typ_own p d : denote_typ p d (pk_name p ++ dot_s ++ d_name d) = GType (d_name d).
Proof. unfold denote_typ. now rewrite str_eqb_refl. Qed.

Lemma denote_typ_restricted p d : denote_typ p d (pk_name p ++ d_name d) = GSandbox (d_name d).
Proof. unfold denote_typ. now rewrite str_eqb_app_dot, str_eqb_refl. Qed.

Lemma cval_sameb_refl v : (match v with CFloat _ _ => False | _ => True end) -> cval_sameb v v = true.
Proof.
  destruct v; cbn; intros H; try contradiction.
  - apply eqb_reflx.
  - apply str_eqb_refl.
  - apply Z.eqb_refl.
  - apply eqb_reflx.
Qed.

(** the constant row denotes exactly the value, outside the float / complex regions *)
Lemma const_agree p d v :
  d_obj d = OConst true v -> const_side v = true -> y_is_restricted p (d_name d) = false ->
  gbind_sameb (denote_val p d (y_const (y_pname p (d_name d)) v)) (GConst v) = true.
Proof.
  intros Hobj Hside Hr.
  destruct (y_pname_cases p (d_name d)) as [[Hc _]|[_ Hq]]; [congruence|]. rewrite Hq.
  destruct v as [b|x|z|a den|e]; cbn [y_const].
  - rewrite denote_ident_own, Hobj. cbn. apply eqb_reflx.
  - cbn [denote_val]. rewrite parse_print_str. cbn. apply str_eqb_refl.
  - cbn [denote_val]. rewrite parse_print_Z. cbn. apply Z.eqb_refl.
  - cbn [const_side] in Hside. apply andb_true_iff in Hside. destruct Hside as [Hd Hs].
    destruct (fix_float a den) as [r|] eqn:Ef; [|discriminate].
    destruct (dyadic_sound den Hd) as (k & Hk & ->).
    cbn [denote_val gbind_sameb cval_sameb].
    pose proof Ef as Ef0. apply fix_float_dyadic in Ef; [|assumption].
    assert (Hn : req (norm r) r = true) by apply norm_req.
    assert (Hsnd : snd r <> 0) by (apply fix_float_den in Ef0; lia).
    apply req_iff in Hn, Ef. apply req_iff. cbn [fst snd] in *.
    set (nx := fst (norm r)) in *. set (ny := snd (norm r)) in *.
    apply (Z.mul_cancel_r _ _ (snd r) Hsnd).
    transitivity (nx * snd r * 2 ^ k); [ring|]. rewrite Hn.
    transitivity (fst r * 2 ^ k * ny); [ring|]. rewrite Ef. ring.
  - cbn [const_side] in Hside. subst e. rewrite denote_ident_own, Hobj. cbn. reflexivity.
Qed.

Lemma eqb_true_l b : Bool.eqb true b = true -> b = true.
Proof. destruct b; auto. Qed.
Lemma eqb_false_l b : Bool.eqb false b = true -> b = false.
Proof. destruct b; auto; discriminate. Qed.

(** per declaration: outside the regions, the generated row denotes what the contract prescribes *)
Lemma decl_agree p d : decl_side p d = true -> decl_agreeb p d = true.
Proof.
  unfold decl_side, decl_agreeb, y_classify, g_classify.
  destruct (d_exported d); cbn [negb orb]; [|reflexivity].
  destruct (d_obj d) as [u v|g| |al g i] eqn:Hobj.
  - (* constants *)
    destruct u.
    + intros H. apply andb_true_iff in H. destruct H as [Hs Hr]. apply negb_true_iff in Hr.
      apply const_agree; assumption.
    + intros Hr. apply negb_true_iff in Hr.
      destruct (y_pname_cases p (d_name d)) as [[Hc _]|[_ Hq]]; [congruence|]. rewrite Hq.
      rewrite denote_ident_own, Hobj. cbn. apply str_eqb_refl.
  - (* functions *)
    destruct g; [reflexivity|]. intros H.
    destruct (y_pname_cases p (d_name d)) as [[Hc Hq]|[Hc Hq]]; rewrite Hq, Hc in *.
    + apply eqb_true_l in H. rewrite H. rewrite denote_ident_restricted. cbn. apply str_eqb_refl.
    + apply eqb_false_l in H. rewrite H. rewrite denote_ident_own, Hobj. cbn. apply str_eqb_refl.
  - (* variables *)
    intros Hr. apply negb_true_iff in Hr.
    destruct (y_pname_cases p (d_name d)) as [[Hc _]|[_ Hq]]; [congruence|]. rewrite Hq.
    cbn [denote_val]. rewrite str_eqb_refl. cbn. apply str_eqb_refl.
  - (* types *)
    destruct g; [reflexivity|]. intros H. apply andb_true_iff in H. destruct H as [Hr Hi].
    assert (Ht : gbind_sameb (denote_typ p d (y_pname p (d_name d)))
                   (if g_sandboxed (pk_ipath p) (d_name d) then GSandbox (d_name d) else GType (d_name d)) = true).
    { destruct (y_pname_cases p (d_name d)) as [[Hc Hq]|[Hc Hq]]; rewrite Hq, Hc in *.
      - apply eqb_true_l in Hr. rewrite Hr, denote_typ_restricted. cbn. apply str_eqb_refl.
      - apply eqb_false_l in Hr. rewrite Hr, denote_typ_own. cbn. apply str_eqb_refl. }
    destruct i as [it|].
    + destruct (y_skip_iface it) eqn:Hsk.
      * apply eqb_true_l in Hi. apply negb_true_iff in Hi. rewrite Hi. reflexivity.
      * apply eqb_false_l in Hi. apply negb_false_iff in Hi. rewrite Hi. rewrite Ht. reflexivity.
    + rewrite Ht. reflexivity.
Qed.

Theorem binds_partial p : pkg_side p = true -> forallb (decl_agreeb p) (pk_decls p) = true.
Proof.
  unfold pkg_side. rewrite !forallb_forall. intros H d Hd. apply decl_agree. apply H. exact Hd.
Qed.

(* ---------- names and forms (induction on the declaration list) ---------- *)

Definition yclass (e : yexpr) : bool := match e with YAddr _ => true | _ => false end.
Definition gclass (b : gbind) : bool := match b with GAddr _ => true | _ => false end.

Lemma val_rows_agree p d :
  map (fun kv => (fst kv, yclass (snd kv))) (match y_classify p d with CVal e => [(d_name d, e)] | _ => [] end)
  = map (fun kv => (fst kv, gclass (snd kv))) (match g_classify p d with GVal b => [(d_name d, b)] | _ => [] end).
Proof.
  unfold y_classify, g_classify. destruct (d_exported d); cbn [negb]; [|reflexivity].
  destruct (d_obj d) as [u v|g| |al g i].
  - destruct u; [|reflexivity]. destruct v; reflexivity.
  - destruct g; [reflexivity|]. destruct (g_sandboxed _ _); reflexivity.
  - reflexivity.
  - destruct g; [reflexivity|]. destruct i as [it|]; [|reflexivity].
    destruct (y_skip_iface it), (i_methodset it); reflexivity.
Qed.

Lemma flat_map_map_agree {A B C D} (f : A -> list B) (g : A -> list C) (hf : B -> D) (hg : C -> D) l :
  (forall x, map hf (f x) = map hg (g x)) -> map hf (flat_map f l) = map hg (flat_map g l).
Proof.
  intros H. induction l as [|x l IH]; [reflexivity|]. cbn [flat_map]. rewrite !map_app, H, IH. reflexivity.
Qed.

(** value bindings: same names, in the same order, variables by address and everything else by value *)
Theorem val_forms_full p :
  map (fun kv => (fst kv, yclass (snd kv))) (y_vals p) = map (fun kv => (fst kv, gclass (snd kv))) (g_vals p).
Proof. unfold y_vals, g_vals. apply flat_map_map_agree. apply val_rows_agree. Qed.

Theorem val_names_full p : map fst (y_vals p) = map fst (g_vals p).
Proof.
  pose proof (val_forms_full p) as H. apply (f_equal (map fst)) in H. rewrite !map_map in H. exact H.
Qed.

Definition iface_side (d : decl) : bool :=
  negb (d_exported d) ||
  match d_obj d with
  | OType _ false (Some it) => Bool.eqb (y_skip_iface it) (negb (i_methodset it))
  | _ => true
  end.

Lemma typ_rows_agree p d : iface_side d = true ->
  map fst (match y_classify p d with CTyp q _ => [(d_name d, q)] | _ => [] end)
  = map fst (match g_classify p d with GTyp b _ => [(d_name d, b)] | _ => [] end)
  /\ map fst (match y_classify p d with CTyp _ (Some (w, _)) => [(d_name d, w)] | _ => [] end)
  = map fst (match g_classify p d with GTyp _ (Some w) => [(d_name d, w)] | _ => [] end).
Proof.
  unfold iface_side, y_classify, g_classify. destruct (d_exported d); cbn [negb orb]; [|split; reflexivity].
  destruct (d_obj d) as [u v|g| |al g i].
  - destruct u; [destruct v|]; split; reflexivity.
  - destruct g; split; reflexivity.
  - split; reflexivity.
  - destruct g; [split; reflexivity|]. destruct i as [it|]; [|split; reflexivity].
    intros H. destruct (y_skip_iface it).
    + apply eqb_true_l in H. apply negb_true_iff in H. rewrite H. split; reflexivity.
    + apply eqb_false_l in H. apply negb_false_iff in H. rewrite H. split; reflexivity.
Qed.

Lemma flat_map_map_agree_in {A B C D} (f : A -> list B) (g : A -> list C) (hf : B -> D) (hg : C -> D) l :
  (forall x, In x l -> map hf (f x) = map hg (g x)) -> map hf (flat_map f l) = map hg (flat_map g l).
Proof.
  induction l as [|x l IH]; intros H; [reflexivity|]. cbn [flat_map]. rewrite !map_app, H, IH; [reflexivity| |now left].
  intros y Hy. apply H. now right.
Qed.

Theorem typ_names_partial p :
  forallb iface_side (pk_decls p) = true ->
  map fst (y_typs p) = map fst (g_typs p) /\ map fst (y_wraps p) = map fst (g_wraps p).
Proof.
  rewrite forallb_forall. intros H. unfold y_typs, g_typs, y_wraps, g_wraps. split.
  - apply flat_map_map_agree_in. intros d Hd. apply (typ_rows_agree p d (H d Hd)).
  - apply flat_map_map_agree_in. intros d Hd. apply (typ_rows_agree p d (H d Hd)).
Qed.

Lemma pkg_side_iface p : pkg_side p = true -> forallb iface_side (pk_decls p) = true.
Proof.
  unfold pkg_side. rewrite !forallb_forall. intros H d Hd. specialize (H d Hd).
  unfold decl_side, iface_side in *. destruct (d_exported d); cbn [negb orb] in *; [|reflexivity].
  destruct (d_obj d) as [u v|g| |al g i]; try reflexivity.
  destruct g; [reflexivity|]. destruct i; [|reflexivity].
  apply andb_true_iff in H. apply H.
Qed.

(** the evaluator used by the correspondence computes [y_emit] *)
Lemma flat_map_map_pair {A B C} (c : A -> B) (g : A * B -> list C) l :
  flat_map g (map (fun d => (d, c d)) l) = flat_map (fun d => g (d, c d)) l.
Proof. induction l as [|x l IH]; [reflexivity|]. cbn. now rewrite IH. Qed.

Lemma y_emit_fast_eq p : y_emit_fast p = y_emit p.
Proof.
  unfold y_emit_fast, y_emit, y_rows, y_contribs, vals_of, typs_of, wraps_of, wrapped_of, y_vals, y_typs, y_wraps, y_wrapped.
  rewrite !flat_map_map_pair. reflexivity.
Qed.

(* ================================================================== *)
(** * Interface wrappers *)

Section Wrappers.
Local Open Scope nat_scope.
Lemma skipn2_slice e : skipn 2 (tstring (TSlice e)) = tstring e.
Proof. reflexivity. Qed.

Definition vlast (v : bool) (n j : nat) : bool := v && (S j =? n).

Lemma y_params_spec v n : forall ps j0,
  n = j0 + length ps ->
  (forall j pr, nth_error ps j = Some pr -> vlast v n (j0 + j) = true -> exists e, p_ty pr = TSlice e) ->
  length (fst (y_params v n j0 ps)) = length ps
  /\ length (snd (y_params v n j0 ps)) = length ps
  /\ forall j a t pr,
       nth_error (fst (y_params v n j0 ps)) j = Some (a, t) -> nth_error ps j = Some pr ->
       go_param a (p_ty pr) (vlast v n (j0 + j)) = Some (a, t)
       /\ nth_error (snd (y_params v n j0 ps)) j = Some (if vlast v n (j0 + j) then a ++ s "..." else a).
Proof.
  induction ps as [|p r IH]; intros j0 Hn Hsl.
  - cbn. split; [reflexivity|]. split; [reflexivity|]. intros j a t pr H. destruct j; discriminate.
  - cbn [y_params length] in *.
    destruct (IH (S j0)) as (L1 & L2 & L3); [lia| |].
    { intros j pr Hj Hv. apply (Hsl (S j) pr Hj). replace (j0 + S j) with (S j0 + j) by lia. exact Hv. }
    assert (Hc : (v && (j0 =? n - 1)) = vlast v n (j0 + 0)).
    { unfold vlast. rewrite Nat.add_0_r. f_equal.
      destruct (Nat.eqb_spec j0 (n - 1)), (Nat.eqb_spec (S j0) n); auto; lia. }
    rewrite Hc. destruct (vlast v n (j0 + 0)) eqn:Hv; cbn [fst snd length].
    + split; [now rewrite L1|]. split; [now rewrite L2|].
      intros [|j] a t pr; cbn [nth_error].
      * intros [= <- <-] [= <-]. rewrite Hv.
        destruct (Hsl 0 p eq_refl Hv) as [e He]. rewrite He. unfold go_param. split; reflexivity.
      * intros H1 H2. replace (j0 + S j) with (S j0 + j) by lia. apply L3; assumption.
    + split; [now rewrite L1|]. split; [now rewrite L2|].
      intros [|j] a t pr; cbn [nth_error].
      * intros [= <- <-] [= <-]. rewrite Hv. unfold go_param. split; reflexivity.
      * intros H1 H2. replace (j0 + S j) with (S j0 + j) by lia. apply L3; assumption.
Qed.

Lemma last_opt_nth {A} (l : list A) j x : nth_error l j = Some x -> S j = length l -> last_opt l = Some x.
Proof.
  intros H Hl. apply nth_error_split in H. destruct H as (l1 & l2 & -> & Hj).
  rewrite app_length in Hl. cbn in Hl. destruct l2; [|cbn in Hl; lia].
  unfold last_opt. rewrite rev_app_distr. reflexivity.
Qed.

Lemma meth_forwards m : wf_meth m = true -> forwards_meth (y_meth m) m.
Proof.
  intros Hwf. unfold forwards_meth, y_meth. cbn [ym_name ym_params ym_results ym_args ym_ret].
  destruct (y_params_spec (m_variadic m) (length (m_params m)) (m_params m) 0) as (L1 & L2 & L3); [reflexivity| |].
  { intros j pr Hj Hv. unfold vlast in Hv. apply andb_true_iff in Hv. destruct Hv as [Hv He].
    apply Nat.eqb_eq in He. cbn in He.
    unfold wf_meth in Hwf. rewrite Hv in Hwf. cbn in Hwf.
    rewrite (last_opt_nth _ _ _ Hj He) in Hwf. destruct (p_ty pr) as [|e]; [discriminate|]. now exists e. }
  split; [reflexivity|]. split; [exact L1|]. split.
  { intros j a t pr H1 H2. apply (L3 j a t pr H1 H2). }
  split; [exact L2|]. split; [|reflexivity].
  rewrite map_map. reflexivity.
Qed.

Lemma Forall2_map_same {A B} (R : B -> A -> Prop) (f : A -> B) l :
  (forall x, In x l -> R (f x) x) -> Forall2 R (map f l) l.
Proof.
  induction l as [|x l IH]; intros H; cbn; constructor.
  - apply H. now left.
  - apply IH. intros y Hy. apply H. now right.
Qed.

Theorem wrap_forwards prefix name i : wf_iface i = true -> forwards (y_wrap prefix name i) i.
Proof.
  intros Hwf. unfold forwards, y_wrap. cbn [yw_methods].
  apply Forall2_map_same. intros m Hm. apply meth_forwards.
  apply filter_In in Hm. destruct Hm as [Hm _].
  unfold wf_iface in Hwf. rewrite forallb_forall in Hwf. apply Hwf. exact Hm.
Qed.

(** the wrapper has exactly the exported methods, in the order of the method set *)
Theorem wrap_method_names prefix name i :
  map ym_name (yw_methods (y_wrap prefix name i)) = map gm_name (g_wrap i).
Proof. unfold y_wrap, g_wrap. cbn [yw_methods]. rewrite !map_map. reflexivity. Qed.
Local Close Scope nat_scope.
End Wrappers.

(* ================================================================== *)
(** * Witnesses: where the faithful model violates the contract (each replayed on the real tool) *)

Lemma float_refuted :
  y_vals ex_float = [(s "Anchor", YIdent (s "k.Anchor"));
                     (s "F", YLit (LFloat 500000000000000000006776263578034402712546580005437135696411133
                                          5000000000000000000000000000000000000000000000000000000000000000))]
  /\ forallb (decl_agreeb ex_float) (pk_decls ex_float) = false
  /\ y_compiles ex_float = true.
Proof. vm_compute. repeat split; reflexivity. Qed.

Lemma pi_refuted :
  forallb (decl_agreeb ex_pi) (pk_decls ex_pi) = false /\ y_compiles ex_pi = true.
Proof. vm_compute. split; reflexivity. Qed.

Lemma complex_refuted :
  y_vals ex_complex = [(s "Anchor", YIdent (s "k.Anchor")); (s "Z", YIdent (s "k.Z"))]
  /\ forallb (decl_agreeb ex_complex) (pk_decls ex_complex) = false.
Proof. vm_compute. split; reflexivity. Qed.

Lemma restricted_refuted :
  y_vals ex_restricted = [(s "Anchor", YIdent (s "log.Anchor")); (s "Fatal", YIdent (s "logFatal"))]
  /\ g_vals ex_restricted = [(s "Anchor", GValue (s "Anchor")); (s "Fatal", GValue (s "Fatal"))]
  /\ forallb (decl_agreeb ex_restricted) (pk_decls ex_restricted) = false
  /\ y_compiles ex_restricted = false.
Proof. vm_compute. repeat split; reflexivity. Qed.

Lemma wrapper_compile_refuted :
  (forallb (decl_agreeb ex_blank) (pk_decls ex_blank) = true /\ y_compiles ex_blank = false)
  /\ (forallb (decl_agreeb ex_string_shape) (pk_decls ex_string_shape) = true /\ y_compiles ex_string_shape = false).
Proof. vm_compute. repeat split; reflexivity. Qed.

Lemma type_names_refuted :
  (map fst (y_typs ex_constraint) = [s "Con"] /\ map fst (g_typs ex_constraint) = [] /\ y_compiles ex_constraint = false)
  /\ (map fst (y_typs ex_embedded_empty) = [s "Empty"] /\ map fst (g_typs ex_embedded_empty) = [s "Emb"; s "Empty"]).
Proof. vm_compute. repeat split; reflexivity. Qed.

Lemma imports_refuted :
  (forallb (decl_agreeb ex_consts_only) (pk_decls ex_consts_only) = true /\ y_compiles ex_consts_only = false)
  /\ (forallb (decl_agreeb ex_token) (pk_decls ex_token) = true /\ y_compiles ex_token = false).
Proof. vm_compute. repeat split; reflexivity. Qed.

Lemma statement_refuted : ~ c18_statement.
Proof.
  intros H. destruct (H ex_float eq_refl) as [H1 _]. vm_compute in H1. discriminate.
Qed.

(* ================================================================== *)
(** * Non-vacuity of the side conditions *)

Lemma side_inhabited :
  pkg_side ex_good = true /\ wf_pkg ex_good = true /\ pkg_agreeb ex_good = true
  /\ map fst (y_vals ex_good) = [s "Anchor"; s "Big"; s "Half"; s "Name"; s "Typed"; s "V"]
  /\ map fst (y_wraps ex_good) = [s "P"].
Proof. vm_compute. repeat split; reflexivity. Qed.

Lemma sealed_bound :
  pkg_side ex_sealed = true /\ pkg_agreeb ex_sealed = true
  /\ map fst (y_typs ex_sealed) = [s "Expr"; s "Stmt"] /\ map fst (g_typs ex_sealed) = [s "Expr"; s "Stmt"]
  /\ y_wraps ex_sealed = [(s "Expr", mkYW (s "_vt_k_Expr") []); (s "Stmt", mkYW (s "_vt_k_Stmt") [])].
Proof. vm_compute. repeat split; reflexivity. Qed.

Lemma wrapper_inhabited :
  wf_iface ex_good_iface = true
  /\ yw_methods (y_wrap (s "_vt_k_") (s "P") ex_good_iface) =
     [mkYM (s "Printf") [(s "format", s "string"); (s "args", s "...interface{}")] [(s "n", s "int"); (s "err", s "error")]
           [s "format"; s "args..."] true false;
      mkYM (s "String") [] [([], s "string")] [] true true].
Proof. vm_compute. split; reflexivity. Qed.

Lemma float_dyadic_inhabited :
  exists r, fix_float 5 (2 ^ 3) = Some r /\ req r (5, 8) = true.
Proof. eexists. split; vm_compute; reflexivity. Qed.
