(** C18 — [extract] emits complete, compilable, faithful wrappers.

    Y: transcription of extract/extract.go [genContent] / [fixConst] / [genBuildTags] on the
       go/types view of a package (abstract declarations), producing the rows of the generated
       file: value bindings, type bindings, interface wrappers, imports, build tag, map key —
       and a prediction of whether the Go compiler accepts the file.
    G: what the contract prescribes: exactly the exported non-generic package-level objects, each
       under its own name, variables by address, untyped constants with exactly their value, one
       forwarding wrapper per exported (ordinary) interface with exactly its exported methods.
    Definitions only; proofs are in Extract/Proofs.v. *)
From Verif Require Import Lib.Str Extract.Decimal.
From Verif Require Import gen.ExtractTables_gen.
Open Scope Z_scope.

(* ------------------------------------------------------------------ *)
(** * Abstract declarations (the go/types view read by genContent) *)

(** types as printed by [types.TypeString]; only the slice constructor matters to the mechanism
    (a variadic parameter has type []T) *)
Inductive ty := TBase (txt : str) | TSlice (elem : ty).

Fixpoint tstring (t : ty) : str :=
  match t with TBase x => x | TSlice e => s "[]" ++ tstring e end.

Record param := mkParam { p_name : str; p_ty : ty }.

Record meth := mkMeth {
  m_name : str;
  m_exported : bool;
  m_params : list param;
  m_variadic : bool;
  m_results : list param;
  m_pkgs : list (str * str);   (* (path, name) of every package [qualify] is called with while the
                                  signature is printed *)
  m_strok : bool;              (* [return ""] is a valid return statement for this result list *)
  m_nameable : bool            (* every type of the signature can be written in another package *)
}.

Record iface := mkIface {
  i_methods : list meth;       (* the complete method set, in go/types order: t.Method(0..NumMethods-1) *)
  i_nembedded : nat;           (* t.NumEmbeddeds() *)
  i_methodset : bool           (* t.IsMethodSet(): an ordinary interface, not a type-set constraint *)
}.

(** exact constant values (go/constant) *)
Inductive cval :=
| CBool (b : bool)
| CString (x : str)
| CInt (z : Z)
| CFloat (num den : Z)             (* lowest terms, den > 0 *)
| CComplex (exact128 : bool).      (* true: real and imaginary parts are float64 values *)

Inductive obj :=
| OConst (untyped : bool) (v : cval)
| OFunc (generic : bool)
| OVar
| OType (alias generic : bool) (i : option iface).   (* Some: the underlying type is an interface *)

Record decl := mkDecl { d_name : str; d_exported : bool; d_obj : obj }.

Record pkg := mkPkg {
  pk_name : str;        (* p.Name() *)
  pk_path : str;        (* p.Path() as reported by the importer *)
  pk_ipath : str;       (* the import path the file is generated for *)
  pk_minor : Z;         (* N of runtime.Version() = go1.N *)
  pk_decls : list decl  (* scope, in sc.Names() order *)
}.

(* ------------------------------------------------------------------ *)
(** * Rows of a generated file *)

Inductive lit :=
| LString (quoted : str)     (* token.STRING: the quoted literal handed to MakeFromLiteral *)
| LInt (digits : str)        (* token.INT, the digits as printed *)
| LFloat (num den : Z)       (* token.FLOAT, the value of the printed literal, lowest terms *)
| LFail.

Inductive yexpr :=
| YIdent (q : str)           (* reflect.ValueOf(q) *)
| YAddr (q : str)            (* reflect.ValueOf(&q).Elem() *)
| YLit (l : lit).            (* reflect.ValueOf(constant.MakeFromLiteral(l, token.T, 0)) *)

Record ymeth := mkYM {
  ym_name : str;
  ym_params : list (str * str);   (* name, printed type (with "..." for the variadic one) *)
  ym_results : list (str * str);
  ym_args : list str;             (* arguments of the forwarding call *)
  ym_ret : bool;                  (* "return" in front of the call *)
  ym_guard : bool                 (* the [if W.WString == nil { return "" }] guard *)
}.

Record ywrap := mkYW { yw_type : str; yw_methods : list ymeth }.

Record yout := mkYO {
  yo_tags : str;                       (* the "+build" line, "" if none *)
  yo_symkey : str;                     (* Symbols[...] *)
  yo_imports : list str;
  yo_vals : list (str * yexpr);
  yo_typs : list (str * str);          (* key, the type T of the nil pointer-to-T expression *)
  yo_wraps : list (str * ywrap);       (* key without the leading "_" *)
  yo_compiles : bool
}.

(* ------------------------------------------------------------------ *)
(** * Y — genContent *)

Definition dot_s : str := s ".".

Definition is_nil {A} (l : list A) : bool := match l with [] => true | _ => false end.

(** pname: "pkg.Name", or the locally provided replacement chosen by restricted[p.Name()+name] *)
Definition y_pname (p : pkg) (name : str) : str :=
  let r := pk_name p ++ name in
  if mem r y_restricted then r else pk_name p ++ dot_s ++ name.

Definition y_is_restricted (p : pkg) (name : str) : bool := mem (pk_name p ++ name) y_restricted.

(** fixConst *)
Definition y_const (q : str) (v : cval) : yexpr :=
  match v with
  | CString x => YLit (LString (print_str x))
  | CInt z => YLit (LInt (print_Z z))
  | CFloat a b => YLit (match fix_float a b with
                        | Some r => let r' := norm r in LFloat (fst r') (snd r')
                        | None => LFail
                        end)
  | CBool _ | CComplex _ => YIdent q
  end.

Definition y_arg_name (j : nat) (p : param) : str :=
  if is_nil (p_name p) then s "a" ++ print_nat j else p_name p.

(** the loop over sign.Params(): n = len(args), j = index *)
Fixpoint y_params (variadic : bool) (n j : nat) (ps : list param) : list (str * str) * list str :=
  match ps with
  | [] => ([], [])
  | p :: r =>
      let a := y_arg_name j p in
      let ts := tstring (p_ty p) in
      let rest := y_params variadic n (S j) r in
      if variadic && (j =? n - 1)%nat
      then ((a, s "..." ++ skipn 2 ts) :: fst rest, (a ++ s "...") :: snd rest)
      else ((a, ts) :: fst rest, a :: snd rest)
  end.

Definition string_s : str := s "String".

Definition y_meth (m : meth) : ymeth :=
  let pa := y_params (m_variadic m) (length (m_params m)) 0 (m_params m) in
  mkYM (m_name m) (fst pa)
       (map (fun r => (p_name r, tstring (p_ty r))) (m_results m))
       (snd pa)
       (negb (is_nil (m_results m)))
       (str_eqb (m_name m) string_s).

Definition y_repl (c : ascii) : ascii :=
  if mem [c] y_prefix_chars then "_"%char else c.

Definition y_prefix (ipath : str) : str := s "_" ++ map y_repl ipath ++ s "_".

Definition y_wrap (prefix name : str) (i : iface) : ywrap :=
  mkYW (prefix ++ name) (map y_meth (filter m_exported (i_methods i))).

(** what one scope entry contributes *)
Inductive contrib :=
| NoC
| CVal (e : yexpr)
| CTyp (q : str) (w : option (ywrap * iface)).

Definition y_skip_iface (i : iface) : bool :=
  (length (i_methods i) =? 0)%nat && negb (i_nembedded i =? 0)%nat.

Definition y_classify (p : pkg) (d : decl) : contrib :=
  if negb (d_exported d) then NoC else
  let q := y_pname p (d_name d) in
  match d_obj d with
  | OConst true v => CVal (y_const q v)
  | OConst false _ => CVal (YIdent q)
  | OFunc g => if g then NoC else CVal (YIdent q)
  | OVar => CVal (YAddr q)
  | OType _ g i =>
      if g then NoC else
      match i with
      | None => CTyp q None
      | Some it => if y_skip_iface it then NoC
                   else CTyp q (Some (y_wrap (y_prefix (pk_ipath p)) (d_name d) it, it))
      end
  end.

Definition y_vals (p : pkg) : list (str * yexpr) :=
  flat_map (fun d => match y_classify p d with CVal e => [(d_name d, e)] | _ => [] end) (pk_decls p).

Definition y_typs (p : pkg) : list (str * str) :=
  flat_map (fun d => match y_classify p d with CTyp q _ => [(d_name d, q)] | _ => [] end) (pk_decls p).

Definition y_wraps (p : pkg) : list (str * ywrap) :=
  flat_map (fun d => match y_classify p d with CTyp _ (Some (w, _)) => [(d_name d, w)] | _ => [] end) (pk_decls p).

(** interfaces that get a wrapper *)
Definition y_wrapped (p : pkg) : list iface :=
  flat_map (fun d => match y_classify p d with CTyp _ (Some (_, it)) => [it] | _ => [] end) (pk_decls p).

(** the rows are computed once and shared by the imports and by the compile verdict *)
Record yrows := mkRows { r_vals : list (str * yexpr); r_typs : list (str * str); r_wrapped : list iface }.
Definition y_rows (p : pkg) : yrows := mkRows (y_vals p) (y_typs p) (y_wrapped p).

Definition is_lit (e : yexpr) : bool := match e with YLit _ => true | _ => false end.

Definition y_has_lit_r (p : pkg) (R : yrows) : bool := existsb (fun kv => is_lit (snd kv)) (r_vals R).

(** packages marked by [qualify]: mentioned in an emitted wrapper method, path different from importPath *)
Definition y_qualified_r (p : pkg) (R : yrows) : list (str * str) :=
  flat_map (fun it => flat_map (fun m => filter (fun pn => negb (str_eqb (fst pn) (pk_ipath p))) (m_pkgs m))
                               (filter m_exported (i_methods it)))
           (r_wrapped R).

Definition y_own_import_r (p : pkg) (R : yrows) : bool := negb (is_nil (r_vals R)) || negb (is_nil (r_typs R)).

Definition reflect_s : str := s "reflect".
Definition constant_s : str := s "constant".
Definition token_s : str := s "token".
Definition go_constant_s : str := s "go/constant".
Definition go_token_s : str := s "go/token".

(** (path, name) of the imports of the generated file *)
Definition y_import_pairs_r (p : pkg) (R : yrows) : list (str * str) :=
  (if y_has_lit_r p R then [(go_constant_s, constant_s); (go_token_s, token_s)] else [])
  ++ (if y_own_import_r p R then [(pk_ipath p, pk_name p)] else [])
  ++ [(reflect_s, reflect_s)]
  ++ y_qualified_r p R.

Definition y_imports_r (p : pkg) (R : yrows) : list str := map fst (y_import_pairs_r p R).

(** genBuildTags and the tail of genContent (no Extractor.Tag; GOOS is neither android nor illumos) *)
Definition in_stdlib (path : str) : bool := negb (existsb (Ascii.eqb "."%char) path).

Definition y_tags (p : pkg) : str :=
  let base :=
    if in_stdlib (pk_ipath p) then
      if y_default_minor <=? pk_minor p then s "go1." ++ print_Z (pk_minor p)
      else s "go1." ++ print_Z (pk_minor p) ++ s ",!go1." ++ print_Z (pk_minor p + 1)
    else [] in
  let t := if str_eqb (pk_ipath p) (s "log/syslog") then base ++ s ",!windows,!nacl,!plan9" else base in
  match t with
  | c :: r => if Ascii.eqb c ","%char then r else t
  | [] => []
  end.

Definition y_symkey (p : pkg) : str := pk_ipath p ++ s "/" ++ pk_name p.

(* ---------- does the Go compiler accept the file? ---------- *)

(** two imports with different paths and the same name (gofmt merges equal paths) *)
Fixpoint import_clash (l : list (str * str)) : bool :=
  match l with
  | [] => false
  | (pa, na) :: r =>
      existsb (fun qn => negb (str_eqb (fst qn) pa) && str_eqb (snd qn) na) r || import_clash r
  end.

(** the import of the package itself is used by a binding, a type or a wrapper signature *)
Definition y_own_used_r (p : pkg) (R : yrows) : bool :=
  existsb (fun kv => match snd kv with
                     | YIdent q | YAddr q => str_eqb q (pk_name p ++ dot_s ++ fst kv)
                     | YLit _ => false
                     end) (r_vals R)
  || existsb (fun kv => str_eqb (snd kv) (pk_name p ++ dot_s ++ fst kv)) (r_typs R)
  || existsb (fun it => existsb (fun m => existsb (fun pn => str_eqb (fst pn) (pk_ipath p)) (m_pkgs m))
                                (filter m_exported (i_methods it)))
             (r_wrapped R).

Definition blank_s : str := s "_".
Definition recv_s : str := s "W".
Definition ivalue_s : str := s "IValue".

Definition meth_compiles (names : list str) (m : meth) : bool :=
  negb (existsb (fun a => str_eqb (p_name a) blank_s || str_eqb (p_name a) recv_s) (m_params m))
  && negb (existsb (fun a => str_eqb (p_name a) recv_s) (m_results m))
  && (negb (str_eqb (m_name m) string_s) || m_strok m)
  && negb (str_eqb (m_name m) ivalue_s)
  && negb (existsb (fun n => str_eqb (m_name m) (recv_s ++ n)) names)    (* field W<n> against method <m> *)
  && m_nameable m.

Definition iface_compiles (it : iface) : bool :=
  let ms := filter m_exported (i_methods it) in
  i_methodset it && forallb (meth_compiles (map m_name ms)) ms.

(** some binding refers to a locally provided replacement (an identifier without package qualifier) *)
Definition y_uses_restricted_r (p : pkg) (R : yrows) : bool :=
  existsb (fun kv => match snd kv with
                     | YIdent q | YAddr q => str_eqb q (pk_name p ++ fst kv)
                     | YLit _ => false
                     end) (r_vals R)
  || existsb (fun kv => str_eqb (snd kv) (pk_name p ++ fst kv)) (r_typs R).

Definition provided_locally (ipath : str) : bool := str_eqb ipath (s "os") || str_eqb ipath (s "log").

Definition y_compiles_r (p : pkg) (R : yrows) : bool :=
  negb (import_clash (y_import_pairs_r p R))
  && (negb (y_own_import_r p R) || y_own_used_r p R)
  && forallb iface_compiles (r_wrapped R)
  && (negb (y_uses_restricted_r p R) || provided_locally (pk_ipath p)).

Definition y_imports (p : pkg) : list str := y_imports_r p (y_rows p).
Definition y_compiles (p : pkg) : bool := y_compiles_r p (y_rows p).

Definition y_emit (p : pkg) : yout :=
  let R := y_rows p in
  mkYO (y_tags p) (y_symkey p) (y_imports_r p R) (r_vals R) (r_typs R) (y_wraps p) (y_compiles_r p R).

(** the same output with every declaration classified once (what the correspondence evaluates;
    equal to [y_emit], Proofs.y_emit_fast_eq) *)
Definition y_contribs (p : pkg) : list (decl * contrib) := map (fun d => (d, y_classify p d)) (pk_decls p).
Definition vals_of (cs : list (decl * contrib)) : list (str * yexpr) :=
  flat_map (fun dc => match snd dc with CVal e => [(d_name (fst dc), e)] | _ => [] end) cs.
Definition typs_of (cs : list (decl * contrib)) : list (str * str) :=
  flat_map (fun dc => match snd dc with CTyp q _ => [(d_name (fst dc), q)] | _ => [] end) cs.
Definition wraps_of (cs : list (decl * contrib)) : list (str * ywrap) :=
  flat_map (fun dc => match snd dc with CTyp _ (Some (w, _)) => [(d_name (fst dc), w)] | _ => [] end) cs.
Definition wrapped_of (cs : list (decl * contrib)) : list iface :=
  flat_map (fun dc => match snd dc with CTyp _ (Some (_, it)) => [it] | _ => [] end) cs.

Definition y_emit_fast (p : pkg) : yout :=
  let cs := y_contribs p in
  let R := mkRows (vals_of cs) (typs_of cs) (wrapped_of cs) in
  mkYO (y_tags p) (y_symkey p) (y_imports_r p R) (r_vals R) (r_typs R) (wraps_of cs) (y_compiles_r p R).

(* ------------------------------------------------------------------ *)
(** * G — the contract *)

Inductive gbind :=
| GValue (n : str)     (* the value of the package-level function / typed constant n *)
| GAddr (n : str)      (* the variable n itself (addressable) *)
| GConst (v : cval)    (* exactly this constant value *)
| GType (n : str)      (* the type n *)
| GSandbox (n : str).  (* the sandboxed replacement of n provided next to the generated file *)

Record gmeth := mkGM { gm_name : str; gm_params : list ty; gm_variadic : bool; gm_results : list ty }.

Record gout := mkGO {
  go_vals : list (str * gbind);
  go_typs : list (str * gbind);
  go_wraps : list (str * list gmeth)
}.

(** the symbols of the standard library that stdlib/restricted.go replaces on purpose (C13) *)
Definition g_sandboxed (ipath name : str) : bool :=
  (str_eqb ipath (s "os") && mem name [s "Exit"; s "FindProcess"])
  || (str_eqb ipath (s "log") && mem name [s "Default"; s "Fatal"; s "Fatalf"; s "Fatalln"; s "Logger"; s "New"]).

Inductive gcontrib := GNo | GVal (b : gbind) | GTyp (b : gbind) (w : option (list gmeth)).

Definition g_meth (m : meth) : gmeth :=
  mkGM (m_name m) (map p_ty (m_params m)) (m_variadic m) (map p_ty (m_results m)).

Definition g_wrap (i : iface) : list gmeth := map g_meth (filter m_exported (i_methods i)).

Definition g_classify (p : pkg) (d : decl) : gcontrib :=
  if negb (d_exported d) then GNo else
  let n := d_name d in
  let sb := g_sandboxed (pk_ipath p) n in
  match d_obj d with
  | OConst true v => GVal (GConst v)
  | OConst false _ => GVal (GValue n)
  | OFunc g => if g then GNo else GVal (if sb then GSandbox n else GValue n)
  | OVar => GVal (GAddr n)
  | OType _ g i =>
      if g then GNo else
      let b := if sb then GSandbox n else GType n in
      match i with
      | None => GTyp b None
      | Some it => if i_methodset it then GTyp b (Some (g_wrap it)) else GNo
      end
  end.

Definition g_vals (p : pkg) : list (str * gbind) :=
  flat_map (fun d => match g_classify p d with GVal b => [(d_name d, b)] | _ => [] end) (pk_decls p).
Definition g_typs (p : pkg) : list (str * gbind) :=
  flat_map (fun d => match g_classify p d with GTyp b _ => [(d_name d, b)] | _ => [] end) (pk_decls p).
Definition g_wraps (p : pkg) : list (str * list gmeth) :=
  flat_map (fun d => match g_classify p d with GTyp _ (Some w) => [(d_name d, w)] | _ => [] end) (pk_decls p).

Definition g_emit (p : pkg) : gout := mkGO (g_vals p) (g_typs p) (g_wraps p).

(* ------------------------------------------------------------------ *)
(** * What a generated row denotes (reading of the Go expression in the context of the declaration) *)

(** conversion of an untyped constant to its default type by [reflect.ValueOf(pkg.C)] keeps the value *)
Definition default_exact (v : cval) : bool :=
  match v with CBool _ => true | CComplex e => e | _ => false end.

Definition denote_val (p : pkg) (d : decl) (e : yexpr) : gbind :=
  let n := d_name d in
  match e with
  | YIdent q =>
      if str_eqb q (pk_name p ++ dot_s ++ n) then
        match d_obj d with
        | OConst true v => if default_exact v then GConst v else GValue n
        | _ => GValue n
        end
      else if str_eqb q (pk_name p ++ n) then GSandbox n
      else GValue q
  | YAddr q => if str_eqb q (pk_name p ++ dot_s ++ n) then GAddr n else GValue q
  | YLit (LString q) => match parse_str q with Some x => GConst (CString x) | None => GValue [] end
  | YLit (LInt ds) => match parse_Z ds with Some z => GConst (CInt z) | None => GValue [] end
  | YLit (LFloat a b) => GConst (CFloat a b)
  | YLit LFail => GValue []
  end.

Definition denote_typ (p : pkg) (d : decl) (q : str) : gbind :=
  let n := d_name d in
  if str_eqb q (pk_name p ++ dot_s ++ n) then GType n
  else if str_eqb q (pk_name p ++ n) then GSandbox n
  else GValue q.

(** Go syntax of a parameter declaration: a variadic parameter of type []T is written "name ...T" *)
Definition go_param (name : str) (t : ty) (variadic_last : bool) : option (str * str) :=
  if variadic_last then
    match t with TSlice e => Some (name, s "..." ++ tstring e) | TBase _ => None end
  else Some (name, tstring t).

Fixpoint last_flags (n : nat) : list bool :=
  match n with O => [] | S O => [true] | S m => false :: last_flags m end.

(** the wrapper method [w] forwards the interface method [m]:
    same name; parameter list = some names with exactly m's parameter types, the last one
    variadic iff m is; result list = m's; the body calls the field W<name> with the parameters
    in order, spreading the last one iff m is variadic, and returns the results iff there are any. *)
Definition forwards_meth (w : ymeth) (m : meth) : Prop :=
  ym_name w = m_name m
  /\ length (ym_params w) = length (m_params m)
  /\ (forall j a t pr, nth_error (ym_params w) j = Some (a, t) -> nth_error (m_params m) j = Some pr ->
        go_param a (p_ty pr) (m_variadic m && (S j =? length (m_params m))%nat) = Some (a, t)
        /\ nth_error (ym_args w) j = Some (if m_variadic m && (S j =? length (m_params m))%nat then a ++ s "..." else a))
  /\ length (ym_args w) = length (m_params m)
  /\ map snd (ym_results w) = map (fun r => tstring (p_ty r)) (m_results m)
  /\ ym_ret w = negb (is_nil (m_results m)).

Definition forwards (w : ywrap) (i : iface) : Prop :=
  Forall2 forwards_meth (yw_methods w) (filter m_exported (i_methods i)).

(** well-formedness guaranteed by go/types: a variadic signature ends with a slice *)
Definition wf_meth (m : meth) : bool :=
  negb (m_variadic m) ||
  match last_opt (m_params m) with Some pr => match p_ty pr with TSlice _ => true | _ => false end | None => false end.

Definition wf_iface (i : iface) : bool := forallb wf_meth (i_methods i).

(* ------------------------------------------------------------------ *)
(** * Side conditions = complements of the known-finding regions *)

Fixpoint pow2b_fuel (f : nat) (d : Z) : bool :=
  match f with
  | O => false
  | S f' => if d =? 1 then true else if Z.even d then pow2b_fuel f' (d / 2) else false
  end.
(** the denominator is a power of two *)
Definition dyadic (d : Z) : bool := (0 <? d) && pow2b_fuel (Z.to_nat (Z.log2 d) + 1) d.

Definition is_some {A} (o : option A) : bool := match o with Some _ => true | None => false end.

(** float constants: the denominator is a power of two (and the exponent search of [fix_float]
    succeeds, which the correspondence checks on every generated constant) *)
Definition const_side (v : cval) : bool :=
  match v with
  | CFloat a d => dyadic d && is_some (fix_float a d)
  | CComplex e => e
  | _ => true
  end.

(** the declaration is outside every region where Y and G are known to differ *)
Definition decl_side (p : pkg) (d : decl) : bool :=
  negb (d_exported d) ||
  match d_obj d with
  | OConst true v => const_side v && negb (y_is_restricted p (d_name d))
  | OConst false _ => negb (y_is_restricted p (d_name d))
  | OFunc _ => Bool.eqb (y_is_restricted p (d_name d)) (g_sandboxed (pk_ipath p) (d_name d))
  | OVar => negb (y_is_restricted p (d_name d))
  | OType _ _ i =>
      Bool.eqb (y_is_restricted p (d_name d)) (g_sandboxed (pk_ipath p) (d_name d))
      && match i with None => true | Some it => Bool.eqb (y_skip_iface it) (negb (i_methodset it)) end
  end.

Definition pkg_side (p : pkg) : bool := forallb (decl_side p) (pk_decls p).

(* ------------------------------------------------------------------ *)
(** * Agreement of a generated row with the contract, decidable form *)

Definition cval_sameb (a b : cval) : bool :=
  match a, b with
  | CBool x, CBool y => Bool.eqb x y
  | CString x, CString y => str_eqb x y
  | CInt x, CInt y => x =? y
  | CFloat n d, CFloat n' d' => req (n, d) (n', d')      (* the same rational number *)
  | CComplex x, CComplex y => Bool.eqb x y
  | _, _ => false
  end.

Definition gbind_sameb (a b : gbind) : bool :=
  match a, b with
  | GValue x, GValue y => str_eqb x y
  | GAddr x, GAddr y => str_eqb x y
  | GConst x, GConst y => cval_sameb x y
  | GType x, GType y => str_eqb x y
  | GSandbox x, GSandbox y => str_eqb x y
  | _, _ => false
  end.

(** what the rows generated for [d] denote is what the contract prescribes for [d] *)
Definition decl_agreeb (p : pkg) (d : decl) : bool :=
  match y_classify p d, g_classify p d with
  | NoC, GNo => true
  | CVal e, GVal b => gbind_sameb (denote_val p d e) b
  | CTyp q w, GTyp b gw => gbind_sameb (denote_typ p d q) b && Bool.eqb (is_some w) (is_some gw)
  | _, _ => false
  end.

Definition pkg_agreeb (p : pkg) : bool := forallb (decl_agreeb p) (pk_decls p) && y_compiles p.

Definition wf_pkg (p : pkg) : bool :=
  forallb (fun d => match d_obj d with
                    | OType _ _ (Some it) => wf_iface it
                    | _ => true
                    end) (pk_decls p).

(** The property at full strength: for every package, every generated row denotes what the contract
    prescribes for its declaration, the same names are bound, every wrapper forwards, and the
    generated file compiles. *)
Definition c18_statement : Prop :=
  forall p, wf_pkg p = true ->
    forallb (decl_agreeb p) (pk_decls p) = true
    /\ map fst (y_vals p) = map fst (g_vals p)
    /\ map fst (y_typs p) = map fst (g_typs p)
    /\ map fst (y_wraps p) = map fst (g_wraps p)
    /\ (forall name i, wf_iface i = true -> forwards (y_wrap (y_prefix (pk_ipath p)) name i) i)
    /\ y_compiles p = true.

(** Example packages used by the refutation theorems (each replayed on the real tool by the harness). *)
Definition ex_pkg (name ipath : str) (ds : list decl) : pkg := mkPkg name ipath ipath 23 ds.

Definition ex_anchor : decl := mkDecl (s "Anchor") true (OFunc false).
Definition ex_int_t : ty := TBase (s "int").
Definition ex_string_t : ty := TBase (s "string").
Definition ex_error_t : ty := TBase (s "error").
Definition ex_meth (name : str) (ps : list param) (variadic : bool) (rs : list param) (strok : bool) : meth :=
  mkMeth name true ps variadic rs [] strok true.
Definition ex_iface_decl (name : str) (ms : list meth) (nemb : nat) (mset : bool) : decl :=
  mkDecl name true (OType false false (Some (mkIface ms nemb mset))).

(** const F = 0.1 *)
Definition ex_float : pkg :=
  ex_pkg (s "k") (s "vt/k") [ex_anchor; mkDecl (s "F") true (OConst true (CFloat 1 10))].
(** math.Pi *)
Definition ex_pi_num : Z := 314159265358979323846264338327950288419716939937510582097494459.
Definition ex_pi : pkg :=
  ex_pkg (s "math") (s "math") [mkDecl (s "Abs") true (OFunc false); mkDecl (s "Pi") true (OConst true (CFloat ex_pi_num (10 ^ 62)))].
(** const Z = 0.1i *)
Definition ex_complex : pkg :=
  ex_pkg (s "k") (s "vt/k") [ex_anchor; mkDecl (s "Z") true (OConst true (CComplex false))].
(** package log (not the standard one); func Fatal(v ...any) *)
Definition ex_restricted : pkg :=
  ex_pkg (s "log") (s "vt/log") [ex_anchor; mkDecl (s "Fatal") true (OFunc false)].
(** type Visitor interface { Visit(_ int, x string) error } *)
Definition ex_blank : pkg :=
  ex_pkg (s "k") (s "vt/k")
    [ex_anchor; ex_iface_decl (s "Visitor")
       [ex_meth (s "Visit") [mkParam (s "_") ex_int_t; mkParam (s "x") ex_string_t] false [mkParam [] ex_error_t] false] 0 true].
(** type Str interface { String(x int) (string, error) } *)
Definition ex_string_shape : pkg :=
  ex_pkg (s "k") (s "vt/k")
    [ex_anchor; ex_iface_decl (s "Str")
       [ex_meth (s "String") [mkParam (s "x") ex_int_t] false [mkParam [] ex_string_t; mkParam [] ex_error_t] false] 0 true].
(** type Con interface { ~string; String() string } *)
Definition ex_constraint : pkg :=
  ex_pkg (s "k") (s "vt/k")
    [ex_anchor; ex_iface_decl (s "Con") [ex_meth (s "String") [] false [mkParam [] ex_string_t] true] 1 false].
(** type Empty interface{}; type Emb interface{ Empty } *)
Definition ex_embedded_empty : pkg :=
  ex_pkg (s "k") (s "vt/k")
    [ex_anchor; ex_iface_decl (s "Emb") [] 1 true; ex_iface_decl (s "Empty") [] 0 true].
(** a package of untyped numeric and string constants only *)
Definition ex_consts_only : pkg :=
  ex_pkg (s "k") (s "vt/k") [mkDecl (s "A") true (OConst true (CInt 1)); mkDecl (s "B") true (OConst true (CString (s "x")))].
(** package token (not go/token) with an untyped constant *)
Definition ex_token : pkg :=
  ex_pkg (s "token") (s "vt/token") [ex_anchor; mkDecl (s "LowestPrec") true (OConst true (CInt 0))].

(** the sealed-interface idiom: type node interface{ isNode() }; type Expr interface{ node };
    type Stmt interface{ node; isStmt() } -- ordinary interfaces whose method set is non-empty and entirely unexported *)
Definition ex_sealed_meth (name : str) : meth := mkMeth name false [] false [] [] false true.
Definition ex_sealed : pkg :=
  ex_pkg (s "k") (s "vt/k")
    [ex_anchor;
     ex_iface_decl (s "Expr") [ex_sealed_meth (s "isNode")] 1 true;
     ex_iface_decl (s "Stmt") [ex_sealed_meth (s "isNode"); ex_sealed_meth (s "isStmt")] 1 true;
     mkDecl (s "node") false (OType false false (Some (mkIface [ex_sealed_meth (s "isNode")] 0 true)))].

(** a package inside every side condition, with one declaration of each interesting shape *)
Definition ex_good_iface : iface :=
  mkIface [ex_meth (s "Printf") [mkParam (s "format") ex_string_t; mkParam (s "args") (TSlice (TBase (s "interface{}")))] true
                   [mkParam (s "n") ex_int_t; mkParam (s "err") ex_error_t] false;
           ex_meth (s "String") [] false [mkParam [] ex_string_t] true;
           mkMeth (s "hidden") false [mkParam [] ex_int_t] false [] [] false true] 0 true.
Definition ex_good : pkg :=
  ex_pkg (s "k") (s "vt/k")
    [ex_anchor;
     mkDecl (s "Big") true (OConst true (CInt (2 ^ 100)));
     mkDecl (s "Gen") true (OFunc true);
     mkDecl (s "Half") true (OConst true (CFloat 5 8));
     mkDecl (s "Name") true (OConst true (CString (s "x")));
     mkDecl (s "P") true (OType false false (Some ex_good_iface));
     mkDecl (s "T") true (OType false false None);
     mkDecl (s "Typed") true (OConst false (CBool false));
     mkDecl (s "V") true OVar;
     mkDecl (s "hidden") false OVar].
