(** C08 — the frame slot of a function literal (interp/run.go getFunc).

    Evaluating a function literal (the exec closure of getFunc) reads the literal's frame slot
    ([o := getFrame(f,l).data[i]]), builds the function value and stores it into the slot. The
    function value is a reflect.MakeFunc wrapper which, when a call of it ENDS, writes [o] back into
    that slot of the DEFINING frame [f] ([getFrame(f,l).data[i] = o]) — from whatever goroutine the
    call ran in. A go statement  go func(..){..}(..)  reads the slot right after the evaluation.

    Model: main runs the operations [LEval j; LCall j] of iterations j = 0, 1, ...; the goroutine
    started by [LCall j] (thread id [S j]; main is thread 0) ends with one step, the write-back.
    [wb = true] is the code today, [wb = false] the design without the write-back.
    Definitions only; proofs in Conc/Proofs.v. *)
From Coq Require Import List Arith Bool.
Import ListNotations.

Inductive lop := LEval (j : nat) | LCall (j : nat).

Record lstate := {
  slot : option nat;                 (* closure in the literal's slot; None = the zero reflect.Value *)
  saved : list (option nat);         (* saved[c] = the [o] captured when closure c was created *)
  mainops : list lop;
  calls : list (nat * option nat);   (* (iteration, closure its go statement called); None = call of nil function *)
  ended : list nat                   (* iterations whose goroutine has ended *)
}.

Definition called_by (st : lstate) (j : nat) : option (option nat) :=
  option_map snd (find (fun c => Nat.eqb (fst c) j) (calls st)).

Definition lit_step (wb : bool) (st : lstate) (t : nat) : lstate :=
  match t with
  | O =>
      match mainops st with
      | [] => st
      | LEval j :: r =>
          {| slot := Some j; saved := saved st ++ [slot st]; mainops := r; calls := calls st; ended := ended st |}
      | LCall j :: r =>
          {| slot := slot st; saved := saved st; mainops := r; calls := calls st ++ [(j, slot st)]; ended := ended st |}
      end
  | S j =>
      match called_by st j with
      | Some (Some c) =>
          if existsb (Nat.eqb j) (ended st) then st
          else {| slot := if wb then nth c (saved st) None else slot st;
                  saved := saved st; mainops := mainops st; calls := calls st; ended := j :: ended st |}
      | _ => st       (* not started yet, or the call crashed *)
      end
  end.

Definition lit_run (wb : bool) (sched : list nat) (st : lstate) : lstate :=
  fold_left (lit_step wb) sched st.

(** the loop  for j := 0; j < n; j++ { go func(..){..}(..) } *)
Definition lit_prog (from n : nat) : list lop := flat_map (fun j => [LEval j; LCall j]) (seq from n).

Definition lit_init (n : nat) : lstate :=
  {| slot := None; saved := []; mainops := lit_prog 0 n; calls := []; ended := [] |}.

(** every go statement called the closure evaluated in its own iteration *)
Definition calls_ok (cs : list (nat * option nat)) : Prop := forall j c, In (j, c) cs -> c = Some j.

(** main's remaining operations are well formed for the current slot content *)
Fixpoint ops_ok (sl : option nat) (ops : list lop) : Prop :=
  match ops with
  | [] => True
  | LEval j :: r => ops_ok (Some j) r
  | LCall j :: r => sl = Some j /\ ops_ok sl r
  end.
