(** C08 — the select statement: the two-worker witness program.

    main creates two channels chA, chB, puts 7 into chA and 9 into chB and starts two workers
    (the same function, hence the same select statement, statement id 0); worker A is given chA only,
    worker B is given chB only. Each worker executes  select { case x = <-own: }  once. *)
From Coq Require Import List ZArith Bool Arith.
From Verif Require Import Conc.Machine.
Import ListNotations.

(** worker: slot 0 = its private channel (argument), slot 1 = the received value (local) *)
Definition worker_body : list instr := [ISelect 0 [(ESlot 0 0, 1)]].

Definition witness_prog : prog := [(1, worker_body)].

Definition main_body : list instr :=
  [ IMake 0 0; IMake 0 1;
    ISend (ESlot 0 0) (EConst (VInt 7));
    ISend (ESlot 0 1) (EConst (VInt 9));
    IGo 0 [ESlot 0 0];
    IGo 0 [ESlot 0 1] ].

Definition witness_init : state :=
  {| frames := [{| anc := None; data := [VNil; VNil] |}];
     chans := [];
     gens := [[]];
     threads := [{| tframe := 0; tcode := main_body; tphase := PRun |}] |}.

(** main runs to completion (6 steps); then: A fills, B fills, A snapshots, A fires, B snapshots, B fires. *)
Definition witness_sched : list tid := [0; 0; 0; 0; 0; 0; 1; 2; 1; 1; 2; 2].

(** a schedule without interleaving inside the statement: A completely, then B *)
Definition serial_sched : list tid := [0; 0; 0; 0; 0; 0; 1; 1; 1; 2; 2; 2].

(** value in slot 1 of the frame of thread t *)
Definition received (s : state) (t : tid) : val :=
  match nth_error (threads s) t with
  | Some th => slot_of (frames s) (tframe th) 1
  | None => VNil
  end.

(** the events in which thread t receives on a channel other than the one it designated *)
Definition crosstalk_events (tr : list event) : list event :=
  filter (fun e => negb (recv_ok e)) tr.
