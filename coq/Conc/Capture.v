(** C08 — the tie between the machine model and the source text.

    [gen.Captured_gen] is regenerated on every run by the translator tr-capture from interp/*.go:
    one row per write to a variable that a run-time closure (a function literal with a [*frame]
    parameter, generated once per statement and executed by every goroutine reaching the statement)
    captured from its generator. Such a variable IS the generated state of Conc/Machine.v.

    [allowlist]: rows that were reviewed and judged benign (each with its reason).
    [open_select_cases]: the rows of the known finding (the [cases] vector of [_select]).
    Any other row makes [captured_writes_reviewed] false: a code change introduced a new write to
    per-statement state, the theorems of Props/C08.v no longer check, and the harness searches for a race. *)
From Coq Require Import String List Bool.
From Verif Require Import Conc.Machine.
From Verif Require Import gen.Captured_gen.
Import ListNotations.
Open Scope string_scope.

Definition cap_key := (string * string * string * string)%type.   (* generator, variable, kind, lock *)

Definition key_of (r : cap_row) : cap_key := (cap_gen r, cap_var r, cap_kind r, cap_lock r).

Definition key_eqb (a b : cap_key) : bool :=
  let '(a1, a2, a3, a4) := a in
  let '(b1, b2, b3, b4) := b in
  String.eqb a1 b1 && String.eqb a2 b2 && String.eqb a3 b3 && String.eqb a4 b4.

Definition key_mem (k : cap_key) (l : list cap_key) : bool := existsb (key_eqb k) l.

(** Reviewed and benign: none. (At f4124c4 no run-time closure writes captured state except [_select].) *)
Definition allowlist : list cap_key := [].

(** The known finding: [_select] allocates [cases] when the closure is generated and every executing
    goroutine writes [cases[nbClause] = f.done] (under the READ lock of its own frame, which orders
    nothing between goroutines) and [cases[i].Chan / cases[i].Send = ...] (no lock). *)
Definition open_select_cases : list cap_key :=
  [ ("_select", "cases", "field", "none");
    ("_select", "cases", "index", "rlock:f.mutex") ].

(** Second known finding: the reflect.MakeFunc wrapper built by [getFunc] writes the function literal's
    slot of the DEFINING frame back when a call ends ([getFrame(f, l).data[i] = o], under f's lock) — from
    whatever goroutine ran the call; the next evaluation of the literal reads that slot without the lock. *)
Definition open_getfunc_writeback : list cap_key :=
  [ ("getFunc", "f", "frame-writeback", "lock:f.mutex") ].

Definition row_reviewed (r : cap_row) : bool :=
  key_mem (key_of r) allowlist || key_mem (key_of r) open_select_cases
  || key_mem (key_of r) open_getfunc_writeback.

Definition captured_writes_reviewed (rows : list cap_row) : bool := forallb row_reviewed rows.

(** the premise of isolation: every write to generated state is allow-listed (benign) *)
Definition captured_readonly (rows : list cap_row) : bool :=
  forallb (fun r => key_mem (key_of r) allowlist) rows.

(** which variant of the select statement the source text is *)
Definition variant_of (rows : list cap_row) : variant :=
  if existsb (fun r => key_mem (key_of r) open_select_cases) rows then Shared else PerExec.

Definition source_variant : variant := variant_of captured_gen.

(** does the source write a function literal's slot back from the goroutine that ran the call? *)
Definition writeback_of (rows : list cap_row) : bool :=
  existsb (fun r => key_mem (key_of r) open_getfunc_writeback) rows.

Definition source_writeback : bool := writeback_of captured_gen.
