(** C08 — outcome models of the harness's program templates.

    G: what Go prescribes = the closed form of each template's output (every template is a data-race-free
       program whose output does not depend on the schedule), and no data race report.
    Y: what the interpreter's mechanism accepts. It depends on the select variant the SOURCE is in
       (Conc/Capture.v, read from interp/run.go by tr-capture on every run):
       - a select statement executed by one goroutine at a time, and everything else: as G;
       - ONE select statement executed concurrently by >= 2 goroutines on private channels ([TSelPriv], n >= 2)
         in variant [Shared]: the vector of channel operands is shared, so a worker may receive on another
         worker's channels (Conc/Proofs.v [select_shared_refuted]); the per-worker figures are then not
         determined. Y accepts every well-formed result (each value is received at most once) and any race
         report that involves the closure of [_select]; in variant [PerExec] it accepts exactly G's outcome;
       - a send clause whose value is an expression ([TSelSendX]): the operand sub-expression is not
         evaluated (slot still zero), every value sent is [0 + b].
    Definitions only. *)
From Coq Require Import List ZArith Bool Arith NArith Lia.
From Verif Require Import Conc.Machine Conc.Capture.
Import ListNotations.
Local Open Scope Z_scope.

Inductive tpl := TPipeline | TFanout | TMutex | TProdCons | TSelMain | TSelPriv | TClosure
               | THostCall | TMulti | TSelSend | TSelSendX | TGoLit | TOps | TOpsLazy.

Record params := mkparams { p_tpl : tpl; p_n : nat; p_k : nat; p_a : Z; p_b : Z }.

Definition zseq (from len : nat) : list Z := map Z.of_nat (seq from len).
Definition zsum (l : list Z) : Z := fold_right Z.add 0 l.
Definition fz (a b x : Z) : Z := (x * a + b) mod 1009.

Fixpoint insert_z (x : Z) (l : list Z) : list Z :=
  match l with
  | [] => [x]
  | y :: r => if x <=? y then x :: l else y :: insert_z x r
  end.
Definition sort_z (l : list Z) : list Z := fold_right insert_z [] l.

(** * G: closed forms *)

Definition g_pipeline (n k : nat) (a b : Z) : list Z :=
  map (fun x => fold_left (fun v j => (v * (a + j) + (b + j)) mod 1009) (zseq 0 n) x) (zseq 1 k).

(** len(strconv.Itoa(x)) for 0 <= x < 10000 *)
Definition ndigits (x : Z) : Z := if x <? 10 then 1 else if x <? 100 then 2 else if x <? 1000 then 3 else 4.

Definition g_fanout (k : nat) (a b : Z) : list Z :=
  sort_z (map (fun j => let acc := zsum (map (fun i => (j * a + b + i) mod 1009) [0; 1; 2]) in
                        acc + 10000 * ndigits acc) (zseq 1 k)).

Definition g_mutex (n k : nat) (a : Z) : list Z :=
  let locals := map (fun id => Z.of_nat k * (id + a)) (zseq 0 n) in
  zsum locals :: locals.

Definition g_prodcons (k : nat) (a b : Z) : list Z :=
  [zsum (map (fz a b) (zseq 1 k)); Z.of_nat k].

Definition g_selmain (n k : nat) (a b : Z) : list Z :=
  let ids c := filter (fun id => Z.eqb (id mod 2) c) (zseq 0 n) in
  let s c := zsum (map (fun id => zsum (map (fun x => fz a b (id * Z.of_nat k + x)) (zseq 1 k))) (ids c)) in
  let cnt c := Z.of_nat k * Z.of_nat (length (ids c)) in
  [s 0; cnt 0; s 1; cnt 1].

Definition g_selpriv (n k : nat) (a b : Z) : list Z :=
  let sum := zsum (map (fz a b) (zseq 1 k)) + zsum (map (fz b a) (zseq 1 k)) in
  flat_map (fun _ => [sum; 2 * Z.of_nat k; 0]) (seq 0 n).

Definition g_closure (n k : nat) (a : Z) : list Z :=
  map (fun id => zsum (map (fun x => x + id * a + x + 1) (zseq 0 k))) (zseq 0 n).

Definition g_hostcall (n k : nat) (a b : Z) : list Z :=
  map (fun x => zsum (map (fun i => fz a b (x + i)) (zseq 0 k))) (zseq 0 n).

Definition g_multi (n k : nat) (a b : Z) : list Z :=
  flat_map (fun i => g_prodcons k (a + i) b) (zseq 0 n).

Definition g_selsend (n k : nat) (a b : Z) : list Z :=
  [zsum (map (fz a b) (zseq 1 (k * n))); Z.of_nat (k * n)].

Definition g_selsendx (n k : nat) (a b : Z) : list Z :=
  [zsum (map (fun x => x * a + b) (zseq 1 (k * n))); Z.of_nat (k * n)].

Definition g_golit (n k : nat) (a b : Z) : list Z :=
  map (fun id => zsum (map (fun x => x + id * a) (zseq 0 k)) + b) (zseq 0 n).

(** operand templates (harness/c08_ops.go): N goroutines run the SAME function — the same call sites, statements
    and generated closures — on per-goroutine operands (interface values, method values, closures, structs, arrays,
    slices, maps, dynamic types, composite literals, deferred calls, ranges, ...); worker [id] computes this figure
    from ITS operand, whatever the mechanism. A closure that keeps an operand per statement instead of per execution
    makes a worker compute another worker's figure. *)
Definition g_ops (n k : nat) (a b : Z) : list Z :=
  map (fun id => zsum (map (fun x => (id * a + b + x) mod 1009) (zseq 1 k))) (zseq 0 n).

Definition g_expected (p : params) : list Z :=
  let n := p_n p in let k := p_k p in let a := p_a p in let b := p_b p in
  match p_tpl p with
  | TPipeline => g_pipeline n k a b
  | TFanout => g_fanout k a b
  | TMutex => g_mutex n k a
  | TProdCons => g_prodcons k a b
  | TSelMain => g_selmain n k a b
  | TSelPriv => g_selpriv n k a b
  | TClosure => g_closure n k a
  | THostCall => g_hostcall n k a b
  | TMulti => g_multi n k a b
  | TSelSend => g_selsend n k a b
  | TSelSendX => g_selsendx n k a b
  | TGoLit => g_golit n k a b
  | TOps => g_ops n k a b
  | TOpsLazy => g_ops n k a b
  end.

(** * Y *)

(** [TSelSendX]: the operand [x*a] of the send clause is never computed: 0 + b is sent every time *)
Definition y_selsendx (n k : nat) (b : Z) : list Z :=
  [Z.of_nat (k * n) * b; Z.of_nat (k * n)].

Definition y_expected (p : params) : list Z :=
  match p_tpl p with
  | TSelSendX => y_selsendx (p_n p) (p_k p) (p_b p)
  | _ => g_expected p
  end.

(** the statement is shared: one select statement, at least two goroutines inside it *)
Definition select_is_shared (p : params) : bool :=
  match p_tpl p with TSelPriv => (2 <=? p_n p)%nat | _ => false end.

Fixpoint list_z_eqb (a b : list Z) : bool :=
  match a, b with
  | [], [] => true
  | x :: a', y :: b' => Z.eqb x y && list_z_eqb a' b'
  | _, _ => false
  end.

(** well-formed result of [TSelPriv] under cross-talk: triples (sum, count, foreign), nothing negative,
    every value sent (2k per worker) is received at most once *)
Fixpoint triples_ok (l : list Z) : option Z :=   (* Some (total count) *)
  match l with
  | [] => Some 0
  | s :: c :: f :: r =>
      if (0 <=? s) && (0 <=? c) && (0 <=? f) && (f <=? c)
      then match triples_ok r with Some t => Some (t + c) | None => None end
      else None
  | _ => None
  end.

Definition selpriv_wellformed (p : params) (out : list Z) : bool :=
  Nat.eqb (length out) (3 * p_n p) &&
  match triples_ok out with
  | Some total => total <=? 2 * Z.of_nat (p_k p) * Z.of_nat (p_n p)
  | None => false
  end.

(** a function literal is re-evaluated while goroutines started from its earlier evaluations end *)
Definition literal_reevaluated (p : params) : bool :=
  match p_tpl p with TGoLit => (2 <=? p_n p)%nat | _ => false end.

(** well-formed result of [TGoLit] when go statements may call a stale closure (Conc/Proofs.v
    [getfunc_writeback_refuted]): every goroutine still writes its own entry (the index is an argument),
    with the captured [base] of SOME iteration *)
Definition golit_wellformed (p : params) (out : list Z) : bool :=
  Nat.eqb (length out) (p_n p) &&
  forallb (fun x => existsb (Z.eqb x) (g_golit (p_n p) (p_k p) (p_a p) (p_b p))) out.

(** observed outcome of one run: terminated normally with integer output; the output; a race report involving
    the closure of [_select]; a race report on getFunc's write-back; any other race report; the host process
    died with "call of nil function" *)
Record observed := mkobs { o_ok : bool; o_out : list Z; o_race_select : bool; o_race_getfunc : bool;
                           o_race_other : bool; o_crash_nilcall : bool }.

Definition strict (p : params) (o : observed) (expected : list Z) : bool :=
  o_ok o && negb (o_race_select o) && negb (o_race_getfunc o) && negb (o_race_other o)
  && negb (o_crash_nilcall o) && list_z_eqb (o_out o) expected.

(** an operand cell whose statement materialises a reflect type at run time ([itype.refType] fills its cache
    without a lock when several goroutines execute a type-switch clause with an interface case for the first time) *)
Definition lazy_type_cell (p : params) : bool := match p_tpl p with TOpsLazy => true | _ => false end.

(** [v]: the select variant, [wb]: getFunc's write-back — both read from the source (Conc/Capture.v) *)
Definition y_accepts (v : variant) (wb : bool) (p : params) (o : observed) : bool :=
  if literal_reevaluated p && wb then
    negb (o_race_select o) && negb (o_race_other o)
    && (o_crash_nilcall o || (o_ok o && golit_wellformed p (o_out o)))
  else if lazy_type_cell p then
    (* the output is right; a race report on the type cache (neither in _select nor in getFunc) may appear *)
    o_ok o && negb (o_race_select o) && negb (o_race_getfunc o) && negb (o_crash_nilcall o)
    && list_z_eqb (o_out o) (y_expected p)
  else match v, select_is_shared p with
       | Shared, true => o_ok o && negb (o_race_getfunc o) && negb (o_race_other o) && selpriv_wellformed p (o_out o)
       | _, _ => strict p o (y_expected p)
       end.

Definition g_accepts (p : params) (o : observed) : bool := strict p o (g_expected p).
