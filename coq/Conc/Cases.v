(** Evaluation of the C08 outcome models on the cases written by the harness.
    [c08_mis_y]: ids of the runs whose observed outcome the mechanism model Y (in the variant the source
                 is in today, see Conc/Capture.v) does not accept;
    [c08_mis_g]: ids of the runs where the compiled Go program's output differs from G's closed form. *)
From Coq Require Import List ZArith Bool NArith.
From Verif Require Import Conc.Machine Conc.Capture Conc.Model.
Import ListNotations.

(* id, parameters, observed outcome of the implementation, reference ok, reference output *)
Definition c08_case := (N * params * observed * bool * list Z)%type.

Definition c08_mis_y (cs : list c08_case) : list N :=
  flat_map (fun '(id, p, o, _, _) =>
    if y_accepts source_variant source_writeback p o then [] else [id]) cs.

Definition c08_mis_g (cs : list c08_case) : list N :=
  flat_map (fun '(id, p, _, rok, rout) =>
    if rok && list_z_eqb rout (g_expected p) then [] else [id]) cs.
