(** C08 — proofs about the machine of Conc/Machine.v. All statements quantify over every schedule
    (a list of thread ids of any length) and are proved by induction over it. *)
From Coq Require Import List ZArith Bool Arith Lia.
From Verif Require Import Conc.Machine Conc.Select Conc.Capture Conc.Closure.
From Verif Require Import gen.Captured_gen.
Import ListNotations.

(* ------------------------------------------------------------------ *)
(** * upd *)

Lemma length_upd {A} (l : list A) n x : length (upd l n x) = length l.
Proof. revert n; induction l as [|h r IH]; intros [|n]; simpl; auto. Qed.

Lemma nth_error_upd_same {A} (l : list A) n x :
  n < length l -> nth_error (upd l n x) n = Some x.
Proof.
  revert n; induction l as [|h r IH]; intros [|n]; simpl; intros H; try lia; auto.
  apply IH; lia.
Qed.

Lemma nth_error_upd_other {A} (l : list A) n m x :
  m <> n -> nth_error (upd l n x) m = nth_error l m.
Proof.
  revert n m; induction l as [|h r IH]; intros [|n] [|m]; simpl; intros H; auto; try congruence.
Qed.

Lemma nth_error_upd_some {A} (l : list A) n m x y :
  nth_error (upd l n x) m = Some y -> (m = n /\ y = x) \/ (m <> n /\ nth_error l m = Some y).
Proof.
  intros H. destruct (Nat.eq_dec m n) as [->|Hne].
  - left. split; auto.
    assert (Hl : n < length l).
    { assert (Hn : nth_error (upd l n x) n <> None) by congruence.
      apply nth_error_Some in Hn. rewrite length_upd in Hn. exact Hn. }
    rewrite nth_error_upd_same in H by exact Hl. congruence.
  - right. split; auto. rewrite nth_error_upd_other in H by exact Hne. exact H.
Qed.

Lemma map_upd_inv {A B} (f : A -> B) (l : list A) n x y :
  nth_error l n = Some y -> f x = f y -> map f (upd l n x) = map f l.
Proof.
  revert n; induction l as [|h r IH]; intros [|n]; simpl; intros H E; auto.
  - inversion H; subst. now rewrite E.
  - f_equal. eapply IH; eauto.
Qed.

(* ------------------------------------------------------------------ *)
(** * frames: writes keep the anc table; getFrame stays inside the ancestor chain *)

Lemma ancs_wr_at fs g i x : ancs (wr_at fs g i x) = ancs fs.
Proof.
  unfold wr_at, ancs. destruct (nth_error fs g) as [fr|] eqn:E; auto.
  eapply map_upd_inv; eauto.
Qed.

Lemma ancs_wr fs f l i x : ancs (wr fs f l i x) = ancs fs.
Proof. unfold wr. destruct (get_frame (ancs fs) f l); auto using ancs_wr_at. Qed.

Lemma length_wr_at fs g i x : length (wr_at fs g i x) = length fs.
Proof. unfold wr_at. destruct (nth_error fs g); auto using length_upd. Qed.

Lemma length_wr fs f l i x : length (wr fs f l i x) = length fs.
Proof. unfold wr. destruct (get_frame (ancs fs) f l); auto using length_wr_at. Qed.

Lemma get_frame_reach a f l g : get_frame a f l = Some g -> reach a f g.
Proof.
  revert f; induction l as [|l IH]; simpl; intros f H.
  - inversion H; subst; constructor.
  - destruct (nth_error a f) as [[p|]|] eqn:E; try discriminate.
    econstructor 2; eauto.
Qed.

Lemma reach_app a x f g : reach a f g -> reach (a ++ x) f g.
Proof.
  induction 1 as [f|f p g Hn _ IH]; [constructor|].
  econstructor 2; eauto. rewrite nth_error_app1; auto.
  apply nth_error_Some. congruence.
Qed.

Lemma reach_trans a f g h : reach a f g -> reach a g h -> reach a f h.
Proof. induction 1; auto. intros. econstructor 2; eauto. Qed.

Lemma rd_fp_reach fs f l g : In g (rd_fp fs f l) -> reach (ancs fs) f g.
Proof.
  unfold rd_fp. destruct (get_frame (ancs fs) f l) eqn:E; simpl; [|tauto].
  intros [<-|[]]. eauto using get_frame_reach.
Qed.

Lemma eval_fp_reach fs f e g : In g (eval_fp fs f e) -> reach (ancs fs) f g.
Proof.
  induction e; simpl; intros H; try tauto; eauto using rd_fp_reach.
  apply in_app_or in H; tauto.
Qed.

Lemma flat_fp_reach fs f es g : In g (flat_fp fs f es) -> reach (ancs fs) f g.
Proof.
  unfold flat_fp. intros H. apply in_flat_map in H as (e & _ & H). eauto using eval_fp_reach.
Qed.

Lemma in_evs_rd t l u g w : In (EvFrame u g w) (evs_rd t l) -> u = t /\ In g l.
Proof. unfold evs_rd. intros H. apply in_map_iff in H as (x & E & H). inversion E; subst; auto. Qed.

Lemma in_evs_wr t l u g w : In (EvFrame u g w) (evs_wr t l) -> u = t /\ In g l.
Proof. unfold evs_wr. intros H. apply in_map_iff in H as (x & E & H). inversion E; subst; auto. Qed.

(* ------------------------------------------------------------------ *)
(** * One step: a case analysis tactic *)

Ltac step_cases Hth :=
  unfold step;
  match goal with
  | |- context [nth_error (threads ?s) ?t] =>
      destruct (nth_error (threads s) t) as [?th|] eqn:Hth; [|simpl; try tauto]
  end.

Ltac break_match :=
  match goal with
  | |- context [match ?x with _ => _ end] => destruct x eqn:?
  | |- context [let '(_, _) := ?x in _] => destruct x eqn:?
  end.

(** ** (a) the anc table only grows at the end; existing threads keep their frame *)

Definition ancs_prefix (s s' : state) : Prop := exists x, ancs (frames s') = ancs (frames s) ++ x.

Lemma ancs_prefix_refl s : ancs_prefix s s.
Proof. exists []. now rewrite app_nil_r. Qed.

Lemma ancs_prefix_trans s1 s2 s3 : ancs_prefix s1 s2 -> ancs_prefix s2 s3 -> ancs_prefix s1 s3.
Proof. intros [x E1] [y E2]. exists (x ++ y). now rewrite E2, E1, app_assoc. Qed.

Lemma step_ancs v p s t : ancs_prefix s (fst (step v p s t)).
Proof.
  step_cases Hth; [|apply ancs_prefix_refl].
  repeat break_match; simpl; try apply ancs_prefix_refl;
    unfold ancs_prefix; simpl;
    try (exists []; rewrite app_nil_r; rewrite ?ancs_wr; reflexivity).
  eexists. unfold ancs. rewrite map_app. reflexivity.
Qed.

Definition threads_kept (s s' : state) : Prop :=
  forall u thu, nth_error (threads s) u = Some thu ->
                exists thu', nth_error (threads s') u = Some thu' /\ tframe thu' = tframe thu.

Lemma threads_kept_refl s : threads_kept s s.
Proof. intros u thu H; eauto. Qed.

Lemma threads_kept_trans s1 s2 s3 : threads_kept s1 s2 -> threads_kept s2 s3 -> threads_kept s1 s3.
Proof.
  intros H1 H2 u thu H. destruct (H1 _ _ H) as (th2 & E2 & F2).
  destruct (H2 _ _ E2) as (th3 & E3 & F3). exists th3; split; auto; congruence.
Qed.

Lemma upd_thread_kept (l : list thread) t th th' u thu :
  nth_error l t = Some th -> tframe th' = tframe th ->
  nth_error l u = Some thu ->
  exists thu', nth_error (upd l t th') u = Some thu' /\ tframe thu' = tframe thu.
Proof.
  intros Ht Hf Hu. destruct (Nat.eq_dec u t) as [->|Hne].
  - exists th'. split; [|congruence].
    apply nth_error_upd_same. apply nth_error_Some; congruence.
  - exists thu. split; auto. now rewrite nth_error_upd_other.
Qed.

Lemma step_threads v p s t : threads_kept s (fst (step v p s t)).
Proof.
  step_cases Hth; [|apply threads_kept_refl].
  repeat break_match; simpl; try apply threads_kept_refl;
    intros u thu Hu; simpl;
    try (eapply upd_thread_kept; eauto; reflexivity).
  destruct (upd_thread_kept (threads s) t th (th_code th l) u thu Hth eq_refl Hu) as (thu' & E & F).
  exists thu'. split; auto. rewrite nth_error_app1; auto. apply nth_error_Some; congruence.
Qed.

(** ** (b) every frame access of a step goes through the ancestor chain of the stepping thread's own frame *)

Lemma step_frame_events v p s t u g w :
  In (EvFrame u g w) (snd (step v p s t)) ->
  u = t /\ exists th, nth_error (threads s) t = Some th /\ reach (ancs (frames s)) (tframe th) g.
Proof.
  step_cases Hth.
  repeat break_match; simpl; try tauto; intros H;
    repeat (match goal with
            | H : _ \/ _ |- _ => destruct H as [H|H]
            | H : False |- _ => destruct H
            | H : In _ (_ ++ _) |- _ => apply in_app_or in H
            | H : In _ [] |- _ => destruct H
            | H : In _ (_ :: _) |- _ => destruct H as [H|H]
            | H : In (EvFrame _ _ _) (evs_rd _ _) |- _ => apply in_evs_rd in H as [-> H]
            | H : In (EvFrame _ _ _) (evs_wr _ _) |- _ => apply in_evs_wr in H as [-> H]
            | H : _ = EvFrame _ _ _ |- _ => first [discriminate H | inversion H; subst; clear H]
            end);
    (split; [reflexivity|]; eexists; split; [reflexivity|]);
    eauto using eval_fp_reach, rd_fp_reach, flat_fp_reach, reach.
Qed.

(* ------------------------------------------------------------------ *)
(** * Runs *)

Lemma run_inv v p sched s :
  ancs_prefix s (fst (run v p sched s)) /\ threads_kept s (fst (run v p sched s)).
Proof.
  revert s; induction sched as [|t r IH]; intros s; simpl.
  - split; [apply ancs_prefix_refl|apply threads_kept_refl].
  - destruct (step v p s t) as [s1 e1] eqn:E1.
    destruct (run v p r s1) as [s2 e2] eqn:E2. simpl.
    specialize (IH s1). rewrite E2 in IH; simpl in IH. destruct IH as [IHa IHt].
    pose proof (step_ancs v p s t) as Ha. pose proof (step_threads v p s t) as Ht.
    rewrite E1 in Ha, Ht; simpl in Ha, Ht.
    split; eauto using ancs_prefix_trans, threads_kept_trans.
Qed.

Lemma reach_prefix s s' f g : ancs_prefix s s' -> reach (ancs (frames s)) f g -> reach (ancs (frames s')) f g.
Proof. intros [x ->] H. now apply reach_app. Qed.

(** T1. Frames are addressed only through the own ancestor chain, under every schedule. *)
Theorem frames_private v p sched s t g w :
  In (EvFrame t g w) (snd (run v p sched s)) ->
  exists th, nth_error (threads (fst (run v p sched s))) t = Some th
             /\ reach (ancs (frames (fst (run v p sched s)))) (tframe th) g.
Proof.
  revert s; induction sched as [|u r IH]; intros s; simpl; [tauto|].
  destruct (step v p s u) as [s1 e1] eqn:E1.
  destruct (run v p r s1) as [s2 e2] eqn:E2. simpl.
  intros H. apply in_app_or in H as [H|H].
  - pose proof (step_frame_events v p s u t g w) as Hs. rewrite E1 in Hs; simpl in Hs.
    destruct (Hs H) as (-> & th & Hth & Hr).
    pose proof (step_ancs v p s u) as Ha. pose proof (step_threads v p s u) as Ht.
    rewrite E1 in Ha, Ht; simpl in Ha, Ht.
    destruct (run_inv v p r s1) as [Ha2 Ht2]. rewrite E2 in Ha2, Ht2; simpl in Ha2, Ht2.
    destruct (Ht _ _ Hth) as (th1 & Hth1 & F1).
    destruct (Ht2 _ _ Hth1) as (th2 & Hth2 & F2).
    exists th2. split; auto. rewrite F2, F1.
    eapply reach_prefix; [exact Ha2|]. eapply reach_prefix; [exact Ha|]. exact Hr.
  - specialize (IH s1). rewrite E2 in IH; simpl in IH. auto.
Qed.

(* ------------------------------------------------------------------ *)
(** * Generated state is read-only, and receives happen on designated channels *)

Definition threads_no_select (s : state) : Prop :=
  forall u thu, nth_error (threads s) u = Some thu -> code_no_select (tcode thu) = true.

(** a thread waiting inside reflect.Select waits on its own vector *)
Definition phase_ok (s : state) : Prop :=
  forall u thu own vec, nth_error (threads s) u = Some thu -> tphase thu = PWait own vec -> vec = own.

(** the side condition under which the machine never writes generated state *)
Definition readonly_cond (v : variant) (p : prog) (s : state) : Prop :=
  (v = PerExec /\ phase_ok s) \/ (prog_no_select p = true /\ threads_no_select s).

Lemma find_ready_spec cs vec j0 j c x q :
  find_ready cs vec j0 = Some (j, c, x, q) ->
  j0 <= j /\ nth (j - j0) vec VNil = VChan c /\ nth_error cs c = Some (x :: q).
Proof.
  revert j0; induction vec as [|y r IH]; simpl; intros j0 H; [discriminate|].
  assert (Hrec : find_ready cs r (S j0) = Some (j, c, x, q) ->
                 j0 <= j /\ nth (j - j0) (y :: r) VNil = VChan c /\ nth_error cs c = Some (x :: q)).
  { intros H'. destruct (IH _ H') as (Hle & Hn & Hc). split; [lia|]. split; auto.
    replace (j - j0) with (S (j - S j0)) by lia. exact Hn. }
  destruct y as [z|c'|]; auto.
  destruct (nth_error cs c') as [[|x' q']|] eqn:E; auto.
  inversion H; subst. split; [lia|]. rewrite Nat.sub_diag. simpl. auto.
Qed.

Lemma val_eqb_refl a : val_eqb a a = true.
Proof. destruct a; simpl; auto using Z.eqb_refl, Nat.eqb_refl. Qed.

Lemma code_no_select_tail i k : code_no_select (i :: k) = true -> instr_no_select i = true /\ code_no_select k = true.
Proof. unfold code_no_select; simpl. intros H. apply andb_true_iff in H. exact H. Qed.

Lemma prog_no_select_nth p fn nloc body :
  prog_no_select p = true -> nth fn p (0, []) = (nloc, body) -> code_no_select body = true.
Proof.
  unfold prog_no_select. intros H E.
  destruct (nth_in_or_default fn p (0, [])) as [Hin|Hd].
  - rewrite forallb_forall in H. specialize (H _ Hin). rewrite E in H. exact H.
  - rewrite Hd in E. inversion E; subst. reflexivity.
Qed.

(** events of one step under the side condition: no write to generated state, receives on designated channels *)
Lemma step_readonly v p s t e :
  readonly_cond v p s -> In e (snd (step v p s t)) -> is_gen_write e = false /\ recv_ok e = true.
Proof.
  intros Hc. step_cases Hth.
  assert (Hsel : forall sd cls k, tcode th = ISelect sd cls :: k -> v = PerExec).
  { intros sd cls k E. destruct Hc as [[-> _]|[_ Hns]]; auto.
    specialize (Hns _ _ Hth). rewrite E in Hns. discriminate. }
  assert (Hph : forall own vec sd cls k, tphase th = PWait own vec -> tcode th = ISelect sd cls :: k -> vec = own).
  { intros own vec sd cls k E Ec. destruct Hc as [[_ Hp]|[_ Hns]]; [eauto|].
    specialize (Hns _ _ Hth). rewrite Ec in Hns. discriminate. }
  repeat break_match; simpl; try tauto; intros H;
    repeat (match goal with
            | H : _ \/ _ |- _ => destruct H as [H|H]
            | H : False |- _ => destruct H
            | H : In _ (_ ++ _) |- _ => apply in_app_or in H
            | H : In _ [] |- _ => destruct H
            | H : In _ (_ :: _) |- _ => destruct H as [H|H]
            | H : In _ (evs_rd _ _) |- _ => unfold evs_rd in H; apply in_map_iff in H as (? & <- & _)
            | H : In _ (evs_wr _ _) |- _ => unfold evs_wr in H; apply in_map_iff in H as (? & <- & _)
            end);
    subst; simpl; auto using val_eqb_refl, Nat.eqb_refl.
  - specialize (Hsel _ _ _ eq_refl). discriminate.
  - split; auto.
    match goal with Hf : find_ready _ _ 0 = Some _ |- _ => apply find_ready_spec in Hf as (_ & Hn & _) end.
    rewrite Nat.sub_0_r in Hn.
    rewrite (Hph _ _ _ _ _ eq_refl eq_refl) in Hn.
    rewrite Hn. apply val_eqb_refl.
Qed.

(** the side condition is an invariant *)
Lemma step_keeps_readonly v p s t : readonly_cond v p s -> readonly_cond v p (fst (step v p s t)).
Proof.
  intros [[-> Hp]|[Hps Hns]].
  - left. split; auto.
    step_cases Hth; try exact Hp.
    repeat break_match; simpl; try exact Hp; try discriminate;
      intros u thu own' vec' Hu Hph; simpl in Hu;
      try (apply nth_error_upd_some in Hu as [[-> ->]|[Hne Hu]]; simpl in Hph;
           [first [discriminate | now inversion Hph] | eauto]).
    (* spawn *)
    destruct (Nat.lt_ge_cases u (length (upd (threads s) t (th_code th l)))) as [Hlt|Hge].
    + rewrite nth_error_app1 in Hu by exact Hlt.
      apply nth_error_upd_some in Hu as [[-> ->]|[Hne Hu]]; simpl in Hph; [discriminate|eauto].
    + rewrite nth_error_app2 in Hu by exact Hge.
      destruct (u - length (upd (threads s) t (th_code th l))) as [|[|]]; simpl in Hu; try discriminate.
      inversion Hu; subst. simpl in Hph. discriminate.
  - right. split; auto.
    step_cases Hth; try exact Hns.
    pose proof (Hns _ _ Hth) as Hcode.
    repeat break_match; simpl; try exact Hns;
      try (apply code_no_select_tail in Hcode as [Hi Hk]);
      try discriminate;
      intros u thu Hu; simpl in Hu;
      try (apply nth_error_upd_some in Hu as [[-> ->]|[Hne Hu]]; simpl; eauto).
    destruct (Nat.lt_ge_cases u (length (upd (threads s) t (th_code th l)))) as [Hlt|Hge].
    + rewrite nth_error_app1 in Hu by exact Hlt.
      apply nth_error_upd_some in Hu as [[-> ->]|[Hne Hu]]; simpl; eauto.
    + rewrite nth_error_app2 in Hu by exact Hge.
      destruct (u - length (upd (threads s) t (th_code th l))) as [|[|]]; simpl in Hu; try discriminate.
      inversion Hu; subst. simpl. eapply prog_no_select_nth; eauto.
Qed.

(** T4 + T3. Under the side condition, for every schedule: generated state is never written,
    and every value is received on the channel the receiving activation designated. *)
Theorem readonly_run v p sched s :
  readonly_cond v p s ->
  no_gen_write (snd (run v p sched s)) = true /\ no_crosstalk (snd (run v p sched s)) = true.
Proof.
  revert s; induction sched as [|t r IH]; intros s Hc; simpl; [auto|].
  destruct (step v p s t) as [s1 e1] eqn:E1.
  destruct (run v p r s1) as [s2 e2] eqn:E2. simpl.
  pose proof (step_keeps_readonly v p s t Hc) as Hc1. rewrite E1 in Hc1; simpl in Hc1.
  specialize (IH s1 Hc1). rewrite E2 in IH; simpl in IH. destruct IH as [IHw IHc].
  unfold no_gen_write, no_crosstalk in *. rewrite !forallb_app, IHw, IHc, !andb_true_r.
  split; apply forallb_forall; intros e He;
    pose proof (step_readonly v p s t e Hc) as Hs; rewrite E1 in Hs; simpl in Hs;
    destruct (Hs He) as [Hw Hr]; [now rewrite Hw|exact Hr].
Qed.

(** no write at all, hence no conflicting pair of accesses to generated state *)
Lemma gen_access_no_write es sd :
  forallb (fun e => negb (is_gen_write e)) es = true ->
  gen_access es sd = None \/ gen_access es sd = Some false.
Proof.
  induction es as [|e r IH]; simpl; intros H; [auto|].
  apply andb_true_iff in H as [He Hr]. specialize (IH Hr).
  destruct e; auto. destruct (Nat.eqb s sd); auto.
  destruct w; simpl in He; [discriminate|].
  right. destruct IH as [->| ->]; reflexivity.
Qed.

Lemma run_steps_trace v p sched s :
  fst (run_steps v p sched s) = fst (run v p sched s)
  /\ flat_map snd (snd (run_steps v p sched s)) = snd (run v p sched s).
Proof.
  revert s; induction sched as [|t r IH]; intros s; simpl; [auto|].
  destruct (step v p s t) as [s1 e1].
  specialize (IH s1). destruct (run_steps v p r s1) as [s2 e2]. destruct (run v p r s1) as [s2' e2'].
  simpl in *. destruct IH as [-> ->]. auto.
Qed.

Lemma gen_race_no_write nsel tr :
  forallb (fun e => negb (is_gen_write e)) (flat_map snd tr) = true -> gen_race nsel tr = false.
Proof.
  induction tr as [|[t1 e1] r IH]; simpl; intros H; [auto|].
  rewrite forallb_app in H. apply andb_true_iff in H as [H1 Hr].
  destruct r as [|[t2 e2] r']; [reflexivity|].
  rewrite (IH Hr). rewrite orb_false_r.
  apply andb_false_iff. right.
  simpl in Hr. rewrite forallb_app in Hr. apply andb_true_iff in Hr as [H2 _].
  induction (seq 0 nsel) as [|sd l IHl]; simpl; [reflexivity|].
  rewrite IHl, orb_false_r.
  destruct (gen_access_no_write e1 sd H1) as [->| ->]; auto.
  destruct (gen_access_no_write e2 sd H2) as [->| ->]; auto.
Qed.

Theorem readonly_no_race v p sched s nsel :
  readonly_cond v p s -> gen_race nsel (snd (run_steps v p sched s)) = false.
Proof.
  intros Hc. apply gen_race_no_write.
  destruct (run_steps_trace v p sched s) as [_ ->].
  exact (proj1 (readonly_run v p sched s Hc)).
Qed.

(* ------------------------------------------------------------------ *)
(** * The own frame of an activation that starts no goroutine is touched by no other thread *)

Lemma reach_app_inv a x f g :
  (forall f p, nth_error a f = Some (Some p) -> p < length a) ->
  f < length a -> reach (a ++ x) f g -> reach a f g.
Proof.
  intros Hwf Hf H. induction H as [f|f p g Hn _ IH]; [constructor|].
  rewrite nth_error_app1 in Hn by exact Hf.
  econstructor 2; eauto.
Qed.

Lemma ancs_length fs : length (ancs fs) = length fs.
Proof. unfold ancs. apply map_length. Qed.

(** the shape of a step: either no frame and no thread is created, or exactly one of each (go) *)
Lemma step_shape v p s t :
  let s' := fst (step v p s t) in
  (ancs (frames s') = ancs (frames s) /\
   (threads s' = threads s \/
    exists th th', nth_error (threads s) t = Some th /\ tframe th' = tframe th /\
                   (tcode th' = tcode th \/ exists i, tcode th = i :: tcode th') /\
                   threads s' = upd (threads s) t th'))
  \/ (exists th fn args k body,
        nth_error (threads s) t = Some th /\ tcode th = IGo fn args :: k /\
        ancs (frames s') = ancs (frames s) ++ [Some (tframe th)] /\
        threads s' = upd (threads s) t (th_code th k)
                         ++ [{| tframe := length (frames s); tcode := body; tphase := PRun |}]).
Proof.
  step_cases Hth; try solve [left; auto].
  repeat break_match; simpl; try (left; split; [reflexivity|left; reflexivity]);
    try (left; split; [rewrite ?ancs_wr; reflexivity|]; right; exists th;
         eexists; split; [reflexivity|]; split; [|split; [|reflexivity]]; simpl; eauto).
  right. exists th. do 4 eexists. split; [reflexivity|]. split; [eassumption|].
  split; [|reflexivity]. unfold ancs. rewrite map_app. reflexivity.
Qed.

Lemma step_wf v p s t : wf s -> wf (fst (step v p s t)).
Proof.
  intros [Ha Ht]. destruct (step_shape v p s t) as [[Ea Hthr]|(th & fn & args & k & body & Hth & Hc & Ea & Et)].
  - assert (El : length (frames (fst (step v p s t))) = length (frames s)).
    { rewrite <- !ancs_length. now rewrite Ea. }
    split.
    + intros f q H. rewrite Ea in H. rewrite El. eauto.
    + intros u thu H. rewrite El. destruct Hthr as [E|(th & th' & Hth & Hf & _ & E)]; rewrite E in H; eauto.
      apply nth_error_upd_some in H as [[-> ->]|[_ H]]; eauto. rewrite Hf. eauto.
  - assert (El : length (frames (fst (step v p s t))) = S (length (frames s))).
    { rewrite <- !ancs_length. rewrite Ea, app_length. simpl. lia. }
    split.
    + intros f q H. rewrite Ea in H. rewrite El.
      destruct (Nat.lt_ge_cases f (length (ancs (frames s)))) as [Hlt|Hge].
      * rewrite nth_error_app1 in H by exact Hlt. specialize (Ha _ _ H). lia.
      * rewrite nth_error_app2 in H by exact Hge.
        destruct (f - length (ancs (frames s))) as [|[|]]; simpl in H; try discriminate.
        inversion H; subst. specialize (Ht _ _ Hth). lia.
    + intros u thu H. rewrite El. rewrite Et in H.
      destruct (Nat.lt_ge_cases u (length (upd (threads s) t (th_code th k)))) as [Hlt|Hge].
      * rewrite nth_error_app1 in H by exact Hlt.
        apply nth_error_upd_some in H as [[-> ->]|[_ H]]; simpl.
        -- specialize (Ht _ _ Hth). lia.
        -- specialize (Ht _ _ H). lia.
      * rewrite nth_error_app2 in H by exact Hge.
        destruct (u - length (upd (threads s) t (th_code th k))) as [|[|]]; simpl in H; try discriminate.
        inversion H; subst. simpl. lia.
Qed.

(** invariant for a target activation [t] with own frame [ft] *)
Definition priv_inv (s : state) (t : tid) (ft : fid) : Prop :=
  wf s
  /\ (exists th, nth_error (threads s) t = Some th /\ tframe th = ft /\ code_no_go (tcode th) = true)
  /\ (forall u thu, u <> t -> nth_error (threads s) u = Some thu -> ~ reach (ancs (frames s)) (tframe thu) ft).

Lemma code_no_go_tail i k : code_no_go (i :: k) = true -> instr_no_go i = true /\ code_no_go k = true.
Proof. unfold code_no_go; simpl. intros H. apply andb_true_iff in H. exact H. Qed.

Lemma step_keeps_priv v p s x t ft : priv_inv s t ft -> priv_inv (fst (step v p s x)) t ft.
Proof.
  intros (Hwf & (tht & Htt & Hft & Hng) & Hiso).
  split; [now apply step_wf|].
  destruct Hwf as [Ha Ht].
  destruct (step_shape v p s x) as [[Ea Hthr]|(th & fn & args & k & body & Hth & Hc & Ea & Et)].
  - destruct Hthr as [E|(th & th' & Hth & Hf & Hcode & E)].
    + rewrite E, Ea. split; eauto.
    + split.
      * rewrite E. destruct (Nat.eq_dec x t) as [->|Hne].
        -- exists th'. rewrite nth_error_upd_same by (apply nth_error_Some; congruence).
           rewrite Htt in Hth; inversion Hth; subst th.
           split; auto. split; [congruence|].
           destruct Hcode as [->|[i Ei]]; auto. rewrite Ei in Hng. now apply code_no_go_tail in Hng.
        -- exists tht. rewrite nth_error_upd_other by auto. auto.
      * intros u thu Hu H. rewrite E in H. rewrite Ea.
        apply nth_error_upd_some in H as [[-> ->]|[_ H]]; eauto.
        rewrite Hf. eauto.
  - assert (Hxt : x <> t).
    { intros ->. rewrite Htt in Hth; inversion Hth; subst th. rewrite Hc in Hng. discriminate. }
    split.
    + exists tht. rewrite Et. rewrite nth_error_app1.
      * rewrite nth_error_upd_other by auto. auto.
      * rewrite length_upd. apply nth_error_Some. congruence.
    + intros u thu Hu H. rewrite Et in H. rewrite Ea. intros Hr.
      assert (Hftl : ft < length (ancs (frames s))).
      { rewrite ancs_length. rewrite <- Hft. eauto. }
      assert (Ha' : forall f q, nth_error (ancs (frames s)) f = Some (Some q) -> q < length (ancs (frames s))).
      { intros f q Hq. rewrite ancs_length. eauto. }
      destruct (Nat.lt_ge_cases u (length (upd (threads s) x (th_code th k)))) as [Hlt|Hge].
      * rewrite nth_error_app1 in H by exact Hlt.
        assert (Hold : exists thu0, nth_error (threads s) u = Some thu0 /\ tframe thu0 = tframe thu).
        { apply nth_error_upd_some in H as [[-> ->]|[_ H]]; eauto. }
        destruct Hold as (thu0 & Hu0 & Hf0).
        assert (Hl0 : tframe thu < length (ancs (frames s))) by (rewrite ancs_length, <- Hf0; eauto).
        pose proof (reach_app_inv _ _ _ _ Ha' Hl0 Hr) as Hr0.
        rewrite <- Hf0 in Hr0. exact (Hiso _ _ Hu Hu0 Hr0).
      * rewrite nth_error_app2 in H by exact Hge.
        destruct (u - length (upd (threads s) x (th_code th k))) as [|[|]]; simpl in H; try discriminate.
        inversion H; subst thu; simpl in Hr.
        inversion Hr as [|f0 q g0 Hn Hr']; subst.
        -- rewrite ancs_length in Hftl. lia.
        -- rewrite nth_error_app2 in Hn by (rewrite ancs_length; lia).
           rewrite ancs_length, Nat.sub_diag in Hn. simpl in Hn. inversion Hn; subst q.
           assert (Hl0 : tframe th < length (ancs (frames s))) by (rewrite ancs_length; eauto).
           pose proof (reach_app_inv _ _ _ _ Ha' Hl0 Hr') as Hr0.
           exact (Hiso _ _ Hxt Hth Hr0).
Qed.

(** T1'. For every schedule: no other thread ever reads or writes the frame of an activation
    that was not spawned from (is [isolated]) and that starts no goroutine itself. *)
Theorem activation_frame_private v p sched s t th :
  wf s -> nth_error (threads s) t = Some th -> code_no_go (tcode th) = true -> isolated s t ->
  forall u w, In (EvFrame u (tframe th) w) (snd (run v p sched s)) -> u = t.
Proof.
  intros Hwf Hth Hng Hiso.
  assert (Hinv : priv_inv s t (tframe th)).
  { split; auto. split; [eauto|]. intros u thu Hu H. exact (Hiso _ Hth _ _ Hu H). }
  clear Hwf Hth Hng Hiso. generalize (tframe th) Hinv. clear Hinv th. intros ft Hinv.
  revert s Hinv; induction sched as [|x r IH]; intros s Hinv u w; simpl; [tauto|].
  destruct (step v p s x) as [s1 e1] eqn:E1.
  destruct (run v p r s1) as [s2 e2] eqn:E2. simpl.
  intros H. apply in_app_or in H as [H|H].
  - pose proof (step_frame_events v p s x u ft w) as Hs. rewrite E1 in Hs; simpl in Hs.
    destruct (Hs H) as (-> & thx & Hthx & Hr).
    destruct (Nat.eq_dec x t) as [->|Hne]; auto.
    destruct Hinv as (_ & _ & Hiso). exfalso. exact (Hiso _ _ Hne Hthx Hr).
  - pose proof (step_keeps_priv v p s x t ft Hinv) as Hinv1. rewrite E1 in Hinv1; simpl in Hinv1.
    specialize (IH s1 Hinv1 u w). rewrite E2 in IH; simpl in IH. auto.
Qed.

(* ------------------------------------------------------------------ *)
(** * Isolation: the local view of an activation is a function of its start and of its own communications *)

Lemma code_local_no_go k : code_local k = true -> code_no_go k = true.
Proof.
  unfold code_local, code_no_go. induction k as [|i k IH]; simpl; auto.
  intros H. apply andb_true_iff in H as [Hi Hk]. rewrite (IH Hk), andb_true_r.
  destruct i; simpl in *; auto.
Qed.

Lemma code_local_tail i k : code_local (i :: k) = true -> instr_local i = true /\ code_local k = true.
Proof. unfold code_local; simpl. intros H. apply andb_true_iff in H. exact H. Qed.

Lemma eval_local fs f fr e :
  nth_error fs f = Some fr -> expr_local e = true -> eval fs f e = eval_l (data fr) e.
Proof.
  intros Hf. induction e as [x|l i|a IHa b IHb]; simpl; intros H; auto.
  - apply Nat.eqb_eq in H; subst l. unfold rd; simpl. unfold slot_of. now rewrite Hf.
  - apply andb_true_iff in H as [H1 H2]. now rewrite IHa, IHb.
Qed.

Lemma wr0 fs f i x fr :
  nth_error fs f = Some fr -> nth_error (wr fs f 0 i x) f = Some (set_data fr i x).
Proof.
  intros H. unfold wr; simpl. unfold wr_at. rewrite H.
  apply nth_error_upd_same. apply nth_error_Some; congruence.
Qed.

Lemma nth_error_wr_other fs f l i x ft :
  ~ reach (ancs fs) f ft -> nth_error (wr fs f l i x) ft = nth_error fs ft.
Proof.
  intros Hn. unfold wr. destruct (get_frame (ancs fs) f l) as [g|] eqn:E; auto.
  unfold wr_at. destruct (nth_error fs g) eqn:Eg; auto.
  apply nth_error_upd_other. intros ->. apply Hn. eauto using get_frame_reach.
Qed.

Lemma lview_of_eq s s' t :
  nth_error (threads s') t = nth_error (threads s) t ->
  (forall th, nth_error (threads s) t = Some th ->
              nth_error (frames s') (tframe th) = nth_error (frames s) (tframe th)) ->
  lview_of s' t = lview_of s t.
Proof.
  intros Et Ef. unfold lview_of. rewrite Et.
  destruct (nth_error (threads s) t) as [th|]; auto. now rewrite (Ef _ eq_refl).
Qed.

(** a step of another thread leaves the local view of [t] untouched *)
Lemma step_other v p s x t ft :
  x <> t -> priv_inv s t ft -> lview_of (fst (step v p s x)) t = lview_of s t.
Proof.
  intros Hne ([Ha Ht] & (tht & Htt & Hft & Hng) & Hiso).
  step_cases Hthx.
  pose proof (Hiso _ _ Hne Hthx) as Hnr.
  assert (Htl : t < length (threads s)) by (apply nth_error_Some; congruence).
  assert (Hfl : ft < length (frames s)) by (rewrite <- Hft; eauto).
  repeat break_match; cbn [fst]; try reflexivity; apply lview_of_eq;
    cbn [frames threads with_thread];
    try (apply nth_error_upd_other; congruence);
    try (intros th' Ht'; rewrite Htt in Ht'; inversion Ht'; subst th'; rewrite Hft;
         first [reflexivity | apply nth_error_wr_other; exact Hnr]).
  - rewrite nth_error_app1 by (rewrite length_upd; exact Htl).
    apply nth_error_upd_other; congruence.
  - intros th' Ht'. rewrite Htt in Ht'; inversion Ht'; subst th'. rewrite Hft.
    apply nth_error_app1. exact Hfl.
Qed.

Lemma lview_with_thread s fs cs gs t th th' fr' :
  nth_error (threads s) t = Some th -> nth_error fs (tframe th') = Some fr' ->
  lview_of (with_thread s fs cs gs t th') t =
  Some {| lv_data := data fr'; lv_code := tcode th'; lv_phase := tphase th' |}.
Proof.
  intros Ht Hf. unfold lview_of, with_thread; cbn [threads frames].
  rewrite nth_error_upd_same by (apply nth_error_Some; congruence). now rewrite Hf.
Qed.

Lemma lview_here s t th fr :
  nth_error (threads s) t = Some th -> nth_error (frames s) (tframe th) = Some fr ->
  lview_of s t = Some {| lv_data := data fr; lv_code := tcode th; lv_phase := tphase th |}.
Proof. intros Ht Hf. unfold lview_of. now rewrite Ht, Hf. Qed.

Lemma map_eval_local fs f fr (cls : list (expr * nat)) :
  nth_error fs f = Some fr -> forallb (fun cl => expr_local (fst cl)) cls = true ->
  map (fun cl => eval fs f (fst cl)) cls = map (fun cl => eval_l (data fr) (fst cl)) cls.
Proof.
  intros Hf H. apply map_ext_in. intros cl Hin.
  rewrite forallb_forall in H. eauto using eval_local.
Qed.

(** a step of [t] itself changes its local view as [lstep] says, from the step's communications alone *)
Lemma step_self v p s t th fr :
  nth_error (threads s) t = Some th -> nth_error (frames s) (tframe th) = Some fr ->
  code_local (tcode th) = true -> gen_readonly v (tcode th) = true ->
  lview_of (fst (step v p s t)) t =
  Some (lstep {| lv_data := data fr; lv_code := tcode th; lv_phase := tphase th |} (snd (step v p s t))).
Proof.
  intros Hth Hfr Hloc Hro. unfold step. rewrite Hth.
  destruct (tphase th) as [|own|own vec] eqn:Hph; destruct (tcode th) as [|i k] eqn:Hc;
    try (cbn [fst snd lstep lv_phase lv_code lv_data]; erewrite lview_here by eassumption;
         rewrite ?Hph, ?Hc; reflexivity).
  - (* PRun *)
    apply code_local_tail in Hloc as [Hi Hk].
    destruct i as [l i e|l i|ce ve|ce l i|sd cls|fn args]; cbn [instr_local] in Hi.
    + apply andb_true_iff in Hi as [Hl He]. apply Nat.eqb_eq in Hl; subst l.
      cbn [fst snd]. erewrite lview_with_thread; [|eassumption|cbn [th_code tframe]; apply wr0; eassumption].
      cbn [lstep lv_phase lv_code lv_data th_code tcode tphase set_data data].
      now rewrite (eval_local _ _ _ _ Hfr He).
    + apply Nat.eqb_eq in Hi; subst l.
      cbn [fst snd]. erewrite lview_with_thread; [|eassumption|cbn [th_code tframe]; apply wr0; eassumption].
      reflexivity.
    + destruct (eval (frames s) (tframe th) ce) eqn:Ece;
        try (cbn [fst snd lstep lv_phase lv_code lv_data has_send existsb]; erewrite lview_here by eassumption;
             rewrite ?Hph, ?Hc; reflexivity).
      cbn [fst snd]. erewrite lview_with_thread; [|eassumption|cbn [th_code tframe]; eassumption].
      reflexivity.
    + apply andb_true_iff in Hi as [He Hl]. apply Nat.eqb_eq in Hl; subst l.
      destruct (eval (frames s) (tframe th) ce) eqn:Ece;
        try (cbn [fst snd lstep lv_phase lv_code lv_data first_recv fold_right]; erewrite lview_here by eassumption;
             rewrite ?Hph, ?Hc; reflexivity).
      destruct (nth_error (chans s) c) as [[|x q]|] eqn:Eq;
        try (cbn [fst snd lstep lv_phase lv_code lv_data first_recv fold_right]; erewrite lview_here by eassumption;
             rewrite ?Hph, ?Hc; reflexivity).
      cbn [fst snd]. erewrite lview_with_thread; [|eassumption|cbn [th_code tframe]; apply wr0; eassumption].
      reflexivity.
    + destruct v.
      * cbn [gen_readonly] in Hro. unfold code_no_select in Hro. simpl in Hro. discriminate.
      * cbn [fst snd]. erewrite lview_with_thread; [|eassumption|cbn [th_phase tframe]; eassumption].
        cbn [lstep lv_phase lv_code lv_data th_phase tcode tphase].
        rewrite Hc. now rewrite (map_eval_local _ _ _ _ Hfr Hi).
    + discriminate.
  - (* PSnap *)
    destruct i as [l i e|l i|ce ve|ce l i|sd cls|fn args];
      try (cbn [fst snd lstep lv_phase lv_code lv_data]; erewrite lview_here by eassumption;
           rewrite ?Hph, ?Hc; reflexivity).
    destruct v.
    + cbn [gen_readonly] in Hro. unfold code_no_select in Hro. simpl in Hro. discriminate.
    + cbn [fst snd]. erewrite lview_with_thread; [|eassumption|cbn [th_phase tframe]; eassumption].
      cbn [lstep lv_phase lv_code lv_data th_phase tcode tphase]. now rewrite Hc.
  - (* PWait *)
    destruct i as [l i e|l i|ce ve|ce l i|sd cls|fn args];
      try (cbn [fst snd lstep lv_phase lv_code lv_data]; erewrite lview_here by eassumption;
           rewrite ?Hph, ?Hc; reflexivity).
    destruct (find_ready (chans s) vec 0) as [[[[j c] x] q]|] eqn:Efr;
      try (cbn [fst snd lstep lv_phase lv_code lv_data first_recv fold_right]; erewrite lview_here by eassumption;
           rewrite ?Hph, ?Hc; reflexivity).
    cbn [fst snd]. erewrite lview_with_thread; [|eassumption|cbn [th_code tframe]; apply wr0; eassumption].
    reflexivity.
Qed.

Lemma lstep_code lv es :
  lv_code (lstep lv es) = lv_code lv \/ exists i, lv_code lv = i :: lv_code (lstep lv es).
Proof.
  destruct lv as [d code ph]. unfold lstep. cbn [lv_code lv_phase lv_data].
  destruct ph; destruct code as [|i k]; cbn [lv_code]; auto;
    destruct i; cbn [lv_code]; auto; repeat break_match; cbn [lv_code]; eauto.
Qed.

Lemma gen_readonly_tail v i k : gen_readonly v (i :: k) = true -> gen_readonly v k = true.
Proof. destruct v; simpl; auto. intros H. now apply code_no_select_tail in H. Qed.

Lemma lview_of_inv s t lv :
  lview_of s t = Some lv ->
  exists th fr, nth_error (threads s) t = Some th /\ nth_error (frames s) (tframe th) = Some fr
                /\ lv = {| lv_data := data fr; lv_code := tcode th; lv_phase := tphase th |}.
Proof.
  unfold lview_of. destruct (nth_error (threads s) t) as [th|] eqn:Et; [|discriminate].
  destruct (nth_error (frames s) (tframe th)) as [fr|] eqn:Ef; [|discriminate].
  intros H; inversion H. exists th, fr. auto.
Qed.

Lemma isolation_inv v p sched t ft : forall s lv,
  priv_inv s t ft -> lview_of s t = Some lv ->
  code_local (lv_code lv) = true -> gen_readonly v (lv_code lv) = true ->
  lview_of (fst (run_steps v p sched s)) t = Some (replay t lv (snd (run_steps v p sched s))).
Proof.
  induction sched as [|x r IH]; intros s lv Hinv Hlv Hloc Hro; simpl; [exact Hlv|].
  destruct (step v p s x) as [s1 e1] eqn:E1.
  destruct (run_steps v p r s1) as [s2 e2] eqn:E2. cbn [fst snd replay].
  pose proof (step_keeps_priv v p s x t ft Hinv) as Hinv1. rewrite E1 in Hinv1; cbn [fst] in Hinv1.
  destruct (Nat.eqb_spec x t) as [->|Hne].
  - destruct (lview_of_inv _ _ _ Hlv) as (th & fr & Hth & Hfr & ->). cbn [lv_code] in Hloc, Hro.
    pose proof (step_self v p s t th fr Hth Hfr Hloc Hro) as Hs. rewrite E1 in Hs; cbn [fst snd] in Hs.
    set (lv0 := {| lv_data := data fr; lv_code := tcode th; lv_phase := tphase th |}) in *.
    assert (Hloc1 : code_local (lv_code (lstep lv0 e1)) = true /\ gen_readonly v (lv_code (lstep lv0 e1)) = true).
    { destruct (lstep_code lv0 e1) as [->|[i Ei]]; [auto|].
      cbn [lv0 lv_code] in Ei. rewrite Ei in Hloc, Hro.
      split; [now apply code_local_tail in Hloc|eauto using gen_readonly_tail]. }
    destruct Hloc1 as [Hl1 Hr1].
    specialize (IH s1 _ Hinv1 Hs Hl1 Hr1). rewrite E2 in IH; exact IH.
  - pose proof (step_other v p s x t ft Hne Hinv) as Ho. rewrite E1 in Ho; cbn [fst] in Ho.
    rewrite <- Ho in Hlv.
    specialize (IH s1 _ Hinv1 Hlv Hloc Hro). rewrite E2 in IH; exact IH.
Qed.

(** T2. For every schedule, program, and whatever the other threads do: the local view (own slots, remaining
    code, position inside a select) of an activation that uses only its own arguments and locals is the
    replay of its start view against its own steps' communications — provided generated state is read-only
    for its code (per-execution select vector, or no select). *)
Theorem isolation v p sched s t lv :
  wf s -> isolated s t -> lview_of s t = Some lv ->
  code_local (lv_code lv) = true -> gen_readonly v (lv_code lv) = true ->
  lview_of (fst (run_steps v p sched s)) t = Some (replay t lv (snd (run_steps v p sched s))).
Proof.
  intros Hwf Hiso Hlv Hloc Hro.
  destruct (lview_of_inv _ _ _ Hlv) as (th & fr & Hth & Hfr & E).
  apply isolation_inv with (ft := tframe th); auto.
  split; auto. split.
  - exists th. split; auto. split; auto. apply code_local_no_go. now rewrite E in Hloc.
  - intros u thu Hu H. exact (Hiso _ Hth _ _ Hu H).
Qed.

(** ** the replay looks at communications only *)

Definition is_comm (e : event) : bool :=
  match e with EvMake _ _ | EvSend _ _ _ | EvRecv _ _ _ _ _ => true | _ => false end.

Definition comms (es : list event) : list event := filter is_comm es.

Lemma first_make_comms es : first_make (comms es) = first_make es.
Proof. induction es as [|e r IH]; simpl; auto. destruct e; simpl; auto. Qed.

Lemma first_recv_comms es : first_recv (comms es) = first_recv es.
Proof. induction es as [|e r IH]; simpl; auto. destruct e; simpl; auto. Qed.

Lemma has_send_comms es : has_send (comms es) = has_send es.
Proof. induction es as [|e r IH]; simpl; auto. destruct e; simpl; auto. Qed.

Lemma lstep_comms lv es : lstep lv (comms es) = lstep lv es.
Proof. unfold lstep. now rewrite first_make_comms, first_recv_comms, has_send_comms. Qed.

(** the communications of the own steps of [t], step by step *)
Definition own_comms (t : tid) (tr : list (tid * list event)) : list (list event) :=
  map (fun st => comms (snd st)) (filter (fun st => Nat.eqb (fst st) t) tr).

Lemma replay_own_comms t tr : forall lv, replay t lv tr = fold_left lstep (own_comms t tr) lv.
Proof.
  unfold own_comms. induction tr as [|[u es] r IH]; intros lv; simpl; auto.
  destruct (Nat.eqb u t); simpl; auto. now rewrite lstep_comms.
Qed.

(** Two runs — different programs around it, different variants even, different schedules, different other
    threads — in which an activation starts with the same arguments and has the same communications
    end with the same local view. *)
Theorem isolation_two_runs v1 p1 sched1 s1 t1 v2 p2 sched2 s2 t2 lv :
  wf s1 -> isolated s1 t1 -> lview_of s1 t1 = Some lv ->
  wf s2 -> isolated s2 t2 -> lview_of s2 t2 = Some lv ->
  code_local (lv_code lv) = true ->
  gen_readonly v1 (lv_code lv) = true -> gen_readonly v2 (lv_code lv) = true ->
  own_comms t1 (snd (run_steps v1 p1 sched1 s1)) = own_comms t2 (snd (run_steps v2 p2 sched2 s2)) ->
  lview_of (fst (run_steps v1 p1 sched1 s1)) t1 = lview_of (fst (run_steps v2 p2 sched2 s2)) t2.
Proof.
  intros W1 I1 L1 W2 I2 L2 Hloc R1 R2 E.
  rewrite (isolation v1 p1 sched1 s1 t1 lv W1 I1 L1 Hloc R1).
  rewrite (isolation v2 p2 sched2 s2 t2 lv W2 I2 L2 Hloc R2).
  now rewrite !replay_own_comms, E.
Qed.

(* ------------------------------------------------------------------ *)
(** * The property as a statement about the machine *)

(** every thread is between statements (not in the middle of a select) *)
Definition all_run (s : state) : Prop :=
  forall u thu, nth_error (threads s) u = Some thu -> tphase thu = PRun.

Lemma all_run_phase_ok s : all_run s -> phase_ok s.
Proof. intros H u thu own vec Hu Hp. rewrite (H _ _ Hu) in Hp. discriminate. Qed.

(** what the program can see of a state: slot contents, channel contents, remaining code *)
Definition visible (s : state) : list (list val) * list (list val) * list (list instr) :=
  (map data (frames s), chans s, map tcode (threads s)).

(** C08 for an interpreter whose select statement is variant [v]: under every schedule the interpreter
    computes what the Go-prescribed machine (per-execution select) computes, its bookkeeping never writes
    state shared between the goroutines executing one statement, and no activation receives on a channel
    it did not designate. *)
Definition statement_for (v : variant) : Prop :=
  forall p sched s, wf s -> all_run s ->
    visible (fst (run v p sched s)) = visible (fst (run PerExec p sched s))
    /\ no_gen_write (snd (run v p sched s)) = true
    /\ no_crosstalk (snd (run v p sched s)) = true.

Lemma statement_perexec : statement_for PerExec.
Proof.
  intros p sched s _ Har. split; [reflexivity|].
  apply readonly_run. left. split; auto using all_run_phase_ok.
Qed.

(** ** programs without select: both variants are the same machine *)

Lemma step_variant_indep p s t :
  threads_no_select s -> step Shared p s t = step PerExec p s t.
Proof.
  intros Hns. unfold step. destruct (nth_error (threads s) t) as [th|] eqn:Hth; auto.
  specialize (Hns _ _ Hth).
  destruct (tphase th); destruct (tcode th) as [|i k]; auto; destruct i; auto;
    unfold code_no_select in Hns; simpl in Hns; discriminate.
Qed.

Lemma run_variant_indep p sched : forall s,
  prog_no_select p = true -> threads_no_select s -> run Shared p sched s = run PerExec p sched s.
Proof.
  induction sched as [|t r IH]; intros s Hp Hns; simpl; auto.
  rewrite (step_variant_indep p s t Hns).
  destruct (step PerExec p s t) as [s1 e1] eqn:E1.
  assert (Hns1 : threads_no_select s1).
  { pose proof (step_keeps_readonly Shared p s t (or_intror (conj Hp Hns))) as H.
    rewrite (step_variant_indep p s t Hns), E1 in H; cbn [fst] in H.
    destruct H as [[H _]|[_ H]]; [discriminate|exact H]. }
  now rewrite (IH s1 Hp Hns1).
Qed.

Lemma statement_select_free v p sched s :
  prog_no_select p = true -> threads_no_select s ->
  visible (fst (run v p sched s)) = visible (fst (run PerExec p sched s))
  /\ no_gen_write (snd (run v p sched s)) = true
  /\ no_crosstalk (snd (run v p sched s)) = true.
Proof.
  intros Hp Hns. split.
  - destruct v; auto. now rewrite run_variant_indep.
  - apply readonly_run. right. auto.
Qed.

(** ** the tie: which variant the source is, read off the regenerated table *)

Lemma key_eqb_eq a b : key_eqb a b = true -> a = b.
Proof.
  destruct a as [[[a1 a2] a3] a4], b as [[[b1 b2] b3] b4]. unfold key_eqb.
  intros H. repeat (apply andb_true_iff in H as [H ?]).
  repeat match goal with E : String.eqb _ _ = true |- _ => apply String.eqb_eq in E end.
  congruence.
Qed.

Lemma allow_open_disjoint : forallb (fun a => negb (key_mem a open_select_cases)) allowlist = true.
Proof. vm_compute. reflexivity. Qed.

Lemma key_mem_open_not_allow k : key_mem k allowlist = true -> key_mem k open_select_cases = false.
Proof.
  unfold key_mem at 1. intros H. apply existsb_exists in H as (a & Hin & He).
  apply key_eqb_eq in He; subst a.
  pose proof allow_open_disjoint as D. rewrite forallb_forall in D.
  apply negb_true_iff. auto.
Qed.

Lemma readonly_variant rows : captured_readonly rows = true -> variant_of rows = PerExec.
Proof.
  unfold captured_readonly, variant_of. intros H.
  assert (E : existsb (fun r => key_mem (key_of r) open_select_cases) rows = false).
  { induction rows as [|r l IH]; [reflexivity|].
    cbn [forallb] in H. apply andb_true_iff in H as [Hr Hl].
    cbn [existsb]. now rewrite (key_mem_open_not_allow _ Hr), (IH Hl). }
  now rewrite E.
Qed.

Lemma statement_partial rows : captured_readonly rows = true -> statement_for (variant_of rows).
Proof. intros H. rewrite (readonly_variant rows H). exact statement_perexec. Qed.

Lemma captured_reviewed_today : captured_writes_reviewed captured_gen = true.
Proof. vm_compute. reflexivity. Qed.

(* ------------------------------------------------------------------ *)
(** * The witness: two workers, one select statement, private channels *)

Definition main_done (v : variant) : state := fst (run v witness_prog [0; 0; 0; 0; 0; 0] witness_init).

Lemma select_shared_refuted :
  (* thread A (1) receives 9, the value main put into B's private channel; B (2) is left waiting *)
  received (fst (run Shared witness_prog witness_sched witness_init)) 1 = VInt 9
  /\ received (fst (run Shared witness_prog witness_sched witness_init)) 2 = VNil
  /\ crosstalk_events (snd (run Shared witness_prog witness_sched witness_init)) = [EvRecv 1 0 1 (VInt 9) (VChan 0)]
  /\ no_crosstalk (snd (run Shared witness_prog witness_sched witness_init)) = false
  (* two adjacent steps of different threads write cases[0] of statement 0 *)
  /\ no_gen_write (snd (run Shared witness_prog witness_sched witness_init)) = false
  /\ gen_race 1 (snd (run_steps Shared witness_prog witness_sched witness_init)) = true
  (* the same schedule with the per-execution vector *)
  /\ received (fst (run PerExec witness_prog witness_sched witness_init)) 1 = VInt 7
  /\ received (fst (run PerExec witness_prog witness_sched witness_init)) 2 = VInt 9.
Proof. vm_compute. repeat split; reflexivity. Qed.

Lemma wf_witness_init : wf witness_init.
Proof.
  split.
  - intros [|[|f]] p; simpl; intros H; try discriminate; try (destruct f; discriminate).
  - intros [|[|t]] th; simpl; intros H; try discriminate; try (destruct t; discriminate).
    inversion H; subst; simpl; lia.
Qed.

Lemma all_run_witness_init : all_run witness_init.
Proof.
  intros [|[|t]] th; simpl; intros H; try discriminate; try (destruct t; discriminate).
  inversion H; reflexivity.
Qed.

Lemma statement_shared_refuted : ~ statement_for Shared.
Proof.
  intros H. destruct (H witness_prog witness_sched witness_init wf_witness_init all_run_witness_init) as (_ & _ & Hc).
  destruct select_shared_refuted as (_ & _ & _ & E & _). rewrite E in Hc. discriminate Hc.
Qed.

(** ** non-vacuity of the premises *)

Lemma wf_main_done v : wf (main_done v).
Proof.
  unfold main_done.
  assert (E : forall sched s, wf s -> wf (fst (run v witness_prog sched s))).
  { induction sched as [|t r IH]; intros s Hs; simpl; auto.
    pose proof (step_wf v witness_prog s t Hs) as H1.
    destruct (step v witness_prog s t) as [s1 e1]. specialize (IH s1 H1).
    destruct (run v witness_prog r s1) as [s2 e2]. exact IH. }
  apply E. exact wf_witness_init.
Qed.

Lemma isolated_main_done v : isolated (main_done v) 1.
Proof.
  assert (Ea : ancs (frames (main_done v)) = [None; Some 0; Some 0]) by (destruct v; reflexivity).
  assert (Et : map tframe (threads (main_done v)) = [0; 1; 2]) by (destruct v; reflexivity).
  intros th Hth u thu Hu Hthu. rewrite Ea.
  assert (F1 : tframe th = 1).
  { apply (map_nth_error tframe) in Hth. rewrite Et in Hth. simpl in Hth. congruence. }
  assert (Fu : tframe thu = 0 \/ tframe thu = 2).
  { apply (map_nth_error tframe) in Hthu. rewrite Et in Hthu.
    destruct u as [|[|[|u]]]; simpl in Hthu; try congruence; try (inversion Hthu; auto).
    destruct u; discriminate. }
  rewrite F1.
  assert (R0 : ~ reach [None; Some 0; Some 0] 0 1).
  { intros R. inversion R as [|f q g Hn R']; subst. simpl in Hn. discriminate. }
  destruct Fu as [-> | ->]; auto.
  intros R. inversion R as [|f q g Hn R']; subst. simpl in Hn. inversion Hn; subst. auto.
Qed.

Definition worker_start : lview :=
  {| lv_data := [VChan 0; VNil]; lv_code := worker_body; lv_phase := PRun |}.

Lemma premises_inhabited :
  (* the premises of [activation_frame_private], [isolation], [readonly_run] hold of the witness ... *)
  wf (main_done PerExec) /\ isolated (main_done PerExec) 1
  /\ lview_of (main_done PerExec) 1 = Some worker_start
  /\ code_local (lv_code worker_start) = true /\ code_no_go (lv_code worker_start) = true
  /\ gen_readonly PerExec (lv_code worker_start) = true
  /\ readonly_cond PerExec witness_prog witness_init
  (* ... and the conclusion is not trivial there: the worker does receive its value *)
  /\ lview_of (fst (run_steps PerExec witness_prog [1; 2; 1; 1; 2; 2] (main_done PerExec))) 1
     = Some {| lv_data := [VChan 0; VInt 7]; lv_code := []; lv_phase := PRun |}
  /\ existsb (fun e => match e with EvRecv 1 _ _ _ _ => true | _ => false end)
             (snd (run PerExec witness_prog witness_sched witness_init)) = true.
Proof.
  split; [apply wf_main_done|]. split; [apply isolated_main_done|].
  split; [reflexivity|]. split; [reflexivity|]. split; [reflexivity|]. split; [reflexivity|].
  split; [left; split; [reflexivity|apply all_run_phase_ok, all_run_witness_init]|].
  split; vm_compute; reflexivity.
Qed.

Lemma select_free_inhabited :
  (* a select-free program with two communicating goroutines: premise and a non-trivial run *)
  let p : prog := [(1, [IRecv (ESlot 0 0) 0 1])] in
  let s0 := {| frames := [{| anc := None; data := [VNil] |}]; chans := []; gens := [];
               threads := [{| tframe := 0; tphase := PRun;
                              tcode := [IMake 0 0; IGo 0 [ESlot 0 0]; ISend (ESlot 0 0) (EConst (VInt 5))] |}] |} in
  prog_no_select p = true /\ threads_no_select s0
  /\ received (fst (run Shared p [0; 0; 0; 1] s0)) 1 = VInt 5.
Proof.
  cbv zeta. split; [reflexivity|]. split; [|vm_compute; reflexivity].
  intros [|[|u]] thu; simpl; intros H; try discriminate; try (destruct u; discriminate).
  inversion H; reflexivity.
Qed.

Lemma table_inhabited : captured_readonly [] = true /\ variant_of [] = PerExec.
Proof. split; reflexivity. Qed.

(* ------------------------------------------------------------------ *)
(** * The frame slot of a function literal (Conc/Closure.v) *)

Lemma lit_step_nowb_inv st t :
  ops_ok (slot st) (mainops st) -> calls_ok (calls st) ->
  ops_ok (slot (lit_step false st t)) (mainops (lit_step false st t))
  /\ calls_ok (calls (lit_step false st t)).
Proof.
  intros Ho Hc. destruct t as [|j]; cbn [lit_step].
  - destruct (mainops st) as [|[j|j] r] eqn:E; cbn [slot mainops calls]; auto.
    + rewrite E. auto.
    + cbn [ops_ok] in Ho. destruct Ho as [Hs Hr]. split; auto.
      intros j' c Hin. apply in_app_or in Hin as [Hin|[Hin|[]]]; auto.
      inversion Hin; subst. exact Hs.
  - destruct (called_by st j) as [[c|]|]; auto.
    destruct (existsb (Nat.eqb j) (ended st)); auto.
Qed.

(** without the write-back: under every schedule, every go statement calls the closure of its own iteration *)
Theorem getfunc_no_writeback_full sched : forall st,
  ops_ok (slot st) (mainops st) -> calls_ok (calls st) -> calls_ok (calls (lit_run false sched st)).
Proof.
  unfold lit_run. induction sched as [|t r IH]; intros st Ho Hc; simpl; auto.
  destruct (lit_step_nowb_inv st t Ho Hc) as [Ho1 Hc1]. auto.
Qed.

Lemma lit_prog_ok sl from n : ops_ok sl (lit_prog from n).
Proof.
  unfold lit_prog. revert sl from. induction n as [|n IH]; intros sl from; simpl; auto.
Qed.

Corollary getfunc_no_writeback_loop n sched : calls_ok (calls (lit_run false sched (lit_init n))).
Proof.
  apply getfunc_no_writeback_full; simpl; [apply lit_prog_ok|]. intros j c [].
Qed.

(** with the write-back (the code today): a nil function is called / a stale closure is called *)
Lemma getfunc_writeback_refuted :
  (* iteration 0 complete; literal evaluated for iteration 1; goroutine 0 ends (writes back the zero Value);
     the go statement of iteration 1 calls a nil function *)
  calls (lit_run true [0; 0; 0; 1; 0] (lit_init 2)) = [(0, Some 0); (1, None)]
  (* iterations 0 and 1 complete; literal evaluated for iteration 2; goroutine 1 ends (writes back closure 0);
     the go statement of iteration 2 calls the closure of iteration 0 *)
  /\ calls (lit_run true [0; 0; 0; 0; 0; 2; 0] (lit_init 3)) = [(0, Some 0); (1, Some 1); (2, Some 0)]
  (* the same schedules without the write-back *)
  /\ calls (lit_run false [0; 0; 0; 1; 0] (lit_init 2)) = [(0, Some 0); (1, Some 1)]
  /\ calls (lit_run false [0; 0; 0; 0; 0; 2; 0] (lit_init 3)) = [(0, Some 0); (1, Some 1); (2, Some 2)].
Proof. vm_compute. repeat split; reflexivity. Qed.

Lemma getfunc_writeback_not_ok : ~ (forall n sched, calls_ok (calls (lit_run true sched (lit_init n)))).
Proof.
  intros H. specialize (H 2 [0; 0; 0; 1; 0] 1 None).
  destruct getfunc_writeback_refuted as (E & _). rewrite E in H.
  assert (C : None = Some 1) by (apply H; simpl; auto). discriminate C.
Qed.
