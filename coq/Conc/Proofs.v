(** C08 — proofs about the machine of Conc/Machine.v. All statements quantify over every schedule
    (a list of thread ids of any length) and are proved by induction over it. *)
From Coq Require Import List ZArith Bool Arith Lia.
From Verif Require Import Conc.Machine Conc.Select Conc.Capture.
From Verif Require Import gen.Captured_gen.
Import ListNotations.

(* ------------------------------------------------------------------ *)
(** * upd *)

Lemma length_upd {A} (l : list A) n x : length (upd l n x) = length l.
Proof. revert n; induction l as [|h r IH]; intros [|n]; simpl; auto. Qed.

Lemma nth_error_upd_same {A} (l : list A) n x :
  n < length l -> nth_error (upd l n x) n = Some x.
Proof.
  revert n; induction l as [|h r IH]; intros [|n]; simpl; intros H; try lia; auto.
  apply IH; lia.
Qed.

Lemma nth_error_upd_other {A} (l : list A) n m x :
  m <> n -> nth_error (upd l n x) m = nth_error l m.
Proof.
  revert n m; induction l as [|h r IH]; intros [|n] [|m]; simpl; intros H; auto; try congruence.
Qed.

Lemma nth_error_upd_some {A} (l : list A) n m x y :
  nth_error (upd l n x) m = Some y -> (m = n /\ y = x) \/ (m <> n /\ nth_error l m = Some y).
Proof.
  intros H. destruct (Nat.eq_dec m n) as [->|Hne].
  - left. split; auto.
    assert (Hl : n < length l).
    { assert (Hn : nth_error (upd l n x) n <> None) by congruence.
      apply nth_error_Some in Hn. rewrite length_upd in Hn. exact Hn. }
    rewrite nth_error_upd_same in H by exact Hl. congruence.
  - right. split; auto. rewrite nth_error_upd_other in H by exact Hne. exact H.
Qed.

Lemma map_upd_inv {A B} (f : A -> B) (l : list A) n x y :
  nth_error l n = Some y -> f x = f y -> map f (upd l n x) = map f l.
Proof.
  revert n; induction l as [|h r IH]; intros [|n]; simpl; intros H E; auto.
  - inversion H; subst. now rewrite E.
  - f_equal. eapply IH; eauto.
Qed.

(* ------------------------------------------------------------------ *)
(** * frames: writes keep the anc table; getFrame stays inside the ancestor chain *)

Lemma ancs_wr_at fs g i x : ancs (wr_at fs g i x) = ancs fs.
Proof.
  unfold wr_at, ancs. destruct (nth_error fs g) as [fr|] eqn:E; auto.
  eapply map_upd_inv; eauto.
Qed.

Lemma ancs_wr fs f l i x : ancs (wr fs f l i x) = ancs fs.
Proof. unfold wr. destruct (get_frame (ancs fs) f l); auto using ancs_wr_at. Qed.

Lemma length_wr_at fs g i x : length (wr_at fs g i x) = length fs.
Proof. unfold wr_at. destruct (nth_error fs g); auto using length_upd. Qed.

Lemma length_wr fs f l i x : length (wr fs f l i x) = length fs.
Proof. unfold wr. destruct (get_frame (ancs fs) f l); auto using length_wr_at. Qed.

Lemma get_frame_reach a f l g : get_frame a f l = Some g -> reach a f g.
Proof.
  revert f; induction l as [|l IH]; simpl; intros f H.
  - inversion H; subst; constructor.
  - destruct (nth_error a f) as [[p|]|] eqn:E; try discriminate.
    econstructor 2; eauto.
Qed.

Lemma reach_app a x f g : reach a f g -> reach (a ++ x) f g.
Proof.
  induction 1 as [f|f p g Hn _ IH]; [constructor|].
  econstructor 2; eauto. rewrite nth_error_app1; auto.
  apply nth_error_Some. congruence.
Qed.

Lemma reach_trans a f g h : reach a f g -> reach a g h -> reach a f h.
Proof. induction 1; auto. intros. econstructor 2; eauto. Qed.

Lemma rd_fp_reach fs f l g : In g (rd_fp fs f l) -> reach (ancs fs) f g.
Proof.
  unfold rd_fp. destruct (get_frame (ancs fs) f l) eqn:E; simpl; [|tauto].
  intros [<-|[]]. eauto using get_frame_reach.
Qed.

Lemma eval_fp_reach fs f e g : In g (eval_fp fs f e) -> reach (ancs fs) f g.
Proof.
  induction e; simpl; intros H; try tauto; eauto using rd_fp_reach.
  apply in_app_or in H; tauto.
Qed.

Lemma flat_fp_reach fs f es g : In g (flat_fp fs f es) -> reach (ancs fs) f g.
Proof.
  unfold flat_fp. intros H. apply in_flat_map in H as (e & _ & H). eauto using eval_fp_reach.
Qed.

Lemma in_evs_rd t l u g w : In (EvFrame u g w) (evs_rd t l) -> u = t /\ In g l.
Proof. unfold evs_rd. intros H. apply in_map_iff in H as (x & E & H). inversion E; subst; auto. Qed.

Lemma in_evs_wr t l u g w : In (EvFrame u g w) (evs_wr t l) -> u = t /\ In g l.
Proof. unfold evs_wr. intros H. apply in_map_iff in H as (x & E & H). inversion E; subst; auto. Qed.

(* ------------------------------------------------------------------ *)
(** * One step: a case analysis tactic *)

Ltac step_cases Hth :=
  unfold step;
  match goal with
  | |- context [nth_error (threads ?s) ?t] =>
      destruct (nth_error (threads s) t) as [?th|] eqn:Hth; [|simpl; try tauto]
  end.

Ltac break_match :=
  match goal with
  | |- context [match ?x with _ => _ end] => destruct x eqn:?
  | |- context [let '(_, _) := ?x in _] => destruct x eqn:?
  end.

(** ** (a) the anc table only grows at the end; existing threads keep their frame *)

Definition ancs_prefix (s s' : state) : Prop := exists x, ancs (frames s') = ancs (frames s) ++ x.

Lemma ancs_prefix_refl s : ancs_prefix s s.
Proof. exists []. now rewrite app_nil_r. Qed.

Lemma ancs_prefix_trans s1 s2 s3 : ancs_prefix s1 s2 -> ancs_prefix s2 s3 -> ancs_prefix s1 s3.
Proof. intros [x E1] [y E2]. exists (x ++ y). now rewrite E2, E1, app_assoc. Qed.

Lemma step_ancs v p s t : ancs_prefix s (fst (step v p s t)).
Proof.
  step_cases Hth; [|apply ancs_prefix_refl].
  repeat break_match; simpl; try apply ancs_prefix_refl;
    unfold ancs_prefix; simpl;
    try (exists []; rewrite app_nil_r; rewrite ?ancs_wr; reflexivity).
  eexists. unfold ancs. rewrite map_app. reflexivity.
Qed.

Definition threads_kept (s s' : state) : Prop :=
  forall u thu, nth_error (threads s) u = Some thu ->
                exists thu', nth_error (threads s') u = Some thu' /\ tframe thu' = tframe thu.

Lemma threads_kept_refl s : threads_kept s s.
Proof. intros u thu H; eauto. Qed.

Lemma threads_kept_trans s1 s2 s3 : threads_kept s1 s2 -> threads_kept s2 s3 -> threads_kept s1 s3.
Proof.
  intros H1 H2 u thu H. destruct (H1 _ _ H) as (th2 & E2 & F2).
  destruct (H2 _ _ E2) as (th3 & E3 & F3). exists th3; split; auto; congruence.
Qed.

Lemma upd_thread_kept (l : list thread) t th th' u thu :
  nth_error l t = Some th -> tframe th' = tframe th ->
  nth_error l u = Some thu ->
  exists thu', nth_error (upd l t th') u = Some thu' /\ tframe thu' = tframe thu.
Proof.
  intros Ht Hf Hu. destruct (Nat.eq_dec u t) as [->|Hne].
  - exists th'. split; [|congruence].
    apply nth_error_upd_same. apply nth_error_Some; congruence.
  - exists thu. split; auto. now rewrite nth_error_upd_other.
Qed.

Lemma step_threads v p s t : threads_kept s (fst (step v p s t)).
Proof.
  step_cases Hth; [|apply threads_kept_refl].
  repeat break_match; simpl; try apply threads_kept_refl;
    intros u thu Hu; simpl;
    try (eapply upd_thread_kept; eauto; reflexivity).
  destruct (upd_thread_kept (threads s) t th (th_code th l) u thu Hth eq_refl Hu) as (thu' & E & F).
  exists thu'. split; auto. rewrite nth_error_app1; auto. apply nth_error_Some; congruence.
Qed.

(** ** (b) every frame access of a step goes through the ancestor chain of the stepping thread's own frame *)

Lemma step_frame_events v p s t u g w :
  In (EvFrame u g w) (snd (step v p s t)) ->
  u = t /\ exists th, nth_error (threads s) t = Some th /\ reach (ancs (frames s)) (tframe th) g.
Proof.
  step_cases Hth.
  repeat break_match; simpl; try tauto; intros H;
    repeat (match goal with
            | H : _ \/ _ |- _ => destruct H as [H|H]
            | H : False |- _ => destruct H
            | H : In _ (_ ++ _) |- _ => apply in_app_or in H
            | H : In _ [] |- _ => destruct H
            | H : In _ (_ :: _) |- _ => destruct H as [H|H]
            | H : In (EvFrame _ _ _) (evs_rd _ _) |- _ => apply in_evs_rd in H as [-> H]
            | H : In (EvFrame _ _ _) (evs_wr _ _) |- _ => apply in_evs_wr in H as [-> H]
            | H : _ = EvFrame _ _ _ |- _ => first [discriminate H | inversion H; subst; clear H]
            end);
    (split; [reflexivity|]; eexists; split; [reflexivity|]);
    eauto using eval_fp_reach, rd_fp_reach, flat_fp_reach, reach.
Qed.

(* ------------------------------------------------------------------ *)
(** * Runs *)

Lemma run_inv v p sched s :
  ancs_prefix s (fst (run v p sched s)) /\ threads_kept s (fst (run v p sched s)).
Proof.
  revert s; induction sched as [|t r IH]; intros s; simpl.
  - split; [apply ancs_prefix_refl|apply threads_kept_refl].
  - destruct (step v p s t) as [s1 e1] eqn:E1.
    destruct (run v p r s1) as [s2 e2] eqn:E2. simpl.
    specialize (IH s1). rewrite E2 in IH; simpl in IH. destruct IH as [IHa IHt].
    pose proof (step_ancs v p s t) as Ha. pose proof (step_threads v p s t) as Ht.
    rewrite E1 in Ha, Ht; simpl in Ha, Ht.
    split; eauto using ancs_prefix_trans, threads_kept_trans.
Qed.

Lemma reach_prefix s s' f g : ancs_prefix s s' -> reach (ancs (frames s)) f g -> reach (ancs (frames s')) f g.
Proof. intros [x ->] H. now apply reach_app. Qed.

(** T1. Frames are addressed only through the own ancestor chain, under every schedule. *)
Theorem frames_private v p sched s t g w :
  In (EvFrame t g w) (snd (run v p sched s)) ->
  exists th, nth_error (threads (fst (run v p sched s))) t = Some th
             /\ reach (ancs (frames (fst (run v p sched s)))) (tframe th) g.
Proof.
  revert s; induction sched as [|u r IH]; intros s; simpl; [tauto|].
  destruct (step v p s u) as [s1 e1] eqn:E1.
  destruct (run v p r s1) as [s2 e2] eqn:E2. simpl.
  intros H. apply in_app_or in H as [H|H].
  - pose proof (step_frame_events v p s u t g w) as Hs. rewrite E1 in Hs; simpl in Hs.
    destruct (Hs H) as (-> & th & Hth & Hr).
    pose proof (step_ancs v p s u) as Ha. pose proof (step_threads v p s u) as Ht.
    rewrite E1 in Ha, Ht; simpl in Ha, Ht.
    destruct (run_inv v p r s1) as [Ha2 Ht2]. rewrite E2 in Ha2, Ht2; simpl in Ha2, Ht2.
    destruct (Ht _ _ Hth) as (th1 & Hth1 & F1).
    destruct (Ht2 _ _ Hth1) as (th2 & Hth2 & F2).
    exists th2. split; auto. rewrite F2, F1.
    eapply reach_prefix; [exact Ha2|]. eapply reach_prefix; [exact Ha|]. exact Hr.
  - specialize (IH s1). rewrite E2 in IH; simpl in IH. auto.
Qed.

(* ------------------------------------------------------------------ *)
(** * Generated state is read-only, and receives happen on designated channels *)

Definition threads_no_select (s : state) : Prop :=
  forall u thu, nth_error (threads s) u = Some thu -> code_no_select (tcode thu) = true.

(** a thread waiting inside reflect.Select waits on its own vector *)
Definition phase_ok (s : state) : Prop :=
  forall u thu own vec, nth_error (threads s) u = Some thu -> tphase thu = PWait own vec -> vec = own.

(** the side condition under which the machine never writes generated state *)
Definition readonly_cond (v : variant) (p : prog) (s : state) : Prop :=
  (v = PerExec /\ phase_ok s) \/ (prog_no_select p = true /\ threads_no_select s).

Lemma find_ready_spec cs vec j0 j c x q :
  find_ready cs vec j0 = Some (j, c, x, q) ->
  j0 <= j /\ nth (j - j0) vec VNil = VChan c /\ nth_error cs c = Some (x :: q).
Proof.
  revert j0; induction vec as [|y r IH]; simpl; intros j0 H; [discriminate|].
  assert (Hrec : find_ready cs r (S j0) = Some (j, c, x, q) ->
                 j0 <= j /\ nth (j - j0) (y :: r) VNil = VChan c /\ nth_error cs c = Some (x :: q)).
  { intros H'. destruct (IH _ H') as (Hle & Hn & Hc). split; [lia|]. split; auto.
    replace (j - j0) with (S (j - S j0)) by lia. exact Hn. }
  destruct y as [z|c'|]; auto.
  destruct (nth_error cs c') as [[|x' q']|] eqn:E; auto.
  inversion H; subst. split; [lia|]. rewrite Nat.sub_diag. simpl. auto.
Qed.

Lemma val_eqb_refl a : val_eqb a a = true.
Proof. destruct a; simpl; auto using Z.eqb_refl, Nat.eqb_refl. Qed.

Lemma code_no_select_tail i k : code_no_select (i :: k) = true -> instr_no_select i = true /\ code_no_select k = true.
Proof. unfold code_no_select; simpl. intros H. apply andb_true_iff in H. exact H. Qed.

Lemma prog_no_select_nth p fn nloc body :
  prog_no_select p = true -> nth fn p (0, []) = (nloc, body) -> code_no_select body = true.
Proof.
  unfold prog_no_select. intros H E.
  destruct (nth_in_or_default fn p (0, [])) as [Hin|Hd].
  - rewrite forallb_forall in H. specialize (H _ Hin). rewrite E in H. exact H.
  - rewrite Hd in E. inversion E; subst. reflexivity.
Qed.

(** events of one step under the side condition: no write to generated state, receives on designated channels *)
Lemma step_readonly v p s t e :
  readonly_cond v p s -> In e (snd (step v p s t)) -> is_gen_write e = false /\ recv_ok e = true.
Proof.
  intros Hc. step_cases Hth.
  assert (Hsel : forall sd cls k, tcode th = ISelect sd cls :: k -> v = PerExec).
  { intros sd cls k E. destruct Hc as [[-> _]|[_ Hns]]; auto.
    specialize (Hns _ _ Hth). rewrite E in Hns. discriminate. }
  assert (Hph : forall own vec sd cls k, tphase th = PWait own vec -> tcode th = ISelect sd cls :: k -> vec = own).
  { intros own vec sd cls k E Ec. destruct Hc as [[_ Hp]|[_ Hns]]; [eauto|].
    specialize (Hns _ _ Hth). rewrite Ec in Hns. discriminate. }
  repeat break_match; simpl; try tauto; intros H;
    repeat (match goal with
            | H : _ \/ _ |- _ => destruct H as [H|H]
            | H : False |- _ => destruct H
            | H : In _ (_ ++ _) |- _ => apply in_app_or in H
            | H : In _ [] |- _ => destruct H
            | H : In _ (_ :: _) |- _ => destruct H as [H|H]
            | H : In _ (evs_rd _ _) |- _ => unfold evs_rd in H; apply in_map_iff in H as (? & <- & _)
            | H : In _ (evs_wr _ _) |- _ => unfold evs_wr in H; apply in_map_iff in H as (? & <- & _)
            end);
    subst; simpl; auto using val_eqb_refl, Nat.eqb_refl.
  - specialize (Hsel _ _ _ eq_refl). discriminate.
  - split; auto.
    match goal with Hf : find_ready _ _ 0 = Some _ |- _ => apply find_ready_spec in Hf as (_ & Hn & _) end.
    rewrite Nat.sub_0_r in Hn.
    rewrite (Hph _ _ _ _ _ eq_refl eq_refl) in Hn.
    rewrite Hn. apply val_eqb_refl.
Qed.

(** the side condition is an invariant *)
Lemma step_keeps_readonly v p s t : readonly_cond v p s -> readonly_cond v p (fst (step v p s t)).
Proof.
  intros [[-> Hp]|[Hps Hns]].
  - left. split; auto.
    step_cases Hth; try exact Hp.
    repeat break_match; simpl; try exact Hp; try discriminate;
      intros u thu own' vec' Hu Hph; simpl in Hu;
      try (apply nth_error_upd_some in Hu as [[-> ->]|[Hne Hu]]; simpl in Hph;
           [first [discriminate | now inversion Hph] | eauto]).
    (* spawn *)
    destruct (Nat.lt_ge_cases u (length (upd (threads s) t (th_code th l)))) as [Hlt|Hge].
    + rewrite nth_error_app1 in Hu by exact Hlt.
      apply nth_error_upd_some in Hu as [[-> ->]|[Hne Hu]]; simpl in Hph; [discriminate|eauto].
    + rewrite nth_error_app2 in Hu by exact Hge.
      destruct (u - length (upd (threads s) t (th_code th l))) as [|[|]]; simpl in Hu; try discriminate.
      inversion Hu; subst. simpl in Hph. discriminate.
  - right. split; auto.
    step_cases Hth; try exact Hns.
    pose proof (Hns _ _ Hth) as Hcode.
    repeat break_match; simpl; try exact Hns;
      try (apply code_no_select_tail in Hcode as [Hi Hk]);
      try discriminate;
      intros u thu Hu; simpl in Hu;
      try (apply nth_error_upd_some in Hu as [[-> ->]|[Hne Hu]]; simpl; eauto).
    destruct (Nat.lt_ge_cases u (length (upd (threads s) t (th_code th l)))) as [Hlt|Hge].
    + rewrite nth_error_app1 in Hu by exact Hlt.
      apply nth_error_upd_some in Hu as [[-> ->]|[Hne Hu]]; simpl; eauto.
    + rewrite nth_error_app2 in Hu by exact Hge.
      destruct (u - length (upd (threads s) t (th_code th l))) as [|[|]]; simpl in Hu; try discriminate.
      inversion Hu; subst. simpl. eapply prog_no_select_nth; eauto.
Qed.

(** T4 + T3. Under the side condition, for every schedule: generated state is never written,
    and every value is received on the channel the receiving activation designated. *)
Theorem readonly_run v p sched s :
  readonly_cond v p s ->
  no_gen_write (snd (run v p sched s)) = true /\ no_crosstalk (snd (run v p sched s)) = true.
Proof.
  revert s; induction sched as [|t r IH]; intros s Hc; simpl; [auto|].
  destruct (step v p s t) as [s1 e1] eqn:E1.
  destruct (run v p r s1) as [s2 e2] eqn:E2. simpl.
  pose proof (step_keeps_readonly v p s t Hc) as Hc1. rewrite E1 in Hc1; simpl in Hc1.
  specialize (IH s1 Hc1). rewrite E2 in IH; simpl in IH. destruct IH as [IHw IHc].
  unfold no_gen_write, no_crosstalk in *. rewrite !forallb_app, IHw, IHc, !andb_true_r.
  split; apply forallb_forall; intros e He;
    pose proof (step_readonly v p s t e Hc) as Hs; rewrite E1 in Hs; simpl in Hs;
    destruct (Hs He) as [Hw Hr]; [now rewrite Hw|exact Hr].
Qed.

(** no write at all, hence no conflicting pair of accesses to generated state *)
Lemma gen_access_no_write es sd :
  forallb (fun e => negb (is_gen_write e)) es = true ->
  gen_access es sd = None \/ gen_access es sd = Some false.
Proof.
  induction es as [|e r IH]; simpl; intros H; [auto|].
  apply andb_true_iff in H as [He Hr]. specialize (IH Hr).
  destruct e; auto. destruct (Nat.eqb s sd); auto.
  destruct w; simpl in He; [discriminate|].
  right. destruct IH as [->| ->]; reflexivity.
Qed.

Lemma run_steps_trace v p sched s :
  fst (run_steps v p sched s) = fst (run v p sched s)
  /\ flat_map snd (snd (run_steps v p sched s)) = snd (run v p sched s).
Proof.
  revert s; induction sched as [|t r IH]; intros s; simpl; [auto|].
  destruct (step v p s t) as [s1 e1].
  specialize (IH s1). destruct (run_steps v p r s1) as [s2 e2]. destruct (run v p r s1) as [s2' e2'].
  simpl in *. destruct IH as [-> ->]. auto.
Qed.

Lemma gen_race_no_write nsel tr :
  forallb (fun e => negb (is_gen_write e)) (flat_map snd tr) = true -> gen_race nsel tr = false.
Proof.
  induction tr as [|[t1 e1] r IH]; simpl; intros H; [auto|].
  rewrite forallb_app in H. apply andb_true_iff in H as [H1 Hr].
  destruct r as [|[t2 e2] r']; [reflexivity|].
  rewrite (IH Hr). rewrite orb_false_r.
  apply andb_false_iff. right.
  simpl in Hr. rewrite forallb_app in Hr. apply andb_true_iff in Hr as [H2 _].
  induction (seq 0 nsel) as [|sd l IHl]; simpl; [reflexivity|].
  rewrite IHl, orb_false_r.
  destruct (gen_access_no_write e1 sd H1) as [->| ->]; auto.
  destruct (gen_access_no_write e2 sd H2) as [->| ->]; auto.
Qed.

Theorem readonly_no_race v p sched s nsel :
  readonly_cond v p s -> gen_race nsel (snd (run_steps v p sched s)) = false.
Proof.
  intros Hc. apply gen_race_no_write.
  destruct (run_steps_trace v p sched s) as [_ ->].
  exact (proj1 (readonly_run v p sched s Hc)).
Qed.

(* ------------------------------------------------------------------ *)
(** * The own frame of an activation that starts no goroutine is touched by no other thread *)

Lemma reach_app_inv a x f g :
  (forall f p, nth_error a f = Some (Some p) -> p < length a) ->
  f < length a -> reach (a ++ x) f g -> reach a f g.
Proof.
  intros Hwf Hf H. induction H as [f|f p g Hn _ IH]; [constructor|].
  rewrite nth_error_app1 in Hn by exact Hf.
  econstructor 2; eauto.
Qed.

Lemma ancs_length fs : length (ancs fs) = length fs.
Proof. unfold ancs. apply map_length. Qed.

(** the shape of a step: either no frame and no thread is created, or exactly one of each (go) *)
Lemma step_shape v p s t :
  let s' := fst (step v p s t) in
  (ancs (frames s') = ancs (frames s) /\
   (threads s' = threads s \/
    exists th th', nth_error (threads s) t = Some th /\ tframe th' = tframe th /\
                   (tcode th' = tcode th \/ exists i, tcode th = i :: tcode th') /\
                   threads s' = upd (threads s) t th'))
  \/ (exists th fn args k body,
        nth_error (threads s) t = Some th /\ tcode th = IGo fn args :: k /\
        ancs (frames s') = ancs (frames s) ++ [Some (tframe th)] /\
        threads s' = upd (threads s) t (th_code th k)
                         ++ [{| tframe := length (frames s); tcode := body; tphase := PRun |}]).
Proof.
  step_cases Hth; try solve [left; auto].
  repeat break_match; simpl; try (left; split; [reflexivity|left; reflexivity]);
    try (left; split; [rewrite ?ancs_wr; reflexivity|]; right; exists th;
         eexists; split; [reflexivity|]; split; [|split; [|reflexivity]]; simpl; eauto).
  right. exists th. do 4 eexists. split; [reflexivity|]. split; [eassumption|].
  split; [|reflexivity]. unfold ancs. rewrite map_app. reflexivity.
Qed.

Lemma step_wf v p s t : wf s -> wf (fst (step v p s t)).
Proof.
  intros [Ha Ht]. destruct (step_shape v p s t) as [[Ea Hthr]|(th & fn & args & k & body & Hth & Hc & Ea & Et)].
  - assert (El : length (frames (fst (step v p s t))) = length (frames s)).
    { rewrite <- !ancs_length. now rewrite Ea. }
    split.
    + intros f q H. rewrite Ea in H. rewrite El. eauto.
    + intros u thu H. rewrite El. destruct Hthr as [E|(th & th' & Hth & Hf & _ & E)]; rewrite E in H; eauto.
      apply nth_error_upd_some in H as [[-> ->]|[_ H]]; eauto. rewrite Hf. eauto.
  - assert (El : length (frames (fst (step v p s t))) = S (length (frames s))).
    { rewrite <- !ancs_length. rewrite Ea, app_length. simpl. lia. }
    split.
    + intros f q H. rewrite Ea in H. rewrite El.
      destruct (Nat.lt_ge_cases f (length (ancs (frames s)))) as [Hlt|Hge].
      * rewrite nth_error_app1 in H by exact Hlt. specialize (Ha _ _ H). lia.
      * rewrite nth_error_app2 in H by exact Hge.
        destruct (f - length (ancs (frames s))) as [|[|]]; simpl in H; try discriminate.
        inversion H; subst. specialize (Ht _ _ Hth). lia.
    + intros u thu H. rewrite El. rewrite Et in H.
      destruct (Nat.lt_ge_cases u (length (upd (threads s) t (th_code th k)))) as [Hlt|Hge].
      * rewrite nth_error_app1 in H by exact Hlt.
        apply nth_error_upd_some in H as [[-> ->]|[_ H]]; simpl.
        -- specialize (Ht _ _ Hth). lia.
        -- specialize (Ht _ _ H). lia.
      * rewrite nth_error_app2 in H by exact Hge.
        destruct (u - length (upd (threads s) t (th_code th k))) as [|[|]]; simpl in H; try discriminate.
        inversion H; subst. simpl. lia.
Qed.

(** invariant for a target activation [t] with own frame [ft] *)
Definition priv_inv (s : state) (t : tid) (ft : fid) : Prop :=
  wf s
  /\ (exists th, nth_error (threads s) t = Some th /\ tframe th = ft /\ code_no_go (tcode th) = true)
  /\ (forall u thu, u <> t -> nth_error (threads s) u = Some thu -> ~ reach (ancs (frames s)) (tframe thu) ft).

Lemma code_no_go_tail i k : code_no_go (i :: k) = true -> instr_no_go i = true /\ code_no_go k = true.
Proof. unfold code_no_go; simpl. intros H. apply andb_true_iff in H. exact H. Qed.

Lemma step_keeps_priv v p s x t ft : priv_inv s t ft -> priv_inv (fst (step v p s x)) t ft.
Proof.
  intros (Hwf & (tht & Htt & Hft & Hng) & Hiso).
  split; [now apply step_wf|].
  destruct Hwf as [Ha Ht].
  destruct (step_shape v p s x) as [[Ea Hthr]|(th & fn & args & k & body & Hth & Hc & Ea & Et)].
  - destruct Hthr as [E|(th & th' & Hth & Hf & Hcode & E)].
    + rewrite E, Ea. split; eauto.
    + split.
      * rewrite E. destruct (Nat.eq_dec x t) as [->|Hne].
        -- exists th'. rewrite nth_error_upd_same by (apply nth_error_Some; congruence).
           rewrite Htt in Hth; inversion Hth; subst th.
           split; auto. split; [congruence|].
           destruct Hcode as [->|[i Ei]]; auto. rewrite Ei in Hng. now apply code_no_go_tail in Hng.
        -- exists tht. rewrite nth_error_upd_other by auto. auto.
      * intros u thu Hu H. rewrite E in H. rewrite Ea.
        apply nth_error_upd_some in H as [[-> ->]|[_ H]]; eauto.
        rewrite Hf. eauto.
  - assert (Hxt : x <> t).
    { intros ->. rewrite Htt in Hth; inversion Hth; subst th. rewrite Hc in Hng. discriminate. }
    split.
    + exists tht. rewrite Et. rewrite nth_error_app1.
      * rewrite nth_error_upd_other by auto. auto.
      * rewrite length_upd. apply nth_error_Some. congruence.
    + intros u thu Hu H. rewrite Et in H. rewrite Ea. intros Hr.
      assert (Hftl : ft < length (ancs (frames s))).
      { rewrite ancs_length. rewrite <- Hft. eauto. }
      assert (Ha' : forall f q, nth_error (ancs (frames s)) f = Some (Some q) -> q < length (ancs (frames s))).
      { intros f q Hq. rewrite ancs_length. eauto. }
      destruct (Nat.lt_ge_cases u (length (upd (threads s) x (th_code th k)))) as [Hlt|Hge].
      * rewrite nth_error_app1 in H by exact Hlt.
        assert (Hold : exists thu0, nth_error (threads s) u = Some thu0 /\ tframe thu0 = tframe thu).
        { apply nth_error_upd_some in H as [[-> ->]|[_ H]]; eauto. }
        destruct Hold as (thu0 & Hu0 & Hf0).
        assert (Hl0 : tframe thu < length (ancs (frames s))) by (rewrite ancs_length, <- Hf0; eauto).
        pose proof (reach_app_inv _ _ _ _ Ha' Hl0 Hr) as Hr0.
        rewrite <- Hf0 in Hr0. exact (Hiso _ _ Hu Hu0 Hr0).
      * rewrite nth_error_app2 in H by exact Hge.
        destruct (u - length (upd (threads s) x (th_code th k))) as [|[|]]; simpl in H; try discriminate.
        inversion H; subst thu; simpl in Hr.
        inversion Hr as [|f0 q g0 Hn Hr']; subst.
        -- rewrite ancs_length in Hftl. lia.
        -- rewrite nth_error_app2 in Hn by (rewrite ancs_length; lia).
           rewrite ancs_length, Nat.sub_diag in Hn. simpl in Hn. inversion Hn; subst q.
           assert (Hl0 : tframe th < length (ancs (frames s))) by (rewrite ancs_length; eauto).
           pose proof (reach_app_inv _ _ _ _ Ha' Hl0 Hr') as Hr0.
           exact (Hiso _ _ Hxt Hth Hr0).
Qed.

(** T1'. For every schedule: no other thread ever reads or writes the frame of an activation
    that was not spawned from (is [isolated]) and that starts no goroutine itself. *)
Theorem activation_frame_private v p sched s t th :
  wf s -> nth_error (threads s) t = Some th -> code_no_go (tcode th) = true -> isolated s t ->
  forall u w, In (EvFrame u (tframe th) w) (snd (run v p sched s)) -> u = t.
Proof.
  intros Hwf Hth Hng Hiso.
  assert (Hinv : priv_inv s t (tframe th)).
  { split; auto. split; [eauto|]. intros u thu Hu H. exact (Hiso _ Hth _ _ Hu H). }
  clear Hwf Hth Hng Hiso. generalize (tframe th) Hinv. clear Hinv th. intros ft Hinv.
  revert s Hinv; induction sched as [|x r IH]; intros s Hinv u w; simpl; [tauto|].
  destruct (step v p s x) as [s1 e1] eqn:E1.
  destruct (run v p r s1) as [s2 e2] eqn:E2. simpl.
  intros H. apply in_app_or in H as [H|H].
  - pose proof (step_frame_events v p s x u ft w) as Hs. rewrite E1 in Hs; simpl in Hs.
    destruct (Hs H) as (-> & thx & Hthx & Hr).
    destruct (Nat.eq_dec x t) as [->|Hne]; auto.
    destruct Hinv as (_ & _ & Hiso). exfalso. exact (Hiso _ _ Hne Hthx Hr).
  - pose proof (step_keeps_priv v p s x t ft Hinv) as Hinv1. rewrite E1 in Hinv1; simpl in Hinv1.
    specialize (IH s1 Hinv1 u w). rewrite E2 in IH; simpl in IH. auto.
Qed.
