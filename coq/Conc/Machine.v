(** C08 — concurrency: the interpreter's bookkeeping under an arbitrary scheduler.

    What is transcribed (interp/run.go, interp/interp.go at f4124c4):
    - [frame]: [anc] pointer + [data] slots ([type frame], [newFrame]); slots are addressed by
      (level, index) through [getFrame(f, l).data[i]] and in no other way;
    - a goroutine ([call], goroutine branch; [callBin], goStmt; a host goroutine calling a wrapped
      function through [genFunctionWrapper]) gets ONE NEW frame [newFrame(f, ...)] whose [anc] is the
      spawning frame and whose slots receive COPIES of the argument values ([dest[i].Set(val)]);
    - every statement has ONE exec closure, generated once ([bltnGenerator]s) and executed by every
      goroutine that reaches the statement; what that closure captured is the *generated state* of
      the statement, shared by all of them. For all generators but one this state is read-only at
      run time. [_select] is the exception: its [cases] vector is allocated when the closure is
      generated and is (a) filled with the executing goroutine's channel operands, (b) handed to
      [reflect.Select], which copies it on entry and then waits. (a) and (b) are separate memory
      accesses, so another goroutine executing the same statement can overwrite the vector in between.
    - channel operations themselves are the host run-time's ([reflect.Value.Send/Recv/Select]); the
      model keeps only *which channel* an operation acts on. Channels are unbounded FIFO queues here:
      blocking/rendez-vous behaviour is the host's and is not what is being verified.

    The machine has two variants of the select statement:
      [Shared]  - the vector lives in the generated state of the statement (the code today);
      [PerExec] - the vector is private to the executing activation (the repaired design, and what
                  the Go specification prescribes: operands are evaluated once, on entering select).
    Both variants take the same micro-steps (fill, snapshot, wait/fire), so that one schedule
    (a list of thread ids, of any length) is meaningful for both.

    Definitions only; proofs are in Conc/Proofs.v. *)
From Coq Require Import List ZArith Bool Arith Lia.
Import ListNotations.

Definition tid := nat.
Definition fid := nat.
Definition chanid := nat.
Definition sid := nat.   (* identity of a select statement = of its generated closure *)

Inductive val := VInt (z : Z) | VChan (c : chanid) | VNil.

Definition val_eqb (a b : val) : bool :=
  match a, b with
  | VInt x, VInt y => Z.eqb x y
  | VChan x, VChan y => Nat.eqb x y
  | VNil, VNil => true
  | _, _ => false
  end.

Definition vadd (a b : val) : val :=
  match a, b with VInt x, VInt y => VInt (x + y) | _, _ => VNil end.

Inductive expr := EConst (v : val) | ESlot (lvl idx : nat) | EAdd (a b : expr).

Inductive instr :=
| ISet (lvl idx : nat) (e : expr)            (* getFrame(f,lvl).data[idx] = e *)
| IMake (lvl idx : nat)                      (* make(chan T) *)
| ISend (ce ve : expr)                       (* ce <- ve *)
| IRecv (ce : expr) (lvl idx : nat)          (* slot = <-ce *)
| ISelect (s : sid) (cls : list (expr * nat))(* select { case slot(0,dst_j) = <-ce_j ... } *)
| IGo (fn : nat) (args : list expr).         (* go fn(args) / a host goroutine calling fn(args) *)

(** A program: function table; each entry = number of extra local slots and the body. *)
Definition prog := list (nat * list instr).

Record frame := { anc : option fid; data : list val }.

Inductive variant := Shared | PerExec.

(** Where a thread is inside a select statement. [own] is the vector of channel operands the
    thread evaluated in its own frame when it entered the statement. *)
Inductive phase :=
| PRun
| PSnap (own : list val)                 (* vector filled, reflect.Select not yet entered *)
| PWait (own vec : list val).            (* inside reflect.Select, waiting on its copy [vec] *)

Record thread := { tframe : fid; tcode : list instr; tphase : phase }.

Record state := {
  frames : list frame;            (* all frames ever created; index = fid *)
  chans : list (list val);        (* shared heap: channel queues; index = chanid *)
  gens : list (list val);         (* generated state: one cases vector per select statement *)
  threads : list thread           (* index = tid *)
}.

(** Events: what a step touches. *)
Inductive event :=
| EvFrame (t : tid) (f : fid) (w : bool)          (* read (false) / write (true) of a slot of frame f *)
| EvGen (t : tid) (s : sid) (w : bool)            (* access to the generated state of statement s *)
| EvMake (t : tid) (c : chanid)
| EvSend (t : tid) (c : chanid) (v : val)
| EvRecv (t : tid) (j : nat) (c : chanid) (v : val) (designated : val)
    (* t received v from channel c in clause j (0 for a plain receive);
       [designated] = the channel operand of that clause as t evaluated it in its own frame *)
| EvSpawn (t : tid) (u : tid) (f : fid).          (* t created thread u with the new frame f *)

(* ------------------------------------------------------------------ *)
(** * Lists *)

Fixpoint upd {A} (l : list A) (n : nat) (x : A) : list A :=
  match l, n with
  | [], _ => []
  | _ :: r, O => x :: r
  | h :: r, S n' => h :: upd r n' x
  end.

(* ------------------------------------------------------------------ *)
(** * Frames *)

Definition ancs (fs : list frame) : list (option fid) := map anc fs.

(** getFrame(f, lvl) *)
Fixpoint get_frame (a : list (option fid)) (f : fid) (lvl : nat) : option fid :=
  match lvl with
  | O => Some f
  | S l => match nth_error a f with
           | Some (Some p) => get_frame a p l
           | _ => None
           end
  end.

Definition slot_of (fs : list frame) (g : fid) (idx : nat) : val :=
  match nth_error fs g with Some fr => nth idx (data fr) VNil | None => VNil end.

Definition rd (fs : list frame) (f : fid) (lvl idx : nat) : val :=
  match get_frame (ancs fs) f lvl with Some g => slot_of fs g idx | None => VNil end.

Definition rd_fp (fs : list frame) (f : fid) (lvl : nat) : list fid :=
  match get_frame (ancs fs) f lvl with Some g => [g] | None => [] end.

Fixpoint eval (fs : list frame) (f : fid) (e : expr) : val :=
  match e with
  | EConst v => v
  | ESlot l i => rd fs f l i
  | EAdd a b => vadd (eval fs f a) (eval fs f b)
  end.

(** frames read by the evaluation of e *)
Fixpoint eval_fp (fs : list frame) (f : fid) (e : expr) : list fid :=
  match e with
  | EConst _ => []
  | ESlot l _ => rd_fp fs f l
  | EAdd a b => eval_fp fs f a ++ eval_fp fs f b
  end.

Definition set_data (fr : frame) (idx : nat) (v : val) : frame :=
  {| anc := anc fr; data := upd (data fr) idx v |}.

Definition wr_at (fs : list frame) (g : fid) (idx : nat) (v : val) : list frame :=
  match nth_error fs g with Some fr => upd fs g (set_data fr idx v) | None => fs end.

Definition wr (fs : list frame) (f : fid) (lvl idx : nat) (v : val) : list frame :=
  match get_frame (ancs fs) f lvl with Some g => wr_at fs g idx v | None => fs end.

(* ------------------------------------------------------------------ *)
(** * Channels *)

Definition enqueue (cs : list (list val)) (c : chanid) (v : val) : list (list val) :=
  match nth_error cs c with Some q => upd cs c (q ++ [v]) | None => cs end.

(** first clause (lowest index) whose channel has a value: (clause index, channel, value, rest of queue) *)
Fixpoint find_ready (cs : list (list val)) (vec : list val) (j : nat) : option (nat * chanid * val * list val) :=
  match vec with
  | [] => None
  | VChan c :: r =>
      match nth_error cs c with
      | Some (x :: q) => Some (j, c, x, q)
      | _ => find_ready cs r (S j)
      end
  | _ :: r => find_ready cs r (S j)     (* nil channel: the case never fires *)
  end.

(* ------------------------------------------------------------------ *)
(** * One step of thread t *)

Definition evs_rd (t : tid) (l : list fid) : list event := map (fun g => EvFrame t g false) l.
Definition evs_wr (t : tid) (l : list fid) : list event := map (fun g => EvFrame t g true) l.

Definition with_thread (s : state) (fs : list frame) (cs : list (list val)) (gs : list (list val))
           (t : tid) (th : thread) : state :=
  {| frames := fs; chans := cs; gens := gs; threads := upd (threads s) t th |}.

Definition th_code (th : thread) (k : list instr) : thread :=
  {| tframe := tframe th; tcode := k; tphase := PRun |}.
Definition th_phase (th : thread) (ph : phase) : thread :=
  {| tframe := tframe th; tcode := tcode th; tphase := ph |}.

Definition flat_fp (fs : list frame) (f : fid) (es : list expr) : list fid :=
  flat_map (eval_fp fs f) es.

Definition step (v : variant) (p : prog) (s : state) (t : tid) : state * list event :=
  match nth_error (threads s) t with
  | None => (s, [])
  | Some th =>
    let f := tframe th in
    let fs := frames s in
    match tphase th, tcode th with
    | PRun, ISet l i e :: k =>
        let x := eval fs f e in
        (with_thread s (wr fs f l i x) (chans s) (gens s) t (th_code th k),
         evs_rd t (eval_fp fs f e) ++ evs_wr t (rd_fp fs f l))
    | PRun, IMake l i :: k =>
        let c := length (chans s) in
        (with_thread s (wr fs f l i (VChan c)) (chans s ++ [[]]) (gens s) t (th_code th k),
         EvMake t c :: evs_wr t (rd_fp fs f l))
    | PRun, ISend ce ve :: k =>
        match eval fs f ce with
        | VChan c =>
            let x := eval fs f ve in
            (with_thread s fs (enqueue (chans s) c x) (gens s) t (th_code th k),
             EvSend t c x :: evs_rd t (eval_fp fs f ce ++ eval_fp fs f ve))
        | _ => (s, [])                    (* send on a nil channel blocks for ever *)
        end
    | PRun, IRecv ce l i :: k =>
        match eval fs f ce with
        | VChan c =>
            match nth_error (chans s) c with
            | Some (x :: q) =>
                (with_thread s (wr fs f l i x) (upd (chans s) c q) (gens s) t (th_code th k),
                 EvRecv t 0 c x (VChan c) :: evs_rd t (eval_fp fs f ce) ++ evs_wr t (rd_fp fs f l))
            | _ => (s, [])                (* blocked *)
            end
        | _ => (s, [])
        end
    | PRun, IGo fn args :: k =>
        let vals := map (eval fs f) args in
        let '(nloc, body) := nth fn p (0, []) in
        let nf := length fs in
        let u := length (threads s) in
        ({| frames := fs ++ [{| anc := Some f; data := vals ++ repeat VNil nloc |}];
            chans := chans s; gens := gens s;
            threads := upd (threads s) t (th_code th k) ++ [{| tframe := nf; tcode := body; tphase := PRun |}] |},
         evs_rd t (flat_fp fs f args) ++ [EvSpawn t u nf])
    (* select, micro-step 1: evaluate the operands in the own frame and fill the vector *)
    | PRun, ISelect sd cls :: k =>
        let own := map (fun cl => eval fs f (fst cl)) cls in
        let fp := evs_rd t (flat_fp fs f (map fst cls)) in
        match v with
        | Shared => (with_thread s fs (chans s) (upd (gens s) sd own) t (th_phase th (PSnap own)),
                     fp ++ [EvGen t sd true])
        | PerExec => (with_thread s fs (chans s) (gens s) t (th_phase th (PSnap own)), fp)
        end
    (* micro-step 2: reflect.Select copies the vector it is given *)
    | PSnap own, ISelect sd cls :: k =>
        match v with
        | Shared => (with_thread s fs (chans s) (gens s) t (th_phase th (PWait own (nth sd (gens s) []))),
                     [EvGen t sd false])
        | PerExec => (with_thread s fs (chans s) (gens s) t (th_phase th (PWait own own)), [])
        end
    (* micro-step 3: wait on the copy; when a case is ready, receive and store into the clause's slot *)
    | PWait own vec, ISelect sd cls :: k =>
        match find_ready (chans s) vec 0 with
        | Some (j, c, x, q) =>
            let dst := nth j (map snd cls) 0 in
            (with_thread s (wr fs f 0 dst x) (upd (chans s) c q) (gens s) t (th_code th k),
             EvRecv t j c x (nth j own VNil) :: evs_wr t [f])
        | None => (s, [])
        end
    | _, _ => (s, [])
    end
  end.

(** A schedule is any list of thread ids. *)
Fixpoint run (v : variant) (p : prog) (sched : list tid) (s : state) : state * list event :=
  match sched with
  | [] => (s, [])
  | t :: r =>
      let '(s1, e1) := step v p s t in
      let '(s2, e2) := run v p r s1 in
      (s2, e1 ++ e2)
  end.

(** The same, keeping the trace grouped by step (who stepped, what the step touched). *)
Fixpoint run_steps (v : variant) (p : prog) (sched : list tid) (s : state) : state * list (tid * list event) :=
  match sched with
  | [] => (s, [])
  | t :: r =>
      let '(s1, e1) := step v p s t in
      let '(s2, e2) := run_steps v p r s1 in
      (s2, (t, e1) :: e2)
  end.

(* ------------------------------------------------------------------ *)
(** * Reachability of frames, well-formedness *)

Inductive reach (a : list (option fid)) : fid -> fid -> Prop :=
| reach_refl f : reach a f f
| reach_anc f p g : nth_error a f = Some (Some p) -> reach a p g -> reach a f g.

Definition wf (s : state) : Prop :=
  (forall f p, nth_error (ancs (frames s)) f = Some (Some p) -> p < length (frames s))
  /\ (forall t th, nth_error (threads s) t = Some th -> tframe th < length (frames s)).

(** [t]'s own frame is reachable from no other thread's frame (no other thread was spawned from it). *)
Definition isolated (s : state) (t : tid) : Prop :=
  forall th, nth_error (threads s) t = Some th ->
  forall u thu, u <> t -> nth_error (threads s) u = Some thu ->
                ~ reach (ancs (frames s)) (tframe thu) (tframe th).

(* ------------------------------------------------------------------ *)
(** * Syntactic classes of code *)

Fixpoint expr_local (e : expr) : bool :=
  match e with
  | EConst _ => true
  | ESlot l _ => Nat.eqb l 0
  | EAdd a b => expr_local a && expr_local b
  end.

(** an activation that uses only its own arguments and locals and starts no goroutine *)
Definition instr_local (i : instr) : bool :=
  match i with
  | ISet l _ e => Nat.eqb l 0 && expr_local e
  | IMake l _ => Nat.eqb l 0
  | ISend ce ve => expr_local ce && expr_local ve
  | IRecv ce l _ => expr_local ce && Nat.eqb l 0
  | ISelect _ cls => forallb (fun cl => expr_local (fst cl)) cls
  | IGo _ _ => false
  end.
Definition code_local (k : list instr) : bool := forallb instr_local k.

Definition instr_no_go (i : instr) : bool := match i with IGo _ _ => false | _ => true end.
Definition code_no_go (k : list instr) : bool := forallb instr_no_go k.

Definition instr_no_select (i : instr) : bool := match i with ISelect _ _ => false | _ => true end.
Definition code_no_select (k : list instr) : bool := forallb instr_no_select k.

(** Generated state is read-only for this code: the select vector is per execution, or there is no select. *)
Definition gen_readonly (v : variant) (k : list instr) : bool :=
  match v with PerExec => true | Shared => code_no_select k end.

Definition prog_no_select (p : prog) : bool := forallb (fun fn => code_no_select (snd fn)) p.
Definition state_no_select (s : state) : bool :=
  forallb (fun th => code_no_select (tcode th) && match tphase th with PRun => true | _ => false end) (threads s).

(* ------------------------------------------------------------------ *)
(** * Properties of traces *)

(** no write to generated state at all *)
Definition is_gen_write (e : event) : bool := match e with EvGen _ _ true => true | _ => false end.
Definition no_gen_write (tr : list event) : bool := forallb (fun e => negb (is_gen_write e)) tr.

(** every receive happened on the channel the receiving thread itself designated *)
Definition recv_ok (e : event) : bool :=
  match e with EvRecv _ _ c _ d => val_eqb d (VChan c) | _ => true end.
Definition no_crosstalk (tr : list event) : bool := forallb recv_ok tr.

(** a conflict on generated state between two consecutive steps of different threads, one of them writing:
    no synchronisation can lie between two adjacent steps, so this is a data race on that state *)
Definition gen_access (es : list event) (sd : sid) : option bool :=   (* Some w: accessed, w = wrote *)
  fold_right (fun e acc =>
    match e with
    | EvGen _ s' w => if Nat.eqb s' sd then Some (w || match acc with Some w' => w' | None => false end) else acc
    | _ => acc
    end) None es.

Fixpoint gen_race (nsel : nat) (tr : list (tid * list event)) : bool :=
  match tr with
  | (t1, e1) :: (((t2, e2) :: _) as r) =>
      (negb (Nat.eqb t1 t2) &&
       existsb (fun sd => match gen_access e1 sd, gen_access e2 sd with
                          | Some w1, Some w2 => w1 || w2
                          | _, _ => false end) (seq 0 nsel))
      || gen_race nsel r
  | _ => false
  end.

(* ------------------------------------------------------------------ *)
(** * The local view of an activation and its replay against its own communications *)

Record lview := { lv_data : list val; lv_code : list instr; lv_phase : phase }.

Definition lview_of (s : state) (t : tid) : option lview :=
  match nth_error (threads s) t with
  | None => None
  | Some th => match nth_error (frames s) (tframe th) with
               | None => None
               | Some fr => Some {| lv_data := data fr; lv_code := tcode th; lv_phase := tphase th |}
               end
  end.

Fixpoint eval_l (d : list val) (e : expr) : val :=
  match e with
  | EConst v => v
  | ESlot _ i => nth i d VNil
  | EAdd a b => vadd (eval_l d a) (eval_l d b)
  end.

(** communications of one step: channel creations, sends, receives with the clause that fired
    (NOT accesses to generated state, NOT other threads' frames) *)
Definition first_make (es : list event) : option chanid :=
  fold_right (fun e acc => match e with EvMake _ c => Some c | _ => acc end) None es.
Definition first_recv (es : list event) : option (nat * val) :=
  fold_right (fun e acc => match e with EvRecv _ j _ x _ => Some (j, x) | _ => acc end) None es.
Definition has_send (es : list event) : bool :=
  existsb (fun e => match e with EvSend _ _ _ => true | _ => false end) es.

(** What one own step does to the local view, given only the step's communications.
    The select statement is replayed with the per-execution meaning. *)
Definition lstep (lv : lview) (es : list event) : lview :=
  let d := lv_data lv in
  match lv_phase lv, lv_code lv with
  | PRun, ISet _ i e :: k => {| lv_data := upd d i (eval_l d e); lv_code := k; lv_phase := PRun |}
  | PRun, IMake _ i :: k =>
      match first_make es with
      | Some c => {| lv_data := upd d i (VChan c); lv_code := k; lv_phase := PRun |}
      | None => lv
      end
  | PRun, ISend _ _ :: k => if has_send es then {| lv_data := d; lv_code := k; lv_phase := PRun |} else lv
  | PRun, IRecv _ _ i :: k =>
      match first_recv es with
      | Some (_, x) => {| lv_data := upd d i x; lv_code := k; lv_phase := PRun |}
      | None => lv
      end
  | PRun, ISelect _ cls :: _ =>
      {| lv_data := d; lv_code := lv_code lv; lv_phase := PSnap (map (fun cl => eval_l d (fst cl)) cls) |}
  | PSnap own, ISelect _ _ :: _ => {| lv_data := d; lv_code := lv_code lv; lv_phase := PWait own own |}
  | PWait own vec, ISelect _ cls :: k =>
      match first_recv es with
      | Some (j, x) => {| lv_data := upd d (nth j (map snd cls) 0) x; lv_code := k; lv_phase := PRun |}
      | None => lv
      end
  | _, _ => lv
  end.

Fixpoint replay (t : tid) (lv : lview) (tr : list (tid * list event)) : lview :=
  match tr with
  | [] => lv
  | (u, es) :: r => if Nat.eqb u t then replay t (lstep lv es) r else replay t lv r
  end.
