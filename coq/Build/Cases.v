(** Evaluation of the C17 models on the cases written by the harness (correspondence check).
    [*_y]: ids of the cases where the implementation's observed answer differs from Y;
    [*_g]: ids of the cases where the reference's (go/build) answer differs from G. *)
From Verif Require Import Lib.Str Build.Model.
From Verif Require Import gen.BuildLists_gen.

Definition mkctx (os arch : str) (tags : list str) : ctx :=
  {| goos := os; goarch := arch; btags := tags; minor := go_minor; compiler := s "gc"; cgo := false |}.

Definition opt_bool_eqb (a b : option bool) : bool :=
  match a, b with
  | Some x, Some y => Bool.eqb x y
  | None, None => true
  | _, _ => false
  end.

Fixpoint list_eqb {A} (e : A -> A -> bool) (a b : list A) : bool :=
  match a, b with
  | [], [] => true
  | x :: a', y :: b' => e x y && list_eqb e a' b'
  | _, _ => false
  end.

Definition groups_eqb := list_eqb (list_eqb str_eqb).

Definition name_case := (N * ctx * str * bool * bool * bool)%type.
Definition name_mis_y (cs : list name_case) : list N :=
  flat_map (fun '(id, c, n, st, impl, _) => if Bool.eqb (y_skip_file c n st) impl then [] else [id]) cs.
Definition name_mis_g (cs : list name_case) : list N :=
  flat_map (fun '(id, c, n, st, _, ref) => if Bool.eqb (g_skip_file c n st) ref then [] else [id]) cs.

Definition line_case := (N * ctx * str * option bool)%type.
Definition line_mis_y (cs : list line_case) : list N :=
  flat_map (fun '(id, c, l, impl) => if opt_bool_eqb (y_line_ok c l) impl then [] else [id]) cs.
Definition line_mis_g (cs : list line_case) : list N := [].

Definition y_decision (c : ctx) (g : list (list str)) : option bool := option_map fst (y_build_ok c g).

Definition file_case := (N * ctx * header * list (list str) * option bool * bool)%type.
Definition file_mis_y (cs : list file_case) : list N :=
  flat_map (fun '(id, c, h, g, impl, _) =>
    if groups_eqb (print_header h) g && opt_bool_eqb (y_decision c g) impl then [] else [id]) cs.
Definition file_mis_g (cs : list file_case) : list N :=
  flat_map (fun '(id, c, h, _, _, ref) => if Bool.eqb (g_selected c h) ref then [] else [id]) cs.

Definition raw_case := (N * ctx * list (list str) * option bool)%type.
Definition raw_mis_y (cs : list raw_case) : list N :=
  flat_map (fun '(id, c, g, impl) => if opt_bool_eqb (y_decision c g) impl then [] else [id]) cs.
Definition raw_mis_g (cs : list raw_case) : list N := [].

Definition seq_case := (N * ctx * list header * list (list (list str)) * list (option bool) * list bool)%type.
Definition seq_mis_y (cs : list seq_case) : list N :=
  flat_map (fun '(id, c, hs, gs, impl, _) =>
    if list_eqb groups_eqb (map print_header hs) gs && list_eqb opt_bool_eqb (y_build_files c gs) impl then [] else [id]) cs.
Definition seq_mis_g (cs : list seq_case) : list N :=
  flat_map (fun '(id, c, hs, _, _, ref) => if list_eqb Bool.eqb (g_files c hs) ref then [] else [id]) cs.
