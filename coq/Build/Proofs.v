(** C17 — proofs relating Y (interp/build.go) and G (go/build). *)
From Verif Require Import Lib.Str Build.Model Build.Release.
From Verif Require Import gen.BuildLists_gen.

(* ------------------------------------------------------------------ *)
(** * Side conditions (decidable; their negations are the known-finding regions) *)

(** words go/build gives a meaning that yaegi does not know *)
Definition g_special (c : ctx) (t : str) : bool :=
  (cgo c && str_eqb t (s "cgo"))
  || str_eqb t (compiler c)
  || (str_eqb (goos c) (s "android") && str_eqb t (s "linux"))
  || (str_eqb (goos c) (s "illumos") && str_eqb t (s "solaris"))
  || (str_eqb (goos c) (s "ios") && str_eqb t (s "darwin"))
  || (str_eqb t (s "unix") && go_unix_os_b (goos c))
  || str_eqb t (s "boringcrypto").

Definition first_not_bang (t : str) : bool :=
  match t with [] => false | a :: _ => negb (Ascii.eqb a bang) end.

Definition plain_tag (c : ctx) (t : str) : bool :=
  first_not_bang t && nosepb comma t && all_nospace t
  && (negb (has_prefix (s "go1.") t) || release_canon t) && negb (g_special c t).

Definition plain_opt (c : ctx) (o : plusopt) : bool :=
  match o with [] => false | _ => forallb (fun t => plain_tag c (snd t)) o end.

Definition plain_line (c : ctx) (l : plusline) : bool :=
  match l with [] => false | _ => forallb (plain_opt c) l end.

Definition plain_header (c : ctx) (h : header) : bool :=
  match hgobuild h with Some _ => false | None => true end
  && match hdoc h with [] => true | _ => false end
  && match hytags h with [] => true | _ => false end
  && forallb (plain_line c) (hplus h).

(* ------------------------------------------------------------------ *)
(** * Tags *)

Lemma release_prefix c t : mem t (release_tags c) = true -> has_prefix (s "go1.") t = true.
Proof.
  unfold release_tags. generalize (seq 1 (Z.to_nat (minor c))) as l.
  induction l as [|k l IH]; cbn [map mem]; [discriminate|].
  rewrite orb_true_iff; intros [H|H]; [|now apply IH].
  apply str_eqb_eq in H; subst t. apply (has_prefix_app (s "go1.")).
Qed.

Lemma g_match_nospecial c t :
  negb (g_special c t) = true ->
  g_match_tag c t = mem t (btags c) || str_eqb t (goos c) || str_eqb t (goarch c) || mem t (release_tags c).
Proof.
  intros Hs. rewrite negb_true_iff in Hs.
  unfold g_special in Hs. unfold g_match_tag.
  repeat rewrite orb_false_iff in Hs.
  destruct Hs as [[[[[[H1 H2] H3] H4] H5] H6] H7].
  rewrite H1, H2, H3, H4, H5, H6, H7. cbn [orb].
  rewrite !orb_false_r.
  destruct (str_eqb t (goos c)), (str_eqb t (goarch c)), (mem t (btags c)), (mem t (release_tags c)); reflexivity.
Qed.

Lemma y_tag_print c t neg :
  first_not_bang t = true -> y_tag_ok c (print_term (neg, t)) = Some (xorb neg (y_tag_val c t)).
Proof.
  intros Hb. destruct t as [|a r]; [discriminate|]. cbn [first_not_bang] in Hb. rewrite negb_true_iff in Hb.
  destruct neg; unfold print_term; cbn [fst snd]; unfold y_tag_ok.
  - now rewrite Ascii.eqb_refl.
  - now rewrite Hb.
Qed.

Lemma y_val_noprefix c t :
  has_prefix (s "go1.") t = false ->
  y_tag_val c t = mem t (btags c) || str_eqb t (goos c) || str_eqb t (goarch c).
Proof.
  intros Hp. unfold y_tag_val. rewrite Hp, andb_false_r.
  destruct (mem t (btags c)), (str_eqb t (goos c)), (str_eqb t (goarch c)); reflexivity.
Qed.

Lemma tag_val_agree c t :
  (negb (has_prefix (s "go1.") t) || release_canon t) = true -> negb (g_special c t) = true ->
  y_tag_val c t = g_match_tag c t.
Proof.
  intros Hp Hs. rewrite (g_match_nospecial c t Hs).
  apply orb_true_iff in Hp. destruct Hp as [Hp|Hp].
  - rewrite negb_true_iff in Hp. rewrite (y_val_noprefix c t Hp).
    assert (Hr : mem t (release_tags c) = false).
    { destruct (mem t (release_tags c)) eqn:E; [|reflexivity]. apply release_prefix in E; congruence. }
    now rewrite Hr, orb_false_r.
  - apply release_canon_spec in Hp. destruct Hp as [n [H1 [Hr ->]]].
    change (s "go1.") with go1. rewrite (y_release_val c n Hr), (g_release c n).
    replace (1 <=? n) with true by (symmetry; now apply Nat.leb_le). reflexivity.
Qed.

Lemma tag_agree c t neg :
  plain_tag c t = true -> y_tag_ok c (print_term (neg, t)) = Some (g_term c (neg, t)).
Proof.
  unfold plain_tag; rewrite !andb_true_iff; intros [[[[Hb _] _] Hp] Hs].
  rewrite y_tag_print by assumption. unfold g_term; cbn [fst snd].
  now rewrite (tag_val_agree c t Hp Hs).
Qed.

(* ------------------------------------------------------------------ *)
(** * Options: AND of comma-separated terms *)

Lemma y_and_agree c o :
  forallb (fun t => plain_tag c (snd t)) o = true ->
  y_and c (map print_term o) = Some (g_opt c o).
Proof.
  unfold g_opt. induction o as [|[neg t] o IH]; simpl; [reflexivity|].
  rewrite andb_true_iff; intros [Ht Ho].
  rewrite (tag_agree c t neg Ht). destruct (g_term c (neg, t)); simpl; [now apply IH|reflexivity].
Qed.

Lemma nosep_space_nospace t : all_nospace t = true -> nosep space t.
Proof.
  unfold nosep. induction t as [|a t IH]; cbn [all_nospace In]; [tauto|].
  rewrite andb_true_iff, negb_true_iff. intros [Ha Ht].
  intros [E|Hin]; [subst a; discriminate Ha|now apply IH].
Qed.

Lemma nosep_print_term c ch t neg :
  plain_tag c t = true -> ch = comma \/ ch = space -> nosep ch (print_term (neg, t)).
Proof.
  unfold plain_tag; rewrite !andb_true_iff; intros [[[[_ Hc] Hsp] _] _] Hch.
  assert (Hn : nosep ch t).
  { destruct Hch as [E|E]; rewrite E; [now apply nosepb_spec|now apply nosep_space_nospace]. }
  unfold print_term; cbn [fst snd]. destruct neg; [|exact Hn].
  unfold nosep; cbn [In]. intros [H|H]; [|now apply Hn].
  destruct Hch as [E|E]; rewrite E in H; discriminate H.
Qed.

Lemma option_agree c o :
  plain_opt c o = true -> y_option_ok c (print_opt o) = Some (g_opt c o).
Proof.
  unfold plain_opt, y_option_ok, print_opt. intros H.
  destruct o as [|t0 o0] eqn:Eo; [discriminate|]. rewrite <- Eo in *.
  rewrite split_join.
  - now apply y_and_agree.
  - subst o; discriminate.
  - apply Forall_forall. intros w Hw. apply in_map_iff in Hw. destruct Hw as [[neg t] [<- Hin]].
    apply (nosep_print_term c); [|now left].
    rewrite forallb_forall in H. exact (H _ Hin).
Qed.

(* ------------------------------------------------------------------ *)
(** * Lines: OR of space-separated options *)

Lemma y_or_agree c l :
  forallb (plain_opt c) l = true -> y_or c (map print_opt l) = Some (g_line c l).
Proof.
  unfold g_line. induction l as [|o l IH]; simpl; [reflexivity|].
  rewrite andb_true_iff; intros [Ho Hl].
  rewrite (option_agree c o Ho). destruct (g_opt c o); simpl; [reflexivity|now apply IH].
Qed.

(** a word is "solid" when it is non-empty and contains no white space *)
Definition solid (w : str) : Prop := w <> [] /\ all_nospace w = true.

Lemma all_nospace_app a b : all_nospace (a ++ b) = all_nospace a && all_nospace b.
Proof. induction a; simpl; [reflexivity|]. now rewrite IHa, andb_assoc. Qed.

Lemma solid_print_term c t neg : plain_tag c t = true -> solid (print_term (neg, t)).
Proof.
  unfold plain_tag; rewrite !andb_true_iff; intros [[[[Hb _] Hsp] _] _].
  unfold print_term; cbn [fst snd]. destruct neg.
  - split; [discriminate|]. simpl. now rewrite Hsp.
  - split; [destruct t; [discriminate Hb|discriminate]|exact Hsp].
Qed.

Lemma solid_join_comma ws : ws <> [] -> Forall solid ws -> solid (join comma ws).
Proof.
  induction ws as [|w ws IH]; [congruence|]; intros _ Hall.
  inversion Hall as [|? ? [Hne Hns] Hrest]; subst.
  destruct ws as [|w' ws'].
  - simpl. now split.
  - change (join comma (w :: w' :: ws')) with (w ++ comma :: join comma (w' :: ws')).
    destruct (IH ltac:(discriminate) Hrest) as [_ Hj].
    split; [destruct w; [congruence|discriminate]|].
    rewrite all_nospace_app. cbn [all_nospace]. rewrite Hns, Hj. reflexivity.
Qed.

Lemma solid_print_opt c o : plain_opt c o = true -> solid (print_opt o).
Proof.
  unfold plain_opt, print_opt. destruct o as [|t0 o0] eqn:Eo; [discriminate|]. rewrite <- Eo.
  intros H. apply solid_join_comma; [subst o; discriminate|].
  apply Forall_forall. intros w Hw. apply in_map_iff in Hw. destruct Hw as [[neg t] [<- Hin]].
  apply (solid_print_term c). rewrite forallb_forall in H. exact (H _ Hin).
Qed.

Lemma nosep_space_solid w : solid w -> nosep space w.
Proof. intros [_ H]. now apply nosep_space_nospace. Qed.

(** first and last character of a joined list of solid words are not white space *)
Definition hd_nospace (x : str) : Prop := match x with a :: _ => is_space a = false | [] => False end.

Lemma solid_hd w : solid w -> hd_nospace w.
Proof.
  intros [Hne H]. destruct w as [|a w]; [congruence|]. simpl in *.
  rewrite andb_true_iff, negb_true_iff in H. tauto.
Qed.

Lemma join_hd ws : ws <> [] -> Forall solid ws -> hd_nospace (join space ws).
Proof.
  destruct ws as [|w ws]; [congruence|]. intros _ Hall. inversion Hall as [|? ? Hw _]; subst.
  destruct ws; simpl.
  - now apply solid_hd.
  - destruct w as [|a w]; [destruct Hw; congruence|]. simpl. apply solid_hd in Hw. exact Hw.
Qed.

Lemma all_nospace_rev w : all_nospace (rev w) = all_nospace w.
Proof.
  induction w as [|a w IH]; [reflexivity|]. cbn [rev]. rewrite all_nospace_app. cbn [all_nospace].
  rewrite IH, andb_true_r. apply andb_comm.
Qed.

Lemma rev_join_hd ws : ws <> [] -> Forall solid ws -> hd_nospace (rev (join space ws)).
Proof.
  induction ws as [|w ws IH]; [congruence|]; intros _ Hall.
  inversion Hall as [|? ? Hw Hrest]; subst.
  destruct ws as [|w' ws'].
  - simpl. destruct Hw as [Hne Hns].
    assert (Hr : all_nospace (rev w) = true) by (now rewrite all_nospace_rev).
    apply solid_hd. split; [|exact Hr].
    intros E. apply Hne. rewrite <- (rev_involutive w), E. reflexivity.
  - change (join space (w :: w' :: ws')) with (w ++ space :: join space (w' :: ws')).
    specialize (IH ltac:(discriminate) Hrest).
    remember (join space (w' :: ws')) as J eqn:EJ. clear EJ.
    rewrite rev_app_distr. cbn [rev]. rewrite <- !app_assoc.
    destruct (rev J) as [|a r]; [contradiction|]. exact IH.
Qed.

Lemma trim_left_hd x : hd_nospace x -> trim_left x = x.
Proof. destruct x as [|a x]; [contradiction|]. simpl. now intros ->. Qed.

Lemma fields_aux_word w cur rest :
  all_nospace w = true -> fields_aux cur (w ++ rest) = fields_aux (rev w ++ cur) rest.
Proof.
  revert cur; induction w as [|a w IH]; intros cur H; [reflexivity|].
  cbn [all_nospace] in H. rewrite andb_true_iff, negb_true_iff in H. destruct H as [Ha Hw].
  cbn [app fields_aux]. rewrite Ha. rewrite IH by assumption.
  cbn [rev]. now rewrite <- app_assoc.
Qed.

Lemma fields_aux_solid_end w : solid w -> fields_aux [] w = [w].
Proof.
  intros [Hne Hns]. rewrite <- (app_nil_r w) at 1. rewrite fields_aux_word by assumption.
  rewrite app_nil_r. cbn [fields_aux].
  destruct (rev w) eqn:E.
  - exfalso. apply Hne. rewrite <- (rev_involutive w), E. reflexivity.
  - rewrite <- E. now rewrite rev_involutive.
Qed.

Lemma fields_join ws : Forall solid ws -> fields_aux [] (join space ws) = ws.
Proof.
  induction ws as [|w ws IH]; intros Hall; [reflexivity|].
  inversion Hall as [|? ? Hw Hrest]; subst.
  destruct ws as [|w' ws'].
  - cbn [join]. now apply fields_aux_solid_end.
  - change (join space (w :: w' :: ws')) with (w ++ space :: join space (w' :: ws')).
    destruct Hw as [Hne Hns]. rewrite fields_aux_word by assumption. rewrite app_nil_r.
    cbn [fields_aux]. replace (is_space space) with true by reflexivity.
    destruct (rev w) eqn:E.
    + exfalso. apply Hne. rewrite <- (rev_involutive w), E. reflexivity.
    + rewrite <- E, rev_involutive. f_equal. now apply IH.
Qed.

Lemma fields_space_join ws : Forall solid ws -> fields (space :: join space ws) = ws.
Proof.
  intros H. unfold fields. cbn [fields_aux]. replace (is_space space) with true by reflexivity.
  now apply fields_join.
Qed.

Definition plus_line_text (l : plusline) : str := plus_build_sp ++ join space (map print_opt l).

Lemma line_agree c l :
  plain_line c l = true -> y_line_ok c (plus_line_text l) = Some (g_line c l).
Proof.
  unfold plain_line. destruct l as [|o0 l0] eqn:El; [discriminate|]. rewrite <- El. intros H.
  assert (Hne : map print_opt l <> []) by (subst l; discriminate).
  assert (Hsolid : Forall solid (map print_opt l)).
  { apply Forall_forall. intros w Hw. apply in_map_iff in Hw. destruct Hw as [o [<- Hin]].
    apply (solid_print_opt c). rewrite forallb_forall in H. exact (H _ Hin). }
  unfold y_line_ok, plus_line_text.
  rewrite has_prefix_app. simpl negb. rewrite orb_false_r.
  replace (length (plus_build_sp ++ join space (map print_opt l)) <? 7) with false.
  2:{ symmetry. apply Nat.ltb_ge. rewrite app_length. unfold plus_build_sp. simpl. lia. }
  change (skipn 6 (plus_build_sp ++ join space (map print_opt l)))
    with (space :: join space (map print_opt l)).
  rewrite fields_space_join by assumption. now apply y_or_agree.
Qed.

(* ------------------------------------------------------------------ *)
(** * Headers *)

Lemma rev_hd_solid_last x : hd_nospace (rev x) -> trim_right x = x.
Proof. intros H. unfold trim_right. rewrite trim_left_hd by exact H. apply rev_involutive. Qed.

Lemma plus_line_text_last c l :
  plain_line c l = true -> hd_nospace (rev (plus_line_text l)).
Proof.
  unfold plain_line. destruct l as [|o0 l0] eqn:El; [discriminate|]. rewrite <- El. intros H.
  assert (Hne : map print_opt l <> []) by (subst l; discriminate).
  assert (Hsolid : Forall solid (map print_opt l)).
  { apply Forall_forall. intros w Hw. apply in_map_iff in Hw. destruct Hw as [o [<- Hin]].
    apply (solid_print_opt c). rewrite forallb_forall in H. exact (H _ Hin). }
  unfold plus_line_text. rewrite rev_app_distr.
  pose proof (rev_join_hd _ Hne Hsolid) as Hh.
  destruct (rev (join space (map print_opt l))); [contradiction|exact Hh].
Qed.

Lemma body_text_print c l :
  plain_line c l = true -> body_text (print_line l) = Some (plus_line_text l).
Proof.
  intros H. unfold print_line.
  change (s " +build " ++ join space (map print_opt l)) with (space :: plus_line_text l).
  unfold body_text. rewrite Ascii.eqb_refl.
  now rewrite (rev_hd_solid_last _ (plus_line_text_last c l H)).
Qed.

Lemma filter_map_print c ls :
  forallb (plain_line c) ls = true ->
  filter_map body_text (map print_line ls) = map plus_line_text ls.
Proof.
  induction ls as [|l ls IH]; cbn [map filter_map forallb]; [reflexivity|].
  rewrite andb_true_iff; intros [Hl Hls]. rewrite (body_text_print c l Hl). now rewrite IH.
Qed.

Lemma y_lines_agree c ls :
  forallb (plain_line c) ls = true ->
  y_lines_ok c (map plus_line_text ls) = Some (forallb (g_line c) ls).
Proof.
  induction ls as [|l ls IH]; cbn [map y_lines_ok forallb]; [reflexivity|].
  rewrite andb_true_iff; intros [Hl Hls]. rewrite (line_agree c l Hl).
  destruct (g_line c l); cbn [andb]; [now apply IH|reflexivity].
Qed.

Lemma y_set_tags_plus have ls : y_set_tags have (map plus_line_text ls) = have.
Proof.
  induction ls as [|l ls IH]; cbn [map y_set_tags]; [reflexivity|].
  replace (has_prefix yaegi_tags_sp (plus_line_text l)) with false by reflexivity.
  cbn [negb]. rewrite orb_true_r. exact IH.
Qed.

Lemma group_lines_print c ls :
  ls <> [] -> forallb (plain_line c) ls = true ->
  group_lines (map print_line ls) = map plus_line_text ls.
Proof.
  intros Hne H. unfold group_lines. rewrite (filter_map_print c ls H).
  destruct ls as [|l ls]; [congruence|]. cbn [map]. unfold plus_line_text at 1 3. reflexivity.
Qed.

(** The property on the family of well-placed "+build"-only headers over the plain vocabulary:
    yaegi's decision on the printed header is go/build's decision on the header. *)
Theorem plusbuild_agree c h :
  plain_header c h = true ->
  option_map fst (y_build_ok c (print_header h)) = Some (g_selected c h).
Proof.
  unfold plain_header. rewrite !andb_true_iff. intros [[[Hgb Hdoc] Hyt] Hls].
  destruct h as [gb plus doc yt]; cbn [hgobuild hdoc hytags hplus] in *.
  destruct gb; [discriminate|]. destruct doc; [|discriminate]. destruct yt; [|discriminate].
  unfold g_selected, print_header; cbn [hgobuild hplus hdoc hytags].
  cbn [map app]. rewrite !app_nil_r.
  destruct plus as [|l0 ls0] eqn:Ep.
  - reflexivity.
  - rewrite <- Ep in *. assert (Hne : plus <> []) by (subst plus; discriminate).
    assert (Hm : exists pl0 pls, map print_line plus = pl0 :: pls) by (subst plus; cbn [map]; eauto).
    destruct Hm as [pl0 [pls Em]]. rewrite Em. rewrite <- Em.
    unfold y_build_ok, y_header_lines. cbn [flat_map]. rewrite app_nil_r.
    rewrite (group_lines_print c plus Hne Hls). rewrite (y_lines_agree c plus Hls).
    destruct (forallb (g_line c) plus); reflexivity.
Qed.

(* ------------------------------------------------------------------ *)
(** * yaegi:tags — the tag set only grows, and every announced tag is present afterwards *)

Lemma add_tags_incl have ws x : In x have -> In x (add_tags have ws).
Proof.
  revert have; induction ws as [|w ws IH]; simpl; intros have H; [exact H|].
  destruct (mem w have); apply IH; [exact H|apply in_or_app; now left].
Qed.

Lemma add_tags_adds have ws x : In x ws -> In x (add_tags have ws).
Proof.
  revert have; induction ws as [|w ws IH]; simpl; intros have H; [contradiction|].
  destruct H as [->|H].
  - destruct (mem x have) eqn:E.
    + apply add_tags_incl. now apply mem_In.
    + apply add_tags_incl. apply in_or_app; right; now left.
  - destruct (mem w have); now apply IH.
Qed.

Lemma y_set_tags_mono have ls x : In x have -> In x (y_set_tags have ls).
Proof.
  revert have; induction ls as [|l ls IH]; cbn [y_set_tags]; intros have H; [exact H|].
  destruct ((length l <? 11) || negb (has_prefix yaegi_tags_sp l)); apply IH; [exact H|].
  now apply add_tags_incl.
Qed.

Theorem build_ok_tags_monotone c groups b c' x :
  y_build_ok c groups = Some (b, c') -> In x (btags c) -> In x (btags c').
Proof.
  unfold y_build_ok. destruct (y_lines_ok c (y_header_lines groups)) as [[|]|]; intros E; inversion E; subst.
  - simpl. now apply y_set_tags_mono.
  - tauto.
Qed.

Theorem build_ok_keeps_platform c groups b c' :
  y_build_ok c groups = Some (b, c') -> goos c' = goos c /\ goarch c' = goarch c /\ minor c' = minor c.
Proof.
  unfold y_build_ok. destruct (y_lines_ok c (y_header_lines groups)) as [[|]|]; intros E; inversion E; subst; auto.
Qed.

(* ------------------------------------------------------------------ *)
(** * File names *)

(** Side condition on the last two words [x], [y] of a name (only [y] when there is one word):
    both word lists classify them alike, go/build gives them no meaning beyond GOOS/GOARCH
    equality, the platform is known to go/build, and the name is not a test file name. *)
Definition word_ok (c : ctx) (w : str) : bool :=
  Bool.eqb (y_known_os_b w) (go_known_os_b w)
  && Bool.eqb (y_known_arch_b w) (go_known_arch_b w)
  && Bool.eqb (g_match_tag c w) (str_eqb w (goos c) || str_eqb w (goarch c))
  && negb (str_eqb w (s "test")).

Definition ctx_ok (c : ctx) : bool :=
  go_known_os_b (goos c) && go_known_arch_b (goarch c)
  && negb (go_known_arch_b (goos c)) && negb (go_known_os_b (goarch c)).

Definition name_side (c : ctx) (a : list str) : bool :=
  ctx_ok c &&
  match rev a with
  | y :: x :: _ => word_ok c x && word_ok c y
                   && negb (go_known_os_b y && negb (str_eqb y (goos c)))   (* last word is a foreign OS *)
  | [y] => word_ok c y
  | [] => true
  end.

Lemma strip_test_no l t r : @rev str l = t :: r -> str_eqb t (s "test") = false -> strip_test l = l.
Proof. intros E H. unfold strip_test. now rewrite E, H. Qed.

Lemma last2_rev a x y r : rev a = y :: x :: r -> last2 a = Some (x, y).
Proof. intros E. unfold last2. now rewrite E. Qed.

Theorem name_core_agree c a :
  name_side c a = true -> y_skip_core c a = negb (g_good_core c ([] :: a)).
Proof.
  unfold name_side, ctx_ok. rewrite !andb_true_iff. intros [[[[Hos Harch] Hosa] Harcho] Hside].
  rewrite negb_true_iff in Hosa, Harcho.
  unfold y_skip_core, g_good_core.
  destruct (rev a) as [|y [|x r]] eqn:Er.
  - (* no word: cannot happen for a split result, both keep the file *)
    assert (a = []) as -> by (rewrite <- (rev_involutive a), Er; reflexivity).
    reflexivity.
  - (* one word *)
    assert (Ea : a = [y]) by (rewrite <- (rev_involutive a), Er; reflexivity). subst a.
    unfold word_ok in Hside. rewrite !andb_true_iff in Hside.
    destruct Hside as [[[Ho Ha] Hm] Ht]. rewrite negb_true_iff in Ht.
    apply eqb_prop in Ho, Ha, Hm.
    unfold last2, last_opt. cbn [rev app].
    unfold strip_test. cbn [rev app]. rewrite Ht. cbn [rev app].
    replace (go_known_os_b [] && go_known_arch_b y) with false by reflexivity.
    rewrite Ho, Ha, Hm.
    destruct (go_known_os_b y) eqn:E1, (go_known_arch_b y) eqn:E2,
             (str_eqb y (goos c)) eqn:E3, (str_eqb y (goarch c)) eqn:E4; try reflexivity.
    all: try (apply str_eqb_eq in E3; subst y; congruence).
    all: try (apply str_eqb_eq in E4; subst y; congruence).
  - (* at least two words *)
    rewrite !andb_true_iff in Hside. destruct Hside as [[Hx Hy] Hlast].
    unfold word_ok in Hx, Hy. rewrite !andb_true_iff in Hx, Hy.
    destruct Hx as [[[Hxo Hxa] Hxm] _]. destruct Hy as [[[Hyo Hya] Hym] Hyt].
    rewrite negb_true_iff in Hyt.
    apply eqb_prop in Hxo, Hxa, Hxm, Hyo, Hya, Hym.
    rewrite (last2_rev a x y r Er).
    match goal with |- context [strip_test ?l0] => set (l := l0) end.
    assert (Er' : @rev str l = y :: x :: r ++ [[]]).
    { subst l. change (rev a ++ [[]] = y :: x :: r ++ [[]]). rewrite Er. reflexivity. }
    rewrite (strip_test_no _ _ _ Er' Hyt). rewrite Er'.
    rewrite Hxo, Hya, Hxm, Hym.
    destruct (str_eqb x (goos c)) eqn:E1, (str_eqb x (goarch c)) eqn:E2,
             (str_eqb y (goos c)) eqn:E3, (str_eqb y (goarch c)) eqn:E4,
             (go_known_os_b x) eqn:E5, (go_known_arch_b y) eqn:E6, (go_known_os_b y) eqn:E7;
      cbn [andb orb negb] in *; try reflexivity; try discriminate;
      repeat match goal with
             | H : str_eqb ?u (?f c) = true |- _ => apply str_eqb_eq in H; subst u
             end; congruence.
Qed.

(** the word list go/build looks at is yaegi's word list with one empty word in front *)
Lemma split_at_index p i :
  index underscore p = Some i ->
  split underscore (skipn i p) = [] :: split underscore (skipn (i + 1) p).
Proof.
  revert i; induction p as [|a p IH]; simpl; intros i H; [discriminate|].
  destruct (Ascii.eqb a underscore) eqn:E.
  - inversion H; subst. simpl. now rewrite E.
  - destruct (index underscore p) as [k|] eqn:Ei; [|discriminate]. inversion H; subst. simpl.
    now apply IH.
Qed.

(* ------------------------------------------------------------------ *)
(** * Refutations: inputs on which the faithful model of yaegi differs from go/build *)

Definition linux_amd64 : ctx :=
  {| goos := s "linux"; goarch := s "amd64"; btags := []; minor := go_minor; compiler := s "gc"; cgo := false |}.

Definition h_gobuild_ignore : header :=
  {| hgobuild := Some (ETag (s "ignore")); hplus := []; hdoc := []; hytags := [] |}.

Lemma gobuild_refuted :
  option_map fst (y_build_ok linux_amd64 (print_header h_gobuild_ignore)) = Some true
  /\ g_selected linux_amd64 h_gobuild_ignore = false.
Proof. split; vm_compute; reflexivity. Qed.

Definition h_doc_plus : header :=
  {| hgobuild := None; hplus := []; hdoc := [[[(false, s "windows")]]]; hytags := [] |}.

Lemma docplus_refuted :
  option_map fst (y_build_ok linux_amd64 (print_header h_doc_plus)) = Some false
  /\ g_selected linux_amd64 h_doc_plus = true.
Proof. split; vm_compute; reflexivity. Qed.

Definition h_unix : header :=
  {| hgobuild := None; hplus := [[[(false, s "unix")]]]; hdoc := []; hytags := [] |}.

Lemma vocab_refuted :
  option_map fst (y_build_ok linux_amd64 (print_header h_unix)) = Some false
  /\ g_selected linux_amd64 h_unix = true.
Proof. split; vm_compute; reflexivity. Qed.

(** irregular spacing and empty tags no longer reach a host panic (repaired, "fix:" commit in /repo):
    no line makes the model return [None]. *)
Lemma y_and_total c ts : y_and c ts <> None.
Proof.
  induction ts as [|t ts IH]; cbn [y_and]; [discriminate|].
  destruct (y_tag_ok c t) as [[|]|] eqn:E; [exact IH|discriminate|].
  destruct t; unfold y_tag_ok in E; discriminate E.
Qed.

Lemma y_or_total c os : y_or c os <> None.
Proof.
  induction os as [|o os IH]; cbn [y_or]; [discriminate|].
  unfold y_option_ok. destruct (y_and c (split comma o)) as [[|]|] eqn:E; [discriminate|exact IH|].
  exfalso. exact (y_and_total c _ E).
Qed.

Lemma line_never_panics c line : y_line_ok c line <> None.
Proof.
  unfold y_line_ok. destruct ((length line <? 7) || negb (has_prefix plus_build_sp line)); [discriminate|].
  apply y_or_total.
Qed.

Lemma irregular_spacing_example :
  y_line_ok linux_amd64 (s "+build windows  linux") = Some true
  /\ y_line_ok linux_amd64 (s "+build windows,,amd64") = Some false.
Proof. split; vm_compute; reflexivity. Qed.

Lemma name_refuted :
  (* the last word alone is not examined when there are two words *)
  (y_skip_file linux_amd64 (s "x_amd64_windows.go") true = false
   /\ g_skip_file linux_amd64 (s "x_amd64_windows.go") true = true)
  (* architectures missing from yaegi's list *)
  /\ (y_skip_file linux_amd64 (s "x_riscv64.go") true = false
      /\ g_skip_file linux_amd64 (s "x_riscv64.go") true = true)
  (* _test is not stripped when test files are loaded *)
  /\ (y_skip_file linux_amd64 (s "x_windows_test.go") false = false
      /\ g_skip_file linux_amd64 (s "x_windows_test.go") false = true).
Proof. repeat split; vm_compute; reflexivity. Qed.

(** non-vacuity of the side conditions *)
Definition h_example : header :=
  {| hgobuild := None;
     hplus := [[[(false, s "linux"); (true, s "foo")]; [(false, s "darwin")]]; [[(true, s "ignore")]];
               [[(false, s "go1.21")]; [(true, s "go1.99")]]];
     hdoc := []; hytags := [] |}.

Lemma plain_header_inhabited :
  plain_header linux_amd64 h_example = true /\ g_selected linux_amd64 h_example = true.
Proof. split; vm_compute; reflexivity. Qed.

Lemma name_side_inhabited :
  name_side linux_amd64 [s "b"; s "windows"; s "arm64"] = true
  /\ y_skip_core linux_amd64 [s "b"; s "windows"; s "arm64"] = true.
Proof. split; vm_compute; reflexivity. Qed.
