(** C17 — file selection by build constraints.
    Y: transcription of interp/build.go (buildOk / buildLineOk / buildOptionOk / buildTagOk /
       setYaegiTags / skipFile) on strings, including the host panic of [s[0]] on the empty tag.
    G: go/build semantics (shouldBuild / constraint evaluation / matchTag / goodOSArchFile)
       on structured headers, with a printer from structured headers to comment lines.
    Definitions only; proofs are in Build/Proofs.v. *)
From Verif Require Import Lib.Str.
From Verif Require Import gen.BuildLists_gen.

(* ------------------------------------------------------------------ *)
(** * Context *)

Record ctx := {
  goos : str; goarch : str;
  btags : list str;        (* Options.BuildTags plus tags added by yaegi:tags comments *)
  minor : Z;               (* N of the last release tag go1.N *)
  compiler : str;          (* "gc" *)
  cgo : bool               (* CgoEnabled of the reference context (false: an interpreter has no cgo) *)
}.

(* ------------------------------------------------------------------ *)
(** * Y — interp/build.go *)

Definition bang : ascii := "!"%char.
Definition comma : ascii := ","%char.
Definition space : ascii := " "%char.
Definition underscore : ascii := "_"%char.
Definition dot : ascii := "."%char.
Definition colon : ascii := ":"%char.

(** buildTagOk. [None] would be a Go run-time panic (none is left since the repair of the
    empty-tag case: an empty tag never matches). *)
Definition y_tag_val (c : ctx) (t' : str) : bool :=
  if mem t' (btags c) then true
  else if str_eqb t' (goos c) then true
  else if str_eqb t' (goarch c) then true
  else if (4 <? length t') && has_prefix (s "go1.") t' then
    match atoi (skipn 4 t') with
    | None => false
    | Some n => (n <=? minor c)%Z
    end
  else false.

Definition y_tag_ok (c : ctx) (t : str) : option bool :=
  match t with
  | [] => Some false
  | a :: r =>
      let neg := Ascii.eqb a bang in
      let t' := if neg then r else t in
      Some (xorb neg (y_tag_val c t'))
  end.

(** buildOptionOk on the already split option: AND, leaving at the first false tag. *)
Fixpoint y_and (c : ctx) (ts : list str) : option bool :=
  match ts with
  | [] => Some true
  | t :: r =>
      match y_tag_ok c t with
      | None => None
      | Some false => Some false
      | Some true => y_and c r
      end
  end.

Definition y_option_ok (c : ctx) (o : str) : option bool := y_and c (split comma o).

(** the loop of buildLineOk: OR, leaving at the first true option. *)
Fixpoint y_or (c : ctx) (os : list str) : option bool :=
  match os with
  | [] => Some false
  | o :: r =>
      match y_option_ok c o with
      | None => None
      | Some true => Some true
      | Some false => y_or c r
      end
  end.

Definition plus_build_sp : str := s "+build ".

Definition y_line_ok (c : ctx) (line : str) : option bool :=
  if (length line <? 7) || negb (has_prefix plus_build_sp line) then Some true
  else y_or c (fields (skipn 6 line)).

(** AND over the lines of all comment groups, leaving at the first false line. *)
Fixpoint y_lines_ok (c : ctx) (ls : list str) : option bool :=
  match ls with
  | [] => Some true
  | l :: r =>
      match y_line_ok c l with
      | None => None
      | Some false => Some false
      | Some true => y_lines_ok c r
      end
  end.

(** go/ast CommentGroup.Text() restricted to // comments; input: the text after "//". *)
Definition is_lower_alnum (a : ascii) : bool :=
  let n := nat_of_ascii a in ((97 <=? n) && (n <=? 122)) || ((48 <=? n) && (n <=? 57)).

Definition is_directive (b : str) : bool :=
  if has_prefix (s "line ") b || has_prefix (s "extern ") b || has_prefix (s "export ") b then true
  else match index colon b with
       | None => false
       | Some 0 => false
       | Some k =>
           if length b <=? k + 1 then false
           else forallb is_lower_alnum (firstn k b) && is_lower_alnum (nth (k + 1) b space)
       end.

Definition body_text (b : str) : option str :=
  match b with
  | [] => Some []
  | a :: r => if Ascii.eqb a space then Some (trim_right r)
              else if is_directive b then None
              else Some (trim_right b)
  end.

Fixpoint filter_map {A B} (f : A -> option B) (l : list A) : list B :=
  match l with
  | [] => []
  | x :: t => match f x with Some y => y :: filter_map f t | None => filter_map f t end
  end.

Fixpoint drop_blank (ls : list str) : list str :=
  match ls with
  | [] :: r => drop_blank r
  | _ => ls
  end.

(** The lines buildOk iterates over for one comment group:
    [strings.Split(strings.TrimSpace(g.Text()), "\n")]. *)
Definition group_lines (bodies : list str) : list str :=
  match drop_blank (filter_map body_text bodies) with
  | [] => [[]]
  | l :: r => trim_left l :: r
  end.

Definition y_header_lines (groups : list (list str)) : list str :=
  flat_map group_lines groups.

Definition yaegi_tags_sp : str := s "yaegi:tags ".

(** setYaegiTags: words of every "yaegi:tags " line are appended if not yet present. *)
Fixpoint add_tags (have : list str) (ws : list str) : list str :=
  match ws with
  | [] => have
  | w :: r => if mem w have then add_tags have r else add_tags (have ++ [w]) r
  end.

Fixpoint y_set_tags (have : list str) (ls : list str) : list str :=
  match ls with
  | [] => have
  | l :: r =>
      if (length l <? 11) || negb (has_prefix yaegi_tags_sp l) then y_set_tags have r
      else y_set_tags (add_tags have (split space (trim_space (skipn 10 l)))) r
  end.

Definition with_tags (c : ctx) (t : list str) : ctx :=
  {| goos := goos c; goarch := goarch c; btags := t; minor := minor c;
     compiler := compiler c; cgo := cgo c |}.

(** buildOk on the comment groups that precede the package clause: the decision and the context
    afterwards (tags are only added when the file is accepted). *)
Definition y_build_ok (c : ctx) (groups : list (list str)) : option (bool * ctx) :=
  let ls := y_header_lines groups in
  match y_lines_ok c ls with
  | None => None
  | Some false => Some (false, c)
  | Some true => Some (true, with_tags c (y_set_tags (btags c) ls))
  end.

(** A sequence of files evaluated by one interpreter: the tag set is threaded through. *)
Fixpoint y_build_files (c : ctx) (files : list (list (list str))) : list (option bool) :=
  match files with
  | [] => []
  | f :: r =>
      match y_build_ok c f with
      | None => None :: y_build_files c r
      | Some (b, c') => Some b :: y_build_files c' r
      end
  end.

(** skipFile(ctx, p, skipTest); [p] is a base name (the harness only passes base names). *)
Definition y_known_os_b (x : str) : bool := mem x y_known_os.
Definition y_known_arch_b (x : str) : bool := mem x y_known_arch.

Definition last2 (a : list str) : option (str * str) :=
  match rev a with
  | y :: x :: _ => Some (x, y)
  | _ => None
  end.

(** the decision of skipFile on the "_"-separated words that follow the first underscore *)
Definition y_skip_core (c : ctx) (a : list str) : bool :=
  match last2 a with
  | Some (x, y) =>
      if str_eqb x (goos c) then
        (if y_known_arch_b y then negb (str_eqb y (goarch c)) else false)
      else if y_known_os_b x && y_known_arch_b y then true
      else if y_known_arch_b y && negb (str_eqb y (goarch c)) then true
      else false
  | None =>
      match last_opt a with
      | Some x =>
          (y_known_os_b x && negb (str_eqb x (goos c)))
          || (y_known_arch_b x && negb (str_eqb x (goarch c)))
      | None => false
      end
  end.

Definition y_skip_file (c : ctx) (p : str) (skip_test : bool) : bool :=
  if negb (has_suffix (s ".go") p) then true
  else
    let p := trim_suffix (s ".go") p in
    (* filepath.Base("") is "." *)
    if has_prefix [underscore] p || has_prefix [dot] p || match p with [] => true | _ => false end then true
    else if skip_test && has_suffix (s "_test") p then true
    else match index underscore p with
         | None => false
         | Some i => y_skip_core c (split underscore (skipn (i + 1) p))
         end.

(* ------------------------------------------------------------------ *)
(** * G — go/build *)

Inductive expr :=
| ETag (t : str)
| ENot (e : expr)
| EAnd (a b : expr)
| EOr (a b : expr).

Definition go_known_os_b (x : str) : bool := mem x go_known_os.
Definition go_known_arch_b (x : str) : bool := mem x go_known_arch.
Definition go_unix_os_b (x : str) : bool := mem x go_unix_os.

(** decimal rendering of small naturals, for release tags go1.N *)
Definition digit_char (n : nat) : ascii := ascii_of_nat (48 + n).
Fixpoint dec_fuel (fuel n : nat) (acc : str) : str :=
  match fuel with
  | O => acc
  | S f => let acc' := digit_char (n mod 10) :: acc in
           if n / 10 =? 0 then acc' else dec_fuel f (n / 10) acc'
  end.
Definition dec (n : nat) : str := dec_fuel (S n) n [].

Definition release_tags (c : ctx) : list str :=
  map (fun k => s "go1." ++ dec k) (seq 1 (Z.to_nat (minor c))).

(** go/build matchTag *)
Definition g_match_tag (c : ctx) (t : str) : bool :=
  (cgo c && str_eqb t (s "cgo"))
  || str_eqb t (goos c) || str_eqb t (goarch c) || str_eqb t (compiler c)
  || (str_eqb (goos c) (s "android") && str_eqb t (s "linux"))
  || (str_eqb (goos c) (s "illumos") && str_eqb t (s "solaris"))
  || (str_eqb (goos c) (s "ios") && str_eqb t (s "darwin"))
  || (str_eqb t (s "unix") && go_unix_os_b (goos c))
  || mem (if str_eqb t (s "boringcrypto") then s "goexperiment.boringcrypto" else t) (btags c)
  || mem t (release_tags c).

Fixpoint g_eval (c : ctx) (e : expr) : bool :=
  match e with
  | ETag t => g_match_tag c t
  | ENot e => negb (g_eval c e)
  | EAnd a b => g_eval c a && g_eval c b
  | EOr a b => g_eval c a || g_eval c b
  end.

(** A "+build" line: OR of options, each an AND of possibly negated tags. *)
Definition plusterm := (bool * str)%type.          (* (negated, tag) *)
Definition plusopt := list plusterm.
Definition plusline := list plusopt.

Definition g_term (c : ctx) (t : plusterm) : bool := xorb (fst t) (g_match_tag c (snd t)).
Definition g_opt (c : ctx) (o : plusopt) : bool := forallb (g_term c) o.
Definition g_line (c : ctx) (l : plusline) : bool := existsb (g_opt c) l.

(** A structured file header.
    [hgobuild]: the //go:build expression if present (it then controls);
    [hplus]:    the // +build lines of the leading comment run that is followed by a blank line;
    [hdoc]:     // +build lines written in the doc comment adjacent to the package clause
                (Go does not treat these as constraints);
    [hytags]:   words of a "// yaegi:tags" line (yaegi specific). *)
Record header := {
  hgobuild : option expr;
  hplus : list plusline;
  hdoc : list plusline;
  hytags : list str
}.

Definition g_selected (c : ctx) (h : header) : bool :=
  match hgobuild h with
  | Some e => g_eval c e
  | None => forallb (g_line c) (hplus h)
  end.

(** Specification of the tag set: a selected file contributes its yaegi:tags words. *)
Definition g_tags_after (c : ctx) (h : header) : list str :=
  if g_selected c h then add_tags (btags c) (hytags h) else btags c.

Fixpoint g_files (c : ctx) (hs : list header) : list bool :=
  match hs with
  | [] => []
  | h :: r => g_selected c h :: g_files (with_tags c (g_tags_after c h)) r
  end.

(** goodOSArchFile + the name rules of MatchFile (leading _ or ., .go extension, test files). *)
Definition cut_dot (p : str) : str :=
  match index dot p with Some i => firstn i p | None => p end.

(** the decision of goodOSArchFile on the words of the name from its first underscore on
    (the first word is the empty string in front of that underscore) *)
Definition strip_test (l : list str) : list str :=
  match rev l with
  | t :: r => if str_eqb t (s "test") then rev r else l
  | [] => l
  end.

Definition g_good_core (c : ctx) (l : list str) : bool :=
  match rev (strip_test l) with
  | y :: x :: _ =>
      if go_known_os_b x && go_known_arch_b y then g_match_tag c y && g_match_tag c x
      else if go_known_os_b y || go_known_arch_b y then g_match_tag c y
      else true
  | [y] => if go_known_os_b y || go_known_arch_b y then g_match_tag c y else true
  | [] => true
  end.

Definition g_good_os_arch (c : ctx) (name : str) : bool :=
  let name := cut_dot name in
  match index underscore name with
  | None => true
  | Some i => g_good_core c (split underscore (skipn i name))
  end.

Definition g_skip_file (c : ctx) (p : str) (skip_test : bool) : bool :=
  if negb (has_suffix (s ".go") p) then true
  else if has_prefix [underscore] p || has_prefix [dot] p then true
  else if skip_test && has_suffix (s "_test.go") p then true
  else negb (g_good_os_arch c p).

(* ------------------------------------------------------------------ *)
(** * Printer: structured header -> comment groups (text after "//") *)

Definition print_term (t : plusterm) : str := if fst t then bang :: snd t else snd t.
Definition print_opt (o : plusopt) : str := join comma (map print_term o).
Definition print_line (l : plusline) : str := s " +build " ++ join space (map print_opt l).

Fixpoint print_expr (e : expr) : str :=
  match e with
  | ETag t => t
  | ENot e => bang :: print_expr e
  | EAnd a b => s "(" ++ print_expr a ++ s " && " ++ print_expr b ++ s ")"
  | EOr a b => s "(" ++ print_expr a ++ s " || " ++ print_expr b ++ s ")"
  end.

Definition print_header (h : header) : list (list str) :=
  let g1 :=
    (match hgobuild h with Some e => [s "go:build " ++ print_expr e] | None => [] end)
    ++ map print_line (hplus h)
    ++ (match hytags h with [] => [] | ws => [s " yaegi:tags " ++ join space ws] end) in
  let g2 := map print_line (hdoc h) in
  (match g1 with [] => [] | _ => [g1] end) ++ (match g2 with [] => [] | _ => [g2] end).
