(** C17 — release tags go1.N: decimal printing and parsing, used to extend the plain vocabulary of
    [Build/Proofs.v] to canonical release tags. *)
From Verif Require Import Lib.Str Build.Model.
From Coq Require Import ZifyNat ZifyBool.
Ltac Zify.zify_post_hook ::= Z.div_mod_to_equations.
Lemma digit_char_ok k : k < 10 -> is_digit (digit_char k) = true /\ nat_of_ascii (digit_char k) - 48 = k.
Proof.
  intros H. do 10 (destruct k as [|k]; [split; reflexivity|]). lia.
Qed.

Lemma digits_val_app a x y :
  digits_val a (x ++ y) = match digits_val a x with Some v => digits_val v y | None => None end.
Proof.
  revert a; induction x as [|c x IH]; intros a; cbn [app digits_val]; [reflexivity|].
  destruct (is_digit c); [apply IH|reflexivity].
Qed.

Lemma dec_fuel_acc fuel n acc : dec_fuel fuel n acc = dec_fuel fuel n [] ++ acc.
Proof.
  revert n acc; induction fuel as [|f IH]; intros n acc; cbn [dec_fuel]; [reflexivity|].
  destruct (n / 10 =? 0); [reflexivity|].
  rewrite IH. rewrite (IH (n / 10) [digit_char (n mod 10)]). now rewrite <- app_assoc.
Qed.

Lemma dec_fuel_val fuel n : n < fuel -> digits_val 0 (dec_fuel fuel n []) = Some (Z.of_nat n).
Proof.
  revert n; induction fuel as [|f IH]; intros n H; [lia|].
  cbn [dec_fuel].
  pose proof (digit_char_ok (n mod 10) (Nat.mod_upper_bound n 10 ltac:(lia))) as [Hd Hv].
  destruct (n / 10 =? 0) eqn:E.
  - apply Nat.eqb_eq in E. cbn [digits_val]. rewrite Hd, Hv. f_equal.
    lia.
  - apply Nat.eqb_neq in E. rewrite dec_fuel_acc, digits_val_app.
    assert (Hlt : n / 10 < f).
    { lia. }
    rewrite (IH _ Hlt). cbn [digits_val]. rewrite Hd, Hv. f_equal.
    lia.
Qed.

Lemma dec_val n : digits_val 0 (dec n) = Some (Z.of_nat n).
Proof. unfold dec. apply dec_fuel_val. lia. Qed.

Lemma dec_fuel_digits fuel n : forallb is_digit (dec_fuel fuel n []) = true.
Proof.
  revert n; induction fuel as [|f IH]; intros n; cbn [dec_fuel]; [reflexivity|].
  pose proof (digit_char_ok (n mod 10) (Nat.mod_upper_bound n 10 ltac:(lia))) as [Hd _].
  destruct (n / 10 =? 0).
  - cbn [forallb]. now rewrite Hd.
  - rewrite dec_fuel_acc, forallb_app, IH. cbn [forallb]. now rewrite Hd.
Qed.

Lemma dec_nonempty n : dec n <> [].
Proof.
  unfold dec. cbn [dec_fuel]. destruct (n / 10 =? 0); [discriminate|].
  rewrite dec_fuel_acc. destruct (dec_fuel n (n / 10) []); discriminate.
Qed.

Lemma atoi_dec n : (Z.of_nat n <= 2 ^ 63 - 1)%Z -> atoi (dec n) = Some (Z.of_nat n).
Proof.
  intros Hr. pose proof (dec_nonempty n) as Hne. pose proof (dec_fuel_digits (S n) n) as Hd.
  pose proof (dec_val n) as Hv. unfold dec in *.
  destruct (dec_fuel (S n) n []) as [|a t] eqn:E; [congruence|].
  cbn [forallb] in Hd. apply andb_true_iff in Hd. destruct Hd as [Ha _].
  unfold atoi.
  assert (Hp : Ascii.eqb a "+"%char = false).
  { destruct (Ascii.eqb_spec a "+"%char) as [->|]; [discriminate Ha|reflexivity]. }
  assert (Hm : Ascii.eqb a "-"%char = false).
  { destruct (Ascii.eqb_spec a "-"%char) as [->|]; [discriminate Ha|reflexivity]. }
  rewrite Hp, Hm. unfold atoi_body. rewrite Hv. cbv zeta.
  replace (1 * Z.of_nat n)%Z with (Z.of_nat n) by lia.
  destruct ((- 2 ^ 63 <=? Z.of_nat n)%Z && (Z.of_nat n <=? 2 ^ 63 - 1)%Z) eqn:Er; [reflexivity|].
  exfalso. apply andb_false_iff in Er. destruct Er as [Er|Er]; lia.
Qed.

Definition go1 : str := s "go1.".

Lemma dec_inj n k : dec n = dec k -> n = k.
Proof.
  intros E. pose proof (dec_val n) as H1. pose proof (dec_val k) as H2. rewrite E in H1.
  rewrite H1 in H2. inversion H2. lia.
Qed.

Lemma mem_release_seq n a len :
  mem (go1 ++ dec n) (map (fun k => go1 ++ dec k) (seq a len)) = (a <=? n) && (n <? a + len).
Proof.
  revert a; induction len as [|len IH]; intros a; cbn [seq map mem].
  - destruct (a <=? n) eqn:E; [|reflexivity]. symmetry. apply Nat.ltb_ge. apply Nat.leb_le in E. lia.
  - rewrite IH. destruct (str_eqb_spec (go1 ++ dec a) (go1 ++ dec n)) as [E|E].
    + apply app_inv_head in E. apply dec_inj in E. subst a.
      rewrite Nat.leb_refl. cbn [orb andb]. symmetry. apply Nat.ltb_lt. lia.
    + assert (a <> n) by (intros ->; congruence).
      cbn [orb]. destruct (S a <=? n) eqn:E1, (a <=? n) eqn:E2, (n <? S a + len) eqn:E3, (n <? a + S len) eqn:E4; try reflexivity; lia.
Qed.

(** a canonical release tag: "go1." followed by the decimal rendering of some n >= 1 (int64 range) *)
Definition release_canon (t : str) : bool :=
  has_prefix go1 t &&
  match atoi (skipn 4 t) with
  | Some v => (1 <=? v)%Z && str_eqb t (go1 ++ dec (Z.to_nat v))
  | None => false
  end.

Lemma release_canon_spec t :
  release_canon t = true ->
  exists n, 1 <= n /\ (Z.of_nat n <= 2 ^ 63 - 1)%Z /\ t = go1 ++ dec n.
Proof.
  unfold release_canon. rewrite andb_true_iff. intros [_ H].
  destruct (atoi (skipn 4 t)) as [v|] eqn:Ea; [|discriminate].
  rewrite andb_true_iff in H. destruct H as [Hv Ht]. apply str_eqb_eq in Ht.
  exists (Z.to_nat v). split; [lia|]. split; [|exact Ht].
  apply atoi_range in Ea. lia.
Qed.

(** yaegi's reading of a canonical release tag *)
Lemma y_release_val c n :
  (Z.of_nat n <= 2 ^ 63 - 1)%Z ->
  y_tag_val c (go1 ++ dec n) =
  mem (go1 ++ dec n) (btags c) || str_eqb (go1 ++ dec n) (goos c)
  || str_eqb (go1 ++ dec n) (goarch c) || (Z.of_nat n <=? minor c)%Z.
Proof.
  intros Hr. pose proof (dec_nonempty n) as Hne.
  assert (Hlen : (4 <? length (go1 ++ dec n)) = true).
  { apply Nat.ltb_lt. rewrite app_length. change (length go1) with 4. destruct (dec n); [congruence|]. cbn [length]. lia. }
  unfold y_tag_val. rewrite Hlen.
  replace (has_prefix (s "go1.") (go1 ++ dec n)) with true by (symmetry; apply (has_prefix_app go1)).
  change (skipn 4 (go1 ++ dec n)) with (dec n). rewrite (atoi_dec n Hr).
  destruct (mem (go1 ++ dec n) (btags c)), (str_eqb (go1 ++ dec n) (goos c)), (str_eqb (go1 ++ dec n) (goarch c)); reflexivity.
Qed.

(** go/build's reading: membership in the release tags go1.1 .. go1.minor *)
Lemma g_release c n :
  mem (go1 ++ dec n) (release_tags c) = (1 <=? n) && (Z.of_nat n <=? minor c)%Z.
Proof.
  change (release_tags c) with (map (fun k => go1 ++ dec k) (seq 1 (Z.to_nat (minor c)))).
  rewrite (mem_release_seq n 1 (Z.to_nat (minor c))).
  destruct (1 <=? n) eqn:E1; [|reflexivity]. cbn [andb].
  destruct (Z.of_nat n <=? minor c)%Z eqn:E2, (n <? 1 + Z.to_nat (minor c)) eqn:E3; try reflexivity; lia.
Qed.
