#!/bin/sh
# MANIFEST.setup_cmd: build everything from files on disk, offline.
set -e
cd "$(dirname "$0")"
export GOFLAGS=-mod=mod GOPROXY=off GOSUMDB=off GOTOOLCHAIN=local
mkdir -p build evidence replays coq/gen
cp /repo/go.sum harness/go.sum 2>/dev/null || true
(cd harness && go build -tags verif -o ../build/vh .)
for tr in $(./build/vh 2>&1 | awk '/^  tr-/{print $1}'); do ./build/vh "$tr" -repo /repo -out coq/gen; done
./coq/mk.sh
echo setup done
