package main

import (
	"fmt"
	"strings"
)

// C01 operand-shape stream (part of the boundary stream, enumerated completely in EVERY run; only the
// values are sampled by the seed):
//
//   operand position   x   addressable-expression shape   x   value category
//
// positions: assignment source, assignment destination, tuple swap, tuple rotation, tuple with a fresh
//   value, call argument, return value, composite-literal element, closure capture, op-assign / inc-dec,
//   range expression (with bodies that mutate the thing being iterated: element writes ahead of the
//   cursor, re-assignment, bounded append, re-slicing, string growth, map replacement)
// shapes: identifier, field, slice element, array element, pointee, element of field, field of element,
//   field through pointer, map entry, parenthesised field
// categories: int, string, struct, array, slice, map, pointer, interface holding int / string / struct /
//   array / slice
//
// One cell = one function with its own environment of three locations of the shape, holding three
// different values of the category; after the operation the whole environment is printed.

type shCat struct {
	key   string // identifier-safe name
	typ   string // Go type
	iface bool
	base  string                       // category of the dynamic value
	val   func(r *rng, k int) string   // k-th distinct value (expression of the static type)
	mut   func(x string, r *rng) string // statement changing location x in place (x assignable)
	pr    func(x string) string        // printable expression for x
}

func shIntVal(r *rng, k int) string { return fmt.Sprint(10*(k+1) + r.intn(9)) }

var shCats = []shCat{
	{key: "int", typ: "int", base: "int",
		val: shIntVal,
		mut: func(x string, r *rng) string { return x + " += 1000" },
		pr:  func(x string) string { return x }},
	{key: "str", typ: "string", base: "string",
		val: func(r *rng, k int) string { return fmt.Sprintf("%q", string(rune('a'+k))+string(rune('m'+r.intn(9)))) },
		mut: func(x string, r *rng) string { return x + ` += "!"` },
		pr:  func(x string) string { return x }},
	{key: "st", typ: "S", base: "struct",
		val: func(r *rng, k int) string { return fmt.Sprintf("S{A: %d, B: %d}", 10*(k+1)+r.intn(9), k+1) },
		mut: func(x string, r *rng) string { return shSel(x) + ".A += 1000" },
		pr:  func(x string) string { return x }},
	{key: "arr", typ: "[3]int", base: "array",
		val: func(r *rng, k int) string { return fmt.Sprintf("[3]int{%d, %d, %d}", 10*(k+1)+r.intn(9), k+1, k+2) },
		mut: func(x string, r *rng) string { return shSel(x) + "[0] += 1000" },
		pr:  func(x string) string { return x }},
	{key: "sl", typ: "[]int", base: "slice",
		val: func(r *rng, k int) string { return fmt.Sprintf("[]int{%d, %d, %d}", 10*(k+1)+r.intn(9), k+1, k+2) },
		mut: func(x string, r *rng) string { return shSel(x) + "[0] += 1000" },
		pr:  func(x string) string { return x }},
	{key: "mp", typ: "map[string]int", base: "map",
		val: func(r *rng, k int) string { return fmt.Sprintf("map[string]int{\"k\": %d}", 10*(k+1)+r.intn(9)) },
		mut: func(x string, r *rng) string { return shSel(x) + `["k"] += 1000` },
		pr:  func(x string) string { return x }},
	{key: "ptr", typ: "*int", base: "pointer",
		val: func(r *rng, k int) string { return fmt.Sprintf("newInt(%d)", 10*(k+1)+r.intn(9)) },
		mut: func(x string, r *rng) string { return "*" + x + " += 1000" },
		pr:  func(x string) string { return "*" + x }},
	{key: "iint", typ: "interface{}", iface: true, base: "int",
		val: shIntVal, pr: func(x string) string { return x }},
	{key: "istr", typ: "interface{}", iface: true, base: "string",
		val: func(r *rng, k int) string { return fmt.Sprintf("%q", string(rune('a'+k))+string(rune('m'+r.intn(9)))) },
		pr:  func(x string) string { return x }},
	{key: "ist", typ: "interface{}", iface: true, base: "struct",
		val: func(r *rng, k int) string { return fmt.Sprintf("S{A: %d, B: %d}", 10*(k+1)+r.intn(9), k+1) },
		pr:  func(x string) string { return x }},
	{key: "iarr", typ: "interface{}", iface: true, base: "array",
		val: func(r *rng, k int) string { return fmt.Sprintf("[3]int{%d, %d, %d}", 10*(k+1)+r.intn(9), k+1, k+2) },
		pr:  func(x string) string { return x }},
	{key: "isl", typ: "interface{}", iface: true, base: "slice",
		val: func(r *rng, k int) string { return fmt.Sprintf("[]int{%d, %d, %d}", 10*(k+1)+r.intn(9), k+1, k+2) },
		pr:  func(x string) string { return x }},
}

// shEnv: declarations creating three locations of type T with the given shape; returns the three
// location expressions and the statement printing the environment.
type shShape struct {
	key string
	mk  func(c *shCat, v [3]string) (decl string, locs [3]string, show []string)
	// map entries are assignable but not addressable
	notAddr bool
}

var shShapes = []shShape{
	{key: "ident", mk: func(c *shCat, v [3]string) (string, [3]string, []string) {
		return fmt.Sprintf("\tvar a, b, c %s = %s, %s, %s\n", c.typ, v[0], v[1], v[2]), [3]string{"a", "b", "c"}, nil
	}},
	{key: "field", mk: func(c *shCat, v [3]string) (string, [3]string, []string) {
		return fmt.Sprintf("\th := H_%s{%s, %s, %s}\n", c.key, v[0], v[1], v[2]), [3]string{"h.F", "h.G", "h.K"}, nil
	}},
	{key: "selem", mk: func(c *shCat, v [3]string) (string, [3]string, []string) {
		return fmt.Sprintf("\tes := []%s{%s, %s, %s}\n\ti, j, k := 0, 1, 2\n", c.typ, v[0], v[1], v[2]), [3]string{"es[i]", "es[j]", "es[k]"}, nil
	}},
	{key: "aelem", mk: func(c *shCat, v [3]string) (string, [3]string, []string) {
		return fmt.Sprintf("\tea := [3]%s{%s, %s, %s}\n", c.typ, v[0], v[1], v[2]), [3]string{"ea[0]", "ea[1]", "ea[2]"}, nil
	}},
	{key: "pointee", mk: func(c *shCat, v [3]string) (string, [3]string, []string) {
		return fmt.Sprintf("\tvar a, b, c %s = %s, %s, %s\n\tp1, p2, p3 := &a, &b, &c\n", c.typ, v[0], v[1], v[2]), [3]string{"*p1", "*p2", "*p3"}, nil
	}},
	{key: "elemOfField", mk: func(c *shCat, v [3]string) (string, [3]string, []string) {
		return fmt.Sprintf("\thf := HF_%s{Fs: []%s{%s, %s, %s}}\n", c.key, c.typ, v[0], v[1], v[2]), [3]string{"hf.Fs[0]", "hf.Fs[1]", "hf.Fs[2]"}, nil
	}},
	{key: "fieldOfElem", mk: func(c *shCat, v [3]string) (string, [3]string, []string) {
		return fmt.Sprintf("\ths := []H1_%s{{%s}, {%s}, {%s}}\n\tj := 1\n", c.key, v[0], v[1], v[2]), [3]string{"hs[0].F", "hs[j].F", "hs[2].F"}, nil
	}},
	{key: "ptrField", mk: func(c *shCat, v [3]string) (string, [3]string, []string) {
		return fmt.Sprintf("\tph := &H_%s{%s, %s, %s}\n", c.key, v[0], v[1], v[2]), [3]string{"ph.F", "ph.G", "ph.K"}, nil
	}},
	{key: "mapEntry", notAddr: true, mk: func(c *shCat, v [3]string) (string, [3]string, []string) {
		return fmt.Sprintf("\tmm := map[string]%s{\"x\": %s, \"y\": %s, \"z\": %s}\n", c.typ, v[0], v[1], v[2]), [3]string{`mm["x"]`, `mm["y"]`, `mm["z"]`}, nil
	}},
	{key: "parenField", mk: func(c *shCat, v [3]string) (string, [3]string, []string) {
		return fmt.Sprintf("\th := H_%s{%s, %s, %s}\n", c.key, v[0], v[1], v[2]), [3]string{"(h.F)", "(h.G)", "(h.K)"}, nil
	}},
}

type shOp struct {
	key string
	// applies reports whether the operation makes sense for the category / shape
	applies func(c *shCat, s *shShape) bool
	code    func(c *shCat, s *shShape, l [3]string, r *rng, show string) string
}

func shAny(c *shCat, s *shShape) bool { return true }

// shMut: an in-place change of location x; interface values and map entries are replaced instead.
func shMut(c *shCat, s *shShape, x string, r *rng) string {
	if c.iface || (s.notAddr && (c.base == "struct" || c.base == "array")) {
		return x + " = " + c.val(r, 7)
	}
	if s.notAddr && c.base == "int" {
		return x + " += 1000"
	}
	if s.notAddr && c.base == "string" {
		return x + ` += "!"`
	}
	return c.mut(x, r)
}

func shRangeable(c *shCat, s *shShape) bool {
	return !c.iface && (c.base == "array" || c.base == "slice" || c.base == "string" || c.base == "map")
}

var shOps = []shOp{
	{key: "src", applies: shAny, code: func(c *shCat, s *shShape, l [3]string, r *rng, show string) string {
		return fmt.Sprintf("\td := %s\n\tfmt.Println(%s)\n\t%s\n\tfmt.Println(%s)\n%s", l[0], c.pr("d"), shMut(c, s, l[0], r), c.pr("d"), show)
	}},
	{key: "dst", applies: shAny, code: func(c *shCat, s *shShape, l [3]string, r *rng, show string) string {
		return fmt.Sprintf("\t%s = %s\n%s\t%s = %s\n\t%s\n%s", l[0], c.val(r, 5), show, l[0], l[1], shMut(c, s, l[1], r), show)
	}},
	{key: "swap2", applies: shAny, code: func(c *shCat, s *shShape, l [3]string, r *rng, show string) string {
		return fmt.Sprintf("\t%s, %s = %s, %s\n%s", l[0], l[1], l[1], l[0], show)
	}},
	{key: "rot3", applies: shAny, code: func(c *shCat, s *shShape, l [3]string, r *rng, show string) string {
		return fmt.Sprintf("\t%s, %s, %s = %s, %s, %s\n%s\t%s, %s, %s = %s, %s, %s\n%s", l[0], l[1], l[2], l[1], l[2], l[0], show, l[2], l[0], l[1], l[0], l[0], l[2], show)
	}},
	{key: "swapVal", applies: shAny, code: func(c *shCat, s *shShape, l [3]string, r *rng, show string) string {
		// a tuple assignment whose sources overlap its destinations, with one fresh variable
		return fmt.Sprintf("\tvar t %s = %s\n\t%s, %s = t, %s\n%s\tt, %s = %s, t\n\tfmt.Println(%s)\n%s", c.typ, c.val(r, 5), l[0], l[1], l[0], show, l[2], l[2], c.pr("t"), show)
	}},
	{key: "arg", applies: shAny, code: func(c *shCat, s *shShape, l [3]string, r *rng, show string) string {
		return fmt.Sprintf("\tres := arg_%s(%s, %s)\n\tfmt.Println(%s)\n%s", c.key, l[0], l[1], c.pr("res"), show)
	}},
	{key: "ret", applies: shAny, code: func(c *shCat, s *shShape, l [3]string, r *rng, show string) string {
		return fmt.Sprintf("\tget := func() (%s, %s) {\n\t\treturn %s, %s\n\t}\n\tr1, r2 := get()\n\t%s\n\tfmt.Println(%s, %s)\n%s", c.typ, c.typ, l[1], l[0], shMut(c, s, l[0], r), c.pr("r1"), c.pr("r2"), show)
	}},
	{key: "lit", applies: shAny, code: func(c *shCat, s *shShape, l [3]string, r *rng, show string) string {
		return fmt.Sprintf("\tw := []%s{%s, %s}\n\thw := H_%s{F: %s, G: %s, K: %s}\n\t%s\n\t%s\n\tfmt.Println(%s, %s, %s)\n%s",
			c.typ, l[0], l[1], c.key, l[1], l[2], l[0], shMut(c, s, l[0], r), shMut(c, s, l[1], r), c.pr("w[0]"), c.pr("w[1]"), c.pr("hw.K"), show)
	}},
	{key: "capture", applies: shAny, code: func(c *shCat, s *shShape, l [3]string, r *rng, show string) string {
		return fmt.Sprintf("\tcl := func() {\n\t\t%s\n\t}\n\tget := func() %s {\n\t\treturn %s\n\t}\n\tcl()\n%s\t%s\n\tg := get()\n\tfmt.Println(%s)\n\tcl()\n%s",
			shMut(c, s, l[0], r), c.typ, l[1], show, shMut(c, s, l[1], r), c.pr("g"), show)
	}},
	{key: "opassign", applies: func(c *shCat, s *shShape) bool { return !c.iface && (c.base == "int" || c.base == "string") },
		code: func(c *shCat, s *shShape, l [3]string, r *rng, show string) string {
			if c.base == "int" {
				return fmt.Sprintf("\t%s += %s\n\t%s++\n\t%s *= %s\n\t%s -= %s\n%s", l[0], l[1], l[1], l[2], l[2], l[0], l[0], show)
			}
			return fmt.Sprintf("\t%s += %s\n\t%s += %s\n%s", l[0], l[1], l[1], l[1], show)
		}},
	// ---- range over the location, with a body that changes the location
	{key: "rangeAhead", applies: func(c *shCat, s *shShape) bool { return !c.iface && (c.base == "array" || c.base == "slice") && !s.notAddr },
		code: func(c *shCat, s *shShape, l [3]string, r *rng, show string) string {
			return fmt.Sprintf("\tfor i, v := range %s {\n\t\tif i+1 < len(%s) {\n\t\t\t%s[i+1] += 100\n\t\t}\n\t\tfmt.Println(i, v)\n\t}\n%s", l[0], l[0], shSel(l[0]), show)
		}},
	{key: "rangeReassign", applies: shRangeable, code: func(c *shCat, s *shShape, l [3]string, r *rng, show string) string {
		if c.base == "map" {
			return fmt.Sprintf("\tfor k, v := range %s {\n\t\t%s = %s\n\t\tfmt.Println(k, v)\n\t}\n%s", l[0], l[0], l[1], show)
		}
		return fmt.Sprintf("\tfor i, v := range %s {\n\t\t%s = %s\n\t\tfmt.Println(i, v)\n\t}\n%s", l[0], l[0], l[1], show)
	}},
	{key: "rangeAppend", applies: func(c *shCat, s *shShape) bool { return !c.iface && c.base == "slice" },
		code: func(c *shCat, s *shShape, l [3]string, r *rng, show string) string {
			return fmt.Sprintf("\tfor i, v := range %s {\n\t\tif len(%s) < 8 {\n\t\t\t%s = append(%s, v+100)\n\t\t}\n\t\tfmt.Println(i, v)\n\t}\n%s", l[0], l[0], l[0], l[0], show)
		}},
	{key: "rangeReslice", applies: func(c *shCat, s *shShape) bool { return !c.iface && c.base == "slice" },
		code: func(c *shCat, s *shShape, l [3]string, r *rng, show string) string {
			return fmt.Sprintf("\tfor i := range %s {\n\t\t%s = %s[:1]\n\t\tfmt.Println(i)\n\t}\n\tfor _, v := range %s {\n\t\t%s = nil\n\t\tfmt.Println(v)\n\t}\n%s", l[0], l[0], shSel(l[0]), l[1], l[1], show)
		}},
	{key: "rangeGrow", applies: func(c *shCat, s *shShape) bool { return !c.iface && c.base == "string" },
		code: func(c *shCat, s *shShape, l [3]string, r *rng, show string) string {
			return fmt.Sprintf("\tfor i, ch := range %s {\n\t\tif len(%s) < 8 {\n\t\t\t%s += \"+\"\n\t\t}\n\t\tfmt.Println(i, ch)\n\t}\n%s", l[0], l[0], l[0], show)
		}},
	{key: "rangeVars", applies: func(c *shCat, s *shShape) bool { return !c.iface && (c.base == "array" || c.base == "slice") },
		code: func(c *shCat, s *shShape, l [3]string, r *rng, show string) string {
			// the iteration variables are assigned in the body; closures keep each iteration's copies
			return fmt.Sprintf("\tvar fs []func() int\n\tfor i, v := range %s {\n\t\tv += i\n\t\ti = 7\n\t\tfs = append(fs, func() int { return i*1000 + v })\n\t}\n\tfor _, f := range fs {\n\t\tfmt.Println(f())\n\t}\n%s", l[0], show)
		}},
}

const shHelpers = `type S struct {
	A, B int
}

func newInt(v int) *int { return &v }

`

// shSel: x as the operand of a selector or index (a dereference needs parentheses).
func shSel(x string) string {
	if strings.HasPrefix(x, "*") {
		return "(" + x + ")"
	}
	return x
}

// shKnownCell: cells of the cross product that lie in a known-defect region which cannot be decided
// on the syntax alone ("" = none).
func shKnownCell(id string) string { return "" }

// shCatDecls: the types and helpers one category needs.
func shCatDecls(c *shCat, r *rng) string {
	var b strings.Builder
	fmt.Fprintf(&b, "type H_%s struct {\n\tF, G, K %s\n}\n\n", c.key, c.typ)
	fmt.Fprintf(&b, "type HF_%s struct {\n\tFs []%s\n}\n\n", c.key, c.typ)
	fmt.Fprintf(&b, "type H1_%s struct {\n\tF %s\n}\n\n", c.key, c.typ)
	// call argument: the callee changes its parameters; values are copied, references are shared
	var m1, m2 string
	if c.iface {
		m1, m2 = "x = "+c.val(r, 8), "y = x"
	} else {
		m1 = c.mut("x", r)
		m2 = c.mut("y", r)
	}
	swap := "x, y = y, x"
	if c.iface {
		swap = "t := x\n\tx = y\n\ty = t" // tuple assignment of interface values: region multi-assign-iface
	}
	fmt.Fprintf(&b, "func arg_%s(x, y %s) %s {\n\t%s\n\t%s\n\t%s\n\treturn y\n}\n\n", c.key, c.typ, c.typ, m1, m2, swap)
	return b.String()
}

type shCell struct {
	id   string
	cat  *shCat
	body string
}

func shMakeCell(c *shCat, s *shShape, o *shOp, r *rng) shCell {
	id := fmt.Sprintf("%s_%s_%s", o.key, s.key, c.key)
	v := [3]string{c.val(r, 0), c.val(r, 1), c.val(r, 2)}
	decl, locs, _ := s.mk(c, v)
	show := "\tfmt.Println(" + c.pr(locs[0]) + ", " + c.pr(locs[1]) + ", " + c.pr(locs[2]) + ")\n"
	code := o.code(c, s, locs, r, show)
	return shCell{id: id, cat: c, body: "func sh_" + id + "() {\n" + decl + code + "}\n"}
}

func shProgram(cells []shCell, r *rng) string {
	var b strings.Builder
	b.WriteString("package main\n\nimport \"fmt\"\n\n" + shHelpers)
	seen := map[string]bool{}
	for _, c := range cells {
		if !seen[c.cat.key] {
			seen[c.cat.key] = true
			b.WriteString(shCatDecls(c.cat, r))
		}
	}
	for _, c := range cells {
		b.WriteString(c.body + "\n")
	}
	// a cell that panics must not hide the cells after it
	b.WriteString("func cell(name string, f func()) {\n\tdefer func() {\n\t\tif e := recover(); e != nil {\n\t\t\tfmt.Println(\"PANIC in\", name)\n\t\t}\n\t}()\n\tfmt.Println(\"#\", name)\n\tf()\n}\n\n")
	b.WriteString("func main() {\n")
	for _, c := range cells {
		b.WriteString("\tcell(\"" + c.id + "\", sh_" + c.id + ")\n")
	}
	b.WriteString("}\n")
	return b.String()
}

// c1ShapeCases enumerates the whole cross product; cells rejected by go/types (operations that do
// not exist for a category) or lying in a known-defect region are left out and counted.
func c1ShapeCases(r *rng, count func(string)) []*c1case {
	var cells []shCell
	for oi := range shOps {
		for si := range shShapes {
			for ci := range shCats {
				o, s, c := &shOps[oi], &shShapes[si], &shCats[ci]
				if !o.applies(c, s) {
					continue
				}
				cell := shMakeCell(c, s, o, r.fork())
				one := shProgram([]shCell{cell}, r.fork())
				if err := c1Validate(one); err != nil {
					count("shape-cell-invalid")
					continue
				}
				if reg := c1ClassifyRegion(one); reg != "" {
					count("shape-cell-in-region:" + reg)
					continue
				}
				if shKnownCell(cell.id) != "" {
					count("shape-cell-in-region:" + shKnownCell(cell.id))
					continue
				}
				count("shape-cell")
				cells = append(cells, cell)
			}
		}
	}
	var out []*c1case
	const per = 30
	for i := 0; i < len(cells); i += per {
		j := i + per
		if j > len(cells) {
			j = len(cells)
		}
		src := shProgram(cells[i:j], r.fork())
		out = append(out, &c1case{Stream: "boundary", Src: src, Feat: map[string]int{"shape-cell": j - i}, Size: (j - i) * 12})
	}
	return out
}
