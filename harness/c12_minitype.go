package main

// Types of the sub-expressions of a well-typed MiniGo program (trusting well-typedness: this is
// only used to select which syntactic mutants belong to the family modelled by Y, it is not a
// reference for anything).

type minfo struct {
	T     mty    // type when typed
	U     string // "" when typed, else the untyped constant kind: "int" "float" "string" "bool"
	Const bool
	OK    bool
}

func (i minfo) class() string {
	if i.U != "" {
		switch i.U {
		case "int":
			return "integer"
		case "float":
			return "float"
		}
		return i.U
	}
	if k, ok := i.T.basicKind(); ok {
		switch {
		case k <= kUint:
			return "integer"
		case k == kFloat:
			return "float"
		case k == kString:
			return "string"
		default:
			return "bool"
		}
	}
	return "other"
}

func (i minfo) numeric() bool { c := i.class(); return c == "integer" || c == "float" }

// coarse class reflect distinguishes whatever the names: number / string / bool / other
func (i minfo) rclass() string {
	if i.numeric() {
		return "number"
	}
	return i.class()
}

type menv map[int]mty

func (p *mprog) infer(env menv, e *mexpr) minfo {
	switch e.Tag {
	case "Int":
		return minfo{U: "int", Const: true, OK: true}
	case "Float":
		return minfo{U: "float", Const: true, OK: true}
	case "Str":
		return minfo{U: "string", Const: true, OK: true}
	case "Bool":
		return minfo{U: "bool", Const: true, OK: true}
	case "Var":
		t, ok := env[e.N]
		return minfo{T: t, OK: ok}
	case "Un":
		return p.infer(env, e.Args[0])
	case "Bin":
		a, b := p.infer(env, e.Args[0]), p.infer(env, e.Args[1])
		if !a.OK || !b.OK {
			return minfo{}
		}
		switch e.Op {
		case "==", "!=", "<", "<=", ">", ">=":
			return minfo{U: "bool", Const: a.Const && b.Const, OK: true}
		case "<<", ">>":
			return a
		}
		switch {
		case a.U == "":
			a.Const = a.Const && b.Const
			return a
		case b.U == "":
			b.Const = a.Const && b.Const
			return b
		case a.U == "float" || b.U == "float":
			return minfo{U: "float", Const: true, OK: true}
		}
		return a
	case "Call":
		if e.N < len(p.Funcs) && len(p.Funcs[e.N].Results) == 1 {
			return minfo{T: p.Funcs[e.N].Results[0], OK: true}
		}
		return minfo{}
	case "Conv":
		a := p.infer(env, e.Args[0])
		return minfo{T: e.T, Const: a.Const, OK: a.OK}
	case "Field":
		a := p.infer(env, e.Args[0])
		if a.OK && a.U == "" && a.T.Tag == "S" && e.N < len(p.Structs[a.T.N]) {
			return minfo{T: p.Structs[a.T.N][e.N], OK: true}
		}
		return minfo{}
	case "Index":
		a := p.infer(env, e.Args[0])
		if a.OK && a.U == "" && a.T.Tag == "L" {
			return minfo{T: tB(a.T.K), OK: true}
		}
		return minfo{}
	case "Len":
		return minfo{T: tB(kInt), OK: true}
	case "SLit":
		return minfo{T: tS(e.N), OK: true}
	case "LLit":
		return minfo{T: e.T, OK: true}
	}
	return minfo{}
}

func defaultType(i minfo) mty {
	if i.U == "" {
		return i.T
	}
	switch i.U {
	case "int":
		return tB(kInt)
	case "float":
		return tB(kFloat)
	case "string":
		return tB(kString)
	}
	return tB(kBool)
}
