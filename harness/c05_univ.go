package main

import (
	"fmt"
	"go/ast"
	"go/importer"
	"go/parser"
	"go/token"
	"go/types"
	"sort"
	"strings"
)

// C05 universes: declared struct types (named int fields, struct-typed fields embedded or not, by
// value or by pointer), methods (value / pointer receivers, two signatures) and interfaces
// (method lists, embedded interfaces). One value of c05Univ is rendered as Go source (for yaegi
// and the Go toolchain), as a Gallina term (coq/Disp/Model.v: universe) and is interpreted by the
// Go twins of the two Coq models below (used only to steer generation and to label regions; the
// verdicts are computed inside Coq).

type c05Field struct {
	Name  string
	Embed bool
	Ptr   bool
	Typ   int // index of the struct type, -1 for a plain int field
}

type c05Meth struct {
	Name string
	Ptr  bool // pointer receiver
	Sig  int  // 0: func() string, 1: func(int) string
	ID   int  // unique in the universe
}

type c05Struct struct {
	Fields []c05Field
	Meths  []c05Meth
}

type c05IM struct {
	Name string
	Sig  int
}

type c05Iface struct {
	Meths  []c05IM
	Embeds []int
}

type c05Univ struct {
	Structs []c05Struct
	Ifaces  []c05Iface
	Order   []string // declaration order of the type names in the Go source
}

func tname(i int) string { return fmt.Sprintf("T%d", i) }
func iname(i int) string { return fmt.Sprintf("I%d", i) }
func sname(i int) string { return fmt.Sprintf("S%d", i) }

// ---------------------------------------------------------------- Coq rendering

func coqNat(i int) string { return fmt.Sprintf("%d", i) }
func coqN(i int) string   { return fmt.Sprintf("%d%%N", i) }

func coqNatList(l []int) string {
	it := make([]string, len(l))
	for i, x := range l {
		it[i] = coqNat(x)
	}
	return coqList(it)
}

func (u *c05Univ) coq() string {
	var ss []string
	for _, s := range u.Structs {
		var fs, ms []string
		for _, f := range s.Fields {
			st := "None"
			if f.Typ >= 0 {
				st = fmt.Sprintf("(Some (%s, %d))", coqBool(f.Ptr), f.Typ)
			}
			fs = append(fs, fmt.Sprintf("(mkF %s %s %s)", coqStr(f.Name), coqBool(f.Embed), st))
		}
		for _, m := range s.Meths {
			ms = append(ms, fmt.Sprintf("(mkM %s %s %s %s)", coqStr(m.Name), coqBool(m.Ptr), coqN(m.Sig), coqN(m.ID)))
		}
		ss = append(ss, fmt.Sprintf("(mkS %s %s)", coqList(fs), coqList(ms)))
	}
	var is []string
	for _, it := range u.Ifaces {
		var ms []string
		for _, m := range it.Meths {
			ms = append(ms, fmt.Sprintf("(%s, %s)", coqStr(m.Name), coqN(m.Sig)))
		}
		is = append(is, fmt.Sprintf("(mkI %s %s)", coqList(ms), coqNatList(it.Embeds)))
	}
	return fmt.Sprintf("(mkU %s %s)", coqList(ss), coqList(is))
}

// ---------------------------------------------------------------- Go rendering (declarations)

func sigParams(sig int) string {
	if sig == 1 {
		return "(k int) string"
	}
	return "() string"
}

func (u *c05Univ) declStruct(i int) string {
	var b strings.Builder
	s := u.Structs[i]
	fmt.Fprintf(&b, "type %s struct {\n", tname(i))
	for _, f := range s.Fields {
		ty := "int"
		if f.Typ >= 0 {
			ty = tname(f.Typ)
			if f.Ptr {
				ty = "*" + ty
			}
		}
		if f.Embed {
			fmt.Fprintf(&b, "\t%s\n", ty)
		} else {
			fmt.Fprintf(&b, "\t%s %s\n", f.Name, ty)
		}
	}
	b.WriteString("}\n\n")
	for _, m := range s.Meths {
		recv := tname(i)
		body := ""
		if m.Ptr {
			recv = "*" + recv
			body = fmt.Sprintf("r.%s += %d; ", sname(i), c05Mut)
		}
		if m.Sig == 1 {
			fmt.Fprintf(&b, "func (r %s) %s(k int) string { %sreturn \"%s.%s:\" + strconv.Itoa(r.%s) + \":\" + strconv.Itoa(k) }\n\n", recv, m.Name, body, tname(i), m.Name, sname(i))
		} else {
			fmt.Fprintf(&b, "func (r %s) %s() string { %sreturn \"%s.%s:\" + strconv.Itoa(r.%s) }\n\n", recv, m.Name, body, tname(i), m.Name, sname(i))
		}
	}
	return b.String()
}

func (u *c05Univ) declIface(i int) string {
	var b strings.Builder
	it := u.Ifaces[i]
	fmt.Fprintf(&b, "type %s interface {\n", iname(i))
	for _, e := range it.Embeds {
		fmt.Fprintf(&b, "\t%s\n", iname(e))
	}
	for _, m := range it.Meths {
		fmt.Fprintf(&b, "\t%s%s\n", m.Name, sigParams(m.Sig))
	}
	b.WriteString("}\n\n")
	return b.String()
}

// decls renders all type and method declarations in the universe's declaration order.
func (u *c05Univ) decls() string {
	var b strings.Builder
	for _, n := range u.Order {
		var k int
		if n[0] == 'T' {
			fmt.Sscanf(n, "T%d", &k)
			b.WriteString(u.declStruct(k))
		} else {
			fmt.Sscanf(n, "I%d", &k)
			b.WriteString(u.declIface(k))
		}
	}
	return b.String()
}

// ---------------------------------------------------------------- Go twin of the models (generation steering only)

type c05Sel struct {
	Kind  string // "none" | "ambig" | "field" | "method"
	Path  []int  // field: full index path; method: path of fields to the receiver
	Owner int    // struct type declaring the field / method
	Meth  *c05Meth
}

func (s c05Sel) depth() int {
	if s.Kind == "field" {
		return len(s.Path) - 1
	}
	return len(s.Path)
}

func (s c05Sel) coq() string {
	switch s.Kind {
	case "field":
		return fmt.Sprintf("(RSel (SField %s))", coqNatList(s.Path))
	case "method":
		return fmt.Sprintf("(RSel (SMethod %s (mkM %s %s %s %s)))", coqNatList(s.Path), coqStr(s.Meth.Name), coqBool(s.Meth.Ptr), coqN(s.Meth.Sig), coqN(s.Meth.ID))
	case "ambig":
		return "RAmbig"
	case "crash":
		return "RCrash"
	}
	return "RNone"
}

func (s c05Sel) String() string {
	switch s.Kind {
	case "field":
		return fmt.Sprintf("field%v@T%d", s.Path, s.Owner)
	case "method":
		return fmt.Sprintf("method%v@T%d.%s", s.Path, s.Owner, s.Meth.Name)
	}
	return s.Kind
}

func selEq(a, b c05Sel) bool {
	if a.Kind != b.Kind {
		return false
	}
	if a.Kind == "field" || a.Kind == "method" {
		if len(a.Path) != len(b.Path) || a.Owner != b.Owner {
			return false
		}
		for i := range a.Path {
			if a.Path[i] != b.Path[i] {
				return false
			}
		}
		if a.Kind == "method" && a.Meth.ID != b.Meth.ID {
			return false
		}
	}
	return true
}

// gSelect: shallowest depth with ambiguity (twin of Model.g_select).
func (u *c05Univ) gSelect(t int, name string) c05Sel {
	type entry struct {
		path []int
		t    int
	}
	lvl := []entry{{nil, t}}
	for fuel := 0; fuel <= len(u.Structs); fuel++ {
		var hits []c05Sel
		var next []entry
		for _, e := range lvl {
			s := u.Structs[e.t]
			for i, f := range s.Fields {
				if f.Name == name {
					hits = append(hits, c05Sel{Kind: "field", Path: append(append([]int{}, e.path...), i), Owner: e.t})
				}
				if f.Embed && f.Typ >= 0 {
					next = append(next, entry{append(append([]int{}, e.path...), i), f.Typ})
				}
			}
			for k := range s.Meths {
				if s.Meths[k].Name == name {
					hits = append(hits, c05Sel{Kind: "method", Path: append([]int{}, e.path...), Owner: e.t, Meth: &s.Meths[k]})
				}
			}
		}
		if len(hits) == 1 {
			return hits[0]
		}
		if len(hits) > 1 {
			return c05Sel{Kind: "ambig"}
		}
		lvl = next
	}
	return c05Sel{Kind: "none"}
}

// yField: twin of Model.y_lookup_field (depth first, seen set, descends into every struct-typed field).
func (u *c05Univ) yField(t int, name string, seen map[int]bool) []int {
	if seen[t] {
		return nil
	}
	seen[t] = true
	s := u.Structs[t]
	for i, f := range s.Fields {
		if f.Name == name {
			return []int{i}
		}
	}
	for i, f := range s.Fields {
		if f.Typ >= 0 {
			if p := u.yField(f.Typ, name, seen); len(p) > 0 {
				return append([]int{i}, p...)
			}
		}
	}
	return nil
}

// yMethod: twin of Model.y_lookup_method.
func (u *c05Univ) yMethod(t int, name string, seen map[int]bool) (*c05Meth, int, []int) {
	if seen[t] {
		return nil, 0, nil
	}
	seen[t] = true
	s := u.Structs[t]
	for k := range s.Meths {
		if s.Meths[k].Name == name {
			return &s.Meths[k], t, []int{}
		}
	}
	for i, f := range s.Fields {
		if f.Embed && f.Typ >= 0 {
			if m, o, p := u.yMethod(f.Typ, name, seen); m != nil {
				return m, o, append([]int{i}, p...)
			}
		}
	}
	return nil, 0, nil
}

func (u *c05Univ) ownerOfFieldPath(t int, path []int) int {
	cur := t
	for _, i := range path[:len(path)-1] {
		cur = u.Structs[cur].Fields[i].Typ
	}
	return cur
}

// yBinFieldReturns: twin of Model.y_binfield_returns (lookupBinField has no seen set).
func (u *c05Univ) yBinFieldReturns(t int, fuel int) bool {
	if fuel == 0 {
		return false
	}
	for _, f := range u.Structs[t].Fields {
		if f.Embed && f.Typ >= 0 && !u.yBinFieldReturns(f.Typ, fuel-1) {
			return false
		}
	}
	return true
}

// cyclic: some struct reaches an embedding cycle (every program of such a universe runs in a child process).
func (u *c05Univ) cyclic() bool {
	for t := range u.Structs {
		if !u.yBinFieldReturns(t, len(u.Structs)+1) {
			return true
		}
	}
	return false
}

// ySelect: twin of Model.y_select (the selectorExpr case of cfg.go).
func (u *c05Univ) ySelect(t int, name string) c05Sel {
	ti := u.yField(t, name, map[int]bool{})
	m, owner, mp := u.yMethod(t, name, map[int]bool{})
	if len(ti) == 0 && !u.yBinFieldReturns(t, len(u.Structs)+1) {
		return c05Sel{Kind: "crash"}
	}
	if len(ti) > 0 {
		if m != nil {
			d := len(mp)
			if d < len(ti) {
				return c05Sel{Kind: "method", Path: mp, Owner: owner, Meth: m}
			}
			if d == len(ti) {
				return c05Sel{Kind: "ambig"}
			}
		}
		return c05Sel{Kind: "field", Path: ti, Owner: u.ownerOfFieldPath(t, ti)}
	}
	if m != nil {
		return c05Sel{Kind: "method", Path: mp, Owner: owner, Meth: m}
	}
	return c05Sel{Kind: "none"}
}

// yDyn: what getMethodByName/lookupMethodValue resolve on the dynamic type (lookupMethod only).
func (u *c05Univ) yDyn(t int, name string) c05Sel {
	m, owner, mp := u.yMethod(t, name, map[int]bool{})
	if m == nil {
		return c05Sel{Kind: "none"}
	}
	return c05Sel{Kind: "method", Path: mp, Owner: owner, Meth: m}
}

// pathThroughPtr reports whether some field on the path is a pointer.
func (u *c05Univ) pathThroughPtr(t int, path []int) bool {
	cur := t
	for _, i := range path {
		f := u.Structs[cur].Fields[i]
		if f.Ptr {
			return true
		}
		cur = f.Typ
	}
	return false
}

// pathCrossesForwardPtr: the instance literals leave pointers to later types nil.
func (u *c05Univ) pathCrossesForwardPtr(t int, path []int) bool {
	cur := t
	for _, i := range path {
		f := u.Structs[cur].Fields[i]
		if f.Typ < 0 {
			return false
		}
		if f.Ptr && f.Typ > cur {
			return true
		}
		cur = f.Typ
	}
	return false
}

// pathAllEmbedded reports whether every field on the path (except a final plain field) is embedded.
func (u *c05Univ) pathAllEmbedded(t int, path []int, isField bool) bool {
	cur := t
	n := len(path)
	if isField {
		n--
	}
	for _, i := range path[:n] {
		f := u.Structs[cur].Fields[i]
		if !f.Embed {
			return false
		}
		cur = f.Typ
	}
	return true
}

func (u *c05Univ) allMethNames() []string {
	set := map[string]bool{}
	for _, s := range u.Structs {
		for _, m := range s.Meths {
			set[m.Name] = true
		}
	}
	return sortedKeys(set)
}

// gMethodSet: method set of T (ptr=false) or *T (ptr=true): names -> method.
func (u *c05Univ) gMethodSet(t int, ptr bool) map[string]*c05Meth {
	res := map[string]*c05Meth{}
	for _, n := range u.allMethNames() {
		s := u.gSelect(t, n)
		if s.Kind != "method" {
			continue
		}
		if s.Meth.Ptr && !ptr && !u.pathThroughPtr(t, s.Path) {
			continue
		}
		res[n] = s.Meth
	}
	return res
}

// ifaceMethods: flattened method list of an interface.
func (u *c05Univ) ifaceMethods(i int) map[string]int {
	res := map[string]int{}
	var walk func(i int, fuel int)
	walk = func(i int, fuel int) {
		if fuel == 0 {
			return
		}
		for _, e := range u.Ifaces[i].Embeds {
			walk(e, fuel-1)
		}
		for _, m := range u.Ifaces[i].Meths {
			res[m.Name] = m.Sig
		}
	}
	walk(i, len(u.Ifaces)+1)
	return res
}

func (u *c05Univ) gImplements(t int, ptr bool, iface int) bool {
	ms := u.gMethodSet(t, ptr)
	for n, sig := range u.ifaceMethods(iface) {
		m, ok := ms[n]
		if !ok || m.Sig != sig {
			return false
		}
	}
	return true
}

// yMethods: twin of Model.y_methods (key set of itype.methods(): union over embedded fields, receiver kind ignored).
func (u *c05Univ) yMethods(t int) map[string]int {
	res := map[string]int{}
	seen := map[int]bool{}
	var walk func(t int) map[string]int
	walk = func(t int) map[string]int {
		r := map[string]int{}
		if seen[t] {
			return r
		}
		seen[t] = true
		for _, f := range u.Structs[t].Fields {
			if f.Embed && f.Typ >= 0 {
				for k, v := range walk(f.Typ) {
					r[k] = v
				}
			}
		}
		for _, m := range u.Structs[t].Meths {
			r[m.Name] = m.Sig
		}
		return r
	}
	for k, v := range walk(t) {
		res[k] = v
	}
	return res
}

// yAssert: twin of Model.y_assert for a non-nil dynamic type and a non-empty source interface.
func (u *c05Univ) yAssert(t int, iface int) bool {
	m0 := u.yMethods(t)
	m1 := u.ifaceMethods(iface)
	if len(m0) < len(m1) {
		return false
	}
	for k, sig := range m1 {
		s0, ok := m0[k]
		// signature strings are compared; on a difference the first parameter of the concrete
		// method is stripped ("receiver") and the comparison repeated
		if !ok || !(s0 == sig || s0 == sig+1) {
			return false
		}
	}
	return true
}

// gImplementsNames: implements, ignoring signatures.
func (u *c05Univ) gImplementsNames(t int, ptr bool, iface int) bool {
	ms := u.gMethodSet(t, ptr)
	for n := range u.ifaceMethods(iface) {
		if _, ok := ms[n]; !ok {
			return false
		}
	}
	return true
}

// ---------------------------------------------------------------- go/types view (the reference for resolution)

type c05Types struct {
	pkg  *types.Package
	fset *token.FileSet
}

var c05Importer = importer.ForCompiler(token.NewFileSet(), "source", nil)

func c05Check(src string) (*c05Types, error) {
	fset := token.NewFileSet()
	f, err := parser.ParseFile(fset, "main.go", src, 0)
	if err != nil {
		return nil, err
	}
	conf := types.Config{Importer: c05Importer}
	pkg, err := conf.Check("main", fset, []*ast.File{f}, nil)
	if err != nil {
		return nil, err
	}
	return &c05Types{pkg, fset}, nil
}

func (ct *c05Types) named(name string) *types.Named {
	obj := ct.pkg.Scope().Lookup(name)
	if obj == nil {
		return nil
	}
	n, _ := obj.Type().(*types.Named)
	return n
}

// refSelect: go/types' answer for T.name, converted to the model's vocabulary.
func (ct *c05Types) refSelect(u *c05Univ, t int, name string) c05Sel {
	T := ct.named(tname(t))
	obj, index, _ := types.LookupFieldOrMethod(T, true, ct.pkg, name)
	if obj == nil {
		if index != nil {
			return c05Sel{Kind: "ambig"}
		}
		return c05Sel{Kind: "none"}
	}
	switch o := obj.(type) {
	case *types.Var:
		return c05Sel{Kind: "field", Path: index, Owner: u.ownerOfFieldPath(t, index)}
	case *types.Func:
		path := index[:len(index)-1]
		owner := t
		for _, i := range path {
			owner = u.Structs[owner].Fields[i].Typ
		}
		for k := range u.Structs[owner].Meths {
			if u.Structs[owner].Meths[k].Name == o.Name() {
				return c05Sel{Kind: "method", Path: append([]int{}, path...), Owner: owner, Meth: &u.Structs[owner].Meths[k]}
			}
		}
	}
	return c05Sel{Kind: "none"}
}

func (ct *c05Types) refMethodSet(t int, ptr bool) []string {
	var T types.Type = ct.named(tname(t))
	if ptr {
		T = types.NewPointer(T)
	}
	ms := types.NewMethodSet(T)
	var names []string
	for i := 0; i < ms.Len(); i++ {
		names = append(names, ms.At(i).Obj().Name())
	}
	sort.Strings(names)
	return names
}

func (ct *c05Types) refImplements(t int, ptr bool, iface int) bool {
	var T types.Type = ct.named(tname(t))
	if ptr {
		T = types.NewPointer(T)
	}
	it := ct.named(iname(iface)).Underlying().(*types.Interface)
	return types.Implements(T, it)
}
