package main

import (
	"fmt"
	"strings"
)

// ---------------------------------------------------------------- host interfaces
//
// Interpreted values handed to compiled code that expects an interface (fmt.Stringer, error,
// sort.Interface, io.Reader, io.Writer): a chain of struct types H0 <- H1 <- H2 (each embeds the
// previous one by value or by pointer), the host methods declared at random levels with random
// receiver kinds, possibly shadowed by an outer level.  The resolution is linear (no siblings), so
// depth-first and shallowest-depth coincide; what is exercised is the wrapper generation and the
// receiver binding of promoted methods.  yaegi is compared with compiled Go only (no Coq cases).

type c05HostMeth struct {
	Level int
	Ptr   bool
}

type c05HostProg struct {
	EmbedPtr [3]bool                  // EmbedPtr[k]: H<k> embeds *H<k-1>
	Meths    map[string][]c05HostMeth // group -> declarations (several = shadowing)
	Top      int
}

var c05HostGroups = []string{"String", "Error", "Sort", "Write", "Read"}

func genC05Host(r *rng) *c05HostProg {
	h := &c05HostProg{Meths: map[string][]c05HostMeth{}, Top: 1 + r.intn(2)}
	for k := 1; k <= 2; k++ {
		h.EmbedPtr[k] = r.chance(40)
	}
	for _, g := range c05HostGroups {
		if r.chance(25) {
			continue
		}
		l := r.intn(h.Top + 1)
		h.Meths[g] = append(h.Meths[g], c05HostMeth{l, r.chance(50) || g == "Read" || g == "Write"})
		if l < h.Top && r.chance(25) && (g == "String" || g == "Error") {
			h.Meths[g] = append(h.Meths[g], c05HostMeth{l + 1 + r.intn(h.Top-l), r.chance(50)})
		}
	}
	// a value with both String and Error is formatted differently (finding host-fmt-error): keep one of them
	if len(h.Meths["String"]) > 0 && len(h.Meths["Error"]) > 0 {
		if r.bool() {
			delete(h.Meths, "String")
		} else {
			delete(h.Meths, "Error")
		}
	}
	return h
}

// resolve: the declaration of group g seen from H<k> (the outermost level <= k declaring it).
func (h *c05HostProg) resolve(g string, k int) (c05HostMeth, bool) {
	best, ok := c05HostMeth{Level: -1}, false
	for _, m := range h.Meths[g] {
		if m.Level <= k && m.Level > best.Level {
			best, ok = m, true
		}
	}
	return best, ok
}

// inSet: is group g in the method set of H<k> (ptr=false) or *H<k>?
func (h *c05HostProg) inSet(g string, k int, ptr bool) bool {
	m, ok := h.resolve(g, k)
	if !ok {
		return false
	}
	if !m.Ptr || ptr {
		return true
	}
	for l := m.Level + 1; l <= k; l++ {
		if h.EmbedPtr[l] {
			return true
		}
	}
	return false
}

func (h *c05HostProg) source() string {
	var b strings.Builder
	b.WriteString("package main\n\nimport (\n\t\"fmt\"\n\t\"io\"\n\t\"sort\"\n\t\"strconv\"\n)\n\n")
	b.WriteString("var (\n\t_ = sort.Sort\n\t_ = io.EOF\n\t_ = strconv.Itoa\n)\n\n")
	b.WriteString("type H0 struct {\n\tS int\n\tV [4]int\n\tW []byte\n\tR string\n}\n\n")
	for k := 1; k <= h.Top; k++ {
		star := ""
		if h.EmbedPtr[k] {
			star = "*"
		}
		fmt.Fprintf(&b, "type H%d struct {\n\t%sH%d\n\tA%d int\n}\n\n", k, star, k-1, k)
	}
	recv := func(m c05HostMeth) string {
		if m.Ptr {
			return fmt.Sprintf("(r *H%d)", m.Level)
		}
		return fmt.Sprintf("(r H%d)", m.Level)
	}
	for _, g := range c05HostGroups {
		for _, m := range h.Meths[g] {
			rc := recv(m)
			id := fmt.Sprintf("H%d.%s", m.Level, g)
			switch g {
			case "String":
				fmt.Fprintf(&b, "func %s String() string { return \"%s:\" + strconv.Itoa(r.S) }\n\n", rc, id)
			case "Error":
				fmt.Fprintf(&b, "func %s Error() string { return \"%s:\" + strconv.Itoa(r.S) }\n\n", rc, id)
			case "Sort":
				fmt.Fprintf(&b, "func %s Len() int { return len(r.V) }\n\n", rc)
				fmt.Fprintf(&b, "func %s Less(i, j int) bool { return r.V[i] < r.V[j] }\n\n", rc)
				fmt.Fprintf(&b, "func %s Swap(i, j int) { r.V[i], r.V[j] = r.V[j], r.V[i] }\n\n", rc)
			case "Write":
				fmt.Fprintf(&b, "func %s Write(p []byte) (int, error) { r.W = append(r.W, p...); r.S++; return len(p), nil }\n\n", rc)
			case "Read":
				fmt.Fprintf(&b, "func %s Read(p []byte) (int, error) {\n\tif r.R == \"\" {\n\t\treturn 0, io.EOF\n\t}\n\tn := copy(p, r.R)\n\tr.R = r.R[n:]\n\treturn n, nil\n}\n\n", rc)
			}
		}
	}
	// instance
	lit := "H0{S: 7, V: [4]int{3, 1, 4, 2}, R: \"xyz\"}"
	for k := 1; k <= h.Top; k++ {
		amp := ""
		if h.EmbedPtr[k] {
			amp = "&"
		}
		lit = fmt.Sprintf("H%d{H%d: %s%s, A%d: %d}", k, k-1, amp, lit, k, 10+k)
	}
	b.WriteString("func main() {\n")
	fmt.Fprintf(&b, "\tx := %s\n\tpx := &x\n\t_ = px\n", lit)
	probe := 0
	pr := func(format string, a ...any) {
		probe++
		fmt.Fprintf(&b, "\t"+strings.ReplaceAll(format, "@", fmt.Sprintf("\"h%d\"", probe))+"\n", a...)
	}
	k := h.Top
	for _, v := range []struct {
		expr string
		ptr  bool
	}{{"x", false}, {"px", true}} {
		if h.inSet("String", k, v.ptr) {
			pr("fmt.Println(@, %s)", v.expr)
			pr("fmt.Println(@, fmt.Sprintf(\"%%v|%%s\", %s, %s))", v.expr, v.expr)
			pr("{ var s fmt.Stringer = %s; fmt.Println(@, s.String(), s) }", v.expr)
		}
		if h.inSet("Error", k, v.ptr) {
			pr("{ var e error = %s; fmt.Println(@, e.Error(), e) }", v.expr)
			pr("{ var e error = %s; w := fmt.Errorf(\"w: %%w\", e); fmt.Println(@, w.Error()) }", v.expr)
		}
		if h.inSet("Write", k, v.ptr) {
			pr("{ io.WriteString(%s, \"ab\"); fmt.Println(@, string(x.W), x.S) }", v.expr)
			if _, anyString := h.resolve("String", k); !anyString {
				// a writer that is also a Stringer is wrapped as a Stringer by the fmt special case (finding host-fprintf-writer)
				pr("{ fmt.Fprintf(%s, \"%%d\", 42); fmt.Println(@, string(x.W), x.S) }", v.expr)
			}
		}
		if h.inSet("Sort", k, v.ptr) {
			pr("{ sort.Sort(%s); fmt.Println(@, x.V, sort.IsSorted(%s)) }", v.expr, v.expr)
			pr("{ x.V = [4]int{9, 8, 7, 6}; sort.Sort(sort.Reverse(%s)); fmt.Println(@, x.V) }", v.expr)
		}
		if h.inSet("Read", k, v.ptr) {
			pr("{ x.R = \"hello\"; bs, err := io.ReadAll(%s); fmt.Println(@, string(bs), err, x.R == \"\") }", v.expr)
			if h.inSet("Write", k, true) {
				pr("{ x.R = \"copy\"; y := x; y.W = nil; n, err := io.Copy(&y, %s); fmt.Println(@, n, err, string(y.W)) }", v.expr)
			}
		}
	}
	fmt.Fprintf(&b, "\tfmt.Println(\"end\", x.S, x.A%d)\n}\n", h.Top)
	return b.String()
}

func (h *c05HostProg) describe() map[string]any {
	return map[string]any{"level": "host", "top": h.Top, "embedPtr": h.EmbedPtr, "meths": h.Meths}
}

// ---------------------------------------------------------------- fixed witnesses of findings that the random streams do not reach

type c05Witness struct {
	Name   string
	Region string
	Child  bool     // run yaegi in a child process
	Src    string   // package main
	Expect string   // yaegi's output on the unchanged tree (stdout + "\x00" + end); "host-crash" matches any host crash
	Univ   *c05Univ // optional: the witness' declarations as a universe, with the selector it exercises
	SelT   int
	SelN   string
}

// type A struct{ *B; X int }; func (A) M();  type B struct{ *A; Y int }
var c05CycleUniv = &c05Univ{Structs: []c05Struct{
	{Fields: []c05Field{{Name: "B", Embed: true, Ptr: true, Typ: 1}, {Name: "X", Typ: -1}}, Meths: []c05Meth{{Name: "M", ID: 1}}},
	{Fields: []c05Field{{Name: "A", Embed: true, Ptr: true, Typ: 0}, {Name: "Y", Typ: -1}}},
}}

var c05Witnesses = []c05Witness{
	{Name: "w_switch_empty", Region: "typeswitch-empty-src", Src: `package main

import "fmt"

type T0 struct {
	Z  int
	S0 int
}

func (r T0) N() string { return "T0.N" }

type T1 struct {
	Y  int
	S1 int
	T0
	X int
}

func (r *T1) P() string { return "T1.P" }

func main() {
	v := T1{Y: 32, S1: 33, T0: T0{Z: 34, S0: 35}, X: 36}
	var i interface{} = v
	switch x := i.(type) {
	case T0:
		fmt.Println("T0", x.S0)
	case T1:
		fmt.Println("T1", x.S1)
	default:
		fmt.Println("default")
	}
	var j interface{} = v.T0
	switch x := j.(type) {
	case T0:
		fmt.Println("T0", x.S0)
	case T1:
		fmt.Println("T1", x.S1)
	default:
		fmt.Println("default")
	}
}
`, Expect: "default\ndefault\n\x00ok"},
	{Name: "w_assert_empty", Region: "assert-from-empty", Src: `package main

import "fmt"

type A struct{ X int }

func (a A) M() string { return fmt.Sprint("A.M ", a.X) }

type B struct{ A }

type I interface{ M() string }

func main() {
	b := B{A{1}}
	var e interface{} = b
	_, ok := e.(I)
	fmt.Println("any(B) is I:", ok)
}
`, Expect: "any(B) is I: false\n\x00ok"},
	{Name: "w_errors_is", Region: "host-errors", Src: `package main

import (
	"errors"
	"fmt"
)

type E struct{ code int }

func (e E) Error() string   { return fmt.Sprint("E", e.code) }
func (e E) Is(t error) bool { x, ok := t.(E); return ok && x.code == e.code }

type EE struct{ E }

func main() {
	e1 := EE{E{5}}
	wrapped := fmt.Errorf("wrap: %w", e1)
	fmt.Println(wrapped)
	fmt.Println(errors.Is(wrapped, E{5}), errors.Is(wrapped, E{6}))
}
`, Expect: "wrap: %!w(struct { struct { Xcode int } }={{5}})\nfalse false\n\x00ok"},
	{Name: "w_fprintf_writer", Region: "host-fprintf-writer", Src: `package main

import "fmt"

type W struct{ buf []byte }

func (w *W) Write(p []byte) (int, error) { w.buf = append(w.buf, p...); return len(p), nil }
func (w *W) String() string              { return "W:" + string(w.buf) }

func main() {
	w := &W{}
	defer func() { fmt.Println("recovered", recover() != nil, string(w.buf)) }()
	fmt.Fprintf(w, "%d", 42)
}
`, Expect: "recovered true \n\x00ok"},
	{Name: "w_fmt_error", Region: "host-fmt-error", Src: `package main

import "fmt"

type A struct{ X int }

func (a A) String() string { return fmt.Sprint("A.String ", a.X) }
func (a *A) Error() string { return fmt.Sprint("A.Error ", a.X) }

type C struct {
	*A
	Y int
}

func main() {
	a := A{1}
	c := C{&A{3}, 4}
	fmt.Println(a)
	fmt.Println(&a)
	fmt.Println(c)
}
`, Expect: "A.String 1\nA.String 1\nA.String 3\n\x00ok"},
	{Name: "w_recursive_field", Region: "recursive-struct", Src: `package main

import "fmt"

type T1 struct {
	Y int
	*T2
	S1 int
}
type T2 struct {
	S2 int
	T1
	X int
}

func main() {
	v := T2{S2: 18, T1: T1{Y: 19, S1: 21}, X: 22}
	fmt.Println(v.S2)
	fmt.Println(v.X)
	fmt.Println(v.Y)
}
`, Expect: "18\n19\n19\n\x00ok||18\n22\n22\n\x00ok"}, // not deterministic (one of two wrong answers)
	{Name: "w_embed_cycle", Region: "embed-cycle", Child: true, Src: `package main

import "fmt"

type A struct {
	*B
	X int
}
type B struct {
	*A
	Y int
}

func (a A) M() string { return "A.M" }

func main() {
	a := A{X: 1}
	fmt.Println(a.X)
	fmt.Println(a.M())
}
`, Expect: "host-crash", Univ: c05CycleUniv, SelT: 0, SelN: "M"},
}
