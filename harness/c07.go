package main

import (
	"bytes"
	"context"
	"encoding/json"
	"flag"
	"fmt"
	"io"
	"os"
	"os/exec"
	"reflect"
	"strings"
	"sync"
	"time"

	"github.com/traefik/yaegi/interp"
	"github.com/traefik/yaegi/stdlib"
)

// C07: values and calls cross the host/script boundary unchanged.
//   impl  = real yaegi: host functions/variables given through Use and called/accessed by generated
//           scripts; script functions/variables obtained through Eval/Symbols/Globals and used natively
//   Y, G  = coq/Boundary/Model.v evaluated by coqc on the cases files written here
//   ref   = the same call / access performed without crossing the boundary (natively in the host on
//           the manufactured Go values; Go's parameter-binding rules), and compiled Go for the
//           interface stream

func init() {
	register("c07", "C07 host/script boundary: generate signatures and values, run yaegi both directions, write cases", runC07)
}

// One observed crossing. Kind "args": actual arguments -> parameters seen by the callee;
// "results": results returned -> values seen by the caller; "var": one value read/written/round-tripped.
type c07case struct {
	ID     int
	Kind   string // args | results | var
	Dir    string // S2H | H2S | S2S | RTS (script->host->script) | RTH (host->script->host)
	Sig    *c07t  // args/results: the function type
	Mode   string // args: plain | ind | spread
	Shape  string // call-site shape / access path
	Defer  bool   // args: the call is deferred
	FuncV  bool   // args, script calls script: the callee is a function value (called through reflect)
	Ts     []*c07t
	Sent   []*cval
	Old    *cval    // var: the value the variable held when the script was compiled (host variables)
	Prev   *cval    // var: the value held just before a write
	CoqK   string   // results: placement term; var: vkind term
	FullTs []*c07t  // results: all result types (the blank shape observes a suffix)
	Full   []*cval  // results: all results returned
	Meth   *c07meth // host-method cases
	Impl   []*cval
	Ref    []*cval
	Region string
	Input  map[string]any
}

type c07meth struct {
	form   string
	vp     int // position of the variadic parameter, -1 = none
	np, na int // declared parameters, arguments at the call site
}

type c07h struct {
	sm      *summary
	cases   []*c07case
	timeout time.Duration
	seed    uint64
	tier    string
	out     string
	child   int // >= 0: this process only runs scenario number child and prints what it observed
}

// job collects the cases of one generated scenario; ids are assigned in generation order afterwards.
type c07job struct {
	idx   int
	a     *c07A
	run   func(j *c07job)
	cases []*c07case
	other []refMismatch // reference-only comparisons (no Coq case)
	wraps []*c07wrapCase
	disps []*c07dispCase
	sess  []*c07sessCase
	stmts []*c07stmtCase
	lits  []*c07litCase
	echos []*c07echoCase
	count map[string]int
	evals int
	refs  int
	dist  []string
}

func (j *c07job) add(c *c07case) { j.cases = append(j.cases, c) }
func (j *c07job) tick(k string) {
	if j.count == nil {
		j.count = map[string]int{}
	}
	j.count[k]++
}

// ---------------------------------------------------------------- running scripts

type c07run struct {
	i      *interp.Interpreter
	failed string // first failure (compile error, panic, timeout), "" = fine
}

func c07exports(extra map[string]reflect.Value) interp.Exports {
	m := map[string]reflect.Value{
		"P":    reflect.ValueOf((*C07P)(nil)),
		"Q":    reflect.ValueOf((*C07Q)(nil)),
		"R":    reflect.ValueOf((*C07R)(nil)),
		"E":    reflect.ValueOf((*C07E)(nil)),
		"PE":   reflect.ValueOf((*C07PE)(nil)),
		"ErrA": reflect.ValueOf(&c07ErrA).Elem(),
		"ErrB": reflect.ValueOf(&c07ErrB).Elem(),
	}
	for k, v := range extra {
		m[k] = v
	}
	return interp.Exports{"host/host": m}
}

// c07newAt: a fresh interpreter with the standard library and one more host package.
func c07newAt(key string, syms map[string]reflect.Value) *c07run {
	i := interp.New(interp.Options{Stdout: io.Discard, Stderr: io.Discard})
	r := &c07run{i: i}
	if err := i.Use(stdlib.Symbols); err != nil {
		r.failed = "use:" + err.Error()
	}
	if err := i.Use(interp.Exports{key: syms}); err != nil {
		r.failed = "use:" + err.Error()
	}
	return r
}

func c07new(extra map[string]reflect.Value) *c07run {
	i := interp.New(interp.Options{Stdout: io.Discard, Stderr: io.Discard})
	r := &c07run{i: i}
	if err := i.Use(stdlib.Symbols); err != nil {
		r.failed = "use:" + err.Error()
	}
	if err := i.Use(c07exports(extra)); err != nil {
		r.failed = "use:" + err.Error()
	}
	return r
}

// eval evaluates src under a timeout, catching host panics.
func (r *c07run) eval(src string, timeout time.Duration) (res reflect.Value) {
	if r.failed != "" {
		return
	}
	type ret struct {
		v   reflect.Value
		err string
	}
	done := make(chan ret, 1)
	go func() {
		var x ret
		defer func() {
			if p := recover(); p != nil {
				x.err = "host-panic:" + c07short(fmt.Sprint(p))
			}
			done <- x
		}()
		ctx, cancel := context.WithTimeout(context.Background(), timeout)
		defer cancel()
		v, err := r.i.EvalWithContext(ctx, src)
		x.v = v
		if err != nil {
			x.err = yaegiEnd(err)
		}
	}()
	select {
	case x := <-done:
		if x.err != "" {
			r.failed = x.err
		}
		return x.v
	case <-time.After(timeout + 2*time.Second):
		r.failed = "timeout"
		return
	}
}

// guard runs a host-side action (native use of a script value) under a timeout, catching panics.
func (r *c07run) guard(timeout time.Duration, f func()) {
	if r.failed != "" {
		return
	}
	done := make(chan string, 1)
	go func() {
		msg := ""
		defer func() {
			if p := recover(); p != nil {
				msg = "host-panic:" + c07short(fmt.Sprint(p))
			}
			done <- msg
		}()
		f()
	}()
	select {
	case m := <-done:
		if m != "" {
			r.failed = m
		}
	case <-time.After(timeout):
		r.failed = "timeout"
	}
}

func (r *c07run) evalString(expr string, timeout time.Duration) string {
	v := r.eval(expr, timeout)
	if r.failed != "" {
		return ""
	}
	if !v.IsValid() || v.Kind() != reflect.String {
		r.failed = "other:eval-not-a-string:" + expr
		return ""
	}
	return v.String()
}

// c07class maps a failure text to the small class the Coq cases carry (the text stays in the summary).
func c07class(msg string) string {
	switch {
	case strings.HasPrefix(msg, "timeout"):
		return "timeout"
	case strings.HasPrefix(msg, "compile-error"):
		return "compile-error"
	case strings.HasPrefix(msg, "host-panic"), strings.HasPrefix(msg, "host-crash"):
		return "host-panic"
	case strings.HasPrefix(msg, "panic"), strings.HasPrefix(msg, "call-panic"), strings.HasPrefix(msg, "observe-panic"):
		return "panic"
	}
	return "other"
}

func c07badList(ts []*c07t, why string) []*cval {
	out := make([]*cval, len(ts))
	for i, t := range ts {
		out[i] = &cval{T: t, Bad: c07class(why), BadMsg: why}
	}
	return out
}

func c07equal(a, b []*cval) bool {
	if len(a) != len(b) {
		return false
	}
	for i := range a {
		if a[i].String() != b[i].String() {
			return false
		}
	}
	return true
}

// native is the reference observation: the manufactured Go value observed without any boundary.
func c07native(v *cval, env *c07env) (res *cval) {
	defer func() {
		if recover() != nil {
			res = v // an observed tree (functions known by their graph only) is its own reference
		}
	}()
	return c07observe(v.T, v.toReflect(env, 0), env)
}

func c07nativeList(l []*cval, env *c07env) []*cval {
	out := make([]*cval, len(l))
	for i, v := range l {
		out[i] = c07native(v, env)
	}
	return out
}

// goBind is Go's parameter binding of the actual arguments (reference for "args" cases): the
// listed variadic arguments become a new slice, nil when there is none; a spread slice is passed as is.
func c07goBind(sig *c07t, mode string, params []*cval) []*cval {
	if mode != "ind" {
		return params
	}
	last := params[len(params)-1]
	if len(last.L) > 0 {
		return params
	}
	out := append([]*cval{}, params...)
	z := *last
	z.Nil, z.L = true, nil
	out[len(out)-1] = &z
	return out
}

func c07hasBad(l []*cval) bool {
	for _, v := range l {
		if strings.Contains(v.String(), "BAD<") {
			return true
		}
	}
	return false
}

// holdsFunc: does the value contain a non-nil function (a script closure once rendered as a literal)?
func c07holdsFunc(v *cval) bool {
	if v == nil || v.Bad != "" {
		return false
	}
	if v.T.K == ckFunc {
		return !v.Nil
	}
	for _, x := range v.L {
		if c07holdsFunc(x) {
			return true
		}
	}
	for i := range v.MK {
		if c07holdsFunc(v.MV[i]) {
			return true
		}
	}
	return c07holdsFunc(v.Dyn)
}

// ---------------------------------------------------------------- stream A: a script calls a host function

type c07A struct {
	sig   *c07t
	spec  *c07fspec
	args  []*cval // one per parameter (variadic: the slice)
	mode  string  // plain | ind | spread
	shape string
	form  string // lit | var | mk | hostmk
}

// actuals lists the arguments as written at the call site.
func c07actuals(mode string, args []*cval) []*cval {
	if mode != "ind" {
		return args
	}
	n := len(args)
	out := append([]*cval{}, args[:n-1]...)
	return append(out, args[n-1].L...)
}

func c07spreadLit(lit string, t *c07t) string {
	if lit == "nil" {
		return "(" + t.src() + ")(nil)..." // "f(nil...)" crashes yaegi's type checker
	}
	return lit + "..."
}

func (a *c07A) source(g *c07reg) string {
	sig := a.sig
	var b strings.Builder
	act := c07actuals(a.mode, a.args)
	lits := make([]string, len(act))
	for i, v := range act {
		lits[i] = g.lit(v, "", 0)
	}
	var pre []string
	var argx []string
	switch a.form {
	case "var":
		for i := range act {
			pre = append(pre, fmt.Sprintf("var v%d %s = %s", i, act[i].T.src(), lits[i]))
			argx = append(argx, fmt.Sprintf("v%d", i))
		}
	case "mk":
		var ts []string
		for i := range act {
			ts = append(ts, act[i].T.src())
		}
		fmt.Fprintf(&b, "func mk() (%s) { return %s }\n", strings.Join(ts, ", "), strings.Join(lits, ", "))
		argx = []string{"mk()"}
	case "hostmk":
		argx = []string{"host.Mk()"}
	default:
		argx = lits
	}
	if a.mode == "spread" {
		argx[len(argx)-1] = c07spreadLit(argx[len(argx)-1], act[len(act)-1].T)
	}
	call := "host.F(" + strings.Join(argx, ", ") + ")"
	var rts, rxs, rrs []string
	for j, o := range sig.Out {
		rts = append(rts, o.src())
		rxs = append(rxs, fmt.Sprintf("x%d", j))
		rrs = append(rrs, fmt.Sprintf("r%d(x%d)", g.id(o), j))
	}
	rend := `""`
	if len(rrs) > 0 {
		rend = strings.Join(rrs, ` + ";" + `)
	}
	b.WriteString("var Out string\n")
	body := strings.Join(pre, "\n\t")
	switch a.shape {
	case "stmt", "defer", "go":
		kw := map[string]string{"stmt": "", "defer": "defer ", "go": "go "}[a.shape]
		fmt.Fprintf(&b, "func Run() {\n\t%s\n\t%s%s\n\tOut = \"done\"\n}\n", body, kw, call)
	case "define":
		fmt.Fprintf(&b, "func Run() {\n\t%s\n\t%s := %s\n\tOut = %s\n}\n", body, strings.Join(rxs, ", "), call, rend)
	case "assign":
		var decl []string
		for j := range rxs {
			decl = append(decl, fmt.Sprintf("var %s %s", rxs[j], rts[j]))
		}
		fmt.Fprintf(&b, "func Run() {\n\t%s\n\t%s\n\t%s = %s\n\tOut = %s\n}\n", body, strings.Join(decl, "\n\t"), strings.Join(rxs, ", "), call, rend)
	case "blank":
		xs := append([]string{"_"}, rxs[1:]...)
		fmt.Fprintf(&b, "func Run() {\n\t%s\n\t%s := %s\n\tOut = %s\n}\n", body, strings.Join(xs, ", "), call, strings.Join(rrs[1:], ` + ";" + `))
	case "return":
		fmt.Fprintf(&b, "func call() (%s) {\n\t%s\n\treturn %s\n}\n", strings.Join(rts, ", "), body, call)
		fmt.Fprintf(&b, "func Run() {\n\t%s := call()\n\tOut = %s\n}\n", strings.Join(rxs, ", "), rend)
	case "nested":
		var ps []string
		for j := range rxs {
			ps = append(ps, rxs[j]+" "+rts[j])
		}
		fmt.Fprintf(&b, "func rs(%s) string { return %s }\n", strings.Join(ps, ", "), rend)
		fmt.Fprintf(&b, "func Run() {\n\t%s\n\tOut = rs(%s)\n}\n", body, call)
	case "hostnest":
		fmt.Fprintf(&b, "func Run() {\n\t%s\n\thost.Sink(%s)\n\tOut = \"sink\"\n}\n", body, call)
	case "expr":
		fmt.Fprintf(&b, "func Run() {\n\t%s\n\tOut = r%d(%s)\n}\n", body, g.id(sig.Out[0]), call)
	case "cond":
		// the call is the condition of an if statement (callBin's branching form)
		fmt.Fprintf(&b, "func Run() {\n\t%s\n\tif %s {\n\t\tOut = \"t\"\n\t} else {\n\t\tOut = \"f\"\n\t}\n}\n", body, call)
	case "funcvar":
		fmt.Fprintf(&b, "func Run() {\n\t%s\n\tf := host.F\n\t%s := f(%s)\n\tOut = %s\n}\n", body, strings.Join(rxs, ", "), strings.Join(argx, ", "), rend)
	}
	return c07prelude + g.source() + b.String()
}

// genA draws a scenario; region "" keeps out of the known-defect regions, otherwise aims at one.
func (h *c07h) genA(r *rng, region string) *c07A {
	for {
		a := h.genA1(r, region)
		if a != nil {
			return a
		}
	}
}

func (h *c07h) genA1(r *rng, region string) *c07A {
	tg := &c07tgen{r: r}
	vg := &c07vgen{r: r}
	a := &c07A{sig: tg.signature()}
	sig := a.sig
	switch region {
	case "variadic-empty", "defer-spread":
		if !sig.Variadic {
			return nil
		}
	case "corpus:defer-callback":
		// witnesses of the repaired finding C07-defer-callback (abe7a69), kept as corpus cases:
		// a deferred host call given a closure held in a variable, which the host calls back
		if len(sig.Out) > 1 || len(sig.In) == 0 || sig.Variadic {
			return nil
		}
	}
	fv := vg.val(sig, false)
	for fv.Nil {
		fv = vg.val(sig, false)
	}
	a.spec = fv.Fn
	for _, p := range sig.In {
		a.args = append(a.args, c07fill(vg.val(p, false)))
	}
	a.mode = "plain"
	if sig.Variadic {
		a.mode = "ind"
		if r.chance(35) {
			a.mode = "spread"
		}
		last := a.args[len(a.args)-1]
		if region == "variadic-empty" {
			a.mode = "ind"
			last.Nil, last.L = false, []*cval{}
		}
		if region == "defer-spread" {
			a.mode = "spread"
		}
		if a.mode == "ind" && len(last.L) == 0 && region != "variadic-empty" {
			// the main stream always lists at least one variadic argument
			last.Nil = false
			last.L = []*cval{c07fill(vg.val(last.T.Elem, false))}
		}
	}
	no := len(sig.Out)
	var shapes []string
	switch {
	case no == 0:
		shapes = []string{"stmt", "stmt", "defer", "go"}
	case no == 1:
		shapes = []string{"define", "assign", "return", "nested", "expr", "expr", "funcvar", "hostnest", "defer"}
	default:
		shapes = []string{"define", "define", "assign", "return", "nested", "funcvar", "blank", "hostnest"}
	}
	a.shape = r.pick(shapes)
	if no == 1 && sig.Out[0].K == ckBool && r.chance(50) {
		a.shape = "cond"
	}
	forms := []string{"lit", "lit", "var"}
	if a.mode == "plain" && len(sig.In) >= 1 {
		forms = append(forms, "mk", "hostmk")
	}
	a.form = r.pick(forms)
	switch region {
	case "defer-spread":
		a.shape = "defer"
	case "corpus:defer-callback":
		a.shape = "defer"
		a.form = "var"
		if !a.hold() {
			return nil
		}
	case "":
		if a.shape == "defer" && a.mode == "spread" {
			return nil
		}
	}
	return a
}

// hold: does an argument hold a script closure other than a top-level function literal of the call?
// (until abe7a69 a deferred host call that called such a closure back hung on the frame mutex)
func (a *c07A) hold() bool {
	if a.form == "hostmk" {
		return false
	}
	for _, v := range c07actuals(a.mode, a.args) {
		if c07holdsFunc(v) && !(v.T.K == ckFunc && a.form == "lit") {
			return true
		}
	}
	return false
}

// execA runs one script-calls-host scenario on the implementation: what the host function received
// (per call), what the sink received, the script's Out, the first failure.
func (h *c07h) execA(a *c07A) (received [][]*cval, sunk []*cval, out, failed, src string) {
	sig := a.sig
	env := c07hostEnv()
	var mu sync.Mutex
	called := make(chan struct{}, 8)
	impl := env.mkFunc(a.spec, 0)
	F := reflect.MakeFunc(sig.rt, func(in []reflect.Value) []reflect.Value {
		obs := make([]*cval, len(in))
		for i := range in {
			obs[i] = c07observe(sig.In[i], in[i], env)
		}
		mu.Lock()
		received = append(received, obs)
		mu.Unlock()
		var out []reflect.Value
		if sig.Variadic {
			out = impl.CallSlice(in)
		} else {
			out = impl.Call(in)
		}
		select {
		case called <- struct{}{}:
		default:
		}
		return out
	})
	extra := map[string]reflect.Value{"F": F}
	act := c07actuals(a.mode, a.args)
	if a.form == "hostmk" {
		ots := make([]reflect.Type, len(act))
		for i, v := range act {
			ots[i] = v.T.rt
		}
		extra["Mk"] = reflect.MakeFunc(reflect.FuncOf(nil, ots, false), func([]reflect.Value) []reflect.Value {
			out := make([]reflect.Value, len(act))
			for i, v := range act {
				out[i] = v.toReflect(env, 0)
			}
			return out
		})
	}
	if a.shape == "hostnest" {
		its := make([]reflect.Type, len(sig.Out))
		for i, o := range sig.Out {
			its[i] = o.rt
		}
		extra["Sink"] = reflect.MakeFunc(reflect.FuncOf(its, nil, false), func(in []reflect.Value) []reflect.Value {
			obs := make([]*cval, len(in))
			for i := range in {
				obs[i] = c07observe(sig.Out[i], in[i], env)
			}
			mu.Lock()
			sunk = obs
			mu.Unlock()
			return nil
		})
	}
	reg := newC07reg()
	src = a.source(reg)
	run := c07new(extra)
	run.eval(src, h.timeout)
	run.eval("Run()", h.timeout)
	out = run.evalString("Out", h.timeout)
	if a.shape == "go" && run.failed == "" {
		select {
		case <-called:
		case <-time.After(h.timeout):
			run.failed = "timeout:goroutine never called the host function"
		}
	}
	mu.Lock()
	defer mu.Unlock()
	received = append([][]*cval(nil), received...)
	return received, sunk, out, run.failed, src
}

// c07childOut is what a child process reports for one scenario (a panic in a goroutine started by
// the script — "go host.F(...)" — cannot be recovered: such scenarios run in a child of this binary).
type c07childOut struct {
	N      int      `json:"n"`
	Recv   []string `json:"recv"`
	Why    string   `json:"why"`
	Failed string   `json:"failed"`
}

func (h *c07h) execAchild(idx int, a *c07A) (received [][]*cval, failed string) {
	self, _ := os.Executable()
	ctx, cancel := context.WithTimeout(context.Background(), 3*h.timeout)
	defer cancel()
	cmd := exec.CommandContext(ctx, self, "c07", "-seed", fmt.Sprint(h.seed), "-tier", h.tier, "-child", fmt.Sprint(idx), "-out", h.out)
	var ob, eb bytes.Buffer
	cmd.Stdout, cmd.Stderr = &ob, &eb
	err := cmd.Run()
	var co c07childOut
	if json.Unmarshal(ob.Bytes(), &co) != nil {
		if ctx.Err() != nil {
			return nil, "timeout"
		}
		return nil, "host-crash:" + firstLine(fmt.Sprint(err)) + ":" + c07short(c07lastPanicLine(eb.String()))
	}
	for k := 0; k < co.N; k++ {
		var obs []*cval
		for i, t := range a.sig.In {
			obs = append(obs, c07parse(t, co.Recv[k*len(a.sig.In)+i]))
		}
		received = append(received, obs)
	}
	return received, co.Failed
}

func c07lastPanicLine(stderr string) string {
	for _, l := range strings.Split(stderr, "\n") {
		if strings.HasPrefix(l, "panic:") || strings.HasPrefix(l, "fatal error:") {
			return l
		}
	}
	return firstLine(stderr)
}

// runA runs one script-calls-host scenario and records the two crossings.
func (h *c07h) runA(j *c07job, a *c07A, region string) {
	sig := a.sig
	env := c07hostEnv()
	act := c07actuals(a.mode, a.args)
	var received [][]*cval
	var sunk []*cval
	var out, src string
	run := &c07run{}
	if a.shape == "go" && h.child < 0 {
		src = a.source(newC07reg())
		received, run.failed = h.execAchild(j.idx, a)
	} else {
		received, sunk, out, run.failed, src = h.execA(a)
	}
	var mu sync.Mutex
	in := map[string]any{"stream": "script-calls-host", "signature": c07sigString(sig), "mode": a.mode, "shape": a.shape, "argform": a.form,
		"args": c07valStrings(act), "script": src}
	j.evals++
	j.tick("A:" + a.shape)
	j.tick("A:form:" + a.form)
	j.tick("A:mode:" + a.mode)
	j.dist = append(j.dist, "A|"+c07sigString(sig)+"|"+a.mode+"|"+a.shape+"|"+a.form+"|"+c07valStrings(act))

	// crossing 1: arguments, script -> host. Reference: Go's binding of the same actual arguments,
	// observed natively on the manufactured values.
	ca := &c07case{Kind: "args", Dir: "S2H", Sig: sig, Mode: a.mode, Shape: a.shape + "/" + a.form, Defer: a.shape == "defer",
		Ts: sig.In, Sent: act, Ref: c07nativeList(c07goBind(sig, a.mode, a.args), env), Region: region, Input: in}
	mu.Lock()
	switch {
	case len(received) == 1:
		ca.Impl = received[0]
	case run.failed != "":
		ca.Impl = c07badList(sig.In, run.failed)
	default:
		ca.Impl = c07badList(sig.In, fmt.Sprintf("other:host function called %d times", len(received)))
	}
	mu.Unlock()
	j.add(ca)

	// crossing 2: results, host -> script. What the host function returned is the specification
	// applied to what it received.
	if a.shape == "stmt" || a.shape == "defer" || a.shape == "go" || len(sig.Out) == 0 {
		return
	}
	got := ca.Impl
	if c07hasBad(got) {
		got = ca.Ref
	}
	expRes := a.spec.apply(got)
	var rts []*c07t
	var exp []*cval
	switch a.shape {
	case "blank":
		rts, exp = sig.Out[1:], expRes[1:]
	case "expr", "cond":
		rts, exp = sig.Out[:1], expRes[:1]
	default:
		rts, exp = sig.Out, expRes
	}
	cr := &c07case{Kind: "results", Dir: "H2S", Sig: sig, Shape: a.shape, Ts: rts, Sent: exp, Ref: c07nativeList(exp, env), Region: region, Input: in,
		CoqK: map[string]string{"define": "PDefine", "funcvar": "PDefine", "assign": "PAssign", "blank": "PBlank", "return": "PReturn"}[a.shape]}
	if a.shape == "blank" {
		cr.FullTs, cr.Full = sig.Out, expRes
	}
	switch {
	case run.failed != "":
		cr.Impl = c07badList(rts, run.failed)
	case a.shape == "hostnest":
		mu.Lock()
		if sunk == nil {
			cr.Impl = c07badList(rts, "other:sink not called")
		} else {
			cr.Impl = sunk
		}
		mu.Unlock()
	default:
		cr.Impl = c07parseList(rts, out)
	}
	j.add(cr)
}

// ---------------------------------------------------------------- stream B: the host calls a script function

var c07pathsB = []string{"eval", "evalpkg", "symbols", "globalvar", "closure", "iface"}

type c07B struct {
	sig  *c07t
	spec *c07fspec
	args []*cval
	mode string // plain | ind | spread
	path string
}

func (b *c07B) source(g *c07reg) string {
	sig := b.sig
	names := make([]string, len(sig.In))
	var recs []string
	for i, p := range sig.In {
		names[i] = fmt.Sprintf("a0_%d", i)
		recs = append(recs, fmt.Sprintf("r%d(%s)", g.id(p), names[i]))
	}
	rec := `""`
	if len(recs) > 0 {
		rec = strings.Join(recs, ` + ";" + `)
	}
	var s strings.Builder
	s.WriteString("var Rec string\nvar Out string\n")
	body := " Rec = " + rec + ";" + g.funcBody(b.spec, names, "", 0)
	switch b.path {
	case "closure":
		fmt.Fprintf(&s, "func MkF(k int) func%s {\n\treturn func%s {%s}\n}\n", sig.sigSrc(nil), sig.sigSrc(names), body)
		fmt.Fprintf(&s, "var F = MkF(1)\n")
	default:
		fmt.Fprintf(&s, "func F%s {%s}\n", sig.sigSrc(names), body)
	}
	if b.path == "globalvar" {
		s.WriteString("var V = F\n")
	}
	// the same call wholly inside the script
	var lits []string
	act := c07actuals(b.mode, b.args)
	for _, v := range act {
		lits = append(lits, g.lit(v, "", 0))
	}
	if b.mode == "spread" {
		lits[len(lits)-1] = c07spreadLit(lits[len(lits)-1], act[len(act)-1].T)
	}
	var rxs, rrs []string
	for j, o := range sig.Out {
		rxs = append(rxs, fmt.Sprintf("x%d", j))
		rrs = append(rrs, fmt.Sprintf("r%d(x%d)", g.id(o), j))
	}
	call := "F(" + strings.Join(lits, ", ") + ")"
	if len(rxs) == 0 {
		fmt.Fprintf(&s, "func Ref() {\n\t%s\n\tOut = \"\"\n}\n", call)
	} else {
		fmt.Fprintf(&s, "func Ref() {\n\t%s := %s\n\tOut = %s\n}\n", strings.Join(rxs, ", "), call, strings.Join(rrs, ` + ";" + `))
	}
	return c07prelude + g.source() + s.String()
}

// anySliceArg: a listed variadic argument of type []interface{} for ...interface{} — yaegi's
// in-script call takes it for a spread slice (region variadic-slice-arg).
func c07anySliceArg(mode string, args []*cval) bool {
	if mode != "ind" {
		return false
	}
	last := args[len(args)-1]
	if last.T.Elem.K != ckAny {
		return false
	}
	for _, e := range last.L {
		if !e.Nil && e.Dyn.T.K == ckSlice && e.Dyn.T.Elem.K == ckAny {
			return true
		}
	}
	return false
}

func (h *c07h) genB(r *rng, region string) *c07B {
	for {
		b := h.genB1(r, region)
		if region == "" && c07anySliceArg(b.mode, b.args) {
			continue
		}
		return b
	}
}

func (h *c07h) genB1(r *rng, region string) *c07B {
	if region == "variadic-slice-arg" {
		vg := &c07vgen{r: r}
		sl := c07slice(ctAny)
		var xs *cval
		for xs == nil || xs.Nil {
			xs = vg.val(sl, false)
		}
		other := vg.val(ctAny, false)
		elems := []*cval{{T: ctAny, Dyn: xs}}
		if r.bool() {
			elems = append(elems, other)
		}
		b := &c07B{sig: c07func([]*c07t{ctInt, sl}, []*c07t{ctInt}, true), mode: "ind", path: r.pick([]string{"eval", "evalpkg", "symbols", "globalvar", "iface"})}
		fv := vg.val(b.sig, false)
		for fv.Nil {
			fv = vg.val(b.sig, false)
		}
		b.spec = fv.Fn
		b.args = []*cval{vg.val(ctInt, false), c07fill(&cval{T: sl, L: elems})}
		return b
	}
	tg := &c07tgen{r: r}
	vg := &c07vgen{r: r}
	b := &c07B{sig: tg.signature()}
	fv := vg.val(b.sig, false)
	for fv.Nil {
		fv = vg.val(b.sig, false)
	}
	b.spec = fv.Fn
	for _, p := range b.sig.In {
		b.args = append(b.args, c07fill(vg.val(p, false)))
	}
	b.mode = "plain"
	if b.sig.Variadic {
		b.mode = "spread"
		last := b.args[len(b.args)-1]
		if !last.Nil && len(last.L) > 0 && r.chance(50) {
			b.mode = "ind" // reflect.Value.Call with the elements listed (at least one)
		}
	}
	b.path = r.pick(c07pathsB)
	return b
}

func (h *c07h) runB(j *c07job, b *c07B, region string) {
	sig := b.sig
	env := c07hostEnv()
	reg := newC07reg()
	src := b.source(reg)
	run := c07new(nil)
	run.eval(src, h.timeout)
	var fv reflect.Value
	switch b.path {
	case "eval", "closure":
		fv = run.eval("F", h.timeout)
	case "evalpkg":
		fv = run.eval("main.F", h.timeout)
	case "symbols", "iface":
		run.guard(h.timeout, func() { fv = run.i.Symbols("main")["main"]["F"] })
	case "globalvar":
		run.guard(h.timeout, func() { fv = run.i.Globals()["V"] })
	}
	var results []*cval
	if run.failed == "" {
		switch {
		case !fv.IsValid():
			run.failed = "other:function value not valid"
		case fv.Type() != sig.rt:
			run.failed = "other:function type " + fv.Type().String()
		}
	}
	if run.failed == "" && b.path == "iface" {
		// through Interface(): the dynamic type must be the Go function type (a type assertion to it succeeds)
		x := fv.Interface()
		if reflect.TypeOf(x) != sig.rt {
			run.failed = "other:Interface() type " + reflect.TypeOf(x).String()
		}
		fv = reflect.ValueOf(x)
	}
	act := c07actuals(b.mode, b.args)
	run.guard(h.timeout, func() {
		in := make([]reflect.Value, len(act))
		for i, v := range act {
			in[i] = v.toReflect(env, 0)
		}
		var out []reflect.Value
		if b.mode == "spread" {
			out = fv.CallSlice(in)
		} else {
			out = fv.Call(in)
		}
		if len(out) != len(sig.Out) {
			panic(fmt.Sprintf("%d results", len(out)))
		}
		for k, o := range out {
			results = append(results, c07observe(sig.Out[k], o, env))
		}
	})
	rec := run.evalString("Rec", h.timeout)
	in := map[string]any{"stream": "host-calls-script", "signature": c07sigString(sig), "mode": b.mode, "path": b.path,
		"args": c07valStrings(act), "script": src}
	j.evals += 2
	j.tick("B:" + b.path)
	j.tick("B:mode:" + b.mode)
	j.dist = append(j.dist, "B|"+c07sigString(sig)+"|"+b.mode+"|"+b.path+"|"+c07valStrings(act))

	bound := c07nativeList(c07goBind(sig, b.mode, b.args), env)
	ca := &c07case{Kind: "args", Dir: "H2S", Sig: sig, Mode: b.mode, Shape: b.path, Ts: sig.In, Sent: act, Ref: bound, Region: region, Input: in}
	cr := &c07case{Kind: "results", Dir: "S2H", Sig: sig, Shape: b.path, Ts: sig.Out, Region: region, Input: in}
	if run.failed != "" {
		ca.Impl = c07badList(sig.In, run.failed)
		cr.Impl = c07badList(sig.Out, run.failed)
	} else {
		ca.Impl = c07parseList(sig.In, rec)
		cr.Impl = results
	}
	got := ca.Impl
	if c07hasBad(got) {
		got = bound
	}
	cr.Sent = b.spec.apply(got)
	cr.Ref = cr.Sent
	j.add(ca)
	if len(sig.Out) > 0 {
		j.add(cr)
	}

	// the same call wholly inside the script (fresh interpreter): both must agree with Go's binding
	ref := c07new(nil)
	ref.eval(src, h.timeout)
	ref.eval("Ref()", h.timeout)
	rrec := ref.evalString("Rec", h.timeout)
	rout := ref.evalString("Out", h.timeout)
	sa := &c07case{Kind: "args", Dir: "S2S", Sig: sig, Mode: b.mode, Shape: b.path, FuncV: b.path == "closure", Ts: sig.In, Sent: act, Ref: bound, Region: region, Input: in}
	sr := &c07case{Kind: "results", Dir: "S2S", Sig: sig, Shape: "define", Ts: sig.Out, Region: region, Input: in, CoqK: "PDefine"}
	if ref.failed != "" {
		sa.Impl = c07badList(sig.In, ref.failed)
		sr.Impl = c07badList(sig.Out, ref.failed)
	} else {
		sa.Impl = c07parseList(sig.In, rrec)
		sr.Impl = c07parseList(sig.Out, rout)
	}
	got = sa.Impl
	if c07hasBad(got) {
		got = bound
	}
	sr.Sent = b.spec.apply(got)
	sr.Ref = sr.Sent
	j.add(sa)
	if len(sig.Out) > 0 {
		j.add(sr)
	}
}

// ---------------------------------------------------------------- driver

func runC07(args []string) error {
	fs := flag.NewFlagSet("c07", flag.ExitOnError)
	out := fs.String("out", "/verif/build/C07", "output directory")
	tier := fs.String("tier", "quick", "quick|thorough")
	seed := fs.Uint64("seed", envSeed(), "seed")
	dump := fs.Bool("dump", false, "print every case whose observation differs from the reference")
	show := fs.Int("show", 0, "print the script of this case id")
	enum := fs.Bool("enum", false, "exploration: run the whole parameter space of the embedded-interface stream and print the outcomes")
	enumq := fs.Bool("enumq", false, "exploration: run every argument-expression-shape cell and print the outcomes")
	enumr := fs.Bool("enumr", false, "exploration: run every go/defer form x callee kind x argument kind and print the outcomes")
	enumd := fs.Bool("enumd", false, "exploration: run every cell of the host-result-destination stream and print the deviating ones")
	child := fs.Int("child", -1, "internal: run only this scenario and print what the host observed")
	fs.Parse(args)
	if err := os.MkdirAll(*out, 0o755); err != nil {
		return err
	}
	h := &c07h{sm: newSummary("C07"), timeout: 30 * time.Second, seed: *seed, tier: *tier, child: *child, out: *out}
	nA, nB := 260, 200
	nReg := 3
	if *tier == "thorough" {
		nA, nB, nReg = 6000, 5000, 30
	}
	if *enum {
		h.enumE()
		return nil
	}
	if *enumq {
		h.enumQ()
		return nil
	}
	if *enumr {
		h.enumStmts()
		return nil
	}
	if *enumd {
		h.enumD()
		return nil
	}
	root := newRng(*seed)
	var jobs []*c07job
	for k := 0; k < nA; k++ {
		a := h.genA(root.fork(), "")
		jobs = append(jobs, &c07job{a: a, run: func(j *c07job) { h.runA(j, a, "") }})
	}
	// corpus: the witnesses of repaired findings run first, from fixed seeds, in the main stream
	for k := 0; k < 3; k++ {
		a := h.genA(newRng(uint64(7001+k)), "corpus:defer-callback")
		jobs = append(jobs, &c07job{a: a, run: func(j *c07job) { h.runA(j, a, "") }})
	}
	for _, region := range []string{"variadic-empty", "defer-spread"} {
		for k := 0; k < nReg; k++ {
			region := region
			a := h.genA(root.fork(), region)
			jobs = append(jobs, &c07job{a: a, run: func(j *c07job) { h.runA(j, a, region) }})
		}
	}
	for k := 0; k < nB; k++ {
		b := h.genB(root.fork(), "")
		jobs = append(jobs, &c07job{run: func(j *c07job) { h.runB(j, b, "") }})
	}
	for k := 0; k < nReg; k++ {
		b := h.genB(root.fork(), "variadic-slice-arg")
		jobs = append(jobs, &c07job{run: func(j *c07job) { h.runB(j, b, "variadic-slice-arg") }})
	}
	h.extraJobs(root, *tier, &jobs)
	for i, j := range jobs {
		j.idx = i
	}
	if h.child >= 0 {
		if h.child >= len(jobs) || jobs[h.child].a == nil {
			return fmt.Errorf("no such scenario")
		}
		a := jobs[h.child].a
		received, _, _, failed, _ := h.execA(a)
		co := c07childOut{N: len(received), Failed: failed}
		for _, obs := range received {
			for _, v := range obs {
				co.Recv = append(co.Recv, v.String())
			}
		}
		return json.NewEncoder(os.Stdout).Encode(co)
	}
	parallelMap(len(jobs), 0, func(i int) { jobs[i].run(jobs[i]) })
	for _, j := range jobs {
		for _, c := range j.cases {
			c.ID = len(h.cases) + 1
			h.cases = append(h.cases, c)
		}
	}

	bad := 0
	for _, c := range h.cases {
		if !c07equal(c.Impl, c.Ref) {
			bad++
			if *dump {
				sg := ""
				if c.Sig != nil {
					sg = c07sigString(c.Sig)
				} else {
					sg = c.Ts[0].src()
				}
				fmt.Printf("---- case %d %s %s region=%q mode=%s shape=%s sig=%s\n  sent: %s\n  impl: %s\n  ref:  %s\n", c.ID, c.Kind, c.Dir, c.Region, c.Mode, c.Shape, sg,
					c07valStrings(c.Sent), c07valStrings(c.Impl), c07valStrings(c.Ref))
				for _, v := range c.Impl {
					if v.BadMsg != "" {
						fmt.Printf("  why:  %s\n", v.BadMsg)
						break
					}
				}
			}
		}
	}
	for _, j := range jobs {
		for _, c := range j.echos {
			if cls := c.q.class(c.impl, c.fail); cls != c.q.gEcho() {
				bad++
				if *dump {
					fmt.Printf("---- echo region=%q %s class=%s echo=%q %s\n", c.region, c.q.key(), cls, c.impl, c.fail)
				}
			}
		}
		for _, c := range j.stmts {
			if c.impl != "first" {
				bad++
				if *dump {
					fmt.Printf("---- stmt region=%q %s got %v\n", c.region, c.g.key(), c.input["received"])
				}
			}
		}
	}
	for _, j := range jobs {
		for _, c := range j.sess {
			okAll := true
			for _, x := range append(append([]string{}, c.impl...), c.ref...) {
				okAll = okAll && x == "ok"
			}
			if !okAll {
				bad++
				if *dump {
					fmt.Printf("---- sess region=%q steps=%v\n  observed: %v\n", c.region, c.input["steps"], c.input["observed"])
				}
			}
		}
	}
	for _, j := range jobs {
		for _, d := range j.disps {
			if g := fmt.Sprint(d.e.gDispatch()); d.failed || d.infail || fmt.Sprint(d.impl) != g || fmt.Sprint(d.inscript) != g {
				bad++
				if *dump {
					fmt.Printf("---- disp region=%q %s impl=%v failed=%v inscript=%v ref=%s\n", d.region, d.e.key(), d.impl, d.failed, d.inscript, g)
				}
			}
		}
	}
	for _, j := range jobs {
		for _, m := range j.other {
			bad++
			if *dump {
				fmt.Printf("---- other region=%q kind=%v %v\n  impl: %q\n  ref:  %q\n", m.Region, m.Input.(map[string]any)["kind"], m.Note, m.Impl, m.Ref)
			}
		}
	}
	if *show > 0 && *show <= len(h.cases) {
		fmt.Println(h.cases[*show-1].Input["script"])
	}
	fmt.Fprintf(os.Stderr, "c07: %d cases, %d differ from the reference\n", len(h.cases), bad)
	return h.finish(*out, jobs)
}
