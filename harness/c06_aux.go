package main

import (
	"bytes"
	"fmt"
	"reflect"
	"strings"
	"time"

	"github.com/traefik/yaegi/interp"
	"github.com/traefik/yaegi/stdlib"
)

// Streams of C06 that lie outside the abstract programs of coq/Defer/Model.v; they are compared
// with compiled Go only (implementation vs reference), not with Y:
//
//   pool     the deferred-callee dimension: method values of host types (log.Logger, bytes.Buffer,
//            strings.Builder, sync.Mutex, sync.WaitGroup, bufio.Writer, container/list, context
//            cancel functions), interpreted methods with value and pointer receivers, function values
//            held in slices / struct fields / variables, each with 0..n arguments; the SAME defer
//            statement is executed several times in one activation (loop) and across activations
//            (recursion) on different receivers; every receiver shows which calls ran on it (inline
//            prints for the printing kinds, a dump of the whole pool after each phase for the others)
//   session  "the interpreter remains usable": on ONE interpreter, named function, methods, closure in a
//            package variable, method value in a variable, function literal in a variable, global
//            state, and host-held function values obtained by Eval before any panic, are used again
//            (from later Evals and natively) after every kind of panicking Eval

// ---------------------------------------------------------------- pool

const c06PoolHead = `package main

import (
	"bufio"
	"bytes"
	"container/list"
	"context"
	"fmt"
	"log"
	"os"
	"strings"
	"sync"
)

type O struct{ id, n int }

func (o O) vm(a ...int)  { fmt.Println("vm", o.id, a) }
func (o *O) pm(a ...int) { o.n++; fmt.Println("pm", o.id, o.n, a) }
func (o O) v0()          { fmt.Println("v0", o.id) }
func (o *O) p0()         { o.n++; fmt.Println("p0", o.id, o.n) }
func (o O) v1(a int)     { fmt.Println("v1", o.id, a) }
func (o *O) p1(a int)    { o.n++; fmt.Println("p1", o.id, o.n, a) }

type S struct {
	id int
	fn func(a int)
	f0 func()
}

const N = 4

var L [N]*log.Logger
var B [N]*bytes.Buffer
var SB [N]*strings.Builder
var M [N]*sync.Mutex
var W [N]*bufio.Writer
var WB [N]*bytes.Buffer
var OV [N]O
var OP [N]*O
var F []func(a int)
var F0 []func()
var SS [N]S
var CT [N]context.Context
var CF [N]context.CancelFunc
var LL [N]*list.List
var WG [N]*sync.WaitGroup
var one = 1
var sink int

func setup() {
	F = nil
	F0 = nil
	for i := 0; i < N; i++ {
		k := i
		L[i] = log.New(os.Stdout, fmt.Sprintf("L%d ", i), 0)
		B[i] = bytes.NewBufferString("init")
		SB[i] = &strings.Builder{}
		M[i] = &sync.Mutex{}
		WB[i] = &bytes.Buffer{}
		W[i] = bufio.NewWriter(WB[i])
		W[i].WriteString("x")
		OV[i] = O{id: i}
		OP[i] = &O{id: i}
		F = append(F, func(a int) { fmt.Println("fn", k, a) })
		F0 = append(F0, func() { fmt.Println("fn0", k) })
		SS[i] = S{id: i, fn: func(a int) { fmt.Println("sfn", k, a) }, f0: func() { fmt.Println("sf0", k) }}
		CT[i], CF[i] = context.WithCancel(context.Background())
		LL[i] = list.New()
		LL[i].PushBack(1)
		WG[i] = &sync.WaitGroup{}
	}
}

func state(tag string) {
	for i := 0; i < N; i++ {
		fmt.Println(tag, i, B[i].String(), SB[i].String(), M[i].TryLock(), WB[i].Len(), OP[i].n, CT[i].Err() != nil, LL[i].Len())
		M[i].Unlock()
	}
}

func guard(tag string, f func()) {
	defer func() { fmt.Println(tag, "recovered", recover()) }()
	f()
}
`

type c06PoolForm struct {
	name   string
	pre    string // statement before the defer; R = receiver index expression
	deferS string
	imeth  bool // interpreted method: its receiver is read when the call runs (finding defer-arg-alias)
}

// $R = receiver index, $A = argument expression
var c06PoolForms = []c06PoolForm{
	{"L0", "", "defer L[$R].Println()", false},
	{"L1", "", "defer L[$R].Println($A)", false},
	{"L2", "", "defer L[$R].Println($A, \"z\")", false},
	{"Lf", "", "defer L[$R].Printf(\"f%d\\n\", $A)", false},
	{"Breset", "B[$R].WriteString(\"+\")", "defer B[$R].Reset()", false},
	{"Bws", "", "defer B[$R].WriteString(\"w\")", false},
	{"SBws", "", "defer SB[$R].WriteString(\"w\")", false},
	{"Munlock", "M[$R].Lock()", "defer M[$R].Unlock()", false},
	{"Wflush", "", "defer W[$R].Flush()", false},
	{"LLinit", "", "defer LL[$R].Init()", false},
	{"WGdone", "WG[$R].Add(1)", "defer WG[$R].Done()", false},
	{"cancel", "", "defer CF[$R]()", false},
	{"F0", "", "defer F0[$R]()", false},
	{"F1", "", "defer F[$R]($A)", false},
	{"Sf0", "", "defer SS[$R].f0()", false},
	{"Sf1", "", "defer SS[$R].fn($A)", false},
	{"fv0", "fv0 := F0[$R]", "defer fv0()", false},
	{"fv1", "fv1 := F[$R]", "defer fv1($A)", false},
	{"lb", "lb := B[$R]", "defer lb.Reset()", false},
	{"v0", "", "defer OV[$R].v0()", true},
	{"v1", "", "defer OV[$R].v1($A)", true},
	{"vm", "", "defer OV[$R].vm($A, $A)", true},
	{"p0", "", "defer OP[$R].p0()", true},
	{"p1", "", "defer OP[$R].p1($A)", true},
	{"pm", "", "defer OP[$R].pm()", true},
	{"ov", "ov := OV[$R]", "defer ov.v0()", true},
	{"op", "op := OP[$R]", "defer op.p0()", true},
}

type c06PoolCase struct {
	Forms  []string
	Loop   int    // iterations of the loop phase
	Depth  int    // depth of the recursion phase
	EndL   string // how the loop function ends: fall | panic | fault
	EndR   string // how the recursion bottoms out: return | panic | fault
	Region string
	Src    string // program as Go prescribes
	SrcY   string // for interpreted methods in a loop: the rendering that yaegi's mechanism (model Y:
	// the receiver slot of the defer statement is read when the call runs) must produce; "" if the same
}

func c06PoolEnd(kind string) string {
	switch kind {
	case "panic":
		return "\tif one == 1 {\n\t\tpanic(\"s1\")\n\t}\n"
	case "fault":
		return "\tif one == 1 {\n\t\tvar nm map[string]int\n\t\tnm[\"a\"] = 1\n\t}\n"
	}
	return ""
}

// render: lastRecv = the loop's receivers are replaced by the last one for interpreted methods
func (c c06PoolCase) render(lastRecv bool) string {
	var forms []c06PoolForm
	for _, n := range c.Forms {
		for _, f := range c06PoolForms {
			if f.name == n {
				forms = append(forms, f)
			}
		}
	}
	var b strings.Builder
	b.WriteString(c06PoolHead)
	sub := func(s, r, a string) string {
		return strings.ReplaceAll(strings.ReplaceAll(s, "$R", r), "$A", a)
	}
	fmt.Fprintf(&b, "\nfunc loop() {\n\tfor i := 0; i < %d; i++ {\n", c.Loop)
	for _, f := range forms {
		r := "i"
		if lastRecv && f.imeth {
			r = fmt.Sprint(c.Loop - 1)
		}
		if f.pre != "" {
			fmt.Fprintf(&b, "\t\t%s\n", sub(f.pre, r, "i"))
		}
		fmt.Fprintf(&b, "\t\t%s\n", sub(f.deferS, r, "i"))
	}
	b.WriteString("\t}\n" + c06PoolEnd(c.EndL) + "}\n")
	fmt.Fprintf(&b, "\nfunc rec(i int) {\n\tif i == %d {\n", c.Depth)
	for _, l := range strings.Split(strings.TrimSuffix(c06PoolEnd(c.EndR), "\n"), "\n") {
		if l != "" {
			b.WriteString("\t" + l + "\n")
		}
	}
	b.WriteString("\t\treturn\n\t}\n")
	for _, f := range forms {
		if f.pre != "" {
			fmt.Fprintf(&b, "\t%s\n", sub(f.pre, "i", "i+10"))
		}
		fmt.Fprintf(&b, "\t%s\n", sub(f.deferS, "i", "i+10"))
	}
	b.WriteString("\trec(i + 1)\n}\n")
	b.WriteString("\nfunc main() {\n\tsetup()\n\tguard(\"loop\", loop)\n\tstate(\"after-loop\")\n\tsetup()\n\tguard(\"rec\", func() { rec(0) })\n\tstate(\"after-rec\")\n}\n")
	return b.String()
}

func c06PoolGenerate(r *rng, n int) []c06PoolCase {
	var cs []c06PoolCase
	ends := []string{"fall", "panic", "fault"}
	mk := func(forms []string) c06PoolCase {
		c := c06PoolCase{Forms: forms, Loop: 2 + r.intn(3), Depth: 2 + r.intn(3), EndL: ends[r.intn(3)], EndR: []string{"return", "panic", "fault"}[r.intn(3)]}
		c.Src = c.render(false)
		for _, fn := range forms {
			for _, f := range c06PoolForms {
				if f.name == fn && f.imeth {
					c.Region = "defer-arg-alias"
					c.SrcY = c.render(true)
				}
			}
		}
		return c
	}
	// every form alone, then random combinations
	for _, f := range c06PoolForms {
		if len(cs) < n {
			cs = append(cs, mk([]string{f.name}))
		}
	}
	for len(cs) < n {
		k := 2 + r.intn(3)
		var forms []string
		seen := map[string]bool{}
		for len(forms) < k {
			f := c06PoolForms[r.intn(len(c06PoolForms))]
			if !seen[f.name] {
				seen[f.name] = true
				forms = append(forms, f.name)
			}
		}
		cs = append(cs, mk(forms))
	}
	return cs
}

// ---------------------------------------------------------------- session

type c06Step struct {
	Op    string `json:"op"`    // hold | eval | call | boom
	Label string `json:"label"` // printed in front of the result
	Src   string `json:"src"`   // eval / hold / boom: expression
	Name  string `json:"name"`  // hold / call: name of the host-held value
	Args  []int  `json:"args,omitempty"`
}

type c06Session struct {
	Defs  string    `json:"defs"`
	Steps []c06Step `json:"steps"`
}

const c06SessionDefs = `package main

import (
	"errors"
	"fmt"
)

var _ = fmt.Sprint
var cnt int
var sink int

func Add(a, b int) int { cnt++; return a + b + cnt }

type T struct{ n int }

func (t *T) Inc() int { t.n++; return t.n }
func (t T) Get() int  { return t.n }

var obj = &T{}

func counter() func() int { c := 0; return func() int { c++; return c } }

var next = counter()
var mv = obj.Inc
var lit = func(x int) int { cnt++; return x*2 + cnt }

func State() int { return cnt }

func bad() { panic("s9") }

func Boom(k int) (r int) {
	cnt += 100
	switch k {
	case 0:
		panic(7)
	case 1:
		panic("s7")
	case 2:
		panic(errors.New("e7"))
	case 3:
		var p *T
		sink = p.n
	case 4:
		s := []int{1}
		i := 3
		sink = s[i]
	case 5:
		s := []int{1}
		i := 3
		sink = len(s[1:i])
	case 6:
		n, z := 1, 0
		sink = n / z
	case 7:
		var nm map[string]int
		nm["a"] = 1
	case 8:
		var e interface{} = "x"
		sink = e.(int)
	case 9:
		ch := make(chan int)
		close(ch)
		close(ch)
	case 10:
		defer bad()
	case 11:
		defer func() { recover(); r = 55 }()
		panic("s8")
	case 12:
		g := func() { panic(errors.New("e9")) }
		defer func() { cnt++ }()
		g()
	}
	return 1
}
`

var c06SessionHeld = []struct{ name, src, goType string }{
	{"hAdd", "Add", "func(int, int) int"}, {"hNext", "next", "func() int"}, {"hMv", "mv", "func() int"},
	{"hLit", "lit", "func(int) int"}, {"hInc", "obj.Inc", "func() int"}, {"hState", "State", "func() int"},
}

func c06SessionGenerate(r *rng) c06Session {
	s := c06Session{Defs: c06SessionDefs}
	n := 0
	lab := func(k string) string { n++; return fmt.Sprintf("%03d-%s", n, k) }
	for _, h := range c06SessionHeld {
		s.Steps = append(s.Steps, c06Step{Op: "hold", Name: h.name, Src: h.src})
	}
	uses := func() {
		evals := []string{"Add(1, 2)", "obj.Inc()", "obj.Get()", "next()", "mv()", "lit(3)", "State()", "cnt", "1 + 1"}
		var ev, nat []c06Step
		for _, i := range c06Perm(r, len(evals)) {
			if r.chance(80) {
				ev = append(ev, c06Step{Op: "eval", Src: evals[i]})
			}
		}
		for _, i := range c06Perm(r, len(c06SessionHeld)) {
			h := c06SessionHeld[i]
			if r.chance(80) {
				var args []int
				switch h.name {
				case "hAdd":
					args = []int{r.intn(9), r.intn(9)}
				case "hLit":
					args = []int{r.intn(9)}
				}
				nat = append(nat, c06Step{Op: "call", Name: h.name, Args: args})
			}
		}
		// host-held values are used before any other Eval in about half of the rounds
		if r.bool() {
			ev, nat = nat, ev
		}
		for _, st := range append(nat, ev...) {
			st.Label = lab(st.Op)
			s.Steps = append(s.Steps, st)
		}
	}
	uses()
	for _, k := range c06Perm(r, 13) {
		s.Steps = append(s.Steps, c06Step{Op: "boom", Label: lab(fmt.Sprintf("boom%d", k)), Src: fmt.Sprintf("Boom(%d)", k)})
		uses()
	}
	return s
}

func c06Perm(r *rng, n int) []int {
	p := make([]int, n)
	for i := range p {
		p[i] = i
	}
	for i := n - 1; i > 0; i-- {
		j := r.intn(i + 1)
		p[i], p[j] = p[j], p[i]
	}
	return p
}

// goSource: the same session as a compiled program; Eval's conversion of a panic into an error is a recover.
func (s c06Session) goSource() string {
	var b strings.Builder
	b.WriteString(s.Defs)
	b.WriteString("\nfunc show(label string, f func() int) {\n\tdefer func() {\n\t\tif r := recover(); r != nil {\n\t\t\tfmt.Println(label, \"err:\", r)\n\t\t}\n\t}()\n\tv := f()\n\tfmt.Println(label, v)\n}\n\nfunc main() {\n")
	for _, st := range s.Steps {
		switch st.Op {
		case "hold":
			fmt.Fprintf(&b, "\t%s := %s\n\t_ = %s\n", st.Name, st.Src, st.Name)
		case "eval", "boom":
			fmt.Fprintf(&b, "\tshow(%q, func() int { return %s })\n", st.Label, st.Src)
		case "call":
			var as []string
			for _, a := range st.Args {
				as = append(as, fmt.Sprint(a))
			}
			fmt.Fprintf(&b, "\tshow(%q, func() int { return %s(%s) })\n", st.Label, st.Name, strings.Join(as, ", "))
		}
	}
	b.WriteString("}\n")
	return b.String()
}

// c06SessionCanon canonicalises one result line ("label value" / "label err: message").
func c06SessionCanon(l string) string {
	if i := strings.Index(l, " err: "); i >= 0 {
		return l[:i] + " err:" + classifyPanic(strings.TrimPrefix(l[i+6:], "runtime error: "))
	}
	return l
}

// c06RunSession runs the session on ONE interpreter, through Interpreter.Eval.
func c06RunSession(s c06Session, timeout time.Duration) (lines []string) {
	var stdout, stderr bytes.Buffer
	i := interp.New(interp.Options{Stdout: &stdout, Stderr: &stderr})
	if err := i.Use(stdlib.Symbols); err != nil {
		return []string{"use: " + err.Error()}
	}
	if r, end, _ := c06Eval(i, s.Defs, timeout, true); r.err != nil || end != "ok" {
		return []string{"defs: " + end}
	}
	held := map[string]reflect.Value{}
	for _, st := range s.Steps {
		switch st.Op {
		case "hold":
			r, end, _ := c06Eval(i, st.Src, timeout, true)
			if end != "ok" || !r.v.IsValid() || r.v.Kind() != reflect.Func {
				lines = append(lines, "hold "+st.Name+": "+end)
				continue
			}
			held[st.Name] = r.v
		case "eval", "boom":
			r, end, info := c06Eval(i, st.Src, timeout, true)
			switch {
			case info.isPanic:
				lines = append(lines, st.Label+" err:"+strings.TrimPrefix(end, "panic:"))
			case end != "ok":
				lines = append(lines, st.Label+" "+end)
			case !r.v.IsValid():
				lines = append(lines, st.Label+" invalid")
			default:
				lines = append(lines, st.Label+" "+fmt.Sprint(r.v.Interface()))
			}
		case "call":
			lines = append(lines, st.Label+" "+c06NativeCall(held[st.Name], st.Args))
		}
	}
	return lines
}

func c06NativeCall(f reflect.Value, args []int) (res string) {
	defer func() {
		if r := recover(); r != nil {
			res = "err:host panic: " + firstLine(fmt.Sprint(r))
		}
	}()
	if !f.IsValid() {
		return "not held"
	}
	in := make([]reflect.Value, len(args))
	for k, a := range args {
		in[k] = reflect.ValueOf(a)
	}
	done := make(chan string, 1)
	go func() {
		defer func() {
			if r := recover(); r != nil {
				done <- "err:host panic: " + firstLine(fmt.Sprint(r))
			}
		}()
		out := f.Call(in)
		done <- fmt.Sprint(out[0].Interface())
	}()
	select {
	case r := <-done:
		return r
	case <-time.After(5 * time.Second):
		return "timeout"
	}
}
