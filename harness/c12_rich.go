package main

import (
	"bytes"
	"context"
	"encoding/json"
	"flag"
	"fmt"
	"os"
	"os/exec"
	"strings"
	"sync"
	"time"
)

// The rich stream of C12 as a plan of jobs, shared by the check (c12.go) and by the exploration that
// freezes the table of known escapes (c12_explore.go): the same programs, the same mutants, the same
// keys.
//   job "sweep":   the fixed prelude + a fixed function exercising every builtin, index, slice, range,
//                  conversion, channel, unary, comparison, binary, assignment, condition and composite
//                  literal form once. Mutants: (a) every catalogue operator at every site of the prelude,
//                  (b) the type-class sweep: every operand position of those forms filled with one value
//                  of every type class of the pool (prelude, "pool begin"); go/types decides which of
//                  them are ill-typed.
//   jobs "round":  every statement snippet exactly once per round, spread over small programs; every
//                  catalogue operator at every site of the snippets.
// A quick run is one round: every (operator, context) cell is hit in every run.

// ---------------------------------------------------------------- the type-class sweep

type c12filler struct{ Name, Expr string }

// one value per type class (package-level variables of the prelude), plus nil and untyped constants
var c12Fillers = []c12filler{
	{"int", "zInt"}, {"int8", "zInt8"}, {"uint", "zUint"}, {"uint8", "zUint8"}, {"float64", "zFloat"}, {"float32", "zFloat32"},
	{"complex128", "zCplx"}, {"string", "zStr"}, {"bool", "zBool"}, {"rune", "zRune"},
	{"array", "zArr"}, {"ptr-array", "zPArr"}, {"slice", "zSl"}, {"ptr-slice", "zPSl"}, {"slice-string", "zStrs"}, {"slice-byte", "zBytes"},
	{"map", "zMap"}, {"ptr-map", "zPMap"}, {"ptr-string", "zPStr"},
	{"chan", "zCh"}, {"chan-recvonly", "zRo"}, {"chan-sendonly", "zSo"}, {"ptr-chan", "zPCh"},
	{"func", "zFn"}, {"struct", "zSt"}, {"ptr-struct", "zPSt"}, {"iface", "zIf"}, {"eface", "zEf"}, {"ptr-int", "zPInt"}, {"error", "zErr"},
	{"named-int", "zNInt"}, {"named-float", "zNFloat"}, {"named-string", "zNStr"}, {"named-bool", "zNBool"},
	{"named-slice", "zNSl"}, {"ptr-named-slice", "zPNSl"}, {"named-array", "zNArr"}, {"named-map", "zNMap"}, {"named-chan", "zNCh"}, {"named-func", "zNFn"},
	{"nil", "nil"}, {"const-int", "7"}, {"const-negative", "-1"}, {"const-float", "2.5"}, {"const-string", `"lit"`}, {"const-bool", "true"}, {"const-rune", "'c'"},
	{"addr-slice", "&zSl"}, {"addr-map", "&zMap"}, {"addr-string", "&zStr"}, {"call-novalue", "noresult(1)"}, {"call-two-values", "divmod(7, 2)"},
	{"type-int", "int"}, {"type-slice", "[]int"},
	// named types defined from named types (two levels), and named directional channels
	{"named2-int", "zN2Int"}, {"named2-float", "zN2Float"}, {"named2-string", "zN2Str"}, {"named2-bool", "zN2Bool"},
	{"named2-slice", "zN2Sl"}, {"named2-array", "zN2Arr"}, {"named2-map", "zN2Map"}, {"named2-chan", "zN2Ch"}, {"named2-func", "zN2Fn"},
	{"named2-struct", "zN2St"}, {"named-ptr", "zNPtr"}, {"named2-ptr", "zN2Ptr"}, {"named2-iface", "zN2If"},
	{"named-chan-recvonly", "zNRo"}, {"named2-chan-recvonly", "zN2Ro"}, {"named-chan-sendonly", "zNSo"}, {"named2-chan-sendonly", "zN2So"},
}

// concrete types whose method set differs from the interface Sig (resp. Sig2) at one position
var c12SigFillers = []c12filler{
	{"sig-ok", "SigOK"}, {"sig-param0", "SigP0"}, {"sig-param1", "SigP1"}, {"sig-param2", "SigP2"}, {"sig-result0", "SigR0"}, {"sig-result1", "SigR1"},
	{"sig-fewer-params", "SigFewP"}, {"sig-fewer-results", "SigFewR"}, {"sig-ptr-receiver", "SigPtr"}, {"sig-named-param0", "SigNamedP0"},
	{"sig-named-result1", "SigNamedR1"}, {"sig-other-name", "SigOther"}, {"sig-no-method", "Point"},
}
var c12Sig2Fillers = []c12filler{
	{"sig2-ok", "S2OK"}, {"sig2-A-param", "S2AP"}, {"sig2-A-result", "S2AR"}, {"sig2-B-param", "S2BP"}, {"sig2-B-result", "S2BR"}, {"sig2-no-B", "S2NoB"},
}

type c12formX struct {
	c12form
	Fill []c12filler
}

// forms with their own list of fillers: [20] impossible type assertions and [19] non-implementing values
var c12FormsX = []c12formX{
	{c12form{"20", "{\n\t\tv, ok := zSig.(%s)\n\t\tsink(v, ok)\n\t}", "SigOK", true}, c12SigFillers},
	{c12form{"20", "sink(zSig.(%s))", "SigOK", true}, c12SigFillers},
	{c12form{"20", "switch zSig.(type) {\n\tcase %s:\n\t}", "SigOK", true}, c12SigFillers},
	{c12form{"20", "switch v := zSig.(type) {\n\tcase %s:\n\t\tsink(v)\n\t}", "SigOK", true}, c12SigFillers},
	{c12form{"19", "{\n\t\tvar t Sig = %s{}\n\t\tsink(t)\n\t}", "SigOK", true}, c12SigFillers},
	{c12form{"19", "sink(Sig(%s{}))", "SigOK", true}, c12SigFillers},
	{c12form{"19", "zSig = %s{}", "SigOK", true}, c12SigFillers},
	{c12form{"20", "{\n\t\tv, ok := zSig2.(%s)\n\t\tsink(v, ok)\n\t}", "S2OK", true}, c12Sig2Fillers},
	{c12form{"20", "sink(zSig2.(%s))", "S2OK", true}, c12Sig2Fillers},
	{c12form{"20", "switch zSig2.(type) {\n\tcase %s:\n\t}", "S2OK", true}, c12Sig2Fillers},
	{c12form{"19", "{\n\t\tvar t Sig2 = %s{}\n\t\tsink(t)\n\t}", "S2OK", true}, c12Sig2Fillers},
	{c12form{"19", "zSig2 = %s{}", "S2OK", true}, c12Sig2Fillers},
	// [18] selector lookup through embedded / named fields, values and pointers, one and two levels
	{c12form{"18", "sink(%s.Foo())", "zEmbV", false}, c12SelFillers},
	{c12form{"18", "sink(%s.PFoo())", "zEmbP", false}, c12SelFillers},
	{c12form{"18", "sink(%s.x)", "zEmbV", false}, c12SelFillers},
	{c12form{"18", "sink(%s.Foo)", "zEmbV", false}, c12SelFillers},
	{c12form{"18", "{\n\t\tf := %s.Foo\n\t\tsink(f())\n\t}", "zEmbV", false}, c12SelFillers},
	{c12form{"18", "%s.x = 2", "zEmbV", false}, c12SelFillers},
	// [13] [14] call shapes: argument lists with ... at every position, for variadic callees with fixed parameters
	{c12form{"14", "sink(addAll(%s))", "1, 2", false}, c12ArgFillers},
	{c12form{"14", "sink(zAcc.AddAll(%s))", "1, 2", false}, c12ArgFillers},
	{c12form{"14", "sink(zAddFn(%s))", "1, 2", false}, c12ArgFillers},
	{c12form{"14", "sink(pick2(%s))", "1, 2, 3", false}, c12ArgFillers},
	{c12form{"14", "sink(anyAll(%s))", "1, 2", false}, c12ArgFillers},
	{c12form{"14", "sink(func(base int, more ...int) int { return base }(%s))", "1, 2", false}, c12ArgFillers},
	{c12form{"14", "go addAll(%s)", "1, 2", false}, c12ArgFillers},
	{c12form{"14", "defer addAll(%s)", "1, 2", false}, c12ArgFillers},
}

var c12SelFillers = []c12filler{
	{"leaf", "zLeaf"}, {"emb-value", "zEmbV"}, {"emb-ptr", "zEmbP"}, {"named-value", "zNamV"}, {"named-ptr", "zNamP"},
	{"emb-emb", "zEmbEmb"}, {"emb-named", "zEmbNam"}, {"named-emb", "zNamEmb"}, {"named-named", "zNamNam"}, {"defined-from-named", "zDefNam"}, {"defined-from-emb", "zDefEmb"},
	{"addr-emb-value", "(&zEmbV)"}, {"addr-named-value", "(&zNamV)"}, {"addr-emb-named", "(&zEmbNam)"}, {"addr-named-emb", "(&zNamEmb)"},
	{"named-value.field", "zNamV.a"}, {"named-emb.field", "zNamEmb.n"},
}

// argument lists: every count around the arity and ... at every position
var c12ArgFillers = []c12filler{
	{"args-0", ""}, {"args-1", "1"}, {"args-2", "1, 2"}, {"args-3", "1, 2, 3"}, {"args-4", "1, 2, 3, 4"},
	{"spread-at-0", "zSl..."}, {"spread-at-1", "1, zSl..."}, {"spread-at-2", "1, 2, zSl..."}, {"spread-at-3", "1, 2, 3, zSl..."},
	{"spread-eface-at-0", "zEfs..."}, {"spread-eface-at-1", "1, zEfs..."}, {"spread-strings-at-1", "1, zStrs..."}, {"spread-nonslice-at-1", "1, zInt..."},
	{"spread-named-slice-at-1", "1, zNSl..."}, {"spread-array-at-1", "1, zArr..."}, {"spread-nil-at-1", "1, nil..."}, {"spread-twice", "zSl..., zSl..."},
	{"spread-then-arg", "1, zSl..., 2"}, {"tuple", "divmod(7, 2)"}, {"tuple-spread", "divmod(7, 2)..."}, {"wrong-type-at-0", "zStr, 2"},
}

// every form with the fillers that apply to it
func c12AllForms() []c12formX {
	var all []c12formX
	for _, f := range c12Forms {
		fl := c12Fillers
		if f.Types {
			fl = c12TypeFillers
		}
		all = append(all, c12formX{f, fl})
	}
	return append(all, c12FormsX...)
}

var c12TypeFillers = []c12filler{
	{"T-slice", "[]int"}, {"T-map", "map[string]int"}, {"T-chan", "chan int"}, {"T-int", "int"}, {"T-string", "string"}, {"T-struct", "Point"},
	{"T-array", "[3]int"}, {"T-ptr", "*int"}, {"T-ptr-slice", "*[]int"}, {"T-iface", "Shape"}, {"T-func", "func()"},
	{"T-named-slice", "IntSlice"}, {"T-named-map", "StrMap"}, {"T-named-chan", "IntChan"}, {"T-named-array", "IntArr"}, {"T-recvonly-chan", "<-chan int"},
	{"value-int", "zInt"}, {"value-slice", "zSl"}, {"const-int", "7"},
}

// a form: a statement with one hole (written %s, possibly several times), the filler of the well-typed
// original, and the catalogue number of the error class
type c12form struct {
	Num, Tmpl, Orig string
	Types           bool // the hole takes a type (make, new)
}

var c12Forms = []c12form{
	// 25 builtins
	{"25", "sink(len(%s))", "zSl", false}, {"25", "sink(cap(%s))", "zSl", false},
	{"25", "zSl = append(%s, 1)", "zSl", false}, {"25", "zSl = append(zSl, %s)", "zInt", false}, {"25", "zSl = append(zSl, %s...)", "zSl", false},
	{"25", "zBytes = append(zBytes, %s...)", "zStr", false},
	{"25", "sink(copy(%s, zSl))", "zSl", false}, {"25", "sink(copy(zSl, %s))", "zSl", false}, {"25", "sink(copy(zBytes, %s))", "zStr", false},
	{"25", "delete(%s, \"k\")", "zMap", false}, {"25", "delete(zMap, %s)", "zStr", false},
	{"25", "sink(make([]int, %s))", "zInt", false}, {"25", "sink(make([]int, 1, %s))", "zInt", false}, {"25", "sink(make(map[string]int, %s))", "zInt", false},
	{"25", "sink(make(chan int, %s))", "zInt", false},
	{"25", "sink(make(%s, 1))", "[]int", true}, {"25", "sink(make(%s))", "map[string]int", true}, {"25", "sink(new(%s))", "int", true},
	{"25", "close(%s)", "sweepClose", false},
	{"25", "sink(complex(%s, zFloat))", "zFloat", false}, {"25", "sink(complex(zFloat, %s))", "zFloat", false}, {"25", "sink(real(%s))", "zCplx", false}, {"25", "sink(imag(%s))", "zCplx", false},
	{"25", "if zInt > 100 {\n\t\tpanic(%s)\n\t}", "zStr", false}, {"25", "println(%s)", "zInt", false},
	// 29 index, 28 slice
	{"29", "sink(%s[0])", "zSl", false}, {"29", "sink(zSl[%s])", "zInt", false}, {"29", "sink(zArr[%s])", "zInt", false}, {"29", "sink(zStr[%s])", "zInt", false},
	{"29", "sink(zMap[%s])", "zStr", false}, {"29", "%s[0] = 1", "zSl", false}, {"29", "zMap[%s] = 1", "zStr", false},
	{"28", "sink(%s[0:1])", "zSl", false}, {"28", "sink(zSl[%s:])", "zInt", false}, {"28", "sink(zSl[0:%s:3])", "zInt", false}, {"28", "sink(%s[0:1:2])", "zSl", false},
	// 34 range
	{"34", "for range %s {\n\t\tbreak\n\t}", "zSl", false}, {"34", "for k, v := range %s {\n\t\tsink(k, v)\n\t\tbreak\n\t}", "zSl", false},
	// 27 conversions
	{"27", "sink(int(%s))", "zFloat", false}, {"27", "sink(string(%s))", "zBytes", false}, {"27", "sink([]byte(%s))", "zStr", false}, {"27", "sink(float64(%s))", "zInt", false},
	{"27", "sink(MyInt(%s))", "zInt", false}, {"27", "sink(Shape(%s))", "unit", false}, {"27", "sink((*Point)(%s))", "zPSt", false}, {"27", "sink(Point(%s))", "zSt", false},
	{"27", "sink(IntSlice(%s))", "zSl", false}, {"27", "sink([]int(%s))", "zNSl", false}, {"27", "sink(bool(%s))", "zBool", false}, {"27", "sink(IntFn(%s))", "zFn", false},
	// 26 channels
	{"26", "%s <- 1", "zCh", false}, {"26", "zCh <- %s", "zInt", false}, {"26", "sink(<-%s)", "zCh", false}, {"26", "{\n\t\tv, ok := <-%s\n\t\tsink(v, ok)\n\t}", "zCh", false},
	// 30 / 05 unary
	{"30", "sink(*%s)", "zPInt", false}, {"30", "sink(&%s)", "zInt", false}, {"30", "*%s = 1", "zPInt", false},
	{"05", "sink(-%s)", "zInt", false}, {"05", "sink(!%s)", "zBool", false}, {"05", "sink(^%s)", "zInt", false}, {"05", "sink(+%s)", "zInt", false},
	{"32", "%s++", "zInt", false},
	// 07 comparison, 01-04 binary
	{"07", "sink(%s == %s)", "zInt", false}, {"07", "sink(%s < %s)", "zInt", false}, {"07", "sink(%s == nil)", "zSl", false}, {"07", "sink(zInt == %s)", "zInt", false},
	{"07", "switch zInt {\n\tcase %s:\n\t}", "zInt", false},
	{"03", "sink(%s + %s)", "zInt", false}, {"03", "sink(%s - %s)", "zInt", false}, {"03", "sink(%s %% %s)", "zInt", false}, {"03", "sink(%s & %s)", "zInt", false},
	{"04", "sink(%s && %s)", "zBool", false}, {"06", "sink(%s << 1)", "zInt", false}, {"06", "sink(zInt << %s)", "zUint", false}, {"02", "sink(zInt + %s)", "zInt", false},
	{"02", "sink(zStr + %s)", "zStr", false}, {"03", "zInt += %s", "zInt", false},
	// 09 assignability
	{"09", "{\n\t\tvar t int = %s\n\t\tsink(t)\n\t}", "zInt", false}, {"09", "{\n\t\tvar t string = %s\n\t\tsink(t)\n\t}", "zStr", false}, {"09", "{\n\t\tvar t Shape = %s\n\t\tsink(t)\n\t}", "unit", false}, {"09", "{\n\t\tvar t []int = %s\n\t\tsink(t)\n\t}", "zSl", false},
	{"09", "{\n\t\tvar t *Point = %s\n\t\tsink(t)\n\t}", "zPSt", false}, {"09", "{\n\t\tvar t MyInt = %s\n\t\tsink(t)\n\t}", "zNInt", false}, {"09", "{\n\t\tvar t float64 = %s\n\t\tsink(t)\n\t}", "zFloat", false}, {"09", "{\n\t\tvar t chan<- int = %s\n\t\tsink(t)\n\t}", "zCh", false},
	{"09", "{\n\t\tvar t func(int) int = %s\n\t\tsink(t)\n\t}", "zFn", false}, {"09", "{\n\t\tvar t map[string]int = %s\n\t\tsink(t)\n\t}", "zMap", false}, {"14", "sink(add(%s, 1))", "zInt", false}, {"14", "sink(sum(%s...))", "zSl", false},
	{"14", "sink(describe(%s))", "unit", false}, {"15", "sink(func() int { return %s }())", "zInt", false},
	// 21 conditions
	{"21", "if %s {\n\t}", "zBool", false}, {"21", "for %s {\n\t\tbreak\n\t}", "zBool", false}, {"21", "switch {\n\tcase %s:\n\t}", "zBool", false},
	// 22-24 composite literal operands
	{"24", "sink(map[string]int{%s: 1})", "zStr", false}, {"24", "sink(map[string]int{\"k\": %s})", "zInt", false}, {"23", "sink([]int{%s})", "zInt", false},
	{"23", "sink([]int{%s: 1})", "1", false}, {"23", "sink([3]int{%s: 1})", "1", false}, {"22", "sink(Point{X: %s})", "zInt", false}, {"22", "sink(Point{%s, 2, \"t\"})", "zInt", false},
	{"20", "{\n\t\tv, ok := %s.(Rect)\n\t\tsink(v, ok)\n\t}", "zIf", false}, {"18", "sink(%s.X)", "zSt", false}, {"13", "sink(%s(1))", "zFn", false}, {"16", "{\n\t\ta, b := %s, 1\n\t\tsink(a, b)\n\t}", "zInt", false},
}

// composite literal key / index combinations (2): bodies x literal types, go/types decides
var c12LitBodies = []string{"1, 2, 3, 4", "2: 1, 2", "3: 1", "1: 1, 1: 2", "1: 1, 0: 0, 1", "0: 1, 2, 1: 3", "-1: 1", "1.0: 1", "1.5: 1", `"k": 1`, "zInt: 1",
	"Limit: 1", "2: 1, 3, 4", "1 << 1: 1, 2", "2: 1, 0: 2, 3, 4", "0: 1, 0: 2", "'a': 1", "1: 1, 2, 2: 3", "2: 1, 1: 2, 3", "zUint8: 1", "len(zStr): 1, 2"}
var c12LitTypes = []string{"[3]int", "[]int", "[...]int", "IntArr", "IntSlice", "[2][2]int"}
var c12MapBodies = []string{`"a": 1, "a": 2`, `"a": 1, "b": 2, "a": 3`, `1`, `"a": 1, 2`, `zStr: 1, zStr: 2`, `"a": 1, Greeting: 2, "hello": 3`}

type c12sweepMutant struct {
	Key, Line, Src string
	Control        bool // when go/types accepts it, it is a well-typed control: yaegi must accept it too
}

// c12SweepProgram: prelude + func sweep() with every form filled with its original operand.
func c12SweepProgram() (src string, lines []string) {
	var b strings.Builder
	b.WriteString("package main\n")
	b.WriteString(c12Prelude)
	b.WriteString("\n" + c12PreludeEndMarker + "\n\nfunc sweep() {\n\tsweepClose := make(chan int)\n")
	for _, f := range c12AllForms() {
		l := "\t" + strings.ReplaceAll(f.Tmpl, "%s", f.Orig) + "\n"
		l = strings.ReplaceAll(l, "%%", "%")
		lines = append(lines, l)
		b.WriteString(l)
	}
	b.WriteString("\tsink([3]int{0: 1})\n\tsink(map[string]int{\"a\": 1})\n")
	b.WriteString(c12ConstSubDecl + c12ConstSubHole + c12ConstSubEnd)
	b.WriteString("}\n\nfunc main() {\n\tprintln(\"MARK main\")\n\tsweep()\n}\n")
	return b.String(), lines
}

func c12SweepMutants() (orig string, muts []c12sweepMutant) {
	src, lines := c12SweepProgram()
	for i, f := range c12AllForms() {
		for _, fl := range f.Fill {
			if fl.Expr == f.Orig {
				continue
			}
			l := "\t" + strings.ReplaceAll(f.Tmpl, "%s", fl.Expr) + "\n"
			l = strings.ReplaceAll(l, "%%", "%")
			ms := strings.Replace(src, lines[i], l, 1)
			if ms == src {
				continue
			}
			muts = append(muts, c12sweepMutant{Key: f.Num + "-sweep " + fl.Name + " | sweep | " + strings.ReplaceAll(f.Tmpl, "\n", " "), Line: strings.TrimSpace(l), Src: ms})
		}
	}
	for _, lt := range c12LitTypes {
		for _, body := range c12LitBodies {
			l := "\tsink(" + lt + "{" + body + "})\n"
			ms := strings.Replace(src, "\tsink([3]int{0: 1})\n", l, 1)
			muts = append(muts, c12sweepMutant{Key: "23-sweep-literal | sweep | " + lt + "{" + body + "}", Line: strings.TrimSpace(l), Src: ms})
		}
	}
	for _, body := range c12MapBodies {
		l := "\tsink(map[string]int{" + body + "})\n"
		ms := strings.Replace(src, "\tsink(map[string]int{\"a\": 1})\n", l, 1)
		muts = append(muts, c12sweepMutant{Key: "24-sweep-literal | sweep | map[string]int{" + body + "}", Line: strings.TrimSpace(l), Src: ms})
	}
	for _, m := range c12ConstSubMutants(src) {
		m.Control = true
		muts = append(muts, m)
	}
	return src, muts
}

// ---------------------------------------------------------------- plan

type c12richMutant struct {
	Key, Line, Src string
	UseStd         bool
	Control        bool // a mutant that go/types accepts is a well-typed control (not discarded)
	// filled by c12RichEval
	RefErr string // "" = go/types accepts (or the source does not parse): discarded
	Obs    c12Obs
}

type c12richJob struct {
	Name     string
	Src      string
	Snippets []string
	UseStd   bool
	Muts     []*c12richMutant
}

// c12RichPlan: the sweep job and [rounds] rounds of snippet programs (about [perProg] snippets each).
func c12RichPlan(r *rng, rounds, perProg int) ([]*c12richJob, error) {
	var jobs []*c12richJob
	// sweep job
	{
		src, sm := c12SweepMutants()
		job := &c12richJob{Name: "sweep", Src: src}
		ck, err := c12TypeCheck(src, true)
		if err != nil || len(ck.Errs) > 0 {
			var errs []string
			if ck != nil {
				errs = ck.Errs
			}
			return nil, fmt.Errorf("the sweep program is not well-typed: %v %v", err, errs)
		}
		for _, m := range c12Mutants(src, ck) {
			if m.Prelude {
				job.Muts = append(job.Muts, &c12richMutant{Key: m.Op + " | " + m.Ctx, Line: m.Line, Src: m.Src})
			}
		}
		for _, m := range sm {
			job.Muts = append(job.Muts, &c12richMutant{Key: m.Key, Line: m.Line, Src: m.Src, Control: m.Control})
		}
		jobs = append(jobs, job)
	}
	for round := 0; round < rounds; round++ {
		perm := make([]int, len(c12Snippets))
		for i := range perm {
			perm[i] = i
		}
		for i := len(perm) - 1; i > 0; i-- {
			j := r.intn(i + 1)
			perm[i], perm[j] = perm[j], perm[i]
		}
		for from := 0; from < len(perm); from += perProg {
			to := from + perProg
			if to > len(perm) {
				to = len(perm)
			}
			var names []string
			for _, i := range perm[from:to] {
				names = append(names, c12Snippets[i].name)
			}
			p := c12ProgramOf(r.fork(), names)
			job := &c12richJob{Name: fmt.Sprintf("round%d/%d", round, from/perProg), Src: p.Src, Snippets: names, UseStd: strings.Contains(p.Src, "\"strings\"")}
			ck, err := c12TypeCheck(p.Src, true)
			if err != nil || len(ck.Errs) > 0 {
				// reported by the caller as an ill-typed original
				jobs = append(jobs, job)
				continue
			}
			for _, m := range c12Mutants(p.Src, ck) {
				if !m.Prelude {
					job.Muts = append(job.Muts, &c12richMutant{Key: m.Op + " | " + m.Ctx, Line: m.Line, Src: m.Src, UseStd: job.UseStd})
				}
			}
			jobs = append(jobs, job)
		}
	}
	return jobs, nil
}

// c12RichEval: go/types on every mutant; interp.Compile in this process on those it rejects; the
// sources that compile (they escaped the static checks) are evaluated in batches by child processes.
func c12RichEval(jobs []*c12richJob) {
	var all []*c12richMutant
	for _, j := range jobs {
		all = append(all, j.Muts...)
	}
	parallelMap(len(all), 0, func(i int) {
		m := all[i]
		mk, err := c12TypeCheck(m.Src, false)
		if err != nil || len(mk.Errs) == 0 {
			if err == nil && m.Control {
				// well-typed control: the static passes of yaegi must accept it
				m.Obs = c12Compile(m.Src, m.UseStd, nil)
			}
			return
		}
		m.RefErr = mk.Errs[0]
		m.Obs = c12Compile(m.Src, m.UseStd, nil)
	})
	var compiled []*c12richMutant
	for _, m := range all {
		if m.RefErr != "" && m.Obs.Class == "compiled" {
			compiled = append(compiled, m)
		}
	}
	c12BatchEval(compiled)
}

// ---------------------------------------------------------------- batches of Eval in child processes

type c12batchItem struct {
	Src    string `json:"src"`
	UseStd bool   `json:"std"`
}

func init() {
	register("c12-batch", "internal: Eval the sources of a JSON batch file one after the other, one JSON observable per line", func(args []string) error {
		fs := flag.NewFlagSet("c12-batch", flag.ExitOnError)
		timeout := fs.Duration("timeout", 5*time.Second, "timeout per source")
		fs.Parse(args)
		b, err := os.ReadFile(fs.Arg(0))
		if err != nil {
			return err
		}
		var items []c12batchItem
		if err := json.Unmarshal(b, &items); err != nil {
			return err
		}
		enc := json.NewEncoder(os.Stdout)
		for i, it := range items {
			fmt.Printf("BEGIN %d\n", i)
			o := c12EvalInProcess(it.Src, it.UseStd, nil, *timeout)
			if len(o.Output) > 200 {
				o.Output = o.Output[:200]
			}
			fmt.Printf("RESULT %d ", i)
			enc.Encode(o)
			if o.Class == "timeout" {
				// the evaluation is still running in this process: leave the rest to a fresh child
				return nil
			}
		}
		return nil
	})
}

// c12BatchEval fills Obs of every mutant: "rejected" only if Eval returned an error before any
// output; whatever else happens (normal end, run-time panic, endless loop, crash of the host from a
// goroutine) the ill-typed program has been executed: "ran".
func c12BatchEval(ms []*c12richMutant) {
	workers := 16
	var mu sync.Mutex
	next := 0
	const chunk = 12
	var wg sync.WaitGroup
	for w := 0; w < workers; w++ {
		wg.Add(1)
		go func() {
			defer wg.Done()
			for {
				mu.Lock()
				from := next
				next += chunk
				mu.Unlock()
				if from >= len(ms) {
					return
				}
				to := from + chunk
				if to > len(ms) {
					to = len(ms)
				}
				c12RunBatch(ms[from:to])
			}
		}()
	}
	wg.Wait()
}

func c12RunBatch(ms []*c12richMutant) {
	for len(ms) > 0 {
		items := make([]c12batchItem, len(ms))
		for i, m := range ms {
			items[i] = c12batchItem{m.Src, m.UseStd}
		}
		f, err := os.CreateTemp("", "vh-c12b-*.json")
		if err != nil {
			for _, m := range ms {
				m.Obs = c12Obs{Class: "ran", Err: "tempfile"}
			}
			return
		}
		b, _ := json.Marshal(items)
		f.Write(b)
		f.Close()
		self, _ := os.Executable()
		ctx, cancel := context.WithTimeout(context.Background(), time.Duration(len(ms))*6*time.Second+30*time.Second)
		cmd := exec.CommandContext(ctx, self, "c12-batch", f.Name())
		var so, se bytes.Buffer
		cmd.Stdout, cmd.Stderr = &so, &se
		cmd.Run()
		cancel()
		os.Remove(f.Name())
		done := 0
		began := -1
		for _, l := range strings.Split(so.String(), "\n") {
			var idx int
			if n, _ := fmt.Sscanf(l, "BEGIN %d", &idx); n == 1 {
				began = idx
				continue
			}
			if strings.HasPrefix(l, "RESULT ") {
				rest := strings.TrimPrefix(l, "RESULT ")
				sp := strings.IndexByte(rest, ' ')
				if sp < 0 {
					continue
				}
				fmt.Sscanf(rest[:sp], "%d", &idx)
				var o c12Obs
				if json.Unmarshal([]byte(rest[sp+1:]), &o) == nil && idx < len(ms) {
					if o.Class != "rejected" {
						o.Err = o.Class + ": " + o.Err
						o.Class = "ran"
					}
					ms[idx].Obs = o
					done = idx + 1
				}
			}
		}
		if done < len(ms) && began >= done {
			// the child died (or timed out) while evaluating ms[began]: that program was running
			msg := firstLine(se.String())
			if i := strings.Index(se.String(), "panic: "); i >= 0 {
				msg = firstLine(se.String()[i:])
			}
			ms[began].Obs = c12Obs{Class: "ran", Err: "host-crash: " + msg}
			done = began + 1
		} else if done == 0 {
			// the child produced nothing at all: do not loop for ever on the same batch
			ms[0].Obs = c12Obs{Class: "ran", Err: "host-crash: child ended without a result"}
			done = 1
		}
		// otherwise the child stopped after a time-out (the evaluation is still running in it): the
		// rest of the batch goes to a fresh child
		ms = ms[done:]
	}
}
