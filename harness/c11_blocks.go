package main

import (
	"fmt"
	"strings"
	"time"
)

// C11, structured main bodies (outside the Coq model): the statements of main use every block form —
// for / range / if / switch with local := declarations, closures that capture block-local and loop
// variables and are called after the block, function literals with defer, nested function literals.
// The same statements are evaluated (a) inside func main, in one piece, and (b) as top-level chunks
// (where the pseudo main block and its nested blocks live in the global frame); compared: output and
// final values of the package-level variables; second reference: compiled Go.

type c11bgen struct {
	r     *rng
	nLoc  int
	depth int
}

type c11bscope struct {
	read  []string // int variables that may be read
	write []string // int variables that may be assigned (no loop variables)
}

func (s c11bscope) with(read, write []string) c11bscope {
	return c11bscope{append(append([]string(nil), s.read...), read...), append(append([]string(nil), s.write...), write...)}
}

func (g *c11bgen) fresh(prefix string) string {
	g.nLoc++
	return fmt.Sprintf("%s%d", prefix, g.nLoc)
}

func (g *c11bgen) konst() string { return fmt.Sprint(g.r.intn(7) - 1) }

// pure int expression over the readable variables (no calls).
func (g *c11bgen) pure(sc c11bscope, depth int) string {
	if depth <= 0 || g.r.chance(40) {
		if len(sc.read) > 0 && g.r.chance(70) {
			return sc.read[g.r.intn(len(sc.read))]
		}
		return g.konst()
	}
	op := []string{"+", "-", "*", "+"}[g.r.intn(4)]
	return "(" + g.pure(sc, depth-1) + " " + op + " " + g.pure(sc, depth-1) + ")"
}

// cond: the left operand is a variable (yaegi rejects some constant conditions in whole programs too: not a C11 matter).
func (g *c11bgen) cond(sc c11bscope) string {
	v := sc.read[g.r.intn(len(sc.read))]
	switch g.r.intn(3) {
	case 0:
		return "(" + v + " + " + g.pure(sc, 1) + ")%2 == 0"
	case 1:
		return v + " > " + g.konst()
	}
	return v + " < " + g.pure(sc, 1)
}

func indent(lines []string) []string {
	out := make([]string, len(lines))
	for i, l := range lines {
		out[i] = "\t" + l
	}
	return out
}

// block generates n statements in a new block scope; returns the lines.
func (g *c11bgen) block(sc c11bscope, n, depth int, inLoop bool) []string {
	var out []string
	for i := 0; i < n; i++ {
		st, nsc := g.stmt(sc, depth, inLoop)
		out = append(out, st...)
		sc = nsc
	}
	return out
}

func (g *c11bgen) closureBody(sc c11bscope) string {
	// a closure may also mutate a captured block-local variable
	if len(sc.write) > 3 && g.r.chance(30) {
		w := sc.write[3+g.r.intn(len(sc.write)-3)] // a local, not one of the three package-level variables
		return fmt.Sprintf("func() int { %s += %s; return %s }", w, g.konst(), g.pure(sc, 1))
	}
	return fmt.Sprintf("func() int { return %s }", g.pure(sc, 2))
}

// stmt generates one statement (possibly compound, several lines) and the scope after it.
func (g *c11bgen) stmt(sc c11bscope, depth int, inLoop bool) ([]string, c11bscope) {
	k := g.r.intn(16)
	if depth <= 0 && k >= 8 && k <= 12 {
		k = g.r.intn(8)
	}
	switch k {
	case 0, 1:
		w := sc.write[g.r.intn(len(sc.write))]
		if g.r.bool() {
			return []string{fmt.Sprintf("%s = %s", w, g.pure(sc, 2))}, sc
		}
		return []string{fmt.Sprintf("%s += %s", w, g.pure(sc, 1))}, sc
	case 2:
		return []string{fmt.Sprintf("fmt.Println(%s, %s)", g.pure(sc, 1), g.pure(sc, 2))}, sc
	case 3, 4:
		l := g.fresh("l")
		return []string{fmt.Sprintf("%s := %s", l, g.pure(sc, 2)), "_ = " + l}, sc.with([]string{l}, []string{l})
	case 5, 6:
		// a closure over what is in scope here (block-local variables, loop variables), called later
		return []string{fmt.Sprintf("fs = append(fs, %s)", g.closureBody(sc))}, sc
	case 7:
		gv := []string{"g1", "g2", "g3"}[g.r.intn(3)]
		return []string{fmt.Sprintf("%s = bump(%s)", gv, g.pure(sc, 1))}, sc
	case 8:
		i := g.fresh("i")
		body := g.block(sc.with([]string{i}, nil), 2+g.r.intn(3), depth-1, true)
		return append(append([]string{fmt.Sprintf("for %s := 0; %s < %d; %s++ {", i, i, 2+g.r.intn(3), i)}, indent(body)...), "}"), sc
	case 9:
		kk, v := g.fresh("k"), g.fresh("v")
		elems := []string{g.konst(), g.konst(), g.konst()}
		hdr := fmt.Sprintf("for %s, %s := range []int{%s} {", kk, v, strings.Join(elems, ", "))
		body := append([]string{"_, _ = " + kk + ", " + v}, g.block(sc.with([]string{kk, v}, nil), 2+g.r.intn(2), depth-1, true)...)
		return append(append([]string{hdr}, indent(body)...), "}"), sc
	case 10:
		var out []string
		if g.r.chance(40) {
			l := g.fresh("l")
			nsc := sc.with([]string{l}, []string{l})
			out = append(out, fmt.Sprintf("if %s := %s; %s > %s {", l, g.pure(sc, 1), l, g.konst()))
			out = append(out, indent(g.block(nsc, 1+g.r.intn(3), depth-1, inLoop))...)
			out = append(out, "} else {")
			out = append(out, indent(g.block(nsc, 1+g.r.intn(2), depth-1, inLoop))...)
			return append(out, "}"), sc
		}
		out = append(out, fmt.Sprintf("if %s {", g.cond(sc)))
		out = append(out, indent(g.block(sc, 1+g.r.intn(3), depth-1, inLoop))...)
		if g.r.bool() {
			out = append(out, "} else {")
			out = append(out, indent(g.block(sc, 1+g.r.intn(2), depth-1, inLoop))...)
		}
		return append(out, "}"), sc
	case 11:
		var out []string
		if g.r.bool() {
			l := g.fresh("l")
			nsc := sc.with([]string{l}, []string{l})
			// the tag is the variable itself: yaegi mis-evaluates "switch x := e; x % 3" in whole programs too (not a C11 matter)
			out = append(out, fmt.Sprintf("switch %s := %s %% 3; %s {", l, g.pure(sc, 1), l))
			out = append(out, "case 0:")
			out = append(out, indent(g.block(nsc, 1+g.r.intn(2), depth-1, inLoop))...)
			out = append(out, "case 1, 2:")
			out = append(out, indent(g.block(nsc, 1+g.r.intn(2), depth-1, inLoop))...)
			out = append(out, "default:")
			out = append(out, indent(g.block(nsc, 1+g.r.intn(2), depth-1, inLoop))...)
			return append(out, "}"), sc
		}
		out = append(out, "switch {")
		out = append(out, fmt.Sprintf("case %s:", g.cond(sc)))
		out = append(out, indent(g.block(sc, 1+g.r.intn(2), depth-1, inLoop))...)
		out = append(out, fmt.Sprintf("case %s:", g.cond(sc)))
		out = append(out, indent(g.block(sc, 1+g.r.intn(2), depth-1, inLoop))...)
		out = append(out, "default:")
		out = append(out, indent(g.block(sc, 1+g.r.intn(2), depth-1, inLoop))...)
		return append(out, "}"), sc
	case 12:
		// a bare block with its own locals
		return append(append([]string{"{"}, indent(g.block(sc, 2+g.r.intn(2), depth-1, inLoop))...), "}"), sc
	case 13:
		// function literal called on the spot, with a deferred literal that writes a package-level variable
		gv, gw := []string{"g1", "g2", "g3"}[g.r.intn(3)], []string{"g1", "g2", "g3"}[g.r.intn(3)]
		return []string{fmt.Sprintf("%s = func() int { defer func() { %s += %s }(); return %s }()", gv, gw, g.pure(sc, 1), g.pure(sc, 1))}, sc
	case 14:
		// nested function literals: a maker of closures, used at once
		mk := g.fresh("mk")
		return []string{
			fmt.Sprintf("%s := func(a int) func() int { return func() int { return a + %s } }", mk, g.pure(sc, 1)),
			fmt.Sprintf("fs = append(fs, %s(%s), %s(%s))", mk, g.pure(sc, 1), mk, g.konst()),
		}, sc
	default:
		if inLoop {
			return []string{fmt.Sprintf("fs = append(fs, %s)", g.closureBody(sc))}, sc
		}
		return []string{"run()"}, sc
	}
}

type c11bprog struct {
	Decls []string
	Body  [][]string // top-level statements of main, each possibly several lines
}

func (g *c11bgen) program() c11bprog {
	var p c11bprog
	p.Decls = []string{
		fmt.Sprintf("var g1 = %d", 1+g.r.intn(5)),
		fmt.Sprintf("var g2 = %d", g.r.intn(9)-4),
		fmt.Sprintf("var g3 = %d", 2+g.r.intn(3)),
		"var fs []func() int",
		"func bump(a int) int { g1 = g1*2 + a; return g1 - g2 }",
		"func run() { for _, f := range fs { fmt.Println(f()) }; for _, f := range fs { g3 += f() }; fs = nil }",
	}
	sc := c11bscope{read: []string{"g1", "g2", "g3"}, write: []string{"g1", "g2", "g3"}}
	n := 6 + g.r.intn(6)
	compound := 0
	for i := 0; i < n || compound < 2; i++ {
		st, nsc := g.stmt(sc, 2, false)
		sc = nsc
		if strings.HasSuffix(st[0], "{") {
			// a compound statement is one top-level statement; the closures it made are called after it
			compound++
			p.Body = append(p.Body, st)
			if g.r.chance(70) {
				p.Body = append(p.Body, []string{"run()"})
			}
			continue
		}
		for _, l := range st { // simple statements: one per line
			p.Body = append(p.Body, []string{l})
		}
	}
	p.Body = append(p.Body, []string{"run()"}, []string{"fmt.Println(g1, g2, g3)"})
	return p
}

func (p c11bprog) whole() string {
	var b strings.Builder
	b.WriteString("package main\n\nimport \"fmt\"\n\n" + strings.Join(p.Decls, "\n") + "\n\nfunc main() {\n")
	for _, st := range p.Body {
		for _, l := range st {
			b.WriteString("\t" + l + "\n")
		}
	}
	b.WriteString("}\n")
	return b.String()
}

// c11blocks runs the structured-body stream.
func c11blocks(r *rng, n int, sm *summary, distinct distinctSet, id *int) error {
	type job struct {
		prog   c11bprog
		kind   string
		mode   int
		chunks []string
		res    c11richRun
		ref    string
		whole  *job
	}
	globals := []string{"g1", "g2", "g3"}
	var jobs []*job
	var refs []goProg
	for k := 0; k < n; k++ {
		g := &c11bgen{r: r.fork()}
		p := g.program()
		name := fmt.Sprintf("b%05d", k)
		refs = append(refs, goProg{Name: name, Files: map[string]string{"main.go": p.whole()}})
		w := &job{prog: p, kind: "whole", mode: c11Eval, chunks: []string{p.whole()}, ref: name}
		jobs = append(jobs, w)
		var stmts []string
		for _, st := range p.Body {
			stmts = append(stmts, strings.Join(st, "\n"))
		}
		for c := 0; c < 4; c++ {
			avg := 1 + r.intn(3)
			if c == 3 {
				avg = len(stmts) + 1 // the whole body in one chunk of top-level statements
			}
			var chunks []string
			for _, d := range c11cutStrings(r, p.Decls, 2) {
				chunks = append(chunks, strings.Join(d, "\n"))
			}
			if c == 3 {
				chunks = append(chunks, strings.Join(stmts, "\n"))
			} else {
				for _, b := range c11cutStrings(r, stmts, avg) {
					chunks = append(chunks, strings.Join(b, "\n"))
				}
			}
			mode := []int{c11Eval, c11CompileExecute, c11CompileAll, c11Eval}[c]
			jobs = append(jobs, &job{prog: p, kind: "pieces", mode: mode, chunks: chunks, ref: name, whole: w})
		}
	}
	var refRes map[string]outcome
	var refErr error
	done := make(chan struct{})
	go func() {
		refRes, refErr = goRefBatch(refs, 20*time.Second, false)
		close(done)
	}()
	parallelMap(len(jobs), 0, func(k int) {
		j := jobs[k]
		j.res = c11richSession(j.mode, j.chunks, false, j.kind == "pieces", globals)
	})
	<-done
	if refErr != nil {
		return fmt.Errorf("reference build (structured bodies): %w", refErr)
	}
	for _, j := range jobs {
		*id++
		in := map[string]any{"kind": "blocks:" + j.kind, "entry": c11modeNames[j.mode], "chunks": j.chunks}
		sm.CaseIndex[fmt.Sprint(*id)] = in
		sm.Evaluations++
		sm.RefComparisons++
		sm.count("session:blocks-" + j.kind + ":" + c11modeNames[j.mode])
		for _, form := range []string{"for ", "range ", "if ", "switch ", "defer ", "func(a int) func() int", "fs = append(fs, func()"} {
			if strings.Contains(j.prog.whole(), form) {
				sm.count("blocks:has:" + strings.TrimSpace(form))
			}
		}
		distinct.add(fmt.Sprint(in))
		ref := refRes[j.ref]
		if ref.End != "ok" {
			return fmt.Errorf("structured reference program %s did not run: %+v\n%s", j.ref, ref, j.prog.whole())
		}
		if j.res.Err != "" || j.res.Stdout != ref.Stdout {
			sm.RefMismatches = append(sm.RefMismatches, refMismatch{ID: *id, Region: "", Input: in, Impl: j.res, Ref: ref.Stdout, Note: "reference: compiled Go (same statements inside func main)"})
			continue
		}
		if j.whole != nil {
			sm.RefComparisons++
			if j.res.Stdout != j.whole.res.Stdout || j.res.Globals != j.whole.res.Globals {
				sm.RefMismatches = append(sm.RefMismatches, refMismatch{ID: *id, Region: "", Input: in, Impl: j.res, Ref: j.whole.res, Note: "reference: yaegi, same statements inside func main in one Eval"})
			}
		}
	}
	return nil
}
