package main

import (
	"fmt"
	"regexp"
	"strings"
	"time"
)

// C11, structured main bodies (outside the Coq model): the statements of main use every block form —
// for / range / if / switch with local := declarations, closures that capture block-local and loop
// variables and are called after the block, function literals with defer, nested function literals.
// The same statements are evaluated (a) inside func main, in one piece, and (b) as top-level chunks
// (where the pseudo main block and its nested blocks live in the global frame); compared: output and
// final values of the package-level variables; second reference: compiled Go.

type c11bgen struct {
	commaOK bool // v, ok := m[k] at the top level (region assert-define: panics in the host today)
	r       *rng
	nLoc    int
	depth   int
}

type c11bscope struct {
	read  []string // int variables that may be read
	write []string // int variables that may be assigned (no loop variables)
}

func (s c11bscope) with(read, write []string) c11bscope {
	return c11bscope{append(append([]string(nil), s.read...), read...), append(append([]string(nil), s.write...), write...)}
}

func (g *c11bgen) fresh(prefix string) string {
	g.nLoc++
	return fmt.Sprintf("%s%d", prefix, g.nLoc)
}

func (g *c11bgen) konst() string { return fmt.Sprint(g.r.intn(7) - 1) }

// pure int expression over the readable variables (no calls).
func (g *c11bgen) pure(sc c11bscope, depth int) string {
	if depth <= 0 || g.r.chance(40) {
		if len(sc.read) > 0 && g.r.chance(70) {
			return sc.read[g.r.intn(len(sc.read))]
		}
		return g.konst()
	}
	op := []string{"+", "-", "*", "+"}[g.r.intn(4)]
	return "(" + g.pure(sc, depth-1) + " " + op + " " + g.pure(sc, depth-1) + ")"
}

// cond: the left operand is a variable (yaegi rejects some constant conditions in whole programs too: not a C11 matter).
func (g *c11bgen) cond(sc c11bscope) string {
	v := sc.read[g.r.intn(len(sc.read))]
	switch g.r.intn(3) {
	case 0:
		return "(" + v + " + " + g.pure(sc, 1) + ")%2 == 0"
	case 1:
		return v + " > " + g.konst()
	}
	return v + " < " + g.pure(sc, 1)
}

func indent(lines []string) []string {
	out := make([]string, len(lines))
	for i, l := range lines {
		out[i] = "\t" + l
	}
	return out
}

// block generates n statements in a new block scope; returns the lines.
func (g *c11bgen) block(sc c11bscope, n, depth int, inLoop bool) []string {
	var out []string
	for i := 0; i < n; i++ {
		st, nsc := g.stmt(sc, depth, inLoop)
		out = append(out, st...)
		sc = nsc
	}
	return out
}

func (g *c11bgen) closureBody(sc c11bscope) string {
	// a closure may also mutate a captured block-local variable
	if len(sc.write) > 3 && g.r.chance(30) {
		w := sc.write[3+g.r.intn(len(sc.write)-3)] // a local, not one of the three package-level variables
		return fmt.Sprintf("func() int { %s += %s; return %s }", w, g.konst(), g.pure(sc, 1))
	}
	return fmt.Sprintf("func() int { return %s }", g.pure(sc, 2))
}

// stmt generates one statement (possibly compound, several lines) and the scope after it.
func (g *c11bgen) stmt(sc c11bscope, depth int, inLoop bool) ([]string, c11bscope) {
	k := g.r.intn(16)
	if depth <= 0 && k >= 8 && k <= 12 {
		k = g.r.intn(8)
	}
	switch k {
	case 0, 1:
		w := sc.write[g.r.intn(len(sc.write))]
		if g.r.bool() {
			return []string{fmt.Sprintf("%s = %s", w, g.pure(sc, 2))}, sc
		}
		return []string{fmt.Sprintf("%s += %s", w, g.pure(sc, 1))}, sc
	case 2:
		return []string{fmt.Sprintf("fmt.Println(%s, %s)", g.pure(sc, 1), g.pure(sc, 2))}, sc
	case 3, 4:
		l := g.fresh("l")
		return []string{fmt.Sprintf("%s := %s", l, g.pure(sc, 2)), "_ = " + l}, sc.with([]string{l}, []string{l})
	case 5, 6:
		// a closure over what is in scope here (block-local variables, loop variables), called later
		return []string{fmt.Sprintf("fs = append(fs, %s)", g.closureBody(sc))}, sc
	case 7:
		gv := []string{"g1", "g2", "g3"}[g.r.intn(3)]
		return []string{fmt.Sprintf("%s = bump(%s)", gv, g.pure(sc, 1))}, sc
	case 8:
		i := g.fresh("i")
		body := g.block(sc.with([]string{i}, nil), 2+g.r.intn(3), depth-1, true)
		return append(append([]string{fmt.Sprintf("for %s := 0; %s < %d; %s++ {", i, i, 2+g.r.intn(3), i)}, indent(body)...), "}"), sc
	case 9:
		kk, v := g.fresh("k"), g.fresh("v")
		elems := []string{g.konst(), g.konst(), g.konst()}
		hdr := fmt.Sprintf("for %s, %s := range []int{%s} {", kk, v, strings.Join(elems, ", "))
		body := append([]string{"_, _ = " + kk + ", " + v}, g.block(sc.with([]string{kk, v}, nil), 2+g.r.intn(2), depth-1, true)...)
		return append(append([]string{hdr}, indent(body)...), "}"), sc
	case 10:
		var out []string
		if g.r.chance(40) {
			l := g.fresh("l")
			nsc := sc.with([]string{l}, []string{l})
			out = append(out, fmt.Sprintf("if %s := %s; %s > %s {", l, g.pure(sc, 1), l, g.konst()))
			out = append(out, indent(g.block(nsc, 1+g.r.intn(3), depth-1, inLoop))...)
			out = append(out, "} else {")
			out = append(out, indent(g.block(nsc, 1+g.r.intn(2), depth-1, inLoop))...)
			return append(out, "}"), sc
		}
		out = append(out, fmt.Sprintf("if %s {", g.cond(sc)))
		out = append(out, indent(g.block(sc, 1+g.r.intn(3), depth-1, inLoop))...)
		if g.r.bool() {
			out = append(out, "} else {")
			out = append(out, indent(g.block(sc, 1+g.r.intn(2), depth-1, inLoop))...)
		}
		return append(out, "}"), sc
	case 11:
		var out []string
		if g.r.bool() {
			l := g.fresh("l")
			nsc := sc.with([]string{l}, []string{l})
			// the tag is the variable itself: yaegi mis-evaluates "switch x := e; x % 3" in whole programs too (not a C11 matter)
			out = append(out, fmt.Sprintf("switch %s := %s %% 3; %s {", l, g.pure(sc, 1), l))
			out = append(out, "case 0:")
			out = append(out, indent(g.block(nsc, 1+g.r.intn(2), depth-1, inLoop))...)
			out = append(out, "case 1, 2:")
			out = append(out, indent(g.block(nsc, 1+g.r.intn(2), depth-1, inLoop))...)
			out = append(out, "default:")
			out = append(out, indent(g.block(nsc, 1+g.r.intn(2), depth-1, inLoop))...)
			return append(out, "}"), sc
		}
		out = append(out, "switch {")
		out = append(out, fmt.Sprintf("case %s:", g.cond(sc)))
		out = append(out, indent(g.block(sc, 1+g.r.intn(2), depth-1, inLoop))...)
		out = append(out, fmt.Sprintf("case %s:", g.cond(sc)))
		out = append(out, indent(g.block(sc, 1+g.r.intn(2), depth-1, inLoop))...)
		out = append(out, "default:")
		out = append(out, indent(g.block(sc, 1+g.r.intn(2), depth-1, inLoop))...)
		return append(out, "}"), sc
	case 12:
		// a bare block with its own locals
		return append(append([]string{"{"}, indent(g.block(sc, 2+g.r.intn(2), depth-1, inLoop))...), "}"), sc
	case 13:
		// function literal called on the spot, with a deferred literal that writes a package-level variable
		gv, gw := []string{"g1", "g2", "g3"}[g.r.intn(3)], []string{"g1", "g2", "g3"}[g.r.intn(3)]
		return []string{fmt.Sprintf("%s = func() int { defer func() { %s += %s }(); return %s }()", gv, gw, g.pure(sc, 1), g.pure(sc, 1))}, sc
	case 14:
		// nested function literals: a maker of closures, used at once
		mk := g.fresh("mk")
		return []string{
			fmt.Sprintf("%s := func(a int) func() int { return func() int { return a + %s } }", mk, g.pure(sc, 1)),
			fmt.Sprintf("fs = append(fs, %s(%s), %s(%s))", mk, g.pure(sc, 1), mk, g.konst()),
		}, sc
	default:
		if inLoop {
			return []string{fmt.Sprintf("fs = append(fs, %s)", g.closureBody(sc))}, sc
		}
		return []string{"run()"}, sc
	}
}

type c11bprog struct {
	Decls   []string
	Body    [][]string // top-level statements of main, each possibly several lines
	Globals []string   // package-level variables that main does not shadow (compared through Globals())
	Cells   []string   // top-level definition forms the program contains
}

// top-level definitions of main's body: multi-value definitions, REDECLARATIONS (a, e := f() then b, e := f()),
// captures of such variables by closures and pointers before a redeclaration, comma-ok forms, and locals
// that SHADOW a package-level variable of the same name and type (whole program: a local of main;
// piecewise: a second definition in the global scope, while functions keep reading the first).
type c11btop struct {
	multi    []string // int variables introduced by a multi-value definition
	captured map[string]bool
	ptrs     [][2]string // pointer local, variable it points to
	oks      [][2]string // ok variable, value variable of a comma-ok definition
	shadowed map[string]bool
}

func (g *c11bgen) topForm(kind int, sc c11bscope, t *c11btop, p *c11bprog) c11bscope {
	add := func(lines ...string) {
		for _, l := range lines {
			p.Body = append(p.Body, []string{l})
		}
	}
	cell := func(c string) { p.Cells = append(p.Cells, c) }
	switch kind {
	case 0: // a, e := two(x)
		a, e := g.fresh("a"), g.fresh("e")
		add(fmt.Sprintf("%s, %s := two(%s)", a, e, g.pure(sc, 1)), "_, _ = "+a+", "+e)
		t.multi = append(t.multi, e)
		cell("multi-define")
		return sc.with([]string{a, e}, []string{a, e})
	case 1: // capture by a closure or by a pointer
		if len(t.multi) == 0 {
			return sc
		}
		e := t.multi[g.r.intn(len(t.multi))]
		if g.r.bool() {
			add(fmt.Sprintf("fs = append(fs, func() int { return %s + %s })", e, g.konst()))
			cell("capture-closure")
		} else {
			q := g.fresh("q")
			add(fmt.Sprintf("%s := &%s", q, e), "_ = "+q)
			t.ptrs = append(t.ptrs, [2]string{q, e})
			cell("capture-pointer")
		}
		t.captured[e] = true
	case 2: // b, e := two(y): e is redeclared (same variable), b is new
		if len(t.multi) == 0 {
			return sc
		}
		e := t.multi[g.r.intn(len(t.multi))]
		b := g.fresh("b")
		add(fmt.Sprintf("%s, %s := two(%s)", b, e, g.pure(sc, 1)), "_ = "+b)
		cell("redeclare")
		if t.captured[e] {
			cell("capture-before-redeclare")
		}
		return sc.with([]string{b}, []string{b})
	case 3: // write, then read through the captures
		if len(t.multi) == 0 {
			return sc
		}
		e := t.multi[g.r.intn(len(t.multi))]
		add(fmt.Sprintf("%s = %s", e, g.pure(sc, 1)))
		for _, q := range t.ptrs {
			if q[1] == e {
				add(fmt.Sprintf("*%s += %s", q[0], g.konst()), fmt.Sprintf("fmt.Println(*%s, %s)", q[0], e))
			}
		}
		add("run()", fmt.Sprintf("fmt.Println(%s)", e))
	case 4: // v, ok := mp[k], captured
		v, ok := g.fresh("v"), g.fresh("ok")
		add(fmt.Sprintf("%s, %s := mp[%d]", v, ok, g.r.intn(4)), "_, _ = "+v+", "+ok,
			fmt.Sprintf("fs = append(fs, func() int { if %s { return %s }; return -1 })", ok, v))
		t.oks = append(t.oks, [2]string{ok, v})
		cell("comma-ok")
		return sc.with([]string{v}, []string{v})
	case 5: // w, ok := mp[k2]: ok redeclared after its capture
		if len(t.oks) == 0 {
			return sc
		}
		o := t.oks[g.r.intn(len(t.oks))]
		w := g.fresh("w")
		add(fmt.Sprintf("%s, %s := mp[%d]", w, o[0], g.r.intn(6)), "_ = "+w, "run()", fmt.Sprintf("fmt.Println(%s, %s)", w, o[0]))
		cell("comma-ok-redeclare")
		return sc.with([]string{w}, []string{w})
	case 6: // a local of main shadows a package-level variable; its initialiser is not a constant
		var free []string
		for _, n := range []string{"g1", "g2", "g3"} {
			if !t.shadowed[n] {
				free = append(free, n)
			}
		}
		if len(free) < 2 {
			return sc
		}
		n := free[g.r.intn(len(free))]
		other := "g1"
		for _, o := range []string{"g3", "g2", "g1"} {
			if o != n && !t.shadowed[o] {
				other = o
			}
		}
		// the initialiser does not mention the shadowed name itself ("g1 := bump(g1)" reads the NEW variable
		// when fed as a chunk: the same hoisting as region shadow-hoist)
		var nsc c11bscope
		for _, v := range sc.read {
			if v != n {
				nsc.read = append(nsc.read, v)
			}
		}
		init := fmt.Sprintf("bump(%s)", g.pure(nsc, 1))
		if g.r.bool() {
			init = fmt.Sprintf("%s*2 + %s", other, g.konst())
		}
		add(fmt.Sprintf("%s := %s", n, init), "_ = "+n, fmt.Sprintf("%s += %s", n, g.konst()), "show()", fmt.Sprintf("fmt.Println(bump(%s), %s)", g.konst(), n))
		t.shadowed[n] = true
		cell("shadow-global")
	}
	return sc
}

func (g *c11bgen) program() c11bprog {
	var p c11bprog
	p.Decls = []string{
		fmt.Sprintf("var g1 = %d", 1+g.r.intn(5)),
		fmt.Sprintf("var g2 = %d", g.r.intn(9)-4),
		fmt.Sprintf("var g3 = %d", 2+g.r.intn(3)),
		"var fs []func() int",
		"func bump(a int) int { g1 = g1*2 + a; return g1 - g2 }",
		"func run() { for _, f := range fs { fmt.Println(f()) }; for _, f := range fs { g3 += f() }; fs = nil }",
		"func two(a int) (int, int) { g2 += a; return a + g2, a * 2 }",
		fmt.Sprintf("var mp = map[int]int{0: %d, 1: %d, 2: %d}", g.r.intn(9), g.r.intn(9), g.r.intn(9)),
		"func show() { fmt.Println(g1, g2, g3) }",
	}
	sc := c11bscope{read: []string{"g1", "g2", "g3"}, write: []string{"g1", "g2", "g3"}}
	n := 8 + g.r.intn(6)
	compound := 0
	top := &c11btop{captured: map[string]bool{}, shadowed: map[string]bool{}}
	// the forms in an order that makes every one of them meaningful, spread among the other statements
	script := map[int]int{1: 0, 2: 4, 3: 1, 4: 2, 5: 3, 6: 6, 7: 5, 8: 1, 9: 2, 10: 3}
	for i := 0; i < n || compound < 2; i++ {
		if k, ok := script[i]; ok && (k < 4 || g.r.chance(70)) && (g.commaOK || (k != 4 && k != 5)) {
			sc = g.topForm(k, sc, top, &p)
		} else if i > 10 && g.r.chance(30) {
			if k := g.r.intn(7); g.commaOK || (k != 4 && k != 5) {
				sc = g.topForm(k, sc, top, &p)
			}
		}
		st, nsc := g.stmt(sc, 2, false)
		sc = nsc
		if strings.HasSuffix(st[0], "{") {
			// a compound statement is one top-level statement; the closures it made are called after it
			compound++
			p.Body = append(p.Body, st)
			if g.r.chance(70) {
				p.Body = append(p.Body, []string{"run()"})
			}
			continue
		}
		for _, l := range st { // simple statements: one per line
			p.Body = append(p.Body, []string{l})
		}
	}
	p.Body = append(p.Body, []string{"run()"}, []string{"fmt.Println(g1, g2, g3)"}, []string{"show()"})
	for _, n := range []string{"g1", "g2", "g3"} {
		if !top.shadowed[n] {
			p.Globals = append(p.Globals, n)
		}
	}
	return p
}

func (p c11bprog) whole() string {
	var b strings.Builder
	b.WriteString("package main\n\nimport \"fmt\"\n\n" + strings.Join(p.Decls, "\n") + "\n\nfunc main() {\n")
	for _, st := range p.Body {
		for _, l := range st {
			b.WriteString("\t" + l + "\n")
		}
	}
	b.WriteString("}\n")
	return b.String()
}

var c11shadowRe = regexp.MustCompile(`^g[123] := `)

func c11hasShadow(stmts []string) bool {
	for _, s := range stmts {
		if c11shadowRe.MatchString(s) {
			return true
		}
	}
	return false
}

// c11splitAtShadow makes every shadowing definition the first statement of its chunk.
func c11splitAtShadow(pieces [][]string) [][]string {
	var out [][]string
	for _, p := range pieces {
		start := 0
		for i, s := range p {
			if i > start && c11shadowRe.MatchString(s) {
				out = append(out, p[start:i])
				start = i
			}
		}
		out = append(out, p[start:])
	}
	return out
}

// c11blocks runs the structured-body stream.
func c11blocks(r *rng, n int, sm *summary, distinct distinctSet, id *int) error {
	type job struct {
		prog   c11bprog
		kind   string
		mode   int
		chunks []string
		res    c11richRun
		ref    string
		whole  *job
		region string
	}
	var jobs []*job
	var refs []goProg
	for k := 0; k < n; k++ {
		g := &c11bgen{r: r.fork(), commaOK: k%8 == 7}
		p := g.program()
		name := fmt.Sprintf("b%05d", k)
		refs = append(refs, goProg{Name: name, Files: map[string]string{"main.go": p.whole()}})
		w := &job{prog: p, kind: "whole", mode: c11Eval, chunks: []string{p.whole()}, ref: name}
		jobs = append(jobs, w)
		var stmts []string
		for _, st := range p.Body {
			stmts = append(stmts, strings.Join(st, "\n"))
		}
		for c := 0; c < 4; c++ {
			avg := 1 + r.intn(3)
			if c == 3 {
				avg = len(stmts) + 1 // the whole body in one chunk of top-level statements
			}
			var chunks []string
			for _, d := range c11cutStrings(r, p.Decls, 2) {
				chunks = append(chunks, strings.Join(d, "\n"))
			}
			mode := []int{c11Eval, c11CompileExecute, c11CompileAll, c11Eval}[c]
			region := ""
			var pieces [][]string
			if c == 3 {
				pieces = [][]string{stmts}
			} else {
				pieces = c11cutStrings(r, stmts, avg)
			}
			// a local that shadows a package-level variable: on the unchanged tree the new definition is
			// entered by gta for the whole chunk, so earlier statements of the SAME chunk see it (region
			// shadow-hoist), and compiling later chunks before executing earlier ones makes the first
			// definition depend on the second (region var-xdep). Main stream: the shadowing definition
			// starts its chunk and the chunks are executed as they are compiled.
			if c11hasShadow(stmts) {
				switch c {
				case 0, 1:
					pieces = c11splitAtShadow(pieces)
				case 2:
					region = "var-xdep"
					pieces = c11splitAtShadow(pieces)
				case 3:
					region = "shadow-hoist"
				}
			}
			if g.commaOK {
				region = "assert-define" // v, ok := m[k] at the top level panics in the host today
			}
			for _, b := range pieces {
				chunks = append(chunks, strings.Join(b, "\n"))
			}
			jobs = append(jobs, &job{prog: p, kind: "pieces", mode: mode, chunks: chunks, ref: name, whole: w, region: region})
		}
	}
	var refRes map[string]outcome
	var refErr error
	done := make(chan struct{})
	go func() {
		refRes, refErr = goRefBatch(refs, 20*time.Second, false)
		close(done)
	}()
	parallelMap(len(jobs), 0, func(k int) {
		j := jobs[k]
		j.res = c11richSession(j.mode, j.chunks, false, j.kind == "pieces", j.prog.Globals)
	})
	<-done
	if refErr != nil {
		return fmt.Errorf("reference build (structured bodies): %w", refErr)
	}
	for _, j := range jobs {
		*id++
		in := map[string]any{"kind": "blocks:" + j.kind, "entry": c11modeNames[j.mode], "chunks": j.chunks}
		sm.CaseIndex[fmt.Sprint(*id)] = in
		sm.Evaluations++
		sm.RefComparisons++
		sm.count("session:blocks-" + j.kind + ":" + c11modeNames[j.mode])
		for _, form := range []string{"for ", "range ", "if ", "switch ", "defer ", "func(a int) func() int", "fs = append(fs, func()"} {
			if strings.Contains(j.prog.whole(), form) {
				sm.count("blocks:has:" + strings.TrimSpace(form))
			}
		}
		for _, c := range j.prog.Cells {
			sm.count("blocks:cell:" + c)
		}
		distinct.add(fmt.Sprint(in))
		ref := refRes[j.ref]
		if ref.End != "ok" {
			return fmt.Errorf("structured reference program %s did not run: %+v\n%s", j.ref, ref, j.prog.whole())
		}
		if j.res.Err != "" || j.res.Stdout != ref.Stdout {
			sm.RefMismatches = append(sm.RefMismatches, refMismatch{ID: *id, Region: j.region, Input: in, Impl: j.res, Ref: ref.Stdout, Note: "reference: compiled Go (same statements inside func main)"})
			continue
		}
		if j.whole != nil {
			sm.RefComparisons++
			if j.res.Stdout != j.whole.res.Stdout || j.res.Globals != j.whole.res.Globals {
				sm.RefMismatches = append(sm.RefMismatches, refMismatch{ID: *id, Region: j.region, Input: in, Impl: j.res, Ref: j.whole.res, Note: "reference: yaegi, same statements inside func main in one Eval"})
			}
		}
	}
	return nil
}
