package main

import (
	"bytes"
	"context"
	"fmt"
	"os"
	"os/exec"
	"path/filepath"
	"runtime/debug"
	"strconv"
	"strings"
	"time"
)

// C13, the yaegi command (cmd/yaegi/run.go is an anchor of the property): the opt-in symbol sets are loaded
// only when a flag says so or the YAEGI_* variable holds a true boolean. The command is built from the same
// source tree this harness was built against (module replacement recorded in the build info) and run with
// every value class of each variable and with explicit flags; a script imports the package the set provides.

func c13YaegiSourceDir() string {
	bi, ok := debug.ReadBuildInfo()
	if !ok {
		return ""
	}
	for _, d := range bi.Deps {
		if d.Path == "github.com/traefik/yaegi" {
			if d.Replace != nil {
				return d.Replace.Path
			}
		}
	}
	return ""
}

func c13BuildYaegiCmd(scratch string) (string, error) {
	dir := c13YaegiSourceDir()
	if dir == "" {
		return "", fmt.Errorf("source directory of github.com/traefik/yaegi not found in the build info")
	}
	bin := filepath.Join(scratch, "yaegi-cmd")
	ctx, cancel := context.WithTimeout(context.Background(), 15*time.Minute)
	defer cancel()
	cmd := exec.CommandContext(ctx, "go", "build", "-o", bin, "./cmd/yaegi")
	cmd.Dir = dir
	cmd.Env = append(os.Environ(), "GOFLAGS=-mod=mod", "GOPROXY=off", "GOSUMDB=off", "GOTOOLCHAIN=local")
	if out, err := cmd.CombinedOutput(); err != nil {
		return "", fmt.Errorf("go build ./cmd/yaegi in %s: %v: %s", dir, err, firstLine(string(out)))
	}
	return bin, nil
}

type c13CliCell struct {
	Var, Flag, Probe string
	Value            *string // nil: unset
	FlagVal          *bool   // nil: flag not given
}

var c13CliVars = []struct{ Var, Flag, Probe string }{
	{"YAEGI_UNSAFE", "unsafe", `import "unsafe"`},
	{"YAEGI_SYSCALL", "syscall", `import "syscall"`},
	{"YAEGI_UNRESTRICTED", "unrestricted", `import "os/exec"`},
}

// value classes: unset, empty, every spelling ParseBool accepts, and words/numbers people write for "no" and "yes"
var c13CliValues = []string{"", "0", "f", "F", "false", "False", "FALSE", "1", "t", "T", "true", "True", "TRUE",
	"off", "no", "n", "N", "disabled", "2", "-", "-1", "yes", "on", "y", "enabled", "tRuE", "fALSE", "01", "00", " 1", "1 ", "null", "nil"}

func c13CliCells() []c13CliCell {
	var cells []c13CliCell
	tr, fa := true, false
	for _, v := range c13CliVars {
		cells = append(cells, c13CliCell{Var: v.Var, Flag: v.Flag, Probe: v.Probe})
		for i := range c13CliValues {
			cells = append(cells, c13CliCell{Var: v.Var, Flag: v.Flag, Probe: v.Probe, Value: &c13CliValues[i]})
		}
		one, off := "1", "off"
		cells = append(cells,
			c13CliCell{Var: v.Var, Flag: v.Flag, Probe: v.Probe, FlagVal: &tr},
			c13CliCell{Var: v.Var, Flag: v.Flag, Probe: v.Probe, FlagVal: &fa, Value: &one},
			c13CliCell{Var: v.Var, Flag: v.Flag, Probe: v.Probe, FlagVal: &tr, Value: &off},
			c13CliCell{Var: v.Var, Flag: v.Flag, Probe: v.Probe, FlagVal: &fa})
	}
	return cells
}

// c13RunCli reports whether the import of the probe succeeded (the opt-in set was loaded).
func c13RunCli(bin string, c c13CliCell) (on bool, detail string) {
	args := []string{"run", "-noautoimport"}
	if c.FlagVal != nil {
		args = append(args, "-"+c.Flag+"="+strconv.FormatBool(*c.FlagVal))
	}
	args = append(args, "-e", c.Probe)
	ctx, cancel := context.WithTimeout(context.Background(), 120*time.Second)
	defer cancel()
	cmd := exec.CommandContext(ctx, bin, args...)
	for _, e := range os.Environ() {
		if !strings.HasPrefix(e, "YAEGI_") {
			cmd.Env = append(cmd.Env, e)
		}
	}
	if c.Value != nil {
		cmd.Env = append(cmd.Env, c.Var+"="+*c.Value)
	}
	var out bytes.Buffer
	cmd.Stdout, cmd.Stderr = &out, &out
	err := cmd.Run()
	if err == nil {
		return true, ""
	}
	if strings.Contains(out.String(), "unable to find source") {
		return false, ""
	}
	return false, "unexpected: " + firstLine(out.String()) + " (" + err.Error() + ")"
}
