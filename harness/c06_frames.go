package main

import (
	"fmt"
	"strings"
)

// C06 along the dimension DECLARATION FORM OF THE FRAMES A PANIC UNWINDS THROUGH. Every program has a
// call path  main -> cell (plain function) -> mid frame (form B) -> inner frame (form A), the panic is
// raised in the inner frame; both frames have a deferred print and a deferred literal that recovers
// when the cell says so. Dimensions: form of the inner frame x form of the mid frame (paired by a
// seed-dependent rotation: every form occurs in both positions in every run) x panic kind (explicit
// string, int, error, named string type; divide by zero, nil map write, index out of range) x where
// it is recovered (inner frame's own defer, the mid frame, the plain function on top, not at all:
// the panic ends the program = comes out of Eval as interp.Panic / exit status 2 of the compiled
// program). Observed: stdout (order of deferred prints, which code after the call still runs, the
// returned values), the recovered value as %T and %v, how the run ends; all against compiled Go.

type c06FrameForm struct {
	Name   string
	Recv   string // receiver clause; "" = not a method
	Lit    bool   // package variable holding a function literal
	Params string
	Res    string
	Named  bool   // named results
	Call   string // statements that call frame %[1]s and define v
}

var c06FrameForms = []c06FrameForm{
	{Name: "func", Params: "k int", Res: "int", Call: "v := f%[1]s(1)"},
	{Name: "lit", Lit: true, Params: "k int", Res: "int", Call: "v := f%[1]s(1)"},
	{Name: "vrecv-named", Recv: "(t T)", Params: "k int", Res: "int", Call: "v := T{3}.m%[1]s(1)"},
	{Name: "precv-named", Recv: "(t *T)", Params: "k int", Res: "int", Call: "v := (&T{3}).m%[1]s(1)"},
	{Name: "vrecv-unnamed", Recv: "(T)", Params: "k int", Res: "int", Call: "v := T{3}.m%[1]s(1)"},
	{Name: "precv-unnamed", Recv: "(*T)", Params: "k int", Res: "int", Call: "v := (&T{3}).m%[1]s(1)"},
	{Name: "vrecv-blank", Recv: "(_ T)", Params: "k int", Res: "int", Call: "v := T{3}.m%[1]s(1)"},
	{Name: "precv-blank", Recv: "(_ *T)", Params: "k int", Res: "int", Call: "v := (&T{3}).m%[1]s(1)"},
	{Name: "methval-named", Recv: "(t T)", Params: "k int", Res: "int", Call: "h%[1]s := T{3}.m%[1]s\n\tv := h%[1]s(1)"},
	{Name: "methval-unnamed", Recv: "(*T)", Params: "k int", Res: "int", Call: "h%[1]s := (&T{3}).m%[1]s\n\tv := h%[1]s(1)"},
	{Name: "methexpr-named", Recv: "(t T)", Params: "k int", Res: "int", Call: "v := T.m%[1]s(T{3}, 1)"},
	{Name: "methexpr-unnamed", Recv: "(*T)", Params: "k int", Res: "int", Call: "v := (*T).m%[1]s(&T{3}, 1)"},
	// left out: function with UNNAMED parameters and named results, func f(int) (r int): the unchanged
	// tree misruns it for a reason unrelated to unwinding (the call does not enter the body / reflect.Set
	// type error in the caller); seen in this stream, not investigated
	{Name: "func-blank-params", Params: "_ int, _ string", Res: "(r int, err error)", Named: true, Call: "v, _ := f%[1]s(1, \"\")"},
	{Name: "lit-named-result", Lit: true, Params: "_ int", Res: "(r int)", Named: true, Call: "v := f%[1]s(1)"},
}

var c06FrameKinds = []string{"str", "int", "err", "namedstr", "div", "nilmap", "index"}
var c06FrameModes = []string{"in", "mid", "top"}

type c06FrameProg struct {
	Inner, Mid string
	Mode, Kind string // set for the programs in which nothing recovers
	Src        string
	Cells      int
}

const c06FrameHead = `package main

import (
	"errors"
	"fmt"
)

type T struct{ id int }
type S string

var cur, mode string
var kind int
var one, zero = 1, 0

func raise() {
	switch kind {
	case 1:
		panic("s1")
	case 2:
		panic(42)
	case 3:
		panic(errors.New("e1"))
	case 4:
		panic(S("s2"))
	}
}

func cell(id, m string, k int, f func()) {
	cur, mode, kind = id, m, k
	defer func() {
		if r := recover(); r != nil {
			fmt.Printf("%s rec-top %T|%v\n", id, r, r)
		}
	}()
	f()
	fmt.Println(id, "end returned")
}
`

func c06FrameDecl(f c06FrameForm, role, body string) string {
	var b strings.Builder
	switch {
	case f.Lit:
		fmt.Fprintf(&b, "\nvar f%s = func(%s) %s {\n", role, f.Params, f.Res)
	case f.Recv != "":
		fmt.Fprintf(&b, "\nfunc %s m%s(%s) %s {\n", f.Recv, role, f.Params, f.Res)
	default:
		fmt.Fprintf(&b, "\nfunc f%s(%s) %s {\n", role, f.Params, f.Res)
	}
	fmt.Fprintf(&b, "\tdefer fmt.Println(cur, \"d-%s\")\n", role)
	fmt.Fprintf(&b, "\tdefer func() {\n\t\tif mode == %q {\n\t\t\tr := recover()\n\t\t\tfmt.Printf(\"%%s rec-%s %%T|%%v\\n\", cur, r, r)\n\t\t}\n\t}()\n", role, role)
	fmt.Fprintf(&b, "\tfmt.Println(cur, \"enter-%s\")\n", role)
	b.WriteString(body)
	fmt.Fprintf(&b, "\tfmt.Println(cur, \"leave-%s\", v)\n", role)
	if f.Named {
		b.WriteString("\tr = v + 1\n\treturn\n}\n")
	} else {
		b.WriteString("\treturn v + 1\n}\n")
	}
	return b.String()
}

const c06FrameInnerBody = `	v := 10
	raise()
	switch kind {
	case 5:
		v = one / zero
	case 6:
		var nm map[string]int
		nm["a"] = 1
	case 7:
		xs := []int{1, 2}
		v = xs[one+4]
	}
`

// c06FrameProgram renders the program of one (inner form, mid form); mode "" = the cells in which
// something recovers (kind x recovering frame), otherwise the single run (mode "none", kind).
func c06FrameProgram(in, mid c06FrameForm, none bool, kind int) c06FrameProg {
	var b strings.Builder
	b.WriteString(c06FrameHead)
	b.WriteString(c06FrameDecl(in, "in", c06FrameInnerBody))
	b.WriteString(c06FrameDecl(mid, "mid", "\t"+fmt.Sprintf(in.Call, "in")+"\n"))
	p := c06FrameProg{Inner: in.Name, Mid: mid.Name}
	callMid := strings.ReplaceAll(fmt.Sprintf(mid.Call, "mid"), "\n\t", "\n\t\t")
	b.WriteString("\nfunc main() {\n")
	if none {
		p.Mode, p.Kind, p.Cells = "none", c06FrameKinds[kind-1], 1
		fmt.Fprintf(&b, "\tcur, mode, kind = %q, \"none\", %d\n", "none-"+p.Kind, kind)
		fmt.Fprintf(&b, "\t%s\n\tfmt.Println(cur, \"ret\", v)\n", strings.ReplaceAll(callMid, "\n\t\t", "\n\t"))
	} else {
		for ki, k := range c06FrameKinds {
			for _, m := range c06FrameModes {
				p.Cells++
				fmt.Fprintf(&b, "\tcell(%q, %q, %d, func() {\n\t\t%s\n\t\tfmt.Println(cur, \"ret\", v)\n\t})\n", m+"-"+k, m, ki+1, callMid)
			}
		}
	}
	b.WriteString("}\n")
	p.Src = b.String()
	return p
}

// c06FramePrograms: every form as inner frame in a program with all recovering cells, and in two
// programs in which nothing recovers (one explicit value, one run-time fault, rotating); the mid
// frame is the form `off` places further (seed-dependent), so every form is also a pass-through frame.
func c06FramePrograms(seed uint64) []c06FrameProg {
	n := len(c06FrameForms)
	off := 1 + int(seed%uint64(n-1))
	var ps []c06FrameProg
	for i, f := range c06FrameForms {
		mid := c06FrameForms[(i+off)%n]
		ps = append(ps, c06FrameProgram(f, mid, false, 0))
		r := i + int(seed%7)
		ps = append(ps, c06FrameProgram(f, mid, true, 1+r%3)) // explicit value (not the named string type: the run-time prints it as S("s2"))
		ps = append(ps, c06FrameProgram(f, mid, true, 5+r%3)) // run-time fault
	}
	return ps
}

// c06FrameCanon: stdout with the recovered values canonicalised: a run-time fault is reduced to its
// class (the dynamic type of yaegi's fault values and the wording are not part of the property), an
// explicit value keeps its %v (its %T is printed but not compared, see below).
func c06FrameCanon(out string) []string {
	ls := strings.Split(strings.TrimSuffix(out, "\n"), "\n")
	for i, l := range ls {
		f := strings.SplitN(l, " ", 3)
		if len(f) != 3 || !strings.HasPrefix(f[1], "rec-") {
			continue
		}
		tv := strings.SplitN(f[2], "|", 2)
		if len(tv) != 2 {
			continue
		}
		if sh := c06Shown(tv[1]); strings.Contains(sh, "BFault") {
			ls[i] = f[0] + " " + f[1] + " fault:" + sh
		} else {
			// %T is not compared: recover() yields a reflect.Value in yaegi (finding C06-repanic-wrap)
			ls[i] = f[0] + " " + f[1] + " value:" + tv[1]
		}
	}
	return ls
}

// c06FrameDiff returns "" when implementation and reference agree, else the first difference.
func c06FrameDiff(impl, ref outcome) string {
	a, b := c06FrameCanon(impl.Stdout), c06FrameCanon(ref.Stdout)
	for k := 0; k < len(a) || k < len(b); k++ {
		x, y := "<missing>", "<missing>"
		if k < len(a) {
			x = a[k]
		}
		if k < len(b) {
			y = b[k]
		}
		if x != y {
			return fmt.Sprintf("stdout line %d: yaegi %q, compiled Go %q", k+1, x, y)
		}
	}
	if c06CanonEnd(impl.End) != c06CanonEnd(ref.End) {
		return fmt.Sprintf("program ends: yaegi %q, compiled Go %q", impl.End, ref.End)
	}
	return ""
}
