package main

import (
	"fmt"
	"strings"
)

// C01 redeclaration stream (part of the boundary stream, enumerated completely in EVERY run; values
// sampled by the seed): multi-value short variable declarations `a, b := <source>` where some left
// operands are new and some are REDECLARED (Go: "redeclaration does not introduce a new variable; it
// just assigns a new value to the original").
//
//   source kind          interpreted 2-value call, interpreted 3-value call, closure call, host (stdlib)
//                        2-value call, host 3-value call, map comma-ok, type-assertion comma-ok,
//                        channel-receive comma-ok
//   operand pattern      which left operands are new / redeclared (every non-empty proper subset
//                        redeclared), in the same scope or shadowing in an inner scope
//   captured before      not at all, by a pointer, by a reading closure, by a writing closure, by both
//   observation after    the variable itself, through the pointer / closure, and after a write through
//                        the pointer / closure
//
// One cell = one function; it prints what every alias sees before and after the redeclaration.

type rdSource struct {
	key   string
	decl  string   // package-level declarations the source needs
	pre   string   // statements before the := (in the cell)
	expr  string   // right-hand side
	types []string // types of the values
	// first values of the redeclared variables must have these types; initial value literals
	init []string
}

func rdSources(r *rng) []rdSource {
	a, b := 3+r.intn(20), 40+r.intn(20)
	return []rdSource{
		{key: "call2", decl: fmt.Sprintf("func rd2(x int) (int, string) { return x + %d, \"s\" }\n", a), expr: fmt.Sprintf("rd2(%d)", b), types: []string{"int", "string"}, init: []string{"1", `"i"`}},
		{key: "call3", decl: fmt.Sprintf("func rd3(x int) (int, string, bool) { return x * 2, \"t\", x > %d }\n", a), expr: fmt.Sprintf("rd3(%d)", b), types: []string{"int", "string", "bool"}, init: []string{"1", `"i"`, "false"}},
		{key: "closure2", pre: fmt.Sprintf("\tsrc := func() (int, string) { return %d, \"c\" }\n", a+b), expr: "src()", types: []string{"int", "string"}, init: []string{"1", `"i"`}},
		{key: "host2", expr: fmt.Sprintf("strconv.Atoi(\"%d\")", a*7), types: []string{"int", "error"}, init: []string{"1", `fmt.Errorf("e0")`}},
		{key: "host3", expr: fmt.Sprintf("strings.Cut(\"k%d=v%d\", \"=\")", a, b), types: []string{"string", "string", "bool"}, init: []string{`"i"`, `"j"`, "false"}},
		{key: "assertok", pre: fmt.Sprintf("\tvar boxed interface{} = %d\n", a+1), expr: "boxed.(int)", types: []string{"int", "bool"}, init: []string{"1", "false"}},
		{key: "recvok", pre: fmt.Sprintf("\tch := make(chan int, 1)\n\tch <- %d\n", b+1), expr: "<-ch", types: []string{"int", "bool"}, init: []string{"1", "false"}},
		{key: "mapok", pre: fmt.Sprintf("\tmsrc := map[string]int{\"k\": %d}\n", b+2), expr: `msrc["k"]`, types: []string{"int", "bool"}, init: []string{"1", "false"}},
	}
}

var rdCaptures = []string{"none", "ptr", "clread", "clwrite", "both"}

// rdBump: a statement changing a variable of type t (given as an lvalue expression).
func rdBump(lv, t string) string {
	switch t {
	case "int":
		return lv + " += 100"
	case "string":
		return lv + ` += "!"`
	case "bool":
		return lv + " = !" + lv
	}
	return lv + ` = fmt.Errorf("bumped")`
}

func rdCell(src rdSource, mask int, inner bool, capture string) (id, body string) {
	n := len(src.types)
	names := []string{"x", "y", "z"}[:n]
	id = fmt.Sprintf("rd_%s_m%d_%s", src.key, mask, capture)
	if inner {
		id += "_inner"
	}
	var b strings.Builder
	b.WriteString("func " + id + "() {\n")
	b.WriteString(src.pre)
	var watch []string // expressions printed at every observation point
	var bumps []string // writes through the aliases
	for i := 0; i < n; i++ {
		if mask&(1<<i) == 0 {
			continue // new operand
		}
		v, t := names[i], src.types[i]
		fmt.Fprintf(&b, "\tvar %s %s = %s\n", v, t, src.init[i])
		watch = append(watch, v)
		if capture == "ptr" || capture == "both" {
			fmt.Fprintf(&b, "\tp%s := &%s\n", v, v)
			watch = append(watch, "*p"+v)
			bumps = append(bumps, rdBump("*p"+v, t))
		}
		if capture == "clread" || capture == "both" {
			fmt.Fprintf(&b, "\tget%s := func() %s { return %s }\n", v, t, v)
			watch = append(watch, "get"+v+"()")
		}
		if capture == "clwrite" || capture == "both" {
			fmt.Fprintf(&b, "\tset%s := func() { %s }\n", v, rdBump(v, t))
			bumps = append(bumps, "set"+v+"()")
		}
	}
	show := "\tfmt.Println(" + strings.Join(watch, ", ") + ")\n"
	b.WriteString(show)
	ind := "\t"
	if inner {
		b.WriteString("\t{\n")
		ind = "\t\t"
	}
	fmt.Fprintf(&b, "%s%s := %s\n", ind, strings.Join(names, ", "), src.expr)
	fmt.Fprintf(&b, "%sfmt.Println(%s)\n", ind, strings.Join(names, ", "))
	if inner {
		// all operands are new variables of the inner scope: the outer ones and their aliases are untouched
		for i := 0; i < n; i++ {
			fmt.Fprintf(&b, "%s%s\n", ind, rdBump(names[i], src.types[i]))
		}
		b.WriteString("\t}\n")
	}
	b.WriteString(show)
	for _, s := range bumps {
		b.WriteString("\t" + s + "\n")
	}
	b.WriteString(show)
	// a second redeclaration of the same variables, now by plain assignment through the aliases' owner
	for i := 0; i < n; i++ {
		if mask&(1<<i) != 0 {
			b.WriteString("\t" + rdBump(names[i], src.types[i]) + "\n")
		}
	}
	b.WriteString(show)
	if !inner {
		var newOnes []string
		for i := 0; i < n; i++ {
			if mask&(1<<i) == 0 {
				newOnes = append(newOnes, names[i])
			}
		}
		b.WriteString("\tfmt.Println(" + strings.Join(newOnes, ", ") + ")\n")
	}
	b.WriteString("}\n")
	return id, b.String()
}

func rdProgram(decls map[string]bool, ids, bodies []string) string {
	var b strings.Builder
	b.WriteString("package main\n\nimport (\n\t\"fmt\"\n\t\"strconv\"\n\t\"strings\"\n)\n\nvar _ = strconv.Itoa\nvar _ = strings.ToUpper\n\n")
	for _, d := range sortedKeys(decls) {
		b.WriteString(d + "\n")
	}
	for _, body := range bodies {
		b.WriteString(body + "\n")
	}
	b.WriteString("func cell(name string, f func()) {\n\tdefer func() {\n\t\tif e := recover(); e != nil {\n\t\t\tfmt.Println(\"PANIC in\", name)\n\t\t}\n\t}()\n\tfmt.Println(\"#\", name)\n\tf()\n}\n\n")
	b.WriteString("func main() {\n")
	for _, id := range ids {
		b.WriteString("\tcell(\"" + id + "\", " + id + ")\n")
	}
	b.WriteString("}\n")
	return b.String()
}

// c1RedeclCases enumerates source kind x operand pattern x scope x capture; cells that go/types
// rejects or that lie in a known-defect region are left out and counted.
func c1RedeclCases(r *rng, count func(string)) []*c1case {
	type cellT struct {
		id, body, decl string
	}
	var cells []cellT
	for _, src := range rdSources(r) {
		n := len(src.types)
		for mask := 1; mask < (1<<n)-1; mask++ { // at least one redeclared, at least one new
			for _, capture := range rdCaptures {
				for _, inner := range []bool{false, true} {
					id, body := rdCell(src, mask, inner, capture)
					one := rdProgram(map[string]bool{src.decl: true}, []string{id}, []string{body})
					if err := c1Validate(one); err != nil {
						count("redecl-cell-invalid")
						continue
					}
					// the map comma-ok cells use a key that is present: outside what region map-ok-miss is about
					if reg := c1ClassifyRegion(one); reg != "" && !(reg == "map-ok-miss" && src.key == "mapok") {
						count("redecl-cell-in-region:" + reg)
						continue
					}
					count("redecl-cell")
					cells = append(cells, cellT{id, body, src.decl})
				}
			}
		}
	}
	var out []*c1case
	const per = 25
	for i := 0; i < len(cells); i += per {
		j := i + per
		if j > len(cells) {
			j = len(cells)
		}
		decls := map[string]bool{}
		var ids, bodies []string
		for _, c := range cells[i:j] {
			decls[c.decl] = true
			ids = append(ids, c.id)
			bodies = append(bodies, c.body)
		}
		out = append(out, &c1case{Stream: "boundary", Src: rdProgram(decls, ids, bodies), Feat: map[string]int{"redecl-cell": j - i}, Size: (j - i) * 12})
	}
	return out
}
