package main

import (
	"fmt"
	"strings"
)

// C01 generator, part 2: statements, functions, whole programs.

func ind(lines []string) []string {
	out := make([]string, len(lines))
	for i, l := range lines {
		out[i] = "\t" + l
	}
	return out
}

func (g *c1gen) canPrint() bool { return g.fc != nil && g.fc.eff }

// ectx picks the expression context of one statement: effectful calls allowed (then no shared reads), or not.
func (g *c1gen) ectx(depth int) c1ectx {
	if g.fc != nil && g.fc.eff && g.r.chance(30) {
		return c1ectx{noShared: true, eff: true, depth: depth}
	}
	return c1ectx{depth: depth}
}

func (g *c1gen) pure(depth int) c1ectx { return c1ectx{depth: depth} }

// block generates n statements in a fresh scope and closes it with uses of its variables.
func (g *c1gen) block(n, depth int) []string {
	save := g.inCase
	g.inCase = g.nextIsCase
	g.nextIsCase = false
	defer func() { g.inCase = save }()
	g.push()
	var out []string
	for i := 0; i < n; i++ {
		out = append(out, g.stmt(depth)...)
	}
	out = append(out, g.closeScope()...)
	g.pop()
	return out
}

// closeScope emits a use for every variable declared in the current scope.
func (g *c1gen) closeScope() []string {
	var out []string
	var pr []string
	for _, v := range g.sc.vars {
		if v.t.printabl && g.canPrint() && g.r.chance(60) && !strings.HasPrefix(v.name, "_") {
			pr = append(pr, v.name)
		} else {
			out = append(out, "_ = "+v.name)
		}
	}
	if len(pr) > 0 {
		out = append(out, "fmt.Println("+strings.Join(pr, ", ")+")")
	}
	return out
}

func (g *c1gen) printStmt() []string {
	if !g.canPrint() {
		return nil
	}
	n := 1 + g.r.intn(3)
	var as []string
	for i := 0; i < n; i++ {
		var vs []*c1var
		for _, v := range g.visible() {
			if v.t.printabl && g.readable(v, c1ectx{}) {
				vs = append(vs, v)
			}
		}
		if len(vs) == 0 {
			break
		}
		k := g.r.intn(len(vs))
		if j := g.r.intn(len(vs)); j < k {
			k = j
		}
		as = append(as, vs[k].name)
	}
	if g.r.chance(30) {
		e, _ := g.expr(g.randBasic(), g.pure(2))
		as = append(as, e)
	}
	if len(as) == 0 {
		return nil
	}
	g.f("print")
	if g.r.chance(20) {
		return []string{`fmt.Printf("` + strings.Repeat("%v|", len(as)) + `\n", ` + strings.Join(as, ", ") + ")"}
	}
	return []string{"fmt.Println(" + strings.Join(as, ", ") + ")"}
}

// lvalue: an assignable location of type t. plainOnly: a variable name. refsOK: may go through slices/maps/pointers.
func (g *c1gen) lvalue(t *c1typ, c c1ectx, plainOnly bool) (string, bool) {
	refsOK := g.fc != nil && g.fc.eff
	if plainOnly || g.r.chance(55) {
		if v := g.pickVar(t, c1ectx{}, g.writable); v != nil {
			return v.name, true
		}
		if plainOnly {
			return "", false
		}
	}
	vs := g.visible()
	start := g.r.intn(len(vs) + 1)
	for i := 0; i < len(vs); i++ {
		v := vs[(start+i)%len(vs)]
		if v.fn != nil || v.t == t || v.t.k == c1String {
			continue
		}
		isRef := v.t.k == c1Slice || v.t.k == c1Map || v.t.k == c1Ptr
		if isRef {
			// the variable itself is only read; the write goes through it
			if !refsOK || !g.readable(v, c) || v.noCapture && v.fdepth != g.fdepth {
				continue
			}
			if (v.fdepth != g.fdepth || g.isGlobal(v)) && !v.shared {
				continue
			}
		} else if !g.writable(v) {
			continue
		}
		pc := c
		if !refsOK {
			pc.noShared = true // blocks paths through references (pathTo)
		}
		if p, ok := g.pathTo(v.name, v.t, v.minLen, t, pc, 2, true); ok {
			return p, true
		}
	}
	if v := g.pickVar(t, c1ectx{}, g.writable); v != nil {
		return v.name, true
	}
	return "", false
}

func (g *c1gen) declStmt() []string {
	t := g.randType()
	if g.r.chance(25) {
		t = g.T("int")
	}
	c := g.ectx(2)
	name := g.newName("v")
	var line string
	zeroOK := t.k <= c1Bool || t == g.structs[0] || (t.k == c1Array && (t.elem.k <= c1Bool || t.elem == g.structs[0]))
	switch {
	case zeroOK && g.r.chance(12):
		line = "var " + name + " " + t.name
	case g.r.chance(12):
		e, _ := g.expr(t, c)
		line = "var " + name + " " + t.name + " = " + e
	case t.k == c1Slice && g.r.chance(20):
		line = name + " := make(" + t.name + ", " + fmt.Sprint(3+g.r.intn(3)) + ")"
	case t.k == c1Map && g.r.chance(20):
		line = name + " := make(" + t.name + ")"
	case t.k == c1Ptr && t.elem.k == c1Int && g.r.chance(70):
		if x := g.pickVar(t.elem, c1ectx{}, g.addressable); x != nil {
			x.shared = true
			line = name + " := &" + x.name
		}
	}
	if line == "" {
		e, k := g.expr(t, c)
		if k && t.k == c1Int && t.name != "int" {
			// untyped constants default to int: state the type
			line = name + " := " + t.name + "(" + e + ")"
		} else {
			line = name + " := " + e
		}
	}
	v := g.declare(&c1var{name: name, t: t})
	if g.fc != nil && g.fc.eff && t.k <= c1Bool && g.r.chance(20) {
		v.shared = true
	}
	g.f("decl")
	return []string{line}
}

func (g *c1gen) assignStmt() []string {
	t := g.randType()
	if g.r.chance(45) {
		t = g.T("int")
	}
	c := g.ectx(2)
	lv, ok := g.lvalue(t, c, false)
	if !ok {
		return g.declStmt()
	}
	e, _ := g.expr(t, c)
	g.f("assign")
	if strings.ContainsAny(lv, ".[*") {
		g.f("assign-path")
	}
	isGlobalLv := false
	for _, gv := range g.globals {
		isGlobalLv = isGlobalLv || gv.name == lv
	}
	if isGlobalLv && strings.Contains(e, "(") {
		// `g = f(...)`: the named result of f would alias the global g during the call (region named-result-alias)
		tmp := g.newName("v")
		g.declare(&c1var{name: tmp, t: t})
		return []string{tmp + " := " + e, lv + " = " + tmp}
	}
	if t.k == c1Struct && strings.HasPrefix(e, t.name+"{") && !strings.ContainsAny(lv, ".[*") {
		// a struct literal assigned to a variable inside a function literal is lost when the variable is captured
		// (region closure-struct-lit): go through a temporary
		tmp := g.newName("v")
		g.declare(&c1var{name: tmp, t: t})
		return []string{tmp + " := " + e, lv + " = " + tmp}
	}
	return []string{lv + " = " + e}
}

func (g *c1gen) opAssignStmt() []string {
	t := g.randBasic()
	if t.k == c1Bool {
		t = g.T("int")
	}
	c := g.pure(2)
	lv, ok := g.lvalue(t, c, false)
	if !ok {
		return g.declStmt()
	}
	g.f("opassign")
	if strings.ContainsAny(lv, ".[*") {
		g.f("opassign-path")
	}
	switch t.k {
	case c1String:
		return []string{lv + " += " + g.boundedStr(c)}
	case c1Float:
		e, _ := g.expr(t, c)
		return []string{lv + " " + g.r.pick([]string{"+=", "-=", "*=", "/="}) + " " + e}
	}
	if g.r.chance(25) {
		g.f("incdec")
		return []string{lv + g.r.pick([]string{"++", "--"})}
	}
	switch g.r.intn(8) {
	case 0:
		return []string{lv + " " + g.r.pick([]string{"/=", "%="}) + " " + fmt.Sprint(1+g.r.intn(6))}
	case 1:
		e, _ := g.nonConst(t, c)
		return []string{lv + " " + g.r.pick([]string{"/=", "%="}) + " (" + g.paren(e) + " | 1)"}
	case 2:
		return []string{lv + " " + g.r.pick([]string{"<<=", ">>="}) + " " + fmt.Sprint(g.r.intn(t.bits))}
	default:
		e, _ := g.expr(t, c)
		return []string{lv + " " + g.r.pick([]string{"+=", "-=", "*=", "&=", "|=", "^=", "&^=", "+="}) + " " + e}
	}
}

func (g *c1gen) multiAssignStmt() []string {
	_ = 0
	switch g.r.intn(4) {
	case 0:
		// tuple call
		for _, f := range g.funcs {
			if len(f.results) == 2 && (g.fc.eff || !f.eff) && g.cost+g.mult*f.cost <= g.maxCost && g.r.chance(60) {
				cc := c1ectx{noShared: f.eff, eff: f.eff, depth: 1}
				g.cost += g.mult * f.cost
				g.f("tuple-call")
				a, aok := g.lvalue(f.results[0], cc, true)
				b, bok := g.lvalue(f.results[1], cc, true)
				if aok && bok && a != b && g.r.bool() {
					return []string{a + ", " + b + " = " + f.name + "(" + g.args(f, cc) + ")"}
				}
				n1, n2 := g.newName("v"), g.newName("v")
				// redeclaration: one operand of := is a variable of the SAME scope (possibly captured by a
				// closure or a pointer before): it is assigned, not created anew
				re1, re2 := false, false
				if g.r.chance(45) {
					for _, v := range g.sc.vars {
						if g.writable(v) && v.fdepth == g.fdepth && !v.noShadow && g.r.bool() {
							if v.t == f.results[1] {
								n2, re2 = v.name, true
								break
							}
							if v.t == f.results[0] {
								n1, re1 = v.name, true
								break
							}
						}
					}
				}
				line := n1 + ", " + n2 + " := " + f.name + "(" + g.args(f, cc) + ")"
				if !re1 {
					g.declare(&c1var{name: n1, t: f.results[0]})
				}
				if !re2 {
					g.declare(&c1var{name: n2, t: f.results[1]})
				}
				if re1 || re2 {
					g.f("redeclare")
				}
				return []string{line}
			}
		}
	case 99: // kept out: `v, ok := m[k]` does not zero v when the key is missing (region map-ok-miss)
		for _, v := range g.visible() {
			if v.t.k == c1Map && g.readable(v, c1ectx{}) && g.r.chance(60) {
				n1, n2 := g.newName("v"), g.newName("ok")
				var k string
				if v.t.key.k == c1String {
					k = fmt.Sprintf("%q", string(rune('a'+g.r.intn(3)))+string(rune('k'+g.r.intn(5))))
				} else {
					k = fmt.Sprint(g.r.intn(9))
				}
				line := n1 + ", " + n2 + " := " + v.name + "[" + k + "]"
				g.declare(&c1var{name: n1, t: v.t.elem})
				g.declare(&c1var{name: n2, t: g.T("bool")})
				g.f("map-ok")
				return []string{line}
			}
		}
	}
	// parallel assignment over locations of any shape (variable, field, element, pointee, ...) and any
	// value category (scalars, structs, arrays, slices): swaps and rotations, sources overlap destinations
	if g.r.chance(50) {
		t := g.randType()
		if t.k == c1Ptr || t.k == c1Map || t.k == c1Func {
			t = g.structs[0]
		}
		pc := g.pure(1)
		var ls []string
		seen := map[string]bool{}
		for try := 0; try < 8 && len(ls) < 3; try++ {
			lv, ok := g.lvalue(t, pc, false)
			// distinct texts only; index expressions may still denote the same element, which is fine
			if ok && !seen[lv] && !strings.Contains(lv, "(") {
				seen[lv] = true
				ls = append(ls, lv)
			}
		}
		if len(ls) >= 2 {
			n := len(ls)
			if n == 3 && g.r.bool() {
				n = 2
			}
			ls = ls[:n]
			var rs []string
			for i := 0; i < n; i++ {
				rs = append(rs, ls[(i+1)%n])
			}
			g.f("multi-assign-shapes")
			if t.k == c1Struct || t.k == c1Array {
				g.f("multi-assign-aggregate")
			}
			return []string{strings.Join(ls, ", ") + " = " + strings.Join(rs, ", ")}
		}
	}
	t := g.randBasic()
	pc := g.pure(1)
	vs := g.varsOf(t, pc, g.writable)
	if len(vs) >= 2 {
		n := 2
		if len(vs) >= 3 && g.r.bool() {
			n = 3
		}
		off := g.r.intn(len(vs))
		var ls, rs []string
		for i := 0; i < n; i++ {
			ls = append(ls, vs[(off+i)%len(vs)].name)
		}
		if g.r.bool() {
			// rotation
			for i := 0; i < n; i++ {
				rs = append(rs, ls[(i+1)%n])
			}
		} else {
			for i := 0; i < n; i++ {
				rs = append(rs, g.simpleExpr(t, vs))
			}
		}
		g.f("multi-assign")
		return []string{strings.Join(ls, ", ") + " = " + strings.Join(rs, ", ")}
	}
	return g.assignStmt()
}

// simpleExpr: variables, literals and one operator; no call, conversion or composite literal.
func (g *c1gen) simpleExpr(t *c1typ, vs []*c1var) string {
	a := vs[g.r.intn(len(vs))].name
	switch g.r.intn(3) {
	case 0:
		return a
	case 1:
		return g.literal(t, c1ectx{})
	}
	b := vs[g.r.intn(len(vs))].name
	if g.r.bool() {
		b = g.literal(t, c1ectx{})
	}
	switch t.k {
	case c1Int:
		return a + " " + g.r.pick([]string{"+", "-", "*", "&", "|", "^"}) + " " + g.paren(b)
	case c1Float:
		return a + " " + g.r.pick([]string{"+", "-", "*"}) + " " + g.paren(b)
	case c1String:
		// one side is a literal: no exponential growth of strings through repeated assignments
		return a + " + " + g.r.pick(c1StrLits)
	}
	return g.r.pick([]string{"!", ""}) + a
}

func (g *c1gen) cond(c c1ectx) string {
	e, k := g.boolExpr(c)
	if k && g.r.chance(70) { // constant conditions are exercised, but rarely
		e, _ = g.nonConst(g.T("bool"), c)
	}
	return e
}

func (g *c1gen) ifStmt(depth int) []string {
	c := g.ectx(2)
	var out []string
	g.push() // scope of the init statement
	hdr := "if "
	cnd := g.cond(c)
	if g.r.chance(35) {
		n := g.newName("v")
		e, _ := g.expr(g.T("int"), c)
		hdr += n + " := " + e + "; "
		g.declare(&c1var{name: n, t: g.T("int")})
		cnd = fmt.Sprintf("%s%%%d == 0 %s %s", n, 2+g.r.intn(2), g.r.pick([]string{"||", "&&"}), g.paren(cnd))
		g.f("if-init")
	}
	hdr += cnd + " {"
	out = append(out, hdr)
	out = append(out, ind(g.block(1+g.r.intn(3), depth-1))...)
	switch g.r.intn(4) {
	case 0, 1:
		out = append(out, "}")
		g.f("if")
	case 2:
		out = append(out, "} else {")
		out = append(out, ind(g.block(1+g.r.intn(3), depth-1))...)
		out = append(out, "}")
		g.f("if-else")
	default:
		out = append(out, "} else if "+g.cond(g.pure(2))+" {")
		out = append(out, ind(g.block(1+g.r.intn(2), depth-1))...)
		if g.r.bool() {
			out = append(out, "} else {")
			out = append(out, ind(g.block(1+g.r.intn(2), depth-1))...)
		}
		out = append(out, "}")
		g.f("if-elseif")
	}
	g.pop()
	return out
}

// loopBody generates the body of a loop that iterates about n times.
func (g *c1gen) loopBody(n, depth int, lp *c1loop, pre []string) []string {
	save := g.mult
	saveCase := g.inCase
	g.inCase = false
	defer func() { g.inCase = saveCase }()
	g.mult *= n
	g.loops = append(g.loops, lp)
	g.push()
	out := append([]string{}, pre...)
	k := 1 + g.r.intn(4)
	for i := 0; i < k; i++ {
		out = append(out, g.stmt(depth-1)...)
	}
	out = append(out, g.closeScope()...)
	g.pop()
	g.loops = g.loops[:len(g.loops)-1]
	g.mult = save
	return out
}

func (g *c1gen) newLabel() string {
	g.labelCtr++
	return fmt.Sprintf("L%d", g.labelCtr)
}

func (g *c1gen) iters() int {
	n := 2 + g.r.intn(4)
	for n > 1 && g.mult*n > 150 {
		n--
	}
	return n
}

func (g *c1gen) forStmt(depth int) []string {
	n := g.iters()
	lp := &c1loop{label: g.newLabel(), isLoop: true, canCont: true, noLabel: g.inCase}
	var pre, hdr, out []string
	g.push()
	form := g.r.intn(10)
	switch form {
	case 0, 1, 2, 3: // forStmt7: for i := a; i < b; i++  (loop variable read-only in the body: see region loopvar-assign)
		i := g.newName("i")
		lo := g.r.intn(3)
		step := g.r.pick([]string{i + "++", i + "++", i + " += 2", i + " = " + i + " + 1"})
		cmp := fmt.Sprintf("%s < %d", i, lo+n)
		if g.r.chance(25) {
			// count down
			step = i + "--"
			cmp = fmt.Sprintf("%s > %d", i, lo)
			hdr = []string{fmt.Sprintf("for %s := %d; %s; %s {", i, lo+n, cmp, step)}
		} else {
			hdr = []string{fmt.Sprintf("for %s := %d; %s; %s {", i, lo, cmp, step)}
		}
		g.declare(&c1var{name: i, t: g.T("int"), ro: true})
		g.f("for7")
	case 4: // forStmt2: for cond {}
		cn := g.newName("c")
		pre = nil
		out = append(out, cn+" := 0")
		g.declare(&c1var{name: cn, t: g.T("int"), ro: true})
		hdr = []string{fmt.Sprintf("for %s < %d {", cn, n)}
		pre = []string{cn + "++"}
		g.f("for2")
	case 5: // forStmt0: for {}
		cn := g.newName("c")
		out = append(out, cn+" := 0")
		g.declare(&c1var{name: cn, t: g.T("int"), ro: true})
		hdr = []string{"for {"}
		pre = []string{cn + "++", fmt.Sprintf("if %s > %d {", cn, n), "\tbreak", "}"}
		g.f("for0")
	case 6: // forStmt3: for init; cond; {}
		cn := g.newName("c")
		hdr = []string{fmt.Sprintf("for %s := 0; %s < %d; {", cn, cn, n)}
		g.declare(&c1var{name: cn, t: g.T("int"), ro: true, noCapture: true})
		pre = []string{cn + "++"}
		g.f("for3")
	case 7: // forStmt5: for ; cond; post {}
		cn := g.newName("c")
		out = append(out, cn+" := 0")
		g.declare(&c1var{name: cn, t: g.T("int"), ro: true})
		hdr = []string{fmt.Sprintf("for ; %s < %d; %s++ {", cn, n, cn)}
		g.f("for5")
	case 8: // forStmt6 / forStmt1 / forStmt4: no condition
		cn := g.newName("c")
		switch g.r.intn(2) * 2 { // `for init; ; {}` re-executes init in yaegi (region for-init-only): kept out
		case 0:
			hdr = []string{fmt.Sprintf("for %s := 0; ; %s++ {", cn, cn)}
			g.declare(&c1var{name: cn, t: g.T("int"), ro: true, noCapture: true})
			pre = []string{fmt.Sprintf("if %s >= %d {", cn, n), "\tbreak", "}"}
			g.f("for6")
		case 1:
			hdr = []string{fmt.Sprintf("for %s := 0; ; {", cn)}
			g.declare(&c1var{name: cn, t: g.T("int"), ro: true, noCapture: true})
			pre = []string{cn + "++", fmt.Sprintf("if %s > %d {", cn, n), "\tbreak", "}"}
			g.f("for1")
		default:
			out = append(out, cn+" := 0")
			g.declare(&c1var{name: cn, t: g.T("int"), ro: true})
			hdr = []string{fmt.Sprintf("for ; ; %s++ {", cn)}
			pre = []string{fmt.Sprintf("if %s >= %d {", cn, n), "\tbreak", "}"}
			g.f("for4")
		}
	default: // forStmt7 with two variables; the second is shared by all iterations in yaegi (region loopvar-second): no capture
		i, j := g.newName("i"), g.newName("j")
		hdr = []string{fmt.Sprintf("for %s, %s := 0, %d; %s < %d; %s, %s = %s+1, %s-1 {", i, j, 10+g.r.intn(5), i, n, i, j, i, j)}
		g.declare(&c1var{name: i, t: g.T("int"), ro: true, noCapture: true})
		g.declare(&c1var{name: j, t: g.T("int"), ro: true, noCapture: true})
		g.f("for7-two")
	}
	body := g.loopBody(n, depth, lp, pre)
	g.pop()
	if lp.labelUsed {
		out = append(out, lp.label+":")
		g.f("labelled-loop")
	}
	out = append(out, hdr...)
	out = append(out, ind(body)...)
	out = append(out, "}")
	return out
}

// rangeLocStmt: range over a slice or array reached through a field / element / pointee, with a body
// that changes the ranged location (bounded append, element write ahead of the cursor, re-assignment).
func (g *c1gen) rangeLocStmt(depth int) []string {
	if g.fc == nil || !g.fc.eff || g.mult*8 > 200 {
		return nil
	}
	it := g.T("int")
	var cands []*c1typ
	cands = append(cands, g.sliceOf(it), g.arrayOf(it, 3), g.arrayOf(it, 4))
	t := cands[g.r.intn(len(cands))]
	pc := g.pure(1)
	loc := ""
	vs := g.visible()
	start := g.r.intn(len(vs) + 1)
	for i := 0; i < len(vs) && loc == ""; i++ {
		v := vs[(start+i)%len(vs)]
		if v.fn != nil || v.t == t || !g.writable(v) && !(v.t.k == c1Slice || v.t.k == c1Ptr || v.t.k == c1Map) {
			continue
		}
		if (v.t.k == c1Slice || v.t.k == c1Ptr || v.t.k == c1Map) && (!g.readable(v, pc) || (v.fdepth != g.fdepth || g.isGlobal(v)) && !v.shared) {
			continue
		}
		if p, ok := g.pathTo(v.name, v.t, v.minLen, t, pc, 2, true); ok && !strings.Contains(p, "(") {
			loc = p
		}
	}
	if loc == "" {
		return nil
	}
	k, e := g.newName("k"), g.newName("e")
	n := 8
	if t.k == c1Array {
		n = t.n
	}
	g.push()
	g.declare(&c1var{name: k, t: it})
	g.declare(&c1var{name: e, t: it})
	var pre []string
	switch g.r.intn(3) {
	case 0:
		if t.k == c1Slice {
			pre = append(pre, "if len("+loc+") < 8 {", "\t"+loc+" = append("+loc+", "+e+"+"+fmt.Sprint(1+g.r.intn(9))+")", "}")
		} else {
			pre = append(pre, loc+"["+fmt.Sprintf("uint(%s+1)%%%d", k, t.n)+"] += "+e)
		}
	case 1:
		m := 3
		if t.k == c1Array {
			m = t.n
		}
		pre = append(pre, loc+"["+fmt.Sprintf("uint(%s+1)%%%d", k, m)+"] += 100")
	default:
		if other := g.pickVar(t, pc, nil); other != nil {
			pre = append(pre, loc+" = "+other.name)
		} else {
			pre = append(pre, loc+"["+fmt.Sprintf("uint(%s+1)%%3", k)+"] -= 7")
		}
	}
	if g.canPrint() {
		pre = append(pre, "fmt.Println("+k+", "+e+")")
	}
	lp := &c1loop{label: g.newLabel(), isLoop: true, canCont: true, noLabel: true}
	body := g.loopBody(n, depth, lp, pre)
	g.pop()
	g.f("range-loc-mutated")
	out := []string{"for " + k + ", " + e + " := range " + loc + " {"}
	out = append(out, ind(body)...)
	out = append(out, "}")
	if g.canPrint() {
		out = append(out, "fmt.Println("+loc+")")
	}
	return out
}

func (g *c1gen) rangeStmt(depth int) []string {
	if g.r.chance(35) {
		if out := g.rangeLocStmt(depth); out != nil {
			return out
		}
	}
	lp := &c1loop{label: g.newLabel(), isLoop: true, canCont: true, noLabel: g.inCase}
	var out []string
	var hdr string
	n := 3
	g.push()
	k, v := g.newName("k"), g.newName("e")
	form := g.r.intn(7)
	pick := func(kind c1kind) *c1var {
		for _, x := range g.visible() {
			if x.t.k == kind && x.fn == nil && g.readable(x, c1ectx{}) && g.r.chance(60) {
				return x
			}
		}
		return nil
	}
	switch form {
	case 0: // range over int
		n = g.iters()
		hdr = fmt.Sprintf("for %s := range %d {", k, n)
		g.declare(&c1var{name: k, t: g.T("int")})
		g.f("range-int")
	case 1, 2: // slice
		x := pick(c1Slice)
		if x == nil || g.mult*5 > 200 {
			g.pop()
			return g.forStmt(depth)
		}
		n = 5
		switch g.r.intn(3) {
		case 0:
			hdr = fmt.Sprintf("for %s, %s := range %s {", k, v, x.name)
			g.declare(&c1var{name: k, t: g.T("int")})
			g.declare(&c1var{name: v, t: x.t.elem})
		case 1:
			hdr = fmt.Sprintf("for _, %s := range %s[1:3] {", v, x.name)
			g.declare(&c1var{name: v, t: x.t.elem})
			n = 2
		default:
			hdr = fmt.Sprintf("for %s := range %s {", k, x.name)
			g.declare(&c1var{name: k, t: g.T("int")})
		}
		g.f("range-slice")
	case 3: // array
		x := pick(c1Array)
		if x == nil {
			g.pop()
			return g.forStmt(depth)
		}
		n = x.t.n
		hdr = fmt.Sprintf("for %s, %s := range %s {", k, v, x.name)
		g.declare(&c1var{name: k, t: g.T("int")})
		g.declare(&c1var{name: v, t: x.t.elem})
		g.f("range-array")
	case 4: // string
		x := pick(c1String)
		src := `"aé9"`
		if x != nil {
			src = x.name
		}
		n = 4
		hdr = fmt.Sprintf("for %s, %s := range %s {", k, v, src)
		g.declare(&c1var{name: k, t: g.T("int")})
		g.declare(&c1var{name: v, t: g.T("int32")})
		g.f("range-string")
	default: // map through its sorted keys
		x := pick(c1Map)
		if x == nil {
			g.pop()
			return g.forStmt(depth)
		}
		ks := g.newName("ks")
		out = append(out, fmt.Sprintf("%s := make([]%s, 0)", ks, x.t.key.name))
		out = append(out, fmt.Sprintf("for %s := range %s {", k, x.name), fmt.Sprintf("\t%s = append(%s, %s)", ks, ks, k), "}")
		if x.t.key.k == c1String {
			out = append(out, "sort.Strings("+ks+")")
		} else {
			out = append(out, "sort.Ints("+ks+")")
		}
		g.usesSort = true
		n = 4
		hdr = fmt.Sprintf("for _, %s := range %s {", k, ks)
		g.declare(&c1var{name: k, t: x.t.key})
		if g.canPrint() {
			hdr += "\n\tfmt.Println(" + k + ", " + x.name + "[" + k + "])"
		}
		g.f("range-map-sorted")
	}
	var uses []string
	for _, rv := range g.sc.vars {
		uses = append(uses, "_ = "+rv.name)
	}
	body := g.loopBody(n, depth, lp, uses)
	g.pop()
	if lp.labelUsed {
		out = append(out, lp.label+":")
		g.f("labelled-loop")
	}
	out = append(out, strings.Split(hdr, "\n")[0])
	if i := strings.Index(hdr, "\n"); i >= 0 {
		out = append(out, hdr[i+1:])
	}
	out = append(out, ind(body)...)
	out = append(out, "}")
	return out
}

func (g *c1gen) switchStmt(depth int) []string {
	lp := &c1loop{label: g.newLabel(), isLoop: false, noLabel: g.inCase}
	g.loops = append(g.loops, lp)
	g.push()
	var out []string
	c := g.ectx(2)
	hdr := "switch "
	initVar := ""
	if g.r.chance(25) {
		n := g.newName("v")
		e, _ := g.expr(g.T("int"), c)
		hdr += n + " := " + e + "; "
		g.declare(&c1var{name: n, t: g.T("int")})
		initVar = n
		g.f("switch-init")
	}
	tagged := g.r.chance(65) || initVar != ""
	var tt *c1typ
	if tagged {
		tt = g.T("int")
		if g.r.chance(25) && initVar == "" {
			tt = g.T("string")
		}
		e, _ := g.nonConst(tt, c)
		if initVar != "" {
			// with an init statement the tag stays a plain identifier (region switch-init-tag)
			e = initVar
		} else if tt.k == c1Int {
			e = "uint(" + e + ") % 6"
		}
		hdr += e + " {"
		g.f("switch-tag")
	} else {
		hdr += "{"
		g.f("switch-notag")
	}
	out = append(out, hdr)
	nc := 2 + g.r.intn(3)
	defPos := -1
	if g.r.chance(70) {
		defPos = nc // yaegi moves a default clause to the end by swapping it with the last clause (region switch-default-order)
	}
	used := 0
	for i := 0; i <= nc; i++ {
		if i == defPos {
			out = append(out, "default:")
		} else if i == nc {
			break
		} else if tagged {
			if tt.k == c1Int {
				vals := []string{fmt.Sprint(used)}
				used++
				if g.r.chance(30) {
					vals = append(vals, fmt.Sprint(used))
					used++
				}
				out = append(out, "case "+strings.Join(vals, ", ")+":")
			} else {
				out = append(out, "case "+c1StrLits[used%len(c1StrLits)]+":")
				used++
			}
		} else {
			out = append(out, "case "+g.cond(g.pure(2))+":")
		}
		g.nextIsCase = true
		body := g.block(1+g.r.intn(2), depth-1)
		out = append(out, ind(body)...)
		last := i == nc || (i == nc-1 && defPos != nc)
		if !last && g.r.chance(20) {
			out = append(out, "\tfallthrough")
			g.f("fallthrough")
		}
	}
	out = append(out, "}")
	g.pop()
	g.loops = g.loops[:len(g.loops)-1]
	if lp.labelUsed {
		out = append([]string{lp.label + ":"}, out...)
	}
	return out
}

// jumpStmt: break / continue, labelled or not, guarded by a condition.
func (g *c1gen) jumpStmt() []string {
	if len(g.loops) == 0 {
		return nil
	}
	inner := g.loops[len(g.loops)-1]
	var target *c1loop
	kind := "break"
	if g.r.bool() {
		kind = "continue"
	}
	labelled := g.r.chance(40)
	if labelled {
		target = g.loops[g.r.intn(len(g.loops))]
	} else {
		target = inner
	}
	if kind == "continue" {
		// continue applies to loops only
		if !target.isLoop || !labelled {
			target = nil
			for i := len(g.loops) - 1; i >= 0; i-- {
				if g.loops[i].isLoop {
					target = g.loops[i]
					break
				}
			}
			if target == nil {
				return nil
			}
			if labelled && g.r.bool() {
				// any enclosing loop
				var ls []*c1loop
				for _, l := range g.loops {
					if l.isLoop {
						ls = append(ls, l)
					}
				}
				target = ls[g.r.intn(len(ls))]
			}
		}
	}
	if labelled && target.noLabel {
		return nil
	}
	stmt := kind
	if labelled {
		stmt += " " + target.label
		target.labelUsed = true
		g.f("labelled-" + kind)
	} else {
		g.f(kind)
	}
	return []string{"if " + g.cond(g.pure(1)) + " {", "\t" + stmt, "}"}
}

func (g *c1gen) gotoStmt(depth int) []string {
	if g.inCase {
		return nil // yaegi does not find labels declared directly in a case clause (region label-in-case)
	}
	l := g.newLabel()
	cn := g.newName("gc")
	if g.r.bool() {
		// backward: a loop made of goto
		out := []string{cn + " := 0"}
		g.declare(&c1var{name: cn, t: g.T("int"), ro: true})
		out = append(out, l+":")
		save := g.mult
		g.mult *= 3
		saveLoops := g.loops
		g.loops = nil // a jump out of the goto body into enclosing loops stays legal, but keep it simple
		out = append(out, "{")
		out = append(out, ind(g.block(1+g.r.intn(2), depth-1))...)
		out = append(out, "}")
		g.loops = saveLoops
		g.mult = save
		out = append(out, fmt.Sprintf("if %s < %d {", cn, 1+g.r.intn(2)), "\t"+cn+"++", "\tgoto "+l, "}")
		g.f("goto-back")
		return out
	}
	out := []string{"if " + g.cond(g.pure(1)) + " {", "\tgoto " + l, "}", "{"}
	saveLoops := g.loops
	g.loops = nil
	out = append(out, ind(g.block(1+g.r.intn(2), depth-1))...)
	g.loops = saveLoops
	out = append(out, "}", l+":")
	if p := g.printStmt(); p != nil {
		out = append(out, p...)
	} else {
		out = append(out, "{", "}")
	}
	g.f("goto-fwd")
	return out
}

// closureStmt declares a function literal and calls it.
func (g *c1gen) closureStmt(depth int) []string {
	name := g.newName("cl")
	np := g.r.intn(3)
	var ps []*c1typ
	for i := 0; i < np; i++ {
		ps = append(ps, g.randBasic())
	}
	rt := g.randBasic()
	eff := g.fc.eff && g.r.chance(50)
	fn := &c1fn{name: name, params: ps, results: []*c1typ{rt}, eff: eff}
	lines, cost := g.funcBody(fn, nil, true)
	fn.cost = cost
	var sig []string
	for i, p := range ps {
		sig = append(sig, fmt.Sprintf("p%d %s", i, p.name))
	}
	out := []string{name + " := func(" + strings.Join(sig, ", ") + ") " + rt.name + " {"}
	out = append(out, ind(lines)...)
	out = append(out, "}")
	g.declare(&c1var{name: name, t: g.funcOf(ps, fn.results), ro: true, fn: fn})
	g.f("closure")
	if eff {
		g.f("closure-eff")
	}
	return out
}

// closureLoopStmt: closures created in a loop capture the per-iteration variables, called after the loop.
func (g *c1gen) closureLoopStmt(depth int) []string {
	fs := g.newName("fs")
	out := []string{"var " + fs + " []func() int"}
	n := 2 + g.r.intn(3)
	if g.mult*n > 150 {
		return nil
	}
	i := g.newName("i")
	var hdr string
	var caps []string
	g.push()
	switch g.r.intn(4) {
	case 0, 1:
		hdr = fmt.Sprintf("for %s := 0; %s < %d; %s++ {", i, i, n, i)
		g.declare(&c1var{name: i, t: g.T("int"), ro: true})
		caps = []string{i}
	case 2:
		hdr = fmt.Sprintf("for %s := range %d {", i, n)
		g.declare(&c1var{name: i, t: g.T("int")})
		caps = []string{i}
	default:
		e := g.newName("e")
		hdr = fmt.Sprintf("for %s, %s := range []int{%d, %d, %d} {", i, e, g.r.intn(9), g.r.intn(9), g.r.intn(9))
		g.declare(&c1var{name: i, t: g.T("int")})
		g.declare(&c1var{name: e, t: g.T("int")})
		caps = []string{i, e}
		n = 3
	}
	save := g.mult
	g.mult *= n
	g.push()
	var body []string
	if g.r.bool() {
		// a fresh variable per iteration, captured and modified by the closure
		x := g.newName("v")
		ex, _ := g.expr(g.T("int"), g.pure(1))
		if g.r.bool() {
			body = append(body, x+" := "+ex)
		} else {
			body = append(body, "var "+x+" int", x+" += "+g.paren(ex))
		}
		g.declare(&c1var{name: x, t: g.T("int")})
		caps = append(caps, x)
		cexpr := strings.Join(caps, " + ")
		body = append(body, fs+" = append("+fs+", func() int {", "\t"+x+"++", "\treturn "+cexpr, "})")
	} else {
		cexpr := strings.Join(caps, "*10 + ")
		body = append(body, fs+" = append("+fs+", func() int { return "+cexpr+" })")
	}
	if g.r.bool() {
		body = append(body, g.stmt(depth-1)...)
	}
	body = append(body, g.closeScope()...)
	g.pop()
	g.mult = save
	g.pop()
	out = append(out, hdr)
	out = append(out, ind(body)...)
	out = append(out, "}")
	f := g.newName("f")
	if g.canPrint() {
		out = append(out, "for _, "+f+" := range "+fs+" {", "\tfmt.Println("+f+"(), "+f+"())", "}")
	} else {
		acc := g.newName("v")
		out = append(out, acc+" := 0", "for _, "+f+" := range "+fs+" {", "\t"+acc+" += "+f+"() + "+f+"()", "}")
		g.declare(&c1var{name: acc, t: g.T("int")})
	}
	g.f("closure-loop")
	return out
}

func (g *c1gen) callStmt() []string {
	if !g.fc.eff {
		return nil
	}
	var cs []*c1fn
	var names []string
	for _, f := range g.funcs {
		cs = append(cs, f)
		names = append(names, f.name)
	}
	for _, v := range g.visible() {
		if v.fn != nil && v.fdepth == g.fdepth {
			cs = append(cs, v.fn)
			names = append(names, v.name)
		}
	}
	if len(cs) == 0 {
		return nil
	}
	i := g.r.intn(len(cs))
	f := cs[i]
	if g.cost+g.mult*f.cost > g.maxCost {
		return nil
	}
	g.cost += g.mult * f.cost
	c := c1ectx{noShared: f.eff, eff: f.eff, depth: 1}
	call := names[i] + "(" + g.args(f, c) + ")"
	g.f("call-stmt")
	if len(f.results) > 0 && g.r.chance(70) {
		return []string{"fmt.Println(" + call + ")"}
	}
	return []string{call}
}

func (g *c1gen) appendStmt() []string {
	for _, v := range g.visible() {
		if v.t.k == c1Slice && g.writable(v) && g.fc.eff && g.r.chance(60) {
			c := g.pure(1)
			e, _ := g.expr(v.t.elem, c)
			g.f("append")
			if g.r.chance(25) {
				e2, _ := g.expr(v.t.elem, c)
				return []string{v.name + " = append(" + v.name + ", " + e + ", " + e2 + ")"}
			}
			return []string{v.name + " = append(" + v.name + ", " + e + ")"}
		}
	}
	return nil
}

func (g *c1gen) mapStmt() []string {
	if !g.fc.eff {
		return nil
	}
	for _, v := range g.visible() {
		if v.t.k == c1Map && g.readable(v, c1ectx{}) && (v.fdepth == g.fdepth && !g.isGlobal(v) || v.shared) && g.r.chance(60) {
			var k string
			if v.t.key.k == c1String {
				k = fmt.Sprintf("%q", string(rune('a'+g.r.intn(3)))+string(rune('k'+g.r.intn(5))))
			} else {
				k = fmt.Sprint(g.r.intn(9))
			}
			g.f("map-op")
			switch g.r.intn(3) {
			case 0:
				return []string{"delete(" + v.name + ", " + k + ")"}
			default:
				e, _ := g.expr(v.t.elem, g.pure(1))
				return []string{v.name + "[" + k + "] = " + e}
			}
		}
	}
	return nil
}

// shadowBlock: a nested block that redeclares visible names.
func (g *c1gen) shadowBlock(depth int) []string {
	saveCase := g.inCase
	g.inCase = false
	defer func() { g.inCase = saveCase }()
	g.push()
	out := []string{"{"}
	var body []string
	vs := g.visible()
	for n := 0; n < 2 && len(vs) > 0; n++ {
		v := vs[g.r.intn(len(vs))]
		if v.fn != nil || v.ro || v.noShadow || g.isGlobal(v) && g.r.bool() {
			continue
		}
		dup := false
		for _, x := range g.sc.vars {
			dup = dup || x.name == v.name
		}
		if dup {
			continue
		}
		if v.t.k == c1Int && v.t.name == "int" && g.readable(v, c1ectx{}) && g.r.bool() {
			body = append(body, v.name+" := "+v.name+" + "+fmt.Sprint(1+g.r.intn(9)))
			g.declare(&c1var{name: v.name, t: v.t})
		} else {
			t := g.randBasic()
			e, k := g.expr(t, g.pure(1))
			if k {
				body = append(body, "var "+v.name+" "+t.name+" = "+e)
			} else {
				body = append(body, v.name+" := "+e)
			}
			g.declare(&c1var{name: v.name, t: t})
		}
		g.f("shadow")
	}
	for i := 0; i < 1+g.r.intn(3); i++ {
		body = append(body, g.stmt(depth-1)...)
	}
	body = append(body, g.closeScope()...)
	g.pop()
	out = append(out, ind(body)...)
	out = append(out, "}")
	return out
}

func (g *c1gen) returnStmt() []string {
	if g.fc == nil || g.fc.self == nil && !g.fc.inLit {
		return nil
	}
	g.f("return-mid")
	return append([]string{"if " + g.cond(g.pure(1)) + " {"}, append(ind(g.retLines()), "}")...)
}

// retLines: the return statement of the current function.
func (g *c1gen) retLines() []string {
	if len(g.fc.results) == 0 || len(g.fc.named) > 0 {
		// functions with named results return bare (expressions naming the results: region return-named)
		return []string{"return"}
	}
	c := g.ectx(2)
	var es []string
	for i, t := range g.fc.results {
		e, _ := g.expr(t, c)
		if i > 0 && (strings.HasPrefix(e, "len(") || strings.HasPrefix(e, "cap(")) {
			e = "0 + " + e // a direct builtin call as a later result is mis-placed by yaegi (region return-builtin)
		}
		es = append(es, e)
	}
	return []string{"return " + strings.Join(es, ", ")}
}

var c1PanicKinds = []string{"index", "div", "nil", "nilmap", "explicit"}

func (g *c1gen) panicStmt() []string {
	if !g.panicOK || !g.fc.eff || g.fc.inLit {
		return nil
	}
	g.panicOK = false
	n := g.newName("z")
	g.f("fault")
	switch g.r.pick(c1PanicKinds) {
	case "index":
		for _, v := range g.visible() {
			if v.t.k == c1Slice && g.readable(v, c1ectx{}) {
				return []string{n + " := len(" + v.name + ") + " + fmt.Sprint(g.r.intn(3)), "fmt.Println(" + v.name + "[" + n + "])"}
			}
		}
		return []string{n + " := 7", "fmt.Println([]int{1, 2}[" + n + "])"}
	case "div":
		return []string{n + " := 0", "fmt.Println(10 / " + n + ")"}
	case "nil":
		return []string{"var " + n + " *S0", "fmt.Println(" + n + ".A)"}
	case "nilmap":
		return []string{"var " + n + " map[string]int", n + `["a"] = 1`}
	default:
		return []string{n + " := " + fmt.Sprint(g.r.intn(50)), `panic(fmt.Sprint("stop", ` + n + `))`}
	}
}

// stmt generates one statement (possibly several lines).
func (g *c1gen) stmt(depth int) []string {
	g.size++
	g.cost += g.mult
	over := g.cost > g.maxCost
	for try := 0; try < 4; try++ {
		var out []string
		k := g.r.intn(100)
		switch {
		case k < 10:
			out = g.declStmt()
		case k < 24:
			out = g.assignStmt()
		case k < 34:
			out = g.opAssignStmt()
		case k < 39:
			out = g.multiAssignStmt()
		case k < 49:
			out = g.printStmt()
		case k < 53:
			out = g.callStmt()
		case k < 56:
			out = g.appendStmt()
		case k < 59:
			out = g.mapStmt()
		case k < 64:
			out = g.jumpStmt()
		case k < 65:
			if g.size > 15 {
				out = g.panicStmt()
			}
		case depth <= 0 || over:
			continue
		case k < 74:
			out = g.ifStmt(depth)
		case k < 81:
			out = g.forStmt(depth)
		case k < 86:
			out = g.rangeStmt(depth)
		case k < 90:
			out = g.switchStmt(depth)
		case k < 92:
			out = g.shadowBlock(depth)
		case k < 94:
			out = g.gotoStmt(depth)
		case k < 96:
			if g.fdepth < 2 {
				out = g.closureStmt(depth)
			}
		case k < 98:
			if g.fdepth < 2 {
				out = g.closureLoopStmt(depth)
			}
		default:
			out = g.returnStmt()
		}
		if len(out) > 0 {
			return out
		}
	}
	return g.declStmt()
}

// funcBody generates the body of fn (declared parameters p0.., named results if any).
func (g *c1gen) funcBody(fn *c1fn, named []string, lit bool) ([]string, int) {
	saveFc, saveLoops, saveCost, saveMult, saveSc := g.fc, g.loops, g.cost, g.mult, g.sc
	g.fc = &c1fctx{results: fn.results, named: named, eff: fn.eff, inLit: lit}
	if !lit {
		g.fc.self = fn
		g.sc = nil
	}
	g.loops = nil
	saveCase := g.inCase
	g.inCase = false
	defer func() { g.inCase = saveCase }()
	g.cost, g.mult = 0, 1
	g.fdepth++
	g.push()
	for i, p := range fn.params {
		v := g.declare(&c1var{name: fmt.Sprintf("p%d", i), t: p})
		if fn.rec && i == 0 {
			v.ro = true
		}
	}
	var out []string
	for i, n := range named {
		// named results are assigned before any read (yaegi does not always zero them: region named-result-zero)
		out = append(out, n+" = "+g.literal(fn.results[i], c1ectx{}))
	}
	for i, n := range named {
		g.declare(&c1var{name: n, t: fn.results[i], noShadow: true})
	}
	if fn.rec {
		out = append(out, "if p0 <= 0 {")
		g.push()
		out = append(out, ind(g.retLines())...)
		g.pop()
		out = append(out, "}")
	}
	g.push()
	// a pool of locals so that leaves always exist
	for _, tn := range []string{"int", "int", "string", "bool"} {
		n := g.newName("v")
		t := g.T(tn)
		e, _ := g.leaf(t, c1ectx{})
		out = append(out, n+" := "+e)
		g.declare(&c1var{name: n, t: t})
	}
	ns := 2 + g.r.intn(5)
	if lit {
		ns = 1 + g.r.intn(3)
	}
	depth := 2
	if lit {
		depth = 1
	}
	for i := 0; i < ns; i++ {
		out = append(out, g.stmt(depth)...)
	}
	if fn.rec {
		// the recursive call
		r := g.newName("v")
		c := g.pure(1)
		var as []string
		as = append(as, "p0-1")
		for _, p := range fn.params[1:] {
			e, _ := g.expr(p, c)
			as = append(as, e)
		}
		out = append(out, r+" := "+fn.name+"("+strings.Join(as, ", ")+")")
		g.declare(&c1var{name: r, t: fn.results[0]})
		g.f("recursion")
	}
	ret := g.retLines()
	out = append(out, g.closeScope()...)
	out = append(out, ret...)
	g.pop()
	g.pop()
	g.fdepth--
	cost := g.cost + 2
	if fn.rec {
		cost *= 4
	}
	g.fc, g.loops, g.cost, g.mult, g.sc = saveFc, saveLoops, saveCost, saveMult, saveSc
	return out, cost
}

func (g *c1gen) topFunc(i int) {
	fn := &c1fn{name: fmt.Sprintf("f%d", i), eff: g.r.chance(50)}
	np := 1 + g.r.intn(3)
	fn.rec = g.r.chance(25)
	if fn.rec {
		fn.params = append(fn.params, g.T("int"))
	}
	for j := 0; j < np; j++ {
		if g.r.chance(30) {
			fn.params = append(fn.params, g.randType())
		} else {
			fn.params = append(fn.params, g.randBasic())
		}
	}
	nr := 1
	if g.r.chance(30) && !fn.rec {
		nr = 2
	}
	for j := 0; j < nr; j++ {
		if g.r.chance(20) {
			fn.results = append(fn.results, g.randType())
		} else {
			fn.results = append(fn.results, g.randBasic())
		}
	}
	for _, r := range fn.results {
		if r.k == c1Ptr {
			fn.results = []*c1typ{g.T("int")}
			break
		}
	}
	var named []string
	if g.r.chance(20) {
		for j := range fn.results {
			named = append(named, fmt.Sprintf("r%d", j))
		}
		g.f("named-results")
	}
	body, cost := g.funcBody(fn, named, false)
	fn.cost = cost
	var sig []string
	for j, p := range fn.params {
		sig = append(sig, fmt.Sprintf("p%d %s", j, p.name))
	}
	var res []string
	for j, r := range fn.results {
		if len(named) > 0 {
			res = append(res, named[j]+" "+r.name)
		} else {
			res = append(res, r.name)
		}
	}
	rs := strings.Join(res, ", ")
	if len(res) > 1 || len(named) > 0 {
		rs = "(" + rs + ")"
	}
	g.decls = append(g.decls, "func "+fn.name+"("+strings.Join(sig, ", ")+") "+rs+" {")
	g.decls = append(g.decls, ind(body)...)
	g.decls = append(g.decls, "}", "")
	g.funcs = append(g.funcs, fn)
	if fn.eff {
		g.f("func-eff")
	} else {
		g.f("func-pure")
	}
}

// c1Program generates one program of about `size` statements.
func c1Program(r *rng, size int, allowFault bool) (string, map[string]int, int) {
	g := &c1gen{r: r, feat: map[string]int{}, mult: 1, maxCost: 20000}
	g.initTypes()
	g.panicOK = allowFault
	// type declarations
	for _, st := range g.structs {
		g.decls = append(g.decls, "type "+st.name+" struct {")
		for _, f := range st.fields {
			g.decls = append(g.decls, "\t"+f.name+" "+f.t.name)
		}
		g.decls = append(g.decls, "}", "")
	}
	// globals
	ng := 1 + g.r.intn(3)
	for i := 0; i < ng; i++ {
		t := g.randBasic()
		if g.r.chance(30) {
			t = g.randType()
			if t.k == c1Ptr {
				t = g.T("int")
			}
		}
		n := fmt.Sprintf("g%d", i)
		g.sc = &c1scope{}
		g.noVars = true
		e := g.literal(t, c1ectx{depth: 0})
		g.noVars = false
		g.sc = nil
		g.decls = append(g.decls, "var "+n+" "+t.name+" = "+e)
		gv := &c1var{name: n, t: t, shared: true}
		if t.k == c1Slice {
			gv.minLen = 3
		}
		g.globals = append(g.globals, gv)
	}
	g.decls = append(g.decls, "")
	nf := 2 + g.r.intn(4)
	for i := 0; i < nf && g.size < size*2/3; i++ {
		g.topFunc(i)
	}
	// main
	main := &c1fn{name: "main", eff: true}
	g.fc = &c1fctx{eff: true}
	g.fdepth = 1
	g.sc = nil
	g.push()
	var body []string
	for _, tn := range []string{"int", "int", "uint8", "string", "bool", "float64"} {
		n := g.newName("v")
		t := g.T(tn)
		e := g.literal(t, c1ectx{})
		if tn == "int" || tn == "string" || tn == "bool" {
			body = append(body, n+" := "+e)
		} else {
			body = append(body, "var "+n+" "+tn+" = "+e)
		}
		g.declare(&c1var{name: n, t: t})
	}
	cs := g.newName("s")
	body = append(body, cs+` := "hello, wörld"`)
	g.declare(&c1var{name: cs, t: g.T("string"), ro: true, minLen: 5})
	for g.size < size {
		body = append(body, g.stmt(3)...)
	}
	body = append(body, g.closeScope()...)
	g.pop()
	_ = main
	var b strings.Builder
	b.WriteString("package main\n\nimport (\n\t\"fmt\"\n")
	if g.usesSort {
		b.WriteString("\t\"sort\"\n")
	}
	b.WriteString(")\n\n")
	for _, l := range g.decls {
		b.WriteString(l + "\n")
	}
	b.WriteString("func main() {\n")
	for _, l := range ind(body) {
		b.WriteString(l + "\n")
	}
	b.WriteString("\tfmt.Println(\"end\")\n}\n")
	return b.String(), g.feat, g.size
}
