package main

import (
	"fmt"
	"regexp"
	"sort"
	"strings"
)

var c07lc = regexp.MustCompile(`[0-9]+:[0-9]+`)

// c07enumE runs the whole parameter space of stream E and prints one line per combination
// (exploration aid: "vh c07 -enum").
func (h *c07h) enumE() {
	var all []*c07E
	for _, ifc := range c07ifaces {
		nm := len(ifc.methods)
		for _, emb := range []string{"iface", "hostval", "hostptr", "named"} {
			for _, lay := range []string{"only", "first", "last"} {
				for mask := 0; mask < 1<<nm; mask++ {
					var over []string
					for i, m := range ifc.methods {
						if mask&(1<<i) != 0 {
							over = append(over, m)
						}
					}
					if emb == "named" && len(over) != nm {
						continue
					}
					for _, del := range []bool{false, true} {
						if del && len(over) == 0 {
							continue
						}
						for _, pr := range []bool{false, true} {
							if pr && len(over) == 0 {
								continue
							}
							for _, bp := range []bool{false, true} {
								if pr && !bp {
									continue
								}
								for _, pass := range []string{"arg", "var", "ret", "stdlib"} {
									if pass == "stdlib" && (nm != 1 || ifc.name == "Handler" || ifc.name == "Error") {
										continue
									}
									all = append(all, &c07E{iface: ifc, embed: emb, layout: lay, over: over, delegate: del, ptrRecv: pr, byPtr: bp, pass: pass})
								}
							}
						}
					}
				}
			}
		}
	}
	lines := make([]string, len(all))
	parallelMap(len(all), 0, func(i int) {
		j := &c07job{}
		h.runE(j, all[i], "")
		out := "OK"
		for _, m := range j.other {
			if m.Note == "in-script oracle" {
				out += " INSCRIPT-DIFF"
				continue
			}
			im := m.Impl.(map[string]any)
			out = "BAD " + c07lc.ReplaceAllString(fmt.Sprint(im["failed"]), "L:C") + " trace=" + strings.Join(im["trace"].([]string), ",")
		}
		yw, yf := all[i].yDispatch(all[i].facts())
		var iw []string
		ifail := false
		for _, d := range j.disps {
			iw = d.impl
			ifail = d.failed
		}
		agree := "Y-AGREES"
		if fmt.Sprint(yw, yf) != fmt.Sprint(iw, ifail) {
			agree = fmt.Sprint("Y-DIFFERS y=", yw, yf, " impl=", iw, ifail)
		}
		lines[i] = all[i].key() + " => " + out + " ## " + agree
	})
	sort.Strings(lines)
	for _, l := range lines {
		fmt.Println(l)
	}
}
