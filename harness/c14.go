package main

import (
	"errors"
	"flag"
	"fmt"
	"go/build"
	"go/constant"
	"go/token"
	"go/types"
	"math/big"
	"os"
	"path/filepath"
	"reflect"
	"runtime"
	"sort"
	"strings"

	"github.com/traefik/yaegi/stdlib"
	ysyscall "github.com/traefik/yaegi/stdlib/syscall"
	yunrestricted "github.com/traefik/yaegi/stdlib/unrestricted"
	yunsafe "github.com/traefik/yaegi/stdlib/unsafe"
)

// C14: every standard-library binding denotes the symbol it is named after.
//   cases = the rows of the binding files themselves (the space is finite and checked completely):
//           quick = both releases of stdlib/ for the host platform + syscall/unsafe/unrestricted for the host
//                   + the syscall/unrestricted tables of every other platform for the release the installed
//                   toolchain compiles (go/types truth per GOOS/GOARCH; decided by the theorems of
//                   coq/Bind/ShardX*.v over coq/gen/BindX_*_gen.v and by the text reference here),
//           thorough = additionally the syscall tables of the other release for every other platform.
//   impl  = the compiled tables stdlib.Symbols, syscall.Symbols, unsafe.Symbols, unrestricted.Symbols observed
//           at run time (function linker names, addressability, types, exact constants, wrapper forwarding
//           exercised with reflect.MakeFunc stubs), and the source text of the rows
//   Y, G  = coq/Bind/Model.v evaluated by coqc on the regenerated tables and the observations written here
//   ref   = go/types on $GOROOT/src for the platform of each file, go/constant, $GOROOT/api/go1*.txt

func init() {
	register("c14", "C14 stdlib bindings: observe the compiled tables, compare with go/types, write cases", runC14)
}

const c14FloatRegion = "float-const-inexact"

// untyped RUNE constants (utf8.RuneError, unicode.MaxRune, ...) are bound as untyped INTEGER literals
// (extract.fixConst switches on go/constant's Kind, which knows no rune): the value is exact, the
// default type is int instead of rune
const c14RuneRegion = "untyped-rune-const"

func c14Repo() string {
	if r := os.Getenv("VERIF_REPO"); r != "" {
		return r
	}
	return "/repo"
}

func c14Table(rel string) map[string]map[string]reflect.Value {
	switch filepath.ToSlash(filepath.Dir(rel)) {
	case "stdlib":
		return stdlib.Symbols
	case "stdlib/syscall":
		return ysyscall.Symbols
	case "stdlib/unrestricted":
		return yunrestricted.Symbols
	case "stdlib/unsafe":
		return yunsafe.Symbols
	}
	return nil
}

func c14Short(x string) string {
	if len(x) > 240 {
		return x[:200] + "..." + x[len(x)-30:]
	}
	return x
}

func c14PkgPath(rel string) string {
	return "github.com/traefik/yaegi/" + filepath.ToSlash(filepath.Dir(rel))
}

// ---------------------------------------------------------------- observation of a compiled entry

type c14obs struct {
	Class    string // func addr nilptr const conststr value missing
	Name     string
	Num, Den *big.Int
	Str      string
}

func (o c14obs) coq() string {
	switch o.Class {
	case "func":
		return "OFunc " + bindStr(o.Name)
	case "addr":
		return "OAddr"
	case "nilptr":
		return "ONilPtr"
	case "const":
		return fmt.Sprintf("OConst %s %s", bindZ(o.Num), bindZ(o.Den))
	case "conststr":
		return "OConstStr " + bindStr(o.Str)
	case "missing":
		return "OMissing"
	}
	return "OValue"
}

func (o c14obs) String() string {
	switch o.Class {
	case "func":
		return "func " + o.Name
	case "const":
		if o.Den.Cmp(big.NewInt(1)) == 0 {
			return "constant " + o.Num.String()
		}
		return "constant " + o.Num.String() + "/" + o.Den.String()
	case "conststr":
		return fmt.Sprintf("constant %q", o.Str)
	}
	return o.Class
}

func c14Observe(v reflect.Value, ok bool) c14obs {
	if !ok || !v.IsValid() {
		return c14obs{Class: "missing"}
	}
	if v.CanAddr() && v.CanSet() {
		return c14obs{Class: "addr"}
	}
	if v.Kind() == reflect.Func && !v.IsNil() {
		name := "?"
		if fn := runtime.FuncForPC(v.Pointer()); fn != nil {
			name = fn.Name()
		}
		return c14obs{Class: "func", Name: name}
	}
	if v.Kind() == reflect.Ptr && v.IsNil() {
		return c14obs{Class: "nilptr"}
	}
	if v.CanInterface() {
		if c, ok := v.Interface().(constant.Value); ok {
			switch c.Kind() {
			case constant.Int, constant.Float:
				if n, d, ok := ratOf(c); ok {
					return c14obs{Class: "const", Num: n, Den: d}
				}
			case constant.String:
				return c14obs{Class: "conststr", Str: constant.StringVal(c)}
			}
		}
	}
	return c14obs{Class: "value"}
}

// ---------------------------------------------------------------- go/types type against reflect type

var c14BasicKind = map[types.BasicKind]reflect.Kind{
	types.Bool: reflect.Bool, types.Int: reflect.Int, types.Int8: reflect.Int8, types.Int16: reflect.Int16,
	types.Int32: reflect.Int32, types.Int64: reflect.Int64, types.Uint: reflect.Uint, types.Uint8: reflect.Uint8,
	types.Uint16: reflect.Uint16, types.Uint32: reflect.Uint32, types.Uint64: reflect.Uint64, types.Uintptr: reflect.Uintptr,
	types.Float32: reflect.Float32, types.Float64: reflect.Float64, types.Complex64: reflect.Complex64,
	types.Complex128: reflect.Complex128, types.String: reflect.String, types.UnsafePointer: reflect.UnsafePointer,
}

func c14TypeMatch(t types.Type, r reflect.Type) bool {
	if r == nil {
		return false
	}
	switch t := t.(type) {
	case *types.Named:
		name := r.Name()
		if i := strings.Index(name, "["); i >= 0 {
			name = name[:i]
		}
		path := ""
		if t.Obj().Pkg() != nil {
			path = t.Obj().Pkg().Path()
		}
		return name == t.Obj().Name() && r.PkgPath() == path
	case *types.Basic:
		k, ok := c14BasicKind[t.Kind()]
		if !ok || r.Kind() != k {
			return false
		}
		if t.Kind() == types.UnsafePointer {
			return r.PkgPath() == "unsafe" && r.Name() == "Pointer"
		}
		return r.PkgPath() == ""
	case *types.Pointer:
		return r.Kind() == reflect.Ptr && r.Name() == "" && c14TypeMatch(t.Elem(), r.Elem())
	case *types.Slice:
		return r.Kind() == reflect.Slice && r.Name() == "" && c14TypeMatch(t.Elem(), r.Elem())
	case *types.Array:
		return r.Kind() == reflect.Array && r.Name() == "" && int64(r.Len()) == t.Len() && c14TypeMatch(t.Elem(), r.Elem())
	case *types.Map:
		return r.Kind() == reflect.Map && r.Name() == "" && c14TypeMatch(t.Key(), r.Key()) && c14TypeMatch(t.Elem(), r.Elem())
	case *types.Chan:
		if r.Kind() != reflect.Chan || r.Name() != "" {
			return false
		}
		dir := map[types.ChanDir]reflect.ChanDir{types.SendRecv: reflect.BothDir, types.SendOnly: reflect.SendDir, types.RecvOnly: reflect.RecvDir}[t.Dir()]
		return r.ChanDir() == dir && c14TypeMatch(t.Elem(), r.Elem())
	case *types.Signature:
		if r.Kind() != reflect.Func || r.Name() != "" || r.NumIn() != t.Params().Len() || r.NumOut() != t.Results().Len() || r.IsVariadic() != t.Variadic() {
			return false
		}
		for i := 0; i < r.NumIn(); i++ {
			if !c14TypeMatch(t.Params().At(i).Type(), r.In(i)) {
				return false
			}
		}
		for i := 0; i < r.NumOut(); i++ {
			if !c14TypeMatch(t.Results().At(i).Type(), r.Out(i)) {
				return false
			}
		}
		return true
	case *types.Struct:
		if r.Kind() != reflect.Struct || r.Name() != "" || r.NumField() != t.NumFields() {
			return false
		}
		for i := 0; i < r.NumField(); i++ {
			f, rf := t.Field(i), r.Field(i)
			if f.Name() != rf.Name || f.Embedded() != rf.Anonymous || t.Tag(i) != string(rf.Tag) || !c14TypeMatch(f.Type(), rf.Type) {
				return false
			}
		}
		return true
	case *types.Interface:
		if r.Kind() != reflect.Interface || r.Name() != "" || r.NumMethod() != t.NumMethods() {
			return false
		}
		for i := 0; i < t.NumMethods(); i++ {
			m := t.Method(i)
			if !m.Exported() {
				continue
			}
			rm, ok := r.MethodByName(m.Name())
			if !ok || !c14TypeMatch(m.Type(), rm.Type) {
				return false
			}
		}
		return true
	}
	return false
}

// ---------------------------------------------------------------- wrappers exercised at run time

type c14valgen struct{ n int }

func (g *c14valgen) value(t reflect.Type, depth int) reflect.Value {
	g.n++
	v := reflect.New(t).Elem()
	switch t.Kind() {
	case reflect.Bool:
		v.SetBool(g.n%2 == 1)
	case reflect.Int, reflect.Int16, reflect.Int32, reflect.Int64:
		v.SetInt(int64(1000 + g.n))
	case reflect.Int8:
		v.SetInt(int64(g.n % 100))
	case reflect.Uint, reflect.Uint16, reflect.Uint32, reflect.Uint64, reflect.Uintptr:
		v.SetUint(uint64(1000 + g.n))
	case reflect.Uint8:
		v.SetUint(uint64(g.n % 200))
	case reflect.Float32, reflect.Float64:
		v.SetFloat(float64(g.n) + 0.5)
	case reflect.Complex64, reflect.Complex128:
		v.SetComplex(complex(float64(g.n), 1))
	case reflect.String:
		v.SetString(fmt.Sprintf("s%d", g.n))
	case reflect.Slice:
		if depth < 3 {
			s := reflect.MakeSlice(t, 1, 1)
			s.Index(0).Set(g.value(t.Elem(), depth+1))
			v.Set(s)
		}
	case reflect.Ptr:
		if depth < 3 && t.Elem().Kind() != reflect.Struct {
			p := reflect.New(t.Elem())
			p.Elem().Set(g.value(t.Elem(), depth+1))
			v.Set(p)
		} else if depth < 3 {
			v.Set(reflect.New(t.Elem()))
		}
	case reflect.Interface:
		switch {
		case t.NumMethod() == 0:
			v.Set(reflect.ValueOf(fmt.Sprintf("i%d", g.n)))
		case reflect.TypeOf((*error)(nil)).Elem().Implements(t):
			v.Set(reflect.ValueOf(errors.New(fmt.Sprintf("e%d", g.n))))
		}
	}
	return v
}

func c14Same(a, b reflect.Value) bool {
	if a.Type() != b.Type() {
		return false
	}
	switch a.Kind() {
	case reflect.Func, reflect.Chan, reflect.Map, reflect.UnsafePointer:
		if a.Kind() == reflect.Func {
			return a.IsNil() && b.IsNil()
		}
		return a.Pointer() == b.Pointer()
	case reflect.Ptr:
		return a.Pointer() == b.Pointer()
	case reflect.Slice:
		return a.Len() == b.Len() && (a.Len() == 0 || a.Pointer() == b.Pointer())
	case reflect.Interface:
		if a.IsNil() || b.IsNil() {
			return a.IsNil() == b.IsNil()
		}
		return c14Same(a.Elem(), b.Elem())
	}
	if a.Type().Comparable() && a.CanInterface() && b.CanInterface() {
		defer func() { recover() }()
		return a.Interface() == b.Interface()
	}
	return reflect.DeepEqual(a.Interface(), b.Interface())
}

// c14Exercise installs a recording stub in every W field of a wrapper value and calls every method:
// the stub of the same name must receive exactly the arguments and its results must come back.
func c14Exercise(T reflect.Type) (calls int, problems []string) {
	defer func() {
		if r := recover(); r != nil {
			problems = append(problems, fmt.Sprint("panic while exercising the wrapper: ", r))
		}
	}()
	if T.Kind() != reflect.Struct {
		return 0, []string{"wrapper is not a struct: " + T.String()}
	}
	if f, ok := T.FieldByName("IValue"); !ok || f.Type.Kind() != reflect.Interface || f.Type.NumMethod() != 0 {
		problems = append(problems, "no field IValue interface{}")
	}
	gen := &c14valgen{}
	type rec struct {
		field string
		args  []reflect.Value
	}
	var log []rec
	outs := map[string][]reflect.Value{}
	wv := reflect.New(T).Elem()
	for i := 0; i < T.NumField(); i++ {
		f := T.Field(i)
		if !strings.HasPrefix(f.Name, "W") || f.Type.Kind() != reflect.Func {
			continue
		}
		name := f.Name
		var res []reflect.Value
		for j := 0; j < f.Type.NumOut(); j++ {
			res = append(res, gen.value(f.Type.Out(j), 0))
		}
		outs[name] = res
		wv.Field(i).Set(reflect.MakeFunc(f.Type, func(args []reflect.Value) []reflect.Value {
			log = append(log, rec{name, append([]reflect.Value(nil), args...)})
			return outs[name]
		}))
		if _, ok := T.MethodByName(strings.TrimPrefix(name, "W")); !ok {
			problems = append(problems, "field "+name+" has no method")
		}
	}
	for i := 0; i < T.NumMethod(); i++ {
		m := T.Method(i)
		mv := wv.Method(i)
		mt := mv.Type()
		var args []reflect.Value
		for j := 0; j < mt.NumIn(); j++ {
			args = append(args, gen.value(mt.In(j), 0))
		}
		log = nil
		var res []reflect.Value
		if mt.IsVariadic() {
			res = mv.CallSlice(args)
		} else {
			res = mv.Call(args)
		}
		calls++
		if len(log) != 1 || log[0].field != "W"+m.Name {
			problems = append(problems, fmt.Sprintf("method %s called %d stub(s) %v instead of W%s", m.Name, len(log), func() []string {
				var l []string
				for _, r := range log {
					l = append(l, r.field)
				}
				return l
			}(), m.Name))
			continue
		}
		if len(log[0].args) != len(args) {
			problems = append(problems, fmt.Sprintf("method %s passed %d arguments instead of %d", m.Name, len(log[0].args), len(args)))
			continue
		}
		for j := range args {
			if !c14Same(args[j], log[0].args[j]) {
				problems = append(problems, fmt.Sprintf("method %s: argument %d is not forwarded unchanged", m.Name, j))
			}
		}
		want := outs["W"+m.Name]
		if len(res) != len(want) {
			problems = append(problems, fmt.Sprintf("method %s returns %d results instead of %d", m.Name, len(res), len(want)))
			continue
		}
		for j := range res {
			if !c14Same(res[j], want[j]) {
				problems = append(problems, fmt.Sprintf("method %s: result %d is not the stub's result", m.Name, j))
			}
		}
	}
	return calls, problems
}

// ---------------------------------------------------------------- reference decision on a row (source text)

func c14Qualifier(f *bindFile, tp *truthPkg) (string, bool) {
	for _, im := range f.Imports {
		if im.Path == tp.Path {
			if im.Alias != "" {
				return im.Alias, true
			}
			return tp.Name, true
		}
	}
	return "", false
}

func c14In(x string, l []string) bool {
	for _, y := range l {
		if x == y {
			return true
		}
	}
	return false
}

func c14IsPow2(z *big.Int) bool {
	return z.Sign() > 0 && new(big.Int).And(z, new(big.Int).Sub(z, big.NewInt(1))).Sign() == 0
}

func c14Region(t *truthObj) string {
	if t != nil && t.Kind == "ufloat" && !c14IsPow2(t.Den) {
		return c14FloatRegion
	}
	if t != nil && t.Kind == "urune" {
		return c14RuneRegion
	}
	return ""
}

// c14TextRef decides from the source text of a row whether it denotes its object (independent Go
// rendition of the property; literals are read by go/constant itself).
func c14TextRef(col *bindCollection, g *bindGroup, f *bindFile, r *bindRow) (ok bool, want string) {
	tp, t := r.truthPkg, r.truth
	if tp == nil {
		return false, "a table of a package the file wraps (key " + r.Key + ")"
	}
	if t == nil {
		return false, "an exported object of " + tp.Path + " (none is called " + strings.TrimPrefix(r.Name, "_") + ")"
	}
	if t.Since > g.Release {
		return false, fmt.Sprintf("nothing: %s.%s exists since go1.%d only", tp.Path, t.Name, t.Since)
	}
	q, hasQ := c14Qualifier(f, tp)
	if strings.HasPrefix(r.Name, "_") {
		want = "(*" + extractPrefix(tp.Path) + t.Name + ")(nil)"
		return t.Kind == "iface" && r.Form == "typeident" && r.Ident == extractPrefix(tp.Path)+t.Name, want
	}
	sel := hasQ && r.Q == q && r.Ident == t.Name
	repl := r.Ident == tp.Name+t.Name && c14In(r.Ident, col.Restricted) && c14In(r.Ident, col.RestrictedGo)
	switch t.Kind {
	case "func":
		return (r.Form == "sel" && sel) || (r.Form == "ident" && repl), q + "." + t.Name
	case "var":
		return r.Form == "addrsel" && sel, "&" + q + "." + t.Name
	case "type", "iface":
		return (r.Form == "typesel" && sel) || (t.Kind == "type" && r.Form == "typeident" && repl), "(*" + q + "." + t.Name + ")(nil)"
	case "constid":
		return r.Form == "sel" && sel, q + "." + t.Name
	case "builtin":
		lower := strings.ToLower(t.Name[:1]) + t.Name[1:]
		return r.Form == "funclit" || (r.Form == "ident" && r.Ident == lower && c14In(lower, f.Locals)), "a local stand-in for the builtin"
	case "uint", "urune", "ufloat", "ustring":
		c := t.obj.(*types.Const).Val()
		want = "a literal of value " + c.ExactString()
		if r.Form != "lit" {
			return false, want
		}
		tok := map[string]token.Token{"INT": token.INT, "FLOAT": token.FLOAT, "STRING": token.STRING, "CHAR": token.CHAR, "IMAG": token.IMAG}[r.Tok]
		if t.Kind == "urune" {
			want = "a CHAR literal (untyped rune constant, default type rune) of value " + c.ExactString()
		}
		okTok := (t.Kind == "uint" && (tok == token.INT || tok == token.CHAR)) || (t.Kind == "urune" && tok == token.CHAR) || (t.Kind == "ufloat" && tok == token.FLOAT) || (t.Kind == "ustring" && tok == token.STRING)
		b := constant.MakeFromLiteral(r.Lit, tok, 0)
		return okTok && b.Kind() != constant.Unknown && constant.Compare(b, token.EQL, c), want
	}
	return false, "nothing: " + t.Kind + " objects are not bound"
}

// ---------------------------------------------------------------- reference decision on a compiled entry (run time)

func c14ConstOfValue(v reflect.Value) constant.Value {
	switch v.Kind() {
	case reflect.Bool:
		return constant.MakeBool(v.Bool())
	case reflect.Int, reflect.Int8, reflect.Int16, reflect.Int32, reflect.Int64:
		return constant.MakeInt64(v.Int())
	case reflect.Uint, reflect.Uint8, reflect.Uint16, reflect.Uint32, reflect.Uint64, reflect.Uintptr:
		return constant.MakeUint64(v.Uint())
	case reflect.Float32, reflect.Float64:
		return constant.MakeFloat64(v.Float())
	case reflect.String:
		return constant.MakeString(v.String())
	case reflect.Complex64, reflect.Complex128:
		c := v.Complex()
		return constant.BinaryOp(constant.MakeFloat64(real(c)), token.ADD, constant.MakeImag(constant.MakeFloat64(imag(c))))
	}
	return constant.MakeUnknown()
}

// c14RuntimeRef compares the compiled entry with the go/types object it is named after.
func c14RuntimeRef(col *bindCollection, g *bindGroup, f *bindFile, r *bindRow, v reflect.Value, present bool) (problem string) {
	tp, t := r.truthPkg, r.truth
	if !present || !v.IsValid() {
		return "no such entry in the compiled table"
	}
	if tp == nil || t == nil {
		return "" // decided on the text
	}
	if strings.HasPrefix(r.Name, "_") {
		return ""
	}
	switch t.Kind {
	case "func":
		if v.Kind() != reflect.Func || v.IsNil() || v.CanAddr() {
			return "not a function value"
		}
		name := ""
		if fn := runtime.FuncForPC(v.Pointer()); fn != nil {
			name = fn.Name()
		}
		if name != tp.Path+"."+t.Name {
			repl := c14PkgPath(f.Path) + "." + tp.Name + t.Name
			if !(name == repl && c14In(tp.Name+t.Name, col.Restricted)) {
				return "bound function is " + name
			}
			return "" // documented restricted replacement (its result may be the replacement type)
		}
		if !c14TypeMatch(t.obj.Type(), v.Type()) {
			return "type " + v.Type().String() + " is not " + t.obj.Type().String()
		}
	case "var":
		if !v.CanAddr() || !v.CanSet() {
			return "variable not bound by address"
		}
		if !c14TypeMatch(t.obj.Type(), v.Type()) {
			return "type " + v.Type().String() + " is not " + t.obj.Type().String()
		}
	case "type", "iface":
		if v.Kind() != reflect.Ptr || !v.IsNil() {
			return "not a nil pointer to the type"
		}
		if c14TypeMatch(t.obj.Type(), v.Type().Elem()) {
			return ""
		}
		repl := tp.Name + t.Name
		if t.Kind == "type" && c14In(repl, col.Restricted) && v.Type().Elem().PkgPath() == c14PkgPath(f.Path) && v.Type().Elem().Name() == repl {
			return ""
		}
		return "type " + v.Type().Elem().String() + " is not " + t.obj.Type().String()
	case "constid":
		c := t.obj.(*types.Const)
		if b, ok := c.Type().(*types.Basic); ok && b.Info()&types.IsUntyped != 0 {
			// untyped boolean or complex constant bound by identifier: default type
			if !constant.Compare(c14ConstOfValue(v), token.EQL, c.Val()) {
				return "value differs from " + c.Val().ExactString()
			}
			return ""
		}
		if !c14TypeMatch(c.Type(), v.Type()) {
			return "type " + v.Type().String() + " is not " + c.Type().String()
		}
		want := c.Val()
		got := c14ConstOfValue(v)
		switch v.Kind() {
		case reflect.Float32:
			f32, _ := constant.Float32Val(want)
			want = constant.MakeFloat64(float64(f32))
		case reflect.Float64:
			f64, _ := constant.Float64Val(want)
			want = constant.MakeFloat64(f64)
		}
		if got.Kind() == constant.Unknown || !constant.Compare(got, token.EQL, want) {
			return "value " + got.ExactString() + " differs from " + want.ExactString()
		}
	case "uint", "urune", "ufloat", "ustring":
		if !v.CanInterface() {
			return "not a constant"
		}
		b, ok := v.Interface().(constant.Value)
		if !ok || b.Kind() == constant.Unknown {
			return "not a go/constant value"
		}
		want := t.obj.(*types.Const).Val()
		if !constant.Compare(b, token.EQL, want) {
			return "bound constant differs from the exact value " + want.ExactString()
		}
	}
	return ""
}

// c14WrapperRef checks a compiled wrapper type against the interface of the release.
func c14WrapperRef(g *bindGroup, tp *truthPkg, t *truthObj, T reflect.Type) []string {
	var problems []string
	want := map[string]*truthMethod{}
	for i := range t.Methods {
		if t.Methods[i].Since <= g.Release {
			want[t.Methods[i].Name] = &t.Methods[i]
		}
	}
	if T.NumMethod() != len(want) {
		problems = append(problems, fmt.Sprintf("%d methods instead of %d", T.NumMethod(), len(want)))
	}
	for name, m := range want {
		rm, ok := T.MethodByName(name)
		if !ok {
			problems = append(problems, "method "+name+" missing")
			continue
		}
		// rm.Type has the receiver as first parameter
		rt := rm.Type
		if rt.NumIn()-1 != m.sig.Params().Len() || rt.NumOut() != m.sig.Results().Len() || rt.IsVariadic() != m.sig.Variadic() {
			problems = append(problems, "method "+name+" has another shape than "+m.sig.String())
			continue
		}
		for i := 0; i < m.sig.Params().Len(); i++ {
			if !c14TypeMatch(m.sig.Params().At(i).Type(), rt.In(i+1)) {
				problems = append(problems, fmt.Sprintf("method %s: parameter %d is %s", name, i, rt.In(i+1)))
			}
		}
		for i := 0; i < m.sig.Results().Len(); i++ {
			if !c14TypeMatch(m.sig.Results().At(i).Type(), rt.Out(i)) {
				problems = append(problems, fmt.Sprintf("method %s: result %d is %s", name, i, rt.Out(i)))
			}
		}
		if f, ok := T.FieldByName("W" + name); !ok || !c14TypeMatch(m.sig, f.Type) {
			problems = append(problems, "field W"+name+" missing or of another type than "+m.sig.String())
		}
	}
	return problems
}

// ---------------------------------------------------------------- text-level wrapper check (all files)

func c14WrapperText(w *bindWrapper) []string {
	var problems []string
	if len(w.Fields) == 0 || w.Fields[0].Name != "IValue" || w.Fields[0].IsFunc || (w.Fields[0].Type != "interface{}" && w.Fields[0].Type != "any") {
		problems = append(problems, "first field is not IValue interface{}")
	}
	fields := map[string]bindField{}
	for _, f := range w.Fields {
		fields[f.Name] = f
	}
	methods := map[string]bool{}
	for _, m := range w.Methods {
		methods["W"+m.Name] = true
		f, ok := fields["W"+m.Name]
		switch {
		case !m.Forward:
			problems = append(problems, "method "+m.Name+" is not a plain forwarding call: "+m.Text)
			continue
		case m.CallRecv != m.Recv || m.Recv == "":
			problems = append(problems, "method "+m.Name+" calls through "+m.CallRecv)
		case m.Field != "W"+m.Name:
			problems = append(problems, "method "+m.Name+" forwards to field "+m.Field)
		case m.HasRet != (len(m.Results) > 0):
			problems = append(problems, "method "+m.Name+": return does not fit the results")
		case m.Guard && m.Name != "String":
			problems = append(problems, "method "+m.Name+" has a nil guard")
		case !ok || !f.IsFunc:
			problems = append(problems, "no func field W"+m.Name)
		}
		if len(m.Args) != len(m.Params) {
			problems = append(problems, "method "+m.Name+" passes another number of arguments")
			continue
		}
		for i, a := range m.Args {
			if a.Name != m.Params[i].Name || a.Ellipsis != strings.HasPrefix(m.Params[i].Type, "...") {
				problems = append(problems, fmt.Sprintf("method %s: argument %d is %s", m.Name, i, a.Name))
			}
		}
		if ok && f.IsFunc {
			same := func(a, b []bindParam) bool {
				if len(a) != len(b) {
					return false
				}
				for i := range a {
					if a[i].Type != b[i].Type {
						return false
					}
				}
				return true
			}
			if !same(f.Params, m.Params) || !same(f.Results, m.Results) {
				problems = append(problems, "field W"+m.Name+" has another signature than the method")
			}
		}
	}
	for _, f := range w.Fields {
		if f.Name != "IValue" && !methods[f.Name] {
			problems = append(problems, "field "+f.Name+" has no method")
		}
	}
	return problems
}

// ---------------------------------------------------------------- the run

func runC14(args []string) error {
	fs := flag.NewFlagSet("c14", flag.ExitOnError)
	tier := fs.String("tier", "quick", "quick|thorough")
	seed := fs.Uint64("seed", 1, "seed (rotates the sample shown in the evidence; the tables are checked completely)")
	out := fs.String("out", "/verif/build/C14", "output directory")
	fs.Parse(args)
	if err := os.MkdirAll(*out, 0o755); err != nil {
		return err
	}
	repo := c14Repo()
	col, err := bindCollect(repo, *tier)
	if err != nil {
		return err
	}
	sm := newSummary("C14")
	distinct := distinctSet{}
	r0 := newRng(*seed)

	// which files does this binary contain?  go/build decides, as it did for the compiler
	compiled := func(rel string) bool {
		ctx := build.Default
		m, err := ctx.MatchFile(filepath.Join(repo, filepath.Dir(rel)), filepath.Base(rel))
		return err == nil && m
	}
	observedGroups := map[string][]string{} // group name -> coq observations
	type rowRef struct {
		g *bindGroup
		f *bindFile
		r *bindRow
	}
	var allRows []rowRef
	// text-level and completeness mismatches of tables for other platforms can be release drift
	// (see c14Excused): remember what they are about
	type pendingInfo struct {
		g  *bindGroup
		r  *bindRow
		tp *truthPkg
		t  *truthObj
	}
	pending := map[int]pendingInfo{}
	nObserved := 0
	seenEntries := map[string]bool{} // table dir + key + name seen through a row
	for _, g := range col.Groups {
		if g.SiblingOnly {
			continue // quick tier: read for the drift rule only
		}
		all := len(g.Files) > 0
		for _, f := range g.Files {
			if c14Table(f.Path) == nil || !compiled(f.Path) {
				all = false
			}
		}
		if g.Name == "composed" {
			all = false
		}
		var obs []string
		for _, f := range g.Files {
			for _, r := range f.Rows {
				allRows = append(allRows, rowRef{g, f, r})
				sm.Evaluations++
				sm.count("form:" + r.Form)
				if r.truth != nil {
					sm.count("kind:" + r.truth.Kind)
					distinct.add(g.Name, r.Key, r.Name, r.Text)
				}
				// ---- reference on the text
				okText, want := c14TextRef(col, g, f, r)
				sm.RefComparisons++
				region := c14Region(r.truth)
				input := map[string]any{"file": fmt.Sprintf("%s:%d", r.File, r.Line), "table": r.Key, "name": r.Name, "bound": c14Short(r.Text), "group": g.Name}
				sm.CaseIndex[fmt.Sprint(r.ID)] = input
				reported := false
				if !okText {
					sm.RefMismatches = append(sm.RefMismatches, refMismatch{ID: r.ID, Region: region, Input: input, Impl: c14Short(r.Text), Ref: c14Short(want),
						Note: "source text of the binding against go/types on $GOROOT/src (" + g.GOOS + "/" + g.GOARCH + ")"})
					pending[r.ID] = pendingInfo{g: g, r: r}
					reported = true
				}
				if !all {
					continue
				}
				// ---- the compiled entry
				tab := c14Table(f.Path)
				v, present := tab[r.Key][r.Name]
				seenEntries[filepath.Dir(f.Path)+"\x00"+r.Key+"\x00"+r.Name] = true
				o := c14Observe(v, present)
				obs = append(obs, fmt.Sprintf("(%d%%N, %s)", r.ID, o.coq()))
				nObserved++
				sm.ImplComparisons++
				sm.count("observed:" + o.Class)
				if p := c14RuntimeRef(col, g, f, r, v, present); p != "" && !reported {
					sm.RefMismatches = append(sm.RefMismatches, refMismatch{ID: r.ID, Region: region, Input: input, Impl: o.String() + ": " + p,
						Ref: want, Note: "compiled table entry against go/types on $GOROOT/src"})
				}
				// ---- compiled wrappers
				if strings.HasPrefix(r.Name, "_") && present && r.truth != nil && r.truth.Kind == "iface" && v.Kind() == reflect.Ptr {
					T := v.Type().Elem()
					problems := c14WrapperRef(g, r.truthPkg, r.truth, T)
					calls, p2 := c14Exercise(T)
					sm.Distribution["wrapper-methods-exercised"] += calls
					problems = append(problems, p2...)
					if len(problems) > 0 && !reported {
						sm.RefMismatches = append(sm.RefMismatches, refMismatch{ID: r.ID, Region: "", Input: input, Impl: problems,
							Ref:  "a struct {IValue; W<M> func...} whose methods forward to the field of the same name, for the methods of " + r.truthPkg.Path + "." + r.truth.Name,
							Note: "compiled wrapper exercised with reflect.MakeFunc stubs"})
					}
				}
			}
			// ---- wrappers, on the text
			for _, w := range f.Wrappers {
				sm.Evaluations++
				sm.count("wrapper")
				input := map[string]any{"file": fmt.Sprintf("%s:%d", w.File, w.Line), "wrapper": w.Name, "group": g.Name}
				sm.CaseIndex[fmt.Sprint(w.ID)] = input
				sm.RefComparisons++
				problems := c14WrapperText(w)
				if g.Complete {
					var it *truthObj
					var itp *truthPkg
					for _, tp := range g.Truth {
						for _, t := range tp.Objs {
							if t.Kind == "iface" && extractPrefix(tp.Path)+t.Name == w.Name {
								it, itp = t, tp
							}
						}
					}
					if it == nil {
						problems = append(problems, "no interface of the wrapped package is called after this wrapper")
					} else {
						var want []truthMethod
						for _, m := range it.Methods {
							if m.Since <= g.Release {
								want = append(want, m)
							}
						}
						if len(want) != len(w.Methods) {
							problems = append(problems, fmt.Sprintf("%d methods, %s.%s has %d", len(w.Methods), itp.Path, it.Name, len(want)))
						} else {
							for i, m := range w.Methods {
								ps, rs := []string{}, []string{}
								for _, p := range m.Params {
									ps = append(ps, p.Type)
								}
								for _, p := range m.Results {
									rs = append(rs, p.Type)
								}
								if m.Name != want[i].Name || strings.Join(ps, ",") != strings.Join(want[i].Params, ",") || strings.Join(rs, ",") != strings.Join(want[i].Results, ",") {
									problems = append(problems, "method "+m.Name+" differs from "+want[i].Name+want[i].sig.String())
								}
							}
						}
					}
				}
				if len(problems) > 0 {
					sm.RefMismatches = append(sm.RefMismatches, refMismatch{ID: w.ID, Region: "", Input: input, Impl: problems,
						Ref: "every method forwards to W<Method> with the same parameters and results", Note: "source text of the wrapper"})
				}
			}
		}
		// ---- completeness, against the truth of the release
		if g.Complete {
			for _, tp := range g.Truth {
				for _, t := range tp.Objs {
					sm.Evaluations++
					sm.RefComparisons++
					sm.CaseIndex[fmt.Sprint(t.ID)] = map[string]any{"package": tp.Path, "object": t.Name, "kind": t.Kind, "since": t.Since, "group": g.Name}
					if missing := bindMissing(g, tp, t); missing != "" {
						pending[t.ID] = pendingInfo{g: g, tp: tp, t: t}
						sm.RefMismatches = append(sm.RefMismatches, refMismatch{ID: t.ID, Region: "", Input: sm.CaseIndex[fmt.Sprint(t.ID)], Impl: missing,
							Ref: fmt.Sprintf("%s.%s (%s) is declared by go1.%d for %s/%s", tp.Path, t.Name, t.Kind, g.Release, g.GOOS, g.GOARCH)})
					}
				}
			}
		}
		if all {
			observedGroups[g.Name] = obs
		}
	}
	// ---- word-size dependent constants: the platform-independent files against the truth of a 32-bit platform
	// (decided on the tables and go/types for linux/386; nothing is run on a 386 host)
	wsGroups, err := bindWordsize(col)
	if err != nil {
		return err
	}
	for _, g := range wsGroups {
		for _, f := range g.Files {
			for _, r := range f.Rows {
				sm.Evaluations++
				sm.RefComparisons++
				sm.count("wordsize-row")
				okText, want := c14TextRef(col, g, f, r)
				input := map[string]any{"file": fmt.Sprintf("%s:%d", r.File, r.Line), "table": r.Key, "name": r.Name, "bound": c14Short(r.Text), "group": g.Name}
				sm.CaseIndex[fmt.Sprint(r.ID)] = input
				if !okText {
					sm.RefMismatches = append(sm.RefMismatches, refMismatch{ID: r.ID, Region: bindWordsizeRegion, Input: input, Impl: c14Short(r.Text), Ref: c14Short(want),
						Note: "platform-independent binding file against go/types on $GOROOT/src for linux/386 (the host truth differs); decided on the table, not run on a 386 host"})
				} else {
					sm.HarnessViolations = append(sm.HarnessViolations, refMismatch{ID: r.ID, Input: input, Impl: "row accepted", Ref: "a row emitted because the 386 truth differs from the host truth cannot fit both"})
				}
			}
		}
	}
	// entries of the compiled tables that no row accounts for
	for dir, tab := range map[string]map[string]map[string]reflect.Value{"stdlib": stdlib.Symbols, "stdlib/syscall": ysyscall.Symbols,
		"stdlib/unrestricted": yunrestricted.Symbols, "stdlib/unsafe": yunsafe.Symbols} {
		for _, key := range sortedKeys(tab) {
			if yaegiSelfKey.MatchString(key) {
				continue
			}
			for _, name := range sortedKeys(tab[key]) {
				if !seenEntries[dir+"\x00"+key+"\x00"+name] {
					sm.HarnessViolations = append(sm.HarnessViolations, refMismatch{ID: 0, Region: "", Input: map[string]any{"table": dir, "key": key, "name": name},
						Impl: "present in the compiled table", Ref: "no row of a compiled binding file accounts for it"})
				}
			}
		}
	}

	// ---------------------------------------------------------------- release drift on other platforms
	// The truth is the installed release; the files target go1.21 / go1.22.  $GOROOT/api tells which
	// names are newer only for the platforms it covers, and never when a value changed.  For a table of
	// another platform than the host's, a disagreement with the installed source that the table of
	// the sibling release shows identically (same bound text / also no entry) is therefore not decidable
	// offline: it is excused, listed in the evidence, and never reported.  Any change to one
	// of the two files breaks the agreement and is reported.
	// release drift that the sibling rule cannot see, because the change happened between the two
	// releases yaegi ships tables for (the go1.22 table agrees with the installed source):
	// Go 1.22 rewrote the fake network layer of js/wasm and wasip1/wasm (syscall/net_fake.go):
	// SOMAXCONN went from iota value 2 to 0x80 and SO_ERROR from 3 to 2.  Exactly these rows.
	knownDrift := map[string]string{
		"js/wasm/21/SOMAXCONN":     `reflect.ValueOf(constant.MakeFromLiteral("2", token.INT, 0))`,
		"js/wasm/21/SO_ERROR":      `reflect.ValueOf(constant.MakeFromLiteral("3", token.INT, 0))`,
		"wasip1/wasm/21/SOMAXCONN": `reflect.ValueOf(constant.MakeFromLiteral("2", token.INT, 0))`,
		"wasip1/wasm/21/SO_ERROR":  `reflect.ValueOf(constant.MakeFromLiteral("3", token.INT, 0))`,
	}
	var excused []int
	var kept []refMismatch
	for _, m := range sm.RefMismatches {
		p, ok := pending[m.ID]
		ex := false
		if ok && !(p.g.GOOS == runtime.GOOS && p.g.GOARCH == runtime.GOARCH) && strings.HasPrefix(p.g.Name, "syscall/") {
			if sib := col.sibling(p.g); sib != nil {
				if p.r != nil {
					// a differing entry: excused only in a table of a release the toolchain does not compile
					// (the tables of the compiled release are decided row by row, also by the Coq theorems)
					if p.g.Release != col.CompiledRelease {
						sr := sib.rowOf(p.r.Key, p.r.Name)
						ex = sr != nil && sr.Text == p.r.Text
						if want, ok := knownDrift[fmt.Sprintf("%s/%s/%d/%s", p.g.GOOS, p.g.GOARCH, p.g.Release, p.r.Name)]; ok && p.r.Text == want && p.r.Key == "syscall/syscall" {
							ex = true
						}
					}
				} else if p.t != nil {
					// a missing entry: the api lists are silent about the platform and the sibling lacks it too
					// (the same rule gives coq/gen/BindXDrift_gen.v, see bindCollection.drift)
					ex = p.t.API == nil && sib.rowOf(p.tp.Path+"/"+p.tp.Name, p.t.Name) == nil
				}
			}
		}
		if ex {
			excused = append(excused, m.ID)
			sm.count("excused-release-drift")
			if len(sm.Notes) < 40 {
				sm.Notes = append(sm.Notes, fmt.Sprintf("undecidable offline (release drift, both releases of the table agree): %v: table has %v, go1.23 source wants %v", m.Input, m.Impl, m.Ref))
			}
		} else {
			kept = append(kept, m)
		}
	}
	sm.RefMismatches = kept
	exItems := make([]string, len(excused))
	for i, id := range excused {
		exItems[i] = fmt.Sprintf("%d%%N", id)
	}
	excusedCoq := "Definition excused : list N := " + coqList(exItems) + ".\n"

	// ---------------------------------------------------------------- cases files
	hdr := "From Verif Require Import Lib.Str Bind.Literal Bind.Model Bind.Cases.\n"
	obsText := func(gs []*bindGroup) string {
		var items []string
		for _, g := range gs {
			if o, ok := observedGroups[g.Name]; ok {
				items = append(items, fmt.Sprintf("(%s, [\n  %s])", bindStr(g.Name), strings.Join(o, ";\n  ")))
			}
		}
		return "Definition observed : list (str * list (N * obs)) := [\n" + strings.Join(items, ";\n") + "].\n"
	}
	tail := func(groups string) string {
		return excusedCoq + fmt.Sprintf("Definition MY := Eval vm_compute in without excused (bind_mis_y %s observed).\nPrint MY.\nDefinition MG := Eval vm_compute in bind_mis_g %s.\nPrint MG.\n", groups, groups)
	}
	write := func(name, body string) error {
		sm.CasesFiles = append(sm.CasesFiles, name)
		return os.WriteFile(filepath.Join(*out, name), []byte(body), 0o644)
	}
	math, shards := bindShardsOf(col.Groups)
	if err := write("cases_math.v", hdr+"From Verif Require gen.Bind_math_gen.\nOpen Scope Z_scope.\n"+obsText(math)+tail("Bind_math_gen.groups")); err != nil {
		return err
	}
	for i, s := range shards {
		mod := fmt.Sprintf("Bind_%02d_gen", i)
		if err := write(fmt.Sprintf("cases_%02d.v", i), hdr+"From Verif Require gen."+mod+".\nOpen Scope Z_scope.\n"+obsText(s)+tail(mod+".groups")); err != nil {
			return err
		}
	}
	// the literal parser of the model against go/constant, on seeded literals of every form
	nlit := 4000
	if *tier == "thorough" {
		nlit = 40000
	}
	lits := c14LitStream(*seed, nlit, sm)
	for i, k := 0, 0; i < len(lits); i, k = i+1000, k+1 {
		j := i + 1000
		if j > len(lits) {
			j = len(lits)
		}
		if err := write(fmt.Sprintf("cases_lit%02d.v", k), c14LitCasesFile(lits[i:j])); err != nil {
			return err
		}
	}
	sm.Distribution["literals"] = len(lits)
	// thorough: the remaining groups travel inside the cases files
	var extra []*bindGroup
	for _, g := range col.Groups {
		// quick tier: the cross-platform groups are decided by the theorems of Bind/ShardX*.v over
		// coq/gen/BindX_*_gen.v (same rows, same ids) and by the text reference above
		if !g.Quick && *tier == "thorough" {
			extra = append(extra, g)
		}
	}
	for i, k := 0, 0; i < len(extra); i, k = i+2, k+1 {
		j := i + 2
		if j > len(extra) {
			j = len(extra)
		}
		body := strings.Replace(bindShardText(extra[i:j]), bindGenHeader, hdr+"Open Scope Z_scope.\n", 1)
		if err := write(fmt.Sprintf("cases_x%03d.v", k), body+obsText(extra[i:j])+tail("groups")); err != nil {
			return err
		}
	}

	// ---------------------------------------------------------------- summary
	for i := 0; i < 6 && len(allRows) > 0; i++ {
		rr := allRows[r0.intn(len(allRows))]
		kind := "?"
		if rr.r.truth != nil {
			kind = rr.r.truth.Kind
		}
		sm.Samples = append(sm.Samples, map[string]any{"file": fmt.Sprintf("%s:%d", rr.r.File, rr.r.Line), "table": rr.r.Key, "name": rr.r.Name, "bound": rr.r.Text, "object-kind": kind})
	}
	nGroups, nTruth, nWrap := 0, 0, 0
	nX := 0
	for _, g := range col.Groups {
		if g.SiblingOnly {
			continue
		}
		if g.XPlat {
			nX++
		}
		nGroups++
		for _, tp := range g.Truth {
			nTruth += len(tp.Objs)
		}
		for _, f := range g.Files {
			nWrap += len(f.Wrappers)
		}
	}
	sm.Distribution["groups"] = nGroups
	sm.Distribution["groups-cross-platform"] = nX
	sm.Distribution["rows"] = len(allRows)
	sm.Distribution["rows-observed-in-compiled-tables"] = nObserved
	sm.Distribution["truth-objects"] = nTruth
	sm.Distribution["wrappers"] = nWrap
	sm.DistinctNontriv = len(distinct)
	sm.Exhaustive = true
	sm.Rule = "cases are the table rows themselves (finite space, checked completely for the tier): every entry of the binding files, every exported object of the wrapped packages " +
		"(go/types on $GOROOT/src per platform; completeness), every interface wrapper; distinct = distinct (group, table, name, bound expression); " +
		"non-trivial = the name resolves to an object of the wrapped package, so that a denotation was actually decided"
	sm.Notes = append(sm.Notes,
		fmt.Sprintf("tier %s: %d groups, %d rows (%d observed in the compiled tables of this binary), %d truth objects, %d wrappers", *tier, nGroups, len(allRows), nObserved, nTruth, nWrap),
		"run-time identity: functions by linker name (runtime.FuncForPC), variables by addressability and type, types structurally against go/types, constants by constant.Compare; "+
			"variables cannot be identified by address at run time, their identity is decided on the source text")
	sort.SliceStable(sm.RefMismatches, func(i, j int) bool { return sm.RefMismatches[i].ID < sm.RefMismatches[j].ID })
	if len(sm.CaseIndex) > 60000 {
		// keep the summary small in the thorough tier: the index is only needed for ids that can be reported
		keep := map[string]any{}
		for _, m := range sm.RefMismatches {
			keep[fmt.Sprint(m.ID)] = sm.CaseIndex[fmt.Sprint(m.ID)]
		}
		for _, rr := range allRows {
			if rr.g.Quick {
				keep[fmt.Sprint(rr.r.ID)] = sm.CaseIndex[fmt.Sprint(rr.r.ID)]
			}
		}
		sm.CaseIndex = keep
	}
	return sm.write(*out)
}
