package main

import (
	"fmt"
	"strings"
)

// C12 rich stream: well-typed Go programs assembled from templates with holes.
// Every program prints a marker ("MARK ...") as the first statement of main, in init and in every
// package-level initialiser, so that any execution is visible on Options.Stdout.
// Naming conventions used by the template-level mutation operators (c12_mut.go):
//   roN / soN   receive-only / send-only views of the same channel (operator 26)
//   Limit, Greeting, Ratio, Small   package constants; total (int), origin (Point), names ([]string),
//   ages (map[string]int) package variables usable as replacement operands anywhere.

type c12prog struct {
	Src      string
	Snippets []string // names of the statement snippets used (distribution)
}

type c12gen struct {
	r   *rng
	n   int
	b   *strings.Builder
	use []string
}

func (g *c12gen) id(p string) string { g.n++; return fmt.Sprintf("%s%d", p, g.n) }
func (g *c12gen) w(format string, a ...any) {
	fmt.Fprintf(g.b, format, a...)
	g.b.WriteByte('\n')
}
func (g *c12gen) small() int { return 1 + g.r.intn(9) }

// the kinds and operators are few on purpose: every (kind, operator) combination has to occur in the
// exploration that freezes the table of known escapes (harness/c12_escapes.json)
var c12ArithKinds = []string{"int8", "int32", "int64", "uint", "uint8"}

const c12Prelude = `
type MyInt int
type Other int
type Temp float64
type Heat float64
type Label string
type Title string

type IntSlice []int
type IntArr [3]int
type StrMap map[string]int
type IntChan chan int
type IntFn func(int) int
type Flag bool

type Point struct {
	X, Y int
	Tag  string
}

type Point2 struct {
	X, Y int
	Tag  string
}

type Pair struct {
	A int
	B string
	C float64
}

type Shape interface {
	Area() float64
	Name() string
}

type Namer interface {
	Name() string
}

type Rect struct{ W, H float64 }

func (r Rect) Area() float64 { return r.W * r.H }
func (r Rect) Name() string  { return "rect" }

type Circle struct{ R float64 }

func (c *Circle) Area() float64 { return 3.0 * c.R * c.R }
func (c *Circle) Name() string  { return "circle" }

type Counter struct{ n int }

func (c *Counter) Inc(d int) int { c.n += d; return c.n }
func (c Counter) Get() int       { return c.n }

const Limit = 10
const Ratio float64 = 2.5
const Greeting = "hello"
const Small int8 = 100

var total int = mark("total")
var names = []string{"a", "b", "c"}
var ages = map[string]int{"x": 1, "y": 2}
var origin = Point{1, 2, "o"}
var unit = Rect{1, 1}

// pool begin (one package-level variable per type class; used as replacement operands by the
// type-class sweep, never mutated themselves)
var zInt int = 1
var zInt8 int8 = 3
var zUint uint = 3
var zUint8 uint8 = 3
var zFloat float64 = 1.5
var zFloat32 float32 = 1.5
var zCplx complex128 = complex(1, 2)
var zStr string = "zs"
var zBool bool = true
var zRune rune = 'x'
var zArr [3]int = [3]int{1, 2, 3}
var zPArr *[3]int = &zArr
var zSl []int = []int{1, 2, 3}
var zPSl *[]int = &zSl
var zStrs []string = []string{"p", "q"}
var zBytes []byte = []byte("by")
var zMap map[string]int = map[string]int{"k": 1}
var zPMap *map[string]int = &zMap
var zPStr *string = &zStr
var zCh chan int = make(chan int, 8)
var zRo <-chan int = zCh
var zSo chan<- int = zCh
var zPCh *chan int = &zCh
var zFn func(int) int = func(x int) int { return x }
var zSt Point = Point{1, 2, "z"}
var zPSt *Point = &zSt
var zIf Shape = Rect{1, 1}
var zEf interface{} = 1
var zPInt *int = &zInt
var zErr error
var zNInt MyInt = 3
var zNFloat Temp = 1.5
var zNStr Label = "zl"
var zNBool Flag = true
var zNSl IntSlice = IntSlice{1, 2, 3}
var zPNSl *IntSlice = &zNSl
var zNArr IntArr = IntArr{1, 2, 3}
var zNMap StrMap = StrMap{"k": 1}
var zNCh IntChan = make(IntChan, 2)
var zNFn IntFn = func(x int) int { return x }

// named types defined from named types (two levels), one per class
type MyInt2 MyInt
type Temp2 Temp
type Label2 Label
type Flag2 Flag
type IntSlice2 IntSlice
type IntArr2 IntArr
type StrMap2 StrMap
type IntChan2 IntChan
type IntFn2 IntFn
type Point3 Point
type PInt *int
type PInt2 PInt
type Shape2 Shape
type RecvChan <-chan int
type RecvChan2 RecvChan
type SendChan chan<- int
type SendChan2 SendChan

var zN2Int MyInt2 = 3
var zN2Float Temp2 = 1.5
var zN2Str Label2 = "l2"
var zN2Bool Flag2 = true
var zN2Sl IntSlice2 = IntSlice2{1, 2, 3}
var zN2Arr IntArr2 = IntArr2{1, 2, 3}
var zN2Map StrMap2 = StrMap2(zNMap)
var zN2Ch IntChan2 = make(IntChan2, 2)
var zN2Fn IntFn2 = func(x int) int { return x }
var zN2St Point3 = Point3{1, 2, "z"}
var zNPtr PInt = &zInt
var zN2Ptr PInt2 = &zInt
var zN2If Shape2 = Rect{1, 1}
var zNRo RecvChan = zCh
var zN2Ro RecvChan2 = zCh
var zNSo SendChan = zCh
var zN2So SendChan2 = zCh

// an interface with several parameters and results, and concrete types whose method differs from it
// at exactly one position (impossible type assertions, non-implementing values)
type Sig interface {
	Do(a int, b string, c float64) (int, string)
}
type SigOK struct{}

func (SigOK) Do(a int, b string, c float64) (int, string) { return a, b }

type SigP0 struct{}

func (SigP0) Do(a string, b string, c float64) (int, string) { return 0, b }

type SigP1 struct{}

func (SigP1) Do(a int, b int, c float64) (int, string) { return a, "" }

type SigP2 struct{}

func (SigP2) Do(a int, b string, c int) (int, string) { return a, b }

type SigR0 struct{}

func (SigR0) Do(a int, b string, c float64) (string, string) { return b, b }

type SigR1 struct{}

func (SigR1) Do(a int, b string, c float64) (int, int) { return a, a }

type SigFewP struct{}

func (SigFewP) Do(a int, b string) (int, string) { return a, b }

type SigFewR struct{}

func (SigFewR) Do(a int, b string, c float64) int { return a }

type SigPtr struct{}

func (*SigPtr) Do(a int, b string, c float64) (int, string) { return a, b }

type SigNamedP0 struct{}

func (SigNamedP0) Do(a MyInt, b string, c float64) (int, string) { return 0, b }

type SigNamedR1 struct{}

func (SigNamedR1) Do(a int, b string, c float64) (int, Label) { return a, "" }

type SigOther struct{}

func (SigOther) Done(a int, b string, c float64) (int, string) { return a, b }

var zSig Sig = SigOK{}

type Sig2 interface {
	A(x int) int
	B(s string) string
}
type S2OK struct{}

func (S2OK) A(x int) int       { return x }
func (S2OK) B(s string) string { return s }

type S2AP struct{}

func (S2AP) A(x string) int    { return 0 }
func (S2AP) B(s string) string { return s }

type S2AR struct{}

func (S2AR) A(x int) string    { return "" }
func (S2AR) B(s string) string { return s }

type S2BP struct{}

func (S2BP) A(x int) int    { return x }
func (S2BP) B(s int) string { return "" }

type S2BR struct{}

func (S2BR) A(x int) int    { return x }
func (S2BR) B(s string) int { return 0 }

type S2NoB struct{}

func (S2NoB) A(x int) int { return x }

var zSig2 Sig2 = S2OK{}

// selector lookup: a method and a field reachable through embedded fields only; the same type as a
// named field, behind a pointer, one and two levels deep
type LeafA struct{ x int }

func (a LeafA) Foo() int   { return a.x }
func (a *LeafA) PFoo() int { return a.x }

type EmbV struct{ LeafA }
type EmbP struct{ *LeafA }
type NamV struct{ a LeafA }
type NamP struct{ a *LeafA }
type EmbEmb struct{ EmbV }
type EmbNam struct{ NamV }
type NamEmb struct{ n EmbV }
type NamNam struct{ n NamV }
type DefNam NamV
type DefEmb EmbV

var zLeaf LeafA = LeafA{1}
var zEmbV EmbV = EmbV{LeafA{1}}
var zEmbP EmbP = EmbP{&zLeaf}
var zNamV NamV = NamV{LeafA{1}}
var zNamP NamP = NamP{&zLeaf}
var zEmbEmb EmbEmb = EmbEmb{EmbV{LeafA{1}}}
var zEmbNam EmbNam = EmbNam{NamV{LeafA{1}}}
var zNamEmb NamEmb = NamEmb{EmbV{LeafA{1}}}
var zNamNam NamNam = NamNam{NamV{LeafA{1}}}
var zDefNam DefNam = DefNam{LeafA{1}}
var zDefEmb DefEmb = DefEmb{LeafA{1}}

// call shapes: variadic callees with fixed parameters (function, method, function value)
type Acc struct{ n int }

func (a *Acc) AddAll(base int, more ...int) int { return base + len(more) }
func addAll(base int, more ...int) int          { return base + len(more) }
func pick2(a, b int, more ...int) int            { return a + b + len(more) }
func anyAll(first interface{}, rest ...interface{}) int { return len(rest) }

var zAcc *Acc = &Acc{}
var zAddFn func(int, ...int) int = addAll
var zEfs []interface{} = []interface{}{1, "e"}

func sink(v ...interface{}) {}

// pool end

func mark(s string) int { println("MARK", s); return 1 }

func init() { println("MARK init") }

func add(a, b int) int                { return a + b }
func scale(f float64, k int) float64  { return f * float64(k) }
func divmod(a, b int) (int, int)      { return a / b, a % b }
func triple() (int, string, bool)     { return 1, "t", true }
func single() int                     { return 4 }
func greet(name string) string        { return Greeting + " " + name }
func describe(s Shape) string         { return s.Name() }
func pick(p Point) int                { return p.X + p.Y }
func deref(p *Point) int              { return p.X }
func first(xs []int) int              { return xs[0] }
func lookup(m map[string]int) int     { return m["x"] }
func apply(f func(int) int, v int) int { return f(v) }
func conv(m MyInt) MyInt              { return m + 1 }
func warm(t Temp) Temp                { return t * 2 }
func anyval(v interface{}) bool       { return v != nil }

func sum(xs ...int) int {
	t := 0
	for _, x := range xs {
		t += x
	}
	return t
}

func join(sep string, parts ...string) string {
	out := ""
	for i, p := range parts {
		if i > 0 {
			out += sep
		}
		out += p
	}
	return out
}

func produce(out chan<- int, n int) {
	for i := 0; i < n; i++ {
		out <- i
	}
	close(out)
}

func consume(in <-chan int) int {
	t := 0
	for v := range in {
		t += v
	}
	return t
}

func mkshape(round bool) Shape {
	if round {
		return &Circle{2}
	}
	return Rect{2, 3}
}

func classify(n int) string {
	if n < 0 {
		return "neg"
	}
	return "pos"
}

func noresult(n int) {
	if n > 100 {
		return
	}
	total += n
}
`

// everything before this line of a program is the fixed prelude
const c12PreludeEndMarker = "// ---- generated part"

type c12snippet struct {
	name string
	gen  func(g *c12gen)
}

var c12Snippets = []c12snippet{
	{"arith-int", func(g *c12gen) {
		a, b, c := g.id("a"), g.id("b"), g.id("c")
		g.w("\t%s := %d", a, 5+g.small())
		g.w("\t%s := %d", b, g.small())
		g.w("\t%s := %s %s %s*2 - %s/%s", c, a, g.r.pick([]string{"+", "-", "*"}), b, a, b)
		g.w("\t%s = %s %% %s", c, a, b)
		g.w("\t%s %s %s", c, g.r.pick([]string{"+=", "-=", "*="}), a)
		g.w("\t%s = (%s & %s) | (%s ^ 3) &^ 1", c, a, b, a)
		g.w("\t%s++", c)
		g.w("\tprintln(%s, %s, %s)", a, b, c)
	}},
	{"arith-kind", func(g *c12gen) {
		k := g.r.pick(c12ArithKinds)
		a, b, c := g.id("k"), g.id("k"), g.id("k")
		g.w("\tvar %s %s = %d", a, k, 10+g.small())
		g.w("\tvar %s %s = %d", b, k, g.small())
		g.w("\t%s := %s %s %s", c, a, g.r.pick([]string{"+", "%"}), b)
		g.w("\t%s = %s + 1", c, c)
		g.w("\tprintln(%s > %s, %s)", a, b, c)
	}},
	{"arith-float", func(g *c12gen) {
		x, y, z := g.id("x"), g.id("y"), g.id("z")
		g.w("\t%s := %d.5", x, g.small())
		g.w("\t%s := 2.25", y)
		g.w("\t%s := %s %s %s + %s/%s - 1", z, x, g.r.pick([]string{"*", "+", "-"}), y, x, y)
		g.w("\tvar %s float32 = 1.5", x+"f")
		g.w("\t%s = %s * 2", x+"f", x+"f")
		g.w("\tprintln(%s > 2.0, %s <= %s, %s)", z, x, y, x+"f")
	}},
	{"strings", func(g *c12gen) {
		s, t := g.id("s"), g.id("t")
		g.w("\t%s := %q", s, g.r.pick([]string{"ab", "xyz", "go"}))
		g.w("\t%s := %s + \"cd\"", t, s)
		g.w("\t%s += %s", t, s)
		g.w("\tprintln(%s, len(%s), %s < \"zz\", %s[1], %s == %s)", t, t, t, t, s, t)
	}},
	{"bools", func(g *c12gen) {
		a, p, q := g.id("a"), g.id("p"), g.id("q")
		g.w("\t%s := %d", a, g.small())
		g.w("\t%s := %s > 2", p, a)
		g.w("\t%s := !%s || (%s < 10 && %s != 3)", q, p, a, a)
		g.w("\tvar %s bool = %s && %s", p+"b", p, q)
		g.w("\tprintln(%s, %s == %s, %s)", q, p, q, p+"b")
	}},
	{"unary", func(g *c12gen) {
		a, x, n := g.id("a"), g.id("x"), g.id("n")
		g.w("\t%s := %d", a, g.small())
		g.w("\t%s := 1.5", x)
		g.w("\t%s := -%s", n, a)
		g.w("\t%s = ^%s", n, a)
		g.w("\t%s = +%s", n, n)
		g.w("\t%s = -%s", x, x)
		g.w("\tprintln(%s, %s, !(%s > 1))", n, x, a)
	}},
	{"shifts", func(g *c12gen) {
		a, b, c := g.id("a"), g.id("b"), g.id("c")
		g.w("\t%s := %d", a, g.small())
		g.w("\tvar %s uint = 2", b)
		g.w("\t%s := %s << 2", c, a)
		g.w("\t%s = %s >> %s", c, a, b)
		g.w("\t%s = 1 << 3", c)
		g.w("\t%s <<= 1", c)
		g.w("\tprintln(%s, %s<<%s)", c, a, b)
	}},
	{"compare", func(g *c12gen) {
		p1, p2, m, l := g.id("p"), g.id("p"), g.id("m"), g.id("l")
		g.w("\t%s := Point{1, 2, \"a\"}", p1)
		g.w("\t%s := %s", p2, p1)
		g.w("\tvar %s MyInt = %d", m, g.small())
		g.w("\tvar %s Label = \"l\"", l)
		g.w("\tvar %s MyInt = 4", m+"b")
		g.w("\tprintln(%s == %s, %s != %s, %s == 3, %s < 5, %s == \"l\", %s < %s, %s == %s)", p1, p2, p1, origin(), m, m, l, m, m+"b", m, m+"b")
		g.w("\tprintln(len(names) == len(ages), unit == Rect{1, 1})")
	}},
	{"assign", func(g *c12gen) {
		v, pt, arr, sl, mp, ptr, s := g.id("v"), g.id("pt"), g.id("arr"), g.id("sl"), g.id("mp"), g.id("ptr"), g.id("s")
		g.w("\tvar %s int", v)
		g.w("\t%s = %d", v, g.small())
		g.w("\t%s := Point{}", pt)
		g.w("\t%s.X = %s", pt, v)
		g.w("\t%s.Tag = \"t\"", pt)
		g.w("\tvar %s [3]int", arr)
		g.w("\t%s[1] = %s", arr, v)
		g.w("\t%s := []int{1, 2, 3}", sl)
		g.w("\t%s[0] = %s + 1", sl, v)
		g.w("\t%s := map[string]int{}", mp)
		g.w("\t%s[\"k\"] = %s", mp, v)
		g.w("\t%s := &%s", ptr, v)
		g.w("\t*%s = %d", ptr, g.small())
		g.w("\tvar %s string", s)
		g.w("\t%s = \"w\"", s)
		g.w("\tprintln(%s, %s.X, %s.Tag, %s[1], %s[0], %s[\"k\"], *%s, %s)", v, pt, pt, arr, sl, mp, ptr, s)
	}},
	{"nilable", func(g *c12gen) {
		p, sl, m, f, e := g.id("p"), g.id("sl"), g.id("m"), g.id("f"), g.id("e")
		g.w("\tvar %s *Point = nil", p)
		g.w("\tvar %s []int = nil", sl)
		g.w("\tvar %s map[string]int", m)
		g.w("\tvar %s func(int) int = nil", f)
		g.w("\tvar %s error", e)
		g.w("\tif %s == nil && %s == nil && %s == nil && %s == nil && %s == nil {", p, sl, m, f, e)
		g.w("\t\tprintln(\"nils\")")
		g.w("\t}")
		g.w("\t%s = &origin", p)
		g.w("\tprintln(%s != nil, len(%s))", p, sl)
	}},
	{"const-typed", func(g *c12gen) {
		a, b, c, arr := g.id("c"), g.id("c"), g.id("c"), g.id("arr")
		g.w("\tvar %s int8 = %d", a, 100+g.small())
		g.w("\tvar %s uint8 = %d", b, 200+g.small())
		g.w("\tconst %s int16 = 300", c)
		g.w("\tvar %s uint = %d", a+"u", g.small())
		g.w("\t%s := [3]int{1, 2, 3}", arr)
		g.w("\tprintln(%s, %s, %s, %s, %s[2], int8(%d), uint16(1000))", a, b, c, a+"u", arr, g.small())
	}},
	{"const-div", func(g *c12gen) {
		d, f, a := g.id("d"), g.id("f"), g.id("a")
		g.w("\t%s := 10 / 2", d)
		g.w("\t%s := 7.0 / 2", f)
		g.w("\t%s := %d", a, 10+g.small())
		g.w("\tprintln(%s, %s, %s/3, %s%%4, Limit/5)", d, f, a, a)
	}},
	{"calls", func(g *c12gen) {
		r1, r2, r3, sl := g.id("r"), g.id("r"), g.id("r"), g.id("sl")
		g.w("\t%s := add(%d, %d)", r1, g.small(), g.small())
		g.w("\t%s := scale(1.5, %s)", r2, r1)
		g.w("\t%s := []int{4, 5}", sl)
		g.w("\t%s := sum(1, 2, %s) + sum(%s...) + sum()", r3, r1, sl)
		g.w("\tprintln(%s, %s, %s, join(\"-\", \"a\", \"b\"), greet(\"bob\"), pick(origin), deref(&origin), first(%s), lookup(ages))", r1, r2, r3, sl)
		g.w("\tprintln(conv(3), warm(1.5), anyval(%s), classify(%s))", r1, r1)
		g.w("\tnoresult(%s)", r1)
	}},
	{"multi-return", func(g *c12gen) {
		q, r, a, b, c := g.id("q"), g.id("r"), g.id("a"), g.id("b"), g.id("c")
		g.w("\t%s, %s := divmod(%d, 2)", q, r, 5+g.small())
		g.w("\t%s, %s, %s := triple()", a, b, c)
		g.w("\tvar %s, %s int", q+"v", r+"v")
		g.w("\t%s, %s = divmod(9, 4)", q+"v", r+"v")
		g.w("\tprintln(%s, %s, %s, %s, %s, add(divmod(9, 4)), %s, %s, single())", q, r, a, b, c, q+"v", r+"v")
	}},
	{"methods", func(g *c12gen) {
		c, pt, cv := g.id("c"), g.id("pt"), g.id("cv")
		g.w("\t%s := &Counter{}", c)
		g.w("\t%s.Inc(%d)", c, g.small())
		g.w("\t%s := Point{X: 1}", pt)
		g.w("\t%s := Counter{}", cv)
		g.w("\t%s.Inc(1)", cv)
		g.w("\tprintln(%s.Get(), %s.X, %s.Tag, unit.Area(), %s.Get(), origin.Y)", c, pt, pt, cv)
	}},
	{"interfaces", func(g *c12gen) {
		sh, shapes, nm := g.id("sh"), g.id("shapes"), g.id("nm")
		g.w("\tvar %s Shape = Rect{1, 2}", sh)
		g.w("\tprintln(describe(%s), %s.Area())", sh, sh)
		g.w("\t%s = &Circle{1}", sh)
		g.w("\t%s := []Shape{Rect{1, 1}, &Circle{2}, mkshape(true)}", shapes)
		g.w("\tvar %s Namer = %s", nm, sh)
		g.w("\t%s = unit", nm)
		g.w("\tprintln(describe(%s), describe(Rect{2, 3}), describe(&Circle{3}), len(%s), %s.Name(), describe(Shape(unit)))", sh, shapes, nm)
	}},
	{"assertion", func(g *c12gen) {
		sh, e, n := g.id("sh"), g.id("e"), g.id("n")
		g.w("\tvar %s Shape = Rect{1, 2}", sh)
		g.w("\tif r, ok := %s.(Rect); ok {", sh)
		g.w("\t\tprintln(r.W)")
		g.w("\t}")
		g.w("\tif c, ok := %s.(*Circle); ok {", sh)
		g.w("\t\tprintln(c.R)")
		g.w("\t}")
		g.w("\tvar %s interface{} = %d", e, g.small())
		g.w("\t%s := %s.(int)", n, e)
		g.w("\t_, isNamer := %s.(Namer)", sh)
		g.w("\tprintln(%s, isNamer)", n)
	}},
	{"typeswitch", func(g *c12gen) {
		e := g.id("e")
		g.w("\tvar %s interface{} = %s", e, g.r.pick([]string{"3", `"s"`, "1.5", "true"}))
		g.w("\tswitch v := %s.(type) {", e)
		g.w("\tcase int:")
		g.w("\t\tprintln(\"int\", v+1)")
		g.w("\tcase string:")
		g.w("\t\tprintln(\"string\", v+\"!\")")
		g.w("\tcase float64, bool:")
		g.w("\t\tprintln(\"other\")")
		g.w("\tdefault:")
		g.w("\t\tprintln(\"default\")")
		g.w("\t}")
	}},
	{"conditions", func(g *c12gen) {
		a := g.id("a")
		g.w("\t%s := %d", a, g.small())
		g.w("\tif %s > 1 {", a)
		g.w("\t\tprintln(\"big\")")
		g.w("\t} else if %s == 0 {", a)
		g.w("\t\tprintln(\"zero\")")
		g.w("\t} else {")
		g.w("\t\tprintln(\"small\")")
		g.w("\t}")
		g.w("\tfor i := 0; i < 3; i++ {")
		g.w("\t\t%s += i", a)
		g.w("\t}")
		g.w("\tfor %s < 20 {", a)
		g.w("\t\t%s++", a)
		g.w("\t}")
		g.w("\tif ok := %s > 3; ok {", a)
		g.w("\t\tprintln(%s)", a)
		g.w("\t}")
	}},
	{"struct-lit", func(g *c12gen) {
		a, b, c, d := g.id("sa"), g.id("sb"), g.id("sc"), g.id("sd")
		g.w("\t%s := Point{X: 1, Y: %d, Tag: \"t\"}", a, g.small())
		g.w("\t%s := Pair{%d, \"b\", 2.5}", b, g.small())
		g.w("\t%s := []Point{{1, 2, \"a\"}, {X: 3}}", c)
		g.w("\t%s := &Pair{A: 1, B: \"x\"}", d)
		g.w("\tse%s := Pair{1, \"b\", (2 * unit.W)}", a)
		g.w("\tprintln(%s.Y, %s.B, len(%s), %s.A, Rect{W: 1.5, H: 2}.Area(), se%s.C)", a, b, c, d, a)
	}},
	{"array-lit", func(g *c12gen) {
		a, b, c, d := g.id("la"), g.id("lb"), g.id("lc"), g.id("ld")
		g.w("\t%s := []int{1, %d, 3}", a, g.small())
		g.w("\t%s := [4]int{0: 1, 2: 5}", b)
		g.w("\t%s := [...]string{\"a\", \"b\"}", c)
		g.w("\t%s := [][]int{{1}, {2, 3}}", d)
		g.w("\tle%s := []int{(2 - origin.X), -origin.Y}", a)
		g.w("\tprintln(%s[1], %s[2], len(%s), len(%s), []float64{1, 2.5}[1], [2]bool{true, false}[0], le%s[0])", a, b, c, d, a)
	}},
	{"map-lit", func(g *c12gen) {
		a, b, c := g.id("ma"), g.id("mb"), g.id("mc")
		g.w("\t%s := map[string]int{\"a\": 1, \"b\": %d}", a, g.small())
		g.w("\t%s := map[int]string{1: \"x\", 2: \"y\"}", b)
		g.w("\t%s := map[string]Point{\"o\": {1, 2, \"p\"}, \"q\": origin}", c)
		g.w("\tprintln(%s[\"a\"], %s[2], %s[\"o\"].X, len(map[MyInt]bool{1: true}))", a, b, c)
	}},
	{"builtins", func(g *c12gen) {
		sl, dst, mp, ch, p, st := g.id("sl"), g.id("dst"), g.id("mp"), g.id("ch"), g.id("p"), g.id("st")
		g.w("\t%s := make([]int, 2, 4)", sl)
		g.w("\t%s = append(%s, 1, %d)", sl, sl, g.small())
		g.w("\t%s = append(%s, %s...)", sl, sl, sl)
		g.w("\t%s := make([]int, 3)", dst)
		g.w("\tcopy(%s, %s)", dst, sl)
		g.w("\t%s := make(map[string]int)", mp)
		g.w("\t%s[\"a\"] = 1", mp)
		g.w("\tdelete(%s, \"a\")", mp)
		g.w("\t%s := make(chan int, 1)", ch)
		g.w("\tclose(%s)", ch)
		g.w("\t%s := new(int)", p)
		g.w("\t%s := []string{\"s\"}", st)
		g.w("\t%s = append(%s, \"t\")", st, st)
		g.w("\tif len(%s) > 100 {", sl)
		g.w("\t\tpanic(\"big\")")
		g.w("\t}")
		g.w("\tprintln(len(%s), cap(%s), len(%s), len(%s), *%s, len(\"abc\"), len(%s), cap(%s), copy(%s, %s[1:]))", sl, sl, dst, mp, p, st, ch, dst, sl)
	}},
	{"channels", func(g *c12gen) {
		ch, c2, n := g.id("ch"), g.id("ch"), g.id("")
		ro, so := "ro"+n, "so"+n
		g.w("\t%s := make(chan int, 3)", ch)
		g.w("\tgo produce(%s, 3)", ch)
		g.w("\tprintln(consume(%s))", ch)
		g.w("\t%s := make(chan int, 2)", c2)
		g.w("\tvar %s <-chan int = %s", ro, c2)
		g.w("\tvar %s chan<- int = %s", so, c2)
		g.w("\t%s <- %d", so, g.small())
		g.w("\t%s <- 2", c2)
		g.w("\tv%s := <-%s", n, ro)
		g.w("\tclose(%s)", so)
		g.w("\tfor w := range %s {", ro)
		g.w("\t\tprintln(w)")
		g.w("\t}")
		g.w("\tprintln(v%s, len(%s))", n, c2)
	}},
	{"conversions", func(g *c12gen) {
		a, x, s, bs := g.id("a"), g.id("x"), g.id("s"), g.id("bs")
		g.w("\t%s := %d", a, 60+g.small())
		g.w("\t%s := 2.75", x)
		g.w("\t%s := \"hey\"", s)
		g.w("\t%s := []byte(%s)", bs, s)
		g.w("\tprintln(float64(%s)+%s, int(%s), string(rune(%s)), string(%s), MyInt(%s)+1, Temp(%s), Label(%s), uint8(%s), Other(MyInt(2)), Point2(origin).X, []rune(%s)[0])", a, x, x, a, bs, a, x, s, a, s)
	}},
	{"slicing", func(g *c12gen) {
		sl, arr, s := g.id("sl"), g.id("arr"), g.id("s")
		g.w("\t%s := []int{1, 2, 3, 4}", sl)
		g.w("\t%s := [4]int{1, 2, 3, 4}", arr)
		g.w("\t%s := \"hello\"", s)
		g.w("\tprintln(len(%s[1:2]), len(%s[:2]), %s[1:], len(%s[0:1:2]), len((&%s)[1:]), len(%s[:]), %s[1:3])", sl, arr, s, sl, arr, sl, s)
	}},
	{"indexing", func(g *c12gen) {
		i, sl, s, arr := g.id("i"), g.id("sl"), g.id("s"), g.id("arr")
		g.w("\t%s := 1", i)
		g.w("\t%s := []string{\"p\", \"q\"}", sl)
		g.w("\t%s := \"str\"", s)
		g.w("\t%s := [3]float64{1, 2, 3}", arr)
		g.w("\tv%s, ok%s := ages[\"z\"]", i, i)
		g.w("\tprintln(ages[\"x\"], %s[%s], %s[0], %s[2], v%s, ok%s, names[%s], (&%s)[1])", sl, i, s, arr, i, i, i, arr)
	}},
	{"address", func(g *c12gen) {
		a, p, pp, q, sl := g.id("a"), g.id("p"), g.id("pp"), g.id("q"), g.id("sl")
		g.w("\t%s := %d", a, g.small())
		g.w("\t%s := &%s", p, a)
		g.w("\t*%s = 3", p)
		g.w("\t%s := &origin", pp)
		g.w("\t%s := &Point{X: 2}", q)
		g.w("\t%s := []int{1, 2}", sl)
		g.w("\tr%s := &%s[0]", a, sl)
		g.w("\tprintln(*%s, %s.X, (*%s).Y, %s.X, *r%s, *&%s)", p, pp, pp, q, a, a)
	}},
	{"labels", func(g *c12gen) {
		n := g.id("")
		g.w("outer%s:", n)
		g.w("\tfor i := 0; i < 3; i++ {")
		g.w("\t\tfor j := 0; j < 3; j++ {")
		g.w("\t\t\tif j == 1 {")
		g.w("\t\t\t\tcontinue outer%s", n)
		g.w("\t\t\t}")
		g.w("\t\t\tif i == 2 {")
		g.w("\t\t\t\tbreak outer%s", n)
		g.w("\t\t\t}")
		g.w("\t\t\tprintln(i, j)")
		g.w("\t\t}")
		g.w("\t}")
		g.w("other%s:", n)
		g.w("\tfor k := 0; k < 2; k++ {")
		g.w("\t\tif k == 1 {")
		g.w("\t\t\tbreak other%s", n)
		g.w("\t\t}")
		g.w("\t}")
	}},
	{"consts", func(g *c12gen) {
		k, kk, v := g.id("k"), g.id("kk"), g.id("v")
		g.w("\tconst %s = %d", k, g.small())
		g.w("\t%s := %s + Limit", kk, k)
		g.w("\tvar %s int = 1", v)
		g.w("\t%s = %s + 1", v, kk)
		g.w("\t%s++", v)
		g.w("\tprintln(%s, %s, Ratio*2, Greeting+\"!\", Small)", kk, v)
	}},
	{"blank", func(g *c12gen) {
		a, r := g.id("a"), g.id("r")
		g.w("\t%s := %d", a, g.small())
		g.w("\t_ = %s", a)
		g.w("\t_, %s := divmod(%s, 1)", r, a)
		g.w("\tprintln(%s + %s)", r, a)
	}},
	{"switch", func(g *c12gen) {
		a := g.id("a")
		g.w("\t%s := %d", a, g.small())
		g.w("\tswitch %s {", a)
		g.w("\tcase 1:")
		g.w("\t\tprintln(\"one\")")
		g.w("\t\tfallthrough")
		g.w("\tcase 2, 3:")
		g.w("\t\tprintln(\"two\")")
		g.w("\tdefault:")
		g.w("\t\tprintln(\"many\")")
		g.w("\t}")
		g.w("\tswitch {")
		g.w("\tcase %s > 5:", a)
		g.w("\t\tprintln(\"gt\")")
		g.w("\tcase %s < 2:", a)
		g.w("\t\tprintln(\"lt\")")
		g.w("\t}")
	}},
	{"closures", func(g *c12gen) {
		a, f, h := g.id("a"), g.id("f"), g.id("h")
		g.w("\t%s := %d", a, g.small())
		g.w("\t%s := func(x int) int { return x + %s }", f, a)
		g.w("\t%s := func(s string, n int) (string, int) { return s, n * 2 }", h)
		g.w("\ts%s, n%s := %s(\"z\", 2)", a, a, h)
		g.w("\tdefer func() { println(\"deferred\") }()")
		g.w("\tprintln(apply(%s, 2), %s(3), s%s, n%s, func() int { return 1 }())", f, f, a, a)
	}},
	{"ranges", func(g *c12gen) {
		t := g.id("t")
		g.w("\t%s := 0", t)
		g.w("\tfor i, v := range []int{1, 2, 3} {")
		g.w("\t\t%s += i * v", t)
		g.w("\t}")
		g.w("\tfor k, v := range ages {")
		g.w("\t\t%s += len(k) + v", t)
		g.w("\t}")
		g.w("\tfor _, c := range \"ab\" {")
		g.w("\t\t%s += int(c)", t)
		g.w("\t}")
		g.w("\tfor i := range names {")
		g.w("\t\t%s += i", t)
		g.w("\t}")
		g.w("\tprintln(%s)", t)
	}},
	{"stdlib", func(g *c12gen) {
		s, n := g.id("s"), g.id("n")
		g.w("\t%s := strings.ToUpper(\"abc\") + strings.Repeat(\"x\", %d)", s, g.small())
		g.w("\t%s := strconv.Itoa(%d)", n, g.small())
		g.w("\tprintln(%s, %s, strings.Contains(%s, \"A\"), strings.Join(names, \",\"), strings.Index(%s, \"B\")+1)", s, n, s, s)
	}},
}

func origin() string { return "origin" }

// c12Program builds one well-typed program: the prelude plus a seeded selection of statement
// snippets spread over main and one or two helper functions.
func c12Program(r *rng, nSnip int) c12prog {
	g := &c12gen{r: r, b: &strings.Builder{}}
	perm := make([]int, len(c12Snippets))
	for i := range perm {
		perm[i] = i
	}
	for i := len(perm) - 1; i > 0; i-- {
		j := r.intn(i + 1)
		perm[i], perm[j] = perm[j], perm[i]
	}
	if nSnip > len(perm) {
		nSnip = len(perm)
	}
	chosen := perm[:nSnip]
	useStd := false
	for _, i := range chosen {
		if c12Snippets[i].name == "stdlib" {
			useStd = true
		}
	}
	g.w("package main")
	if useStd {
		g.w("\nimport (\n\t\"strconv\"\n\t\"strings\"\n)")
	}
	g.b.WriteString(c12Prelude)
	g.w("\n" + c12PreludeEndMarker)
	// one helper function receives about a third of the snippets
	var inMain, inHelper []int
	for _, i := range chosen {
		if r.chance(30) && c12Snippets[i].name != "closures" {
			inHelper = append(inHelper, i)
		} else {
			inMain = append(inMain, i)
		}
	}
	var used []string
	if len(inHelper) > 0 {
		g.w("\nfunc helper() int {")
		for _, i := range inHelper {
			g.w("\t// snippet %s", c12Snippets[i].name)
			c12Snippets[i].gen(g)
			used = append(used, c12Snippets[i].name)
		}
		g.w("\t// snippet helper-tail")
		g.w("\treturn %d", g.small())
		g.w("}")
	}
	g.w("\nfunc main() {")
	g.w("\tprintln(\"MARK main\")")
	for _, i := range inMain {
		g.w("\t// snippet %s", c12Snippets[i].name)
		c12Snippets[i].gen(g)
		used = append(used, c12Snippets[i].name)
	}
	if len(inHelper) > 0 {
		g.w("\t// snippet main-tail")
		g.w("\tprintln(helper())")
	}
	g.w("}")
	return c12prog{Src: g.b.String(), Snippets: used}
}

// c12ProgramOf builds a program from the named snippets only (used to re-explore single snippets).
func c12ProgramOf(r *rng, names []string) c12prog {
	g := &c12gen{r: r, b: &strings.Builder{}}
	g.w("package main")
	for _, n := range names {
		if n == "stdlib" {
			g.w("\nimport (\n\t\"strconv\"\n\t\"strings\"\n)")
		}
	}
	g.b.WriteString(c12Prelude)
	g.w("\n" + c12PreludeEndMarker)
	g.w("\nfunc main() {")
	g.w("\tprintln(\"MARK main\")")
	for _, n := range names {
		for _, sn := range c12Snippets {
			if sn.name == n {
				g.w("\t// snippet %s", sn.name)
				sn.gen(g)
			}
		}
	}
	g.w("}")
	return c12prog{Src: g.b.String(), Snippets: names}
}

// c12PreludeProgram: the fixed prelude followed by every snippet, in order, all in main. The sites of
// the prelude are mutated in this program only: whether yaegi rejects a broken package-level
// declaration depends on which uses of it follow, so the uses are kept the same in every run.
func c12PreludeProgram(r *rng) c12prog {
	var names []string
	for _, sn := range c12Snippets {
		names = append(names, sn.name)
	}
	return c12ProgramOf(r, names)
}
