package main

// C08, two more dimensions of the operand family (same closed form g_ops; see c08_ops.go).
//
// (A) assertion outcome: assertion FORM x KIND of asserted type, where the goroutines executing the one statement
//     have DIFFERENT outcomes (even workers hold a value that satisfies the assertion, odd workers one that does
//     not). A status, result or dynamic type kept per statement instead of per execution makes a worker take the
//     other branch: it then calls a method on a zero value or asserts the wrong concrete type (panic), or uses
//     the wrong base (wrong figure). Forms: v, ok := x.(T); _, ok := x.(T); type switch. Kinds of T: script
//     interface, stdlib interface, concrete struct, basic type.
//
// (B) closure nesting: WHERE the goroutine's closure is created x WHICH variable of the enclosing function it
//     captures. Contexts: inside a function literal called on the spot (with a deferred unlock), inside two nested
//     called literals, inside a closure stored in a variable and called, returned by a called literal and started
//     afterwards. Captured: a body-local := variable, the range value, the range key, a 3-clause loop variable —
//     all of them re-created by the enclosing function for the next iteration while the goroutines wait at a barrier.
//     A closure frame that is not a snapshot of the enclosing frame makes every goroutine see a later iteration's
//     variable.

const c08assertDecls = `type Shape interface{ Base() int }
type sq struct{ base int }
func (s sq) Base() int      { return s.base }
func (s sq) String() string { return "sq" }
type dot struct{ base int }
func mkval(i, b int) interface{} {
	if i%2 == 0 {
		return sq{b}
	}
	return dot{b}
}`

const c08assertPrep = "vs := make([]interface{}, @N@)\n\tfor i := range vs {\n\t\tvs[i] = mkval(i, i*@A@+@B@)\n\t}"

func c08assertTpl(name, imports, test string) c08opsTpl {
	t := c08opsTpl{
		Name:   name,
		Decls:  c08assertDecls,
		Params: "v interface{}",
		Body:   "s := 0\n\t" + c08opsLoop + "{\n\t\tb := -1\n\t\t" + test + "\n\t\ts += (b + x) % 1009\n\t}",
		Prep:   c08assertPrep,
		Args:   "vs[id]",
		KMul:   8,
	}
	if imports != "" {
		t.Imports = []string{imports}
	}
	return t
}

var c08NestCtx = []struct{ Name, Code string }{ // %G = the go statement of the worker closure
	{"calledlit", "func() {\n\t\t\tmu.Lock()\n\t\t\tdefer mu.Unlock()\n\t\t\twg.Add(1)\n\t\t\t%G\n\t\t}()"},
	{"calledlit2", "func() {\n\t\t\tfunc() {\n\t\t\t\twg.Add(1)\n\t\t\t\t%G\n\t\t\t}()\n\t\t}()"},
	{"closvarcall", "launch := func() {\n\t\t\twg.Add(1)\n\t\t\t%G\n\t\t}\n\t\tlaunch()"},
	{"litret", "g := func() func() {\n\t\t\treturn %F\n\t\t}()\n\t\twg.Add(1)\n\t\tgo g()"},
}

var c08NestVar = []struct{ Name, Head string }{
	{"local", "for _, v := range pool {\n\t\tid := v\n"},
	{"rangeval", "for _, id := range pool {\n"},
	{"rangekey", "for id := range pool {\n"},
	{"forvar", "for id := 0; id < @N@; id++ {\n"},
}

const c08nestWorker = "func() {\n\t\t\t\tdefer wg.Done()\n\t\t\t\t<-start\n\t\t\t\tbase := id*@A@ + @B@\n\t\t\t\ts := 0\n\t\t\t\tfor x := 1; x <= @K@; x++ {\n\t\t\t\t\ts += (base + x) % 1009\n\t\t\t\t}\n\t\t\t\tres[id] = s\n\t\t\t}"

// cells where the unchanged tree disagrees with compiled Go for a reason outside C08 (verified cell by cell)
var c08NestSkip = map[string]string{}

func init() {
	// (A)
	c08Ops = append(c08Ops,
		c08assertTpl("assert-ok-scriptif", "", "if sh, ok := v.(Shape); ok {\n\t\t\tb = sh.Base()\n\t\t} else {\n\t\t\tb = v.(dot).base\n\t\t}"),
		c08assertTpl("assert-blankok-scriptif", "", "if _, ok := v.(Shape); ok {\n\t\t\tb = v.(sq).base\n\t\t} else {\n\t\t\tb = v.(dot).base\n\t\t}"),
		c08assertTpl("assert-ok-binif", "", "if st, ok := v.(fmt.Stringer); ok {\n\t\t\tb = v.(sq).base + len(st.String()) - 2\n\t\t} else {\n\t\t\tb = v.(dot).base\n\t\t}"),
		c08assertTpl("assert-ok-concrete", "", "if q, ok := v.(sq); ok {\n\t\t\tb = q.base\n\t\t} else if d, ok := v.(dot); ok {\n\t\t\tb = d.base\n\t\t}"),
	)
	// a type switch with an INTERFACE case: the clause's closure materialises the reflect type of the case at run
	// time (itype.TypeOf -> refType) and refType fills its cache without a lock: race report on the unchanged tree
	// (known finding, region case-lazy-reftype); the output is right
	sw := c08assertTpl("assert-switch-mixed", "", "switch t := v.(type) {\n\t\tcase Shape:\n\t\t\tb = t.Base()\n\t\tcase dot:\n\t\t\tb = t.base\n\t\t}")
	sw.Region = regionLazyType
	c08Ops = append(c08Ops, sw)
	// (B)
	for _, c := range c08NestCtx {
		for _, v := range c08NestVar {
			code := c.Code
			code = replaceAll(code, "%G", "go "+c08nestWorker+"()")
			code = replaceAll(code, "%F", c08nestWorker)
			name := "nest-" + c.Name + "-" + v.Name
			c08Ops = append(c08Ops, c08opsTpl{
				Name:  name,
				Prep:  "pool := make([]int, @N@)\n\tfor i := range pool {\n\t\tpool[i] = i\n\t}\n\tvar mu sync.Mutex\n\tmu.Lock()\n\tmu.Unlock()\n\tstart := make(chan bool)",
				Spawn: v.Head + "\t\t" + code + "\n\t}",
				Post:  "close(start)",
				Skip:  c08NestSkip[name],
			})
		}
	}
}

func replaceAll(s, old, new string) string {
	for {
		i := indexOf(s, old)
		if i < 0 {
			return s
		}
		s = s[:i] + new + s[i+len(old):]
	}
}

func indexOf(s, sub string) int {
	for i := 0; i+len(sub) <= len(s); i++ {
		if s[i:i+len(sub)] == sub {
			return i
		}
	}
	return -1
}
