package main

import (
	"bytes"
	"context"
	"errors"
	"fmt"
	"os"
	"path/filepath"
	"strings"
	"time"

	"github.com/traefik/yaegi/interp"
	"github.com/traefik/yaegi/stdlib"
)

// C06, "a panic never escapes": every entry point of the interpreter x every place where script
// code can panic x panic value class, each cell in a child process (c06-child), on a fresh
// interpreter with a GOPATH tree holding the source packages. Contract for every cell: the entry
// point returns an error of type interp.Panic carrying the value (REPL: prints it and goes on), no
// Go panic reaches the host (neither on the calling goroutine nor, fatally, on another one), and the
// same interpreter evaluates 1+1 afterwards. Compared with the contract, not with Coq.

var c06Entries = []string{"Eval", "EvalWithContext", "EvalPath", "EvalPathWithContext", "CompileExecute", "CompileExecuteWithContext", "REPL"}

// main: body of main; init: init function of the evaluated package; pkgvar: package variable
// initialiser; deferred: deferred call of main; impinit / impvar: init function / variable
// initialiser of an imported SOURCE package (run while the importer is compiled); nested: function
// called from main three levels down with deferred calls on the way
var c06Sites = []string{"main", "init", "pkgvar", "deferred", "nested", "impinit", "impvar"}
var c06EntryVals = []string{"str", "err", "fault"}

type c06EntryIn struct {
	Entry string `json:"entry"`
	Site  string `json:"site"`
	Val   string `json:"val"`
}

func c06EntryPanicStmt(val string) (stmt, imports, want string) {
	switch val {
	case "str":
		return "panic(\"s1\")", "", "value:s1"
	case "err":
		return "panic(errors.New(\"e1\"))", "\"errors\"", "value:e1"
	}
	return "var nm map[string]int\n\tnm[\"a\"] = 1", "", "NilMapWrite"
}

// c06EntrySources returns the evaluated source (a main package; for the REPL: lines) and the files of the GOPATH tree.
func c06EntrySources(in c06EntryIn) (src string, files map[string]string, want string) {
	stmt, imp, want := c06EntryPanicStmt(in.Val)
	files = map[string]string{}
	imports := func(extra ...string) string {
		all := append([]string{}, extra...)
		if imp != "" {
			all = append(all, imp)
		}
		if len(all) == 0 {
			return ""
		}
		return "import (\n\t" + strings.Join(all, "\n\t") + "\n)\n\n"
	}
	repl := in.Entry == "REPL"
	dep := "d" + in.Site + in.Val
	switch in.Site {
	case "main":
		// (main panics the first time only: every later Eval on the interpreter runs main again)
		src = "package main\n\n" + imports() + "var runs int\n\nfunc main() {\n\truns++\n\tif runs > 1 {\n\t\treturn\n\t}\n\t" + stmt + "\n}\n"
		if repl {
			src = replImports(imp) + "func f() {\n\t" + stmt + "\n}\nf()\n"
		}
	case "init":
		src = "package main\n\n" + imports() + "func init() {\n\t" + stmt + "\n}\n\nfunc main() {}\n"
		if repl {
			src = "" // no init function at the prompt
		}
	case "pkgvar":
		src = "package main\n\n" + imports() + "var x = f()\n\nfunc f() int {\n\t" + stmt + "\n\treturn 1\n}\n\nfunc main() { _ = x }\n"
		if repl {
			src = replImports(imp) + "func f() int {\n\t" + stmt + "\n\treturn 1\n}\nvar x = f()\n"
		}
	case "deferred":
		src = "package main\n\n" + imports() + "var runs int\n\nfunc main() {\n\truns++\n\tif runs > 1 {\n\t\treturn\n\t}\n\tdefer func() {\n\t" + stmt + "\n\t}()\n}\n"
		if repl {
			src = replImports(imp) + "func g() {\n\tdefer func() {\n\t" + stmt + "\n\t}()\n}\ng()\n"
		}
	case "nested":
		body := "func c() {\n\t" + stmt + "\n}\n\nfunc b() {\n\tdefer func() {}()\n\tc()\n}\n\nfunc a() {\n\tdefer func() { sink++ }()\n\tb()\n}\n"
		body = "var sink int\n\n" + body
		src = "package main\n\n" + imports() + "var runs int\n\n" + body + "\nfunc main() {\n\truns++\n\tif runs > 1 {\n\t\treturn\n\t}\n\ta()\n}\n"
		if repl {
			src = replImports(imp) + strings.ReplaceAll(body, "\n\n", "\n") + "a()\n"
		}
	case "impinit", "impvar":
		pkg := "package " + dep + "\n\n" + imports() + "var V = 1\n\nfunc init() {\n\t" + stmt + "\n}\n"
		if in.Site == "impvar" {
			pkg = "package " + dep + "\n\n" + imports() + "var V = f()\n\nfunc f() int {\n\t" + stmt + "\n\treturn 1\n}\n"
		}
		files["src/c06dep/"+dep+"/p.go"] = pkg
		src = "package main\n\nimport \"c06dep/" + dep + "\"\n\nfunc main() { _ = " + dep + ".V }\n"
		if repl {
			src = "import \"c06dep/" + dep + "\"\n"
		}
	}
	return src, files, want
}

func replImports(imp string) string {
	if imp == "" {
		return ""
	}
	return "import " + imp + "\n"
}

func c06EntryCells() []c06EntryIn {
	var cs []c06EntryIn
	for _, e := range c06Entries {
		for _, s := range c06Sites {
			for _, v := range c06EntryVals {
				if e == "REPL" && s == "init" {
					continue
				}
				cs = append(cs, c06EntryIn{e, s, v})
			}
		}
	}
	return cs
}

// c06EntryExpectedToday: cells where the unchanged tree breaks the contract (finding
// import-init-panic-escapes): a panic raised while an imported source package is initialised happens
// inside the compilation of the importer, outside Execute's recover; only EvalWithContext (and so the
// REPL) recovers it. Returns the outcome yaegi produces today, "" where it honours the contract.
func c06EntryExpectedToday(in c06EntryIn, want string) string {
	if in.Site != "impinit" && in.Site != "impvar" {
		return ""
	}
	switch in.Entry {
	case "Eval", "EvalPath", "CompileExecute", "CompileExecuteWithContext":
		return "host-panic:" + want // escapes as a Go panic on the calling goroutine
	case "EvalPathWithContext":
		return "host-crash" // escapes on the goroutine started by EvalPathWithContext: the process dies
	}
	return ""
}

// c06RunEntry runs one cell (in the child process) and returns [outcome, usability].
func c06RunEntry(in c06EntryIn, timeout time.Duration) []string {
	src, files, _ := c06EntrySources(in)
	dir, err := os.MkdirTemp("", "vh-c06e-*")
	if err != nil {
		return []string{"setup:" + err.Error(), ""}
	}
	defer os.RemoveAll(dir)
	files["src/c06main/main.go"] = src
	for name, content := range files {
		full := filepath.Join(dir, name)
		os.MkdirAll(filepath.Dir(full), 0o755)
		os.WriteFile(full, []byte(content), 0o644)
	}
	var stdout, stderr bytes.Buffer
	stdin := strings.NewReader(src + "import \"fmt\"\nfmt.Println(\"alive\", 1+1)\n")
	i := interp.New(interp.Options{GoPath: dir, Stdout: &stdout, Stderr: &stderr, Stdin: stdin})
	if err := i.Use(stdlib.Symbols); err != nil {
		return []string{"setup:" + err.Error(), ""}
	}
	guarded := func(f func() error) string {
		done := make(chan string, 1)
		go func() {
			defer func() {
				if r := recover(); r != nil {
					done <- "host-panic:" + classifyPanic(strings.TrimPrefix(firstLine(fmt.Sprint(r)), "runtime error: "))
				}
			}()
			err := f()
			var p interp.Panic
			switch {
			case err == nil:
				done <- "ok"
			case errors.As(err, &p):
				done <- "panic-err:" + classifyPanic(strings.TrimPrefix(p.Error(), "runtime error: "))
			default:
				done <- "error:" + firstLine(err.Error())
			}
		}()
		select {
		case r := <-done:
			return r
		case <-time.After(timeout + 2*time.Second):
			return "timeout"
		}
	}
	path := filepath.Join(dir, "src/c06main/main.go")
	ctx, cancel := context.WithTimeout(context.Background(), timeout)
	defer cancel()
	var outcome string
	switch in.Entry {
	case "Eval":
		outcome = guarded(func() error { _, err := i.Eval(src); return err })
	case "EvalWithContext":
		outcome = guarded(func() error { _, err := i.EvalWithContext(ctx, src); return err })
	case "EvalPath":
		outcome = guarded(func() error { _, err := i.EvalPath(path); return err })
	case "EvalPathWithContext":
		outcome = guarded(func() error { _, err := i.EvalPathWithContext(ctx, path); return err })
	case "CompileExecute":
		outcome = guarded(func() error {
			p, err := i.Compile(src)
			if err != nil {
				return err
			}
			_, err = i.Execute(p)
			return err
		})
	case "CompileExecuteWithContext":
		outcome = guarded(func() error {
			p, err := i.Compile(src)
			if err != nil {
				return err
			}
			_, err = i.ExecuteWithContext(ctx, p)
			return err
		})
	case "REPL":
		outcome = guarded(func() error { _, err := i.REPL(); return err })
		// the REPL prints the panic on its error stream and goes on with the next line
		_, _, want := c06EntrySources(in)
		shown := false
		for _, l := range strings.Split(stderr.String(), "\n") {
			if "value:"+l == want || classifyPanic(strings.TrimPrefix(l, "runtime error: ")) == want {
				shown = true
			}
		}
		if (outcome == "ok" || strings.HasPrefix(outcome, "panic-err:")) && shown {
			outcome = "panic-err:" + want
		} else {
			outcome = "repl:" + outcome + ":shown=" + fmt.Sprint(shown)
		}
		if strings.Contains(stdout.String(), "alive 2") {
			return []string{outcome, "usable"}
		}
		return []string{outcome, "unusable:" + firstLine(stdout.String())}
	}
	if outcome == "ok" {
		// Every cell panics, so a normal return is anomalous. One cause: the panic escaped on a goroutine
		// started by the entry point, whose deferred close(done) lets the caller go on for a moment while
		// the process is already dying. Give that death the time to happen inside this cell, so that it
		// is observed here (no real-time bound is relied on when the process survives: the cell is then
		// reported with the outcome "ok").
		time.Sleep(3 * time.Second)
	}
	usable := guarded(func() error {
		v, err := i.Eval("1+1")
		if err != nil {
			return err
		}
		if !v.IsValid() || fmt.Sprint(v.Interface()) != "2" {
			return fmt.Errorf("1+1 evaluates to %v", v)
		}
		return nil
	})
	if usable == "ok" {
		usable = "usable"
	} else {
		usable = "unusable:" + usable
	}
	return []string{outcome, usable}
}
