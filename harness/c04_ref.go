package main

import (
	"fmt"
	"reflect"
)

// Reference interpreter of the C04 operation grammar: a Go transcription of model G
// (coq/Mem/GoStore.v).  It is used by the generator to know the current state (so that indices,
// nil-ness, lengths and capacities of generated operations are valid), to predict panics, and to
// produce the growth table handed to the Coq models.  It is *not* an oracle: the oracles are the
// compiled Go program (for yaegi and for G) and the Coq models.

type c04path struct {
	L int
	S []int
}

func (p c04path) sub(i int) c04path {
	s := make([]int, len(p.S)+1)
	copy(s, p.S)
	s[len(p.S)] = i
	return c04path{p.L, s}
}

func (p c04path) eq(q c04path) bool {
	if p.L != q.L || len(p.S) != len(q.S) {
		return false
	}
	for i := range p.S {
		if p.S[i] != q.S[i] {
			return false
		}
	}
	return true
}

// values are immutable trees
type c04val struct {
	K             byte // i n s a l m p b  (int nil struct array slice map pointer boxed)
	Tag           int     // boxed: dynamic type tag
	In            *c04val // boxed: the value
	Z             int64
	Fs            []*c04val
	P             c04path // pointer target / slice base
	Off, Len, Cap int
	L             int // map location
}

type c04cell struct {
	V     *c04val
	IsMap bool
	M     map[int64]*c04val
}

type c04bind struct{ X, L int }

type c04state struct {
	H    []*c04cell
	E    []c04bind
	Grow map[[3]int]int // (elem kind, old cap, needed) -> new cap, as used so far
}

type c04panic struct{ class string }

func c04throw(class string) { panic(c04panic{class}) }

func (s *c04state) clone() *c04state {
	n := &c04state{H: make([]*c04cell, len(s.H)), E: append([]c04bind(nil), s.E...), Grow: s.Grow}
	for i, c := range s.H {
		if c.IsMap {
			m := make(map[int64]*c04val, len(c.M))
			for k, v := range c.M {
				m[k] = v
			}
			n.H[i] = &c04cell{IsMap: true, M: m}
		} else {
			n.H[i] = &c04cell{V: c.V}
		}
	}
	return n
}

var c04NilSlice = &c04val{K: 'l'}
var c04NilVal = &c04val{K: 'n'}

func c04IntVal(z int64) *c04val { return &c04val{K: 'i', Z: z} }

func c04Zero(t *c04ty) *c04val {
	switch t.k {
	case c04Int, c04Key:
		return c04IntVal(0)
	case c04Struct:
		fs := make([]*c04val, t.n)
		for i, ft := range c04FieldTypes[:t.n] {
			fs[i] = c04Zero(ft)
		}
		return &c04val{K: 's', Fs: fs}
	case c04Arr:
		fs := make([]*c04val, t.n)
		for i := range fs {
			fs[i] = c04Zero(t.elem)
		}
		return &c04val{K: 'a', Fs: fs}
	case c04Slice:
		return c04NilSlice
	}
	return c04NilVal
}

func c04GetAt(v *c04val, sels []int) *c04val {
	for _, i := range sels {
		if (v.K != 's' && v.K != 'a') || i < 0 || i >= len(v.Fs) {
			c04throw("internal:get_at")
		}
		v = v.Fs[i]
	}
	return v
}

func c04SetAt(v *c04val, sels []int, nv *c04val) *c04val {
	if len(sels) == 0 {
		return nv
	}
	i := sels[0]
	if (v.K != 's' && v.K != 'a') || i < 0 || i >= len(v.Fs) {
		c04throw("internal:set_at")
	}
	fs := append([]*c04val(nil), v.Fs...)
	fs[i] = c04SetAt(v.Fs[i], sels[1:], nv)
	return &c04val{K: v.K, Fs: fs}
}

func (s *c04state) read(p c04path) *c04val {
	if p.L < 0 || p.L >= len(s.H) || s.H[p.L].IsMap {
		c04throw("internal:read")
	}
	return c04GetAt(s.H[p.L].V, p.S)
}

func (s *c04state) write(p c04path, nv *c04val) {
	if p.L < 0 || p.L >= len(s.H) || s.H[p.L].IsMap {
		c04throw("internal:write")
	}
	s.H[p.L].V = c04SetAt(s.H[p.L].V, p.S, nv)
}

func (s *c04state) alloc(c *c04cell) int {
	s.H = append(s.H, c)
	return len(s.H) - 1
}

func (s *c04state) lookup(x int) int {
	for _, b := range s.E {
		if b.X == x {
			return b.L
		}
	}
	c04throw(fmt.Sprintf("internal:unbound %d", x))
	return -1
}

type c04target struct {
	IsMap bool
	P     c04path
	L     int
	K     int64
}

func (s *c04state) store(t c04target, v *c04val) {
	if t.IsMap {
		s.H[t.L].M[t.K] = v
		return
	}
	s.write(t.P, v)
}

func c04ElemPath(base c04path, off, i int) c04path { return base.sub(off + i) }

func (s *c04state) evalLv(e *c04ex) c04target {
	switch e.K {
	case "var":
		return c04target{P: c04path{L: s.lookup(e.V)}}
	case "idx":
		t := s.evalLv(e.A)
		iv := s.evalRv(e.B)
		arr := s.read(t.P)
		if iv.Z < 0 || int(iv.Z) >= len(arr.Fs) {
			c04throw("IndexOutOfRange")
		}
		return c04target{P: t.P.sub(int(iv.Z))}
	case "sidx":
		bv := s.evalRv(e.A)
		iv := s.evalRv(e.B)
		if iv.Z < 0 || int(iv.Z) >= bv.Len {
			c04throw("IndexOutOfRange")
		}
		return c04target{P: c04ElemPath(bv.P, bv.Off, int(iv.Z))}
	case "fld":
		t := s.evalLv(e.A)
		return c04target{P: t.P.sub(e.V)}
	case "deref":
		bv := s.evalRv(e.A)
		if bv.K != 'p' {
			c04throw("NilDeref")
		}
		return c04target{P: bv.P}
	case "map":
		mv := s.evalRv(e.A)
		kv := s.evalRv(e.B)
		if mv.K != 'm' {
			c04throw("NilMapWrite")
		}
		return c04target{IsMap: true, L: mv.L, K: kv.Z}
	}
	panic("c04: evalLv " + e.K)
}

// (base, off, len, cap) of a sliceable value
func (s *c04state) sliceOf(v *c04val) (c04path, int, int, int) {
	switch v.K {
	case 'l':
		return v.P, v.Off, v.Len, v.Cap
	case 'p':
		arr := s.read(v.P)
		return v.P, 0, len(arr.Fs), len(arr.Fs)
	case 'n':
		c04throw("NilDeref")
	}
	c04throw("internal:slice_of")
	return c04path{}, 0, 0, 0
}

func (s *c04state) evalRv(e *c04ex) *c04val {
	switch e.K {
	case "int":
		return c04IntVal(e.Z)
	case "nil":
		return c04NilVal
	case "load":
		t := s.evalLv(e.A)
		return s.read(t.P)
	case "addr":
		t := s.evalLv(e.A)
		return &c04val{K: 'p', P: t.P}
	case "struct", "arr":
		fs := make([]*c04val, len(e.L))
		for i, f := range e.L {
			fs[i] = s.evalRv(f)
		}
		k := byte('s')
		if e.K == "arr" {
			k = 'a'
		}
		return &c04val{K: k, Fs: fs}
	case "add":
		return c04IntVal(s.evalRv(e.A).Z + s.evalRv(e.B).Z)
	case "len":
		v := s.evalRv(e.A)
		switch v.K {
		case 'l':
			return c04IntVal(int64(v.Len))
		case 'm':
			return c04IntVal(int64(len(s.H[v.L].M)))
		}
		return c04IntVal(0)
	case "cap":
		return c04IntVal(int64(s.evalRv(e.A).Cap))
	case "slice":
		bv := s.evalRv(e.A)
		if bv.K == 'n' && e.A.T.k == c04Slice {
			bv = &c04val{K: 'l'} // the nil slice: length and capacity 0
		}
		base, off, ln, cp := s.sliceOf(bv)
		lo, hi, mx := 0, ln, cp
		if e.B != nil {
			lo = int(s.evalRv(e.B).Z)
		}
		if e.C != nil {
			hi = int(s.evalRv(e.C).Z)
		}
		if e.D != nil {
			mx = int(s.evalRv(e.D).Z)
		}
		if lo < 0 || lo > hi || hi > mx || mx > cp {
			c04throw("SliceBounds")
		}
		return &c04val{K: 'l', P: base, Off: off + lo, Len: hi - lo, Cap: mx - lo}
	case "mapget":
		mv := s.evalRv(e.A)
		kv := s.evalRv(e.B)
		if mv.K == 'm' {
			if v, ok := s.H[mv.L].M[kv.Z]; ok {
				return v
			}
		}
		return c04Zero(e.T)
	case "box":
		return &c04val{K: 'b', Tag: e.V, In: s.evalRv(e.A)}
	case "unbox":
		v := s.evalRv(e.A)
		if v.K != 'b' || v.Tag != e.V {
			c04throw("BadAssert")
		}
		return v.In
	}
	panic("c04: evalRv " + e.K)
}

func (s *c04state) readElems(base c04path, off, n int) []*c04val {
	out := make([]*c04val, n)
	for i := 0; i < n; i++ {
		out[i] = s.read(base.sub(off + i))
	}
	return out
}

func (s *c04state) writeElems(base c04path, off int, vs []*c04val) {
	for i, v := range vs {
		s.write(base.sub(off+i), v)
	}
}

// the element types as the Go run-time sees them (sizes 8, 64 and 24 bytes decide the growth)
type c04RealS struct {
	N int
	A [2]int
	L []int
	M map[string]int
	P *c04RealS
	E interface{}
}

// c04RealGrow asks the Go run-time itself: capacity after appending to a slice with the given
// capacity so that the length becomes need.
func c04RealGrow(ek, oldCap, oldLen, need int) int {
	var t reflect.Type
	switch ek {
	case 0:
		t = reflect.TypeOf([]int(nil))
	case 1:
		t = reflect.TypeOf([]c04RealS(nil))
	case 3:
		t = reflect.TypeOf([]interface{}(nil))
	default:
		t = reflect.TypeOf([][]int(nil))
	}
	base := reflect.MakeSlice(t, oldLen, oldCap)
	extra := reflect.MakeSlice(t, need-oldLen, need-oldLen)
	return reflect.AppendSlice(base, extra).Cap()
}

func (s *c04state) appendVals(ek int, zero *c04val, sv *c04val, vs []*c04val) *c04val {
	n := len(vs)
	if sv.Len+n <= sv.Cap {
		s.writeElems(sv.P, sv.Off+sv.Len, vs)
		return &c04val{K: 'l', P: sv.P, Off: sv.Off, Len: sv.Len + n, Cap: sv.Cap}
	}
	old := s.readElems(sv.P, sv.Off, sv.Len)
	nc := c04RealGrow(ek, sv.Cap, sv.Len, sv.Len+n)
	if s.Grow != nil {
		s.Grow[[3]int{ek, sv.Cap, sv.Len + n}] = nc
	}
	all := append(append([]*c04val{}, old...), vs...)
	for len(all) < nc {
		all = append(all, zero)
	}
	l := s.alloc(&c04cell{V: &c04val{K: 'a', Fs: all}})
	return &c04val{K: 'l', P: c04path{L: l}, Off: 0, Len: sv.Len + n, Cap: nc}
}

func (s *c04state) evalRhs(r *c04rhs) *c04val {
	evalList := func(l []*c04ex) []*c04val {
		out := make([]*c04val, len(l))
		for i, e := range l {
			out[i] = s.evalRv(e)
		}
		return out
	}
	switch r.K {
	case "pure":
		return s.evalRv(r.E)
	case "append":
		sv := s.evalRv(r.E)
		vs := evalList(r.L)
		return s.appendVals(c04ElemKind(r.T.elem), c04Zero(r.T.elem), sv, vs)
	case "appendslice":
		sv := s.evalRv(r.E)
		tv := s.evalRv(r.E2)
		var vs []*c04val
		if tv.K == 'l' {
			vs = s.readElems(tv.P, tv.Off, tv.Len)
		}
		return s.appendVals(c04ElemKind(r.T.elem), c04Zero(r.T.elem), sv, vs)
	case "slicelit":
		vs := evalList(r.L)
		l := s.alloc(&c04cell{V: &c04val{K: 'a', Fs: vs}})
		return &c04val{K: 'l', P: c04path{L: l}, Len: len(vs), Cap: len(vs)}
	case "new":
		v := s.evalRv(r.E)
		l := s.alloc(&c04cell{V: v})
		return &c04val{K: 'p', P: c04path{L: l}}
	case "make":
		n, c := int(s.evalRv(r.E).Z), int(s.evalRv(r.E2).Z)
		if n < 0 || c < n {
			c04throw("MakeSlice")
		}
		fs := make([]*c04val, c)
		for i := range fs {
			fs[i] = c04Zero(r.T.elem)
		}
		l := s.alloc(&c04cell{V: &c04val{K: 'a', Fs: fs}})
		return &c04val{K: 'l', P: c04path{L: l}, Len: n, Cap: c}
	case "maplit":
		ks, vs := evalList(r.L), evalList(r.L2)
		m := map[int64]*c04val{}
		for i := range ks {
			m[ks[i].Z] = vs[i]
		}
		l := s.alloc(&c04cell{IsMap: true, M: m})
		return &c04val{K: 'm', L: l}
	}
	panic("c04: evalRhs " + r.K)
}

func (s *c04state) bindVar(x int, v *c04val) {
	l := s.alloc(&c04cell{V: v})
	s.E = append([]c04bind{{x, l}}, s.E...)
}

// exec runs one operation; dumps are appended to out. A run-time panic of the modelled program is
// a Go panic carrying c04panic.
func (s *c04state) exec(o *c04op, out *[][]int64) {
	switch o.K {
	case "assign":
		t := s.evalLv(o.Lv)
		v := s.evalRhs(o.Rhs)
		s.store(t, v)
	case "multi":
		ts := make([]c04target, len(o.Lvs))
		for i, l := range o.Lvs {
			ts[i] = s.evalLv(l)
		}
		vs := make([]*c04val, len(o.Rvs))
		for i, r := range o.Rvs {
			vs[i] = s.evalRv(r)
		}
		for i := range ts {
			s.store(ts[i], vs[i])
		}
	case "define":
		v := s.evalRhs(o.Rhs)
		s.bindVar(o.X, v)
	case "mapdel":
		mv := s.evalRv(o.A)
		kv := s.evalRv(o.B)
		if mv.K == 'm' {
			delete(s.H[mv.L].M, kv.Z)
		}
	case "copy":
		dv, sv := s.evalRv(o.A), s.evalRv(o.B)
		if dv.K == 'n' && o.A.T.k == c04Slice {
			dv = &c04val{K: 'l'}
		}
		if sv.K == 'n' && o.B.T.k == c04Slice {
			sv = &c04val{K: 'l'}
		}
		db, doff, dlen, _ := s.sliceOf(dv)
		sb, soff, slen, _ := s.sliceOf(sv)
		n := dlen
		if slen < n {
			n = slen
		}
		s.writeElems(db, doff, s.readElems(sb, soff, n))
	case "range":
		xv := s.evalRv(o.A)
		var n int
		switch o.RK {
		case "arr":
			n = len(xv.Fs)
		case "slice":
			n = xv.Len
		case "ptr":
			if xv.K != 'p' {
				c04throw("NilDeref")
			}
			n = len(s.read(xv.P).Fs)
		}
		for i := 0; i < n; i++ {
			var ev *c04val
			switch o.RK {
			case "arr":
				ev = xv.Fs[i]
			case "slice":
				ev = s.read(c04ElemPath(xv.P, xv.Off, i))
			case "ptr":
				ev = s.read(xv.P.sub(i))
			}
			outer := len(s.E)
			s.bindVar(o.KV[0], c04IntVal(int64(i)))
			s.bindVar(o.KV[1], ev)
			for _, b := range o.Body {
				s.exec(b, out)
			}
			s.E = s.E[len(s.E)-outer:]
		}
	case "call":
		var t c04target
		if o.Lv != nil {
			t = s.evalLv(o.Lv)
		}
		vs := make([]*c04val, len(o.Rvs))
		for i, r := range o.Rvs {
			vs[i] = s.evalRv(r)
		}
		saved := s.E
		s.E = nil
		for i, p := range o.Fn.Params {
			s.bindVar(p, vs[i])
		}
		for _, b := range o.Fn.Body {
			s.exec(b, out)
		}
		var rv *c04val
		if o.Fn.Ret != nil {
			rv = s.evalRv(o.Fn.Ret)
		}
		s.E = saved
		if o.Lv != nil {
			s.store(t, rv)
		}
	case "dump":
		*out = append(*out, s.observe())
	case "sugar":
		for _, e := range o.Equiv {
			s.exec(e, out)
		}
	default:
		panic("c04: exec " + o.K)
	}
}

// tryExec runs the operation on the state; on a modelled panic the state is left as it was at the
// point of the panic and the class is returned.
func (s *c04state) tryExec(o *c04op, out *[][]int64) (class string) {
	defer func() {
		if r := recover(); r != nil {
			if p, ok := r.(c04panic); ok {
				class = p.class
				return
			}
			panic(r)
		}
	}()
	s.exec(o, out)
	return ""
}

// ---------------------------------------------------------------- observation (mirrors Coq observe and the Go dump closure)

func (s *c04state) cands() []c04path {
	pa := c04path{L: s.lookup(0)}
	ps := c04path{L: s.lookup(1)}
	out := []c04path{pa.sub(0), pa.sub(1), pa.sub(2), ps}
	slv := s.read(c04path{L: s.lookup(2)})
	for i := 0; i < slv.Len && i < 6; i++ {
		out = append(out, c04ElemPath(slv.P, slv.Off, i))
	}
	return out
}

func (s *c04state) show(t *c04ty, v *c04val, cands []c04path, out *[]int64) {
	switch t.k {
	case c04Int, c04Key:
		*out = append(*out, v.Z)
	case c04Struct:
		for i, ft := range c04FieldTypes[:t.n] {
			s.show(ft, v.Fs[i], cands, out)
		}
	case c04Arr:
		for _, e := range v.Fs {
			s.show(t.elem, e, cands, out)
		}
	case c04Slice:
		*out = append(*out, int64(v.Len), int64(v.Cap))
		for _, e := range s.readElems(v.P, v.Off, v.Len) {
			s.show(t.elem, e, cands, out)
		}
	case c04Map:
		if v.K != 'm' {
			*out = append(*out, 1)
			return
		}
		*out = append(*out, 0)
		for k := int64(0); k < 4; k++ {
			if x, ok := s.H[v.L].M[k]; ok {
				*out = append(*out, 1)
				s.show(t.elem, x, cands, out)
			} else {
				*out = append(*out, 0)
			}
		}
	case c04Any:
		if v.K != 'b' {
			*out = append(*out, 0)
			return
		}
		*out = append(*out, int64(v.Tag+1))
		switch v.Tag {
		case 0, 1:
			*out = append(*out, v.In.Z)
		case 2:
			*out = append(*out, v.In.Fs[0].Z, v.In.Fs[1].Fs[0].Z, v.In.Fs[1].Fs[1].Z)
		case 3:
			s.show(c04TPS, v.In, cands, out)
		case 4:
			s.show(c04TLI, v.In, cands, out)
		case 5:
			*out = append(*out, v.In.Fs[0].Z)
		}
	case c04Ptr:
		if v.K != 'p' {
			*out = append(*out, 0)
			return
		}
		if t == c04TPS {
			cl := int64(99)
			for i, c := range cands {
				if v.P.eq(c) {
					cl = int64(i + 1)
					break
				}
			}
			tv := s.read(v.P)
			*out = append(*out, cl, tv.Fs[0].Z, tv.Fs[1].Fs[0].Z, tv.Fs[1].Fs[1].Z)
			return
		}
		cl := int64(2)
		if v.P.eq(c04path{L: s.lookup(0)}) {
			cl = 1
		}
		tv := s.read(v.P)
		*out = append(*out, cl, tv.Fs[0].Fs[0].Z, tv.Fs[1].Fs[0].Z, tv.Fs[2].Fs[0].Z)
	}
}

func (s *c04state) observe() []int64 {
	var out []int64
	cands := s.cands()
	for id := 0; id < c04PoolSize; id++ {
		v := s.read(c04path{L: s.lookup(id)})
		s.show(c04PoolTypes[id], v, cands, &out)
	}
	return out
}

func c04InitState() *c04state {
	s := &c04state{Grow: map[[3]int]int{}}
	for id := 0; id < c04VarCount; id++ {
		l := s.alloc(&c04cell{V: c04Zero(c04PoolTypes[id])})
		s.E = append(s.E, c04bind{id, l})
	}
	return s
}
