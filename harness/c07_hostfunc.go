package main

import (
	"fmt"
	"reflect"
	"strings"
)

// C07 — stream F: HOST-DECLARED FUNCTION TYPES in script code. A script function value meets a host
// func type (host.Op, with a host method Twice, like http.HandlerFunc) at every position — return
// statement, variable declaration, assignment, parameter of a script function, argument of a host
// function, field of a host struct, element of a slice, conversion — for every kind of function
// expression: the name of a declared function, a literal, a closure held in a variable, a method
// value, a parameter, a host function, the result of a call. The value is then called inside the
// script, through its host method, by a host function, and natively by the host after a script
// function returned it. Reference: the function's own results (compiled-Go semantics, computed natively).

type C07Op func(int) int

func (o C07Op) Twice(x int) int { return o(o(x)) }

type C07OpHolder struct{ F C07Op }

type c07F struct {
	Pos, Kind string
	K         int
}

var c07fPos = []string{"ret", "ret2", "var", "assign", "param", "hostarg", "field", "elem", "mapelem", "conv"}
var c07fKind = []string{"named", "lit", "closure", "methodval", "param", "hostfunc", "callres", "convnamed"}

func (f *c07F) key() string { return f.Pos + "|" + f.Kind }

// the function computes x*3+K everywhere
func (f *c07F) fn(x int) int { return x*3 + f.K }

func (f *c07F) source() string {
	var b strings.Builder
	b.WriteString("package main\n\nimport (\n\t\"host/host\"\n\t\"strconv\"\n)\n\n")
	fmt.Fprintf(&b, "const K = %d\nfunc named(x int) int { return x*3 + K }\ntype T struct{ M int }\nfunc (t T) F(x int) int { return x*t.M + K }\nfunc pick() func(int) int { return func(x int) int { return x*3 + K } }\n", f.K)
	x := map[string]string{"named": "named", "lit": "func(x int) int { return x*3 + K }", "closure": "c", "methodval": "t.F", "param": "p", "hostfunc": "host.Triple", "callres": "pick()",
		"convnamed": "host.Op(named)"}[f.Kind]
	pre := "\tm := 3\n\tc := func(x int) int { return x*m + K }\n\tt := T{3}\n\t_, _ = c, t\n"
	var body string
	switch f.Pos {
	case "ret":
		fmt.Fprintf(&b, "func mk(p func(int) int) host.Op {\n%s\treturn %s\n}\n", pre, x)
		body = "\to := mk(named)\n"
	case "ret2":
		// second of two results
		fmt.Fprintf(&b, "func mk2(p func(int) int) (int, host.Op) {\n%s\treturn 1, %s\n}\n", pre, x)
		body = "\t_, o := mk2(named)\n"
	case "var":
		body = pre + "\tvar o host.Op = " + x + "\n"
	case "assign":
		body = pre + "\tvar o host.Op\n\to = " + x + "\n"
	case "param":
		b.WriteString("func id(o host.Op) host.Op { return o }\n")
		body = pre + "\to := id(" + x + ")\n"
	case "hostarg":
		body = pre + "\to := host.Id(" + x + ")\n"
	case "field":
		body = pre + "\th := host.OpHolder{F: " + x + "}\n\to := h.F\n"
	case "elem":
		body = pre + "\ts := []host.Op{" + x + "}\n\to := s[0]\n"
	case "mapelem":
		body = pre + "\tmm := map[string]host.Op{\"k\": " + x + "}\n\to := mm[\"k\"]\n"
	case "conv":
		body = pre + "\to := host.Op(" + x + ")\n"
	}
	// (a local "p := named" panics inside yaegi itself: the function parameter p stands for it)
	fmt.Fprintf(&b, "func build(p func(int) int) host.Op {\n%s\treturn o\n}\nfunc get() host.Op { return build(named) }\n", body)
	b.WriteString("func Get() host.Op { return get() }\n")
	b.WriteString("func Cell() string {\n\to := get()\n\treturn strconv.Itoa(o(3)) + \";\" + strconv.Itoa(o.Twice(5)) + \";\" + strconv.Itoa(host.Apply(o, 4))\n}\n")
	return b.String()
}

func (f *c07F) expected() string {
	k := f.K
	if f.Kind == "hostfunc" {
		k = 0
		return fmt.Sprintf("%d;%d;%d;native:%d", 3*3+k, (5*3+k)*3+k, 4*3+k, 6*3+k)
	}
	return fmt.Sprintf("%d;%d;%d;native:%d", f.fn(3), f.fn(f.fn(5)), f.fn(4), f.fn(6))
}

func (h *c07h) runF(j *c07job, f *c07F) {
	run := c07new(map[string]reflect.Value{
		"Op":       reflect.ValueOf((*C07Op)(nil)),
		"OpHolder": reflect.ValueOf((*C07OpHolder)(nil)),
		"Triple":   reflect.ValueOf(func(x int) int { return x * 3 }),
		"Apply":    reflect.ValueOf(func(o C07Op, x int) int { return o(x) }),
		"Id":       reflect.ValueOf(func(o C07Op) C07Op { return o }),
	})
	src := f.source()
	run.eval(src, h.timeout)
	got := run.evalString("Cell()", h.timeout)
	gv := run.eval("Get", h.timeout)
	run.guard(h.timeout, func() {
		out := gv.Call(nil)
		op, ok := out[0].Interface().(C07Op)
		if !ok {
			got += ";native:type " + out[0].Type().String()
			return
		}
		got += fmt.Sprint(";native:", op(6))
	})
	exp := f.expected()
	j.evals++
	j.refs++
	j.tick("F:" + f.Pos)
	j.tick("F:kind:" + f.Kind)
	j.dist = append(j.dist, "F|"+f.key()+fmt.Sprint(f.K))
	if run.failed != "" || got != exp {
		region := f.region()
		if region != "" && c07class(run.failed) != f.pinned() {
			region = "" // not the defect the finding describes
		}
		j.other = append(j.other, refMismatch{Region: region, Input: map[string]any{"stream": "host-declared-func-type", "position": f.Pos, "expression": f.Kind, "script": src},
			Impl: map[string]any{"in-script;host-method;host-call;native": got, "failed": run.failed}, Ref: exp, Note: "o(3);o.Twice(5);host.Apply(o,4);native call of the returned value (6)"})
	}
}

// region mirrors Boundary.Marshal.y_functype: the name of a declared script function stored into a
// slot of host func type is wrapped at a return statement, as a host-call argument, in a host struct
// literal and by a conversion — not by a variable declaration, an assignment, a script-call argument,
// a slice or a map literal.
func (f *c07F) region() string {
	if f.Kind != "named" {
		return ""
	}
	switch f.Pos {
	case "var", "assign", "param", "elem", "mapelem":
		return "hostfunctype-named-unwrapped"
	}
	return ""
}
func (f *c07F) pinned() string { return "panic" }
