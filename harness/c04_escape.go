package main

import "fmt"

// The escape stream of C04: "passing an array or struct yields an independent copy" must hold for
// every call, also when the callee lets its parameter escape and the same call site is executed
// repeatedly in one activation (frame slots and temporaries live per frame, not per evaluation).
// Cross product, every cell in every run:
//
//	argument shape  {variable, array element, slice element, pointee, map value, result of a nested
//	                 call on an int, result of a nested by-value call on a variable, composite literal}
//	x escape        {&parameter, closure reading the parameter, closure updating the parameter}
//	x the call site is executed three times in a loop of the same activation, the source of the
//	  argument is changed after each call; afterwards the first escaped copy is written through and
//	  all copies are read back into the pool.
//
// Nested calls as arguments, closures and pointers to parameters kept across iterations are outside
// the Coq grammar: these histories are compared yaegi-vs-compiled only (the reference interpreter
// runs the equivalent core operations).

var c04EscapeShapes = []string{"variable", "array element", "slice element", "pointee", "map value", "nested call on int", "nested by-value call on variable", "composite literal"}
var c04EscapeKinds = []string{"address of parameter", "closure reading parameter", "closure updating parameter"}

// c04EscapeOp builds one cell as an operation outside the Coq grammar with its equivalent core operations.
func (g *c04gen) escapeOp(shape, kind int) []*c04op {
	n := g.freshVar()
	c := g.smallInt()
	asgI := func(l *c04ex, r *c04ex) *c04op { return &c04op{K: "assign", Lv: l, Rhs: c04Pure(r)} }
	iv, jv := c04Var(9, c04TInt), c04Var(10, c04TInt)
	ai := func(k int64) *c04ex { return c04Idx(c04Var(7, c04TA4), c04IntLit(k)) }
	var pre []*c04op // set-up, core operations
	var x *c04ex     // the source l-value (nil: none)
	var arg string   // Go text of the argument, may use the loop variable
	off := int64(0)  // N of copy k = N0 + k + off
	var a0 *c04ex    // A[0] of copy 1, as an r-value in the state after the loop
	var n0 *c04ex    // N0 as an r-value in the state before the loop
	loop := fmt.Sprintf("n%d", n)
	switch shape {
	case 0:
		x, arg = c04Var(1, c04TS), "s"
	case 1:
		x, arg = c04Idx(c04Var(0, c04TA3S), c04IntLit(1)), "a[1]"
	case 2:
		pre = append(pre, &c04op{K: "assign", Lv: c04Var(2, c04TLS), Rhs: &c04rhs{K: "slicelit", T: c04TLS, L: []*c04ex{c04Load(c04Var(1, c04TS)), c04Load(c04Idx(c04Var(0, c04TA3S), c04IntLit(0)))}}})
		x, arg = c04SIdx(c04Load(c04Var(2, c04TLS)), c04IntLit(0)), "sl[0]"
	case 3:
		pre = append(pre, asgI(c04Var(5, c04TPS), c04Addr(c04Idx(c04Var(0, c04TA3S), c04IntLit(2)))))
		x, arg = c04Deref(c04Load(c04Var(5, c04TPS))), "*p"
	case 4:
		pre = append(pre, &c04op{K: "assign", Lv: c04Var(4, c04TMS), Rhs: &c04rhs{K: "maplit", T: c04TMS, L: []*c04ex{c04KeyLit(1)}, L2: []*c04ex{c04Load(c04Var(1, c04TS))}}})
		arg = `m["k1"]`
	case 5:
		arg = fmt.Sprintf("mkS(%d + %s)", c, loop)
		n0, a0 = c04IntLit(c), c04IntLit(c+2)
	case 6:
		x, arg = c04Var(1, c04TS), "idS(s)"
	default:
		arg = fmt.Sprintf("S{N: %d + %s, A: [2]int{%d, 0}}", c, loop, c)
		n0, a0 = c04IntLit(c), c04IntLit(c)
	}
	o := &c04op{K: "sugar", Unmodelled: true, Sugar: fmt.Sprintf("escape:%d:%d", shape, kind)}
	tmp := g.freshVar()
	// the loop: one call site, three executions, the source changes after each call
	var call, decl string
	switch kind {
	case 0:
		decl, call = fmt.Sprintf("var ps%d []*S", n), fmt.Sprintf("ps%d = append(ps%d, holdS(%s))", n, n, arg)
	case 1:
		decl, call = fmt.Sprintf("var gs%d []func() S", n), fmt.Sprintf("gs%d = append(gs%d, getS(%s))", n, n, arg)
	default:
		decl, call = fmt.Sprintf("var cs%d []func() int", n), fmt.Sprintf("cs%d = append(cs%d, cntS(%s))", n, n, arg)
	}
	o.Text = []string{decl, fmt.Sprintf("for %s := 0; %s < 3; %s++ {", loop, loop, loop), "\t" + call}
	switch {
	case x != nil:
		o.Text = append(o.Text, "\t"+x.goBase()+".N++")
		n0 = c04Load(c04Var(tmp, c04TInt))
		o.Equiv = append(o.Equiv, &c04op{K: "define", X: tmp, Rhs: c04Pure(c04Load(c04Fld(x, 0)))},
			asgI(c04Fld(x, 0), c04Add(c04Load(c04Fld(x, 0)), c04IntLit(3))))
		a0 = c04Load(c04Idx(c04Fld(x, 1), c04IntLit(0)))
	case shape == 4:
		t2 := g.freshVar()
		o.Text = append(o.Text, fmt.Sprintf("\tt%d := m[\"k1\"]", t2), fmt.Sprintf("\tt%d.N++", t2), fmt.Sprintf("\tm[\"k1\"] = t%d", t2))
		mg := c04MapGet(c04Load(c04Var(4, c04TMS)), c04KeyLit(1))
		n0 = c04Load(c04Var(tmp, c04TInt))
		o.Equiv = append(o.Equiv, &c04op{K: "define", X: t2, Rhs: c04Pure(mg)},
			&c04op{K: "define", X: tmp, Rhs: c04Pure(c04Load(c04Fld(c04Var(t2, c04TS), 0)))},
			asgI(c04Fld(c04Var(t2, c04TS), 0), c04Add(c04Load(c04Fld(c04Var(t2, c04TS), 0)), c04IntLit(3))),
			asgI(c04MapL(c04Load(c04Var(4, c04TMS)), c04KeyLit(1)), c04Load(c04Var(t2, c04TS))))
		a0 = c04Load(c04Idx(c04Fld(c04Var(t2, c04TS), 1), c04IntLit(0)))
	}
	o.Text = append(o.Text, "}")
	nk := func(k int64, extra int64) *c04ex { return c04Add(n0, c04IntLit(k+off+extra)) }
	switch kind {
	case 0:
		o.Text = append(o.Text, fmt.Sprintf("ps%d[0].N += 100", n), fmt.Sprintf("i = ps%d[0].N", n), fmt.Sprintf("j = ps%d[1].N", n),
			fmt.Sprintf("ai[0] = ps%d[2].N", n), fmt.Sprintf("ai[1] = ps%d[1].A[0]", n))
		o.Equiv = append(o.Equiv, asgI(iv, nk(0, 100)), asgI(jv, nk(1, 0)), asgI(ai(0), nk(2, 0)), asgI(ai(1), a0))
	case 1:
		o.Text = append(o.Text, fmt.Sprintf("i = gs%d[0]().N", n), fmt.Sprintf("j = gs%d[1]().N", n),
			fmt.Sprintf("ai[0] = gs%d[2]().N", n), fmt.Sprintf("ai[1] = gs%d[1]().A[0]", n))
		o.Equiv = append(o.Equiv, asgI(iv, nk(0, 0)), asgI(jv, nk(1, 0)), asgI(ai(0), nk(2, 0)), asgI(ai(1), a0))
	default:
		o.Text = append(o.Text, fmt.Sprintf("i = cs%d[0]()", n), fmt.Sprintf("i = cs%d[0]()", n), fmt.Sprintf("j = cs%d[1]()", n), fmt.Sprintf("ai[0] = cs%d[2]()", n))
		o.Equiv = append(o.Equiv, asgI(iv, nk(0, 2)), asgI(jv, nk(1, 1)), asgI(ai(0), nk(2, 1)))
	}
	return append(pre, o)
}

// c04Escape builds the history of one escape kind: all argument shapes in sequence.
func c04Escape(id int, seed uint64, kind int) *c04hist {
	g := c04NewGen(newRng(seed), "")
	h := &c04hist{ID: id, Seed: seed, Region: "", Modelled: false, Boundary: fmt.Sprintf("escape/%d", kind)}
	var out [][]int64
	try := func(o *c04op) bool {
		cl := g.st.clone()
		var scratch [][]int64
		if cl.tryExec(o, &scratch) != "" {
			return false
		}
		g.commit(o, &out)
		h.Ops = append(h.Ops, o)
		return true
	}
	try(&c04op{K: "dump"})
	h.Ops = append(h.Ops, g.setup(&out)...)
	try(&c04op{K: "dump"})
	for shape := range c04EscapeShapes {
		ok := true
		for _, o := range g.escapeOp(shape, kind) {
			ok = ok && try(o)
		}
		if ok {
			g.stats[fmt.Sprintf("cell:escape:%d:%d", shape, kind)]++
		}
		try(&c04op{K: "dump"})
		// something random in between, so that the frame has other slots in use
		h.Ops = append(h.Ops, g.next(1, &out))
		try(&c04op{K: "dump"})
	}
	h.Expect = out
	h.Grow = g.st.Grow
	h.Stats = g.stats
	h.Src = c04Program(g.fns, h.Decls, h.Ops)
	return h
}
