package main

import (
	"context"
	"errors"
	"fmt"
	"reflect"
	"strings"
	"time"
)

// C07 — stream S: session histories. A function value (and a variable) obtained from the interpreter
// is kept by the host while the session goes on: further Evals define and redefine symbols, fail to
// compile, panic, one EvalWithContext is cancelled. At check points the host calls the function
// natively and the script performs the same call; both must give the function's results.
// Known region (C10-hostheld-between seen from C07): a native call made between a cancellation and the
// next evaluation that reaches Execute returns zero values.

type c07step struct {
	op   string // define | redefine | compile-fail | panic | cancel | obtain | call-native | call-script | script-set | host-set
	k    int    // which argument set / which wrapper / value
	coq  string
	note string
}

type c07S struct {
	sig   *c07t
	spec  *c07fspec
	args  [][]*cval
	path  string
	steps []c07step
}

func (h *c07h) genS(r *rng, region string) *c07S {
	tg := &c07tgen{r: r}
	vg := &c07vgen{r: r, probe: true}
	for {
		s := &c07S{sig: tg.fnType(1, 0, 3, 2), path: r.pick([]string{"eval", "evalpkg", "symbols"})}
		inner := false
		for _, t := range append(append([]*c07t{}, s.sig.In...), s.sig.Out...) {
			inner = inner || t.hasFunc()
		}
		if len(s.sig.Out) == 0 || inner {
			continue
		}
		fv := vg.val(s.sig, false)
		s.spec = fv.Fn
		// results must differ from the zero values, or a dead wrapper could not be told from a live one
		zero := false
		for k := 0; k < 3; k++ {
			var a []*cval
			for _, p := range s.sig.In {
				a = append(a, c07fill(vg.val(p, false)))
			}
			if s.sig.Variadic && a[len(a)-1].Nil {
				a[len(a)-1].Nil, a[len(a)-1].L = false, []*cval{}
			}
			s.args = append(s.args, a)
		}
		for _, a := range s.args {
			if c07valStrings(s.spec.apply(a)) == c07valStrings(c07zeros(s.sig.Out)) {
				zero = true // for every argument set the results must differ from the zero values
			}
		}
		if zero {
			continue
		}
		n := 5 + r.intn(6)
		live := true
		cancelled := false
		for len(s.steps) < n {
			var st c07step
			switch x := r.intn(100); {
			case x < 12:
				st = c07step{op: "define", k: len(s.steps), coq: "SEval"}
			case x < 20:
				st = c07step{op: "redefine", k: r.intn(50), coq: "SEval"}
			case x < 30:
				st = c07step{op: "compile-fail", coq: "SEvalFail"}
			case x < 40:
				st = c07step{op: "panic", coq: "SEval"}
			case x < 52 && !cancelled:
				st = c07step{op: "cancel", coq: "SCancel"}
				cancelled = true
			case x < 58:
				st = c07step{op: "obtain", coq: ""}
				if s.path != "symbols" {
					st.coq = "SEval" // Eval("F") is an evaluation like any other
				}
			case x < 64:
				st = c07step{op: "script-set", k: r.intn(1000), coq: "SEval"}
			case x < 70:
				st = c07step{op: "host-set", k: r.intn(1000), coq: ""}
			case x < 85:
				st = c07step{op: "call-native", k: r.intn(3), coq: "SCallNative"}
			default:
				st = c07step{op: "call-script", k: r.intn(3), coq: "SEval"}
			}
			if st.op == "" {
				continue
			}
			switch st.coq {
			case "SEval":
				live = true
			case "SCancel":
				live = false
			case "SCallNative":
				if !live && region == "" {
					continue // the main stream keeps native calls out of the window after a cancellation
				}
			}
			s.steps = append(s.steps, st)
		}
		if !cancelled {
			// every history has its cancellation
			s.steps = append(s.steps, c07step{op: "cancel", coq: "SCancel"})
			if region == "" {
				s.steps = append(s.steps, c07step{op: "call-script", k: 0, coq: "SEval"})
			}
			s.steps = append(s.steps, c07step{op: "call-native", k: 1, coq: "SCallNative"})
			if region != "" {
				s.steps = append(s.steps, c07step{op: "compile-fail", coq: "SEvalFail"}, c07step{op: "call-native", k: 2, coq: "SCallNative"},
					c07step{op: "call-script", k: 0, coq: "SEval"}, c07step{op: "call-native", k: 0, coq: "SCallNative"})
			}
		}
		if (s.region() != "") != (region != "") {
			continue
		}
		return s
	}
}

func c07zeros(ts []*c07t) []*cval {
	out := make([]*cval, len(ts))
	for i, t := range ts {
		out[i] = c07zero(t)
	}
	return out
}

// region: does some native call fall between a cancellation and the next evaluation that reaches Execute?
func (s *c07S) region() string {
	live := true
	for _, st := range s.steps {
		switch st.coq {
		case "SEval":
			live = true
		case "SCancel":
			live = false
		case "SCallNative":
			if !live {
				return "after-cancel-before-eval"
			}
		}
	}
	return ""
}

func (s *c07S) source(g *c07reg) string {
	sig := s.sig
	names := make([]string, len(sig.In))
	for i := range names {
		names[i] = fmt.Sprintf("a0_%d", i)
	}
	var b strings.Builder
	b.WriteString("var G int = 7\n")
	fmt.Fprintf(&b, "func F%s {%s}\n", sig.sigSrc(names), g.funcBody(s.spec, names, "", 0))
	var rxs, rrs []string
	for j, o := range sig.Out {
		rxs = append(rxs, fmt.Sprintf("x%d", j))
		rrs = append(rrs, fmt.Sprintf("r%d(x%d)", g.id(o), j))
	}
	for k, a := range s.args {
		var lits []string
		for _, v := range a {
			lits = append(lits, g.lit(v, "", 0))
		}
		if sig.Variadic {
			lits[len(lits)-1] = c07spreadLit(lits[len(lits)-1], a[len(a)-1].T)
		}
		fmt.Fprintf(&b, "func Probe%d() string {\n\t%s := F(%s)\n\treturn %s\n}\n", k, strings.Join(rxs, ", "), strings.Join(lits, ", "), strings.Join(rrs, ` + ";" + `))
	}
	return c07prelude + g.source() + b.String()
}

type c07sessCase struct {
	ID        int
	s         *c07S
	steps     []string // Coq step terms
	impl, ref []string // per native call: "ok" | "zero" | "other"; per in-script call (ref)
	region    string
	input     map[string]any
}

func (h *c07h) runS(j *c07job, s *c07S, region string) {
	env := c07hostEnv()
	reg := newC07reg()
	src := s.source(reg)
	run := c07new(nil)
	run.eval(src, h.timeout)
	obtain := func() reflect.Value {
		var fv reflect.Value
		switch s.path {
		case "eval":
			fv = run.eval("F", h.timeout)
		case "evalpkg":
			fv = run.eval("main.F", h.timeout)
		default:
			run.guard(h.timeout, func() { fv = run.i.Symbols("main")["main"]["F"] })
		}
		return fv
	}
	wrappers := []reflect.Value{obtain()}
	var gv reflect.Value
	run.guard(h.timeout, func() { gv = run.i.Globals()["G"] })
	gExp := int64(7)
	c := &c07sessCase{s: s, region: region}
	var trace []string
	classify := func(got string, k int) string {
		switch got {
		case c07valStrings(s.spec.apply(s.args[k])):
			return "ok"
		case c07valStrings(c07zeros(s.sig.Out)):
			return "zero"
		}
		return "other:" + got
	}
	// evalQuiet evaluates without making an expected failure the scenario's failure
	evalQuiet := func(code string) (reflect.Value, error) {
		type ret struct {
			v   reflect.Value
			err error
		}
		done := make(chan ret, 1)
		go func() {
			defer func() {
				if p := recover(); p != nil {
					done <- ret{err: fmt.Errorf("host-panic: %v", p)}
				}
			}()
			ctx, cancel := context.WithTimeout(context.Background(), h.timeout)
			defer cancel()
			v, err := run.i.EvalWithContext(ctx, code)
			done <- ret{v, err}
		}()
		select {
		case r := <-done:
			return r.v, r.err
		case <-time.After(h.timeout + 2*time.Second):
			return reflect.Value{}, errors.New("timeout")
		}
	}
	var problems []string
	for n, st := range s.steps {
		if run.failed != "" {
			break
		}
		if st.coq != "" {
			c.steps = append(c.steps, st.coq)
		}
		switch st.op {
		case "define":
			if _, err := evalQuiet(fmt.Sprintf("func H%d() int { return %d }", st.k, st.k)); err != nil {
				problems = append(problems, fmt.Sprint("step ", n, " define: ", err))
			}
		case "redefine":
			if _, err := evalQuiet(fmt.Sprintf("func K() int { return %d }", st.k)); err != nil {
				problems = append(problems, fmt.Sprint("step ", n, " redefine: ", err))
			}
		case "compile-fail":
			if _, err := evalQuiet("var q int = undefinedSymbol + 1"); err == nil {
				problems = append(problems, fmt.Sprint("step ", n, ": the ill-typed source was accepted"))
			}
		case "panic":
			if _, err := evalQuiet(`panic("boom")`); err == nil {
				problems = append(problems, fmt.Sprint("step ", n, ": the panic was not reported"))
			}
		case "cancel":
			ctx, cancel := context.WithTimeout(context.Background(), 80*time.Millisecond)
			_, err := run.i.EvalWithContext(ctx, "for {}")
			cancel()
			if !errors.Is(err, context.DeadlineExceeded) {
				problems = append(problems, fmt.Sprint("step ", n, " cancel: ", err))
			}
			time.Sleep(120 * time.Millisecond) // let the cancelled evaluation wind down
		case "obtain":
			wrappers = append(wrappers, obtain())
		case "script-set":
			gExp = int64(st.k)
			if _, err := evalQuiet(fmt.Sprintf("G = %d", st.k)); err != nil {
				problems = append(problems, fmt.Sprint("step ", n, " script-set: ", err))
			}
			run.guard(h.timeout, func() {
				if gv.Int() != gExp {
					problems = append(problems, fmt.Sprint("step ", n, ": the host reads G = ", gv.Int(), ", the script stored ", gExp))
				}
			})
		case "host-set":
			gExp = int64(st.k)
			run.guard(h.timeout, func() { gv.SetInt(gExp) })
		case "call-native":
			fv := wrappers[(n+st.k)%len(wrappers)]
			var got string
			run.guard(h.timeout, func() {
				in := make([]reflect.Value, len(s.args[st.k]))
				for i, v := range s.args[st.k] {
					in[i] = v.toReflect(env, 0)
				}
				var out []reflect.Value
				if s.sig.Variadic {
					out = fv.CallSlice(in)
				} else {
					out = fv.Call(in)
				}
				var obs []*cval
				for k, o := range out {
					obs = append(obs, c07observe(s.sig.Out[k], o, env))
				}
				got = c07valStrings(obs)
			})
			if run.failed == "" {
				c.impl = append(c.impl, classify(got, st.k))
				trace = append(trace, fmt.Sprint("native#", st.k, "=", c.impl[len(c.impl)-1]))
			}
		case "call-script":
			v, err := evalQuiet(fmt.Sprintf("Probe%d()", st.k))
			got := ""
			if err != nil {
				got = "error: " + err.Error()
			} else {
				got = c07valStrings(c07parseList(s.sig.Out, v.String()))
			}
			c.ref = append(c.ref, classify(got, st.k))
			trace = append(trace, fmt.Sprint("script#", st.k, "=", c.ref[len(c.ref)-1]))
			if gv2, err := evalQuiet("G"); err == nil && gv2.Int() != gExp {
				problems = append(problems, fmt.Sprint("step ", n, ": the script reads G = ", gv2.Int(), ", expected ", gExp))
			}
		}
	}
	var ops []string
	for _, st := range s.steps {
		ops = append(ops, st.op)
	}
	c.input = map[string]any{"stream": "session-history", "signature": c07sigString(s.sig), "path": s.path, "steps": strings.Join(ops, " "), "observed": strings.Join(trace, " "), "script": src}
	j.evals++
	j.tick("S:" + s.path)
	for _, st := range s.steps {
		j.tick("S:step:" + st.op)
	}
	j.dist = append(j.dist, "S|"+c07sigString(s.sig)+"|"+strings.Join(ops, " "))
	if run.failed != "" {
		problems = append(problems, "failed: "+run.failed)
	}
	if len(problems) > 0 {
		j.other = append(j.other, refMismatch{Input: c.input, Impl: problems, Ref: "every step of the history behaves as in a session without boundary crossings", Note: "session history"})
	}
	j.sess = append(j.sess, c)
}
