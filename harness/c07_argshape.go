package main

import (
	"fmt"
	"reflect"
	"sort"
	"strings"
)

// C07 — stream Q: the SHAPE of the argument expression. The same value reaches a host function as a
// literal, a variable, a field, an element, the result of a script call, of a host call, of a method
// call through an interface, a conversion to an interface type, a type assertion, nested two and
// three deep — for parameters of static type concrete / script interface / interface{} / host
// interface, forwarded through 0..2 script functions. The host echoes fmt.Sprintf("%T:%v") of what
// it receives; the echo must not depend on the shape: the reference is the echo of the plainest shape
// (a variable handed to the host function directly) in the same interpreter.

type c07Q struct {
	P     string // static type of the parameter: concrete | iface | any | hostiface
	Val   string // sq (script struct with methods) | num (script named int with methods) | int (plain int; P = any only)
	Shape string
	Depth int    // forwarded through Depth script functions before the host call
	Sink  string // Echo (interface{}) | Echos (...interface{}) | EchoStr (fmt.Stringer)
	N     int
}

var c07qShapes = []string{"lit", "var", "field", "elem", "mapelem", "call", "hostcall", "methcall", "conv", "nested2", "nested3", "deref"}

func (q *c07Q) key() string {
	return fmt.Sprint(q.P, "|", q.Val, "|", q.Shape, "|", q.Depth, "|", q.Sink)
}

func (q *c07Q) ptype() string {
	switch q.P {
	case "concrete":
		return map[string]string{"sq": "Sq", "num": "Num", "int": "int"}[q.Val]
	case "iface":
		return "Shape"
	case "any":
		return "interface{}"
	}
	return "fmt.Stringer"
}

func (q *c07Q) lit() string {
	switch q.Val {
	case "sq":
		return fmt.Sprintf("Sq{N: %d}", q.N)
	case "num":
		return fmt.Sprintf("Num(%d)", q.N)
	}
	return fmt.Sprint(q.N)
}

// valid: does the combination type-check in Go?
func (q *c07Q) valid() bool {
	if q.Val == "int" && !(q.P == "any" || q.P == "concrete") {
		return false
	}
	if q.Sink == "EchoStr" && (q.P == "iface" || q.P == "any" || q.Val == "int") {
		return false
	}
	if q.Shape == "hostcall" && q.P != "any" {
		return false // host.Id returns interface{}
	}
	if q.Shape == "lit" && q.Depth == 0 && q.P != "concrete" {
		return false // a literal handed straight to the host function never has static type P
	}
	return true
}

func (q *c07Q) source() string {
	P := q.ptype()
	var b strings.Builder
	b.WriteString("package main\n\nimport (\n\t\"fmt\"\n\t\"host/host\"\n\t\"strconv\"\n)\n\nvar _ = strconv.Itoa\nvar _ fmt.Stringer\n\n")
	b.WriteString(`type Shape interface{ Area() int }
type Sq struct{ N int }
func (s Sq) Area() int { return s.N * s.N }
func (s Sq) String() string { return "Sq(" + strconv.Itoa(s.N) + ")" }
type Num int
func (n Num) Area() int { return int(n) }
func (n Num) String() string { return "Num(" + strconv.Itoa(int(n)) + ")" }
`)
	fmt.Fprintf(&b, "type Maker interface{ Get() %s }\ntype MK struct{ K int }\nfunc (m MK) Get() %s { return %s }\n", P, P, q.lit())
	fmt.Fprintf(&b, "type Holder struct {\n\tK int\n\tF %s\n}\n", P)
	fmt.Fprintf(&b, "func Make(n int) %s { return %s }\nfunc Wrap(s %s) %s { return s }\n", P, q.lit(), P, P)
	sink := "host." + q.Sink + "(s)"
	if q.Sink == "Echos" {
		sink = "host.Echos(s, 1)"
	}
	fmt.Fprintf(&b, "func Fwd1(s %s) string { return %s }\nfunc Fwd2(s %s) string { return Fwd1(s) }\n", P, sink, P)
	// the plainest shape
	fmt.Fprintf(&b, "func Base() string {\n\tt := %s\n\tvar s %s = t\n\treturn %s\n}\n", q.lit(), P, sink)
	var pre []string
	expr := ""
	switch q.Shape {
	case "lit":
		expr = q.lit()
	case "var":
		pre = append(pre, "t := "+q.lit(), "var v "+P+" = t")
		expr = "v"
	case "field":
		pre = append(pre, "h := Holder{K: 1, F: "+q.lit()+"}")
		expr = "h.F"
	case "elem":
		pre = append(pre, "a := []"+P+"{"+q.lit()+"}")
		expr = "a[0]"
	case "mapelem":
		pre = append(pre, "m := map[string]"+P+"{\"k\": "+q.lit()+"}")
		expr = "m[\"k\"]"
	case "call":
		expr = "Make(1)"
	case "hostcall":
		expr = "host.Id(" + q.lit() + ")"
	case "methcall":
		pre = append(pre, "var mk Maker = MK{1}")
		expr = "mk.Get()"
	case "conv":
		expr = P + "(" + q.lit() + ")"
		if q.P == "any" {
			expr = "interface{}(" + q.lit() + ")"
		}
	case "assert":
		pre = append(pre, "t := "+q.lit(), "var e interface{} = t")
		expr = "e.(" + P + ")"
	case "nested2":
		expr = "Wrap(Make(1))"
	case "nested3":
		expr = "Wrap(Wrap(Make(1)))"
	case "deref":
		pre = append(pre, "t := "+q.lit(), "var v "+P+" = t", "p := &v")
		expr = "*p"
	}
	call := ""
	switch q.Depth {
	case 0:
		call = strings.Replace(sink, "(s", "("+expr, 1)
	case 1:
		call = "Fwd1(" + expr + ")"
	default:
		call = "Fwd2(" + expr + ")"
	}
	fmt.Fprintf(&b, "func Cell() string {\n\t%s\n\treturn %s\n}\n", strings.Join(pre, "\n\t"), call)
	return b.String()
}

func c07echo(v interface{}) string { return fmt.Sprintf("%T:%v", v, v) }

func (q *c07Q) exec(h *c07h) (cell, base, failed string) {
	run := c07new(map[string]reflect.Value{
		"Echo": reflect.ValueOf(func(v interface{}) string { return c07echo(v) }),
		"Echos": reflect.ValueOf(func(vs ...interface{}) string {
			s := ""
			for _, v := range vs {
				s += c07echo(v) + ";"
			}
			return s
		}),
		"EchoStr": reflect.ValueOf(func(v fmt.Stringer) string { return c07echo(v) }),
		"Id":      reflect.ValueOf(func(v interface{}) interface{} { return v }),
	})
	run.eval(q.source(), h.timeout)
	base = run.evalString("Base()", h.timeout)
	cell = run.evalString("Cell()", h.timeout)
	return cell, base, run.failed
}

// ---- Go mirror of Boundary.Marshal.y_echo (labels regions; the Coq function decides)

type c07rep struct {
	kind string // raw | box | wrap | fail
	k    int    // box: nesting depth
}

func (q *c07Q) hasM() bool { return q.Val != "int" }

// store: a value of concrete static type written to a slot of static type P
func (q *c07Q) store() c07rep {
	switch q.P {
	case "iface":
		return c07rep{"box", 1}
	case "any":
		if q.hasM() {
			return c07rep{"box", 1}
		}
	case "hostiface":
		return c07rep{"wrap", 0}
	}
	return c07rep{"raw", 0}
}

// ret: "return <literal>" in a function whose result type is P
func (q *c07Q) ret() c07rep {
	switch q.P {
	case "iface":
		return c07rep{"box", 1}
	case "hostiface":
		return c07rep{"wrap", 0}
	}
	return c07rep{"raw", 0}
}

// argconv: call() preparing an argument for a parameter of static type P.
// static: "concrete" | "P" (the expression has static type P); isCall: the argument is directly a call.
func (q *c07Q) argconv(r c07rep, static string, isCall bool) c07rep {
	if r.kind == "fail" {
		return r
	}
	if isCall {
		if q.P == "iface" {
			if r.kind == "box" {
				return c07rep{"box", r.k + 1}
			}
			return c07rep{"box", 1}
		}
		return r
	}
	switch q.P {
	case "iface":
		return c07rep{"box", 1}
	case "any":
		if static == "concrete" && q.hasM() {
			return c07rep{"box", 1}
		}
	case "hostiface":
		if static == "concrete" {
			return c07rep{"wrap", 0}
		}
		if r.kind == "raw" {
			return c07rep{"fail", 0} // genInterfaceWrapper leaves a valueT-typed operand alone: Set into the Stringer slot panics
		}
	}
	return r
}

// expr: the argument expression: representation, static type, is it a call
func (q *c07Q) expr() (c07rep, string, bool) {
	switch q.Shape {
	case "lit":
		return c07rep{"raw", 0}, "concrete", false
	case "var", "field", "elem", "mapelem", "deref":
		return q.store(), "P", false
	case "call", "methcall":
		return q.ret(), "P", true
	case "hostcall":
		return c07rep{"raw", 0}, "P", true
	case "conv":
		if q.P == "iface" {
			return c07rep{"box", 1}, "P", false
		}
		if q.P == "concrete" {
			return c07rep{"raw", 0}, "concrete", false
		}
		return c07rep{"raw", 0}, "P", false // conversion to interface{} / to a host interface leaves the value as it is
	case "nested2":
		return q.argconv(q.ret(), "P", true), "P", true
	}
	return q.argconv(q.argconv(q.ret(), "P", true), "P", true), "P", true
}

// yEcho: "raw" | "wrap" | "box" | "fail"
func (q *c07Q) yEcho() string {
	r, static, isCall := q.expr()
	for d := 0; d < q.Depth; d++ {
		r = q.argconv(r, static, isCall)
		static, isCall = "P", false
	}
	if r.kind == "fail" {
		return "fail"
	}
	str := q.Sink == "EchoStr"
	switch {
	case isCall:
		// callBin on a nested call: valueInterfaceValue strips every box; nothing is wrapped
		if r.kind == "box" {
			r = c07rep{"raw", 0}
		}
	case static == "concrete":
		if str {
			r = c07rep{"wrap", 0}
		}
	case q.P == "iface":
		r = c07rep{"raw", 0} // genValueInterfaceValue
	case q.P == "concrete":
		if str {
			r = c07rep{"wrap", 0}
		}
	}
	if str && r.kind == "raw" {
		return "fail" // reflect: Call using struct {...} as type fmt.Stringer
	}
	return r.kind
}

func (q *c07Q) gEcho() string {
	if q.Sink == "EchoStr" {
		return "wrap"
	}
	return "raw"
}

func (q *c07Q) region() string {
	y := q.yEcho()
	switch {
	case y == q.gEcho():
		return ""
	case y == "box":
		return "any-box-leak"
	case y == "wrap":
		return "hostiface-wrapper-visible"
	}
	return "hostiface-unwrapped"
}

// class of an observed echo
func (q *c07Q) class(echo, failed string) string {
	if failed != "" {
		return "fail"
	}
	echo = strings.TrimSuffix(echo, ";int:1;")
	raw := map[string]string{"sq": fmt.Sprintf("struct { N int }:{%d}", q.N), "num": fmt.Sprintf("int:%d", q.N), "int": fmt.Sprintf("int:%d", q.N)}[q.Val]
	wrap := map[string]string{"sq": fmt.Sprintf("stdlib._fmt_Stringer:Sq(%d)", q.N), "num": fmt.Sprintf("stdlib._fmt_Stringer:Num(%d)", q.N)}[q.Val]
	switch {
	case echo == raw:
		return "raw"
	case echo == wrap:
		return "wrap"
	case strings.HasPrefix(echo, "interp.valueInterface:"):
		return "box"
	}
	return "other:" + echo
}

type c07echoCase struct {
	ID              int
	q               *c07Q
	impl, ref, fail string
	region          string
	input           map[string]any
}

func (h *c07h) allQ(n int) []*c07Q {
	var all []*c07Q
	for _, p := range []string{"concrete", "iface", "any", "hostiface"} {
		for _, v := range []string{"sq", "num", "int"} {
			for _, sh := range c07qShapes {
				for d := 0; d <= 2; d++ {
					for _, sk := range []string{"Echo", "Echos", "EchoStr"} {
						q := &c07Q{P: p, Val: v, Shape: sh, Depth: d, Sink: sk, N: n}
						if q.valid() {
							all = append(all, q)
						}
					}
				}
			}
		}
	}
	return all
}

func (h *c07h) runQ(j *c07job, q *c07Q) {
	cell, base, failed := q.exec(h)
	c := &c07echoCase{q: q, impl: cell, ref: base, fail: failed, region: q.region()}
	c.input = map[string]any{"stream": "argument-expression-shape", "param-type": q.ptype(), "value": q.lit(), "shape": q.Shape, "forwarded-through": q.Depth, "sink": q.Sink, "script": q.source()}
	j.evals++
	j.tick("Q:" + q.P + ":" + q.Shape)
	j.dist = append(j.dist, "Q|"+q.key()+fmt.Sprint(q.N))
	j.echos = append(j.echos, c)
}

// enumQ: exploration aid ("vh c07 -enumq").
func (h *c07h) enumQ() {
	all := h.allQ(4)
	lines := make([]string, len(all))
	parallelMap(len(all), 0, func(i int) {
		cell, _, failed := all[i].exec(h)
		obs, y := all[i].class(cell, failed), all[i].yEcho()
		st := "Y-AGREES " + obs
		if obs != y {
			st = "Y-DIFFERS y=" + y + " impl=" + obs + " " + failed
		}
		lines[i] = all[i].key() + " => " + st + " region=" + all[i].region()
	})
	sort.Strings(lines)
	for _, l := range lines {
		fmt.Println(l)
	}
}
