package main

import (
	"bytes"
	"context"
	"encoding/json"
	"fmt"
	"os"
	"os/exec"
	"reflect"
	"runtime"
	"strings"
	"sync"
	"time"
)

// C07 — stream R: go and defer statements. Go evaluates the function value and the arguments of a
// go / defer statement AT THE STATEMENT; the script re-assigns the argument variable (or mutates a
// field / an element of it) right after the statement. Callee kinds: a host function called directly,
// held in a script variable, received as a parameter, held in a struct field; a script function; a
// script closure; methods and method values of host and script types. The recorder on the host side
// says which value the callee received.
// The observation is made deterministic by running the scenarios in a child process with
// GOMAXPROCS(1): a goroutine started by a go statement does not run before the script blocks in
// host.Wait(), i.e. after the re-assignment.

type c07G struct {
	Form   string `json:"form"`   // go | defer
	Callee string `json:"callee"` // see c07calleeKinds
	Arg    string `json:"arg"`    // int | string | struct | array | any
	A      int    `json:"a"`      // seed of the value at the statement
	B      int    `json:"b"`      // seed of the value assigned after it
}

var c07calleeKinds = []string{"host-direct", "host-direct-any", "host-var", "host-var-typed", "host-param", "host-field", "script-func", "script-closure",
	"host-method", "host-method-value", "script-method", "script-method-value"}
var c07argKinds = []string{"int", "string", "struct", "array", "any"}

func (g *c07G) key() string { return g.Form + "|" + g.Callee + "|" + g.Arg }

// HostRecv is the host type whose method is used as a callee.
type C07Recv struct{ rec func(v interface{}) }

func (r C07Recv) Rec(v interface{}) { r.rec(v) }

func (g *c07G) typ() string {
	return map[string]string{"int": "int", "string": "string", "struct": "host.P", "array": "[2]int", "any": "interface{}"}[g.Arg]
}

func (g *c07G) val(k int) string {
	switch g.Arg {
	case "int":
		return fmt.Sprint(k)
	case "string":
		return fmt.Sprintf("%q", fmt.Sprint("s", k))
	case "struct":
		return fmt.Sprintf("host.P{X: %d, Y: %q}", k, fmt.Sprint("y", k))
	case "array":
		return fmt.Sprintf("[2]int{%d, %d}", k, k+1)
	}
	return fmt.Sprintf("interface{}(%d)", k)
}

// mutate is the statement executed right after the go / defer statement.
func (g *c07G) mutate() string {
	switch g.Arg {
	case "struct":
		return fmt.Sprintf("x.X = %d\n\t\tx.Y = %q", g.B, fmt.Sprint("y", g.B))
	case "array":
		return fmt.Sprintf("x[0] = %d\n\t\tx[1] = %d", g.B, g.B+1)
	}
	return "x = " + g.val(g.B)
}

func (g *c07G) echo(k int) string {
	switch g.Arg {
	case "int", "any":
		return fmt.Sprintf("int:%d", k)
	case "string":
		return fmt.Sprintf("string:s%d", k)
	case "struct":
		return fmt.Sprintf("main.C07P:{%d y%d}", k, k)
	}
	return fmt.Sprintf("[2]int:[%d %d]", k, k+1)
}

func (g *c07G) source() string {
	t := g.typ()
	var b strings.Builder
	b.WriteString("package main\n\nimport \"host/host\"\n\nvar _ host.P\n\n")
	b.WriteString("type Box struct{ F func(" + t + ") }\ntype ST struct{ K int }\nfunc (s ST) Rec(v " + t + ") { host.Rec(v) }\n")
	b.WriteString("func recS(v " + t + ") { host.Rec(v) }\n")
	b.WriteString("func Run(cb func(" + t + ")) {\n\tx := " + g.val(g.A) + "\n")
	callee := ""
	switch g.Callee {
	case "host-direct":
		callee = "host.RecT"
	case "host-direct-any":
		callee = "host.Rec"
	case "host-var":
		b.WriteString("\tf := host.Rec\n")
		callee = "f"
	case "host-var-typed":
		b.WriteString("\tvar f func(" + t + ") = host.RecT\n")
		callee = "f"
	case "host-param":
		callee = "cb"
	case "host-field":
		b.WriteString("\tbx := Box{F: cb}\n")
		callee = "bx.F"
	case "script-func":
		callee = "recS"
	case "script-closure":
		b.WriteString("\tc := func(v " + t + ") { host.Rec(v) }\n")
		callee = "c"
	case "host-method":
		callee = "host.R.Rec"
	case "host-method-value":
		b.WriteString("\tm := host.R.Rec\n")
		callee = "m"
	case "script-method":
		b.WriteString("\tst := ST{1}\n")
		callee = "st.Rec"
	case "script-method-value":
		b.WriteString("\tst := ST{1}\n\tm := st.Rec\n")
		callee = "m"
	}
	fmt.Fprintf(&b, "\tfunc() {\n\t\t%s %s(x)\n\t\t%s\n\t}()\n\thost.Wait()\n}\n", g.Form, callee, g.mutate())
	return b.String()
}

// exec runs one scenario (in the child: GOMAXPROCS(1)) and returns what the recorder received.
func (g *c07G) exec(timeout time.Duration) (got, failed string) {
	var mu sync.Mutex
	done := make(chan struct{}, 4)
	rec := func(v interface{}) {
		mu.Lock()
		got += fmt.Sprintf("%T:%v", v, v)
		mu.Unlock()
		select {
		case done <- struct{}{}:
		default:
		}
	}
	wait := func() {
		select {
		case <-done:
		case <-time.After(timeout):
		}
	}
	tt := map[string]reflect.Type{"int": reflect.TypeOf(0), "string": reflect.TypeOf(""), "struct": reflect.TypeOf(C07P{}), "array": reflect.TypeOf([2]int{}),
		"any": reflect.TypeOf((*interface{})(nil)).Elem()}[g.Arg]
	recT := reflect.MakeFunc(reflect.FuncOf([]reflect.Type{tt}, nil, false), func(in []reflect.Value) []reflect.Value {
		rec(in[0].Interface())
		return nil
	})
	run := c07new(map[string]reflect.Value{
		"Rec":  reflect.ValueOf(rec),
		"RecT": recT,
		"Wait": reflect.ValueOf(wait),
		"Recv": reflect.ValueOf((*C07Recv)(nil)),
		"R":    reflect.ValueOf(C07Recv{rec}),
	})
	run.eval(g.source(), timeout)
	fv := run.eval("Run", timeout)
	run.guard(timeout+2*time.Second, func() { fv.Call([]reflect.Value{recT}) })
	mu.Lock()
	defer mu.Unlock()
	return got, run.failed
}

func init() {
	register("c07-gochild", "internal: run go/defer scenarios read from stdin with GOMAXPROCS(1)", func(args []string) error {
		runtime.GOMAXPROCS(1)
		var gs []c07G
		if err := json.NewDecoder(os.Stdin).Decode(&gs); err != nil {
			return err
		}
		type res struct{ Got, Failed string }
		out := make([]res, len(gs))
		for i := range gs {
			out[i].Got, out[i].Failed = gs[i].exec(5 * time.Second)
		}
		return json.NewEncoder(os.Stdout).Encode(out)
	})
}

// yLate mirrors Boundary.Marshal.y_stmt_late: does the callee receive the value assigned after the statement?
func (g *c07G) yLate() bool {
	if g.Form == "defer" {
		return true
	}
	switch g.Callee {
	case "host-direct", "host-direct-any", "host-var", "host-field", "host-method", "host-method-value":
		return true
	}
	return false
}

func (g *c07G) region() string {
	switch {
	case !g.yLate():
		return ""
	case g.Form == "defer":
		return "defer-arg-alias"
	}
	return "go-hostcall-arg-alias"
}

type c07stmtCase struct {
	ID        int
	g         c07G
	impl, ref string // "first" (the value at the statement) | "second" (the value assigned after it) | "other"
	region    string
	input     map[string]any
}

func (h *c07h) runStmts(j *c07job, gs []c07G) {
	self, _ := os.Executable()
	ctx, cancel := context.WithTimeout(context.Background(), 10*time.Minute)
	defer cancel()
	cmd := exec.CommandContext(ctx, self, "c07-gochild")
	in, _ := json.Marshal(gs)
	cmd.Stdin = bytes.NewReader(in)
	var ob, eb bytes.Buffer
	cmd.Stdout, cmd.Stderr = &ob, &eb
	err := cmd.Run()
	type res struct{ Got, Failed string }
	var out []res
	if json.Unmarshal(ob.Bytes(), &out) != nil || len(out) != len(gs) {
		j.other = append(j.other, refMismatch{Input: map[string]any{"stream": "go-defer-statements"}, Impl: "child failed: " + fmt.Sprint(err) + " " + c07short(c07lastPanicLine(eb.String())),
			Ref: "the child process runs the scenarios"})
		return
	}
	for i := range gs {
		g := gs[i]
		c := &c07stmtCase{g: g, ref: "first"}
		switch {
		case out[i].Failed != "":
			c.impl = "other"
		case out[i].Got == g.echo(g.A):
			c.impl = "first"
		case out[i].Got == g.echo(g.B):
			c.impl = "second"
		default:
			c.impl = "other"
		}
		c.region = g.region()
		c.input = map[string]any{"stream": "go-defer-statements", "form": g.Form, "callee": g.Callee, "arg": g.Arg, "received": out[i].Got, "failed": out[i].Failed,
			"at-statement": g.echo(g.A), "assigned-after": g.echo(g.B), "script": g.source()}
		j.evals++
		j.tick("R:" + g.Form + ":" + g.Callee)
		j.dist = append(j.dist, "R|"+g.key()+fmt.Sprint(g.A, g.B))
		j.stmts = append(j.stmts, c)
	}
}

// enumStmts: exploration aid ("vh c07 -enumr"): every form x callee x argument kind.
func (h *c07h) enumStmts() {
	var gs []c07G
	for _, f := range []string{"go", "defer"} {
		for _, c := range c07calleeKinds {
			for _, a := range c07argKinds {
				gs = append(gs, c07G{Form: f, Callee: c, Arg: a, A: 11, B: 22})
			}
		}
	}
	j := &c07job{}
	h.runStmts(j, gs)
	for _, c := range j.stmts {
		fmt.Println(c.g.key(), "=>", c.impl, c.input["received"], c.input["failed"])
	}
	for _, m := range j.other {
		fmt.Println("OTHER", m.Impl)
	}
}
