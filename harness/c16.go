package main

import (
	"bufio"
	"bytes"
	"context"
	"encoding/json"
	"flag"
	"fmt"
	"io/fs"
	"os"
	"os/exec"
	"path/filepath"
	"runtime/debug"
	"sort"
	"strings"
	"sync"
	"testing/fstest"
	"time"

	"github.com/traefik/yaegi/interp"
	"github.com/traefik/yaegi/stdlib"
)

// C16: source imports resolve to the right directory, once, without cycles.
//   impl  = interp.effectivePkg / previousRoot / pkgDir (verif exports) on MapFS trees, and
//           EvalPath on generated GOPATH trees, from disk and from a MapFS (both must agree)
//   Y, G  = coq/Imports/Model.v, evaluated by coqc on the cases files written here
//   ref   = GO111MODULE=off GOPATH=<tree> go run (installed Go release)
// Everything that calls into yaegi runs in child processes of this binary: a mutation that
// breaks cycle detection or the termination of pkgDir overflows the stack, which cannot be
// recovered in-process.

func init() {
	register("c16", "C16 source imports: generate trees, run implementation and GOPATH-mode go run", runC16)
	register("c16-fn", "internal: evaluate C16 function-level cases (JSON file in, JSON lines out)", runC16Fn)
	register("c16-eval", "internal: evaluate one C16 program with yaegi from disk and from a MapFS", runC16Eval)
}

const (
	c16Gsrc   = "gp/src"
	c16Vendor = "vendor"
)

// ---------------------------------------------------------------- paths (port of the G side of Imports/Model.v, used to steer and label the generator)

func c16Split(p string) []string {
	if p == "" {
		return nil
	}
	return strings.Split(p, "/")
}

func c16Join(parts ...[]string) string {
	var all []string
	for _, p := range parts {
		all = append(all, p...)
	}
	return strings.Join(all, "/")
}

func c16Clean(p []string) []string {
	var acc []string
	for _, w := range p {
		switch {
		case w == "" || w == ".":
		case w == "..":
			if len(acc) == 0 || acc[len(acc)-1] == ".." {
				acc = append(acc, "..")
			} else {
				acc = acc[:len(acc)-1]
			}
		default:
			acc = append(acc, w)
		}
	}
	return acc
}

func c16HasPrefix(p, q []string) bool { // p is a prefix of q
	if len(p) > len(q) {
		return false
	}
	for i := range p {
		if p[i] != q[i] {
			return false
		}
	}
	return true
}

// c16Eff is effective_pkg_spec: root ++ the elements of ip after the last occurrence (not counting
// the final element) of the last element of a root of at least two elements; cleaned.
func c16Eff(root, ip []string) []string {
	kept := ip
	if len(root) >= 2 && len(ip) > 0 {
		last := root[len(root)-1]
		for i := len(ip) - 2; i >= 0; i-- {
			if ip[i] == last {
				kept = ip[i+1:]
				break
			}
		}
	}
	return c16Clean(append(append([]string{}, root...), kept...))
}

func c16IsRel(ip []string) bool { return len(ip) >= 2 && (ip[0] == "." || ip[0] == "..") }

func c16XX(ip []string) bool {
	if len(ip) == 2 && ip[0] == ip[1] && ip[0] != "." && ip[0] != ".." {
		return true
	}
	return len(ip) == 3 && ip[0] == "." && ip[1] == ip[2] && ip[1] != "." && ip[1] != ".."
}

type c16pkg struct {
	Dir     string   `json:"dir"` // from the scratch root: gp/src/... or work/...
	Imports []string `json:"imports"`
	// Files: the source files of the package in directory order (empty: the single file p.go with
	// all imports). File k declares the next N imports of Imports, so Imports is the concatenation
	// of the files' import lists in directory order: that union is the package the models load
	// (Imports/Cases.v mkpkgf). Skip: further files of the directory that a loader must leave out
	// (a _test.go file, files excluded by a build constraint line or by a GOOS file name suffix);
	// each of them imports a package that does not exist and declares Dir again.
	Files []c16file `json:"files,omitempty"`
	Skip  []string  `json:"skip,omitempty"`
}

type c16file struct {
	Name string `json:"name"`
	N    int    `json:"n"`
}

type c16case struct {
	File   bool     `json:"file"`  // entry is a file (<Entry>/p.go); otherwise Entry is an import path
	Entry  string   `json:"entry"` // file mode: directory of the entry file; path mode: import path
	Pkgs   []c16pkg `json:"pkgs"`
	Region string   `json:"region"`
	Stream string   `json:"stream"`
	// Contract: the outcome the property itself prescribes ("cycle"), used as the reference when the
	// toolchain refuses the layout (cmd/go rejects relative imports inside GOPATH packages)
	Contract string `json:"contract,omitempty"`
	NoLabel  bool   `json:"nolabel,omitempty"` // constructed case: the region label is not cross-checked in Coq
	// Quiet: the packages import nothing but one another and print nothing. (A binary import such as
	// "fmt" makes a second gta of the same package fail with "redeclared", which would turn an
	// unbounded import recursion into an ordinary error.)
	Quiet bool `json:"quiet,omitempty"`
	// Links: how the tree is laid out on disk. The directories listed (paths from the origin) are
	// symbolic links to directories kept elsewhere; LinkEntry: so is the entry file. A MapFS has no
	// links and shows the logical tree: both must give the same result.
	Links     []string `json:"links,omitempty"`
	LinkEntry bool     `json:"link_entry,omitempty"`
	LinkKind  string   `json:"link_kind,omitempty"`
}

type c16world struct {
	c      *c16case
	gsrc   []string
	dirSet map[string]bool
	goSet  map[string]bool
	byDir  map[string]*c16pkg
}

func newC16World(c *c16case) *c16world {
	w := &c16world{c: c, gsrc: c16Split(c16Gsrc), dirSet: map[string]bool{"": true}, goSet: map[string]bool{}, byDir: map[string]*c16pkg{}}
	for i := range c.Pkgs {
		p := &c.Pkgs[i]
		w.goSet[p.Dir] = true
		w.byDir[p.Dir] = p
		parts := c16Split(p.Dir)
		for k := 1; k <= len(parts); k++ {
			w.dirSet[strings.Join(parts[:k], "/")] = true
		}
	}
	return w
}

func (w *c16world) stat(p ...[]string) bool  { return w.dirSet[c16Join(p...)] }
func (w *c16world) hasgo(p ...[]string) bool { return w.goSet[c16Join(p...)] }

// gResolve: nearest enclosing vendor directory with Go files, else GOPATH/src.
func (w *c16world) gResolve(d, ip []string) (string, bool) {
	for k := len(d); k >= 0; k-- {
		if w.hasgo(w.gsrc, d[:k], []string{c16Vendor}, ip) {
			return c16Join(w.gsrc, d[:k], []string{c16Vendor}, ip), true
		}
	}
	if w.stat(w.gsrc, ip) {
		return c16Join(w.gsrc, ip), true
	}
	return "", false
}

func (w *c16world) gImport(dir string, ips string) (string, bool) {
	ip := c16Split(ips)
	d := c16Split(dir)
	if c16IsRel(ip) {
		return strings.Join(c16Clean(append(append([]string{}, d...), ip...)), "/"), true
	}
	if c16HasPrefix(w.gsrc, d) {
		return w.gResolve(d[len(w.gsrc):], ip)
	}
	if w.stat(w.gsrc, ip) {
		return c16Join(w.gsrc, ip), true
	}
	return "", false
}

// edgeRegion returns the known-finding region an import lies in ("" = the side conditions of the
// theorems C16_resolve_partial / C16_relative_partial hold for it).
func (w *c16world) edgeRegion(p *c16pkg, ips string) string {
	ip := c16Split(ips)
	d := c16Split(p.Dir)
	if c16XX(ip) {
		return "xx-collapse"
	}
	for _, x := range ip {
		if x == c16Vendor {
			return "vendor-in-path"
		}
	}
	underG := c16HasPrefix(w.gsrc, d)
	isEntryFile := w.c.File && p.Dir == w.c.Entry
	entry := c16Split(w.c.Entry)
	rp, chain := w.rpOf(d) // the rPath yaegi gives this package; chain: it is relative to the entry file
	if isEntryFile {
		rp, chain = []string{"main"}, true
	}
	if c16IsRel(ip) {
		if !w.c.File || !chain {
			return "relative-nonentry"
		}
		if isEntryFile {
			rp = nil
		}
		target := c16Clean(append(append([]string{}, d...), ip...))
		if !c16HasPrefix(entry, target) {
			return "relative-root"
		}
		trp, tchain := w.rpOf(target)
		if !tchain || strings.Join(c16Eff(rp, ip), "/") != strings.Join(trp, "/") {
			return "relative-root"
		}
		return ""
	}
	if underG && !chain {
		rel := d[len(w.gsrc):]
		for k := 0; k <= len(rel); k++ {
			if w.stat(w.gsrc, rel[:k], []string{c16Vendor}, ip) && !w.hasgo(w.gsrc, rel[:k], []string{c16Vendor}, ip) {
				return "vendor-nogofiles"
			}
		}
		for k := 1; k <= len(rel); k++ {
			r := rel[:k]
			if w.stat(w.gsrc, r, []string{c16Vendor}, ip) {
				continue
			}
			e := c16Eff(r, ip)
			if !w.stat(w.gsrc, e) {
				continue
			}
			if g, ok := w.gResolve(r, ip); !ok || g != c16Join(w.gsrc, e) {
				return "subdir-shadow"
			}
		}
		// what the package's own walk does not find, the second attempt (from the entry file's
		// directory) must not find either
		if _, _, ok := w.yWalk(rel, ip); !ok {
			if _, _, ok2 := w.yWalk(w.retryRoot(), ip); ok2 {
				return "source-location-retry"
			}
		}
		return ""
	}
	// the entry file, or a package reached from it by relative imports: yaegi walks up from a root
	// that is not the importer's GOPATH directory, then from the entry file's directory
	g, gok := w.gImport(p.Dir, ips)
	y, yrp, yok := w.yWalk(rp, ip)
	if !yok {
		y, yrp, yok = w.yWalk(w.retryRoot(), ip)
	}
	bad := yok != gok || (yok && y != g)
	if !bad && yok {
		trp, _ := w.rpOf(c16Split(y))
		bad = strings.Join(c16Eff(yrp, ip), "/") != strings.Join(trp, "/")
	}
	if bad {
		if isEntryFile {
			return "entry-file-vendor"
		}
		return "relative-root"
	}
	return ""
}

// rpOf is rp_of of Imports/Load.v: the rPath importSrc hands to the package of a directory —
// relative to the entry file's directory below it (reached by relative imports; not the packages of
// a vendor directory there), else relative to GOPATH/src.
func (w *c16world) rpOf(d []string) (rp []string, chain bool) {
	entry := c16Split(w.c.Entry)
	if w.c.File && len(entry) > 0 && c16HasPrefix(entry, d) {
		r := d[len(entry):]
		vend := false
		for _, x := range r {
			vend = vend || x == c16Vendor
		}
		if !vend {
			return r, true
		}
	}
	if c16HasPrefix(w.gsrc, d) {
		return d[len(w.gsrc):], false
	}
	return d, false
}

// retryRoot is retry_of of Imports/Model.v (rootFromSourceLocation for a run whose working
// directory is the origin of the tree and whose entry file is named relative to it).
func (w *c16world) retryRoot() []string {
	entry := c16Split(w.c.Entry)
	if w.c.File && c16HasPrefix(w.gsrc, entry) {
		return entry[len(w.gsrc):]
	}
	return nil
}

// yWalk is pkgDir as specified by C16_previous_root_spec / C16_effective_pkg_spec: at each root try
// root/vendor/ip then effectivePkg(root, ip); go to the previous root.
func (w *c16world) yWalk(root, ip []string) (dir string, rpath []string, ok bool) {
	r := append([]string{}, root...)
	for n := 0; n < 64; n++ {
		if w.stat(w.gsrc, r, []string{c16Vendor}, ip) {
			return c16Join(w.gsrc, r, []string{c16Vendor}, ip), append(append([]string{}, r...), c16Vendor), true
		}
		if e := c16Eff(r, ip); w.stat(w.gsrc, e) {
			return c16Join(w.gsrc, e), r, true
		}
		if len(r) == 0 {
			return "", nil, false
		}
		r = w.prevRoot(r)
	}
	return "", nil, false
}

func (w *c16world) prevRoot(r []string) []string {
	if !(len(r) == 1 && r[0] == "main") && r[len(r)-1] != c16Vendor {
		for k := len(r) - 1; k >= 1; k-- {
			if w.stat(w.gsrc, r[:k], []string{c16Vendor}) {
				return r[:k]
			}
		}
	}
	for i := len(r) - 1; i >= 1; i-- {
		if r[i] == c16Vendor {
			return r[:i]
		}
	}
	return nil
}

// classify returns the first region found over all imports of the program, then the
// program-wide condition that an import path string names one directory and vice versa.
func (w *c16world) classify() string {
	order := []string{"xx-collapse", "vendor-in-path", "relative-nonentry", "relative-root", "entry-file-vendor", "vendor-nogofiles", "subdir-shadow", "source-location-retry"}
	found := map[string]bool{}
	keyDirs := map[string]map[string]bool{}
	dirKeys := map[string]map[string]bool{}
	for i := range w.c.Pkgs {
		p := &w.c.Pkgs[i]
		for _, ips := range p.Imports {
			if r := w.edgeRegion(p, ips); r != "" {
				found[r] = true
			}
			t, ok := w.gImport(p.Dir, ips)
			if !ok {
				t = "?"
			}
			if keyDirs[ips] == nil {
				keyDirs[ips] = map[string]bool{}
			}
			keyDirs[ips][t] = true
			if ok {
				if dirKeys[t] == nil {
					dirKeys[t] = map[string]bool{}
				}
				dirKeys[t][ips] = true
			}
		}
	}
	if !w.c.File {
		e := c16Split(w.c.Entry)
		if w.stat(w.gsrc, []string{"main", c16Vendor}, e) || w.stat(w.gsrc, []string{"main"}, e) || w.stat(w.gsrc, []string{c16Vendor}, e) {
			found["entry-shadow"] = true
		}
		// the entry is itself loaded under its import path
		t := c16Join(w.gsrc, e)
		if dirKeys[t] == nil {
			dirKeys[t] = map[string]bool{}
		}
		dirKeys[t][w.c.Entry] = true
		if keyDirs[w.c.Entry] == nil {
			keyDirs[w.c.Entry] = map[string]bool{}
		}
		keyDirs[w.c.Entry][t] = true
	}
	for _, r := range order {
		if found[r] {
			return r
		}
	}
	if found["entry-shadow"] {
		return "entry-shadow"
	}
	for _, m := range keyDirs {
		if len(m) > 1 {
			return "memo-by-path"
		}
	}
	for _, m := range dirKeys {
		if len(m) > 1 {
			return "memo-by-path"
		}
	}
	return ""
}

// ---------------------------------------------------------------- generator of programs

type c16gen struct {
	r *rng
}

var c16Names = []string{"a", "b", "c", "d", "q"}

func (g *c16gen) relPath(maxDepth int) []string {
	n := 1 + g.r.intn(maxDepth)
	p := make([]string, n)
	for i := range p {
		p[i] = g.r.pick(c16Names)
	}
	return p
}

// gopathDirs makes a set of package directories under GOPATH/src (relative to it): plain packages at
// depth 1..4, often nested in one another, vendor directories at several levels (also nested and at
// GOPATH/src itself), the same import path in several places.
func (g *c16gen) gopathDirs(entry []string, n int) []string {
	set := map[string]bool{}
	var dirs []string
	add := func(p []string) bool {
		k := strings.Join(p, "/")
		if k == "" || set[k] {
			return false
		}
		// x/x would be collapsed by yaegi: keep it for the region stream only
		if len(p) == 2 && p[0] == p[1] {
			return false
		}
		set[k] = true
		dirs = append(dirs, k)
		return true
	}
	if entry != nil {
		add(entry)
	}
	for tries := 0; len(dirs) < n && tries < 50; tries++ {
		if len(dirs) > 0 && g.r.chance(35) {
			base := c16Split(g.r.pick(dirs))
			if len(base) < 4 && !strings.Contains(strings.Join(base, "/"), c16Vendor) {
				add(append(append([]string{}, base...), g.r.pick(c16Names)))
				continue
			}
		}
		add(g.relPath(3))
	}
	plain := append([]string{}, dirs...)
	nv := g.r.intn(4)
	for i := 0; i < nv; i++ {
		var host []string
		switch {
		case g.r.chance(8):
			host = nil // GOPATH/src/vendor
		default:
			h := c16Split(g.r.pick(dirs))
			host = h[:1+g.r.intn(len(h))]
			if host[len(host)-1] == c16Vendor {
				host = host[:len(host)-1]
			}
		}
		m := 1 + g.r.intn(2)
		for j := 0; j < m; j++ {
			var ip []string
			if g.r.chance(60) {
				ip = c16Split(g.r.pick(plain)) // the same import path in several places
			} else {
				ip = g.relPath(2)
			}
			if entry != nil && strings.Join(ip, "/") == strings.Join(entry, "/") {
				continue
			}
			if len(ip) == 2 && ip[0] == ip[1] {
				continue
			}
			add(append(append(append([]string{}, host...), c16Vendor), ip...))
		}
	}
	return dirs
}

// importCandidates lists the import paths that resolve (per Go) from dir to a package directory.
func c16ImportPaths(w *c16world) []string {
	seen := map[string]bool{}
	var out []string
	for i := range w.c.Pkgs {
		d := c16Split(w.c.Pkgs[i].Dir)
		if !c16HasPrefix(w.gsrc, d) {
			continue
		}
		rel := d[len(w.gsrc):]
		ip := rel
		for k := len(rel) - 1; k >= 0; k-- {
			if rel[k] == c16Vendor {
				ip = rel[k+1:]
				break
			}
		}
		s := strings.Join(ip, "/")
		if s != "" && !seen[s] {
			seen[s] = true
			out = append(out, s)
		}
	}
	sort.Strings(out)
	return out
}

// wire chooses imports: package k only imports packages that come later in a random order (so the
// graph of directories is acyclic), and in the main stream only imports that keep the whole program
// outside every known-finding region.
func (g *c16gen) wire(c *c16case, strict bool) {
	w := newC16World(c)
	index := map[string]int{}
	for i := range c.Pkgs {
		index[c.Pkgs[i].Dir] = i
	}
	ips := c16ImportPaths(w)
	keyDir := map[string]string{}
	dirKey := map[string]string{}
	if !c.File {
		keyDir[c.Entry] = c16Join(w.gsrc, c16Split(c.Entry))
		dirKey[keyDir[c.Entry]] = c.Entry
	}
	entryDir := c.Entry
	if !c.File {
		entryDir = c16Join(w.gsrc, c16Split(c.Entry))
	}
	for i := range c.Pkgs {
		p := &c.Pkgs[i]
		d := c16Split(p.Dir)
		var cands []string
		cands = append(cands, ips...)
		if c.File && !c16HasPrefix(w.gsrc, d) {
			// relative imports of packages below the entry directory
			for j := range c.Pkgs {
				q := c16Split(c.Pkgs[j].Dir)
				if j <= i || c16HasPrefix(w.gsrc, q) {
					continue
				}
				if c16HasPrefix(d, q) && len(q) > len(d) {
					cands = append(cands, "./"+strings.Join(q[len(d):], "/"))
				} else if len(d) >= 1 && c16HasPrefix(d[:len(d)-1], q) && len(q) >= len(d) {
					cands = append(cands, "../"+strings.Join(q[len(d)-1:], "/"))
				}
			}
		}
		want := g.r.intn(4)
		if i == 0 {
			want = 1 + g.r.intn(3)
		}
		for tries := 0; len(p.Imports) < want && tries < 12 && len(cands) > 0; tries++ {
			ip := g.r.pick(cands)
			dup := false
			for _, x := range p.Imports {
				dup = dup || x == ip
			}
			if dup {
				continue
			}
			t, ok := w.gImport(p.Dir, ip)
			if !ok || !w.goSet[t] || index[t] <= i || t == entryDir {
				continue
			}
			if strict {
				if w.edgeRegion(p, ip) != "" {
					continue
				}
				if k, ok := keyDir[ip]; ok && k != t {
					continue
				}
				if k, ok := dirKey[t]; ok && k != ip {
					continue
				}
			}
			keyDir[ip] = t
			dirKey[t] = ip
			p.Imports = append(p.Imports, ip)
		}
	}
}

func (g *c16gen) shuffle(l []string) {
	for i := len(l) - 1; i > 0; i-- {
		j := g.r.intn(i + 1)
		l[i], l[j] = l[j], l[i]
	}
}

// pathCase: EvalPath(<import path of a main package>) / go run . in its directory.
func (g *c16gen) pathCase() *c16case {
	entry := g.relPath(4)
	for len(entry) == 2 && entry[0] == entry[1] {
		entry = g.relPath(4)
	}
	dirs := g.gopathDirs(entry, 4+g.r.intn(6))
	rest := dirs[1:]
	g.shuffle(rest)
	c := &c16case{Entry: strings.Join(entry, "/")}
	for _, d := range dirs {
		c.Pkgs = append(c.Pkgs, c16pkg{Dir: c16Gsrc + "/" + d})
	}
	return c
}

// fileCase: EvalPath(<file>) / go run p.go, the entry file outside GOPATH with packages below it
// that are imported relatively, and GOPATH packages.
func (g *c16gen) fileCase() *c16case {
	entry := []string{"work"}
	if g.r.chance(30) {
		entry = append(entry, "m")
	}
	c := &c16case{File: true, Entry: strings.Join(entry, "/")}
	c.Pkgs = append(c.Pkgs, c16pkg{Dir: c.Entry})
	set := map[string]bool{}
	nrel := 1 + g.r.intn(4)
	var rels []string
	for tries := 0; len(rels) < nrel && tries < 20; tries++ {
		var p []string
		if len(rels) > 0 && g.r.chance(50) {
			p = append(c16Split(g.r.pick(rels)), g.r.pick(c16Names))
		} else {
			p = append(append([]string{}, entry...), g.r.pick(c16Names))
		}
		if len(p) > len(entry)+3 {
			continue
		}
		// a repeated element (x/x) below the entry would be collapsed
		if p[len(p)-1] == p[len(p)-2] {
			continue
		}
		k := strings.Join(p, "/")
		if !set[k] {
			set[k] = true
			rels = append(rels, k)
		}
	}
	sort.Strings(rels) // parents before children: a package only imports later ones
	dirs := g.gopathDirs(nil, 2+g.r.intn(5))
	g.shuffle(dirs)
	for _, d := range rels {
		c.Pkgs = append(c.Pkgs, c16pkg{Dir: d})
	}
	for _, d := range dirs {
		c.Pkgs = append(c.Pkgs, c16pkg{Dir: c16Gsrc + "/" + d})
	}
	return c
}

func (c *c16case) pkgIndex(dir string) int {
	for i := range c.Pkgs {
		if c.Pkgs[i].Dir == dir {
			return i
		}
	}
	return -1
}

func (c *c16case) addPkg(dir string, imports ...string) {
	if c.pkgIndex(dir) < 0 {
		c.Pkgs = append(c.Pkgs, c16pkg{Dir: dir, Imports: imports})
	}
}

// reachable returns the directories Go loads, in no particular order.
func (c *c16case) reachable() []string {
	w := newC16World(c)
	start := c.Entry
	if !c.File {
		start = c16Gsrc + "/" + c.Entry
	}
	seen := map[string]bool{}
	var out []string
	var visit func(d string)
	visit = func(d string) {
		if seen[d] || w.byDir[d] == nil {
			return
		}
		seen[d] = true
		out = append(out, d)
		for _, ip := range w.byDir[d].Imports {
			if t, ok := w.gImport(d, ip); ok {
				visit(t)
			}
		}
	}
	visit(start)
	return out
}

// mainCase draws programs until one lies outside every region (by construction almost always the first).
func (g *c16gen) mainCase(file bool) *c16case {
	for {
		var c *c16case
		if file {
			c = g.fileCase()
		} else {
			c = g.pathCase()
		}
		g.wire(c, true)
		if newC16World(c).classify() == "" && len(c.reachable()) >= 2 {
			c.Stream = "main"
			return c
		}
	}
}

// errorCase: a main-stream program plus exactly one cause of failure.
func (g *c16gen) errorCase(kind string) *c16case {
	for {
		c := g.mainCase(g.r.chance(25))
		reach := c.reachable()
		w := newC16World(c)
		switch kind {
		case "cycle":
			// an import from a loaded package back to one of the packages that lead to it (or itself)
			p := g.r.pick(reach)
			var anc []string
			for _, q := range reach {
				sub := &c16case{File: true, Entry: q, Pkgs: c.Pkgs}
				for _, x := range sub.reachable() {
					if x == p {
						anc = append(anc, q)
					}
				}
			}
			start := c.Entry
			if !c.File {
				start = c16Gsrc + "/" + c.Entry
			}
			var cand []string
			for _, q := range anc {
				if q != start { // nobody imports the main package
					cand = append(cand, q)
				}
			}
			if len(cand) == 0 {
				continue
			}
			q := g.r.pick(cand)
			var ips []string
			if c16HasPrefix(w.gsrc, c16Split(q)) {
				for _, ip := range c16ImportPaths(w) {
					if t, ok := w.gImport(p, ip); ok && t == q {
						ips = append(ips, ip)
					}
				}
			} else if c16HasPrefix(c16Split(q), c16Split(p)) && len(p) > len(q) {
				ips = append(ips, strings.Repeat("../", len(c16Split(p))-len(c16Split(q))+1)+filepath.Base(q))
			}
			if len(ips) == 0 {
				continue
			}
			pi := c.pkgIndex(p)
			ip := g.r.pick(ips)
			dup := false
			for _, x := range c.Pkgs[pi].Imports {
				dup = dup || x == ip
			}
			if dup && p != q {
				// the edge exists already: it cannot be, the graph was acyclic
				continue
			}
			c.Pkgs[pi].Imports = append(c.Pkgs[pi].Imports, ip)
		case "notfound":
			pi := c.pkgIndex(g.r.pick(reach))
			ip := g.r.pick([]string{"zz", "zz/y", "a/zz", "b/c/zz"})
			if _, ok := w.gImport(c.Pkgs[pi].Dir, ip); ok {
				continue
			}
			pos := g.r.intn(len(c.Pkgs[pi].Imports) + 1)
			imps := append([]string{}, c.Pkgs[pi].Imports[:pos]...)
			imps = append(imps, ip)
			c.Pkgs[pi].Imports = append(imps, c.Pkgs[pi].Imports[pos:]...)
		case "nogo":
			// import a GOPATH directory that only has sub-packages
			var cand []string
			for d := range w.dirSet {
				parts := c16Split(d)
				if c16HasPrefix(w.gsrc, parts) && len(parts) > len(w.gsrc) && !w.goSet[d] && !strings.Contains(d, c16Vendor) {
					cand = append(cand, strings.Join(parts[len(w.gsrc):], "/"))
				}
			}
			sort.Strings(cand)
			if len(cand) == 0 {
				continue
			}
			ip := g.r.pick(cand)
			pi := c.pkgIndex(g.r.pick(reach))
			if t, ok := w.gImport(c.Pkgs[pi].Dir, ip); !ok || t != c16Gsrc+"/"+ip {
				continue
			}
			c.Pkgs[pi].Imports = append(c.Pkgs[pi].Imports, ip)
		}
		if r := newC16World(c).classify(); r != "" {
			continue
		}
		c.Stream = kind
		return c
	}
}

// regionCase builds a program inside one known-finding region on top of a main-stream program.
func (g *c16gen) regionCase(region string) *c16case {
	for tries := 0; tries < 200; tries++ {
		file := region == "relative-nonentry" || region == "relative-root" || region == "entry-file-vendor"
		c := g.mainCase(file)
		reach := c.reachable()
		w := newC16World(c)
		var gp []string // loaded packages under GOPATH
		for _, d := range reach {
			if c16HasPrefix(w.gsrc, c16Split(d)) {
				gp = append(gp, d)
			}
		}
		switch region {
		case "subdir-shadow":
			if len(gp) == 0 {
				continue
			}
			p := g.r.pick(gp)
			d := c16Split(p)[len(w.gsrc):]
			r := d[:1+g.r.intn(len(d))]
			ip := g.relPath(2)
			if g.r.chance(50) {
				if l := c16ImportPaths(w); len(l) > 0 {
					ip = c16Split(g.r.pick(l))
				}
			}
			if len(ip) == 2 && ip[0] == ip[1] {
				continue
			}
			c.addPkg(c16Join(w.gsrc, r, ip))
			if g.r.chance(60) {
				c.addPkg(c16Join(w.gsrc, ip))
			}
			pi := c.pkgIndex(p)
			c.Pkgs[pi].Imports = append(c.Pkgs[pi].Imports, strings.Join(ip, "/"))
			if g.r.chance(30) { // the same directory a second time under its full path
				c.Pkgs[pi].Imports = append(c.Pkgs[pi].Imports, c16Join(r, ip))
			}
		case "memo-by-path":
			if len(gp) < 2 {
				continue
			}
			if g.r.chance(40) {
				// a cycle that is none: x imports p, p imports its own vendored x
				c.addPkg(c16Gsrc+"/fx", "fp")
				c.addPkg(c16Gsrc+"/fp", "fx")
				c.addPkg(c16Gsrc + "/fp/vendor/fx")
				pi := c.pkgIndex(g.r.pick(gp))
				c.Pkgs[pi].Imports = append(c.Pkgs[pi].Imports, "fx")
			} else {
				p1, p2 := g.r.pick(gp), g.r.pick(gp)
				if p1 == p2 || strings.HasPrefix(p2, p1+"/") {
					continue
				}
				c.addPkg(p1 + "/vendor/vx")
				c.addPkg(c16Gsrc + "/vx")
				i1, i2 := c.pkgIndex(p1), c.pkgIndex(p2)
				c.Pkgs[i1].Imports = append(c.Pkgs[i1].Imports, "vx")
				c.Pkgs[i2].Imports = append(c.Pkgs[i2].Imports, "vx")
			}
		case "xx-collapse":
			if len(gp) == 0 {
				continue
			}
			n := g.r.pick(c16Names)
			c.addPkg(c16Gsrc + "/" + n + "/" + n)
			if g.r.chance(60) {
				c.addPkg(c16Gsrc + "/" + n)
			}
			pi := c.pkgIndex(g.r.pick(gp))
			c.Pkgs[pi].Imports = append(c.Pkgs[pi].Imports, n+"/"+n)
		case "vendor-nogofiles":
			if len(gp) == 0 {
				continue
			}
			p := g.r.pick(gp)
			d := c16Split(p)
			host := d[:len(w.gsrc)+g.r.intn(len(d)-len(w.gsrc)+1)]
			c.addPkg(c16Join(host, []string{c16Vendor, "nx", "y"}))
			if g.r.chance(70) {
				c.addPkg(c16Gsrc + "/nx")
			}
			pi := c.pkgIndex(p)
			c.Pkgs[pi].Imports = append(c.Pkgs[pi].Imports, "nx")
		case "relative-nonentry":
			if len(gp) == 0 {
				continue
			}
			p := g.r.pick(gp)
			c.addPkg(p + "/rr")
			if g.r.chance(50) {
				// what yaegi finds instead: <entry dir>/<rPath>/rr
				c.addPkg(c.Entry + "/" + strings.TrimPrefix(p, c16Gsrc+"/") + "/rr")
			}
			pi := c.pkgIndex(p)
			c.Pkgs[pi].Imports = append(c.Pkgs[pi].Imports, "./rr")
		case "relative-root":
			var rel []string
			for _, d := range reach {
				if !c16HasPrefix(w.gsrc, c16Split(d)) && d != c.Entry {
					rel = append(rel, d)
				}
			}
			if len(rel) == 0 {
				continue
			}
			p := g.r.pick(rel)
			rp := strings.TrimPrefix(p, c.Entry+"/")
			c.addPkg(c16Gsrc + "/" + rp + "/vendor/rq")
			if g.r.chance(70) {
				c.addPkg(c16Gsrc + "/rq")
			}
			pi := c.pkgIndex(p)
			c.Pkgs[pi].Imports = append(c.Pkgs[pi].Imports, "rq")
		case "entry-file-vendor":
			// the entry file lives in GOPATH/src/<e> and has a vendor directory
			e := strings.Join(g.relPath(2), "/")
			old := c.Entry
			ne := c16Gsrc + "/" + e
			if newC16World(c).dirSet[ne] {
				continue
			}
			for i := range c.Pkgs {
				if c.Pkgs[i].Dir == old || strings.HasPrefix(c.Pkgs[i].Dir, old+"/") {
					c.Pkgs[i].Dir = ne + strings.TrimPrefix(c.Pkgs[i].Dir, old)
				}
			}
			c.Entry = ne
			c.addPkg(ne + "/vendor/ev")
			if g.r.chance(70) {
				c.addPkg(c16Gsrc + "/ev")
			}
			c.Pkgs[0].Imports = append(c.Pkgs[0].Imports, "ev")
		}
		if newC16World(c).classify() != region {
			continue
		}
		c.Region = region
		c.Stream = "region:" + region
		return c
	}
	return nil
}

// ---------------------------------------------------------------- the cycle matrix

// An import cycle must be reported whatever kinds of import make it up. cycleCase builds one
// program with a cycle of len(kinds) packages: kinds[k] is the kind of the import from node k to
// node k+1 (the last one closes the cycle): 'G' an ordinary import path resolved in GOPATH/src,
// 'V' an import path resolved in the vendor directory of the importer, 'R' a relative import
// (to a child directory or to a sibling). lead is the kind of the import that reaches node 0.
//
// layouts:
//
//	P  entry = import path of a main package in GOPATH            (G, V)
//	S  entry = file gp/src/p.go: its directory is GOPATH/src, so relative imports between GOPATH
//	   packages resolve where Go resolves them and chains can mix all kinds        (G, V, R)
//	W  entry = file work/m/p.go outside GOPATH: packages below work/ import one another relatively  (R)
//	X  entry = file work/m/p.go, a relative import leads to a package that enters a GOPATH cycle (R lead-in; G, V)
func (g *c16gen) cycleCase(layout byte, lead byte, kinds string, leadIn, quiet bool) *c16case {
	gs := c16Split(c16Gsrc)
	c := &c16case{NoLabel: true, Contract: "cycle", Quiet: quiet}
	var importer []string // directory of the package that imports node 0
	var base []string     // relative imports must stay below it
	switch layout {
	case 'P':
		c.Entry = "e"
		importer, base = append(append([]string{}, gs...), "e"), gs
	case 'S':
		c.File, c.Entry = true, c16Gsrc
		importer, base = gs, gs
	case 'W', 'X':
		c.File, c.Entry = true, "work/m"
		importer, base = []string{"work", "m"}, []string{"work"}
	}
	entryDir := strings.Join(importer, "/")
	imports := map[string][]string{}
	add := func(dir []string, ip string) {
		k := strings.Join(dir, "/")
		imports[k] = append(imports[k], ip)
	}
	var order []string
	touch := func(dir []string) {
		k := strings.Join(dir, "/")
		if _, ok := imports[k]; !ok {
			imports[k] = nil
			order = append(order, k)
		}
	}
	touch(importer)
	// a leaf imported first, so that there is output before the error
	if !quiet {
		leaf := append(append([]string{}, gs...), "zz")
		touch(leaf)
		add(importer, "zz")
	}
	// step: the directory and import path of a new package reached from dir by an import of kind k
	step := func(from []string, k byte, name string) (dir []string, ip string, ok bool) {
		switch k {
		case 'G':
			return append(append([]string{}, gs...), name), name, true
		case 'V':
			if !c16HasPrefix(gs, from) {
				return nil, "", false
			}
			return append(append(append([]string{}, from...), c16Vendor), name), name, true
		case 'R':
			if len(from) > len(base) && g.r.chance(50) {
				return append(append([]string{}, from[:len(from)-1]...), name), "../" + name, true
			}
			return append(append([]string{}, from...), name), "./" + name, true
		}
		return nil, "", false
	}
	if layout == 'X' || leadIn {
		k := byte('G')
		if layout == 'W' || layout == 'X' || (layout == 'S' && g.r.bool()) {
			k = 'R'
		}
		d, ip, ok := step(importer, k, "la")
		if !ok {
			return nil
		}
		touch(d)
		add(importer, ip)
		importer = d
	}
	if lead == 'V' && len(importer) == len(gs) {
		// cmd/go does not look into GOPATH/src/vendor for a file that lies in GOPATH/src itself
		return nil
	}
	names := []string{"ca", "cb", "cc", "cd"}
	nodes := make([][]string, len(kinds))
	d, ip, ok := step(importer, lead, names[0])
	if !ok {
		return nil
	}
	nodes[0] = d
	touch(d)
	add(importer, ip)
	for k := 0; k+1 < len(kinds); k++ {
		d, ip, ok := step(nodes[k], kinds[k], names[k+1])
		if !ok {
			return nil
		}
		nodes[k+1] = d
		touch(d)
		add(nodes[k], ip)
	}
	// the closing import, from the last node back to node 0
	last, first := nodes[len(kinds)-1], nodes[0]
	switch kinds[len(kinds)-1] {
	case 'G':
		if !c16HasPrefix(gs, first) {
			return nil
		}
		rel := first[len(gs):]
		for i := len(rel) - 1; i >= 0; i-- {
			if rel[i] == c16Vendor {
				rel = rel[i+1:]
				break
			}
		}
		add(last, strings.Join(rel, "/"))
	case 'R':
		n := 0
		for n < len(last) && n < len(first) && last[n] == first[n] {
			n++
		}
		up, down := len(last)-n, first[n:]
		if len(down) == 0 { // an ancestor (or the package itself): go one level higher and come back
			if n == 0 {
				return nil
			}
			up, down = up+1, first[n-1:]
		}
		if up == 0 {
			add(last, "./"+strings.Join(down, "/"))
		} else {
			add(last, strings.Repeat("../", up)+strings.Join(down, "/"))
		}
	default:
		return nil
	}
	for _, k := range order {
		c.Pkgs = append(c.Pkgs, c16pkg{Dir: k, Imports: imports[k]})
	}
	if c.mainDir() != entryDir {
		return nil
	}
	// every import must resolve (per Go) to the package it was built for: the cycle is real
	w := newC16World(c)
	reach := map[string]bool{}
	for _, d := range c.reachable() {
		reach[d] = true
	}
	for _, nd := range nodes {
		if !reach[strings.Join(nd, "/")] {
			return nil
		}
	}
	for _, p := range c.Pkgs {
		for _, ip := range p.Imports {
			if t, ok := w.gImport(p.Dir, ip); !ok || !w.goSet[t] {
				return nil
			}
		}
	}
	c.Region = w.classify()
	c.Stream = fmt.Sprintf("cycle-matrix:%c:%c>%s", layout, lead, kinds)
	if leadIn {
		c.Stream += ":lead-in"
	}
	if quiet {
		c.Stream += ":quiet"
	}
	return c
}

// cycleMatrix enumerates layouts x cycle lengths 1..4 x kinds of every edge (all of them up to
// maxFull packages, a seeded sample of the longer ones), each with and without a lead-in package.
func (g *c16gen) cycleMatrix(maxFull, sample int) []*c16case {
	type lay struct {
		l                  byte
		lead, inner, close string
	}
	lays := []lay{{'P', "GV", "GV", "G"}, {'S', "GVR", "GVR", "GR"}, {'W', "R", "R", "R"}, {'X', "G", "GV", "G"}}
	var out []*c16case
	seen := map[string]bool{}
	emit := func(c *c16case) {
		if c == nil {
			return
		}
		k := fmt.Sprint(c.File, c.Entry, c.Pkgs)
		if !seen[k] {
			seen[k] = true
			out = append(out, c)
		}
	}
	for _, ly := range lays {
		for n := 1; n <= 4; n++ {
			var all []string
			var rec func(prefix string)
			rec = func(prefix string) {
				if len(prefix) == n-1 {
					for _, cl := range ly.close {
						all = append(all, prefix+string(cl))
					}
					return
				}
				for _, k := range ly.inner {
					rec(prefix + string(k))
				}
			}
			rec("")
			if n > maxFull && len(all) > sample {
				g.shuffle(all)
				all = all[:sample]
				sort.Strings(all)
			}
			reps := 1
			if ly.l == 'W' {
				reps = 3 // child / sibling directories are drawn at random: several shapes per length
			}
			for _, kinds := range all {
				for rep := 0; rep < reps; rep++ {
					for _, lead := range ly.lead {
						if n > maxFull && !g.r.chance(50) {
							continue
						}
						// half of them quiet; the purely relative layout in both styles
						quiet := g.r.bool()
						emit(g.cycleCase(ly.l, byte(lead), kinds, false, quiet))
						if ly.l == 'W' {
							emit(g.cycleCase(ly.l, byte(lead), kinds, false, !quiet))
						}
						if n <= 2 || g.r.chance(30) {
							emit(g.cycleCase(ly.l, byte(lead), kinds, true, g.r.bool()))
						}
					}
				}
			}
		}
	}
	return out
}

// ---------------------------------------------------------------- entry file inside GOPATH/src/<proj>

// projCase: the entry file lies in GOPATH/src/<proj>/... (depth 1-3); a chain of relative imports of
// length chainLen starts at it; the last package of the chain imports a path X that exists
//
//	nearest: only in the vendor directory of the entry file's directory
//	gopath:  only in GOPATH/src (the project has a vendor directory with something else, or none)
//	both:    in that vendor directory and in GOPATH/src
//	outer:   only in the vendor directory of a proper ancestor (possibly GOPATH/src/vendor)
//	nested:  in the nearest vendor directory and in an outer one
//
// with or without the main file importing X first (which puts it into the memo).
// yaegi resolves X from a root relative to the entry file, then (rootFromSourceLocation) from the
// entry file's directory; Go from the importing directory.
func (g *c16gen) projCase(where string, chainLen int, mainFirst bool) *c16case {
	pool := []string{"org", "proj", "app", "svc", "tool"}
	g.shuffle(pool)
	depth := 1 + g.r.intn(3)
	gs := c16Split(c16Gsrc)
	d := append(append([]string{}, gs...), pool[:depth]...)
	c := &c16case{File: true, Entry: strings.Join(d, "/"), Contract: "spec"}
	imports := map[string][]string{}
	var order []string
	touch := func(dir []string) string {
		k := strings.Join(dir, "/")
		if _, ok := imports[k]; !ok {
			imports[k] = nil
			order = append(order, k)
		}
		return k
	}
	touch(d)
	x := g.r.pick([]string{"dep/a", "dx", "lib/x/y"})
	if mainFirst {
		imports[c.Entry] = append(imports[c.Entry], x)
	}
	cur := d
	for k := 0; k < chainLen; k++ {
		name := []string{"la", "lb", "lc"}[k]
		var nd []string
		var ip string
		if k > 0 && g.r.chance(40) {
			nd, ip = append(append([]string{}, cur[:len(cur)-1]...), name), "../"+name
		} else {
			nd, ip = append(append([]string{}, cur...), name), "./"+name
		}
		ck := strings.Join(cur, "/")
		imports[ck] = append(imports[ck], ip)
		touch(nd)
		cur = nd
	}
	last := strings.Join(cur, "/")
	imports[last] = append(imports[last], x)
	place := func(host []string) {
		dir := append(append(append([]string{}, host...), c16Vendor), c16Split(x)...)
		k := touch(dir)
		if g.r.chance(40) { // the vendored package has a dependency next to it
			dep := append(append(append([]string{}, host...), c16Vendor), "depb")
			touch(dep)
			imports[k] = append(imports[k], "depb")
		}
	}
	outer := func() []string { // a proper ancestor of the entry directory, GOPATH/src itself included
		return d[:len(gs)+g.r.intn(depth)]
	}
	switch where {
	case "nearest":
		place(d)
	case "gopath":
		touch(append(append([]string{}, gs...), c16Split(x)...))
		if g.r.bool() {
			touch(append(append(append([]string{}, d...), c16Vendor), "other"))
		}
	case "both":
		place(d)
		touch(append(append([]string{}, gs...), c16Split(x)...))
	case "outer":
		place(outer())
	case "nested":
		place(d)
		place(outer())
	}
	for _, k := range order {
		c.Pkgs = append(c.Pkgs, c16pkg{Dir: k, Imports: imports[k]})
	}
	c.Region = newC16World(c).classify()
	c.Stream = fmt.Sprintf("proj:%s:chain%d", where, chainLen)
	if mainFirst {
		c.Stream += ":main-first"
	}
	return c
}

// retryRegionCase: region "source-location-retry": a GOPATH package outside the project imports a
// path that only exists in the vendor directory of the entry file's directory.
func (g *c16gen) retryRegionCase() *c16case {
	pool := []string{"org", "proj", "app"}
	g.shuffle(pool)
	depth := 1 + g.r.intn(2)
	d := append(c16Split(c16Gsrc), pool[:depth]...)
	c := &c16case{File: true, Entry: strings.Join(d, "/"), Contract: "spec"}
	x := g.r.pick([]string{"dep/a", "dx"})
	q := g.r.pick([]string{"q", "q/r"})
	main := []string{q}
	if g.r.bool() {
		main = append(main, "./la")
		c.Pkgs = append(c.Pkgs, c16pkg{Dir: c.Entry + "/la"})
	}
	c.Pkgs = append([]c16pkg{{Dir: c.Entry, Imports: main}}, c.Pkgs...)
	c.Pkgs = append(c.Pkgs, c16pkg{Dir: c16Gsrc + "/" + q, Imports: []string{x}}, c16pkg{Dir: c.Entry + "/vendor/" + x})
	c.Region = newC16World(c).classify()
	c.Stream = "region:source-location-retry"
	if c.Region != "source-location-retry" {
		return nil
	}
	return c
}

// ---------------------------------------------------------------- packages of several files

// splitFiles lays the packages of a program out as directories of 1-3 source files plus files
// that must be skipped. The import graph (Pkgs[i].Imports, in order) is unchanged: the imports of
// a package are dealt to its files as consecutive runs in directory order, so every import — the
// closing edge of a cycle, the edges of a diamond to its shared dependency — lies in the first, a
// middle or the last file, after files that import nothing or other packages. File names are drawn
// so that directory order is not the order of writing (z.go/b.go), skipped files come first, in
// between or last. The package of a file entry stays the file p.go (only that file is evaluated).
func (g *c16gen) splitFiles(c *c16case) {
	pools := [][]string{{"p.go"}, {"a1.go", "a2.go"}, {"z.go", "b.go"}, {"p.go", "m.go"}, {"a1.go", "a2.go", "a3.go"}, {"z.go", "b.go", "k.go"}, {"p.go", "q.go", "main.go"}}
	skips := []string{"a0_test.go", "zz_test.go", "n_test.go", "a0_ign.go", "zz_ign.go", "c_ign.go", "a0_plan9.go", "n_plan9.go", "zz_plan9.go"}
	for i := range c.Pkgs {
		p := &c.Pkgs[i]
		if c.File && p.Dir == c.mainDir() {
			continue
		}
		names := append([]string{}, pools[g.r.intn(len(pools))]...)
		sort.Strings(names) // directory order
		var skip []string
		for _, k := range []int{g.r.intn(len(skips)), g.r.intn(len(skips))} {
			if g.r.chance(45) && (len(skip) == 0 || skip[0] != skips[k]) {
				skip = append(skip, skips[k])
			}
		}
		if len(names) == 1 && len(skip) == 0 {
			continue
		}
		cnt := make([]int, len(names))
		// a package with one import and several files: the import is as likely in a later file
		for range p.Imports {
			cnt[g.r.intn(len(names))]++
		}
		p.Files = nil
		for k, n := range names {
			p.Files = append(p.Files, c16file{Name: n, N: cnt[k]})
		}
		sort.Strings(skip)
		p.Skip = skip
	}
}

// laterFileImport: some package of the program declares an import in a file that is not its first.
func (c *c16case) laterFileImport() bool {
	for _, p := range c.Pkgs {
		for k, f := range p.Files {
			if k > 0 && f.N > 0 {
				return true
			}
		}
	}
	return false
}

// ---------------------------------------------------------------- rendering a program

// c16Source renders a package. importAs (optional) gives, per import, the path written in the
// import declaration when it differs from the import path of the program (reference variant).
func c16Source(i int, p c16pkg, isMain, quiet bool, importAs []string) string {
	if importAs == nil {
		importAs = p.Imports
	}
	var b strings.Builder
	name := fmt.Sprintf("pk%d", i)
	if isMain {
		name = "main"
	}
	if quiet {
		fmt.Fprintf(&b, "package %s\n\n", name)
		for j := range p.Imports {
			fmt.Fprintf(&b, "import x%d %q\n", j, importAs[j])
		}
		fmt.Fprintf(&b, "\nvar Dir = %q\n", p.Dir)
		for j := range p.Imports {
			fmt.Fprintf(&b, "\nvar _ = x%d.Dir\n", j)
		}
		if isMain {
			fmt.Fprintf(&b, "\nfunc main() {}\n")
		}
		return b.String()
	}
	fmt.Fprintf(&b, "package %s\n\nimport (\n\t\"fmt\"\n", name)
	for j := range p.Imports {
		fmt.Fprintf(&b, "\tx%d %q\n", j, importAs[j])
	}
	fmt.Fprintf(&b, ")\n\nvar Dir = %q\n\nfunc init() {\n\tfmt.Println(\"init\", Dir)\n", p.Dir)
	for j, ip := range p.Imports {
		fmt.Fprintf(&b, "\tfmt.Println(\"edge\", Dir, %q, x%d.Dir)\n", ip, j)
	}
	fmt.Fprintf(&b, "}\n")
	if isMain {
		fmt.Fprintf(&b, "\nfunc main() { fmt.Println(\"main\", Dir) }\n")
	}
	return b.String()
}

func (c *c16case) mainDir() string {
	if c.File {
		return c.Entry
	}
	return c16Gsrc + "/" + c.Entry
}

func (c *c16case) files() map[string]string {
	m := map[string]string{}
	for i, p := range c.Pkgs {
		c16PkgFiles(m, i, p, p.Dir == c.mainDir(), c.Quiet, nil)
	}
	return m
}

// c16PkgFiles renders the files of a package into m: p.go, or the files of p.Files, each with its
// share of the imports (the first one declares Dir and prints "init"; main is in the last one),
// and the files of p.Skip.
func c16PkgFiles(m map[string]string, i int, p c16pkg, isMain, quiet bool, importAs []string) {
	if len(p.Files) == 0 {
		m[p.Dir+"/p.go"] = c16Source(i, p, isMain, quiet, importAs)
		return
	}
	if importAs == nil {
		importAs = p.Imports
	}
	name := fmt.Sprintf("pk%d", i)
	if isMain {
		name = "main"
	}
	lo := 0
	for k, f := range p.Files {
		hi := lo + f.N
		var b strings.Builder
		fmt.Fprintf(&b, "package %s\n\n", name)
		first, last := k == 0, k == len(p.Files)-1
		if quiet {
			for j := lo; j < hi; j++ {
				fmt.Fprintf(&b, "import x%d %q\n", j, importAs[j])
			}
			if first {
				fmt.Fprintf(&b, "\nvar Dir = %q\n", p.Dir)
			} else {
				fmt.Fprintf(&b, "\nvar File%d = Dir\n", k)
			}
			for j := lo; j < hi; j++ {
				fmt.Fprintf(&b, "\nvar _ = x%d.Dir\n", j)
			}
			if isMain && last {
				fmt.Fprintf(&b, "\nfunc main() {}\n")
			}
		} else {
			prints := first || hi > lo || (isMain && last)
			if prints {
				fmt.Fprintf(&b, "import (\n\t\"fmt\"\n")
				for j := lo; j < hi; j++ {
					fmt.Fprintf(&b, "\tx%d %q\n", j, importAs[j])
				}
				fmt.Fprintf(&b, ")\n\n")
			}
			if first {
				fmt.Fprintf(&b, "var Dir = %q\n\n", p.Dir)
			} else {
				fmt.Fprintf(&b, "var File%d = Dir\n\n", k)
			}
			if first || hi > lo {
				fmt.Fprintf(&b, "func init() {\n")
				if first {
					fmt.Fprintf(&b, "\tfmt.Println(\"init\", Dir)\n")
				}
				for j := lo; j < hi; j++ {
					fmt.Fprintf(&b, "\tfmt.Println(\"edge\", Dir, %q, x%d.Dir)\n", p.Imports[j], j)
				}
				fmt.Fprintf(&b, "}\n")
			}
			if isMain && last {
				fmt.Fprintf(&b, "\nfunc main() { fmt.Println(\"main\", Dir) }\n")
			}
		}
		m[p.Dir+"/"+f.Name] = b.String()
		lo = hi
	}
	for _, sk := range p.Skip {
		head := ""
		if !strings.HasSuffix(sk, "_test.go") && !strings.HasSuffix(sk, "_plan9.go") {
			head = "//go:build ignore\n// +build ignore\n\n"
		}
		m[p.Dir+"/"+sk] = fmt.Sprintf("%spackage %s\n\nimport _ \"nosuch/skipped\"\n\nvar Dir = \"skipped\"\n", head, name)
	}
}

// refFiles is the program as given to the toolchain when it refuses relative imports inside
// GOPATH packages (Contract "spec"): a relative import whose target lies in GOPATH/src is declared
// by the import path of that directory — the same package for Go —, the program still prints the
// import path as written. Everything else (vendor resolution from the importing directory, single
// initialisation) is left to the toolchain.
func (c *c16case) refFiles() map[string]string {
	w := newC16World(c)
	m := map[string]string{}
	for i, p := range c.Pkgs {
		as := append([]string{}, p.Imports...)
		for j, ip := range p.Imports {
			if !c16IsRel(c16Split(ip)) {
				continue
			}
			t := c16Clean(append(c16Split(p.Dir), c16Split(ip)...))
			if c16HasPrefix(w.gsrc, t) && len(t) > len(w.gsrc) && !strings.Contains(strings.Join(t, "/"), c16Vendor) {
				as[j] = strings.Join(t[len(w.gsrc):], "/")
			}
		}
		c16PkgFiles(m, i, p, p.Dir == c.mainDir(), c.Quiet, as)
	}
	return m
}

// materialize writes the program below root; the directories of c.Links (parents first) and, with
// c.LinkEntry, the entry file are symbolic links into store.
func (c *c16case) materialize(root, store string) error {
	linked := map[string]bool{}
	for _, d := range c.Links {
		linked[d] = true
	}
	dirs := map[string]bool{}
	for _, p := range c.Pkgs {
		parts := c16Split(p.Dir)
		for k := 1; k <= len(parts); k++ {
			dirs[strings.Join(parts[:k], "/")] = true
		}
	}
	all := sortedKeys(dirs)
	sort.SliceStable(all, func(i, j int) bool { return strings.Count(all[i], "/") < strings.Count(all[j], "/") })
	if err := os.MkdirAll(root, 0o755); err != nil {
		return err
	}
	n := 0
	for _, d := range all {
		full := filepath.Join(root, d)
		if linked[d] {
			n++
			target := filepath.Join(store, fmt.Sprintf("d%d", n))
			if err := os.MkdirAll(target, 0o755); err != nil {
				return err
			}
			if err := os.Symlink(target, full); err != nil {
				return err
			}
		} else if err := os.Mkdir(full, 0o755); err != nil {
			return err
		}
	}
	entryFile := ""
	if c.LinkEntry {
		entryFile = c.mainDir() + "/p.go"
	}
	for name, src := range c.files() {
		full := filepath.Join(root, name)
		if name == entryFile {
			target := filepath.Join(store, "entry_p.go")
			if err := os.MkdirAll(store, 0o755); err != nil {
				return err
			}
			if err := os.WriteFile(target, []byte(src), 0o644); err != nil {
				return err
			}
			if err := os.Symlink(target, full); err != nil {
				return err
			}
			continue
		}
		if err := os.WriteFile(full, []byte(src), 0o644); err != nil {
			return err
		}
	}
	return nil
}

// chooseLinks decides the on-disk layout of a program; kind cycles over the programs of a run so
// that every kind occurs in every stream: none / every vendor directory / package directories /
// intermediate directories and the entry file / any directory.
func (g *c16gen) chooseLinks(c *c16case, kind int) {
	dirs := map[string]bool{}
	pkg := map[string]bool{}
	for _, p := range c.Pkgs {
		pkg[p.Dir] = true
		parts := c16Split(p.Dir)
		for k := 1; k <= len(parts); k++ {
			dirs[strings.Join(parts[:k], "/")] = true
		}
	}
	names := []string{"plain", "vendor-dirs", "package-dirs", "intermediate-dirs+entry-file", "any"}
	c.LinkKind = names[kind%len(names)]
	for _, d := range sortedKeys(dirs) {
		if d == "gp" || d == c16Gsrc {
			continue
		}
		isVendor := strings.HasSuffix(d, "/"+c16Vendor)
		switch c.LinkKind {
		case "vendor-dirs":
			if isVendor {
				c.Links = append(c.Links, d)
			}
		case "package-dirs":
			if pkg[d] && g.r.chance(40) {
				c.Links = append(c.Links, d)
			}
		case "intermediate-dirs+entry-file":
			if !pkg[d] && !isVendor && g.r.chance(60) {
				c.Links = append(c.Links, d)
			}
		case "any":
			if g.r.chance(40) {
				c.Links = append(c.Links, d)
			}
		}
	}
	if c.LinkKind == "intermediate-dirs+entry-file" || (c.LinkKind == "any" && g.r.bool()) {
		c.LinkEntry = true
	}
}

// relInGopath: some package below GOPATH/src has a relative import (cmd/go refuses that).
func (c *c16case) relInGopath() bool {
	gs := c16Split(c16Gsrc)
	for _, p := range c.Pkgs {
		if !c16HasPrefix(gs, c16Split(p.Dir)) {
			continue
		}
		for _, ip := range p.Imports {
			if c16IsRel(c16Split(ip)) {
				return true
			}
		}
	}
	return false
}

// gOracle is the specification loader G (Imports/Model.v g_load) on the program: the fallback
// reference when the toolchain refuses a layout; the Coq side compares it with G again.
func (c *c16case) gOracle() c16out {
	w := newC16World(c)
	done, onstack := map[string]bool{}, map[string]bool{}
	var lines []string
	var load func(dir string) string
	load = func(dir string) string {
		if done[dir] {
			return ""
		}
		if onstack[dir] {
			return "cycle"
		}
		p := w.byDir[dir]
		if p == nil {
			if w.dirSet[dir] {
				return "nogo"
			}
			return "notfound"
		}
		onstack[dir] = true
		var edges []string
		for _, ip := range p.Imports {
			t, ok := w.gImport(dir, ip)
			if !ok {
				return "notfound"
			}
			if e := load(t); e != "" {
				return e
			}
			edges = append(edges, "edge "+dir+" "+ip+" "+t)
		}
		onstack[dir] = false
		done[dir] = true
		lines = append(lines, "init "+dir)
		lines = append(lines, edges...)
		return ""
	}
	if e := load(c.mainDir()); e != "" {
		return c16out{Err: e, Text: "spec G"}
	}
	return c16out{Lines: append(lines, "main "+c.mainDir()), Text: "spec G"}
}

func (c *c16case) coq() string {
	var ps []string
	for _, p := range c.Pkgs {
		var is []string
		for _, ip := range p.Imports {
			is = append(is, coqRawStr(ip))
		}
		if len(p.Files) > 0 {
			// the package of the models is the union of the files' imports, in directory order
			var fl []string
			lo := 0
			for _, f := range p.Files {
				fl = append(fl, coqList(is[lo:lo+f.N]))
				lo += f.N
			}
			ps = append(ps, fmt.Sprintf("mkpkgf %s %s", coqRawStr(p.Dir), coqList(fl)))
			continue
		}
		ps = append(ps, fmt.Sprintf("mkpkg %s %s", coqRawStr(p.Dir), coqList(is)))
	}
	entryDir, entryPath := "", c.Entry
	if c.File {
		entryDir, entryPath = c.Entry, ""
	}
	return fmt.Sprintf("%s, %s, mkctx %s %s %s, pth %s", coqOpt(!c.NoLabel, coqBool(c.Region == "")), coqBool(c.File), coqRawStr(c16Gsrc), coqRawStr(entryDir), coqList(ps), coqRawStr(entryPath))
}

// outcome of one evaluation: the printed lines and the class of the error
type c16out struct {
	Lines []string `json:"lines"`
	Err   string   `json:"err"`             // "" | notfound | cycle | nogo | other
	Text  string   `json:"text"`            // first line of the error, for the replay
	Opens int      `json:"opens,omitempty"` // MapFS runs: number of files and directories opened
}

func c16ErrClass(msg string) string {
	switch {
	case msg == "":
		return ""
	case strings.Contains(msg, "c16: open budget"):
		return "other" // the recursion did not terminate
	case strings.Contains(msg, "import cycle not allowed"):
		return "cycle"
	case strings.Contains(msg, "no Go files in"), strings.Contains(msg, "no non-test Go files"), strings.Contains(msg, "build constraints exclude all Go files"):
		return "nogo"
	case strings.Contains(msg, "unable to find source related to"), strings.Contains(msg, "not in GOPATH"), strings.Contains(msg, "no such file or directory"),
		strings.Contains(msg, "file does not exist"), strings.Contains(msg, "cannot find package"):
		return "notfound"
	}
	return "other"
}

// c16RefErrClass classifies what cmd/go says about the program; anything else is "other".
func c16RefErrClass(msg string) string {
	switch {
	case strings.Contains(msg, "import cycle not allowed"):
		return "cycle"
	case strings.Contains(msg, "no Go files in"):
		return "nogo"
	case strings.Contains(msg, "cannot find package"):
		return "notfound"
	}
	return "other"
}

// c16ToolchainTrouble: the failure is about the Go installation or its build cache, not the program.
func c16ToolchainTrouble(msg string) bool {
	for _, k := range []string{"go-build", "could not import", "is not in std", "cannot find GOROOT", "signal: killed", "no space left", "cannot allocate memory", "resource temporarily unavailable", "failed to initialize build cache"} {
		if strings.Contains(msg, k) {
			return true
		}
	}
	return false
}

func c16Lines(out string) []string {
	var l []string
	for _, x := range strings.Split(out, "\n") {
		if x = strings.TrimSpace(x); x != "" {
			l = append(l, x)
		}
	}
	return l
}

func (o c16out) coq() string {
	var evs []string
	bad := false
	for _, l := range o.Lines {
		f := strings.Fields(l)
		switch {
		case len(f) == 2 && f[0] == "init":
			evs = append(evs, "init "+coqRawStr(f[1]))
		case len(f) == 4 && f[0] == "edge":
			evs = append(evs, fmt.Sprintf("edge %s %s %s", coqRawStr(f[1]), coqRawStr(f[2]), coqRawStr(f[3])))
		case len(f) == 2 && f[0] == "main":
			evs = append(evs, "main "+coqRawStr(f[1]))
		default:
			bad = true
		}
	}
	e := "None"
	switch o.Err {
	case "notfound":
		e = "Some ENotFound"
	case "cycle":
		e = "Some ECycle"
	case "nogo":
		e = "Some ENoGo"
	case "":
	default:
		e = "Some EFuel" // an outcome no model produces
	}
	if bad {
		e = "Some EFuel"
	}
	return fmt.Sprintf("(%s, %s)", coqList(evs), e)
}

func (o c16out) sortedKey() string {
	l := append([]string{}, o.Lines...)
	sort.Strings(l)
	if o.Err != "" {
		return "err:" + o.Err
	}
	return strings.Join(l, "\n")
}

// ---------------------------------------------------------------- child: one program through yaegi (disk, MapFS)

type c16evalRes struct {
	Disk  c16out `json:"disk"`
	MapFS c16out `json:"mapfs"`
}

func c16EvalOne(opts interp.Options, path string, timeout time.Duration) c16out {
	var stdout, stderr bytes.Buffer
	opts.Stdout, opts.Stderr = &stdout, &stderr
	done := make(chan c16out, 1)
	go func() {
		var r c16out
		defer func() {
			if p := recover(); p != nil {
				r.Lines = c16Lines(stdout.String())
				r.Err, r.Text = "other", "host panic: "+firstLine(fmt.Sprint(p))
			}
			done <- r
		}()
		i := interp.New(opts)
		if err := i.Use(stdlib.Symbols); err != nil {
			r.Err, r.Text = "other", "use: "+err.Error()
			return
		}
		_, err := i.EvalPath(path)
		r.Lines = c16Lines(stdout.String())
		if err != nil {
			r.Err, r.Text = c16ErrClass(err.Error()), firstLine(err.Error())
			if len(err.Error()) > 400 {
				r.Text = r.Text[:min(len(r.Text), 400)]
			}
		}
	}()
	select {
	case r := <-done:
		return r
	case <-time.After(timeout):
		return c16out{Lines: c16Lines(stdout.String()), Err: "other", Text: "timeout"}
	}
}

// c16BudgetFS refuses to open more than limit files: an import recursion that does not terminate
// ends with an ordinary error (class "other": no model produces it) instead of exhausting memory.
type c16BudgetFS struct {
	fs.FS
	mu    sync.Mutex
	opens int
	limit int
}

func (f *c16BudgetFS) Open(name string) (fs.File, error) {
	f.mu.Lock()
	f.opens++
	over := f.opens > f.limit
	f.mu.Unlock()
	if over {
		return nil, &fs.PathError{Op: "open", Path: name, Err: fmt.Errorf("c16: open budget of %d exhausted, import recursion does not terminate", f.limit)}
	}
	return f.FS.Open(name)
}

const (
	c16MaxStack   = 48 << 20 // bytes: a runaway recursion on disk dies quickly with "stack overflow"
	c16OpenBudget = 2000     // the programs of this generator need fewer than 100 opens (measured: e2e:max-opens-of-a-mapfs-run)
)

func runC16Eval(args []string) error {
	fl := flag.NewFlagSet("c16-eval", flag.ExitOnError)
	root := fl.String("root", "", "scratch root holding the tree on disk")
	mode := fl.String("mode", "disk", "disk|mapfs")
	fl.Parse(args)
	b, err := os.ReadFile(fl.Arg(0))
	if err != nil {
		return err
	}
	var c c16case
	if err := json.Unmarshal(b, &c); err != nil {
		return err
	}
	debug.SetMaxStack(c16MaxStack)
	// A file entry is named relative to the working directory, which is the origin of the tree, and
	// GOPATH is absolute: that is what rootFromSourceLocation keys on (os.Getwd() joined with the
	// directory of the input file must lie inside GOPATH/src), whatever filesystem is supplied.
	var res c16out
	if *mode == "mapfs" {
		mfs := fstest.MapFS{}
		for name, src := range c.files() {
			mfs[name] = &fstest.MapFile{Data: []byte(src)}
		}
		bfs := &c16BudgetFS{FS: mfs, limit: c16OpenBudget}
		if c.File {
			// the working directory is an empty directory; the supplied filesystem shows the tree below it
			wd, err := os.Getwd()
			if err != nil {
				return err
			}
			pfs := &c16PrefixFS{FS: bfs, prefix: wd}
			res = c16EvalOne(interp.Options{GoPath: filepath.Join(wd, "gp"), SourcecodeFilesystem: pfs}, c.Entry+"/p.go", 90*time.Second)
		} else {
			res = c16EvalOne(interp.Options{GoPath: "gp", SourcecodeFilesystem: bfs}, c.Entry, 90*time.Second)
		}
		res.Opens = bfs.opens
	} else {
		if c.File {
			if err := os.Chdir(*root); err != nil {
				return err
			}
			res = c16EvalOne(interp.Options{GoPath: filepath.Join(*root, "gp")}, c.Entry+"/p.go", 90*time.Second)
		} else {
			res = c16EvalOne(interp.Options{GoPath: filepath.Join(*root, "gp")}, c.Entry, 90*time.Second)
		}
	}
	return json.NewEncoder(os.Stdout).Encode(res)
}

// c16PrefixFS shows a filesystem of relative paths below an absolute directory as well: the name
// prefix/x is x (an fs.FS supplied through Options.SourcecodeFilesystem may accept any name).
type c16PrefixFS struct {
	fs.FS
	prefix string
}

func (f *c16PrefixFS) Open(name string) (fs.File, error) {
	switch {
	case name == f.prefix:
		name = "."
	case strings.HasPrefix(name, f.prefix+"/"):
		name = strings.TrimPrefix(name, f.prefix+"/")
	case strings.HasPrefix(name, "/"):
		return nil, &fs.PathError{Op: "open", Path: name, Err: fs.ErrNotExist}
	}
	return f.FS.Open(name)
}

// c16Run writes the program under a scratch root, runs the child (yaegi) and the reference (go run).
func c16Run(c *c16case) (impl c16evalRes, ref c16out, err error) {
	top, err := os.MkdirTemp("", "vh-c16-*")
	if err != nil {
		return impl, ref, err
	}
	defer os.RemoveAll(top)
	// the tree lives in top/t; yaegi runs in the empty directory top/cwd, so that nothing that
	// bypasses the supplied filesystem can find the tree by accident
	root := filepath.Join(top, "t")
	cwd := filepath.Join(top, "cwd")
	os.MkdirAll(cwd, 0o755)
	if err := c.materialize(root, filepath.Join(top, "store")); err != nil {
		return impl, ref, err
	}
	os.MkdirAll(filepath.Join(root, "gp", "src"), 0o755)
	cj, _ := json.Marshal(c)
	cfile := filepath.Join(root, "case.json")
	if err := os.WriteFile(cfile, cj, 0o644); err != nil {
		return impl, ref, err
	}
	self, _ := os.Executable()
	child := func(mode string) c16out {
		ctx, cancel := context.WithTimeout(context.Background(), 200*time.Second)
		defer cancel()
		cmd := exec.CommandContext(ctx, self, "c16-eval", "-mode", mode, "-root", root, cfile)
		var out, errb bytes.Buffer
		cmd.Stdout, cmd.Stderr = &out, &errb
		cmd.Dir = cwd
		rerr := cmd.Run()
		var r c16out
		if json.Unmarshal(out.Bytes(), &r) != nil || rerr != nil {
			// the process died (stack overflow of an unbounded recursion, fatal error, kill on timeout)
			msg := firstLine(errb.String())
			for _, l := range strings.Split(errb.String(), "\n") {
				if strings.HasPrefix(l, "fatal error:") {
					msg = l
				}
			}
			return c16out{Err: "other", Text: "host crash: " + firstLine(fmt.Sprint(rerr)) + ": " + msg}
		}
		return r
	}
	impl.Disk = child("disk")
	impl.MapFS = child("mapfs")
	groot := root
	if c.relInGopath() || len(c.Links) > 0 || c.LinkEntry {
		// the toolchain gets a tree of its own, of plain directories, and the variant without relative
		// imports inside GOPATH
		groot = filepath.Join(top, "g")
		gfiles := c.files()
		if c.relInGopath() {
			gfiles = c.refFiles()
		}
		for name, src := range gfiles {
			full := filepath.Join(groot, name)
			if err := os.MkdirAll(filepath.Dir(full), 0o755); err != nil {
				return impl, ref, err
			}
			if err := os.WriteFile(full, []byte(src), 0o644); err != nil {
				return impl, ref, err
			}
		}
	}
	for attempt := 0; ; attempt++ {
		ctx, cancel := context.WithTimeout(context.Background(), 300*time.Second)
		arg := "."
		if c.File {
			arg = "p.go"
		}
		cmd := exec.CommandContext(ctx, "go", "run", arg)
		cmd.Dir = filepath.Join(groot, c.mainDir())
		cmd.Env = append(os.Environ(), "GO111MODULE=off", "GOPATH="+filepath.Join(groot, "gp"), "GOFLAGS=", "GOPROXY=off", "GOTOOLCHAIN=local")
		var out, errb bytes.Buffer
		cmd.Stdout, cmd.Stderr = &out, &errb
		rerr := cmd.Run()
		timedOut := ctx.Err() != nil
		cancel()
		if timedOut {
			return impl, ref, fmt.Errorf("reference go run timed out in %s", cmd.Dir)
		}
		if rerr != nil && c16ToolchainTrouble(errb.String()) {
			// the shared build cache or GOROOT is being modified under us (another job cleaning the
			// cache): not an outcome of the program; try again, then give up as a harness failure
			if attempt < 4 {
				time.Sleep(time.Duration(attempt+1) * time.Second)
				continue
			}
			return impl, ref, fmt.Errorf("reference go run cannot work (toolchain trouble): %s", firstLine(errb.String()))
		}
		ref = c16out{Lines: c16Lines(out.String())}
		if rerr != nil {
			msg := errb.String()
			ref.Err, ref.Text = c16RefErrClass(msg), firstLine(msg)
			// several kinds of error in one build: not a case this generator means to produce
			n := 0
			for _, k := range []string{"import cycle not allowed", "cannot find package", "no Go files in"} {
				if strings.Contains(msg, k) {
					n++
				}
			}
			if n > 1 {
				ref.Err = "several" // rendered as [Some EFuel]: any error of G fits (Imports/Cases.v)
			}
			ref.Lines = nil
		}
		if c.Contract == "spec" {
			if ref.Err == "other" || ref.Err == "several" {
				t := ref.Text
				ref = c.gOracle()
				ref.Text = "spec G (the toolchain refuses this layout: " + t + ")"
			}
		} else if c.Contract != "" && (ref.Err == "other" || ref.Err == "several") {
			ref = c16out{Err: c.Contract, Text: "contract (the toolchain refuses this layout: " + ref.Text + ")"}
		}
		break
	}
	return impl, ref, nil
}

// ---------------------------------------------------------------- function level

type c16fnCase struct {
	Kind string   `json:"k"` // eff | prev | pkgdir
	Dirs []string `json:"dirs,omitempty"`
	Root string   `json:"root"`
	IP   string   `json:"ip,omitempty"`
}

type c16fnRes struct {
	I     int    `json:"i"`
	Obs   string `json:"obs"`
	RPath string `json:"rpath,omitempty"`
	OK    bool   `json:"ok"`
}

func runC16Fn(args []string) error {
	b, err := os.ReadFile(args[0])
	if err != nil {
		return err
	}
	var cases []c16fnCase
	if err := json.Unmarshal(b, &cases); err != nil {
		return err
	}
	w := bufio.NewWriter(os.Stdout)
	defer w.Flush()
	enc := json.NewEncoder(w)
	var lastDirs string
	var mfs fstest.MapFS
	var ip *interp.Interpreter
	for i, c := range cases {
		if k := strings.Join(c.Dirs, "\x00"); c.Kind != "eff" && (mfs == nil || k != lastDirs) {
			lastDirs = k
			mfs = fstest.MapFS{}
			for _, d := range c.Dirs {
				mfs[d+"/p.go"] = &fstest.MapFile{Data: []byte("package p\n")}
			}
			ip = interp.New(interp.Options{GoPath: "gp", SourcecodeFilesystem: mfs})
		}
		r := c16fnRes{I: i, OK: true}
		switch c.Kind {
		case "eff":
			r.Obs = interp.VerifEffectivePkg(c.Root, c.IP)
		case "prev":
			o, err := interp.VerifPreviousRoot(mfs, c16Gsrc+"/"+c.Root, c.Root)
			r.Obs, r.OK = o, err == nil
		case "pkgdir":
			d, rp, err := ip.VerifPkgDir("gp", c.Root, c.IP)
			r.Obs, r.RPath, r.OK = d, rp, err == nil
		}
		if err := enc.Encode(r); err != nil {
			return err
		}
		if i%64 == 0 {
			w.Flush()
		}
	}
	return nil
}

func c16AllPaths(alpha []string, maxDepth int, withEmpty bool) []string {
	var out []string
	if withEmpty {
		out = append(out, "")
	}
	cur := []string{""}
	for d := 1; d <= maxDepth; d++ {
		var next []string
		for _, p := range cur {
			for _, a := range alpha {
				q := a
				if p != "" {
					q = p + "/" + a
				}
				next = append(next, q)
			}
		}
		out = append(out, next...)
		cur = next
	}
	return out
}

func (g *c16gen) fnCases(thorough bool) []c16fnCase {
	var cs []c16fnCase
	alpha := []string{"a", "b", c16Vendor}
	roots3 := c16AllPaths(alpha, 3, true)
	paths3 := c16AllPaths(alpha, 3, false)
	// effectivePkg: exhaustive over roots and paths of depth <= 3 on {a, b, vendor}
	for _, r := range roots3 {
		for _, p := range paths3 {
			cs = append(cs, c16fnCase{Kind: "eff", Root: r, IP: p})
		}
	}
	big := []string{"a", "b", "c", c16Vendor, "main"}
	rnd := func(alpha []string, max int, empty bool) string {
		n := g.r.intn(max + 1)
		if !empty && n == 0 {
			n = 1
		}
		var p []string
		for i := 0; i < n; i++ {
			p = append(p, g.r.pick(alpha))
		}
		return strings.Join(p, "/")
	}
	nEff := 800
	if thorough {
		nEff = 30000
	}
	for i := 0; i < nEff; i++ {
		cs = append(cs, c16fnCase{Kind: "eff", Root: rnd(big, 6, true), IP: rnd(big, 6, false)})
	}
	// previousRoot and pkgDir: every filesystem with a single leaf directory of depth <= 3
	ips2 := c16AllPaths(alpha, 2, false)
	for _, leaf := range paths3 {
		dirs := []string{c16Gsrc + "/" + leaf}
		for _, r := range paths3 {
			cs = append(cs, c16fnCase{Kind: "prev", Dirs: dirs, Root: r})
		}
		for _, r := range roots3 {
			for _, p := range ips2 {
				cs = append(cs, c16fnCase{Kind: "pkgdir", Dirs: dirs, Root: r, IP: p})
			}
		}
	}
	// seeded: several leaves, deeper, larger alphabet (with "main")
	nTrees := 250
	if thorough {
		nTrees = 8000
	}
	for t := 0; t < nTrees; t++ {
		nl := 2 + g.r.intn(4)
		var dirs []string
		for i := 0; i < nl; i++ {
			var leaf string
			if len(dirs) > 0 && g.r.chance(50) {
				// related to an existing leaf: a sibling below one of its ancestors
				base := c16Split(strings.TrimPrefix(g.r.pick(dirs), c16Gsrc+"/"))
				base = base[:g.r.intn(len(base)+1)]
				leaf = strings.Join(append(base, c16Split(rnd(big, 2, false))...), "/")
			} else {
				leaf = rnd(big, 4, false)
			}
			dirs = append(dirs, c16Gsrc+"/"+leaf)
		}
		for q := 0; q < 8; q++ {
			var root string
			if g.r.chance(70) {
				base := c16Split(strings.TrimPrefix(g.r.pick(dirs), c16Gsrc+"/"))
				root = strings.Join(base[:g.r.intn(len(base)+1)], "/")
			} else {
				root = rnd(big, 4, true)
			}
			var ip string
			if g.r.chance(60) {
				base := c16Split(strings.TrimPrefix(g.r.pick(dirs), c16Gsrc+"/"))
				k := g.r.intn(len(base))
				ip = strings.Join(base[k:], "/")
			} else {
				ip = rnd(big, 3, false)
			}
			cs = append(cs, c16fnCase{Kind: "pkgdir", Dirs: dirs, Root: root, IP: ip})
			if root != "" {
				cs = append(cs, c16fnCase{Kind: "prev", Dirs: dirs, Root: root})
			}
		}
	}
	return cs
}

// c16RunFn evaluates the function-level cases in child processes (16 shards).
func c16RunFn(cases []c16fnCase, tmp string) ([]c16fnRes, []string) {
	res := make([]c16fnRes, len(cases))
	got := make([]bool, len(cases))
	var notes []string
	var mu sync.Mutex
	self, _ := os.Executable()
	shards := 16
	per := (len(cases) + shards - 1) / shards
	parallelMap(shards, shards, func(sh int) {
		lo, hi := sh*per, min((sh+1)*per, len(cases))
		if lo >= hi {
			return
		}
		b, _ := json.Marshal(cases[lo:hi])
		f := filepath.Join(tmp, fmt.Sprintf("fn_%d.json", sh))
		os.WriteFile(f, b, 0o644)
		ctx, cancel := context.WithTimeout(context.Background(), 10*time.Minute)
		defer cancel()
		cmd := exec.CommandContext(ctx, self, "c16-fn", f)
		var out, errb bytes.Buffer
		cmd.Stdout, cmd.Stderr = &out, &errb
		rerr := cmd.Run()
		sc := bufio.NewScanner(&out)
		sc.Buffer(make([]byte, 1<<20), 1<<24)
		n := 0
		for sc.Scan() {
			var r c16fnRes
			if json.Unmarshal(sc.Bytes(), &r) == nil && lo+r.I < hi {
				res[lo+r.I] = r
				got[lo+r.I] = true
				n++
			}
		}
		if rerr != nil || n < hi-lo {
			mu.Lock()
			notes = append(notes, fmt.Sprintf("function-level child %d stopped after %d of %d cases: %v: %s", sh, n, hi-lo, rerr, firstLine(errb.String())))
			mu.Unlock()
		}
	})
	for i := range res {
		if !got[i] {
			res[i] = c16fnRes{I: -1}
		}
	}
	return res, notes
}

// ---------------------------------------------------------------- driver

func runC16(args []string) error {
	fs := flag.NewFlagSet("c16", flag.ExitOnError)
	out := fs.String("out", "/verif/build/C16", "output directory")
	tier := fs.String("tier", "quick", "quick|thorough")
	seed := fs.Uint64("seed", envSeed(), "seed")
	fs.Parse(args)
	if err := os.MkdirAll(*out, 0o755); err != nil {
		return err
	}
	thorough := *tier == "thorough"
	// fork: newRng gives consecutive seeds the same stream shifted by one step, which a generator
	// with retries re-synchronises on; the forked state is a mixed function of the seed
	g := &c16gen{r: newRng(*seed).fork()}
	sm := newSummary("C16")
	distinct := distinctSet{}
	id := 0
	newID := func(input any) int {
		id++
		sm.CaseIndex[fmt.Sprint(id)] = input
		return id
	}
	tmp, err := os.MkdirTemp("", "vh-c16fn-*")
	if err != nil {
		return err
	}
	defer os.RemoveAll(tmp)

	// ------------------------------------------------------------ A. function level
	only := os.Getenv("VERIF_C16_ONLY") // debugging aid: "matrix" / "proj" run one family alone
	fnCases := g.fnCases(thorough)
	if only != "" {
		fnCases = nil
	}
	fnRes, notes := c16RunFn(fnCases, tmp)
	sm.Notes = append(sm.Notes, notes...)
	var effCases, prevCases, pkgCases []string
	for i, c := range fnCases {
		r := fnRes[i]
		in := map[string]any{"kind": c.Kind, "dirs": c.Dirs, "root": c.Root, "path": c.IP}
		cid := newID(in)
		sm.Evaluations++
		sm.ImplComparisons++
		sm.count("fn:" + c.Kind)
		if r.I < 0 {
			// the child died on (or before) this input: a host crash is a violation of its own
			sm.HarnessViolations = append(sm.HarnessViolations, refMismatch{ID: cid, Region: "", Input: in, Impl: "no answer (host crash or hang in the function-level child)", Ref: "an answer"})
			continue
		}
		switch c.Kind {
		case "eff":
			effCases = append(effCases, fmt.Sprintf("(%d%%N, %s, %s, %s)", cid, coqStr(c.Root), coqStr(c.IP), coqStr(r.Obs)))
			if strings.Contains(c.Root, "/") {
				distinct.add("eff", c.Root, c.IP)
			}
		case "prev":
			obs := r.Obs
			if !r.OK {
				obs = "<error>"
			}
			prevCases = append(prevCases, fmt.Sprintf("(%d%%N, %s, %s, %s, %s)", cid, coqStrList(c.Dirs), coqStr(c16Gsrc), coqStr(c.Root), coqStr(obs)))
			distinct.add("prev", strings.Join(c.Dirs, ","), c.Root)
		case "pkgdir":
			obs := "None"
			if r.OK {
				obs = fmt.Sprintf("(Some (%s, %s))", coqStr(r.Obs), coqStr(r.RPath))
				sm.count("fn:pkgdir:found")
			}
			pkgCases = append(pkgCases, fmt.Sprintf("(%d%%N, %s, %s, %s, %s, %s)", cid, coqStrList(c.Dirs), coqStr(c16Gsrc), coqStr(c.Root), coqStr(c.IP), obs))
			distinct.add("pkgdir", strings.Join(c.Dirs, ","), c.Root, c.IP)
		}
	}

	// ------------------------------------------------------------ B. end to end
	nMain, nFile, nErr, nRegion := 200, 60, 25, 10
	if thorough {
		nMain, nFile, nErr, nRegion = 6000, 2000, 500, 250
		// VERIF_C16_SCALE=<percent> shrinks the thorough tier (to try the pipeline on a busy machine)
		if v := os.Getenv("VERIF_C16_SCALE"); v != "" {
			var pc int
			if fmt.Sscan(v, &pc); pc > 0 && pc < 100 {
				nMain, nFile, nErr, nRegion = max(nMain*pc/100, 1), max(nFile*pc/100, 1), max(nErr*pc/100, 1), max(nRegion*pc/100, 1)
			}
		}
	}
	var progs []*c16case
	for i := 0; i < nMain; i++ {
		progs = append(progs, g.mainCase(false))
	}
	for i := 0; i < nFile; i++ {
		progs = append(progs, g.mainCase(true))
	}
	for _, k := range []string{"cycle", "notfound", "nogo"} {
		n := nErr
		if k == "cycle" {
			n = 2 * nErr
		}
		for i := 0; i < n; i++ {
			progs = append(progs, g.errorCase(k))
		}
	}
	if only != "" {
		progs = nil
	}
	if only == "" || only == "matrix" {
		if thorough {
			progs = append(progs, g.cycleMatrix(4, 0)...)
		} else {
			progs = append(progs, g.cycleMatrix(2, 4)...)
		}
	}
	{
		reps := 2
		if thorough {
			reps = 40
		}
		for rep := 0; rep < reps; rep++ {
			for _, where := range []string{"nearest", "gopath", "both", "outer", "nested"} {
				for n := 1; n <= 3; n++ {
					for _, mf := range []bool{false, true} {
						if only == "" || only == "proj" {
							progs = append(progs, g.projCase(where, n, mf))
						}
					}
				}
			}
		}
		for i := 0; i < nRegion && (only == "" || only == "proj"); i++ {
			if c := g.retryRegionCase(); c != nil {
				progs = append(progs, c)
			}
		}
	}
	regions := []string{"subdir-shadow", "memo-by-path", "xx-collapse", "vendor-nogofiles", "relative-nonentry", "relative-root", "entry-file-vendor"}
	if only != "" {
		regions = nil
	}
	for _, reg := range regions {
		for i := 0; i < nRegion; i++ {
			if c := g.regionCase(reg); c != nil {
				progs = append(progs, c)
			}
		}
	}
	if os.Getenv("VERIF_C16_DRY") != "" { // debugging aid: show what would be generated
		for _, c := range progs {
			b, _ := json.Marshal(c)
			fmt.Println(string(b))
		}
		return nil
	}
	type runRes struct {
		impl c16evalRes
		ref  c16out
		err  error
	}
	// the layout on disk (symbolic links) cycles within each stream; every other program of a
	// stream has packages of several files (VERIF_C16_FILES=all|none: every / no program)
	perStream := map[string]int{}
	for _, c := range progs {
		key := strings.SplitN(c.Stream, ":", 2)[0]
		if mf := os.Getenv("VERIF_C16_FILES"); mf != "none" && (mf == "all" || perStream[key]%2 == 1) {
			g.splitFiles(c)
		}
		g.chooseLinks(c, perStream[key])
		perStream[key]++
	}
	results := make([]runRes, len(progs))
	parallelMap(len(progs), 0, func(i int) {
		im, rf, err := c16Run(progs[i])
		results[i] = runRes{im, rf, err}
	})
	var runCases []string
	for i, c := range progs {
		r := results[i]
		if r.err != nil {
			return r.err
		}
		in := map[string]any{"kind": "program", "stream": c.Stream, "file": c.File, "entry": c.Entry, "pkgs": c.Pkgs}
		cid := newID(in)
		sm.Evaluations++
		sm.ImplComparisons++
		sm.RefComparisons++
		{
			multi := false
			for _, p := range c.Pkgs {
				if len(p.Files) > 0 {
					multi = true
					sm.count(fmt.Sprintf("e2e:files:packages-of-%d-files", len(p.Files)))
					for k, f := range p.Files {
						if f.N > 0 {
							sm.count(fmt.Sprintf("e2e:files:imports-in-file-%d-of-%d", k+1, len(p.Files)))
						}
					}
					for _, sk := range p.Skip {
						sm.count("e2e:files:skipped-file:" + sk[strings.Index(sk, "_")+1:])
					}
				}
			}
			if multi {
				sm.count("e2e:files:programs-with-several-files")
				if r.ref.Err == "cycle" {
					sm.count("e2e:files:cycle-programs")
					if c.laterFileImport() {
						sm.count("e2e:files:cycle-programs-with-an-import-in-a-later-file")
					}
				}
			}
		}
		if strings.HasPrefix(c.Stream, "cycle-matrix:") {
			f := strings.Split(c.Stream, ":")
			sm.count("e2e:cycle-matrix")
			sm.count("e2e:cycle-matrix:layout-" + f[1])
			sm.count(fmt.Sprintf("e2e:cycle-matrix:length-%d", len(f[2])-2))
			if strings.Contains(f[2], "R") {
				sm.count("e2e:cycle-matrix:with-relative-edge")
			}
			if strings.Contains(f[2][2:], "V") || f[2][0] == 'V' {
				sm.count("e2e:cycle-matrix:with-vendor-edge")
			}
			if c.Quiet {
				sm.count("e2e:cycle-matrix:quiet-packages")
			}
			if strings.HasPrefix(r.ref.Text, "contract") || strings.HasPrefix(r.ref.Text, "spec G") {
				sm.count("e2e:cycle-matrix:reference-is-the-contract")
			} else {
				sm.count("e2e:cycle-matrix:reference-is-go-run")
			}
		} else if strings.HasPrefix(c.Stream, "proj:") {
			f := strings.Split(c.Stream, ":")
			sm.count("e2e:proj")
			sm.count("e2e:proj:" + f[1])
			sm.count("e2e:proj:" + f[2])
			if len(f) > 3 {
				sm.count("e2e:proj:main-first")
			}
			if c.Region != "" {
				sm.count("e2e:proj:in-region:" + c.Region)
			}
			if strings.HasPrefix(r.ref.Text, "spec G") {
				sm.count("e2e:proj:reference-is-spec-G")
			} else {
				sm.count("e2e:proj:reference-is-go-run-without-relative-imports")
			}
		} else {
			sm.count("e2e:" + c.Stream)
		}
		w := newC16World(c)
		reach := c.reachable()
		vend := 0
		for _, d := range reach {
			if strings.Contains(d, "/"+c16Vendor+"/") {
				vend++
			}
		}
		if len(reach) >= 3 {
			distinct.add("prog", fmt.Sprint(c.File), c.Entry, fmt.Sprint(c.Pkgs))
		}
		if vend > 0 {
			sm.count("e2e:loads-vendored-package")
		}
		// measured shape of the loaded part: the same import path present in several places, a package
		// with several importers (diamond), relative imports, depth of the entry
		several, relative := false, false
		importers := map[string]int{}
		for _, d := range reach {
			for _, ip := range w.byDir[d].Imports {
				if t, ok := w.gImport(d, ip); ok {
					importers[t]++
				}
				parts := c16Split(ip)
				if c16IsRel(parts) {
					relative = true
					continue
				}
				n := 0
				for dir := range w.goSet {
					if dir == c16Gsrc+"/"+ip || strings.HasSuffix(dir, "/"+c16Vendor+"/"+ip) {
						n++
					}
				}
				several = several || n >= 2
			}
		}
		if several {
			sm.count("e2e:imports-a-path-present-in-several-places")
		}
		if relative {
			sm.count("e2e:loads-through-relative-imports")
		}
		for _, n := range importers {
			if n >= 2 {
				sm.count("e2e:has-diamond")
				break
			}
		}
		if !c.File {
			sm.count(fmt.Sprintf("e2e:entry-depth:%d", len(c16Split(c.Entry))))
		}
		if len(w.goSet) != len(reach) {
			sm.count("e2e:has-unreachable-packages")
		}
		sm.count(fmt.Sprintf("e2e:loaded-packages:%d", min(len(reach), 8)))
		sm.count("e2e:disk-layout:" + c.LinkKind)
		for _, d := range c.Links {
			if strings.HasSuffix(d, "/"+c16Vendor) {
				sm.count("e2e:disk-layout:programs-with-a-linked-vendor-directory")
				break
			}
		}
		if r.impl.MapFS.Opens > sm.Distribution["e2e:max-opens-of-a-mapfs-run"] {
			sm.Distribution["e2e:max-opens-of-a-mapfs-run"] = r.impl.MapFS.Opens
		}
		if len(sm.Samples) < 4 && vend > 0 && len(reach) >= 4 {
			sm.Samples = append(sm.Samples, map[string]any{"input": in, "yaegi": r.impl.Disk, "go": r.ref})
		}
		runCases = append(runCases, fmt.Sprintf("(%d%%N, %s, %s, %s)", cid, c.coq(), r.impl.Disk.coq(), r.ref.coq()))
		// the same from disk and from a MapFS: part of the property
		if strings.Join(r.impl.Disk.Lines, "\n") != strings.Join(r.impl.MapFS.Lines, "\n") || r.impl.Disk.Err != r.impl.MapFS.Err {
			sm.RefMismatches = append(sm.RefMismatches, refMismatch{ID: cid, Region: "", Input: in, Impl: r.impl.MapFS, Ref: r.impl.Disk, Note: "yaegi from a MapFS differs from yaegi from disk"})
		}
		if r.impl.Disk.sortedKey() != r.ref.sortedKey() {
			sm.RefMismatches = append(sm.RefMismatches, refMismatch{ID: cid, Region: c.Region, Input: in, Impl: r.impl.Disk, Ref: r.ref})
		}
	}

	// ------------------------------------------------------------ cases files
	hdr := "From Verif Require Import Lib.Str Imports.Model Imports.Cases.\nLocal Open Scope string_scope.\n"
	write := func(name, body string) error {
		sm.CasesFiles = append(sm.CasesFiles, name)
		return os.WriteFile(filepath.Join(*out, name), []byte(hdr+body), 0o644)
	}
	chunk := func(prefix, typ, fn string, cases []string, per int) error {
		for i, k := 0, 0; i < len(cases); i, k = i+per, k+1 {
			j := min(i+per, len(cases))
			body := fmt.Sprintf("Definition cases : list %s := [\n%s\n].\nDefinition MY := Eval vm_compute in %s_y cases.\nPrint MY.\nDefinition MG := Eval vm_compute in %s_g cases.\nPrint MG.\n",
				typ, strings.Join(cases[i:j], ";\n"), fn, fn)
			if err := write(fmt.Sprintf("cases_%s_%d.v", prefix, k), body); err != nil {
				return err
			}
		}
		return nil
	}
	if err := chunk("eff", "eff_case", "eff_mis", effCases, 1500); err != nil {
		return err
	}
	if err := chunk("prev", "prev_case", "prev_mis", prevCases, 1500); err != nil {
		return err
	}
	if err := chunk("pkgdir", "pkgdir_case", "pkgdir_mis", pkgCases, 1500); err != nil {
		return err
	}
	if err := chunk("run", "run_case", "run_mis", runCases, 60); err != nil {
		return err
	}
	sm.DistinctNontriv = len(distinct)
	sm.Rule = "function level: effectivePkg on every (root, path) of depth <= 3 over {a,b,vendor} plus seeded deeper ones; previousRoot and pkgDir on every filesystem with one leaf directory of depth <= 3 x every root of depth <= 3 x every path of depth <= 2, plus seeded filesystems of 2-5 leaves over {a,b,c,vendor,main}; " +
		"end to end: seeded GOPATH trees (packages at depth 1-4, vendor directories at several levels, the same import path in several places, diamonds, cycles, missing packages, relative imports from an entry file), each run by yaegi from disk and from a MapFS and by GOPATH-mode go run; " +
		"distinct = distinct inputs; non-trivial = effectivePkg root of >= 2 elements / every previousRoot and pkgDir query / programs loading >= 3 packages"
	return sm.write(*out)
}
