package main

import (
	"bytes"
	"flag"
	"fmt"
	"go/ast"
	"go/build"
	"go/parser"
	"go/printer"
	"go/token"
	"os"
	"path/filepath"
	"sort"
	"strconv"
	"strings"
)

// tr-sandbox: regenerates coq/gen/SandboxTables_gen.v (data only) from the source text of
//   stdlib/*.go                (keys exported by stdlib.Symbols, split into the files compiled by the
//                               installed Go release and the files of the other release; the binding
//                               rows of os, log, log/slog, flag, fmt)
//   stdlib/stdlib.go           (go:generate package list)
//   stdlib/{unsafe,syscall,unrestricted}  (keys of the opt-in symbol sets)
//   stdlib/restricted.go       (replacement functions: name, result, callees)
//   extract/extract.go         (the `restricted` replacement table)
//   interp/use.go fixStdlib    (names rebound into binPkg, their guards and what the new value uses)
//   interp/run.go _print/_println (stream used by the print builtins)
//   cmd/yaegi/run.go           (which symbol sets the command loads, and under which flag)

func init() {
	register("tr-sandbox", "translator: stdlib keys, os/log/flag/fmt bindings, restricted.go, fixStdlib overrides -> SandboxTables_gen.v", trSandbox)
}

var trsbFset = token.NewFileSet()

func trsbPrint(n ast.Node) string {
	var b bytes.Buffer
	printer.Fprint(&b, trsbFset, n)
	return strings.Join(strings.Fields(b.String()), " ")
}

// bindingArg strips the reflect.ValueOf(...) wrapper of a binding entry.
func trsbBindingArg(e ast.Expr) string {
	// reflect.ValueOf(&X).Elem()
	if c, ok := e.(*ast.CallExpr); ok {
		if sel, ok := c.Fun.(*ast.SelectorExpr); ok && sel.Sel.Name == "Elem" && len(c.Args) == 0 {
			if c2, ok := sel.X.(*ast.CallExpr); ok && trsbPrint(c2.Fun) == "reflect.ValueOf" && len(c2.Args) == 1 {
				return trsbPrint(c2.Args[0])
			}
		}
		if trsbPrint(c.Fun) == "reflect.ValueOf" && len(c.Args) == 1 {
			return trsbPrint(c.Args[0])
		}
	}
	return trsbPrint(e)
}

type trsbRow struct{ Name, Expr string }

// symbolsAssignments returns, for one binding file, key -> rows of every `Symbols["key"] = map[...]{...}`
// and the extra `Symbols["key"]["Name"] = v` assignments.
func trsbSymbols(file string) (map[string][]trsbRow, error) {
	f, err := parser.ParseFile(trsbFset, file, nil, 0)
	if err != nil {
		return nil, err
	}
	res := map[string][]trsbRow{}
	ast.Inspect(f, func(n ast.Node) bool {
		as, ok := n.(*ast.AssignStmt)
		if !ok || len(as.Lhs) != 1 || len(as.Rhs) != 1 {
			return true
		}
		ix, ok := as.Lhs[0].(*ast.IndexExpr)
		if !ok {
			return true
		}
		keyOf := func(e ast.Expr) (string, bool) {
			bl, ok := e.(*ast.BasicLit)
			if !ok || bl.Kind != token.STRING {
				return "", false
			}
			s, err := strconv.Unquote(bl.Value)
			return s, err == nil
		}
		if id, ok := ix.X.(*ast.Ident); ok && id.Name == "Symbols" {
			key, ok := keyOf(ix.Index)
			if !ok {
				return true
			}
			if _, seen := res[key]; !seen {
				res[key] = nil
			}
			if cl, ok := as.Rhs[0].(*ast.CompositeLit); ok {
				for _, el := range cl.Elts {
					kv, ok := el.(*ast.KeyValueExpr)
					if !ok {
						continue
					}
					name, ok := keyOf(kv.Key)
					if !ok {
						continue
					}
					res[key] = append(res[key], trsbRow{name, trsbBindingArg(kv.Value)})
				}
			}
			return true
		}
		// Symbols["k"]["Name"] = v
		if ix2, ok := ix.X.(*ast.IndexExpr); ok {
			if id, ok := ix2.X.(*ast.Ident); ok && id.Name == "Symbols" {
				key, ok1 := keyOf(ix2.Index)
				name, ok2 := keyOf(ix.Index)
				if ok1 && ok2 {
					res[key] = append(res[key], trsbRow{name, trsbBindingArg(as.Rhs[0])})
				}
			}
		}
		return true
	})
	return res, nil
}

// trsbDir parses the non-test Go files of a directory and splits them into the files selected by
// the installed toolchain's build context and the others.
func trsbDir(dir string) (compiled, other map[string][]trsbRow, err error) {
	compiled, other = map[string][]trsbRow{}, map[string][]trsbRow{}
	ents, err := os.ReadDir(dir)
	if err != nil {
		return nil, nil, err
	}
	for _, e := range ents {
		name := e.Name()
		if e.IsDir() || !strings.HasSuffix(name, ".go") || strings.HasSuffix(name, "_test.go") {
			continue
		}
		m, err := trsbSymbols(filepath.Join(dir, name))
		if err != nil {
			return nil, nil, err
		}
		match, _ := build.Default.MatchFile(dir, name)
		dst := other
		if match {
			dst = compiled
		}
		for k, rows := range m {
			dst[k] = append(dst[k], rows...)
		}
	}
	return compiled, other, nil
}

func coqPairList(rows []trsbRow) string {
	it := make([]string, len(rows))
	for i, r := range rows {
		it[i] = fmt.Sprintf("(%s, %s)", coqStr(r.Name), coqStr(r.Expr))
	}
	return "[" + strings.Join(it, ";\n   ") + "]"
}

// callees of a function body: printed callee expressions of every call, in source order, without duplicates.
func trsbCallees(body ast.Node) []string {
	var out []string
	seen := map[string]bool{}
	ast.Inspect(body, func(n ast.Node) bool {
		if c, ok := n.(*ast.CallExpr); ok {
			s := trsbPrint(c.Fun)
			if !seen[s] {
				seen[s] = true
				out = append(out, s)
			}
		}
		return true
	})
	return out
}

// ---------------------------------------------------------------- fixStdlib

type trsbFix struct {
	Pkg, Name, Guard string
	Uses             []string
}

type trsbScope struct {
	parent *trsbScope
	vars   map[string][]string // local variable -> atoms of what it was initialised from (transitively)
	shadow map[string]bool     // parameters of function literals
}

func (s *trsbScope) lookup(name string) ([]string, bool) {
	for sc := s; sc != nil; sc = sc.parent {
		if sc.shadow[name] {
			return nil, false
		}
		if a, ok := sc.vars[name]; ok {
			return a, true
		}
	}
	return nil, false
}

func (s *trsbScope) owner(name string) *trsbScope {
	for sc := s; sc != nil; sc = sc.parent {
		if _, ok := sc.vars[name]; ok {
			return sc
		}
	}
	return nil
}

func trsbUniq(l []string) []string {
	seen := map[string]bool{}
	var out []string
	for _, x := range l {
		if !seen[x] {
			seen[x] = true
			out = append(out, x)
		}
	}
	return out
}

// atoms of an expression: "X.Sel" for selectors on identifiers, local variable names, builtin panic;
// a reference to a local variable of fixStdlib is followed to what the variable was initialised from.
func trsbAtoms(e ast.Node, sc *trsbScope) []string {
	var out []string
	var walk func(n ast.Node, sc *trsbScope)
	walk = func(n ast.Node, sc *trsbScope) {
		switch x := n.(type) {
		case nil:
		case *ast.FuncLit:
			inner := &trsbScope{parent: sc, vars: map[string][]string{}, shadow: map[string]bool{}}
			for _, fl := range [](*ast.FieldList){x.Type.Params, x.Type.Results} {
				if fl == nil {
					continue
				}
				for _, f := range fl.List {
					for _, id := range f.Names {
						inner.shadow[id.Name] = true
					}
				}
			}
			ast.Inspect(x.Body, func(m ast.Node) bool {
				// locals declared inside the literal shadow outer names too
				if as, ok := m.(*ast.AssignStmt); ok && as.Tok == token.DEFINE {
					for _, l := range as.Lhs {
						if id, ok := l.(*ast.Ident); ok {
							inner.shadow[id.Name] = true
						}
					}
				}
				if rs, ok := m.(*ast.RangeStmt); ok && rs.Tok == token.DEFINE {
					for _, l := range []ast.Expr{rs.Key, rs.Value} {
						if id, ok := l.(*ast.Ident); ok {
							inner.shadow[id.Name] = true
						}
					}
				}
				return true
			})
			walk(x.Body, inner)
		case *ast.SelectorExpr:
			if id, ok := x.X.(*ast.Ident); ok {
				out = append(out, id.Name+"."+x.Sel.Name)
				if a, ok := sc.lookup(id.Name); ok {
					out = append(out, id.Name)
					out = append(out, a...)
				}
				return
			}
			walk(x.X, sc)
		case *ast.Ident:
			if a, ok := sc.lookup(x.Name); ok {
				out = append(out, x.Name)
				out = append(out, a...)
			} else if x.Name == "panic" {
				out = append(out, "panic")
			}
		case *ast.KeyValueExpr:
			walk(x.Value, sc)
		default:
			ast.Inspect(n, func(m ast.Node) bool {
				if m == n {
					return true
				}
				if m == nil {
					return false
				}
				walk(m, sc)
				return false
			})
		}
	}
	walk(e, sc)
	return trsbUniq(out)
}

func trsbFixStdlib(file string) ([]trsbFix, error) {
	f, err := parser.ParseFile(trsbFset, file, nil, 0)
	if err != nil {
		return nil, err
	}
	var fn *ast.FuncDecl
	for _, d := range f.Decls {
		if fd, ok := d.(*ast.FuncDecl); ok && fd.Name.Name == "fixStdlib" && fd.Recv == nil {
			fn = fd
		}
	}
	if fn == nil {
		return nil, fmt.Errorf("%s: func fixStdlib not found", file)
	}
	var rows []trsbFix
	// pkgOf recognises interp.binPkg["x"]
	pkgOf := func(e ast.Expr) (string, bool) {
		ix, ok := e.(*ast.IndexExpr)
		if !ok || trsbPrint(ix.X) != "interp.binPkg" {
			return "", false
		}
		bl, ok := ix.Index.(*ast.BasicLit)
		if !ok {
			return "", false
		}
		s, err := strconv.Unquote(bl.Value)
		return s, err == nil
	}
	var stmts func(list []ast.Stmt, sc *trsbScope, pkg *string, guard []string)
	assign := func(as *ast.AssignStmt, sc *trsbScope, pkg *string, guard []string) {
		// p := interp.binPkg["fmt"]   /   p = interp.binPkg["flag"]
		if len(as.Lhs) == 1 && len(as.Rhs) == 1 {
			if id, ok := as.Lhs[0].(*ast.Ident); ok && id.Name == "p" {
				if k, ok := pkgOf(as.Rhs[0]); ok {
					*pkg = k
					return
				}
			}
			// p["Name"] = rhs
			if ix, ok := as.Lhs[0].(*ast.IndexExpr); ok {
				if id, ok := ix.X.(*ast.Ident); ok && id.Name == "p" {
					if bl, ok := ix.Index.(*ast.BasicLit); ok && bl.Kind == token.STRING {
						name, _ := strconv.Unquote(bl.Value)
						rows = append(rows, trsbFix{Pkg: *pkg, Name: name, Guard: strings.Join(guard, " && "), Uses: trsbAtoms(as.Rhs[0], sc)})
						return
					}
				}
				return // interp.mapTypes[...] = ...
			}
		}
		if as.Tok == token.DEFINE {
			if len(as.Lhs) == len(as.Rhs) {
				for i, l := range as.Lhs {
					if id, ok := l.(*ast.Ident); ok && id.Name != "_" {
						sc.vars[id.Name] = trsbAtoms(as.Rhs[i], sc)
					}
				}
			} else if len(as.Rhs) == 1 {
				a := trsbAtoms(as.Rhs[0], sc)
				for _, l := range as.Lhs {
					if id, ok := l.(*ast.Ident); ok && id.Name != "_" {
						sc.vars[id.Name] = a
					}
				}
			}
		}
	}
	stmts = func(list []ast.Stmt, sc *trsbScope, pkg *string, guard []string) {
		for _, st := range list {
			switch x := st.(type) {
			case *ast.AssignStmt:
				assign(x, sc, pkg, guard)
			case *ast.ExprStmt:
				// c.SetOutput(stderr): what a local is configured with counts as part of it
				if c, ok := x.X.(*ast.CallExpr); ok {
					if sel, ok := c.Fun.(*ast.SelectorExpr); ok {
						if id, ok := sel.X.(*ast.Ident); ok {
							if own := sc.owner(id.Name); own != nil {
								extra := []string{id.Name + "." + sel.Sel.Name}
								for _, a := range c.Args {
									extra = append(extra, trsbAtoms(a, sc)...)
								}
								own.vars[id.Name] = trsbUniq(append(own.vars[id.Name], extra...))
							}
						}
					}
				}
			case *ast.IfStmt:
				inner := &trsbScope{parent: sc, vars: map[string][]string{}, shadow: map[string]bool{}}
				g := guard
				cond := trsbPrint(x.Cond)
				if as, ok := x.Init.(*ast.AssignStmt); ok {
					before := *pkg
					assign(as, inner, pkg, guard)
					if *pkg != before || cond == "p != nil" || cond == "p == nil" {
						cond = ""
					} else {
						cond = trsbPrint(as) + "; " + cond
					}
				}
				if cond == "p == nil" {
					cond = ""
				}
				if cond != "" {
					g = append(append([]string{}, guard...), cond)
				}
				stmts(x.Body.List, inner, pkg, g)
				if x.Else != nil {
					ge := append(append([]string{}, guard...), "!("+cond+")")
					switch e := x.Else.(type) {
					case *ast.BlockStmt:
						stmts(e.List, &trsbScope{parent: sc, vars: map[string][]string{}, shadow: map[string]bool{}}, pkg, ge)
					case *ast.IfStmt:
						stmts([]ast.Stmt{e}, sc, pkg, ge)
					}
				}
			case *ast.BlockStmt:
				stmts(x.List, &trsbScope{parent: sc, vars: map[string][]string{}, shadow: map[string]bool{}}, pkg, guard)
			}
		}
	}
	pkg := ""
	root := &trsbScope{vars: map[string][]string{}, shadow: map[string]bool{}}
	stmts(fn.Body.List, root, &pkg, nil)
	return rows, nil
}

// ---------------------------------------------------------------- cmd/yaegi/run.go

// trsbCli lists the i.Use(X.Symbols) calls of func run with the flag variable guarding each ("" = always).
func trsbCli(file string) ([]trsbRow, error) {
	f, err := parser.ParseFile(trsbFset, file, nil, 0)
	if err != nil {
		return nil, err
	}
	var rows []trsbRow
	var walk func(list []ast.Stmt, guard string)
	useOf := func(n ast.Node) string {
		res := ""
		ast.Inspect(n, func(m ast.Node) bool {
			c, ok := m.(*ast.CallExpr)
			if !ok || len(c.Args) != 1 {
				return true
			}
			if sel, ok := c.Fun.(*ast.SelectorExpr); ok && sel.Sel.Name == "Use" {
				if a, ok := c.Args[0].(*ast.SelectorExpr); ok && a.Sel.Name == "Symbols" {
					res = trsbPrint(a.X)
				}
			}
			return true
		})
		return res
	}
	walk = func(list []ast.Stmt, guard string) {
		for _, st := range list {
			ifs, ok := st.(*ast.IfStmt)
			if !ok {
				continue
			}
			if ifs.Init != nil {
				if u := useOf(ifs.Init); u != "" {
					rows = append(rows, trsbRow{u, guard})
					continue
				}
			}
			if id, ok := ifs.Cond.(*ast.Ident); ok {
				g := id.Name
				if guard != "" {
					g = guard + " && " + g
				}
				walk(ifs.Body.List, g)
			}
		}
	}
	for _, d := range f.Decls {
		if fd, ok := d.(*ast.FuncDecl); ok && fd.Name.Name == "run" && fd.Recv == nil {
			walk(fd.Body.List, "")
		}
	}
	if len(rows) == 0 {
		return nil, fmt.Errorf("%s: no i.Use(X.Symbols) call found in func run", file)
	}
	return rows, nil
}

// trsbUse reads func (interp *Interpreter) Use: the right-hand sides of the assignments to
// interp.binPkg[importPath] (the map a package's symbols live in) and of the assignments
// interp.binPkg[importPath][s] = ... (the entry-by-entry copy).
func trsbUse(file string) (whole, entries []string, err error) {
	f, err := parser.ParseFile(trsbFset, file, nil, 0)
	if err != nil {
		return nil, nil, err
	}
	found := false
	for _, d := range f.Decls {
		fd, ok := d.(*ast.FuncDecl)
		if !ok || fd.Name.Name != "Use" || fd.Recv == nil {
			continue
		}
		found = true
		ast.Inspect(fd.Body, func(n ast.Node) bool {
			as, ok := n.(*ast.AssignStmt)
			if !ok || len(as.Lhs) != 1 || len(as.Rhs) != 1 {
				return true
			}
			ix, ok := as.Lhs[0].(*ast.IndexExpr)
			if !ok {
				return true
			}
			if trsbPrint(ix.X) == "interp.binPkg" {
				whole = append(whole, trsbPrint(as.Rhs[0]))
			} else if ix2, ok := ix.X.(*ast.IndexExpr); ok && trsbPrint(ix2.X) == "interp.binPkg" {
				entries = append(entries, trsbPrint(ix.Index)+" <- "+trsbPrint(as.Rhs[0]))
			}
			return true
		})
	}
	if !found {
		return nil, nil, fmt.Errorf("%s: method Use not found", file)
	}
	return whole, entries, nil
}

// trsbTypeShape lists the fields of a replacement type as Coq tuples (name, embedded, exported, type).
func trsbTypeShape(t ast.Expr) []string {
	st, ok := t.(*ast.StructType)
	if !ok {
		return []string{fmt.Sprintf("(%s, true, true, %s)", coqStr(""), coqStr(trsbPrint(t)))}
	}
	var out []string
	for _, f := range st.Fields.List {
		typ := trsbPrint(f.Type)
		if len(f.Names) == 0 {
			name := strings.TrimPrefix(typ, "*")
			if i := strings.LastIndex(name, "."); i >= 0 {
				name = name[i+1:]
			}
			out = append(out, fmt.Sprintf("(%s, true, %s, %s)", coqStr(name), coqBool(ast.IsExported(name)), coqStr(typ)))
			continue
		}
		for _, n := range f.Names {
			out = append(out, fmt.Sprintf("(%s, false, %s, %s)", coqStr(n.Name), coqBool(ast.IsExported(n.Name)), coqStr(typ)))
		}
	}
	return out
}

func trSandbox(args []string) error {
	fs := flag.NewFlagSet("tr-sandbox", flag.ExitOnError)
	repo := fs.String("repo", "/repo", "repository root")
	out := fs.String("out", "/verif/coq/gen", "output directory")
	fs.Parse(args)
	var b strings.Builder
	b.WriteString("(* generated by vh tr-sandbox from stdlib/*.go, stdlib/restricted.go, extract/extract.go, interp/use.go, interp/run.go, cmd/yaegi/run.go; do not edit *)\n")
	b.WriteString("From Verif Require Import Lib.Str.\n")
	strList := func(name string, l []string) {
		fmt.Fprintf(&b, "Definition %s : list str :=\n  %s.\n", name, coqStrList(l))
	}
	pairList := func(name string, rows []trsbRow) {
		fmt.Fprintf(&b, "Definition %s : list (str * str) :=\n  %s.\n", name, coqPairList(rows))
	}

	// ---- default symbol set
	compiled, other, err := trsbDir(filepath.Join(*repo, "stdlib"))
	if err != nil {
		return err
	}
	if len(compiled) < 50 {
		return fmt.Errorf("stdlib: only %d keys found in the files compiled by this Go release", len(compiled))
	}
	strList("sb_default_keys", sortedKeys(compiled))
	strList("sb_default_keys_other", sortedKeys(other))
	for _, p := range [][2]string{{"os/os", "os"}, {"log/log", "log"}, {"log/slog/slog", "slog"}, {"flag/flag", "flag"}, {"fmt/fmt", "fmt"}} {
		for _, v := range []struct {
			m   map[string][]trsbRow
			suf string
		}{{compiled, ""}, {other, "_other"}} {
			rows := append([]trsbRow(nil), v.m[p[0]]...)
			sort.SliceStable(rows, func(i, j int) bool { return rows[i].Name < rows[j].Name })
			pairList("sb_bind_"+p[1]+v.suf, rows)
		}
	}

	// ---- go:generate lists of the hand-written files of stdlib/ selected by this Go release
	var gen []string
	ents, err := os.ReadDir(filepath.Join(*repo, "stdlib"))
	if err != nil {
		return err
	}
	for _, e := range ents {
		if e.IsDir() || !strings.HasSuffix(e.Name(), ".go") {
			continue
		}
		if m, _ := build.Default.MatchFile(filepath.Join(*repo, "stdlib"), e.Name()); !m {
			continue
		}
		src, err := os.ReadFile(filepath.Join(*repo, "stdlib", e.Name()))
		if err != nil {
			return err
		}
		for _, l := range strings.Split(string(src), "\n") {
			const pfx = "//go:generate ../internal/cmd/extract/extract "
			if strings.HasPrefix(l, pfx) {
				for _, w := range strings.Fields(strings.TrimPrefix(l, pfx)) {
					if !strings.HasPrefix(w, "-") {
						gen = append(gen, w)
					}
				}
			}
		}
	}
	sort.Strings(gen)
	strList("sb_generate_list", gen)

	// ---- opt-in symbol sets
	for _, d := range []string{"unsafe", "syscall", "unrestricted"} {
		c, _, err := trsbDir(filepath.Join(*repo, "stdlib", d))
		if err != nil {
			return err
		}
		strList("sb_"+d+"_keys", sortedKeys(c))
		if d == "unrestricted" {
			// the rows of the opt-in set that replaces restricted bindings: key -> (name, bound expression)
			var sets []string
			for _, k := range sortedKeys(c) {
				rows := append([]trsbRow(nil), c[k]...)
				sort.SliceStable(rows, func(i, j int) bool { return rows[i].Name < rows[j].Name })
				sets = append(sets, fmt.Sprintf("(%s, %s)", coqStr(k), coqPairList(rows)))
			}
			fmt.Fprintf(&b, "Definition sb_unrestricted_rows : list (str * list (str * str)) :=\n  [%s].\n", strings.Join(sets, ";\n   "))
		}
	}

	// ---- Interpreter.Use: what is stored into interp.binPkg[importPath], and whether the entries are copied one by one
	useRHS, useCopies, err := trsbUse(filepath.Join(*repo, "interp", "use.go"))
	if err != nil {
		return err
	}
	strList("sb_use_binpkg_rhs", useRHS)
	strList("sb_use_entry_copies", useCopies)

	// ---- extract.go restricted table
	rk, err := mapLitKeys(filepath.Join(*repo, "extract", "extract.go"), "restricted")
	if err != nil {
		return err
	}
	strList("sb_extract_restricted", rk)

	// ---- stdlib/restricted.go
	rf, err := parser.ParseFile(trsbFset, filepath.Join(*repo, "stdlib", "restricted.go"), nil, 0)
	if err != nil {
		return err
	}
	var defs, rtypes []string
	for _, d := range rf.Decls {
		switch x := d.(type) {
		case *ast.FuncDecl:
			name := x.Name.Name
			if x.Recv != nil && len(x.Recv.List) == 1 {
				name = strings.TrimPrefix(trsbPrint(x.Recv.List[0].Type), "*") + "." + name
			}
			res := ""
			if x.Type.Results != nil {
				var rs []string
				for _, f := range x.Type.Results.List {
					rs = append(rs, trsbPrint(f.Type))
				}
				res = strings.Join(rs, ", ")
			}
			defs = append(defs, fmt.Sprintf("(%s, %s, %s)", coqStr(name), coqStr(res), coqStrList(trsbCallees(x.Body))))
		case *ast.GenDecl:
			for _, sp := range x.Specs {
				if ts, ok := sp.(*ast.TypeSpec); ok {
					defs = append(defs, fmt.Sprintf("(%s, %s, %s)", coqStr("type "+ts.Name.Name), coqStr(trsbPrint(ts.Type)), "[]"))
					rtypes = append(rtypes, fmt.Sprintf("(%s, %s)", coqStr(ts.Name.Name), coqList(trsbTypeShape(ts.Type))))
				}
			}
		}
	}
	fmt.Fprintf(&b, "Definition sb_restricted_defs : list (str * str * list str) :=\n  [%s].\n", strings.Join(defs, ";\n   "))
	// shape of the replacement types: field name, embedded, exported, type (a type that is not a struct counts as one
	// embedded exported field of its underlying type: it converts to it)
	fmt.Fprintf(&b, "Definition sb_restricted_types : list (str * list (str * bool * bool * str)) :=\n  [%s].\n", strings.Join(rtypes, ";\n   "))

	// ---- fixStdlib
	fix, err := trsbFixStdlib(filepath.Join(*repo, "interp", "use.go"))
	if err != nil {
		return err
	}
	var fr []string
	for _, r := range fix {
		fr = append(fr, fmt.Sprintf("(%s, %s, %s, %s)", coqStr(r.Pkg), coqStr(r.Name), coqStr(r.Guard), coqStrList(r.Uses)))
	}
	fmt.Fprintf(&b, "Definition sb_fix_overrides : list (str * str * str * list str) :=\n  [%s].\n", strings.Join(fr, ";\n   "))

	// ---- print builtins
	runf, err := parser.ParseFile(trsbFset, filepath.Join(*repo, "interp", "run.go"), nil, 0)
	if err != nil {
		return err
	}
	var bl []string
	for _, d := range runf.Decls {
		if fd, ok := d.(*ast.FuncDecl); ok && fd.Recv == nil && (fd.Name.Name == "_print" || fd.Name.Name == "_println") {
			sc := &trsbScope{vars: map[string][]string{}, shadow: map[string]bool{}}
			// locals of the builtin generator: out := n.interp.stdout
			var atoms []string
			ast.Inspect(fd.Body, func(m ast.Node) bool {
				if as, ok := m.(*ast.AssignStmt); ok && as.Tok == token.DEFINE && len(as.Lhs) == len(as.Rhs) {
					for i, l := range as.Lhs {
						if id, ok := l.(*ast.Ident); ok {
							sc.vars[id.Name] = []string{trsbPrint(as.Rhs[i])}
						}
					}
				}
				// every mention of a function or variable of fmt, os, log (a host stream handed to a helper counts),
				// and calls of Go's own print builtins
				if sel, ok := m.(*ast.SelectorExpr); ok {
					if id, ok := sel.X.(*ast.Ident); ok && (id.Name == "fmt" || id.Name == "os" || id.Name == "log") {
						atoms = append(atoms, id.Name+"."+sel.Sel.Name)
					}
				}
				if c, ok := m.(*ast.CallExpr); ok {
					if id, ok := c.Fun.(*ast.Ident); ok && (id.Name == "print" || id.Name == "println") {
						atoms = append(atoms, "go:"+id.Name)
					}
				}
				if c, ok := m.(*ast.CallExpr); ok {
					if s := trsbPrint(c.Fun); strings.HasPrefix(s, "fmt.Fp") && len(c.Args) > 0 {
						atoms = append(atoms, s)
						if id, ok := c.Args[0].(*ast.Ident); ok {
							atoms = append(atoms, sc.vars[id.Name]...)
						} else {
							atoms = append(atoms, trsbPrint(c.Args[0]))
						}
					}
				}
				return true
			})
			bl = append(bl, fmt.Sprintf("(%s, %s)", coqStr(strings.TrimPrefix(fd.Name.Name, "_")), coqStrList(trsbUniq(atoms))))
		}
	}
	if len(bl) != 2 {
		return fmt.Errorf("interp/run.go: _print/_println not found")
	}
	fmt.Fprintf(&b, "Definition sb_builtin_print : list (str * list str) :=\n  [%s].\n", strings.Join(bl, ";\n   "))

	// ---- cmd/yaegi/run.go
	cli, err := trsbCli(filepath.Join(*repo, "cmd", "yaegi", "run.go"))
	if err != nil {
		return err
	}
	pairList("sb_cli_uses", cli)
	// how the commands compute the defaults of the flags that open the sandbox: file, variable, right-hand side
	var envd []string
	for _, fn := range []string{"run.go", "test.go"} {
		cf, err := parser.ParseFile(trsbFset, filepath.Join(*repo, "cmd", "yaegi", fn), nil, 0)
		if err != nil {
			return err
		}
		ast.Inspect(cf, func(n ast.Node) bool {
			as, ok := n.(*ast.AssignStmt)
			if !ok || len(as.Lhs) == 0 || len(as.Rhs) != 1 {
				return true
			}
			if id, ok := as.Lhs[0].(*ast.Ident); ok && (id.Name == "useSyscall" || id.Name == "useUnsafe" || id.Name == "useUnrestricted") {
				envd = append(envd, fmt.Sprintf("(%s, %s, %s)", coqStr(fn), coqStr(id.Name), coqStr(trsbPrint(as.Rhs[0]))))
			}
			return true
		})
	}
	fmt.Fprintf(&b, "Definition sb_cli_env_defaults : list (str * str * str) :=\n  [%s].\n", strings.Join(envd, ";\n   "))
	return writeIfChanged(filepath.Join(*out, "SandboxTables_gen.v"), []byte(b.String()))
}
