package main

import (
	"fmt"
	"strconv"
	"strings"
)

// ---------------------------------------------------------------- probes and programs

// One probe = one function of a generated program exercising one selector / assertion / type
// switch in one syntactic form.  Every probe prints lines "p<ID>.<label> <text>".
type c05Probe struct {
	ID     int
	Kind   string // field pfield call pcall mval pmval mexpr pmexpr iface assert switch nil
	T      int    // root struct type of the instance
	Ptr    bool   // the dynamic value / base expression is a pointer
	Name   string // selector name
	Region string // "" or the known-finding region this probe lies in (from the twins)
	G      c05Sel // reference resolution (twin of G, validated against go/types separately)
	Src    string // static source interface type of assert/switch probes ("I2", "interface{}", "K...")
	Tgts   []c05Tgt
	Bind   bool // type switch with binding
	Mutate bool // mutate the variable between binding and call (regions methval-late / iface-alias)
	Form   string
	cells  map[int]c05Cell
	body   string
}

// target of an assertion / case of a type switch
type c05Tgt struct {
	Kind string // "struct" "ptr" "iface" "nil"
	Idx  int
}

func (t c05Tgt) goType() string {
	switch t.Kind {
	case "struct":
		return tname(t.Idx)
	case "ptr":
		return "*" + tname(t.Idx)
	case "iface":
		return iname(t.Idx)
	}
	return "nil"
}

func (t c05Tgt) coq() string {
	switch t.Kind {
	case "struct":
		return fmt.Sprintf("(TStruct %d)", t.Idx)
	case "ptr":
		return fmt.Sprintf("(TPtr %d)", t.Idx)
	case "iface":
		return fmt.Sprintf("(TIface %d)", t.Idx)
	}
	return "TNil"
}

const c05Mut = 1000000 // a pointer-receiver method adds this to the state field of its receiver

func (u *c05Univ) callArgs(m *c05Meth) string {
	if m.Sig == 1 {
		return "(3)"
	}
	return "()"
}

// helper interface declared in every program for dispatch probes: K<name><sig>
func kname(name string, sig int) string { return fmt.Sprintf("K%s%d", name, sig) }

func c05HelperDecls() string {
	var b strings.Builder
	for _, n := range append(append([]string{}, c05MethNames...), c05FieldNames...) {
		for sig := 0; sig < 2; sig++ {
			fmt.Fprintf(&b, "type %s interface{ %s%s }\n", kname(n, sig), n, sigParams(sig))
		}
	}
	b.WriteString("\n")
	return b.String()
}

// firstIfaceMethod returns a method (name, sig) of the flattened interface, smallest name.
func (u *c05Univ) firstIfaceMethod(i int) (string, int) {
	ms := u.ifaceMethods(i)
	ks := sortedKeys(ms)
	return ks[0], ms[ks[0]]
}

func argsOfSig(sig int) string {
	if sig == 1 {
		return "(3)"
	}
	return "()"
}

// build renders the probe's function.
func (p *c05Probe) build(u *c05Univ, next *int) {
	in := &c05Inst{u: u, next: next, cells: map[int]c05Cell{}}
	var b strings.Builder
	id := fmt.Sprintf("p%d", p.ID)
	fmt.Fprintf(&b, "func %s() {\n\tdefer func() {\n\t\tif r := recover(); r != nil {\n\t\t\tfmt.Println(\"%s.panic\")\n\t\t}\n\t}()\n", id, id)
	if p.Kind != "nil" && p.T >= 0 {
		fmt.Fprintf(&b, "\tv := %s\n", in.lit(p.T, nil, 0))
	}
	base := "v"
	if p.Ptr && (p.Kind == "pfield" || p.Kind == "pcall" || p.Kind == "pmval" || p.Kind == "pmexpr") {
		b.WriteString("\tpv := &v\n")
		base = "pv"
	}
	switch p.Kind {
	case "field", "pfield":
		fmt.Fprintf(&b, "\tfmt.Println(\"%s.a\", %s.%s)\n", id, base, p.Name)
		fmt.Fprintf(&b, "\t%s.%s = -7\n", base, p.Name)
		fmt.Fprintf(&b, "\tfmt.Println(\"%s.b\", %s)\n", id, u.pathExpr("v", p.T, p.G.Path))
	case "call", "pcall":
		fmt.Fprintf(&b, "\tfmt.Println(\"%s.a\", %s.%s%s)\n", id, base, p.Name, u.callArgs(p.G.Meth))
		fmt.Fprintf(&b, "\tfmt.Println(\"%s.b\", %s.%s)\n", id, u.pathExpr("v", p.T, p.G.Path), sname(p.G.Owner))
		// a second call observes the state left by the first
		fmt.Fprintf(&b, "\tfmt.Println(\"%s.c\", %s.%s%s)\n", id, base, p.Name, u.callArgs(p.G.Meth))
	case "mval", "pmval":
		fmt.Fprintf(&b, "\tf := %s.%s\n", base, p.Name)
		if p.Mutate {
			fmt.Fprintf(&b, "\t%s.%s += 500000\n", u.pathExpr("v", p.T, p.G.Path), sname(p.G.Owner))
		}
		fmt.Fprintf(&b, "\tfmt.Println(\"%s.a\", f%s)\n", id, u.callArgs(p.G.Meth))
		fmt.Fprintf(&b, "\tfmt.Println(\"%s.b\", %s.%s)\n", id, u.pathExpr("v", p.T, p.G.Path), sname(p.G.Owner))
		fmt.Fprintf(&b, "\tfmt.Println(\"%s.c\", f%s)\n", id, u.callArgs(p.G.Meth))
	case "mexpr", "pmexpr":
		ty := tname(p.T)
		arg := "v"
		if p.Kind == "pmexpr" {
			ty = "(*" + ty + ")"
			arg = "pv"
		}
		a := ""
		if p.G.Meth.Sig == 1 {
			a = ", 3"
		}
		if p.Form == "var" {
			fmt.Fprintf(&b, "\tf := %s.%s\n", ty, p.Name)
			fmt.Fprintf(&b, "\tfmt.Println(\"%s.a\", f(%s%s))\n", id, arg, a)
		} else {
			fmt.Fprintf(&b, "\tfmt.Println(\"%s.a\", %s.%s(%s%s))\n", id, ty, p.Name, arg, a)
		}
		fmt.Fprintf(&b, "\tfmt.Println(\"%s.b\", %s.%s)\n", id, u.pathExpr("v", p.T, p.G.Path), sname(p.G.Owner))
	case "iface":
		val := "v"
		if p.Ptr {
			val = "&v"
		}
		fmt.Fprintf(&b, "\tvar i %s = %s\n", p.Src, val)
		if p.Mutate {
			fmt.Fprintf(&b, "\t%s.%s += 500000\n", u.pathExpr("v", p.T, p.G.Path), sname(p.G.Owner))
		}
		fmt.Fprintf(&b, "\tfmt.Println(\"%s.a\", i.%s%s)\n", id, p.Name, u.callArgs(p.G.Meth))
		fmt.Fprintf(&b, "\tfmt.Println(\"%s.b\", %s.%s)\n", id, u.pathExpr("v", p.T, p.G.Path), sname(p.G.Owner))
		fmt.Fprintf(&b, "\tj := i\n\tfmt.Println(\"%s.c\", j.%s%s)\n", id, p.Name, u.callArgs(p.G.Meth))
		fmt.Fprintf(&b, "\tg := i.%s\n\tfmt.Println(\"%s.d\", g%s)\n", p.Name, id, u.callArgs(p.G.Meth))
	case "assert":
		val := "v"
		if p.Ptr {
			val = "&v"
		}
		fmt.Fprintf(&b, "\tvar i %s = %s\n", p.Src, val)
		for k, tg := range p.Tgts {
			fmt.Fprintf(&b, "\t_, ok%d := i.(%s)\n\tfmt.Println(\"%s.t%d\", ok%d)\n", k, tg.goType(), id, k, k)
		}
		for k, tg := range p.Tgts {
			use := "_ = x"
			kind := tg.Kind
			if p.Form == "nouse" {
				kind = ""
			}
			switch kind {
			case "iface":
				mn, sig := u.firstIfaceMethod(tg.Idx)
				use = fmt.Sprintf("fmt.Println(\"%s.w%d\", x.%s%s)", id, k, mn, argsOfSig(sig))
			case "struct", "ptr":
				use = fmt.Sprintf("fmt.Println(\"%s.w%d\", x.%s)", id, k, sname(tg.Idx))
			}
			fmt.Fprintf(&b, "\tfunc() {\n\t\tdefer func() {\n\t\t\tif r := recover(); r != nil {\n\t\t\t\tfmt.Println(\"%s.u%d\", \"panic\")\n\t\t\t}\n\t\t}()\n\t\tx := i.(%s)\n\t\tfmt.Println(\"%s.u%d\", \"ok\")\n\t\t%s\n\t}()\n", id, k, tg.goType(), id, k, use)
		}
	case "switch":
		val := "v"
		if p.Ptr {
			val = "&v"
		}
		if p.T < 0 {
			fmt.Fprintf(&b, "\tvar i %s\n", p.Src)
		} else {
			fmt.Fprintf(&b, "\tvar i %s = %s\n", p.Src, val)
		}
		if p.Bind {
			b.WriteString("\tswitch x := i.(type) {\n")
		} else {
			b.WriteString("\tswitch i.(type) {\n")
		}
		for k, tg := range p.Tgts {
			fmt.Fprintf(&b, "\tcase %s:\n", tg.goType())
			use := ""
			if p.Bind {
				use = "\t\t_ = x\n"
				switch tg.Kind {
				case "struct", "ptr":
					use = fmt.Sprintf("\t\tfmt.Println(\"%s.x\", x.%s)\n", id, sname(tg.Idx))
				case "iface":
					mn, sig := u.firstIfaceMethod(tg.Idx)
					use = fmt.Sprintf("\t\tfmt.Println(\"%s.x\", x.%s%s)\n", id, mn, argsOfSig(sig))
				}
			}
			fmt.Fprintf(&b, "\t\tfmt.Println(\"%s.a\", %d)\n%s", id, k, use)
		}
		fmt.Fprintf(&b, "\tdefault:\n\t\tfmt.Println(\"%s.a\", %d)\n", id, len(p.Tgts))
		if p.Bind {
			b.WriteString("\t\t_ = x\n")
		}
		b.WriteString("\t}\n")
	case "nil":
		fmt.Fprintf(&b, "\tvar i %s\n", p.Src)
		for k, tg := range p.Tgts {
			fmt.Fprintf(&b, "\t_, ok%d := i.(%s)\n\tfmt.Println(\"%s.t%d\", ok%d)\n", k, tg.goType(), id, k, k)
		}
		fmt.Fprintf(&b, "\tfmt.Println(\"%s.n\", i == nil)\n", id)
		mn, sig := p.Name, 0
		if p.Name == "" {
			mn = "M"
		}
		_ = sig
		fmt.Fprintf(&b, "\tfmt.Println(\"%s.z\", i.%s%s)\n", id, mn, p.Form)
	}
	b.WriteString("}\n\n")
	p.cells = in.cells
	p.body = b.String()
}

// c05BuildAll renders the bodies of all probes of one universe (unique state values across them).
func c05BuildAll(u *c05Univ, probes []*c05Probe) {
	next := 0
	for _, p := range probes {
		p.build(u, &next)
	}
}

// c05Program renders a program made of the given (already built) probes: package main with
// func main for yaegi, package <pkg> with func Run for the shared reference binary.
func c05Program(u *c05Univ, probes []*c05Probe, pkg string) string {
	var b strings.Builder
	fmt.Fprintf(&b, "package %s\n\nimport (\n\t\"fmt\"\n\t\"strconv\"\n)\n\n", pkg)
	b.WriteString(u.decls())
	b.WriteString(c05HelperDecls())
	for _, p := range probes {
		b.WriteString(p.body)
	}
	if pkg == "main" {
		b.WriteString("func main() {\n\t_ = strconv.Itoa\n")
	} else {
		b.WriteString("func Run() {\n\t_ = strconv.Itoa\n")
	}
	for _, p := range probes {
		fmt.Fprintf(&b, "\tp%d()\n", p.ID)
	}
	b.WriteString("}\n")
	return b.String()
}

// ---------------------------------------------------------------- decoding of outputs

// c05Lines splits a program's stdout into per-probe label->text maps.
func c05Lines(stdout string) map[int]map[string]string {
	res := map[int]map[string]string{}
	for _, l := range strings.Split(stdout, "\n") {
		if !strings.HasPrefix(l, "p") {
			continue
		}
		dot := strings.IndexByte(l, '.')
		if dot < 0 {
			continue
		}
		id, err := strconv.Atoi(l[1:dot])
		if err != nil {
			continue
		}
		rest := l[dot+1:]
		label, text := rest, ""
		if sp := strings.IndexByte(rest, ' '); sp >= 0 {
			label, text = rest[:sp], rest[sp+1:]
		}
		if res[id] == nil {
			res[id] = map[string]string{}
		}
		if _, dup := res[id][label]; dup {
			res[id][label] += "|" + text
		} else {
			res[id][label] = text
		}
	}
	return res
}

// decodeSel turns an observed line of a field / method probe into a resolution.
func (p *c05Probe) decodeSel(u *c05Univ, lines map[string]string) (c05Sel, string) {
	a, ok := lines["a"]
	if !ok {
		if _, pan := lines["panic"]; pan {
			return c05Sel{Kind: "none"}, "panic"
		}
		return c05Sel{Kind: "none"}, "missing"
	}
	switch p.Kind {
	case "field", "pfield":
		v, err := strconv.Atoi(a)
		if err != nil {
			return c05Sel{Kind: "none"}, "garbled"
		}
		c, ok := p.cells[v]
		if !ok {
			return c05Sel{Kind: "none"}, "garbled"
		}
		return c05Sel{Kind: "field", Path: c.Path, Owner: c.Owner}, ""
	default:
		// "T3.M:1000042" or "T3.M:42:3"
		parts := strings.Split(a, ":")
		if len(parts) < 2 {
			return c05Sel{Kind: "none"}, "garbled"
		}
		var owner int
		var mn string
		if dot := strings.IndexByte(parts[0], '.'); dot > 1 && parts[0][0] == 'T' {
			owner, _ = strconv.Atoi(parts[0][1:dot])
			mn = parts[0][dot+1:]
		} else {
			return c05Sel{Kind: "none"}, "garbled"
		}
		st, err := strconv.Atoi(parts[1])
		if err != nil {
			return c05Sel{Kind: "none"}, "garbled"
		}
		c, ok := p.cells[c05BaseState(st)]
		if !ok || c.Owner != owner || owner >= len(u.Structs) {
			return c05Sel{Kind: "none"}, "garbled"
		}
		for k := range u.Structs[owner].Meths {
			if u.Structs[owner].Meths[k].Name == mn {
				return c05Sel{Kind: "method", Path: c.Path[:len(c.Path)-1], Owner: owner, Meth: &u.Structs[owner].Meths[k]}, ""
			}
		}
		return c05Sel{Kind: "none"}, "garbled"
	}
}

// c05BaseState recovers the initial value of a state cell from an observed state: initial values
// are below 500000, the harness' own mutation (regions only) adds 500000, every call of a
// pointer-receiver method adds 1000000.
func c05BaseState(st int) int { return st % c05Mut % 500000 }
