package main

import (
	"fmt"
	"math"
	"reflect"
	"strings"
)

// C07 — further streams: variables in both directions, mutation through references, values and
// closures that cross twice, static type assertions, host methods, negative zero, and interpreted
// types handed to the standard library as host interfaces (reference: compiled Go).

func (h *c07h) extraJobs(root *rng, tier string, jobs *[]*c07job) {
	nV, nM, nX, nC, nR, nT := 60, 50, 70, 12, 6, 2
	if tier == "thorough" {
		nV, nM, nX, nC, nR, nT = 1500, 1200, 1500, 200, 40, 25
	}
	add := func(f func(j *c07job)) { *jobs = append(*jobs, &c07job{run: f}) }
	for k := 0; k < nV; k++ {
		r := root.fork()
		add(func(j *c07job) { h.runVarHost(j, r, "", nil) })
		r2 := root.fork()
		add(func(j *c07job) { h.runVarScript(j, r2) })
	}
	// the targets convertLiteralValue leaves alone: read directly after a change
	for rep := 0; rep < nT; rep++ {
		for _, ft := range []*c07t{ctAny, ctErr, c07slice(ctAny), c07slice(ctErr)} {
			r, ft := root.fork(), ft
			add(func(j *c07job) { h.runVarHost(j, r, "", ft) })
		}
	}
	for _, region := range []string{"hostvar-stale", "hostvar-write-lit", "hostvar-nilptr"} {
		for k := 0; k < nR; k++ {
			r, region := root.fork(), region
			add(func(j *c07job) { h.runVarHost(j, r, region, nil) })
		}
	}
	for k := 0; k < nM; k++ {
		r := root.fork()
		add(func(j *c07job) { h.runMut(j, r) })
	}
	for k := 0; k < nX; k++ {
		r := root.fork()
		add(func(j *c07job) { h.runRoundTrip(j, r) })
	}
	for k := 0; k < nC; k++ {
		r := root.fork()
		add(func(j *c07job) { h.runCounter(j, r) })
	}
	for rep := 0; rep < nT; rep++ {
		for _, form := range c07methodForms {
			for _, m := range c07methodNames {
				r, form, m := root.fork(), form, m
				add(func(j *c07job) { h.runMethods(j, r, form, m) })
			}
		}
	}
	for rep := 0; rep < nT; rep++ {
		for _, st := range c07statics() {
			r, st := root.fork(), st
			add(func(j *c07job) { h.runStatic(j, r, st) })
		}
	}
	// every parameter kind x every method subset that type-checks x receiver kind
	for rep := 0; rep < nT/2+1; rep++ {
		for _, pk := range []string{"PErrorParam", "PStringerParam", "PAnyParam"} {
			for mask := 0; mask < 8; mask++ {
				if pk == "PErrorParam" && mask&1 == 0 || pk == "PStringerParam" && mask&4 == 0 {
					continue
				}
				for _, ptr := range []bool{false, true} {
					r, pk, mask, ptr := root.fork(), pk, mask, ptr
					add(func(j *c07job) { h.runWrap(j, r, pk, mask, ptr) })
				}
			}
		}
	}
	nE := 300
	if tier == "thorough" {
		nE = 4000
	}
	for k := 0; k < nE; k++ {
		e := h.genE(root.fork(), "")
		add(func(j *c07job) { h.runE(j, e, "") })
	}
	for _, region := range []string{"embedded-unwrapped-pointer", "embedded-promoted-stub", "embedded-first-by-value"} {
		for k := 0; k < nR; k++ {
			region := region
			e := h.genE(root.fork(), region)
			add(func(j *c07job) { h.runE(j, e, region) })
		}
	}
	nS := 80
	if tier == "thorough" {
		nS = 1200
	}
	for k := 0; k < nS; k++ {
		s := h.genS(root.fork(), "")
		add(func(j *c07job) { h.runS(j, s, "") })
	}
	for k := 0; k < nR/2+1; k++ {
		s := h.genS(root.fork(), "after-cancel-before-eval")
		add(func(j *c07job) { h.runS(j, s, "after-cancel-before-eval") })
	}
	// stream Q: the shape of the argument expression: every cell, with a seeded value
	for _, q := range h.allQ(2 + root.intn(90)) {
		q := q
		add(func(j *c07job) { h.runQ(j, q) })
	}
	// stream R: go / defer statements, every form x callee kind x argument kind, in one child with GOMAXPROCS(1)
	var gs []c07G
	reps := 1
	if tier == "thorough" {
		reps = 4
	}
	for rep := 0; rep < reps; rep++ {
		for _, f := range []string{"go", "defer"} {
			for _, c := range c07calleeKinds {
				for _, a := range c07argKinds {
					x := root.intn(1000)
					gs = append(gs, c07G{Form: f, Callee: c, Arg: a, A: x, B: x + 1 + root.intn(1000)})
				}
			}
		}
	}
	add(func(j *c07job) { h.runStmts(j, gs) })
	// stream L: composite literals of host-declared named types; stream P: result placement with captured variables
	repsL := 2
	if tier == "thorough" {
		repsL = 20
	}
	for rep := 0; rep < repsL; rep++ {
		for _, typ := range []string{"Vec", "Grid", "Names", "Dict", "Rec"} {
			for _, form := range []string{"direct", "var", "local-conv", "unnamed", "nested"} {
				for _, mixed := range []string{"plain", "keyed", "mixed"} {
					if (typ == "Dict" || typ == "Rec") && (mixed == "mixed" || form == "local-conv" || form == "unnamed") {
						continue
					}
					l := h.genL(root.fork(), typ, form, mixed)
					add(func(j *c07job) { h.runL(j, l) })
				}
			}
		}
	}
	for _, p := range h.allP(1 + root.intn(500)) {
		p := p
		add(func(j *c07job) { h.runP(j, p) })
	}
	// stream D: where the script stores the result of a host call: context x destination kind x statement form x result type
	for _, d := range h.allD(root.fork()) {
		d := d
		add(func(j *c07job) { h.runD(j, d) })
	}
	// stream F: host-declared function types, every position x every kind of function expression
	for _, pos := range c07fPos {
		for _, kind := range c07fKind {
			f := &c07F{Pos: pos, Kind: kind, K: 1 + root.intn(50)}
			add(func(j *c07job) { h.runF(j, f) })
		}
	}
	nI := 2
	if tier == "thorough" {
		nI = 25
	}
	progs := c07ifacePrograms(root.fork(), nI)
	add(func(j *c07job) { h.runIfacePrograms(j, progs) })
	for i, z := range c07negzeros() {
		z, extra := z, (i+int(root.next()%2))%2 == 0
		add(func(j *c07job) { h.runNegZero(j, z, extra, false) })
		if i%3 == 0 {
			add(func(j *c07job) { h.runNegZero(j, z, extra, true) })
		}
	}
}

func (h *c07h) valueType(r *rng, depth, fn int) *c07t {
	tg := &c07tgen{r: r}
	return tg.typ(depth, fn)
}

// ---------------------------------------------------------------- V1: a host variable (pointer in Exports) read and written by a script

// ifaceLike: convertLiteralValue leaves a value alone when the target type is an interface or a
// slice of interfaces; every other host variable used as an operand is copied when the source is compiled.
func c07ifaceLike(t *c07t) bool {
	return t.K == ckAny || t.K == ckErr || t.K == ckSlice && (t.Elem.K == ckAny || t.Elem.K == ckErr)
}

// compositeLit: is the Go literal of the value a composite literal (struct, array, slice, map)?
func c07compositeLit(v *cval) bool {
	switch v.T.K {
	case ckStruct, ckArr:
		return true
	case ckSlice, ckMap:
		return !v.Nil
	}
	return false // a composite literal assigned to an interface-typed variable is built apart and then stored
}

// runVarHost: the host changes the variable after the script is compiled (hostchange), the script
// reads it, writes it, reads it back. read/write: "direct" (host.V) or "ptr" (through p := &host.V),
// write also "viavar" (host.V = t) and "none".
func (h *c07h) runVarHost(j *c07job, r *rng, region string, force *c07t) {
	vg := &c07vgen{r: r}
	var t *c07t
	var v0, v1, v2 *cval
	read, write, hostchange := "ptr", r.pick([]string{"ptr", "ptr", "viavar", "viavar", "none"}), r.bool()
	if region == "" && r.chance(25) {
		read, write, hostchange = "direct", "none", false
	}
	for {
		t = h.valueType(r, 2, 1)
		if force != nil {
			t = force
		}
		v0, v1, v2 = c07fill(vg.val(t, false)), c07fill(vg.val(t, false)), c07fill(vg.val(t, false))
		switch region {
		case "hostvar-stale":
			read, hostchange = "direct", true
			write = r.pick([]string{"ptr", "viavar", "none"})
			if c07ifaceLike(t) || v0.String() == v1.String() {
				continue
			}
		case "hostvar-write-lit":
			write = "direct"
			if !c07compositeLit(v2) {
				continue
			}
		case "hostvar-nilptr":
			// a nil pointer in Exports is the convention for a type: a pointer variable that is nil
			// when the script is compiled is taken for one
			if t.K != ckPtr || t.Elem.K == ckErr || t.Elem.K == ckAny {
				continue
			}
			v0 = c07zero(t)
		}
		if region != "hostvar-nilptr" && t.K == ckPtr && v0.Nil {
			continue
		}
		if region == "" && c07ifaceLike(t) && (force != nil || r.chance(60)) {
			// interface-like targets are not copied at compile time: direct reads stay live
			read, hostchange = "direct", true
			write = r.pick([]string{"ptr", "viavar", "none"})
		}
		break
	}
	if !hostchange {
		v1 = v0
	}
	env := c07hostEnv()
	hv := reflect.New(t.rt).Elem()
	hv.Set(v0.toReflect(env, 0))
	g := newC07reg()
	n := g.id(t)
	var b strings.Builder
	b.WriteString("var Out0, Out1 string\nfunc Run() {\n")
	rd := "host.V"
	if read == "ptr" || write == "ptr" {
		b.WriteString("\tp := &host.V\n")
	}
	if read == "ptr" {
		rd = "*p"
	}
	fmt.Fprintf(&b, "\tOut0 = r%d(%s)\n", n, rd)
	switch write {
	case "direct":
		fmt.Fprintf(&b, "\thost.V = %s\n", g.lit(v2, "", 0))
	case "ptr":
		fmt.Fprintf(&b, "\t*p = %s\n", g.lit(v2, "", 0))
	case "viavar":
		fmt.Fprintf(&b, "\tvar t %s = %s\n\thost.V = t\n", t.src(), g.lit(v2, "", 0))
	}
	fmt.Fprintf(&b, "\tOut1 = r%d(%s)\n}\n", n, rd)
	src := c07prelude + g.source() + b.String()
	run := c07new(map[string]reflect.Value{"V": hv})
	run.eval(src, h.timeout)
	if hostchange {
		run.guard(h.timeout, func() { hv.Set(v1.toReflect(env, 0)) })
	}
	run.eval("Run()", h.timeout)
	o0 := run.evalString("Out0", h.timeout)
	o1 := run.evalString("Out1", h.timeout)
	how := read + "/" + write
	in := map[string]any{"stream": "host-variable", "type": t.src(), "read": read, "write": write, "hostchange": hostchange,
		"at-compile": v0.String(), "at-run": v1.String(), "written": v2.String(), "script": src}
	j.evals++
	j.tick("V:host:" + how)
	j.dist = append(j.dist, "VH|"+t.src()+"|"+how+"|"+v0.String()+"|"+v1.String()+"|"+v2.String())
	rk := "(KHostRead RLive)"
	if read == "direct" {
		rk = "(KHostRead RDirect)"
	}
	wk := map[string]string{"ptr": "(KHostWrite WDeref)", "viavar": "(KHostWrite WDirect)", "direct": "(KHostWrite WDirect)", "none": ""}[write]
	if write == "direct" && c07compositeLit(v2) {
		wk = "(KHostWrite WDirectLit)"
	}
	mk := func(dir, shape, reg string, sent, prev *cval, obs func() *cval) {
		c := &c07case{Kind: "var", Dir: dir, Shape: shape, Ts: []*c07t{t}, Sent: []*cval{sent}, Old: v0, Prev: prev, Ref: []*cval{c07native(sent, env)}, Region: reg, Input: in, CoqK: rk}
		if strings.HasPrefix(shape, "hostvar-write") {
			c.CoqK = wk
		}
		if run.failed != "" {
			c.Impl = c07badList(c.Ts, run.failed)
		} else {
			c.Impl = []*cval{obs()}
		}
		j.add(c)
	}
	// read: what the variable holds when Run starts; Old = what it held when the script was compiled
	mk("H2S", "hostvar-read/"+read, region, v1, v0, func() *cval { return c07parse(t, o0) })
	now := v1
	if write != "none" {
		mk("S2H", "hostvar-write/"+write, region, v2, v1, func() *cval { return c07observe(t, hv, env) })
		now = v2
		if run.failed == "" {
			now = c07observe(t, hv, env) // read back what the host really holds now
		}
	}
	mk("RTS", "hostvar-read/"+read, region, now, v0, func() *cval { return c07parse(t, o1) })
}

// ---------------------------------------------------------------- V2: a script variable obtained through Globals / Symbols / Eval

func (h *c07h) runVarScript(j *c07job, r *rng) {
	vg := &c07vgen{r: r}
	t := h.valueType(r, 2, 1)
	v0, v1 := c07fill(vg.val(t, false)), c07fill(vg.val(t, false))
	path := r.pick([]string{"globals", "symbols", "eval", "evalpkg"})
	env := c07hostEnv()
	g := newC07reg()
	n := g.id(t)
	var b strings.Builder
	fmt.Fprintf(&b, "var G %s = %s\nfunc Get() string { return r%d(G) }\n", t.src(), g.lit(v0, "", 0), n)
	src := c07prelude + g.source() + b.String()
	run := c07new(nil)
	run.eval(src, h.timeout)
	var gv reflect.Value
	switch path {
	case "globals":
		run.guard(h.timeout, func() { gv = run.i.Globals()["G"] })
	case "symbols":
		run.guard(h.timeout, func() { gv = run.i.Symbols("main")["main"]["G"] })
	case "eval":
		gv = run.eval("G", h.timeout)
	case "evalpkg":
		gv = run.eval("main.G", h.timeout)
	}
	var read, back *cval
	var after string
	run.guard(h.timeout, func() { read = c07observe(t, gv, env) })
	// the host writes through the value obtained from Globals (addressable frame slot)
	var wv reflect.Value
	run.guard(h.timeout, func() { wv = run.i.Globals()["G"] })
	run.guard(h.timeout, func() { wv.Set(v1.toReflect(env, 0)) })
	after = run.evalString("Get()", h.timeout)
	g2 := run.eval("G", h.timeout)
	run.guard(h.timeout, func() { back = c07observe(t, g2, env) })
	in := map[string]any{"stream": "script-variable", "type": t.src(), "path": path, "initial": v0.String(), "written": v1.String(), "script": src}
	j.evals++
	j.tick("V:script:" + path)
	j.dist = append(j.dist, "VS|"+t.src()+"|"+path+"|"+v0.String()+"|"+v1.String())
	mk := func(dir, shape string, sent *cval, obs func() *cval) {
		c := &c07case{Kind: "var", Dir: dir, Shape: shape, Ts: []*c07t{t}, Sent: []*cval{sent}, Ref: []*cval{c07native(sent, env)}, Input: in}
		if run.failed != "" {
			c.Impl = c07badList(c.Ts, run.failed)
		} else {
			c.Impl = []*cval{obs()}
		}
		j.add(c)
	}
	mk("S2H", "scriptvar-read/"+path, v0, func() *cval { return read })
	mk("H2S", "scriptvar-write/globals", v1, func() *cval { return c07parse(t, after) })
	mk("RTH", "scriptvar-readback/eval", v1, func() *cval { return back })
	for i, k := range []string{"(KShared S2H)", "(KShared H2S)", "KRoundH"} {
		j.cases[len(j.cases)-3+i].CoqK = k
	}
}

// ---------------------------------------------------------------- M: mutations through pointers, slices and maps seen on the other side

func (h *c07h) refType(r *rng) *c07t {
	tg := &c07tgen{r: r}
	e := tg.typ(1, 0)
	switch r.intn(3) {
	case 0:
		return c07ptr(e)
	case 1:
		return c07slice(e)
	}
	return c07map(c07Keys[r.intn(len(c07Keys))], e)
}

// mutation describes one in-place update of a reference value.
type c07mut struct {
	t   *c07t
	key *cval // map key
	nv  *cval
}

func (m *c07mut) src(g *c07reg, x string) string {
	switch m.t.K {
	case ckPtr:
		return "*" + x + " = " + g.lit(m.nv, "", 0)
	case ckSlice:
		return x + "[0] = " + g.lit(m.nv, "", 0)
	}
	return x + "[" + g.lit(m.key, "", 0) + "] = " + g.lit(m.nv, "", 0)
}

func (m *c07mut) apply(x reflect.Value, env *c07env) {
	nv := m.nv.toReflect(env, 0)
	switch m.t.K {
	case ckPtr:
		x.Elem().Set(nv)
	case ckSlice:
		x.Index(0).Set(nv)
	default:
		x.SetMapIndex(m.key.toReflect(env, 0), nv)
	}
}

// after is the value tree after the mutation.
func (m *c07mut) after(v *cval) *cval {
	c := *v
	switch m.t.K {
	case ckPtr:
		c.L = []*cval{m.nv}
	case ckSlice:
		c.L = append([]*cval{m.nv}, v.L[1:]...)
	default:
		c.MK, c.MV = nil, nil
		found := false
		for i := range v.MK {
			c.MK = append(c.MK, v.MK[i])
			if v.MK[i].String() == m.key.String() {
				c.MV = append(c.MV, m.nv)
				found = true
			} else {
				c.MV = append(c.MV, v.MV[i])
			}
		}
		if !found {
			c.MK = append(c.MK, m.key)
			c.MV = append(c.MV, m.nv)
		}
		c.sortMap()
	}
	return &c
}

func (h *c07h) genRef(r *rng) (*c07t, *cval) {
	vg := &c07vgen{r: r, probe: true}
	for {
		t := h.refType(r)
		v := vg.val(t, false)
		if v.Nil || (t.K == ckSlice && len(v.L) == 0) {
			continue
		}
		return t, c07fill(v)
	}
}

func (h *c07h) genMut(r *rng, t *c07t, v *cval) *c07mut {
	vg := &c07vgen{r: r, probe: true}
	m := &c07mut{t: t, nv: c07fill(vg.val(t.Elem, false))}
	if t.K == ckMap {
		if len(v.MK) > 0 && r.bool() {
			m.key = v.MK[r.intn(len(v.MK))]
		} else {
			m.key = vg.val(t.Key, false)
		}
	}
	return m
}

func (h *c07h) runMut(j *c07job, r *rng) {
	t, v0 := h.genRef(r)
	m1 := h.genMut(r, t, v0)
	v1 := m1.after(v0)
	m2 := h.genMut(r, t, v1)
	v2 := m2.after(v1)
	env := c07hostEnv()
	g := newC07reg()
	n := g.id(t)
	dirS2H := r.bool() // true: the script owns the value and calls the host; false: the host owns it and calls the script
	var src string
	in := map[string]any{"stream": "mutation", "type": t.src(), "value": v0.String()}
	j.evals++
	mk := func(dir, shape string, sent *cval, failed string, obs func() *cval) {
		c := &c07case{Kind: "var", Dir: dir, Shape: shape, Ts: []*c07t{t}, Sent: []*cval{sent}, Ref: []*cval{c07native(sent, env)}, Input: in, CoqK: "(KShared " + dir + ")"}
		if failed != "" {
			c.Impl = c07badList(c.Ts, failed)
		} else {
			c.Impl = []*cval{obs()}
		}
		j.add(c)
	}
	if dirS2H {
		// script: x := v0; host.Mut(x) [host applies m1 and keeps x]; Out1 = r(x); script applies m2; host looks at what it kept
		var kept reflect.Value
		mut := reflect.MakeFunc(reflect.FuncOf([]reflect.Type{t.rt}, nil, false), func(in []reflect.Value) []reflect.Value {
			kept = in[0]
			m1.apply(in[0], env)
			return nil
		})
		var b strings.Builder
		fmt.Fprintf(&b, "var Out1 string\nfunc Run() {\n\tvar x %s = %s\n\thost.Mut(x)\n\tOut1 = r%d(x)\n\t%s\n}\n", t.src(), g.lit(v0, "", 0), n, m2.src(g, "x"))
		src = c07prelude + g.source() + b.String()
		in["script"] = src
		run := c07new(map[string]reflect.Value{"Mut": mut})
		run.eval(src, h.timeout)
		run.eval("Run()", h.timeout)
		o1 := run.evalString("Out1", h.timeout)
		j.tick("M:script-owned")
		j.dist = append(j.dist, "MS|"+t.src()+"|"+v0.String()+"|"+v2.String())
		mk("H2S", "mutation-by-host-seen-by-script/arg", v1, run.failed, func() *cval { return c07parse(t, o1) })
		mk("S2H", "mutation-by-script-seen-by-host/kept-arg", v2, run.failed, func() *cval { return c07observe(t, kept, env) })
		return
	}
	// host: x := v0; script Mut(x) applies m1 and keeps x; host observes x; host applies m2; script looks at what it kept
	var b strings.Builder
	fmt.Fprintf(&b, "var kept %s\nfunc Mut(x %s) {\n\tkept = x\n\t%s\n}\nfunc Look() string { return r%d(kept) }\n", t.src(), t.src(), m1.src(g, "x"), n)
	src = c07prelude + g.source() + b.String()
	in["script"] = src
	run := c07new(nil)
	run.eval(src, h.timeout)
	fv := run.eval("Mut", h.timeout)
	x := v0.toReflect(env, 0)
	run.guard(h.timeout, func() { fv.Call([]reflect.Value{x}) })
	var seen *cval
	run.guard(h.timeout, func() { seen = c07observe(t, x, env) })
	run.guard(h.timeout, func() { m2.apply(x, env) })
	look := run.evalString("Look()", h.timeout)
	j.tick("M:host-owned")
	j.dist = append(j.dist, "MH|"+t.src()+"|"+v0.String()+"|"+v2.String())
	mk("S2H", "mutation-by-script-seen-by-host/arg", v1, run.failed, func() *cval { return seen })
	mk("H2S", "mutation-by-host-seen-by-script/kept-arg", v2, run.failed, func() *cval { return c07parse(t, look) })
}

// ---------------------------------------------------------------- X: values (functions above all) that cross the boundary twice

func (h *c07h) runRoundTrip(j *c07job, r *rng) {
	vg := &c07vgen{r: r}
	tg := &c07tgen{r: r}
	var t *c07t
	if r.chance(65) {
		t = tg.fnType(2, 1, 3, 2)
	} else {
		t = tg.typ(2, 1)
	}
	v := c07fill(vg.val(t, false))
	env := c07hostEnv()
	idT := reflect.FuncOf([]reflect.Type{t.rt}, []reflect.Type{t.rt}, false)
	hostID := reflect.MakeFunc(idT, func(in []reflect.Value) []reflect.Value { return in })
	how := r.pick([]string{"once", "twice", "named", "via-script-id"})
	if t.K != ckFunc && how == "named" {
		how = "once"
	}
	g := newC07reg()
	n := g.id(t)
	var b strings.Builder
	b.WriteString("var Out string\n")
	fmt.Fprintf(&b, "func Id(x %s) %s { return x }\n", t.src(), t.src())
	lit := g.lit(v, "", 0)
	switch how {
	case "once":
		fmt.Fprintf(&b, "func Run() {\n\tvar x %s = %s\n\ty := host.Id(x)\n\tOut = r%d(y)\n}\n", t.src(), lit, n)
	case "twice":
		fmt.Fprintf(&b, "func Run() {\n\tvar x %s = %s\n\ty := host.Id(host.Id(x))\n\tOut = r%d(y)\n}\n", t.src(), lit, n)
	case "named":
		names := make([]string, len(t.In))
		for i := range names {
			names[i] = fmt.Sprintf("a0_%d", i)
		}
		if v.Nil {
			how = "once"
			fmt.Fprintf(&b, "func Run() {\n\tvar x %s = %s\n\ty := host.Id(x)\n\tOut = r%d(y)\n}\n", t.src(), lit, n)
		} else {
			fmt.Fprintf(&b, "func Named%s {%s}\n", t.sigSrc(names), g.funcBody(v.Fn, names, "", 0))
			fmt.Fprintf(&b, "func Run() {\n\ty := host.Id(Named)\n\tOut = r%d(y)\n}\n", n)
		}
	case "via-script-id":
		fmt.Fprintf(&b, "func Run() {\n\tvar x %s = %s\n\ty := Id(host.Id(Id(x)))\n\tOut = r%d(y)\n}\n", t.src(), lit, n)
	}
	src := c07prelude + g.source() + b.String()
	run := c07new(map[string]reflect.Value{"Id": hostID})
	run.eval(src, h.timeout)
	run.eval("Run()", h.timeout)
	out := run.evalString("Out", h.timeout)
	in := map[string]any{"stream": "round-trip", "type": t.src(), "how": how, "value": v.String(), "script": src}
	j.evals += 2
	j.tick("X:" + how)
	j.dist = append(j.dist, "X|"+t.src()+"|"+how+"|"+v.String())
	if how == "named" {
		vv := *v
		vv.Named = true
		v = &vv
	}
	c := &c07case{Kind: "var", Dir: "RTS", Shape: "roundtrip/" + how, Ts: []*c07t{t}, Sent: []*cval{v}, Ref: []*cval{c07native(v, env)}, Input: in, CoqK: "KRoundS"}
	if run.failed != "" {
		c.Impl = c07badList(c.Ts, run.failed)
	} else {
		c.Impl = []*cval{c07parse(t, out)}
	}
	j.add(c)

	// host -> script -> host: the host's value through the script's identity function
	run2 := c07new(map[string]reflect.Value{"Id": hostID})
	run2.eval(src, h.timeout)
	fv := run2.eval("Id", h.timeout)
	var back *cval
	run2.guard(h.timeout, func() {
		x := v.toReflect(env, 0)
		o := fv.Call([]reflect.Value{x})
		if how == "twice" {
			o = fv.Call(o)
		}
		back = c07observe(t, o[0], env)
	})
	c2 := &c07case{Kind: "var", Dir: "RTH", Shape: "roundtrip/" + how, Ts: []*c07t{t}, Sent: []*cval{v}, Ref: []*cval{c07native(v, env)}, Input: in, CoqK: "KRoundH"}
	if run2.failed != "" {
		c2.Impl = c07badList(c2.Ts, run2.failed)
	} else {
		c2.Impl = []*cval{back}
	}
	j.add(c2)
}

// ---------------------------------------------------------------- C: closures with state, called from both sides

var ctIntSlice = c07slice(ctInt)

func c07ints(xs []int) *cval {
	v := &cval{T: ctIntSlice, L: []*cval{}}
	for _, x := range xs {
		v.L = append(v.L, &cval{T: ctInt, I: int64(x)})
	}
	return v
}

func (h *c07h) runCounter(j *c07job, r *rng) {
	k := r.intn(1000) - 500
	n := 4 + r.intn(5)
	steps := make([]int, n)
	side := make([]bool, n) // true: called natively by the host
	for i := range steps {
		steps[i] = r.intn(200) - 100
		side[i] = r.bool()
	}
	owner := r.pick([]string{"script-closure", "host-closure", "script-closure-kept-by-host"})
	env := c07hostEnv()
	var exp []int
	sum := k
	for _, d := range steps {
		sum += d
		exp = append(exp, sum)
	}
	var got []int
	var failed string
	in := map[string]any{"stream": "stateful-closure", "owner": owner, "start": k, "steps": fmt.Sprint(steps), "native": fmt.Sprint(side)}
	switch owner {
	case "script-closure":
		src := c07prelude + fmt.Sprintf("func Mk(k int) func(int) int { n := k; return func(d int) int { n += d; return n } }\nvar C = Mk(%d)\nfunc Step(d int) int { return C(d) }\n", k)
		in["script"] = src
		run := c07new(nil)
		run.eval(src, h.timeout)
		fv := run.eval("C", h.timeout)
		for i, d := range steps {
			d := d
			if side[i] {
				run.guard(h.timeout, func() { got = append(got, int(fv.Call([]reflect.Value{reflect.ValueOf(d)})[0].Int())) })
			} else {
				v := run.eval(fmt.Sprintf("Step(%d)", d), h.timeout)
				if run.failed == "" {
					got = append(got, int(v.Int()))
				}
			}
		}
		failed = run.failed
	case "host-closure":
		cnt := k
		hc := func(d int) int { cnt += d; return cnt }
		src := c07prelude + "var kept func(int) int\nfunc Keep(f func(int) int) { kept = f }\nfunc Step(d int) int { return kept(d) }\nfunc Direct(d int) int { return host.Cnt(d) }\n"
		in["script"] = src
		run := c07new(map[string]reflect.Value{"Cnt": reflect.ValueOf(hc)})
		run.eval(src, h.timeout)
		keep := run.eval("Keep", h.timeout)
		run.guard(h.timeout, func() { keep.Call([]reflect.Value{reflect.ValueOf(hc)}) })
		for i, d := range steps {
			if side[i] {
				got = append(got, hc(d))
			} else {
				fn := []string{"Step", "Direct"}[i%2]
				v := run.eval(fmt.Sprintf("%s(%d)", fn, d), h.timeout)
				if run.failed == "" {
					got = append(got, int(v.Int()))
				}
			}
		}
		failed = run.failed
	default:
		var keptF reflect.Value
		keep := func(f func(int) int) { keptF = reflect.ValueOf(f) }
		src := c07prelude + fmt.Sprintf("var C func(int) int\nfunc Setup() { n := %d; C = func(d int) int { n += d; return n }; host.Keep(C) }\nfunc Step(d int) int { return C(d) }\n", k)
		in["script"] = src
		run := c07new(map[string]reflect.Value{"Keep": reflect.ValueOf(keep)})
		run.eval(src, h.timeout)
		run.eval("Setup()", h.timeout)
		for i, d := range steps {
			d := d
			if side[i] {
				run.guard(h.timeout, func() { got = append(got, int(keptF.Call([]reflect.Value{reflect.ValueOf(d)})[0].Int())) })
			} else {
				v := run.eval(fmt.Sprintf("Step(%d)", d), h.timeout)
				if run.failed == "" {
					got = append(got, int(v.Int()))
				}
			}
		}
		failed = run.failed
	}
	j.evals++
	j.tick("C:" + owner)
	j.dist = append(j.dist, fmt.Sprint("C|", owner, k, steps, side))
	sent := c07ints(exp)
	c := &c07case{Kind: "var", Dir: "RTS", Shape: "stateful-closure/" + owner, Ts: []*c07t{ctIntSlice}, Sent: []*cval{sent}, Ref: []*cval{c07native(sent, env)}, Input: in, CoqK: "KRoundS"}
	if failed != "" {
		c.Impl = c07badList(c.Ts, failed)
	} else {
		c.Impl = []*cval{c07ints(got)}
	}
	j.add(c)
}

// ---------------------------------------------------------------- T: type assertions of Interface() to static Go function types

type c07static struct {
	t    *c07t
	call func(f interface{}, in []reflect.Value) (out []reflect.Value, ok bool)
}

func c07rv(xs ...interface{}) []reflect.Value {
	out := make([]reflect.Value, len(xs))
	for i, x := range xs {
		out[i] = reflect.ValueOf(x)
	}
	return out
}

// ifaceValue keeps the static interface type of a result (reflect.ValueOf would lose it).
func c07ifv[T any](x T) reflect.Value { return reflect.ValueOf(&x).Elem() }

func c07statics() []c07static {
	fII := c07func([]*c07t{ctInt}, []*c07t{ctInt}, false)
	return []c07static{
		{c07func([]*c07t{ctInt, ctString}, []*c07t{ctBool, ctErr}, false), func(f interface{}, in []reflect.Value) ([]reflect.Value, bool) {
			g, ok := f.(func(int, string) (bool, error))
			if !ok {
				return nil, false
			}
			a, b := g(in[0].Interface().(int), in[1].Interface().(string))
			return []reflect.Value{reflect.ValueOf(a), c07ifv(b)}, true
		}},
		{c07func([]*c07t{ctString, c07slice(ctInt)}, []*c07t{ctInt}, true), func(f interface{}, in []reflect.Value) ([]reflect.Value, bool) {
			g, ok := f.(func(string, ...int) int)
			if !ok {
				return nil, false
			}
			return c07rv(g(in[0].Interface().(string), in[1].Interface().([]int)...)), true
		}},
		{c07func([]*c07t{fII}, []*c07t{fII}, false), func(f interface{}, in []reflect.Value) ([]reflect.Value, bool) {
			g, ok := f.(func(func(int) int) func(int) int)
			if !ok {
				return nil, false
			}
			return c07rv(g(in[0].Interface().(func(int) int))), true
		}},
		{c07func([]*c07t{c07ptr(ctP), ctQ}, []*c07t{ctR}, false), func(f interface{}, in []reflect.Value) ([]reflect.Value, bool) {
			g, ok := f.(func(*C07P, C07Q) C07R)
			if !ok {
				return nil, false
			}
			return c07rv(g(in[0].Interface().(*C07P), in[1].Interface().(C07Q))), true
		}},
		{c07func([]*c07t{ctAny, ctErr}, []*c07t{ctAny, ctErr}, false), func(f interface{}, in []reflect.Value) ([]reflect.Value, bool) {
			g, ok := f.(func(interface{}, error) (interface{}, error))
			if !ok {
				return nil, false
			}
			var e error
			if !in[1].IsNil() {
				e = in[1].Interface().(error)
			}
			var x interface{}
			if !in[0].IsNil() {
				x = in[0].Interface()
			}
			a, b := g(x, e)
			return []reflect.Value{c07ifv(a), c07ifv(b)}, true
		}},
		{c07func(nil, []*c07t{ctString, ctF64, ctUint8}, false), func(f interface{}, in []reflect.Value) ([]reflect.Value, bool) {
			g, ok := f.(func() (string, float64, uint8))
			if !ok {
				return nil, false
			}
			a, b, c := g()
			return c07rv(a, b, c), true
		}},
		{c07func([]*c07t{c07map(ctString, c07slice(ctInt)), c07arr(2, ctInt8)}, nil, false), func(f interface{}, in []reflect.Value) ([]reflect.Value, bool) {
			g, ok := f.(func(map[string][]int, [2]int8))
			if !ok {
				return nil, false
			}
			g(in[0].Interface().(map[string][]int), in[1].Interface().([2]int8))
			return nil, true
		}},
		{c07func([]*c07t{c07slice(ctAny)}, []*c07t{ctInt}, true), func(f interface{}, in []reflect.Value) ([]reflect.Value, bool) {
			g, ok := f.(func(...interface{}) int)
			if !ok {
				return nil, false
			}
			return c07rv(g(in[0].Interface().([]interface{})...)), true
		}},
	}
}

func (h *c07h) runStatic(j *c07job, r *rng, st c07static) {
	vg := &c07vgen{r: r}
	b := &c07B{sig: st.t, mode: "plain", path: r.pick([]string{"eval", "symbols", "closure"})}
	if st.t.Variadic {
		b.mode = "spread"
	}
	fv := vg.val(b.sig, false)
	for fv.Nil {
		fv = vg.val(b.sig, false)
	}
	b.spec = fv.Fn
	for _, p := range b.sig.In {
		b.args = append(b.args, c07fill(vg.val(p, false)))
	}
	sig := b.sig
	env := c07hostEnv()
	reg := newC07reg()
	src := b.source(reg)
	run := c07new(nil)
	run.eval(src, h.timeout)
	var fval reflect.Value
	if b.path == "symbols" {
		run.guard(h.timeout, func() { fval = run.i.Symbols("main")["main"]["F"] })
	} else {
		fval = run.eval("F", h.timeout)
	}
	var results []*cval
	run.guard(h.timeout, func() {
		in := make([]reflect.Value, len(b.args))
		for i, v := range b.args {
			in[i] = v.toReflect(env, 0)
		}
		out, ok := st.call(fval.Interface(), in)
		if !ok {
			panic("type assertion of Interface() to " + sig.rt.String() + " failed: dynamic type " + reflect.TypeOf(fval.Interface()).String())
		}
		for k, o := range out {
			results = append(results, c07observe(sig.Out[k], o, env))
		}
	})
	rec := run.evalString("Rec", h.timeout)
	in := map[string]any{"stream": "static-assertion", "signature": c07sigString(sig), "path": b.path, "args": c07valStrings(b.args), "script": src}
	j.evals++
	j.tick("T:" + b.path)
	j.dist = append(j.dist, "T|"+c07sigString(sig)+"|"+b.path+"|"+c07valStrings(b.args))
	bound := c07nativeList(b.args, env)
	ca := &c07case{Kind: "args", Dir: "H2S", Sig: sig, Mode: b.mode, Shape: "static/" + b.path, Ts: sig.In, Sent: b.args, Ref: bound, Input: in}
	cr := &c07case{Kind: "results", Dir: "S2H", Sig: sig, Shape: "static/" + b.path, Ts: sig.Out, Input: in}
	if run.failed != "" {
		ca.Impl = c07badList(sig.In, run.failed)
		cr.Impl = c07badList(sig.Out, run.failed)
	} else {
		ca.Impl = c07parseList(sig.In, rec)
		cr.Impl = results
	}
	got := ca.Impl
	if c07hasBad(got) {
		got = bound
	}
	cr.Sent = b.spec.apply(got)
	cr.Ref = cr.Sent
	j.add(ca)
	if len(sig.Out) > 0 {
		j.add(cr)
	}
}

// ---------------------------------------------------------------- H: methods of host types called from a script (receiver offset in callBin)

var c07methodForms = []string{"value", "pointer", "method-value", "method-expr", "via-interface"}
var c07methodNames = []string{"Sum", "Cat-ind", "Cat-spread", "Cat-empty", "Both", "Set"}

// methodRegion: which (form, method) pairs lie in a known-defect region.
func c07methodRegion(form, method string) string {
	switch {
	case form == "method-expr":
		return "host-method-expr"
	case form == "method-value" && strings.HasPrefix(method, "Cat"):
		return "host-method-value-variadic"
	}
	return ""
}

func (h *c07h) runMethods(j *c07job, r *rng, form, method string) {
	vg := &c07vgen{r: r, probe: true}
	p := vg.val(ctP, false)
	px, py := int(p.L[0].I), p.L[1].S
	k := r.intn(2000) - 1000
	x2, y2 := r.intn(1000), vg.str()
	sep := r.pick([]string{"-", "", ", ", "+"})
	n := 1 + r.intn(3)
	xs := make([]int, n)
	var xl []string
	for i := range xs {
		xs[i] = r.intn(100) - 50
		xl = append(xl, fmt.Sprint(xs[i]))
	}
	a := r.intn(40) - 10
	bs := vg.str()
	q := func(s string) string { return fmt.Sprintf("%q", s) }
	show := "func show(i int, s string, e error) string { t := strconv.Itoa(i) + \"|\" + strconv.Quote(s) + \"|\"; if e != nil { t += e.Error() }; return t }\n"
	var args string
	mname := strings.SplitN(method, "-", 2)[0]
	switch method {
	case "Sum":
		args = fmt.Sprint(k)
	case "Cat-ind":
		args = q(sep) + ", " + strings.Join(xl, ", ")
	case "Cat-spread":
		args = q(sep) + ", []int{" + strings.Join(xl, ", ") + "}..."
	case "Cat-empty":
		args = q(sep)
	case "Both":
		args = fmt.Sprintf("%d, %s", a, q(bs))
	case "Set":
		args = fmt.Sprintf("%d, %s", x2, q(y2))
	}
	ptrRecv := mname == "Both" || mname == "Set"
	recv, fn := "p", ""
	switch form {
	case "pointer":
		recv = "pp"
	case "method-value":
		fn = "f := p." + mname
	case "method-expr":
		if ptrRecv {
			fn, args = "f := (*host.P)."+mname, "pp, "+args
		} else {
			fn, args = "f := host.P."+mname, "p, "+args
		}
	case "via-interface":
		decl := map[string]string{"Sum": "Sum(int) int", "Cat": "Cat(string, ...int) string", "Both": "Both(int, string) (int, string, error)", "Set": "Set(int, string)"}[mname]
		fn, recv = "var i interface{ "+decl+" } = pp", "i"
	}
	call := recv + "." + mname + "(" + args + ")"
	if form == "method-value" || form == "method-expr" {
		call = "f(" + args + ")"
	}
	var b strings.Builder
	b.WriteString("var Out string\n" + show)
	fmt.Fprintf(&b, "func Run() {\n\tp := host.P{X: %d, Y: %s}\n\tpp := &p\n\t%s\n", px, q(py), fn)
	switch mname {
	case "Sum":
		fmt.Fprintf(&b, "\tx := %s\n\tOut = strconv.Itoa(x)\n", call)
	case "Cat":
		fmt.Fprintf(&b, "\tx := %s\n\tOut = strconv.Quote(x)\n", call)
	case "Both":
		fmt.Fprintf(&b, "\tx, y, z := %s\n\tOut = show(x, y, z)\n", call)
	case "Set":
		fmt.Fprintf(&b, "\t%s\n\tOut = strconv.Itoa(p.X) + strconv.Quote(p.Y)\n", call)
	}
	b.WriteString("\t_ = pp\n}\n")
	src := c07prelude + b.String()
	run := c07new(nil)
	run.eval(src, h.timeout)
	run.eval("Run()", h.timeout)
	out := run.evalString("Out", h.timeout)
	// reference: the same call natively
	hp := C07P{px, py}
	var exp string
	switch method {
	case "Sum":
		exp = fmt.Sprint(hp.Sum(k))
	case "Cat-ind", "Cat-spread":
		exp = q(hp.Cat(sep, xs...))
	case "Cat-empty":
		exp = q(hp.Cat(sep))
	case "Both":
		b1, b2, b3 := hp.Both(a, bs)
		exp = fmt.Sprint(b1) + "|" + q(b2) + "|"
		if b3 != nil {
			exp += b3.Error()
		}
	case "Set":
		hp.Set(x2, y2)
		exp = fmt.Sprint(hp.X) + q(hp.Y)
	}
	j.evals++
	j.tick("H:" + form + ":" + mname)
	j.dist = append(j.dist, "H|"+form+"|"+method+"|"+exp)
	env := c07hostEnv()
	sent := &cval{T: ctString, S: exp}
	c := &c07case{Kind: "results", Dir: "H2S", Sig: c07func(nil, []*c07t{ctString}, false), Shape: "host-method/" + form + "/" + method, Ts: []*c07t{ctString}, Sent: []*cval{sent}, Ref: []*cval{c07native(sent, env)},
		Region: c07methodRegion(form, method), Input: map[string]any{"stream": "host-methods", "form": form, "method": method, "script": src},
		Meth: &c07meth{form: form, vp: map[string]int{"Sum": -1, "Cat": 1, "Both": -1, "Set": -1}[mname], np: map[string]int{"Sum": 1, "Cat": 2, "Both": 2, "Set": 2}[mname],
			na: map[string]int{"Sum": 1, "Cat-ind": 1 + n, "Cat-spread": 2, "Cat-empty": 1, "Both": 2, "Set": 2}[method]}}
	c.Kind = "meth"
	if run.failed != "" {
		c.Impl = c07badList(c.Ts, run.failed)
	} else {
		c.Impl = []*cval{{T: ctString, S: out}}
	}
	j.add(c)
}

// ---------------------------------------------------------------- N: negative zero (in-script calls skip "zero" arguments; reflect.IsZero is true for -0.0 since Go 1.22)

type c07nz struct {
	t      *c07t
	v      *cval
	render string // inline rendering of parameter a (no script call may touch the value)
	lit    string
}

func c07negzeros() []c07nz {
	nz64, nz32 := uint64(1)<<63, uint64(1)<<31
	f := func(t *c07t, bits uint64) *cval { return &cval{T: t, F: bits} }
	x64 := func(e string) string { return `"x" + strconv.FormatUint(math.Float64bits(` + e + `), 16)` }
	x32 := func(e string) string { return `"x" + strconv.FormatUint(uint64(math.Float32bits(` + e + `)), 16)` }
	l64, l32 := "math.Float64frombits(0x8000000000000000)", "math.Float32frombits(0x80000000)"
	arr := c07arr(2, ctF64)
	q := c07zero(ctQ)
	q.L[3] = f(ctF64, nz64)
	return []c07nz{
		{ctF64, f(ctF64, nz64), x64("a"), l64},
		{ctF32, f(ctF32, nz32), x32("a"), l32},
		{ctC128, &cval{T: ctC128, F: nz64, F2: 0}, `"c" + strconv.FormatUint(math.Float64bits(real(a)), 16) + "," + strconv.FormatUint(math.Float64bits(imag(a)), 16)`, "complex(" + l64 + ", float64(0))"},
		{ctC128, &cval{T: ctC128, F: 0, F2: nz64}, `"c" + strconv.FormatUint(math.Float64bits(real(a)), 16) + "," + strconv.FormatUint(math.Float64bits(imag(a)), 16)`, "complex(float64(0), " + l64 + ")"},
		{ctC64, &cval{T: ctC64, F: nz32, F2: nz32}, `"c" + strconv.FormatUint(uint64(math.Float32bits(real(a))), 16) + "," + strconv.FormatUint(uint64(math.Float32bits(imag(a))), 16)`, "complex(" + l32 + ", " + l32 + ")"},
		{arr, &cval{T: arr, L: []*cval{f(ctF64, nz64), f(ctF64, 0)}}, `"[" + ` + x64("a[0]") + ` + "," + ` + x64("a[1]") + ` + "]"`, "[2]float64{" + l64 + ", 0}"},
		{ctQ, q, `"{~,~,~," + ` + x64("a.F") + ` + ",f}"`, "host.Q{F: " + l64 + "}"},
		// not zero as a whole: copied, sign kept
		{arr, &cval{T: arr, L: []*cval{f(ctF64, nz64), f(ctF64, math.Float64bits(1.5))}}, `"[" + ` + x64("a[0]") + ` + "," + ` + x64("a[1]") + ` + "]"`, "[2]float64{" + l64 + ", 1.5}"},
		// interface-typed parameter: never skipped
		{ctAny, &cval{T: ctAny, Dyn: f(ctF64, nz64)}, `"(float64)" + ` + x64("a.(float64)"), l64},
	}
}

func (h *c07h) runNegZero(j *c07job, z c07nz, extra, closure bool) {
	env := c07hostEnv()
	t := z.t
	sigIn := []*c07t{t}
	params, rec := "a "+t.src(), z.render
	args, lits := []*cval{z.v}, z.lit
	if extra {
		// a second, non-zero parameter: only the "zero" one is affected
		sigIn = append(sigIn, ctInt)
		params += ", b int"
		rec += ` + ";" + "i" + strconv.Itoa(b)`
		args = append(args, &cval{T: ctInt, I: 42})
		lits += ", 42"
	}
	sig := c07func(sigIn, nil, false)
	src := c07prelude + fmt.Sprintf("var Rec string\nfunc F(%s) { Rec = %s }\nfunc Ref() { F(%s) }\n", params, rec, lits)
	if closure {
		// the callee is a closure held in a variable: the in-script call goes through reflect and keeps the sign
		src = c07prelude + fmt.Sprintf("var Rec string\nfunc mk() func(%s) { return func(%s) { Rec = %s } }\nvar F = mk()\nfunc Ref() { F(%s) }\n", strings.Join(c07srcs(sigIn), ", "), params, rec, lits)
	}
	in := map[string]any{"stream": "negative-zero", "signature": c07sigString(sig), "args": c07valStrings(args), "script": src}
	j.evals += 2
	j.tick("N")
	j.dist = append(j.dist, "N|"+c07sigString(sig)+"|"+c07valStrings(args))
	bound := c07nativeList(args, env)
	// native call: exact
	run := c07new(nil)
	run.eval(src, h.timeout)
	fv := run.eval("F", h.timeout)
	run.guard(h.timeout, func() {
		inv := make([]reflect.Value, len(args))
		for i, v := range args {
			inv[i] = v.toReflect(env, 0)
		}
		fv.Call(inv)
	})
	r1 := run.evalString("Rec", h.timeout)
	ca := &c07case{Kind: "args", Dir: "H2S", Sig: sig, Mode: "plain", Shape: "negzero", Ts: sigIn, Sent: args, Ref: bound, Input: in}
	if run.failed != "" {
		ca.Impl = c07badList(sigIn, run.failed)
	} else {
		ca.Impl = c07parseList(sigIn, r1)
	}
	j.add(ca)
	// the same call inside the script
	ref := c07new(nil)
	ref.eval(src, h.timeout)
	ref.eval("Ref()", h.timeout)
	r2 := ref.evalString("Rec", h.timeout)
	region := "negzero"
	if closure {
		region = ""
	}
	sa := &c07case{Kind: "args", Dir: "S2S", Sig: sig, Mode: "plain", Shape: "negzero", FuncV: closure, Ts: sigIn, Sent: args, Ref: bound, Region: region, Input: in}
	if ref.failed != "" {
		sa.Impl = c07badList(sigIn, ref.failed)
	} else {
		sa.Impl = c07parseList(sigIn, r2)
	}
	j.add(sa)
}

// ---------------------------------------------------------------- I: interpreted types handed to the standard library as host interfaces
// The same program is run by yaegi and compiled by the Go toolchain; stdout and the way it ends must agree.

type c07prog struct {
	name, kind, src, region string
	pinned                  string // region programs: the exact (defective) outcome the model of the wrappers predicts
}

func c07ifacePrograms(r *rng, n int) []c07prog {
	vg := &c07vgen{r: r, probe: true}
	word := func() string {
		w := []string{"pear", "fig", "banana", "kiwi", "apple", "cherry", "date", "elderberry", "grape", "lime"}
		return w[r.intn(len(w))]
	}
	ints := func(k int) string {
		var l []string
		for i := 0; i < k; i++ {
			l = append(l, fmt.Sprint(r.intn(200)-100))
		}
		return strings.Join(l, ", ")
	}
	words := func(k int) string {
		var l []string
		for i := 0; i < k; i++ {
			l = append(l, fmt.Sprintf("%q", word()))
		}
		return strings.Join(l, ", ")
	}
	_ = vg
	var out []c07prog
	add := func(kind, region, src string) {
		out = append(out, c07prog{name: fmt.Sprintf("p%03d", len(out)), kind: kind, region: region, src: src})
	}
	for i := 0; i < n; i++ {
		a, b := r.intn(1000), word()
		// Stringer (value and pointer receivers) through fmt verbs and as fmt.Stringer values
		add("stringer", "", fmt.Sprintf(`package main

import "fmt"

type T struct {
	A int
	B string
}

func (t T) String() string { return fmt.Sprintf("T<%%d:%%s>", t.A, t.B) }

type U struct{ N int }

func (u *U) String() string { return fmt.Sprint("U#", u.N) }

func main() {
	t := T{%d, %q}
	u := &U{%d}
	fmt.Println(t)
	fmt.Println(&t, u)
	fmt.Printf("%%v|%%s|%%d\n", t, t, t.A)
	s := fmt.Sprint(t, " ", u)
	fmt.Println(len(s), s)
	var st fmt.Stringer = t
	fmt.Println(st.String(), st)
	l := []fmt.Stringer{t, u}
	for _, x := range l {
		fmt.Println(x.String())
	}
	fmt.Println(fmt.Sprintf("%%v", l))
}
`, a, b, r.intn(100)))
		// error types: Error, errors.Is / As / Unwrap, wrapping with %w
		add("error", "", fmt.Sprintf(`package main

import (
	"errors"
	"fmt"
)

type MyErr struct{ Code int }

func (e *MyErr) Error() string { return fmt.Sprint("myerr ", e.Code) }

type ValErr struct{ Msg string }

func (e ValErr) Error() string { return "valerr " + e.Msg }

var sentinel = errors.New("sentinel")

func f(k int) error {
	switch k %% 4 {
	case 0:
		return nil
	case 1:
		return &MyErr{k}
	case 2:
		return ValErr{%q}
	}
	return fmt.Errorf("wrapped: %%w", sentinel)
}

func main() {
	for k := %d; k < %d; k++ {
		err := f(k)
		if err == nil {
			fmt.Println(k, "nil")
			continue
		}
		fmt.Println(k, err.Error())
		me, ok := err.(*MyErr)
		fmt.Println(ok, ok && me.Code == k)
		fmt.Println(errors.Is(err, sentinel), errors.Unwrap(err) == sentinel)
		w := fmt.Errorf("ctx %%d: %%w", k, err)
		fmt.Println(w.Error(), errors.Is(w, sentinel), errors.Unwrap(w).Error())
	}
}
`, b, a%8, a%8+5))
		// corpus (repaired by abe7a69): a deferred host call that calls back a closure held in a variable
		add("defer-callback", "", fmt.Sprintf(`package main

import (
	"fmt"
	"sort"
	"strings"
)

func main() {
	xs := []int{%s}
	func() {
		var less func(i, j int) bool = func(i, j int) bool { return xs[i] < xs[j] }
		defer sort.Slice(xs, less)
	}()
	fmt.Println(xs)
	w := []string{%s}
	func() {
		fs := []func(rune) rune{func(c rune) rune { return c + 1 }}
		defer func() { w[0] = strings.Map(fs[0], w[0]) }()
		up := strings.ToUpper
		defer fmt.Println(strings.Map(fs[0], w[1]), up(w[2]))
	}()
	fmt.Println(w)
}
`, ints(6), words(3)))
		add("sort", "", fmt.Sprintf(`package main

import (
	"fmt"
	"sort"
)

type byLen []string

func (s byLen) Len() int           { return len(s) }
func (s byLen) Less(i, j int) bool { return len(s[i]) < len(s[j]) || len(s[i]) == len(s[j]) && s[i] < s[j] }
func (s byLen) Swap(i, j int)      { s[i], s[j] = s[j], s[i] }

type pairs struct {
	k []int
	v []string
	n int
}

func (p *pairs) Len() int           { return len(p.k) }
func (p *pairs) Less(i, j int) bool { p.n++; return p.k[i] < p.k[j] }
func (p *pairs) Swap(i, j int)      { p.k[i], p.k[j] = p.k[j], p.k[i]; p.v[i], p.v[j] = p.v[j], p.v[i] }

func main() {
	w := []string{%s}
	sort.Sort(byLen(w))
	fmt.Println(w, sort.IsSorted(byLen(w)))
	sort.Sort(sort.Reverse(byLen(w)))
	fmt.Println(w)
	p := &pairs{k: []int{%s}, v: []string{%s}}
	sort.Stable(p)
	fmt.Println(p.k, p.v, p.n > 0)
	x := []int{%s}
	sort.Slice(x, func(i, j int) bool { return x[i] > x[j] })
	fmt.Println(x, sort.SearchInts([]int{1, 3, 5, 7}, %d))
}
`, words(6+r.intn(4)), ints(5), words(5), ints(7), r.intn(9)))
		// io.Reader / io.Writer
		add("io", "", fmt.Sprintf(`package main

import (
	"bufio"
	"fmt"
	"io"
	"strings"
)

type rd struct {
	data []byte
	pos  int
	max  int
}

func (r *rd) Read(p []byte) (int, error) {
	if r.pos >= len(r.data) {
		return 0, io.EOF
	}
	n := copy(p, r.data[r.pos:])
	if n > r.max {
		n = r.max
	}
	r.pos += n
	return n, nil
}

type wr struct {
	buf   []byte
	calls int
}

func (w *wr) Write(p []byte) (int, error) {
	w.calls++
	w.buf = append(w.buf, p...)
	return len(p), nil
}

type up struct{ w io.Writer }

func (u up) Write(p []byte) (int, error) { return u.w.Write([]byte(strings.ToUpper(string(p)))) }

func main() {
	text := %q
	r := &rd{data: []byte(text), max: %d}
	w := &wr{}
	n, err := io.Copy(w, r)
	fmt.Println(n, err, string(w.buf), w.calls > 0)
	r2 := &rd{data: []byte(text), max: 3}
	b, err := io.ReadAll(r2)
	fmt.Println(string(b), err)
	r3 := &rd{data: []byte("l1\nl2\nl3"), max: 2}
	sc := bufio.NewScanner(r3)
	for sc.Scan() {
		fmt.Println("line", sc.Text())
	}
	w2 := &wr{}
	fmt.Fprintf(w2, "%%d-%%s", %d, "x")
	fmt.Fprint(up{w2}, " shout")
	fmt.Println(string(w2.buf))
	var wi io.Writer = w2
	io.WriteString(wi, "!")
	fmt.Println(string(w2.buf), w2.calls)
}
`, word()+" "+word()+" "+word()+" "+word(), 1+r.intn(7), a))
		// container/heap + flag.Value-like + callbacks through strings.Map / sort.Search
		add("heap", "", fmt.Sprintf(`package main

import (
	"container/heap"
	"fmt"
	"strings"
)

type ih []int

func (h ih) Len() int            { return len(h) }
func (h ih) Less(i, j int) bool  { return h[i] < h[j] }
func (h ih) Swap(i, j int)       { h[i], h[j] = h[j], h[i] }
func (h *ih) Push(x interface{}) { *h = append(*h, x.(int)) }
func (h *ih) Pop() interface{} {
	o := *h
	n := len(o)
	x := o[n-1]
	*h = o[:n-1]
	return x
}

func main() {
	h := &ih{%s}
	heap.Init(h)
	heap.Push(h, %d)
	var out []int
	for h.Len() > 0 {
		out = append(out, heap.Pop(h).(int))
	}
	fmt.Println(out)
	k := %d
	fmt.Println(strings.Map(func(c rune) rune {
		if c == 'a' {
			return 'A' + rune(k%%3)
		}
		return c
	}, %q))
	fmt.Println(strings.FieldsFunc(%q, func(c rune) bool { return c == 'e' || c == ' ' }))
}
`, ints(6), r.intn(100)-50, a, word()+word(), word()+" "+word()))
	}
	return out
}

func (h *c07h) runIfacePrograms(j *c07job, progs []c07prog) {
	var gp []goProg
	for _, p := range progs {
		gp = append(gp, goProg{Name: p.name, Files: map[string]string{"main.go": p.src}})
	}
	ref, err := goRefBatch(gp, 20e9, false)
	impl := make([]outcome, len(progs))
	parallelMap(len(progs), 0, func(i int) { impl[i] = runYaegi(progs[i].src, yaegiOpts{Timeout: 10e9}) })
	for i, p := range progs {
		j.evals++
		j.refs++
		j.tick("I:" + p.kind)
		j.dist = append(j.dist, "I|"+p.src)
		var ro outcome
		if err != nil {
			ro = outcome{End: "reference-build-failed:" + firstLine(err.Error())}
		} else {
			ro = ref[p.name]
		}
		if impl[i].String() != ro.String() {
			region := p.region
			if region != "" && impl[i].String() != p.pinned {
				region = "" // not the defect the finding describes
			}
			j.other = append(j.other, refMismatch{Region: region, Input: map[string]any{"stream": "script-type-as-host-interface", "kind": p.kind, "program": p.src},
				Impl: impl[i], Ref: ro})
		}
	}
}

// ---------------------------------------------------------------- W: what the host can see of a script value handed to it as an interface

type c07wrapCase struct {
	ID        int
	pkind     string   // PErrorParam | PStringerParam | PAnyParam
	methods   []string // methods of the script type
	probe     string   // "Error" | "Unwrap" | "String" | "comparable"
	impl, ref bool
	region    string
	input     map[string]any
}

// c07probeValue reports what native code can find out about a received interface value.
func c07probeValue(v interface{}) map[string]bool {
	m := map[string]bool{}
	if v == nil {
		return m
	}
	_, m["Error"] = v.(interface{ Error() string })
	_, m["Unwrap"] = v.(interface{ Unwrap() error })
	_, m["String"] = v.(interface{ String() string })
	m["comparable"] = reflect.TypeOf(v).Comparable()
	return m
}

func (h *c07h) runWrap(j *c07job, r *rng, pkind string, mask int, ptrRecv bool) {
	all := []string{"Error", "Unwrap", "String"}
	var methods []string
	for i, m := range all {
		if mask&(1<<i) != 0 {
			methods = append(methods, m)
		}
	}
	msg := (&c07vgen{r: r, probe: true}).str()
	recv := "t T"
	lit := fmt.Sprintf("T{Msg: %q}", msg)
	if ptrRecv {
		recv = "t *T"
		lit = "&" + lit
	}
	var b strings.Builder
	b.WriteString("type T struct {\n\tMsg   string\n\tInner error\n}\n")
	for _, m := range methods {
		switch m {
		case "Error":
			fmt.Fprintf(&b, "func (%s) Error() string { return \"E:\" + t.Msg }\n", recv)
		case "Unwrap":
			fmt.Fprintf(&b, "func (%s) Unwrap() error { return t.Inner }\n", recv)
		case "String":
			fmt.Fprintf(&b, "func (%s) String() string { return \"S:\" + t.Msg }\n", recv)
		}
	}
	fn := map[string]string{"PErrorParam": "ProbeErr", "PStringerParam": "ProbeStr", "PAnyParam": "ProbeAny"}[pkind]
	fmt.Fprintf(&b, "func Run() {\n\tv := %s\n\thost.%s(v)\n}\n", lit, fn)
	src := c07prelude + b.String()
	var seen map[string]bool
	var text string
	rec := func(v interface{}) {
		seen = c07probeValue(v)
		switch x := v.(type) {
		case error:
			text = x.Error()
		case fmt.Stringer:
			text = x.String()
		}
	}
	run := c07new(map[string]reflect.Value{
		"ProbeErr": reflect.ValueOf(func(e error) { rec(e) }),
		"ProbeStr": reflect.ValueOf(func(e fmt.Stringer) { rec(e) }),
		"ProbeAny": reflect.ValueOf(func(e interface{}) { rec(e) }),
	})
	run.eval(src, h.timeout)
	run.eval("Run()", h.timeout)
	j.evals++
	j.tick("W:" + pkind)
	j.dist = append(j.dist, fmt.Sprint("W|", pkind, methods, ptrRecv, msg))
	in := map[string]any{"stream": "script-value-as-host-interface", "param": pkind, "methods": strings.Join(methods, ","), "pointer-receiver": ptrRecv, "script": src}
	if run.failed != "" || seen == nil {
		j.other = append(j.other, refMismatch{Input: in, Impl: "failed: " + run.failed, Ref: "the host function is called"})
		return
	}
	// the method the parameter's interface itself has must work
	wantText := map[string]string{"PErrorParam": "E:" + msg, "PStringerParam": "S:" + msg, "PAnyParam": ""}[pkind]
	if text != wantText {
		j.other = append(j.other, refMismatch{Input: in, Impl: text, Ref: wantText})
	}
	has := func(m string) bool {
		for _, x := range methods {
			if x == m {
				return true
			}
		}
		return false
	}
	wrapped := pkind != "PAnyParam"
	ifaceM := map[string]string{"PErrorParam": "Error", "PStringerParam": "String", "PAnyParam": ""}[pkind]
	for _, q := range []string{"Error", "Unwrap", "String", "comparable"} {
		c := &c07wrapCase{pkind: pkind, methods: methods, probe: q, impl: seen[q], input: in}
		if q == "comparable" {
			c.ref = true
			if wrapped {
				c.region = "iface-uncomparable"
			}
		} else {
			c.ref = has(q)
			if has(q) && !(wrapped && q == ifaceM) {
				c.region = "iface-method-hidden"
			}
		}
		j.wraps = append(j.wraps, c)
	}
}

func c07srcs(ts []*c07t) []string {
	out := make([]string, len(ts))
	for i, t := range ts {
		out[i] = t.src()
	}
	return out
}
