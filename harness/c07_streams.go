package main

func (h *c07h) finish(out string, jobs []*c07job) error { return nil }

func (h *c07h) extraJobs(root *rng, tier string, jobs *[]*c07job) {}
