package main

// C08, worker-start matrix: HOW the N goroutines are started x WHAT KIND of element each one works on.
//
//	start forms: go work(el) with arguments; go func(e T){..}(el) literal with argument;
//	             go func(){..}() capturing the range KEY, the range VALUE, a 3-clause loop variable,
//	             a body-local := copy of the range value
//	element kinds: int id, struct value, pointer to struct, slice, map, channel, func
//
// Every goroutine derives (id, base) from ITS element, computes the operand family's figure
// (sum over x=1..K of (base+x)%1009, closed form Conc/Model.v g_ops) and stores it in res[id]; for the
// reference kinds it also writes into its element, and main checks afterwards that each element holds its own
// figure. A goroutine that sees another iteration's element (a loop variable that is not per iteration, a closure
// frame that aliases the spawner's slot, arguments that are not copied) leaves some res[id] at 0, puts another
// worker's figure there, or blocks. A start barrier keeps the goroutines waiting until the loop is over.
// Compiled Go (go >= 1.22: per-iteration loop variables) has exactly one output.

type c08kind struct {
	Name    string
	Type    string // element type
	Decls   string
	Mk      string // statements building pool []Type with @N@ elements
	Extract string // from el: defines id and base
	Store   string // extra write into the element (s holds the figure)
	After   string // check after wg.Wait(); must set res[i] = -1 on disagreement
	ByIndex bool   // "for _, el := range pool" is unusable for this kind on the unchanged tree: iterate by index
}

var c08Kinds = []c08kind{
	{Name: "int", Type: "int",
		Mk:      "pool := make([]int, @N@)\n\tfor i := range pool {\n\t\tpool[i] = i\n\t}",
		Extract: "id := el\n\t\tbase := id*@A@ + @B@"},
	{Name: "struct", Type: "item", Decls: "type item struct{ id, base, sum int }",
		Mk:      "pool := make([]item, @N@)\n\tfor i := range pool {\n\t\tpool[i].id = i\n\t\tpool[i].base = i*@A@ + @B@\n\t}",
		Extract: "id := el.id\n\t\tbase := el.base"},
	{Name: "ptr", Type: "*item", Decls: "type item struct{ id, base, sum int }",
		Mk:      "pool := make([]*item, @N@)\n\tfor i := range pool {\n\t\tpool[i] = new(item)\n\t\tpool[i].id = i\n\t\tpool[i].base = i*@A@ + @B@\n\t}",
		Extract: "id := el.id\n\t\tbase := el.base",
		Store:   "el.sum += s",
		After:   "for i := range pool {\n\t\tif pool[i].sum != res[i] {\n\t\t\tres[i] = -1\n\t\t}\n\t}"},
	{Name: "slice", Type: "[]int",
		Mk:      "pool := make([][]int, @N@)\n\tfor i := range pool {\n\t\tpool[i] = make([]int, 3)\n\t\tpool[i][0] = i\n\t\tpool[i][1] = i*@A@ + @B@\n\t}",
		Extract: "id := el[0]\n\t\tbase := el[1]",
		Store:   "el[2] += s",
		After:   "for i := range pool {\n\t\tif pool[i][2] != res[i] {\n\t\t\tres[i] = -1\n\t\t}\n\t}"},
	{Name: "map", Type: "map[string]int",
		Mk:      "pool := make([]map[string]int, @N@)\n\tfor i := range pool {\n\t\tpool[i] = make(map[string]int)\n\t\tpool[i][\"id\"] = i\n\t\tpool[i][\"base\"] = i*@A@ + @B@\n\t}",
		Extract: "id := el[\"id\"]\n\t\tbase := el[\"base\"]",
		Store:   "el[\"sum\"] += s",
		After:   "for i := range pool {\n\t\tif pool[i][\"sum\"] != res[i] {\n\t\t\tres[i] = -1\n\t\t}\n\t}"},
	{Name: "chan", Type: "chan int", ByIndex: true, // for _, c := range []chan int: host panic "reflect.Value.Len on int Value" (sequential)
		Mk:      "pool := make([]chan int, @N@)\n\tfor i := range pool {\n\t\tpool[i] = make(chan int, 3)\n\t\tpool[i] <- i\n\t\tpool[i] <- i*@A@ + @B@\n\t}",
		Extract: "id := <-el\n\t\tbase := <-el",
		Store:   "el <- s",
		After:   "for i := range pool {\n\t\tif <-pool[i] != res[i] {\n\t\t\tres[i] = -1\n\t\t}\n\t}"},
	{Name: "func", Type: "func() (int, int)",
		Decls:   "func mkel(i int) func() (int, int) {\n\treturn func() (int, int) { return i, i*@A@ + @B@ }\n}",
		Mk:      "pool := make([]func() (int, int), @N@)\n\tfor i := range pool {\n\t\tpool[i] = mkel(i)\n\t}",
		Extract: "id, base := el()"},
}

// the goroutine's work on el (two tabs deep)
func (k c08kind) work() string {
	w := k.Extract + "\n\t\ts := 0\n\t\tfor x := 1; x <= @K@; x++ {\n\t\t\ts += (base + x) % 1009\n\t\t}\n"
	if k.Store != "" {
		w += "\t\t" + k.Store + "\n"
	}
	return w + "\t\tres[id] = s"
}

// loop header giving el; by index for the kinds whose range-value loop is unusable
func (k c08kind) rangeValue() string {
	if k.ByIndex {
		return "for i := range pool {\n\t\tel := pool[i]\n"
	}
	return "for _, el := range pool {\n"
}

type c08startForm struct {
	Name  string
	Spawn func(k c08kind) (decls, spawn string)
}

var c08StartForms = []c08startForm{
	{"args", func(k c08kind) (string, string) { // go work(el, ...) : named function, arguments
		return "func work(el " + k.Type + ", start chan bool, res []int, wg *sync.WaitGroup) {\n\tdefer wg.Done()\n\t<-start\n\tfor once := true; once; once = false {\n\t\t" + k.work() + "\n\t}\n}",
			k.rangeValue() + "\t\twg.Add(1)\n\t\tgo work(el, start, res, &wg)\n\t}"
	}},
	{"litarg", func(k c08kind) (string, string) { // go func(el T){...}(el)
		return "", k.rangeValue() + "\t\twg.Add(1)\n\t\tgo func(el " + k.Type + ") {\n\t\tdefer wg.Done()\n\t\t<-start\n\t\t" + k.work() + "\n\t\t}(el)\n\t}"
	}},
	{"capkey", func(k c08kind) (string, string) { // closure capturing the range key
		return "", "for i := range pool {\n\t\twg.Add(1)\n\t\tgo func() {\n\t\tdefer wg.Done()\n\t\t<-start\n\t\tel := pool[i]\n\t\t" + k.work() + "\n\t\t}()\n\t}"
	}},
	{"capval", func(k c08kind) (string, string) { // closure capturing the range value
		return "", "for _, el := range pool {\n\t\twg.Add(1)\n\t\tgo func() {\n\t\tdefer wg.Done()\n\t\t<-start\n\t\t" + k.work() + "\n\t\t}()\n\t}"
	}},
	{"capfor", func(k c08kind) (string, string) { // closure capturing a 3-clause loop variable
		return "", "for i := 0; i < len(pool); i++ {\n\t\twg.Add(1)\n\t\tgo func() {\n\t\tdefer wg.Done()\n\t\t<-start\n\t\tel := pool[i]\n\t\t" + k.work() + "\n\t\t}()\n\t}"
	}},
	{"caplocal", func(k c08kind) (string, string) { // closure capturing a body-local copy of the range value
		return "", "for _, v := range pool {\n\t\tel := v\n\t\twg.Add(1)\n\t\tgo func() {\n\t\tdefer wg.Done()\n\t\t<-start\n\t\t" + k.work() + "\n\t\t}()\n\t}"
	}},
}

// cells where the unchanged tree disagrees with compiled Go for a reason that is not C08's
// (verified cell by cell on the unchanged tree; the label names the region of the owning property)
var c08StartSkip = map[string]string{
	// for _, c := range []chan int panics in the host on the unchanged tree ("reflect.Value.Len on int Value"):
	// a sequential defect of range (C01's domain), not a loop-variable or concurrency finding
	"start-capval-chan":   "C01:range-over-slice-of-channels",
	"start-caplocal-chan": "C01:range-over-slice-of-channels",
}

func init() {
	for _, f := range c08StartForms {
		for _, k := range c08Kinds {
			decls, spawn := f.Spawn(k)
			d := k.Decls
			if decls != "" {
				if d != "" {
					d += "\n"
				}
				d += decls
			}
			name := "start-" + f.Name + "-" + k.Name
			c08Ops = append(c08Ops, c08opsTpl{
				Name:  name,
				Decls: d,
				Prep:  k.Mk + "\n\tstart := make(chan bool)",
				Spawn: spawn,
				Post:  "close(start)",
				After: k.After,
				Skip:  c08StartSkip[name],
			})
		}
	}
}
