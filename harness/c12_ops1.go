package main

import (
	"go/ast"
	"go/token"
	"go/types"
	"strings"
)

// operators 1-7, 12: binary expressions
func (m *c12mctx) opBinary(x *ast.BinaryExpr) {
	tx, ty := m.typeOf(x.X), m.typeOf(x.Y)
	if tx == nil || ty == nil {
		return
	}
	op := x.Op
	opFrom := m.off(x.OpPos)
	opTo := opFrom + len(op.String())
	arith := op == token.ADD || op == token.SUB || op == token.MUL || op == token.QUO || op == token.REM
	bitw := op == token.AND || op == token.OR || op == token.XOR || op == token.AND_NOT
	cmp := op == token.EQL || op == token.NEQ || op == token.LSS || op == token.LEQ || op == token.GTR || op == token.GEQ
	shift := op == token.SHL || op == token.SHR
	logic := op == token.LAND || op == token.LOR

	// 1: int operand -> string literal; 2: -> another integer kind
	if (arith || bitw || cmp) && c12isIntT(tx) && c12isIntT(ty) {
		for _, side := range []ast.Expr{x.X, x.Y} {
			m.replace("01-operand-string/"+op.String(), side, `"zz"`)
			st := m.typeOf(side)
			if !c12isUntypedT(st) {
				other := "int8"
				if b, ok := st.Underlying().(*types.Basic); ok && b.Kind() == types.Int8 {
					other = "uint16"
				}
				m.replace("02-operand-otherint/"+op.String(), side, other+"("+m.text(side)+")")
			}
		}
	}
	// also float and string operands against a literal of the wrong kind
	if (arith || cmp) && c12isFloatT(tx) && c12isFloatT(ty) {
		m.replace("01-operand-string-float/"+op.String(), x.Y, `"zz"`)
	}
	if (op == token.ADD || cmp) && isStringT(tx) && isStringT(ty) {
		m.replace("01-operand-int-string/"+op.String(), x.Y, "12345")
	}
	// 3: % & | ^ &^ on floats
	if arith && op != token.REM && c12isFloatT(tx) && c12isFloatT(ty) && !(m.isConst(x.X) && m.isConst(x.Y)) {
		for _, bad := range []string{"%", "&", "|", "^", "&^"} {
			m.splice("03-intop-on-float/"+bad, opFrom, opTo, bad)
		}
	}
	// - * / on strings
	if op == token.ADD && isStringT(tx) && isStringT(ty) {
		for _, bad := range []string{"-", "*", "/", "%", "&&"} {
			m.splice("03-numop-on-string/"+bad, opFrom, opTo, bad)
		}
	}
	// 4: + on bools
	if logic {
		for _, bad := range []string{"+", "-", "*", "&", "|"} {
			m.splice("04-numop-on-bool/"+bad, opFrom, opTo, bad)
		}
	}
	// && on ints
	if (arith || bitw) && c12isIntT(tx) && c12isIntT(ty) {
		m.splice("04-logic-on-int/&&", opFrom, opTo, "&&")
	}
	// 6: shifts
	if shift {
		m.replace("06-shift-of-float/lit", x.X, "1.5")
		if !c12isUntypedT(tx) {
			m.replace("06-shift-of-float/conv", x.X, "float64("+m.text(x.X)+")")
		}
		m.replace("06-shift-of-string", x.X, `"zz"`)
		m.replace("06-shift-count-string", x.Y, `"2"`)
		m.replace("06-shift-count-float/lit", x.Y, "2.5")
		if !c12isUntypedT(ty) {
			m.replace("06-shift-count-float/conv", x.Y, "float64("+m.text(x.Y)+")")
		}
		m.replace("06-shift-count-negative", x.Y, "-1")
	}
	if arith && c12isIntT(tx) && c12isIntT(ty) && !c12isUntypedT(tx) && op != token.REM && op != token.QUO {
		// turn an arithmetic operator into a shift by a float
		m.splice("06-shift-count-float/op", opFrom, m.off(x.Y.End()), "<< 2.5")
	}
	// 7: comparisons
	if (op == token.EQL || op == token.NEQ) && !c12isUntypedT(tx) {
		c := c12class(tx)
		switch c {
		case "bool", "Nbool", "struct", "ptr", "iface", "eface", "map", "slice", "func", "chan":
			if c12class(ty) != "nil" {
				m.splice("07-order-on-"+c, opFrom, opTo, "<")
			} else {
				m.splice("07-order-on-"+c+"-nil", opFrom, opTo, "<")
			}
		}
	}
	if op == token.EQL || op == token.NEQ {
		// len(a) == len(b) -> a == b for slices, maps
		cx, okx := x.X.(*ast.CallExpr)
		cy, oky := x.Y.(*ast.CallExpr)
		if okx && oky && len(cx.Args) == 1 && len(cy.Args) == 1 {
			if fx, ok := cx.Fun.(*ast.Ident); ok && fx.Name == "len" {
				if fy, ok := cy.Fun.(*ast.Ident); ok && fy.Name == "len" {
					ta, tb := m.typeOf(cx.Args[0]), m.typeOf(cy.Args[0])
					m.replace("07-eq-on-"+c12class(ta)+"-"+c12class(tb), x, m.text(cx.Args[0])+" "+op.String()+" "+m.text(cy.Args[0]))
					m.replace("07-eq-on-"+c12class(ta)+"-"+c12class(ta), x, m.text(cx.Args[0])+" "+op.String()+" "+m.text(cx.Args[0]))
				}
			}
		}
	}
	if cmp && !c12isUntypedT(tx) && !c12isUntypedT(ty) {
		if sib := c12sibling(tx); sib != "" {
			m.replace("07-cmp-mismatched-named/"+op.String(), x.X, sib+"("+m.text(x.X)+")")
		}
	}
	if (arith || bitw) && !c12isUntypedT(tx) && !c12isUntypedT(ty) {
		if sib := c12sibling(tx); sib != "" {
			m.replace("02-operand-othernamed/"+op.String(), x.X, sib+"("+m.text(x.X)+")")
		}
	}
	// 12: constant division by zero
	if op == token.QUO || op == token.REM {
		if m.isConst(x.Y) {
			m.replace("12-const-div-zero/"+op.String()+"/"+c12class(tx), x.Y, "0")
			if c12isFloatT(tx) {
				m.replace("12-const-div-zero/"+op.String()+"/"+c12class(tx)+"/0.0", x.Y, "0.0")
			}
		}
	}
}

// named types with an identical underlying type (operators 7, 8)
func c12sibling(t types.Type) string {
	n, ok := t.(*types.Named)
	if !ok {
		return ""
	}
	switch n.Obj().Name() {
	case "MyInt":
		return "Other"
	case "Other":
		return "MyInt"
	case "Temp":
		return "Heat"
	case "Label":
		return "Title"
	case "Point":
		return "Point2"
	}
	return ""
}

// operator 5 and 30: unary expressions
func (m *c12mctx) opUnary(x *ast.UnaryExpr) {
	t := m.typeOf(x.X)
	if t == nil {
		return
	}
	from := m.off(x.OpPos)
	to := from + len(x.Op.String())
	switch x.Op {
	case token.SUB, token.ADD, token.XOR:
		if c12isIntT(t) {
			m.splice("05-not-on-int", from, to, "!")
		}
		if c12isFloatT(t) {
			m.splice("05-not-on-float", from, to, "!")
			m.splice("05-bitnot-on-float", from, to, "^")
		}
	case token.NOT:
		m.splice("05-neg-on-bool", from, to, "-")
		m.splice("05-bitnot-on-bool", from, to, "^")
	case token.AND:
		// 30: & of a non-addressable expression
		m.replace("30-addr-of-call", x.X, "add(1, 2)")
		m.replace("30-addr-of-literal", x.X, "5")
		m.replace("30-addr-of-sum", x.X, "(total + 1)")
		m.replace("30-addr-of-mapelem", x.X, `ages["x"]`)
	case token.ARROW:
		// 26: receive from a send-only channel
		if id, ok := x.X.(*ast.Ident); ok && strings.HasPrefix(id.Name, "ro") {
			m.replace("26-recv-from-sendonly", x.X, "so"+id.Name[2:])
		}
		m.replace("26-recv-from-nonchan", x.X, "total")
	}
}

// operators 5 (wrap), 17, 33: identifiers used as values
func (m *c12mctx) opIdent(id *ast.Ident) {
	obj := m.ck.Info.Uses[id]
	if obj == nil {
		return
	}
	p := m.parent(1)
	switch obj := obj.(type) {
	case *types.Var:
		if obj.IsField() {
			return
		}
		// not in l-value / address / key positions
		switch pp := p.(type) {
		case *ast.AssignStmt:
			for _, l := range pp.Lhs {
				if l == id {
					return
				}
			}
		case *ast.IncDecStmt, *ast.RangeStmt:
			return
		case *ast.UnaryExpr:
			if pp.Op == token.AND {
				return
			}
		case *ast.KeyValueExpr:
			if pp.Key == id {
				if _, isStruct := m.typeOf(m.parent(2).(ast.Expr)).Underlying().(*types.Struct); isStruct {
					return
				}
			}
		case *ast.SelectorExpr:
			if pp.Sel == id {
				return
			}
		}
		t := obj.Type()
		m.replace("17-undefined-var", id, "undefinedVar")
		m.replace("33-blank-as-value", id, "_")
		switch {
		case c12isIntT(t):
			m.replace("05-wrap-not-on-int", id, "!"+id.Name)
		case c12isFloatT(t):
			m.replace("05-wrap-bitnot-on-float", id, "^"+id.Name)
		case isStringT(t):
			m.replace("05-wrap-neg-on-string", id, "-"+id.Name)
		case isBoolT(t):
			m.replace("05-wrap-neg-on-bool", id, "-"+id.Name)
		default:
			m.replace("05-wrap-neg-on-"+c12class(t), id, "-"+id.Name)
		}
	case *types.Func:
		if sel, ok := p.(*ast.SelectorExpr); ok && sel.Sel == id {
			return
		}
		m.replace("17-undefined-func", id, "undefinedFunc")
	case *types.TypeName:
		if obj.Pkg() == nil {
			// universe type: only in a few positions, they are everywhere
			if _, ok := p.(*ast.CallExpr); !ok {
				if _, ok := p.(*ast.ValueSpec); !ok {
					return
				}
			}
		}
		m.replace("17-undefined-type", id, "UndefinedType")
	case *types.Const:
		if obj.Pkg() != nil {
			m.replace("17-undefined-const", id, "undefinedConst")
		}
	case *types.PkgName:
		m.replace("17-undefined-pkg", id, "undefinedpkg")
	}
}

// operator 21: conditions
func (m *c12mctx) opCond(kind string, c ast.Expr) {
	m.replace("21-cond-int/"+kind, c, "1")
	m.replace("21-cond-intvar/"+kind, c, "total")
	m.replace("21-cond-string/"+kind, c, `"true"`)
	m.replace("21-cond-call/"+kind, c, "single()")
	m.replace("21-cond-nil/"+kind, c, "nil")
}

// expectedType: the type the context requires of expression e (nil when the context imposes none
// or when it is not one of the modelled contexts); what names the context.
func (m *c12mctx) expectedType(e ast.Expr) (types.Type, string) {
	p := m.parent(1)
	switch pp := p.(type) {
	case *ast.AssignStmt:
		if pp.Tok != token.ASSIGN || len(pp.Lhs) != len(pp.Rhs) {
			return nil, ""
		}
		for i, r := range pp.Rhs {
			if r == e {
				if id, ok := pp.Lhs[i].(*ast.Ident); ok && id.Name == "_" {
					return nil, ""
				}
				what := "var"
				switch l := pp.Lhs[i].(type) {
				case *ast.SelectorExpr:
					what = "field"
				case *ast.IndexExpr:
					what = "elem-" + c12class(m.typeOf(l.X))
				case *ast.StarExpr:
					what = "pointee"
				}
				return m.typeOf(pp.Lhs[i]), "09-assign-" + what
			}
		}
	case *ast.ValueSpec:
		if pp.Type == nil || len(pp.Values) != len(pp.Names) {
			return nil, ""
		}
		for _, v := range pp.Values {
			if v == e {
				kind := "var"
				if gd, ok := m.parent(2).(*ast.GenDecl); ok && gd.Tok == token.CONST {
					kind = "const"
				}
				return m.typeOf(pp.Type), "09-decl-" + kind
			}
		}
	case *ast.CallExpr:
		if pp.Fun == e || pp.Ellipsis.IsValid() {
			return nil, ""
		}
		ft := m.typeOf(pp.Fun)
		sig, ok := ft.Underlying().(*types.Signature)
		if !ok || m.ck.Info.Types[pp.Fun].IsType() {
			return nil, ""
		}
		if _, isB := m.ck.Info.Uses[c12funIdent(pp.Fun)].(*types.Builtin); isB {
			return nil, ""
		}
		for i, a := range pp.Args {
			if a == e {
				kind := "src"
				if id := c12funIdent(pp.Fun); id != nil {
					if o := m.ck.Info.Uses[id]; o != nil && o.Pkg() != nil && o.Pkg().Name() != "main" {
						kind = "bin"
					}
				}
				if _, isLit := pp.Fun.(*ast.FuncLit); isLit {
					kind = "lit"
				}
				if s, ok := pp.Fun.(*ast.SelectorExpr); ok && kind == "src" {
					if m.ck.Info.Selections[s] != nil {
						kind = "method"
					}
				}
				n := sig.Params().Len()
				if sig.Variadic() && i >= n-1 {
					return sig.Params().At(n - 1).Type().(*types.Slice).Elem(), "14-arg-variadic-" + kind
				}
				if i < n {
					return sig.Params().At(i).Type(), "14-arg-" + kind
				}
			}
		}
	case *ast.ReturnStmt:
		sig := m.enclosingSig()
		if sig == nil || sig.Results().Len() != len(pp.Results) {
			return nil, ""
		}
		for i, r := range pp.Results {
			if r == e {
				return sig.Results().At(i).Type(), "15-result-type"
			}
		}
	case *ast.SendStmt:
		if pp.Value == e {
			if ch, ok := m.typeOf(pp.Chan).Underlying().(*types.Chan); ok {
				return ch.Elem(), "09-send-value"
			}
		}
	case *ast.CompositeLit:
		lt := m.typeOf(pp)
		if lt == nil || pp.Type == e {
			return nil, ""
		}
		switch u := lt.Underlying().(type) {
		case *types.Struct:
			for i, el := range pp.Elts {
				if el == e && i < u.NumFields() {
					return u.Field(i).Type(), "22-struct-field-type/positional"
				}
			}
		case *types.Slice:
			return u.Elem(), "23-elem-type/slice"
		case *types.Array:
			return u.Elem(), "23-elem-type/array"
		}
	case *ast.KeyValueExpr:
		lit, ok := m.parent(2).(*ast.CompositeLit)
		if !ok {
			return nil, ""
		}
		lt := m.typeOf(lit)
		if lt == nil {
			return nil, ""
		}
		switch u := lt.Underlying().(type) {
		case *types.Struct:
			if pp.Value == e {
				if k, ok := pp.Key.(*ast.Ident); ok {
					for i := 0; i < u.NumFields(); i++ {
						if u.Field(i).Name() == k.Name {
							return u.Field(i).Type(), "22-struct-field-type/keyed"
						}
					}
				}
			}
		case *types.Slice:
			if pp.Value == e {
				return u.Elem(), "23-elem-type/slice-keyed"
			}
		case *types.Array:
			if pp.Value == e {
				return u.Elem(), "23-elem-type/array-keyed"
			}
		case *types.Map:
			if pp.Value == e {
				return u.Elem(), "24-map-value-type"
			}
			return u.Key(), "24-map-key-type"
		}
	case *ast.IndexExpr:
		if pp.Index == e {
			if mt, ok := m.typeOf(pp.X).Underlying().(*types.Map); ok {
				return mt.Key(), "29-map-index-key-type"
			}
		}
	case *ast.CaseClause:
		if sw, ok := m.parent(3).(*ast.SwitchStmt); ok && sw.Tag != nil {
			for _, l := range pp.List {
				if l == e {
					return m.typeOf(sw.Tag), "07-case-type"
				}
			}
		}
	}
	return nil, ""
}

func c12funIdent(f ast.Expr) *ast.Ident {
	switch f := f.(type) {
	case *ast.Ident:
		return f
	case *ast.SelectorExpr:
		return f.Sel
	case *ast.ParenExpr:
		return c12funIdent(f.X)
	}
	return nil
}

func (m *c12mctx) enclosingSig() *types.Signature {
	for i := len(m.stack) - 1; i >= 0; i-- {
		switch f := m.stack[i].(type) {
		case *ast.FuncLit:
			if s, ok := m.typeOf(f).(*types.Signature); ok {
				return s
			}
			return nil
		case *ast.FuncDecl:
			if o := m.ck.Info.Defs[f.Name]; o != nil {
				return o.Type().(*types.Signature)
			}
			return nil
		}
	}
	return nil
}

// operators 8, 9, 11, 14, 15, 19, 22-24, 29 through the expected type of a context
func (m *c12mctx) opExpected(e ast.Expr) {
	want, what := m.expectedType(e)
	if want == nil {
		return
	}
	have := m.typeOf(e)
	cw := c12class(want)
	if repl, tag := c12wrongFor(want); repl != "" {
		m.replace(what+"/"+cw+"<-"+tag, e, repl)
	}
	if cw == "iface" {
		// 19: a type that lacks the methods / has them on the pointer receiver only
		m.replace(strings.Replace(what, what[:2], "19", 1)+"/iface<-ptrrecv-value", e, "Circle{1}")
		m.replace(strings.Replace(what, what[:2], "19", 1)+"/iface<-int", e, "5")
		m.replace(strings.Replace(what, what[:2], "19", 1)+"/iface<-partial", e, "Namer(unit)")
	}
	// 8: another named type with identical underlying type
	if have != nil && !c12isUntypedT(have) {
		if sib := c12sibling(have); sib != "" && types.Identical(have, want) {
			m.replace(strings.Replace(what, what[:2], "08", 1)+"/othernamed-"+c12class(have), e, sib+"("+m.text(e)+")")
		}
	}
	// unnamed int into a named int variable needs a conversion too
	if n, ok := want.(*types.Named); ok && c12isIntT(want) && n.Obj().Name() == "MyInt" {
		m.replace(strings.Replace(what, what[:2], "08", 1)+"/int-to-named", e, "total")
	}
	// 11: constants out of range for the typed destination
	if b, ok := want.Underlying().(*types.Basic); ok && m.isConst(e) {
		big := ""
		switch b.Kind() {
		case types.Int8:
			big = "200"
		case types.Uint8:
			big = "300"
		case types.Int16:
			big = "40000"
		case types.Uint16:
			big = "70000"
		case types.Int32:
			big = "3000000000"
		case types.Uint32:
			big = "5000000000"
		case types.Int, types.Int64:
			big = "10000000000000000000"
		case types.Uint, types.Uint64:
			big = "20000000000000000000"
		}
		if big != "" {
			m.replace(strings.Replace(what, what[:2], "11", 1)+"/overflow-"+b.Name(), e, big)
			m.replace(strings.Replace(what, what[:2], "11", 1)+"/truncated-"+b.Name(), e, "1.5")
			if b.Info()&types.IsUnsigned != 0 {
				m.replace(strings.Replace(what, what[:2], "11", 1)+"/negative-"+b.Name(), e, "-1")
			}
		}
		if b.Kind() == types.Float32 {
			m.replace(strings.Replace(what, what[:2], "11", 1)+"/overflow-float32", e, "1e100")
		}
	}
	// 10: nil where no nil is allowed
	switch cw {
	case "int", "Nint", "float", "string", "bool", "struct", "array":
		m.replace(strings.Replace(what, what[:2], "10", 1)+"/nil-to-"+cw, e, "nil")
	}
}
