package main

import (
	"fmt"
	"strings"
)

// C02, repeated evaluation inside ONE activation.  The result of an operator lives in a slot of the
// function frame, which is zeroed only when the frame is created.  A closure that forgets to write
// its slot on one path (a branch form that only stores `true`, say) is invisible when every
// evaluation runs in a fresh frame; it shows on the SECOND evaluation in the same frame.  So every
// operator family is also evaluated by a function that loops, in one activation, over a table of
// operand tuples whose values change between iterations, in every context that can sit in a loop body
// (assignment, definition, interface destination, call argument, package variable, op=, if / for /
// switch condition, operand of && and ||), and the && / || / ! operators with 2, 3 and 4 operands in
// every nesting; the whole sequence of results is compared with compiled Go.

// c02SeqBody: the statements of one iteration (x, y bound; ends with em(...)) and the declarations
// placed before the loop.
func c02SeqBody(ctx string, id int, R, K, op, E, Y string) (pre, body string, ok bool) {
	isBool := R == "bool"
	switch ctx {
	case "asg":
		return fmt.Sprintf("\tvar r %s\n", R), fmt.Sprintf("\t\tr = %s\n\t\tem(r)\n", E), true
	case "def":
		return "", fmt.Sprintf("\t\tr := %s\n\t\tem(r)\n", E), true
	case "ifc":
		return "", fmt.Sprintf("\t\tvar q interface{} = %s\n\t\tem(q)\n", E), true
	case "arg":
		return "", fmt.Sprintf("\t\tem(id_%s(%s))\n", R, E), true
	case "glob":
		return "", fmt.Sprintf("\t\tg%d = %s\n\t\tem(g%d)\n", id, E, id), true
	case "cmpd":
		return fmt.Sprintf("\tvar r %s\n", K), fmt.Sprintf("\t\tr = x\n\t\tr %s= %s\n\t\tem(r)\n", op, Y), true
	case "cmpd-map":
		return fmt.Sprintf("\tm := map[int]%s{}\n", K), fmt.Sprintf("\t\tm[0] = x\n\t\tm[0] %s= %s\n\t\tem(m[0])\n", op, Y), true
	case "cmpd-idx":
		return fmt.Sprintf("\ta := make([]%s, 1)\n", K), fmt.Sprintf("\t\ta[0] = x\n\t\ta[0] %s= %s\n\t\tem(a[0])\n", op, Y), true
	case "cmpd-fld":
		return fmt.Sprintf("\tvar t struct{ f %s }\n", K), fmt.Sprintf("\t\tt.f = x\n\t\tt.f %s= %s\n\t\tem(t.f)\n", op, Y), true
	case "cmpd-ptr":
		return fmt.Sprintf("\tvar r %s\n\tp := &r\n", K), fmt.Sprintf("\t\tr = x\n\t\t*p %s= %s\n\t\tem(r)\n", op, Y), true
	case "if":
		return "", fmt.Sprintf("\t\tif %s {\n\t\t\tem(true)\n\t\t} else {\n\t\t\tem(false)\n\t\t}\n", E), isBool
	case "for":
		return "", fmt.Sprintf("\t\tn := 0\n\t\tfor %s {\n\t\t\tn++\n\t\t\tbreak\n\t\t}\n\t\tem(n == 1)\n", E), isBool
	case "forpost":
		return "", fmt.Sprintf("\t\tn := 0\n\t\tfor k := 0; k < 2 && (%s); k++ {\n\t\t\tn++\n\t\t}\n\t\tem(n == 2)\n", E), isBool
	case "sw":
		return "", fmt.Sprintf("\t\tswitch {\n\t\tcase %s:\n\t\t\tem(true)\n\t\tdefault:\n\t\t\tem(false)\n\t\t}\n", E), isBool
	case "andl-if", "andr-if", "orl-if", "orr-if", "andl-v", "orr-v":
		c := map[string]string{"andl": E + " && yes", "andr": "yes && " + E, "orl": E + " || no", "orr": "no || " + E}[ctx[:strings.IndexByte(ctx, '-')]]
		if strings.HasSuffix(ctx, "-if") {
			return "", fmt.Sprintf("\t\tif %s {\n\t\t\tem(true)\n\t\t} else {\n\t\t\tem(false)\n\t\t}\n", c), isBool
		}
		return "", fmt.Sprintf("\t\tr := %s\n\t\tem(r)\n", c), isBool
	}
	return "", "", false
}

func c02SeqFunc(id int, gdecl, pre, bind, body string) string {
	return fmt.Sprintf("%sfunc q%d() {\n%s\tfor i := range @T0@ {\n%s%s\t}\n}\n", gdecl, id, pre, bind, body)
}

// seqLen: how many tuples one sequence site evaluates
func (g *c02Gen) seqLen() int {
	if g.tier == "thorough" {
		return 40
	}
	return 12
}

// seqPairs picks, by seed, a sequence of operand pairs: random pairs and pairs of equal operands
// (so that comparisons change their outcome between iterations); pairs on which Go panics are left out.
func (g *c02Gen) seqPairs(cat, op string, k *c02Kind, xs, ys []c02V, cv *c02V, constLeft bool, salt int) (ax, ay []c02V, exp []string) {
	r := newRng(g.seed*7919 + uint64(salt)*31 + uint64(len(op)))
	n := g.seqLen()
	for tries := 0; len(ax) < n && tries < 20*n; tries++ {
		var x, y c02V
		switch {
		case cv != nil && constLeft:
			x, y = *cv, ys[r.intn(len(ys))]
		case cv != nil:
			x, y = xs[r.intn(len(xs))], *cv
		default:
			x = xs[r.intn(len(xs))]
			y = ys[r.intn(len(ys))]
			if tries%3 == 2 && cat != "shift" && len(xs) == len(ys) {
				y = x // equal operands
			}
		}
		t := c02NativeBinary(cat, op, k, x, y)
		if strings.HasPrefix(t, "P:") {
			continue
		}
		if cv != nil && constLeft {
			ax = append(ax, y)
		} else {
			ax = append(ax, x)
		}
		ay = append(ay, y)
		exp = append(exp, t)
	}
	return
}

var c02SeqCtxVal = []string{"asg", "def", "ifc", "arg", "glob"}
var c02SeqCtxBool = []string{"asg", "def", "ifc", "arg", "if", "for", "forpost", "sw", "andl-if", "andr-if", "orl-if", "orr-if", "andl-v", "orr-v"}
var c02SeqCtxCmpd = []string{"cmpd", "cmpd-map", "cmpd-idx", "cmpd-fld", "cmpd-ptr"}

// seqBinary: the sequence twins of the binary sites of one (operator, kind): the two-variable form
// and one constant form rotated by the seed.
func (g *c02Gen) seqBinary(cat, op string, k, kc *c02Kind, xs, ys []c02V, withCmpd bool, forms []string, salt int) {
	R := k.Name
	isBool := cat == "cmp" || cat == "logic"
	if isBool {
		R = "bool"
	}
	yk := k
	if kc != nil {
		yk = kc
	}
	ctxs := c02SeqCtxVal
	if isBool {
		ctxs = c02SeqCtxBool
	}
	if withCmpd {
		ctxs = append(append([]string{}, ctxs...), c02SeqCtxCmpd...)
	}
	var constForms []string
	for _, f := range forms {
		if f != "vv" {
			constForms = append(constForms, f)
		}
	}
	use := []string{"vv"}
	if len(constForms) > 0 {
		use = append(use, constForms[(int(g.seed)+salt)%len(constForms)])
	}
	for _, form := range use {
		var cv *c02V
		constLeft := form[0] != 'v'
		if form != "vv" {
			var cvs []c02V
			if constLeft {
				cvs = g.constValues(xs, salt)
			} else {
				cvs = g.constValues(ys, salt+1)
			}
			for i := range cvs {
				if !((op == "/" || op == "%") && c02IsZero(cvs[i])) {
					cv = &cvs[i]
					break
				}
			}
			if cv == nil {
				continue
			}
		}
		for ci, ctx := range ctxs {
			isCmpd := strings.HasPrefix(ctx, "cmpd")
			if isCmpd && constLeft {
				continue
			}
			ax, ay, exp := g.seqPairs(cat, op, k, xs, ys, cv, constLeft, salt*17+ci)
			if len(ax) < 2 {
				continue
			}
			s := &c02Site{Cat: cat, Op: op, K: k, K2: kc, Form: form, Ctx: ctx, Const: cv, Xs: ax, ByIndex: true, Seq: true, Expect: exp}
			if cv == nil {
				s.Ys = ay
			}
			if k.Name == "complex64" && cv != nil {
				s.Region = "complex64-const"
			}
			g.nextID++
			s.ID = g.nextID
			cdecl, cexpr := "", ""
			if cv != nil {
				ck := cv.K
				switch form[strings.IndexAny(form, "lcuf")] {
				case 'f':
					cexpr = cv.lit() + ".0"
					if strings.HasPrefix(cexpr, "-") {
						cexpr = "(" + cexpr + ")"
					}
				case 'l':
					cexpr = cv.lit()
					if cat == "shift" && form == "lv" || ck.Class == "complex" {
						cexpr = fmt.Sprintf("%s(%s)", ck.Name, cv.lit())
					} else if strings.HasPrefix(cexpr, "-") {
						cexpr = "(" + cexpr + ")"
					}
				case 'c':
					cdecl = fmt.Sprintf("const c%d %s = %s\n\n", s.ID, ck.Name, cv.lit())
					cexpr = fmt.Sprintf("c%d", s.ID)
				case 'u':
					cdecl = fmt.Sprintf("const c%d = %s\n\n", s.ID, cv.lit())
					cexpr = fmt.Sprintf("c%d", s.ID)
				}
			}
			ex, ey, bind := "x", "y", "\t\tx, y := @T0@[i], @T1@[i]\n"
			switch {
			case cv != nil && constLeft:
				ex, bind = cexpr, "\t\ty := @T0@[i]\n"
			case cv != nil:
				ey, bind = cexpr, "\t\tx := @T0@[i]\n"
			}
			if isCmpd && cv == nil {
				bind = "\t\tx, y := @T0@[i], @T1@[i]\n"
			}
			pre, body, ok := c02SeqBody(ctx, s.ID, R, k.Name, op, fmt.Sprintf("%s %s %s", ex, op, ey), ey)
			if !ok {
				g.nextID--
				continue
			}
			if ctx == "glob" {
				cdecl += fmt.Sprintf("var g%d %s\n\n", s.ID, R)
			}
			_ = yk
			s.Decl = c02SeqFunc(s.ID, cdecl, pre, bind, body)
			s.Call = fmt.Sprintf("q%d()", s.ID)
			g.sites = append(g.sites, s)
		}
	}
}

// seqUnary: -x ^x +x !x, x++ x--, K2(x) evaluated repeatedly in one activation
func (g *c02Gen) seqUnary(k *c02Kind, xs []c02V, salt int) {
	r := newRng(g.seed*104729 + uint64(salt))
	pick := func() []c02V {
		var out []c02V
		for i := 0; i < g.seqLen(); i++ {
			out = append(out, xs[r.intn(len(xs))])
		}
		return out
	}
	mk := func(cat, op, ctx string, k2 *c02Kind, vals []c02V, exp []string, pre, body, gdecl string) {
		s := &c02Site{Cat: cat, Op: op, K: k, K2: k2, Form: "v", Ctx: ctx, Xs: vals, ByIndex: true, Seq: true, Expect: exp}
		g.nextID++
		s.ID = g.nextID
		body = strings.ReplaceAll(body, "@ID@", fmt.Sprint(s.ID))
		gdecl = strings.ReplaceAll(gdecl, "@ID@", fmt.Sprint(s.ID))
		s.Decl = c02SeqFunc(s.ID, gdecl, pre, "\t\tx := @T0@[i]\n", body)
		s.Call = fmt.Sprintf("q%d()", s.ID)
		if cat == "incdec" && k.Name == "uintptr" {
			s.Region = "uintptr-incdec"
		}
		g.sites = append(g.sites, s)
	}
	ops := []string{"-", "+"}
	if k.isInt() {
		ops = []string{"-", "^", "+"}
	}
	if k.Class == "bool" {
		ops = []string{"!"}
	}
	if k.Class == "string" {
		ops = nil
	}
	for _, op := range ops {
		ctxs := c02SeqCtxVal
		if k.Class == "bool" {
			ctxs = c02SeqCtxBool
		}
		for _, ctx := range ctxs {
			vals := pick()
			var exp []string
			for _, x := range vals {
				if k.Class == "bool" {
					exp = append(exp, c02Tok(!x.B))
				} else {
					exp = append(exp, c02OpsOf[k.Name].un(op, x))
				}
			}
			pre, body, ok := c02SeqBody(ctx, 0, k.Name, k.Name, op, op+"x", "")
			if !ok {
				continue
			}
			gdecl := ""
			if ctx == "glob" {
				gdecl = fmt.Sprintf("var g@ID@ %s\n\n", k.Name)
				body = strings.ReplaceAll(body, "g0", "g@ID@")
			}
			mk("un", op, ctx, nil, vals, exp, pre, body, gdecl)
		}
	}
	if k.Class == "int" || k.Class == "uint" || k.Class == "float" || k.Class == "complex" {
		for _, op := range []string{"++", "--"} {
			if k.Name == "uintptr" {
				continue // known finding: the function stops at the statement, a sequence shows nothing more
			}
			for _, ctx := range []string{"var", "map", "idx", "fld", "ptr"} {
				vals := pick()
				var exp []string
				for _, x := range vals {
					exp = append(exp, c02OpsOf[k.Name].incdec(op == "++", x))
				}
				var pre, body string
				switch ctx {
				case "var":
					pre, body = fmt.Sprintf("\tvar r %s\n", k.Name), fmt.Sprintf("\t\tr = x\n\t\tr%s\n\t\tem(r)\n", op)
				case "map":
					pre, body = fmt.Sprintf("\tm := map[int]%s{}\n", k.Name), fmt.Sprintf("\t\tm[0] = x\n\t\tm[0]%s\n\t\tem(m[0])\n", op)
				case "idx":
					pre, body = fmt.Sprintf("\ta := make([]%s, 1)\n", k.Name), fmt.Sprintf("\t\ta[0] = x\n\t\ta[0]%s\n\t\tem(a[0])\n", op)
				case "fld":
					pre, body = fmt.Sprintf("\tvar t struct{ f %s }\n", k.Name), fmt.Sprintf("\t\tt.f = x\n\t\tt.f%s\n\t\tem(t.f)\n", op)
				case "ptr":
					pre, body = fmt.Sprintf("\tvar r %s\n\tp := &r\n", k.Name), fmt.Sprintf("\t\tr = x\n\t\t(*p)%s\n\t\tem(r)\n", op)
				}
				mk("incdec", op, ctx, nil, vals, exp, pre, body, "")
			}
		}
	}
}

func (g *c02Gen) seqConv(from, to *c02Kind, xs []c02V, salt int) {
	r := newRng(g.seed*15485863 + uint64(salt))
	for _, ctx := range []string{"asg", "ifc", "arg"} {
		var vals []c02V
		var exp []string
		for tries := 0; len(vals) < g.seqLen() && tries < 200; tries++ {
			x := xs[r.intn(len(xs))]
			if t, ok := c02Conv(x, to); ok {
				vals, exp = append(vals, x), append(exp, t)
			}
		}
		if len(vals) < 2 {
			continue
		}
		pre, body, _ := c02SeqBody(ctx, 0, to.Name, to.Name, "", fmt.Sprintf("%s(x)", to.Name), "")
		s := &c02Site{Cat: "conv", Op: to.Name, K: from, K2: to, Form: "v", Ctx: ctx, Xs: vals, ByIndex: true, Seq: true, Expect: exp}
		g.nextID++
		s.ID = g.nextID
		s.Decl = c02SeqFunc(s.ID, "", pre, "\t\tx := @T0@[i]\n", body)
		s.Call = fmt.Sprintf("q%d()", s.ID)
		g.sites = append(g.sites, s)
	}
}

// ---------------------------------------------------------------- && || ! with 2, 3 and 4 operands, every nesting

type c02LTree struct {
	Op   string // "&&", "||", "" (leaf)
	L, R *c02LTree
	Leaf int  // index of the variable
	Neg  bool // leaf written as !v
}

func c02LTrees(n, first int) []*c02LTree {
	if n == 1 {
		return []*c02LTree{{Leaf: first}}
	}
	var out []*c02LTree
	for l := 1; l < n; l++ {
		for _, a := range c02LTrees(l, first) {
			for _, b := range c02LTrees(n-l, first+l) {
				for _, op := range []string{"&&", "||"} {
					out = append(out, &c02LTree{Op: op, L: a, R: b})
				}
			}
		}
	}
	return out
}

// render with the parentheses the shape requires (&& binds tighter than ||, both associate to the left)
func (t *c02LTree) render(neg map[int]bool) string {
	if t.Op == "" {
		v := string(rune('a' + t.Leaf))
		if neg[t.Leaf] {
			return "!" + v
		}
		return v
	}
	l, r := t.L.render(neg), t.R.render(neg)
	if t.L.Op != "" && t.L.Op != t.Op && t.Op == "&&" {
		l = "(" + l + ")"
	}
	if t.R.Op != "" && (t.R.Op == t.Op || t.Op == "&&") {
		r = "(" + r + ")"
	}
	return l + " " + t.Op + " " + r
}

func (t *c02LTree) eval(m int, neg map[int]bool) bool {
	if t.Op == "" {
		return (m>>t.Leaf&1 == 1) != neg[t.Leaf]
	}
	if t.Op == "&&" {
		return t.L.eval(m, neg) && t.R.eval(m, neg)
	}
	return t.L.eval(m, neg) || t.R.eval(m, neg)
}

// logicSites: each expression in a fresh activation per truth-table row (all rows) and as a
// sequence in one activation (all rows twice, in an order chosen by the seed).
func (g *c02Gen) logicSites() {
	intK := c02KindByName("int")
	decode := func(n int, ind string) string {
		var b strings.Builder
		for i := 0; i < n; i++ {
			fmt.Fprintf(&b, "%s%c := x>>%d&1 == 1\n", ind, 'a'+i, i)
		}
		return b.String()
	}
	r := newRng(g.seed*2654435761 + 99)
	idx := 0
	for n := 2; n <= 4; n++ {
		for _, t := range c02LTrees(n, 0) {
			for _, negLeaf := range []int{-1, idx % n} {
				idx++
				neg := map[int]bool{}
				if negLeaf >= 0 {
					neg[negLeaf] = true
				}
				E := t.render(neg)
				var rows []c02V
				for m := 0; m < 1<<n; m++ {
					rows = append(rows, c02V{K: intK, I: int64(m), Boundary: true})
				}
				// fresh activation per row
				for _, ctx := range []string{"ret", "asg", "def", "ifc", "arg", "if", "for", "sw", "andl-if", "orr-v"} {
					s := &c02Site{Cat: "logicn", Op: E, K: c02BoolKind, Form: "vv", Ctx: ctx, Xs: rows}
					g.nextID++
					s.ID = g.nextID
					decl, ok := c02Context(ctx, s.ID, c02Sig{params: "x int", args: "x", pro: decode(n, "\t")}, "bool", E)
					if !ok {
						g.nextID--
						continue
					}
					s.Decl = decl
					s.Call = fmt.Sprintf("s%d(x)", s.ID)
					for _, v := range rows {
						s.Expect = append(s.Expect, c02Tok(t.eval(int(v.I), neg)))
					}
					g.sites = append(g.sites, s)
				}
				// one activation, changing operands
				for _, ctx := range c02SeqCtxBool {
					var seq []c02V
					for rep := 0; rep < 2; rep++ {
						perm := append([]c02V{}, rows...)
						for i := len(perm) - 1; i > 0; i-- {
							j := r.intn(i + 1)
							perm[i], perm[j] = perm[j], perm[i]
						}
						seq = append(seq, perm...)
					}
					s := &c02Site{Cat: "logicn", Op: E, K: c02BoolKind, Form: "vv", Ctx: ctx, Xs: seq, ByIndex: true, Seq: true}
					g.nextID++
					s.ID = g.nextID
					pre, body, ok := c02SeqBody(ctx, s.ID, "bool", "bool", "", E, "")
					if !ok {
						g.nextID--
						continue
					}
					s.Decl = c02SeqFunc(s.ID, "", pre, "\t\tx := @T0@[i]\n"+decode(n, "\t\t"), body)
					s.Call = fmt.Sprintf("q%d()", s.ID)
					for _, v := range seq {
						s.Expect = append(s.Expect, c02Tok(t.eval(int(v.I), neg)))
					}
					g.sites = append(g.sites, s)
				}
			}
		}
	}
}
