package main

import (
	"fmt"
	"sort"
	"strconv"
	"strings"
	"unicode/utf8"
)

// C18, part 3: seeded generator of Go packages exercising every declaration kind genContent
// distinguishes. The main stream stays outside the regions of the known findings; region packages
// contain exactly one known defect shape each.

type c18RandPkg struct {
	Dir    string // directory below $GOPATH/src/vt
	Name   string // package name
	Region string // "" = main stream
	Source string
	Extra  map[string]string // sibling packages the package imports: directory below $GOPATH/src/vt -> source
	Kinds  map[string]int
}

type c18g struct {
	r        *rng
	b        strings.Builder
	imports  map[string]bool
	n        int
	structs  []string // exported own struct / named types usable as value types
	hidden   []string // unexported own types
	ifaces   []string // exported own ordinary interfaces with at least one method
	hifaces  []string // unexported own interfaces
	generics []string // exported generic struct types with one type parameter
	kinds    map[string]int
	lastKF   string
	lastKI   string
	allowed  map[string]bool   // standard packages the signatures of this package may name directly
	extra    map[string]string // sibling packages
	foreign  []c18Foreign      // interfaces of other packages that may be embedded / aliased (their import is recorded when used)
	sib      []string          // types of the sibling package dep (their printed form names the package inner)
	heavy    int               // number of floats with a very long expansion (kept small: cost inside Coq)
}

func (g *c18g) id() int { g.n++; return g.n }

func (g *c18g) use(kind string) { g.kinds[kind]++ }

func (g *c18g) pf(format string, a ...any) { fmt.Fprintf(&g.b, format, a...) }

var c18ParamNames = []string{"a", "b", "p", "n", "s", "ctx", "buf", "args", "v", "x", "key", "dst", "src", "off", "opts"}

// typ returns a type expression valid inside the generated package. own: may mention own exported types.
func (g *c18g) typ(own bool) string {
	for {
		switch g.r.intn(30) {
		case 0:
			return "int"
		case 1:
			return "string"
		case 2:
			return "bool"
		case 3:
			return "[]byte"
		case 4:
			return "float64"
		case 5:
			return "error"
		case 6:
			return "any"
		case 7:
			return "interface{}"
		case 8:
			return "[]string"
		case 9:
			return "map[string]int"
		case 10:
			return "*int"
		case 11:
			return "chan int"
		case 12:
			return "<-chan string"
		case 13:
			return "func(int) string"
		case 14:
			return "[4]byte"
		case 15:
			return "struct{}"
		case 16:
			if !g.allowed["io"] {
				continue
			}
			g.imports["io"] = true
			return g.r.pick([]string{"io.Reader", "io.Writer", "io.ReadCloser"})
		case 17:
			if !g.allowed["fmt"] {
				continue
			}
			g.imports["fmt"] = true
			return "fmt.Stringer"
		case 18:
			if !g.allowed["time"] {
				continue
			}
			g.imports["time"] = true
			return g.r.pick([]string{"time.Duration", "time.Time", "*time.Location"})
		case 19:
			if !g.allowed["context"] {
				continue
			}
			g.imports["context"] = true
			return "context.Context"
		case 20:
			if !g.allowed["bytes"] {
				continue
			}
			g.imports["bytes"] = true
			return "*bytes.Buffer"
		case 21:
			if !g.allowed["io/fs"] {
				continue
			}
			g.imports["io/fs"] = true
			return g.r.pick([]string{"fs.FileInfo", "fs.FileMode", "[]fs.DirEntry"})
		case 22:
			if !g.allowed["sync"] {
				continue
			}
			g.imports["sync"] = true
			return "*sync.Mutex"
		case 23:
			return g.r.pick([]string{"[]int", "[][]string", "[]any", "[]error", "map[string][]byte", "func(...int) error", "chan<- bool", "uint8", "rune", "uintptr", "complex128", "[]*int"})
		case 24, 25, 26:
			if own && len(g.sib) > 0 && g.r.chance(40) {
				return g.r.pick(g.sib)
			}
			if own && len(g.structs) > 0 {
				t := g.r.pick(g.structs)
				return g.r.pick([]string{"", "*", "[]"}) + t
			}
		case 27:
			if own && len(g.ifaces) > 0 {
				return g.r.pick(g.ifaces)
			}
		case 28:
			if own && len(g.generics) > 0 {
				return g.r.pick(g.generics) + "[" + g.r.pick([]string{"int", "string", "[]byte"}) + "]"
			}
		case 29:
			if g.allowed["os"] && g.r.bool() {
				// aliases declared in os for types of io/fs: the printed signature names io/fs, which the package does not import
				g.imports["os"] = true
				return g.r.pick([]string{"os.FileMode", "os.FileInfo", "[]os.DirEntry", "*os.File", "os.Signal"})
			}
			return "interface{ Len() int }"
		}
	}
}

// signature renders "(params) results" of a function or interface method.
// names: "named" | "anon"; hiddenOK: may mention unexported own types.
func (g *c18g) signature(hiddenOK bool) string {
	np := g.r.intn(4)
	named := g.r.bool()
	variadic := np > 0 && g.r.chance(40)
	perm := g.r.intn(len(c18ParamNames))
	var ps []string
	for j := 0; j < np; j++ {
		t := g.typ(true)
		if hiddenOK && len(g.hidden) > 0 && g.r.chance(30) {
			t = g.r.pick(g.hidden)
		}
		if variadic && j == np-1 {
			t = "..." + t
		}
		if named {
			ps = append(ps, c18ParamNames[(perm+j)%len(c18ParamNames)]+" "+t)
		} else {
			ps = append(ps, t)
		}
	}
	nr := g.r.intn(3)
	rnamed := nr > 0 && g.r.chance(40)
	var rs []string
	for j := 0; j < nr; j++ {
		t := g.typ(true)
		if rnamed {
			rs = append(rs, []string{"res", "err2", "ok"}[j]+" "+t)
		} else {
			rs = append(rs, t)
		}
	}
	out := "(" + strings.Join(ps, ", ") + ")"
	switch {
	case nr == 1 && !rnamed:
		out += " " + rs[0]
	case nr > 0:
		out += " (" + strings.Join(rs, ", ") + ")"
	}
	return out
}

var c18Digits = "0123456789"

// intLit: integer constants around the boundaries of every representation go/constant uses
// (int64, big.Int), and rune constants including non-printable ones.
func (g *c18g) intLit() string {
	switch g.r.intn(5) {
	case 0:
		return g.r.pick([]string{"0", "1", "-7", "42", "3 * 5 - 1", "1 << 70", "-(1 << 100) + 3", "100000000000000000000000000000000000007"})
	case 1:
		return g.r.pick([]string{"1<<63 - 1", "1 << 63", "-(1 << 63)", "-(1 << 63) - 1", "1<<64 - 1", "1 << 64", "1<<64 + 1", "9223372036854775807", "9223372036854775808", "18446744073709551615", "18446744073709551616",
			"-9223372036854775808", "-9223372036854775809", "0x7fffffffffffffff", "0xffffffffffffffff", "1<<62 + 1<<61", "1 << 500", "-(1 << 505)"})
	case 2:
		return g.r.pick([]string{"'x'", "'\\u00e9'", "'\\x00'", "'\\a'", "'\\n'", "'\\''", "'\\\\'", "'\\u2028'", "'\\U0010FFFF'", "'\\x7f'", "'世'", "'\\ufffd'", "'a' + 1", "'\\377'"})
	case 3:
		// up to 150 digits (go/types rejects integer constants beyond 512 bits)
		n := 20 + g.r.intn(130)
		var b strings.Builder
		if g.r.chance(30) {
			b.WriteString("-")
		}
		b.WriteByte(c18Digits[1+g.r.intn(9)])
		for i := 1; i < n; i++ {
			b.WriteByte(c18Digits[g.r.intn(10)])
		}
		return b.String()
	default:
		e := []int{18, 19, 20, 38, 39, 77, 100, 150}[g.r.intn(8)]
		return "1" + strings.Repeat("0", e) + g.r.pick([]string{"", " - 1", " + 1"})
	}
}

// strLit: string constants of length 0, 1, a few, around the 72-rune limit of constant.Value.String,
// several hundred and a few thousand bytes; with quotes, backslashes, control characters,
// multi-byte runes and bytes that are not valid UTF-8.
func (g *c18g) strLit() string {
	var n int
	switch g.r.intn(8) {
	case 0:
		n = 0
	case 1:
		n = 1
	case 2:
		n = 2 + g.r.intn(9)
	case 3, 4, 5:
		n = 55 + g.r.intn(30)
	case 6:
		n = 150 + g.r.intn(500)
	case 7:
		n = 1000 + g.r.intn(4500)
	}
	class := g.r.intn(6)
	pools := [][]string{
		{"a", "b", "Z", "0", "9", " ", "-", "_", "x"},
		{"\"", "\\", "'", "`", "a", "%", "q"},
		{"\n", "\t", "\r", "\x00", "\x7f", "\a", "b", " "},
		{"é", "ü", "世", "界", "😀", "\u2028", "\u00a0", "a"},
		{"\xff", "\xfe", "\xc0", "\x80", "\xed\xa0\x80", "a", "é"},
	}
	var b []byte
	for len(b) < n {
		pool := pools[0]
		switch {
		case class < 5:
			pool = pools[class]
		default:
			pool = pools[g.r.intn(5)]
		}
		b = append(b, g.r.pick(pool)...)
	}
	x := string(b)
	if n == 0 {
		x = ""
	}
	lit := strconv.Quote(x)
	if g.r.chance(15) && !strings.ContainsAny(x, "`\r\x00\a\x7f\ufeff") && utf8.ValidString(x) && x != "" {
		lit = "`" + x + "`"
	}
	if g.r.chance(10) {
		lit += " + " + strconv.Quote(g.r.pick([]string{"", "tail", "\"q\""}))
	}
	return lit
}

func (g *c18g) declConst(exported bool) {
	k := g.id()
	pre := "K"
	if !exported {
		pre = "k"
	}
	switch g.r.intn(14) {
	case 0:
		name := fmt.Sprintf("%sI%d", pre, k)
		g.pf("const %s = %s\n", name, g.intLit())
		if exported {
			g.lastKI = name
		}
		g.use("const-untyped-int")
	case 1:
		g.pf("const %sS%d = %s\n", pre, k, g.strLit())
		g.use("const-untyped-string")
	case 2:
		g.pf("const %sB%d = %s\n", pre, k, g.r.pick([]string{"true", "false", "1 < 2", "!true", `"a" == "b"`}))
		g.use("const-untyped-bool")
	case 3, 4:
		name := fmt.Sprintf("%sF%d", pre, k)
		v := g.r.pick([]string{"0.5", "2.5", "1.25e2", "3.0", "0x1p-20", "1e22", "1.0 / 4", "(1 << 62) * 1.0", "0.0", "-0.75", "6.103515625e-05", "0x1.fffffffffffffp200", "0x1p-300", "1e3", "123456789.0 / 1024", "0x1p-200 + 1", "7.0", "1 / 8.0"})
		if g.lastKF != "" && g.r.chance(25) {
			v = g.lastKF + " * 2 + 0.25"
		}
		if g.heavy < 1 && g.r.chance(12) {
			// many digits / large exponents, still exact binary fractions (numerator and denominator below 4096 bits)
			g.heavy++
			v = g.r.pick([]string{"1e100", "1e300", "0x1.fffffffffffffp+1023", "0x1p-600", "(1 << 200) + 0.5", "123456789012345678901234567890123456789.0", "0x1.0000000000000000000000000001p+90", "1e60 / 1024", "-0x1p-149", "(1<<400 + 1) / 0x1p+300"})
		}
		g.pf("const %s = %s\n", name, v)
		if exported {
			g.lastKF = name
		}
		g.use("const-untyped-float-dyadic")
	case 5:
		g.pf("const %sC%d = %s\n", pre, k, g.r.pick([]string{"1 + 2i", "0.5i", "-3i", "2.5 - 0.25i", "1i * 1i"}))
		g.use("const-untyped-complex-exact")
	case 6:
		if g.lastKI != "" {
			g.pf("const %sX%d = %s*2 + 1\n", pre, k, g.lastKI)
		} else {
			g.pf("const %sX%d = 9\n", pre, k)
		}
		g.use("const-untyped-int")
	case 7:
		g.pf("const %sT%d %s\n", pre, k, g.r.pick([]string{"int64 = 1 << 40", "int64 = -5", "int64 = 1<<63 - 1", "int64 = -1 << 63", "uint64 = 1<<64 - 1", "uint64 = 1 << 63", "int8 = -128", "uint = 0", "rune = '\\x00'", "rune = '\\U0010FFFF'", "byte = '\\n'"}))
		g.use("const-typed")
	case 8:
		g.pf("const %sTF%d float64 = %s\n", pre, k, g.r.pick([]string{"0.1", "1e300", "2.5"}))
		g.use("const-typed")
	case 9:
		g.pf("const %sTS%d string = %s\n", pre, k, g.strLit())
		g.use("const-typed")
	case 10:
		g.imports["time"] = true
		g.pf("const %sTD%d time.Duration = %s\n", pre, k, g.r.pick([]string{"5 * time.Second", "time.Millisecond", "1"}))
		g.use("const-typed")
	case 11:
		g.pf("const %sTU%d %s\n", pre, k, g.r.pick([]string{"uint8 = 200", "bool = true", "rune = 'x'", "complex128 = 1i", "uint64 = 1<<64 - 1", "float32 = 0.3"}))
		g.use("const-typed")
	case 12:
		g.pf("type Enum%d int\n\nconst (\n\tE%dA Enum%d = iota\n\tE%dB\n\tE%dC\n\te%dD\n)\n", k, k, k, k, k, k)
		g.structs = append(g.structs, fmt.Sprintf("Enum%d", k))
		g.use("const-typed-iota")
	case 13:
		g.pf("const (\n\tI%dA = iota * 10\n\tI%dB\n\t_\n\ti%dC\n\tI%dD = 1 << (iota * 20)\n\tI%dE\n)\n", k, k, k, k, k)
		g.use("const-untyped-iota")
	}
}

func (g *c18g) declVar(exported bool) {
	k := g.id()
	pre := "V"
	if !exported {
		pre = "v"
	}
	switch g.r.intn(9) {
	case 0:
		g.pf("var %s%d %s\n", pre, k, g.typ(true))
	case 1:
		g.pf("var %s%d = %s\n", pre, k, g.r.pick([]string{`"s"`, "3", "2.5", "[]int{1, 2}", "map[string]int{}", "struct{ X int }{1}", "1 + 2i", "'c'", "true"}))
	case 2:
		g.pf("var %sF%d func(int) string\n", pre, k)
	case 3:
		g.imports["errors"] = true
		g.pf("var Err%d = errors.New(\"e%d\")\n", k, k)
	case 4:
		g.pf("var %sA%d, %sB%d = 1, \"x\"\n", pre, k, pre, k)
	case 5:
		g.pf("var (\n\t%sG%d int\n\t%sH%d []string\n)\n", pre, k, pre, k)
	case 6:
		if len(g.hidden) > 0 {
			g.pf("var %sU%d %s\n", pre, k, g.r.pick(g.hidden)) // exported variable of an unexported type
		} else {
			g.pf("var %sU%d uint\n", pre, k)
		}
	case 7:
		g.pf("var %sFn%d = func(a, b int) int { return a + b }\n", pre, k)
	case 8:
		g.pf("var %sP%d *%s\n", pre, k, g.r.pick([]string{"int", "string", "[]byte"}))
	}
	g.use("var")
}

func (g *c18g) declFunc(exported bool) {
	k := g.id()
	pre := "F"
	if !exported {
		pre = "f"
	}
	switch g.r.intn(8) {
	case 0, 1, 2, 3:
		sig := g.signature(true)
		g.pf("func %s%d%s { panic(0) }\n", pre, k, sig)
		if strings.Contains(sig, "...") {
			g.use("func-variadic")
		} else {
			g.use("func")
		}
	case 4:
		g.pf("func %sN%d(a int, b string) (n int, err error) { return }\n", pre, k)
		g.use("func-named-results")
	case 5:
		g.pf("func G%s%d[T any](x T) T { return x }\n", pre, k)
		g.use("func-generic")
	case 6:
		g.pf("func G%sK%d[K comparable, V any](m map[K]V) []K { return nil }\n", pre, k)
		g.use("func-generic")
	case 7:
		g.pf("type num%d interface{ ~int | ~float64 }\n\nfunc G%sC%d[T num%d](x, y T) T { return x + y }\n", k, pre, k, k)
		g.use("func-generic")
		g.use("iface-constraint")
	}
}

func (g *c18g) declType(exported bool) {
	k := g.id()
	switch g.r.intn(12) {
	case 0, 1:
		name := fmt.Sprintf("S%d", k)
		if !exported {
			name = fmt.Sprintf("s%d", k)
		}
		g.pf("type %s struct {\n\tA int\n\tb string\n\tC %s\n}\n\nfunc (x %s) Get() int { return x.A }\nfunc (x *%s) set(v int) { x.A = v }\n", name, g.typ(false), name, name)
		if exported {
			g.structs = append(g.structs, name)
		} else {
			g.hidden = append(g.hidden, name)
		}
		g.use("type-struct")
	case 2:
		name := fmt.Sprintf("N%d", k)
		if !exported {
			name = fmt.Sprintf("n%d", k)
		}
		g.pf("type %s %s\n", name, g.r.pick([]string{"int", "string", "float64", "[]string", "map[string]int", "func(int) string", "chan int", "[3]int", "*int"}))
		if exported {
			g.structs = append(g.structs, name)
		} else {
			g.hidden = append(g.hidden, name)
		}
		g.use("type-named")
	case 3:
		name := fmt.Sprintf("G%d", k)
		g.pf("type %s[T any] struct{ X T }\n\nfunc (g %s[T]) Get() T { return g.X }\n", name, name)
		g.generics = append(g.generics, name)
		g.use("type-generic")
	case 4:
		g.pf("type GP%d[K comparable, V any] map[K]V\n", k)
		g.use("type-generic")
	case 5:
		g.pf("type GI%d[T any] interface{ Get() T }\n", k)
		g.use("type-generic-iface")
	case 6:
		if len(g.structs) > 0 {
			g.pf("type A%d = %s\n", k, g.r.pick(g.structs))
		} else {
			g.pf("type A%d = int\n", k)
		}
		g.use("alias")
	case 7:
		if f, ok := g.pickForeign(map[string]bool{}); ok {
			g.useForeign(f)
			g.pf("type AI%d = %s\n", k, f.Expr)
		} else {
			g.pf("type AI%d = %s\n", k, g.r.pick([]string{"error", "interface{ Len() int }"}))
		}
		g.use("alias-iface")
	case 8:
		if len(g.generics) > 0 {
			g.pf("type AG%d = %s[%s]\n", k, g.r.pick(g.generics), g.r.pick([]string{"int", "string"}))
		} else {
			g.pf("type AG%d = []int\n", k)
		}
		g.use("alias")
	case 9:
		g.pf("type AL%d = %s\n", k, g.r.pick([]string{"[]int", "struct{ X int }", "func(int)", "map[string]bool", "*int"}))
		g.use("alias")
	case 10:
		if len(g.hidden) > 0 {
			g.pf("type AH%d = %s\n", k, g.r.pick(g.hidden)) // exported alias of an unexported type
		} else {
			g.pf("type AH%d = uint16\n", k)
		}
		g.use("alias")
	case 11:
		if len(g.generics) > 0 {
			g.pf("type D%d %s[string]\n", k, g.r.pick(g.generics)) // defined type whose underlying type is an instantiation
		} else {
			g.pf("type D%d struct{}\n", k)
		}
		g.use("type-named")
	}
}

// interfaces declared in other packages. Embedding (or aliasing) one of them promotes methods whose
// signatures name packages the generated package does not import itself (Third).
type c18Foreign struct {
	Expr    string
	Import  string
	Methods []string
	Third   string
	Heavy   bool // expensive to type-check from source: used rarely
}

var c18ForeignIfaces = []c18Foreign{
	{"fs.FileInfo", "io/fs", []string{"Name", "Size", "Mode", "ModTime", "IsDir", "Sys"}, "time", false},
	{"fs.DirEntry", "io/fs", []string{"Name", "IsDir", "Type", "Info"}, "", false},
	{"fs.File", "io/fs", []string{"Stat", "Read", "Close"}, "", false},
	{"context.Context", "context", []string{"Deadline", "Done", "Err", "Value"}, "time", false},
	{"image.Image", "image", []string{"ColorModel", "Bounds", "At"}, "image/color", false},
	{"draw.Image", "image/draw", []string{"ColorModel", "Bounds", "At", "Set"}, "image, image/color", false},
	{"heap.Interface", "container/heap", []string{"Len", "Less", "Swap", "Push", "Pop"}, "", false},
	{"hash.Hash", "hash", []string{"Write", "Sum", "Reset", "Size", "BlockSize"}, "", false},
	{"hash.Hash32", "hash", []string{"Write", "Sum", "Reset", "Size", "BlockSize", "Sum32"}, "", false},
	{"io.ReadWriteCloser", "io", []string{"Read", "Write", "Close"}, "", false},
	{"io.ReadSeeker", "io", []string{"Read", "Seek"}, "", false},
	{"io.Reader", "io", []string{"Read"}, "", false},
	{"io.Closer", "io", []string{"Close"}, "", false},
	{"sort.Interface", "sort", []string{"Len", "Less", "Swap"}, "", false},
	{"error", "", []string{"Error"}, "", false},
	{"fmt.Stringer", "fmt", []string{"String"}, "", true},
	{"os.FileInfo", "os", []string{"Name", "Size", "Mode", "ModTime", "IsDir", "Sys"}, "io/fs, time", true},
	{"flag.Value", "flag", []string{"String", "Set"}, "", true},
	{"driver.ConnBeginTx", "database/sql/driver", []string{"BeginTx"}, "context", true},
	{"net.Conn", "net", []string{"Read", "Write", "Close", "LocalAddr", "RemoteAddr", "SetDeadline", "SetReadDeadline", "SetWriteDeadline"}, "time", true},
}

// one declaration that uses the import whatever the random choices were
var c18ImportAnchor = map[string]string{
	"io": "var _ = io.EOF", "fmt": "var _ = fmt.Sprint", "time": "var _ = time.Now", "context": "var _ = context.Background", "bytes": "var _ = bytes.NewBuffer",
	"io/fs": "var _ = fs.ErrNotExist", "sync": "var _ = sync.NewCond", "errors": "var _ = errors.New", "sort": "var _ = sort.Ints", "image": "var _ = image.Pt",
	"image/draw": "var _ = draw.Draw", "container/heap": "var _ = heap.Init", "hash": "var _ hash.Hash", "os": "var _ = os.Getpid", "flag": "var _ = flag.Parse",
	"net": "var _ = net.Dial", "database/sql/driver": "var _ = driver.ErrSkip",
}

func (g *c18g) useForeign(f c18Foreign) {
	if f.Import != "" {
		g.imports[f.Import] = true
	}
	if f.Third != "" {
		g.use("foreign-iface-with-third-package")
	} else {
		g.use("foreign-iface")
	}
}

// pickForeign returns a foreign interface none of whose methods is in used.
func (g *c18g) pickForeign(used map[string]bool) (c18Foreign, bool) {
	if len(g.foreign) == 0 {
		return c18Foreign{}, false
	}
	for try := 0; try < 4; try++ {
		f := g.foreign[g.r.intn(len(g.foreign))]
		ok := true
		for _, m := range f.Methods {
			if used[m] {
				ok = false
			}
		}
		if ok {
			return f, true
		}
	}
	return c18Foreign{}, false
}

// siblings writes two small packages next to the package (dep imports inner) and makes dep's
// interfaces and aliases available; the package itself imports dep only.
func (g *c18g) siblings(dir string) {
	inner := "vt/" + dir + "/inner"
	dep := "vt/" + dir + "/dep"
	g.extra[dir+"/inner"] = "package inner\n\nimport \"time\"\n\ntype T struct{ X int }\n\ntype Clock interface {\n\tNow() time.Time\n\tSince(t T) time.Duration\n}\n\nfunc New() *T { return &T{} }\n"
	g.extra[dir+"/dep"] = fmt.Sprintf("package dep\n\nimport (\n\t\"time\"\n\n\t%q\n)\n\ntype Alias = inner.T\n\ntype AliasClock = inner.Clock\n\ntype Base interface {\n\tWhen() time.Time\n\tPeer(p *inner.T, more ...inner.T) inner.T\n\tTick(c inner.Clock) error\n}\n\ntype Deep interface {\n\tBase\n\tinner.Clock\n}\n\nfunc Make() *inner.T { return inner.New() }\n", inner)
	g.imports[dep] = true
	g.foreign = append(g.foreign,
		c18Foreign{"dep.Base", dep, []string{"When", "Peer", "Tick"}, "time, inner", false},
		c18Foreign{"dep.Deep", dep, []string{"When", "Peer", "Tick", "Now", "Since"}, "time, inner", false},
		c18Foreign{"dep.AliasClock", dep, []string{"Now", "Since"}, "time, inner", false})
	g.sib = append(g.sib, "dep.Alias", "*dep.Alias", "[]dep.Alias", "dep.AliasClock", "dep.Base")
	g.use("sibling-packages")
}

var c18MethNames = []string{"Read", "Write", "Close", "Len", "Less", "Swap", "Get", "Set", "Do", "Call", "Visit", "Printf", "Add", "Next", "Reset", "Sum", "Open", "Lookup", "Walk", "Apply", "Error", "Flush"}

func (g *c18g) declIface(exported bool) {
	k := g.id()
	name := fmt.Sprintf("I%d", k)
	if !exported {
		name = fmt.Sprintf("i%d", k)
	}
	switch g.r.intn(12) {
	case 0:
		g.pf("type %s interface{}\n", name)
		g.use("iface-empty")
		return
	case 1:
		g.pf("type C%d interface{ %s }\n", k, g.r.pick([]string{"~int | ~string", "comparable", "int | float64", "~[]byte", "comparable; ~int"}))
		g.use("iface-constraint")
		return
	}
	var lines []string
	used := map[string]bool{}
	nm := 1 + g.r.intn(4)
	perm := g.r.intn(len(c18MethNames))
	for j := 0; j < nm; j++ {
		mn := c18MethNames[(perm+j*3)%len(c18MethNames)]
		if used[mn] {
			continue
		}
		used[mn] = true
		sig := g.signature(false)
		lines = append(lines, "\t"+mn+sig)
		if strings.Contains(sig, "...") {
			g.use("method-variadic")
		}
	}
	if g.r.chance(30) {
		lines = append(lines, "\tString() string")
		used["String"] = true
		g.use("method-String")
	}
	if g.r.chance(40) {
		h := fmt.Sprintf("hidden%d", k)
		lines = append(lines, "\t"+h+g.signature(true))
		g.use("method-unexported")
	}
	if g.r.chance(60) {
		// embedded interfaces (depth grows when an own interface that already embeds is embedded again)
		switch g.r.intn(6) {
		case 0, 1, 2:
			if f, ok := g.pickForeign(used); ok {
				g.useForeign(f)
				lines = append(lines, "\t"+f.Expr)
				for _, m := range f.Methods {
					used[m] = true
				}
				if f2, ok := g.pickForeign(used); ok && g.r.chance(30) {
					g.useForeign(f2)
					lines = append(lines, "\t"+f2.Expr)
				}
			}
		case 3, 4:
			if len(g.ifaces) > 0 {
				lines = append(lines, "\t"+g.r.pick(g.ifaces))
				lines = lines[len(lines)-1:] // only the embedded one plus nothing else that could conflict
				if g.r.bool() {
					lines = append(lines, fmt.Sprintf("\tExtra%d(int) error", k))
				}
			}
		case 5:
			if len(g.hifaces) > 0 {
				lines = []string{"\t" + g.r.pick(g.hifaces), fmt.Sprintf("\tMore%d()", k)}
			}
		}
		g.use("iface-embedding")
	}
	g.pf("type %s interface {\n%s\n}\n", name, strings.Join(lines, "\n"))
	if exported {
		g.ifaces = append(g.ifaces, name)
	} else {
		g.hifaces = append(g.hifaces, name)
	}
	g.use("iface")
}

var c18PkgNames = []string{"alpha", "beta", "gamma", "delta", "util", "model", "store", "codec", "shape", "kit"}
var c18DirForms = []string{"%s", "my-%s", "%s.v2", "x~%s", "sub/%s", "a.b/%s-go"}

func (g *c18g) finish(dir, name, region string) c18RandPkg {
	var hdr strings.Builder
	fmt.Fprintf(&hdr, "package %s\n\n", name)
	if len(g.imports) > 0 {
		hdr.WriteString("import (\n")
		for _, p := range sortedKeys(g.imports) {
			fmt.Fprintf(&hdr, "\t%q\n", p)
		}
		hdr.WriteString(")\n\n")
		// keep every import used whatever the random choices were
		for _, p := range sortedKeys(g.imports) {
			if a, ok := c18ImportAnchor[p]; ok {
				hdr.WriteString(a + "\n")
			} else if strings.HasSuffix(p, "/dep") {
				hdr.WriteString("var _ = dep.Make\n")
			}
		}
		hdr.WriteString("\n")
	}
	return c18RandPkg{Dir: dir, Name: name, Region: region, Source: hdr.String() + g.b.String(), Extra: g.extra, Kinds: g.kinds}
}

func c18NewGen(r *rng) *c18g {
	g := &c18g{r: r, imports: map[string]bool{}, kinds: map[string]int{}, allowed: map[string]bool{}, extra: map[string]string{}}
	// each package names only a few standard packages directly, so that packages reached through
	// promoted methods are often NOT among its direct imports
	for _, p := range []string{"io", "time", "context", "bytes", "io/fs", "sync"} {
		if r.chance(30) {
			g.allowed[p] = true
		}
	}
	for _, p := range []string{"fmt", "os"} {
		if r.chance(6) {
			g.allowed[p] = true
		}
	}
	n := r.intn(4)
	for i := 0; i < n; i++ {
		f := c18ForeignIfaces[r.intn(len(c18ForeignIfaces))]
		if f.Heavy && !r.chance(12) {
			continue
		}
		g.foreign = append(g.foreign, f)
	}
	return g
}

func (g *c18g) body(n int) {
	for i := 0; i < n; i++ {
		exported := g.r.chance(75)
		switch g.r.intn(10) {
		case 0, 1, 2:
			g.declConst(exported)
		case 3:
			g.declVar(exported)
		case 4, 5:
			g.declFunc(exported)
		case 6, 7:
			g.declType(exported)
		default:
			g.declIface(exported)
		}
		g.b.WriteString("\n")
	}
}

// c18GenMain: one main-stream package.
func c18GenMain(r *rng, idx int) c18RandPkg {
	g := c18NewGen(r)
	name := r.pick(c18PkgNames)
	dir := fmt.Sprintf("m%04d/", idx) + fmt.Sprintf(r.pick(c18DirForms), name)
	// every main-stream package has at least one identifier-bound exported object
	g.pf("func Anchor%d() int { return %d }\n\n", idx, idx)
	if r.chance(35) {
		g.siblings(dir)
	}
	g.body(8 + r.intn(22))
	return g.finish(dir, name, "")
}

// c18GenMatrix: one main-stream package sweeping the shapes of interface declarations:
//   own methods {none, exported, unexported, both} x embeds {nothing, interface with exported methods,
//   interface with only unexported methods (the sealed-interface idiom), empty interface, constraint},
// each as an exported and as an unexported declaration, plus an alias of every exported one and a second
// level of embedding. Every cell the contract binds is in this package in every run; the four cells
// the unchanged extractor gets wrong (none x empty; methods x constraint) are in the region streams
// "embedded-empty-dropped" and "constraint-with-methods".
func c18GenMatrix(r *rng, idx int) c18RandPkg {
	g := c18NewGen(r)
	name := r.pick(c18PkgNames)
	dir := fmt.Sprintf("x%04d/", idx) + fmt.Sprintf(r.pick(c18DirForms), name)
	g.pf("func Anchor%d() int { return %d }\n\n", idx, idx)
	// the embeddable interfaces (exported and unexported declarations of each kind)
	g.pf("type PubE interface {\n\tPub%s\n}\n\ntype pubE interface {\n\tPubq%s\n}\n\n", g.signature(false), g.signature(false))
	g.pf("type SealE interface {\n\tsealA%s\n}\n\ntype sealE interface {\n\tsealB()\n\tsealC%s\n}\n\n", g.signature(true), g.signature(true))
	g.pf("type EmptyE interface{}\n\ntype emptyE interface{}\n\n")
	g.pf("type ConE interface{ %s }\n\ntype conE interface{ %s }\n\n", r.pick([]string{"~int | ~string", "comparable", "int | float64"}), r.pick([]string{"~int | ~string", "comparable", "~[]byte"}))
	embeds := [][]string{{""}, {"PubE", "pubE", "error"}, {"SealE", "sealE"}, {"EmptyE", "emptyE", "any", "interface{}"}, {"ConE", "conE", "comparable", "~int"}}
	embName := []string{"None", "Pub", "Seal", "Empty", "Con"}
	ownName := []string{"None", "Exp", "Unexp", "Both"}
	n := 0
	var exported []string
	for own := 0; own < 4; own++ {
		for emb := 0; emb < 5; emb++ {
			if (own == 0 && emb == 3) || (own != 0 && emb == 4) {
				continue // the regions of the open findings
			}
			for _, exp := range []bool{true, false} {
				n++
				tn := fmt.Sprintf("M%s%s%d", ownName[own], embName[emb], n)
				if !exp {
					tn = "m" + tn[1:]
				}
				var lines []string
				if own == 1 || own == 3 {
					lines = append(lines, fmt.Sprintf("\tDo%d%s", n, g.signature(false)))
					if r.bool() {
						lines = append(lines, fmt.Sprintf("\tRun%d%s", n, g.signature(false)))
					}
				}
				if own == 2 || own == 3 {
					lines = append(lines, fmt.Sprintf("\tdo%d%s", n, g.signature(true)))
					if r.bool() {
						lines = append(lines, fmt.Sprintf("\tis%d()", n))
					}
				}
				if emb != 0 {
					lines = append(lines, "\t"+r.pick(embeds[emb]))
					if r.chance(25) && (emb == 2 || emb == 3) {
						lines = append(lines, "\t"+r.pick(embeds[emb])) // two embedded interfaces of the same kind (duplicates are legal)
					}
				}
				if len(lines) == 0 {
					g.pf("type %s interface{}\n\n", tn)
				} else {
					g.pf("type %s interface {\n%s\n}\n\n", tn, strings.Join(lines, "\n"))
				}
				g.use(fmt.Sprintf("iface-cell:own=%s,embeds=%s,exported=%v", ownName[own], embName[emb], exp))
				if exp && !(own == 0 && (emb == 4 || emb == 0)) { // not the constraint, not the empty interface (embedding only that one is a region)
					exported = append(exported, tn)
				}
			}
		}
	}
	// second level: embedding / aliasing the interfaces above keeps their classification
	for i := 0; i < 4 && len(exported) > 0; i++ {
		e := exported[r.intn(len(exported))]
		switch r.intn(3) {
		case 0:
			g.pf("type L2x%d interface{ %s }\n\n", i, e)
		case 1:
			g.pf("type L2a%d = %s\n\n", i, e)
		case 2:
			g.pf("type L2m%d interface {\n\t%s\n\tlevel%d()\n}\n\n", i, e, i)
		}
	}
	g.use("iface-matrix")
	return g.finish(dir, name, "")
}

var c18Regions = []string{"float-const-inexact", "complex-const-inexact", "restricted-by-name", "blank-param", "recv-clash", "string-shape",
	"member-clash", "unexported-type", "constraint-with-methods", "embedded-empty-dropped", "import-name-clash", "unused-import"}

// c18GenRegion: a small valid package with one shape from the given known-finding region.
func c18GenRegion(r *rng, idx int, region string) c18RandPkg {
	g := c18NewGen(r)
	name := r.pick(c18PkgNames)
	anchor := true
	k := idx
	switch region {
	case "float-const-inexact":
		n := 1 + r.intn(3)
		for i := 0; i < n; i++ {
			g.pf("const Q%d_%d = %s\n", k, i, r.pick([]string{"0.1", "1.0 / 3", "3.14159265358979323846264338327950288419716939937510582097494459", "1e-7", "2.5e-3", "-0.3", "1e23 / 3", "2.0 / 7e5", "1.1e10 / 9", "0.7 + 1<<40", "6.02214076e23 / 1e30", "1 / 3.0e-20", "0.12345678901234567890123456789012345678901234567890123456789", "1e-300", "1.7976931348623157e308 / 3", "2.2250738585072014e-308", "1e-40 + 1e40"}))
		}
	case "complex-const-inexact":
		g.pf("const Z%d = %s\n", k, r.pick([]string{"0.1i", "1.5 + 0.3i", "1.0/3 - 2i", "1e-7 + 1e-7i"}))
	case "restricted-by-name":
		if r.bool() {
			name = "log"
			switch r.intn(4) {
			case 0:
				g.pf("func Fatal(v ...any) {}\n")
			case 1:
				g.pf("type Logger struct{ Level int }\n")
			case 2:
				g.pf("func New(prefix string) int { return 0 }\nfunc Fatalf(format string, v ...any) {}\n")
			case 3:
				g.pf("var Logger = struct{ X int }{1}\nfunc Fatalln(v ...any) {}\n")
			}
		} else {
			name = "os"
			if r.bool() {
				g.pf("func Exit(code int) {}\n")
			} else {
				g.pf("func FindProcess(pid int) (int, error) { return pid, nil }\n")
			}
		}
	case "blank-param":
		g.pf("type Visitor%d interface {\n\tVisit(_ int, x string) error\n%s}\n", k, r.pick([]string{"", "\tDone()\n"}))
	case "recv-clash":
		g.imports["io"] = true
		g.pf("type Doer%d interface {\n\t%s\n}\n", k, r.pick([]string{"Do(W io.Writer) (n int)", "Do() (W int)", "Do(a int, W string)"}))
	case "string-shape":
		g.pf("type Str%d interface {\n\t%s\n}\n", k, r.pick([]string{"String(x int) (string, error)", "String()", "String() int", "String() (string, bool)", "String() []byte"}))
	case "member-clash":
		g.pf("type Clash%d interface {\n%s}\n", k, r.pick([]string{"\tIValue() int\n", "\tFoo()\n\tWFoo()\n", "\tWrite(p []byte)\n\tWWrite()\n"}))
	case "unexported-type":
		g.pf("type hid%d struct{ x int }\n\ntype Uses%d interface {\n\t%s\n}\n", k, k, r.pick([]string{
			fmt.Sprintf("M(x hid%d)", k), fmt.Sprintf("M() *hid%d", k), fmt.Sprintf("M(xs ...hid%d) error", k), fmt.Sprintf("M(m map[string][]hid%d)", k)}))
	case "constraint-with-methods":
		// own methods exported / unexported / both, by turns
		switch idx % 3 {
		case 0:
			g.pf("type Con%d interface {\n\t%s\n}\n", k, r.pick([]string{"~string\n\tString() string", "comparable\n\tM()", "~int | ~int64\n\tAdd(int) int", "int\n\tM(a ...string)"}))
		case 1:
			g.pf("type Con%d interface {\n\t%s\n}\n", k, r.pick([]string{"~string\n\tsealed()", "comparable\n\tm(int) error", "~int | ~int64\n\tadd(int) int"}))
		case 2:
			g.pf("type Con%d interface {\n\t%s\n}\n", k, r.pick([]string{"~string\n\tString() string\n\tsealed()", "comparable\n\tM()\n\tm()"}))
		}
	case "embedded-empty-dropped":
		switch idx % 3 {
		case 0:
			g.pf("type Empty%d interface{}\n\ntype Emb%d interface{ Empty%d }\n", k, k, k)
		case 1:
			g.pf("type Any%d interface{ any }\n", k)
		case 2:
			g.pf("type e%d interface{}\n\ntype Both%d interface {\n\te%d\n\tany\n}\n", k, k, k)
		}
	case "import-name-clash":
		switch r.intn(3) {
		case 0:
			name = "reflect"
		case 1:
			name = "token"
			g.pf("const LowestPrec%d = 0\n", k)
		case 2:
			name = "constant"
			g.pf("const Kind%d = \"k\"\n", k)
		}
	case "unused-import":
		anchor = false
		n := 1 + r.intn(4)
		for i := 0; i < n; i++ {
			g.pf("const U%d_%d = %s\n", k, i, r.pick([]string{"1", `"x"`, "0.5", "1 << 80", "'r'", "-2"}))
		}
		if r.bool() {
			g.pf("func GOnly%d[T any](x T) T { return x }\n", k) // generic: not bound
		}
		if r.bool() {
			g.pf("var hidden%d int\n", k)
		}
	}
	if anchor {
		g.pf("\nfunc Anchor%d() int { return %d }\n\n", idx, idx)
		// a few ordinary declarations around the defect (none that could add a second defect)
		for i := 0; i < 3+r.intn(4); i++ {
			switch r.intn(4) {
			case 0:
				g.declVar(true)
			case 1:
				g.declFunc(true)
			case 2:
				g.declType(true)
			case 3:
				g.pf("const KI%d = %d\n", g.id(), r.intn(1000))
			}
		}
	}
	return g.finish(fmt.Sprintf("r%04d/%s", idx, name), name, region)
}

func c18KindsSorted(m map[string]int) []string {
	ks := make([]string, 0, len(m))
	for k := range m {
		ks = append(ks, k)
	}
	sort.Strings(ks)
	return ks
}
